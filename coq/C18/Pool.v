(* C18 - a small model of the package-level (de)compressor pools (filter.go:
   zlibReaderPool / zlibWriterPool, sync.Pool) that the pool oracle of
   harness/c18/pool.go exercises.

   A pool is a multiset of reader identities.  Opening a stream Gets a reader
   (any pooled item, or a new one - sync.Pool may return nothing at any time);
   closing a stream Puts its reader back.  The discipline "a reader is Put at
   most once per Get" is the invariant NoDup (pool ++ readers in use): every
   reader is either pooled once or used by exactly one open stream.  Under it no
   two streams that are open at the same time share a reader; one double Put
   (the closed stage is closed again by the stage above it) and two later streams
   alias.  Definitions and proofs in one file: the model is five lines. *)
From Coq Require Import List Arith Bool Lia Permutation.
Import ListNotations.

Definition rid := nat.

Record pstate := { pool : list rid; inuse : list (nat * rid); nextid : rid }.

Inductive pact :=
| POpen (s : nat) (pick : option nat)   (* stream s Gets the pooled item number pick, or a new reader *)
| PClose (s : nat)                      (* stream s is closed: its reader is Put once *)
| PCloseTwice (s : nat).                (* the defect: its reader is Put twice *)

Fixpoint remove_nth {A} (i : nat) (l : list A) : list A :=
  match i, l with
  | _, [] => []
  | O, _ :: t => t
  | S j, x :: t => x :: remove_nth j t
  end.

Fixpoint take_stream (s : nat) (l : list (nat * rid)) : option (rid * list (nat * rid)) :=
  match l with
  | [] => None
  | (s', r) :: t =>
      if Nat.eqb s' s then Some (r, t)
      else match take_stream s t with Some (r', t') => Some (r', (s', r) :: t') | None => None end
  end.

Definition pstep (st : pstate) (a : pact) : pstate :=
  match a with
  | POpen s pick =>
      match match pick with Some i => nth_error (pool st) i | None => None end, pick with
      | Some r, Some i => {| pool := remove_nth i (pool st); inuse := (s, r) :: inuse st; nextid := nextid st |}
      | _, _ => {| pool := pool st; inuse := (s, nextid st) :: inuse st; nextid := S (nextid st) |}
      end
  | PClose s =>
      match take_stream s (inuse st) with
      | Some (r, rest) => {| pool := r :: pool st; inuse := rest; nextid := nextid st |}
      | None => st
      end
  | PCloseTwice s =>
      match take_stream s (inuse st) with
      | Some (r, rest) => {| pool := r :: r :: pool st; inuse := rest; nextid := nextid st |}
      | None => st
      end
  end.

Definition prun (st : pstate) (l : list pact) : pstate := fold_left pstep l st.
Definition pinit : pstate := {| pool := []; inuse := []; nextid := 0 |}.

Definition disciplined (a : pact) : bool := match a with PCloseTwice _ => false | _ => true end.

Definition readers (st : pstate) : list rid := map snd (inuse st).

Definition pinv (st : pstate) : Prop :=
  NoDup (pool st ++ readers st) /\ forall r, In r (pool st ++ readers st) -> r < nextid st.

Lemma remove_nth_perm : forall A (l : list A) i r, nth_error l i = Some r -> Permutation l (r :: remove_nth i l).
Proof.
  induction l as [|x l IH]; intros i r H; destruct i; simpl in *; try discriminate.
  - inversion H; subst; auto.
  - apply IH in H. eapply perm_trans; [apply perm_skip; exact H|apply perm_swap].
Qed.

Lemma take_stream_perm : forall s l r rest, take_stream s l = Some (r, rest) ->
  Permutation (map snd l) (r :: map snd rest).
Proof.
  induction l as [|[s' r'] l IH]; intros r rest H; simpl in *; try discriminate.
  destruct (Nat.eqb s' s).
  - inversion H; subst; auto.
  - destruct (take_stream s l) as [[r2 t2]|]; try discriminate. inversion H; subst.
    simpl. eapply perm_trans; [apply perm_skip; apply IH; reflexivity|apply perm_swap].
Qed.

Lemma pstep_inv : forall st a, disciplined a = true -> pinv st -> pinv (pstep st a).
Proof.
  intros st a Hd [Hn Hb]. destruct a as [s pick|s|s]; try discriminate; unfold pstep.
  - assert (Fresh : pinv {| pool := pool st; inuse := (s, nextid st) :: inuse st; nextid := S (nextid st) |}).
    { unfold pinv, readers in *; simpl. split.
      - eapply Permutation_NoDup; [apply Permutation_middle|]. constructor; auto.
        intros Hin. apply Hb in Hin. lia.
      - intros r Hin. apply in_app_or in Hin. destruct Hin as [Hin|[<-|Hin]]; try lia.
        + assert (r < nextid st) by (apply Hb; apply in_or_app; auto). lia.
        + assert (r < nextid st) by (apply Hb; apply in_or_app; auto). lia. }
    destruct pick as [i|]; auto.
    destruct (nth_error (pool st) i) as [r|] eqn:En; auto.
    pose proof (remove_nth_perm _ _ _ _ En) as Hp.
    assert (P : Permutation (pool st ++ readers st) (remove_nth i (pool st) ++ r :: readers st)).
    { eapply perm_trans; [apply Permutation_app_tail; exact Hp|]. simpl. apply Permutation_middle. }
    unfold pinv, readers in *; simpl. split.
    + eapply Permutation_NoDup; eauto.
    + intros x Hin. apply Hb. eapply Permutation_in; [apply Permutation_sym; exact P|exact Hin].
  - destruct (take_stream s (inuse st)) as [[r rest]|] eqn:Et; [|split; auto].
    pose proof (take_stream_perm _ _ _ _ Et) as Hp.
    assert (P : Permutation (pool st ++ readers st) ((r :: pool st) ++ map snd rest)).
    { unfold readers. eapply perm_trans; [apply Permutation_app_head; exact Hp|].
      simpl. apply Permutation_sym. apply Permutation_middle. }
    unfold pinv, readers in *; simpl. split.
    + eapply Permutation_NoDup; eauto.
    + intros x Hin. apply Hb. eapply Permutation_in; [apply Permutation_sym; exact P|exact Hin].
Qed.

Lemma nodup_app_r : forall A (l1 l2 : list A), NoDup (l1 ++ l2) -> NoDup l2.
Proof. induction l1; simpl; intros; auto. inversion H; auto. Qed.

Lemma prun_inv : forall l st, forallb disciplined l = true -> pinv st -> pinv (prun st l).
Proof.
  induction l as [|a l IH]; intros st Hd Hi; simpl in *; auto.
  apply andb_true_iff in Hd. destruct Hd. apply IH; auto. apply pstep_inv; auto.
Qed.

(* streams that are open at the same time never share a reader *)
Theorem pool_no_sharing_lemma : forall l, forallb disciplined l = true -> NoDup (readers (prun pinit l)).
Proof.
  intros l Hd. assert (I : pinv pinit) by (split; simpl; [constructor|intros r []]).
  destruct (prun_inv l pinit Hd I) as [Hn _]. eapply nodup_app_r; eauto.
Qed.

(* one double Put and two later streams use the same reader (C18-4: a stage closed by the chain and
   again by the stage above it) *)
Example double_put_aliases_lemma :
  readers (prun pinit [POpen 0 None; PCloseTwice 0; POpen 1 (Some 0); POpen 2 (Some 0)]) = [0; 0].
Proof. reflexivity. Qed.
