(* C18 - DecodeExclusive: the wip / pending hand-over.
   Every pending entry that is still open has exactly one holder (the call that
   registered it and will publish it); wip maps a key to its open entry. *)
From Coq Require Import List Arith Bool Lia.
From GoPdf.C18 Require Import Cache CacheLemmas CacheInv.
Import ListNotations.

Section Excl.
Variable next : ref -> option ref.
Variable body : ref -> ty -> list op.
Variable fails isnil : ref -> ty -> bool.
Variable maxdepth : nat.

Notation stepT := (step_thread next body fails isnil maxdepth store_or_load).
Notation stepS := (step next body fails isnil maxdepth store_or_load).
Notation nextop := (next_op fails isnil).
Notation retdec := (ret_decode fails isnil).
Notation reach := (reach next body fails isnil maxdepth).

Definition pc_pid (p : pcs) : option pid :=
  match p with
  | PProbe c _ _ _ | PGet c _ _ _ | PDecode c _ _ _ | PStore c _ _ => cex c
  | PExPub _ _ p _ => Some p
  | _ => None
  end.

Definition frame_pid (f : frame) : option pid :=
  match fown f with Some (c, _, _) => cex c | None => None end.

Definition cnt (o : option pid) (q : pid) : nat :=
  match o with Some p => if Nat.eqb p q then 1 else 0 | None => 0 end.

Fixpoint hc_stk (stk : list frame) (q : pid) : nat :=
  match stk with [] => 0 | f :: t => cnt (frame_pid f) q + hc_stk t q end.

Definition hc_th (th : thread) (q : pid) : nat := cnt (pc_pid (tpc th)) q + hc_stk (tstk th) q.

Fixpoint hc_all (l : list thread) (q : pid) : nat :=
  match l with [] => 0 | th :: t => hc_th th q + hc_all t q end.

Lemma hc_next_op : forall tid q stk fr lg,
  match nextop tid stk fr lg with (p, stk', _, _) => cnt (pc_pid p) q + hc_stk stk' q = hc_stk stk q end.
Proof.
  induction stk as [|f below IH]; intros; simpl; auto.
  destruct f as [rest path own]; simpl.
  destruct rest as [|o rest].
  - destruct own as [[[c e] refs]|]; simpl; auto.
    destruct (fails e (cty c)); simpl; auto.
    destruct (cex c) eqn:Ex; simpl.
    + unfold frame_pid; simpl. rewrite Ex; auto.
    + specialize (IH fr (EDec tid c (Err EDecode) :: lg)).
      destruct (nextop tid below fr (EDec tid c (Err EDecode) :: lg)) as [[[p stk'] fr'] lg'].
      unfold frame_pid; simpl. rewrite Ex; simpl. auto.
  - destruct o; simpl; auto.
Qed.

Lemma hc_ret_decode : forall tid q c o stk fr lg,
  match retdec tid c o stk fr lg with (p, stk', _, _) => cnt (pc_pid p) q + hc_stk stk' q = cnt (cex c) q + hc_stk stk q end.
Proof.
  intros. unfold ret_decode. destruct (cex c) eqn:Ex; simpl; auto.
  pose proof (hc_next_op tid q stk fr (EDec tid c o :: lg)).
  destruct (nextop tid stk fr (EDec tid c o :: lg)) as [[[p stk'] fr'] lg']. auto.
Qed.

Lemma hc_all_set_nth : forall ths tid th th' q, nth_error ths tid = Some th ->
  hc_all (set_nth tid th' ths) q + hc_th th q = hc_all ths q + hc_th th' q.
Proof.
  induction ths as [|t0 ths IH]; intros tid th th' q H; destruct tid; simpl in *; try discriminate.
  - inversion H; subst. lia.
  - specialize (IH _ _ th' q H). lia.
Qed.

Lemma hc_all_in : forall ths th q, In th ths -> hc_th th q <= hc_all ths q.
Proof.
  induction ths; simpl; intros; try contradiction. destruct H; subst; try lia.
  specialize (IHths _ q H). lia.
Qed.

Lemma hc_all_two : forall ths i j thi thj q, i <> j ->
  nth_error ths i = Some thi -> nth_error ths j = Some thj -> hc_th thi q + hc_th thj q <= hc_all ths q.
Proof.
  induction ths as [|t0 ths IH]; intros i j thi thj q N Hi Hj; destruct i, j; simpl in *; try discriminate; try congruence.
  - inversion Hi; subst. apply nth_error_In in Hj. pose proof (hc_all_in _ _ q Hj). lia.
  - inversion Hj; subst. apply nth_error_In in Hi. pose proof (hc_all_in _ _ q Hi). lia.
  - assert (i <> j) by congruence. specialize (IH _ _ _ _ q H Hi Hj). lia.
Qed.

Lemma hc_all_pos : forall ths q, 0 < hc_all ths q -> exists th, In th ths /\ 0 < hc_th th q.
Proof.
  induction ths; simpl; intros; try lia.
  destruct (Nat.eq_dec (hc_th a q) 0).
  - destruct (IHths q) as [th [H1 H2]]; try lia. exists th; auto.
  - exists a; split; auto; lia.
Qed.

(* how one step changes the holders, wip and the pending entries *)
Inductive hc_change (s s' : shared) (th th' : thread) : Prop :=
| hc_same : wip s' = wip s -> pends s' = pends s -> (forall q, hc_th th' q = hc_th th q) -> hc_change s s' th th'
| hc_new k : lookup (wip s) k = None -> wip s' = (k, length (pends s)) :: wip s ->
    pends s' = pends s ++ [(k, None)] ->
    (forall q, hc_th th' q = hc_th th q + (if Nat.eqb (length (pends s)) q then 1 else 0)) ->
    hc_change s s' th th'
| hc_pub r t p o : tpc th = PExPub r t p o -> wip s' = remove_key (wip s) (r, t) ->
    pends s' = set_nth p ((r, t), Some o) (pends s) ->
    (forall q, hc_th th q = hc_th th' q + (if Nat.eqb p q then 1 else 0)) ->
    hc_change s s' th th'.

Lemma upd_eq : forall s ca wi pe p stk fr lg s' th',
  upd s ca wi pe (p, stk, fr, lg) = (s', th') ->
  cache s' = ca /\ wip s' = wi /\ pends s' = pe /\ fresh s' = fr /\ log s' = lg /\ tpc th' = p /\ tstk th' = stk.
Proof. unfold upd; intros; inversion H; subst; simpl; repeat split; auto. Qed.

Lemma step_thread_hc : forall tid s th s' th', stepT tid s th = Some (s', th') -> hc_change s s' th th'.
Proof.
  intros tid s [pc stk] s' th' Hstep.
  unfold step_thread, same, park in Hstep; cbn [tpc tstk] in Hstep.
  destruct pc.
  - (* PIdle *)
    apply some_inj in Hstep. pose proof (fun q => hc_next_op tid q stk (fresh s) (log s)) as H.
    destruct (nextop tid stk (fresh s) (log s)) as [[[p stk'] fr'] lg'].
    apply upd_eq in Hstep. destruct Hstep as [_ [Hw [Hpe [_ [_ [Hp Hs]]]]]].
    apply hc_same; auto. intros q. unfold hc_th; simpl. rewrite Hp, Hs. apply H.
  - (* PProbe *)
    assert (R : forall o, Some (upd s (cache s) (wip s) (pends s) (retdec tid c o stk (fresh s) (log s))) = Some (s', th') -> hc_change s s' {| tpc := PProbe c cur refs path; tstk := stk |} th').
    { intros o Hs. apply some_inj in Hs.
      pose proof (fun q => hc_ret_decode tid q c o stk (fresh s) (log s)) as H.
      destruct (retdec tid c o stk (fresh s) (log s)) as [[[p stk'] fr'] lg'].
      apply upd_eq in Hs. destruct Hs as [_ [Hw [Hpe [_ [_ [Hp Hs]]]]]].
      apply hc_same; auto. intros q. unfold hc_th; simpl. rewrite Hp, Hs. apply H. }
    destruct (lookup (cache s) (cur, cty c)); [eapply R; eauto|].
    destruct (mem cur path); [eapply R; eauto|].
    destruct (maxdepth <? S (length path)); [eapply R; eauto|].
    inversion Hstep; subst. apply hc_same; auto.
  - (* PGet *)
    destruct (next cur); inversion Hstep; subst; apply hc_same; auto.
  - (* PDecode *)
    apply some_inj in Hstep.
    pose proof (fun q => hc_next_op tid q ({| frest := body e (cty c); fpath := path; fown := Some (c, e, refs) |} :: stk) (fresh s) (ERun tid c e :: log s)) as H.
    destruct (nextop tid ({| frest := body e (cty c); fpath := path; fown := Some (c, e, refs) |} :: stk) (fresh s) (ERun tid c e :: log s)) as [[[p stk'] fr'] lg'].
    apply upd_eq in Hstep. destruct Hstep as [_ [Hw [Hpe [_ [_ [Hp Hs]]]]]].
    apply hc_same; auto. intros q. unfold hc_th; simpl. rewrite Hp, Hs. rewrite H. simpl. auto.
  - (* PStore *)
    destruct (store_or_load (cache s) refs (cty c) v) as [ca v'].
    apply some_inj in Hstep.
    pose proof (fun q => hc_ret_decode tid q c (Ok v') stk (fresh s) (log s)) as H.
    destruct (retdec tid c (Ok v') stk (fresh s) (log s)) as [[[p stk'] fr'] lg'].
    apply upd_eq in Hstep. destruct Hstep as [_ [Hw [Hpe [_ [_ [Hp Hs]]]]]].
    apply hc_same; auto. intros q. unfold hc_th; simpl. rewrite Hp, Hs. apply H.
  - (* PExEnter *)
    destruct (lookup (cache s) (r, t)).
    + apply some_inj in Hstep. pose proof (fun q => hc_next_op tid q stk (fresh s) (EExc tid r t (Ok v) :: log s)) as H.
      destruct (nextop tid stk (fresh s) (EExc tid r t (Ok v) :: log s)) as [[[p stk'] fr'] lg'].
      apply upd_eq in Hstep. destruct Hstep as [_ [Hw [Hpe [_ [_ [Hp Hs]]]]]].
      apply hc_same; auto. intros q. unfold hc_th; simpl. rewrite Hp, Hs. apply H.
    + destruct (lookup (wip s) (r, t)) eqn:Ew; inversion Hstep; subst; clear Hstep.
      * apply hc_same; auto.
      * apply hc_new with (k := (r, t)); auto. intros q. unfold hc_th; simpl. lia.
  - (* PExWait *)
    destruct (nth_error (pends s) p) as [[k [o|]]|]; try discriminate.
    apply some_inj in Hstep. pose proof (fun q => hc_next_op tid q stk (fresh s) (EExc tid r t o :: log s)) as H.
    destruct (nextop tid stk (fresh s) (EExc tid r t o :: log s)) as [[[p0 stk'] fr'] lg'].
    apply upd_eq in Hstep. destruct Hstep as [_ [Hw [Hpe [_ [_ [Hp Hs]]]]]].
    apply hc_same; auto. intros q. unfold hc_th; simpl. rewrite Hp, Hs. apply H.
  - (* PExPub *)
    apply some_inj in Hstep.
    pose proof (fun q => hc_next_op tid q stk (fresh s) (EExc tid r t o :: EPub r t p o :: log s)) as H.
    destruct (nextop tid stk (fresh s) (EExc tid r t o :: EPub r t p o :: log s)) as [[[p0 stk'] fr'] lg'].
    apply upd_eq in Hstep. destruct Hstep as [_ [Hw [Hpe [_ [_ [Hp Hs]]]]]].
    apply hc_pub with (r := r) (t := t) (p := p) (o := o); auto.
    intros q. unfold hc_th; simpl. rewrite Hp, Hs. specialize (H q). simpl in H. lia.
  - (* PPair *)
    destruct (load_or_store (cache s) (r, ta) a) as [ca1 a'].
    destruct (load_or_store ca1 (r, tb) b) as [ca2 b'].
    apply some_inj in Hstep.
    pose proof (fun q => hc_next_op tid q stk (fresh s) (EPair tid r ta tb a' b' :: log s)) as H.
    destruct (nextop tid stk (fresh s) (EPair tid r ta tb a' b' :: log s)) as [[[p0 stk'] fr'] lg'].
    apply upd_eq in Hstep. destruct Hstep as [_ [Hw [Hpe [_ [_ [Hp Hs]]]]]].
    apply hc_same; auto. intros q. unfold hc_th; simpl. rewrite Hp, Hs. apply H.
  - discriminate.
Qed.

Definition excl_inv (s : state) : Prop :=
  (forall q, hc_all (ths s) q <= 1) /\
  (forall q, hc_all (ths s) q = 1 <-> exists k, nth_error (pends (sh s)) q = Some (k, None)) /\
  (forall k q, lookup (wip (sh s)) k = Some q <-> nth_error (pends (sh s)) q = Some (k, None)).

Lemma nth_app_single : forall A (l : list A) x q, q <> length l -> nth_error (l ++ [x]) q = nth_error l q.
Proof.
  intros. destruct (Nat.lt_ge_cases q (length l)).
  - apply nth_error_app1; auto.
  - rewrite nth_error_app2; auto. destruct (q - length l) as [|[|n]] eqn:E; try lia; simpl.
    + symmetry; apply nth_error_None; lia.
    + symmetry; apply nth_error_None; lia.
Qed.

Section WithInv.
Variable Pd Px : ref -> ty -> Prop.
Variable Pp : ref -> ty -> ty -> Prop.
Notation inv := (inv next Pd Px Pp).

Lemma step_excl_inv : forall s tid s', inv s -> excl_inv s -> stepS s tid = Some s' -> excl_inv s'.
Proof.
  intros s tid s' [Hsh Hth] [H1 [H2 H3]] Hstep. unfold step in Hstep.
  destruct (nth_error (ths s) tid) as [th|] eqn:En; try discriminate.
  destruct (stepT tid (sh s) th) as [[sh' th']|] eqn:Et; try discriminate.
  inversion Hstep; subst; clear Hstep. unfold excl_inv; simpl.
  pose proof (fun q => hc_all_set_nth _ _ _ th' q En) as Hset.
  destruct (step_thread_hc _ _ _ _ _ Et) as [Hw Hp Hq | k Hk Hw Hp Hq | r t p o Hpc Hw Hp Hq].
  - rewrite Hw, Hp. split; [|split]; auto.
    + intros q. specialize (Hset q). rewrite Hq in Hset. specialize (H1 q). lia.
    + intros q. specialize (Hset q). rewrite Hq in Hset. rewrite <- H2. split; lia.
  - (* a new pending entry *)
    rewrite Hw, Hp. set (p0 := length (pends (sh s))) in *.
    assert (Z0 : hc_all (ths s) p0 = 0).
    { specialize (H1 p0). destruct (Nat.eq_dec (hc_all (ths s) p0) 1) as [E|E]; try lia.
      apply H2 in E. destruct E as [k0 E]. apply nth_error_lt in E. unfold p0 in E; lia. }
    split; [|split].
    + intros q. specialize (Hset q). rewrite Hq in Hset. specialize (H1 q).
      destruct (Nat.eqb p0 q) eqn:E; try lia. apply Nat.eqb_eq in E; subst q. lia.
    + intros q. specialize (Hset q). rewrite Hq in Hset.
      destruct (Nat.eqb p0 q) eqn:E.
      * apply Nat.eqb_eq in E; subst q. split; intros _; try lia.
        exists k. apply nth_error_app_last.
      * apply Nat.eqb_neq in E. rewrite nth_app_single; auto. rewrite <- H2. split; lia.
    + intros k' q. simpl. destruct (key_eqb k k') eqn:Ek.
      * apply key_eqb_eq in Ek; subst k'. split.
        -- intros E; inversion E; subst q. apply nth_error_app_last.
        -- intros E. destruct (Nat.eq_dec q p0) as [->|N]; auto.
           rewrite nth_app_single in E; auto. apply H3 in E. congruence.
      * apply key_eqb_neq in Ek. rewrite H3. destruct (Nat.eq_dec q p0) as [->|N].
        -- unfold p0. rewrite nth_error_app_last.
           split; intros E; try (inversion E; congruence).
           apply nth_error_lt in E; lia.
        -- rewrite nth_app_single; auto. tauto.
  - (* publication *)
    rewrite Hw, Hp.
    assert (Hpk : pkey (pends (sh s)) p (r, t)).
    { destruct (Hth _ (nth_error_In _ _ En)) as [Hpcok _]. rewrite Hpc in Hpcok. simpl in Hpcok. tauto. }
    assert (Hone : hc_all (ths s) p = 1).
    { pose proof (hc_all_in _ _ p (nth_error_In _ _ En)) as Hin.
      unfold hc_th in Hin. rewrite Hpc in Hin. simpl in Hin. rewrite Nat.eqb_refl in Hin.
      specialize (H1 p). lia. }
    assert (Hopen : nth_error (pends (sh s)) p = Some ((r, t), None)).
    { apply H2 in Hone. destruct Hone as [k Ek]. destruct Hpk as [o' Eo]. rewrite Ek in Eo. inversion Eo; subst. exact Ek. }
    assert (Hlt : p < length (pends (sh s))) by (eapply nth_error_lt; eauto).
    split; [|split].
    + intros q. specialize (Hset q). specialize (Hq q). specialize (H1 q). lia.
    + intros q. specialize (Hset q). specialize (Hq q).
      destruct (Nat.eqb p q) eqn:E.
      * apply Nat.eqb_eq in E; subst q. rewrite nth_set_nth_eq; auto.
        split; [lia|]. intros [k Ek]; inversion Ek.
      * apply Nat.eqb_neq in E. rewrite nth_set_nth_neq; auto. rewrite <- H2. split; lia.
    + intros k' q. destruct (key_dec k' (r, t)) as [->|N].
      * rewrite lookup_remove_eq. split; try discriminate.
        intros E. destruct (Nat.eq_dec p q) as [<-|Nq].
        -- rewrite nth_set_nth_eq in E; auto. inversion E.
        -- rewrite nth_set_nth_neq in E; auto. apply H3 in E. apply H3 in Hopen. congruence.
      * rewrite lookup_remove_neq; auto. rewrite H3. destruct (Nat.eq_dec p q) as [<-|Nq].
        -- rewrite nth_set_nth_eq; auto. rewrite Hopen. split; intros E; inversion E; congruence.
        -- rewrite nth_set_nth_neq; auto. tauto.
Qed.

Lemma init_excl_inv : forall progs, excl_inv (init progs).
Proof.
  intros progs. assert (Z : forall q, hc_all (ths (init progs)) q = 0).
  { intros q. simpl. induction progs; simpl; auto. }
  split; [|split]; simpl.
  - intros q. rewrite Z; lia.
  - intros q. rewrite Z. split; try lia. intros [k E]. destruct q; discriminate.
  - intros k q. split; try discriminate. destruct q; discriminate.
Qed.

End WithInv.
End Excl.
