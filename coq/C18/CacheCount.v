(* C18 - the decode function of DecodeExclusive runs at most once per key, for
   keys whose object the decoder accepts (fails e t = false): whoever ran it is
   either still on its way to the publication or has published successfully, and
   after that nobody runs it again (CacheOnce). *)
From Coq Require Import List Arith Bool Lia.
From GoPdf.C18 Require Import Cache CacheLemmas CacheInv CacheExcl CacheOnce.
Import ListNotations.

Section Count.
Variable next : ref -> option ref.
Variable body : ref -> ty -> list op.
Variable fails isnil : ref -> ty -> bool.
Variable maxdepth : nat.

Notation stepT := (step_thread next body fails isnil maxdepth store_or_load).
Notation stepS := (step next body fails isnil maxdepth store_or_load).
Notation nextop := (next_op fails isnil).
Notation retdec := (ret_decode fails isnil).
Notation ce := (ce next).
Notation pe_frame := (pe_frame).
Notation pe_th := (pe_th next).

Variable Pd Px : ref -> ty -> Prop.
Variable Pp : ref -> ty -> ty -> Prop.
Hypothesis body_ok : forall e t, Forall (op_ok Pd Px Pp) (body e t).
Notation inv := (inv next Pd Px Pp).
Notation th_ok := (th_ok next Pd Px Pp).
Notation frame_ok := (frame_ok next Pd Px Pp).

(* the key under consideration: its decoder succeeds on the object at the end of r's chain *)
Variable r : ref.
Variable t : ty.
Hypothesis accepts : forall e, ce r e -> fails e t = false.

Definition post_pc (p : pcs) : Prop :=
  match p with
  | PStore c _ _ => pe_call c r t
  | PExPub r' t' _ (Ok _) => r' = r /\ t' = t
  | _ => False
  end.

Definition post_th (th : thread) : Prop := post_pc (tpc th) \/ Exists (pe_frame r t) (tstk th).

Lemma next_op_post : forall pe tid stk fr lg, Forall (frame_ok pe) stk -> Exists (pe_frame r t) stk ->
  match nextop tid stk fr lg with (p, stk', _, _) => post_pc p \/ Exists (pe_frame r t) stk' end.
Proof.
  induction stk as [|f below IH]; intros fr lg Hf He; [inversion He|].
  inversion Hf as [|? ? Hf1 Hf2]; subst. simpl.
  destruct f as [rest path own]; simpl in *. destruct rest as [|o rest].
  - destruct own as [[[c e] refs]|].
    + destruct Hf1 as [_ [Hc Hch]]. simpl in Hc, Hch.
      assert (Hpe : pe_frame r t {| frest := []; fpath := path; fown := Some (c, e, refs) |} -> fails e (cty c) = false).
      { intros [Hr [Ht _]]. simpl in Hr, Ht. rewrite Ht. apply accepts. rewrite <- Hr. destruct (chain_ok_ce _ _ _ _ Hch); auto. }
      destruct (fails e (cty c)) eqn:Ef.
      * assert (Hb : Exists (pe_frame r t) below).
        { inversion He; subst; auto. apply Hpe in H0. discriminate. }
        destruct (cex c); [right; auto|]. apply IH; auto.
      * simpl. inversion He; subst; [left; exact H0|right; auto].
    + right. inversion He; subst; auto. contradiction H0.
  - destruct (start o path fr) as [p fr'].
    right. inversion He; subst; [apply Exists_cons_hd; exact H0|apply Exists_cons_tl; auto].
Qed.

Lemma ret_decode_post : forall pe tid c o stk fr lg, Forall (frame_ok pe) stk -> Exists (pe_frame r t) stk ->
  match retdec tid c o stk fr lg with (p, stk', _, _) => post_pc p \/ Exists (pe_frame r t) stk' end.
Proof.
  intros. unfold ret_decode. destruct (cex c); [right; auto|]. eapply next_op_post; eauto.
Qed.

Lemma step_post : forall tid s th s' th', th_ok (cache s) (pends s) th ->
  stepT tid s th = Some (s', th') -> post_th th -> post_th th' \/ published_ok (log s') r t.
Proof.
  intros tid s [pc stk] s' th' [Hpc Hst] Hstep Hpost.
  pose proof Hstep as Hstep0.
  unfold step_thread, same, park in Hstep; cbn [tpc tstk] in *.
  assert (RN : forall ca wi pe res, Some (upd s ca wi pe res) = Some (s', th') ->
            (match res with (p, stk', _, _) => post_pc p \/ Exists (pe_frame r t) stk' end) -> post_th th').
  { intros ca wi pe [[[p0 stk'] fr'] lg'] Hs H. apply some_inj in Hs. apply upd_eq in Hs.
    destruct Hs as [_ [_ [_ [_ [_ [Hp Hs]]]]]]. unfold post_th. rewrite Hp, Hs. exact H. }
  unfold post_th in Hpost; simpl in Hpost.
  destruct pc; cbn [pc_ok] in Hpc; simpl in Hpost.
  - destruct Hpost as [[]|He]. left. eapply RN; eauto. eapply next_op_post; eauto.
  - destruct Hpost as [[]|He]. left.
    destruct (lookup (cache s) (cur, cty c)); [eapply RN; eauto; eapply ret_decode_post; eauto|].
    destruct (mem cur path); [eapply RN; eauto; eapply ret_decode_post; eauto|].
    destruct (maxdepth <? S (length path)); [eapply RN; eauto; eapply ret_decode_post; eauto|].
    inversion Hstep; subst. right; auto.
  - destruct Hpost as [[]|He]. left.
    destruct (next cur); inversion Hstep; subst; right; auto.
  - destruct Hpost as [[]|He]. left. destruct Hpc as [Hc Hch].
    eapply RN; eauto. apply (next_op_post (pends s)).
    + constructor; auto. split; simpl; auto.
    + apply Exists_cons_tl; auto.
  - destruct (store_or_load (cache s) refs (cty c) v) as [ca v'].
    left. destruct Hpost as [Hp|He].
    + eapply RN; eauto. unfold ret_decode. destruct Hp as [Hr [Ht Hx]].
      destruct (cex c); try congruence. left. simpl. auto.
    + eapply RN; eauto. eapply ret_decode_post; eauto.
  - destruct Hpost as [[]|He]. left.
    destruct (lookup (cache s) (r0, t0)); [eapply RN; eauto; eapply next_op_post; eauto|].
    destruct (lookup (wip s) (r0, t0)); inversion Hstep; subst; right; auto.
  - destruct Hpost as [[]|He]. left.
    destruct (nth_error (pends s) p) as [[k [o|]]|]; try discriminate.
    eapply RN; eauto. eapply next_op_post; eauto.
  - destruct Hpost as [Hp|He].
    + right. destruct o as [v|]; try contradiction. destruct Hp as [-> ->].
      exists p, v. eapply step_pub_logged; eauto.
    + left. eapply RN; eauto. eapply next_op_post; eauto.
  - destruct Hpost as [[]|He]. left.
    destruct (load_or_store (cache s) (r0, ta) a) as [ca1 a'].
    destruct (load_or_store ca1 (r0, tb) b) as [ca2 b'].
    eapply RN; eauto. eapply next_op_post; eauto.
  - destruct Hpost as [[]|He]. discriminate.
Qed.

Lemma post_holder : forall ca pe th, th_ok ca pe th -> post_th th ->
  exists q, 1 <= hc_th th q /\ pkey pe q (r, t).
Proof.
  intros ca pe [pc stk] [Hpc Hst] [Hp|Hf]; simpl in *.
  - destruct pc; simpl in Hp; try contradiction.
    + destruct Hpc as [Hc _]. destruct Hp as [<- [<- Hx]]. unfold call_ok in Hc.
      destruct (cex c) as [q|] eqn:Ex; try congruence. exists q. split; [|tauto].
      unfold hc_th; simpl. rewrite Ex; simpl. rewrite Nat.eqb_refl. lia.
    + destruct o; try contradiction. destruct Hp as [-> ->]. destruct Hpc as [_ [Hk _]].
      exists p; split; auto. unfold hc_th; simpl. rewrite Nat.eqb_refl. lia.
  - destruct (frame_holder next fails isnil maxdepth Pd Px Pp _ _ _ _ Hst Hf) as [q [H1 H2]]. exists q; split; auto. unfold hc_th; simpl. lia.
Qed.

Lemma step_decode_log : forall tid s c e refs path stk s' th',
  stepT tid s {| tpc := PDecode c e refs path; tstk := stk |} = Some (s', th') ->
  exists nw, log s' = nw ++ ERun tid c e :: log s /\ Forall is_dec nw.
Proof.
  intros. unfold step_thread, same in H; cbn [tpc tstk] in H. apply some_inj in H.
  pose proof (next_op_log fails isnil tid ({| frest := body e (cty c); fpath := path; fown := Some (c, e, refs) |} :: stk) (fresh s) (ERun tid c e :: log s)) as Hn.
  destruct (nextop tid ({| frest := body e (cty c); fpath := path; fown := Some (c, e, refs) |} :: stk) (fresh s) (ERun tid c e :: log s)) as [[[pp stk'] fr'] lg'].
  destruct Hn as [nw [-> Hn]]. apply upd_eq in H. destruct H as [_ [_ [_ [_ [Hl' _]]]]].
  exists nw; split; auto.
Qed.

Lemma xruns_dec : forall nw, Forall is_dec nw -> xruns nw r t = 0.
Proof.
  intros. apply xruns_zero. intros ev Hin. rewrite Forall_forall in H.
  destruct (H _ Hin) as [a [b [c ->]]]. reflexivity.
Qed.

Lemma step_decode_post : forall tid s c e refs path stk s' th',
  th_ok (cache s) (pends s) {| tpc := PDecode c e refs path; tstk := stk |} -> pe_call c r t ->
  stepT tid s {| tpc := PDecode c e refs path; tstk := stk |} = Some (s', th') -> post_th th'.
Proof.
  intros tid s c e refs path stk s' th' [Hpc Hst] Hc H. simpl in Hpc, Hst. destruct Hpc as [Hcall Hch].
  unfold step_thread, same in H; cbn [tpc tstk] in H. apply some_inj in H.
  pose proof (next_op_post (pends s) tid ({| frest := body e (cty c); fpath := path; fown := Some (c, e, refs) |} :: stk) (fresh s) (ERun tid c e :: log s)) as Hn.
  destruct (nextop tid ({| frest := body e (cty c); fpath := path; fown := Some (c, e, refs) |} :: stk) (fresh s) (ERun tid c e :: log s)) as [[[pp stk'] fr'] lg'].
  apply upd_eq in H. destruct H as [_ [_ [_ [_ [_ [Hp Hs]]]]]].
  unfold post_th. rewrite Hp, Hs. apply Hn.
  - constructor; auto. split; simpl; auto.
  - apply Exists_cons_hd. exact Hc.
Qed.

Definition count_inv (s : state) : Prop :=
  xruns (log (sh s)) r t <= 1 /\
  (xruns (log (sh s)) r t = 1 ->
   published_ok (log (sh s)) r t \/ exists j th, nth_error (ths s) j = Some th /\ post_th th).

Lemma step_count_inv : forall s tid s', inv s -> excl_inv s -> xinv next s -> count_inv s ->
  stepS s tid = Some s' -> count_inv s'.
Proof.
  intros s tid s' Hinv He Hx [K1 K2] Hstep. pose proof Hinv as [Hsh Hth]. unfold step in Hstep.
  destruct (nth_error (ths s) tid) as [th|] eqn:En; try discriminate.
  destruct (stepT tid (sh s) th) as [[sh' th']|] eqn:Et; try discriminate.
  inversion Hstep; subst; clear Hstep. unfold count_inv; simpl.
  pose proof (nth_error_In _ _ En) as Inth.
  assert (Hlt : tid < length (ths s)) by (eapply nth_error_lt; eauto).
  (* a holder in post-run position survives the step or publishes *)
  assert (KEEP : published_ok (log (sh s)) r t \/ (exists j thj, nth_error (ths s) j = Some thj /\ post_th thj) ->
                 forall new, log sh' = new ++ log (sh s) ->
                 published_ok (log sh') r t \/ exists j thj, nth_error (set_nth tid th' (ths s)) j = Some thj /\ post_th thj).
  { intros [[p [v Hp]]|[j [thj [Hj Hpost]]]] new Hl.
    - left. exists p, v. rewrite Hl. apply in_or_app; auto.
    - destruct (Nat.eq_dec tid j) as [<-|N].
      + rewrite En in Hj; inversion Hj; subst thj.
        destruct (step_post _ _ _ _ _ (Hth _ Inth) Et Hpost) as [H|H]; auto.
        right. exists tid, th'. split; auto. apply nth_set_nth_eq; auto.
      + right. exists j, thj. split; auto. rewrite nth_set_nth_neq; auto. }
  destruct (step_thread_log next body fails isnil maxdepth _ _ _ _ _ Et) as [new [Hl [_ [Hn2 _]]]].
  destruct (Nat.eq_dec (xruns new r t) 0) as [Z|NZ].
  - (* no exclusive run of this key in this step *)
    rewrite Hl, xruns_app, Z. simpl. split; auto.
    intros E. rewrite <- Hl. eapply KEEP; eauto.
  - (* this step enters the decode function of an exclusive call for (r,t) *)
    assert (Hex : exists ev, In ev new /\ is_xrun r t ev = true).
    { unfold xruns in NZ. destruct (filter (is_xrun r t) new) as [|ev l] eqn:Ef; [simpl in NZ; lia|].
      exists ev. apply filter_In. rewrite Ef. left; auto. }
    destruct Hex as [ev [Hin Hxr]].
    destruct (is_xrun_true _ _ _ Hxr) as [tid' [c [e [-> Hc]]]].
    destruct (Hn2 _ _ _ Hin) as [_ [refs [path Hpc]]].
    destruct th as [pc stk]. simpl in Hpc; subst pc.
    destruct (step_decode_log _ _ _ _ _ _ _ _ _ Et) as [nw [Hl' Hnw]].
    assert (Hone : xruns (log sh') r t = 1 + xruns (log (sh s)) r t).
    { assert (is_xrun r t (ERun tid c e) = true).
      { destruct Hc as [Hr [Ht Hx0]]. simpl. rewrite Hr, Ht, !Nat.eqb_refl. destruct (cex c); [reflexivity|congruence]. }
      rewrite Hl'. rewrite xruns_app, (xruns_dec _ Hnw).
      change (ERun tid c e :: log (sh s)) with ([ERun tid c e] ++ log (sh s)).
      rewrite xruns_app. unfold xruns at 1. cbn [filter]. rewrite H. reflexivity. }
    (* nobody had run it before *)
    assert (Hzero : xruns (log (sh s)) r t = 0).
    { destruct (Nat.eq_dec (xruns (log (sh s)) r t) 0) as [|N0]; auto. exfalso.
      assert (E1 : xruns (log (sh s)) r t = 1) by lia.
      destruct (K2 E1) as [[p [v Hp]]|[j [thj [Hj Hpost]]]].
      - apply (Hx _ _ _ _ Hp _ _ En). left. exact Hc.
      - pose proof (nth_error_In _ _ Hj) as Inj.
        destruct Hc as [Hr [Ht Hx0]].
        destruct (Hth _ Inth) as [[Hcall _] Hfr]. simpl in Hcall, Hfr. unfold call_ok in Hcall.
        destruct (cex c) as [qc|] eqn:Ex; [|congruence]. destruct Hcall as [_ Kc]. rewrite Hr, Ht in Kc.
        assert (Hqc : 1 <= hc_th {| tpc := PDecode c e refs path; tstk := stk |} qc).
        { unfold hc_th; simpl. rewrite Ex; simpl. rewrite Nat.eqb_refl. lia. }
        pose proof (holder_wip _ _ _ _ He Inth Hqc Kc) as W2.
        destruct (post_holder _ _ _ (Hth _ Inj) Hpost) as [q' [Hq' Kq']].
        pose proof (holder_wip _ _ _ _ He Inj Hq' Kq') as W1.
        assert (q' = qc) by congruence. subst q'.
        pose proof He as [H1 _]. specialize (H1 qc).
        destruct (Nat.eq_dec tid j) as [<-|N].
        + rewrite En in Hj; inversion Hj; subst thj.
          destruct Hpost as [[]|Hf]. simpl in Hf.
          destruct (frame_holder next fails isnil maxdepth Pd Px Pp _ _ _ _ Hfr Hf) as [q2 [Hq2 Kq2]].
          assert (Hq2' : 1 <= hc_th {| tpc := PDecode c e refs path; tstk := stk |} q2) by (unfold hc_th; simpl; lia).
          assert (W3 : lookup (wip (sh s)) (r, t) = Some q2).
          { apply (holder_wip s {| tpc := PDecode c e refs path; tstk := stk |} q2 (r, t)); auto. }
          assert (q2 = qc) by congruence. subst q2.
          pose proof (hc_all_in _ _ qc Inth) as Hle. unfold hc_th in Hle. simpl in Hle.
          rewrite Ex in Hle. simpl in Hle. rewrite Nat.eqb_refl in Hle. lia.
        + pose proof (hc_all_two _ _ _ _ _ qc N En Hj). lia. }
    rewrite Hone, Hzero. split; [lia|]. intros _.
    right. exists tid. exists th'. split; [apply nth_set_nth_eq; auto|].
    eapply step_decode_post; eauto.
Qed.

Lemma init_count_inv : forall progs, count_inv (init progs).
Proof. intros progs. split; simpl; [unfold xruns; simpl; lia|]. unfold xruns; simpl. discriminate. Qed.

End Count.
