(* C18 - DecodeExclusive runs its decode function once:
   - at most one goroutine is inside the decode function of an exclusive call
     for a key at any time (exclusive_mutex),
   - after a successful publication for a key no exclusive call for that key
     enters the decode function again (no_rerun),
   - a waiter returns the outcome its publisher published (waiter_outcome). *)
From Coq Require Import List Arith Bool Lia.
From GoPdf.C18 Require Import Cache CacheLemmas CacheInv CacheExcl.
Import ListNotations.

Section Once.
Variable next : ref -> option ref.
Variable body : ref -> ty -> list op.
Variable fails isnil : ref -> ty -> bool.
Variable maxdepth : nat.

Notation stepT := (step_thread next body fails isnil maxdepth store_or_load).
Notation stepS := (step next body fails isnil maxdepth store_or_load).
Notation nextop := (next_op fails isnil).
Notation retdec := (ret_decode fails isnil).
Notation reach := (reach next body fails isnil maxdepth).
Notation ce := (ce next).

Variable Pd Px : ref -> ty -> Prop.
Variable Pp : ref -> ty -> ty -> Prop.
Hypothesis Pp_direct : forall r ta tb, Pp r ta tb -> next r = None.
Hypothesis body_ok : forall e t, Forall (op_ok Pd Px Pp) (body e t).
Notation inv := (inv next Pd Px Pp).

(* ---- what a step appends to the log ---- *)
Definition is_dec (ev : event) : Prop := exists tid c o, ev = EDec tid c o.

Lemma next_op_log : forall tid stk fr lg,
  match nextop tid stk fr lg with (_, _, _, lg') => exists nw, lg' = nw ++ lg /\ Forall is_dec nw end.
Proof.
  induction stk as [|f below IH]; intros; simpl.
  - exists []; auto.
  - destruct f as [rest path own]; simpl. destruct rest as [|o rest].
    + destruct own as [[[c e] refs]|]; [|exists []; auto].
      destruct (fails e (cty c)); [|exists []; auto].
      destruct (cex c); [exists []; auto|].
      specialize (IH fr (EDec tid c (Err EDecode) :: lg)).
      destruct (nextop tid below fr (EDec tid c (Err EDecode) :: lg)) as [[[p stk'] fr'] lg'].
      destruct IH as [nw [-> Hn]]. exists (nw ++ [EDec tid c (Err EDecode)]).
      rewrite <- app_assoc; split; auto. apply Forall_app; split; auto.
      constructor; auto. repeat eexists.
    + destruct (start o path fr) as [p fr']. exists []; auto.
Qed.

Lemma ret_decode_log : forall tid c o stk fr lg,
  match retdec tid c o stk fr lg with (_, _, _, lg') => exists nw, lg' = nw ++ lg /\ Forall is_dec nw end.
Proof.
  intros. unfold ret_decode. destruct (cex c); [exists []; auto|].
  pose proof (next_op_log tid stk fr (EDec tid c o :: lg)) as H.
  destruct (nextop tid stk fr (EDec tid c o :: lg)) as [[[p stk'] fr'] lg'].
  destruct H as [nw [-> Hn]]. exists (nw ++ [EDec tid c o]). rewrite <- app_assoc; split; auto.
  apply Forall_app; split; auto. constructor; auto. repeat eexists.
Qed.

Definition new_ok (tid : nat) (th : thread) (new : list event) : Prop :=
  (forall r t p o, In (EPub r t p o) new -> tpc th = PExPub r t p o) /\
  (forall tid' c e, In (ERun tid' c e) new -> tid' = tid /\ exists refs path, tpc th = PDecode c e refs path) /\
  (forall tid' r t o, In (EExc tid' r t o) new -> tid' = tid).

Lemma new_ok_dec : forall tid th nw hd, Forall is_dec nw -> new_ok tid th hd -> new_ok tid th (nw ++ hd).
Proof.
  intros tid th nw hd Hn [H1 [H2 H3]].
  assert (D : forall ev, In ev (nw ++ hd) -> is_dec ev \/ In ev hd).
  { intros ev Hin. apply in_app_or in Hin. destruct Hin; auto. left. rewrite Forall_forall in Hn; auto. }
  split; [|split]; intros.
  - destruct (D _ H) as [[a [b [c0 E]]]|Hin]; [discriminate|eauto].
  - destruct (D _ H) as [[a [b [c0 E]]]|Hin]; [discriminate|eauto].
  - destruct (D _ H) as [[a [b [c0 E]]]|Hin]; [discriminate|eauto].
Qed.

Lemma new_ok_nil : forall tid th, new_ok tid th [].
Proof. intros; split; [|split]; intros; contradiction. Qed.

Lemma step_thread_log : forall tid s th s' th', stepT tid s th = Some (s', th') ->
  exists new, log s' = new ++ log s /\ new_ok tid th new.
Proof.
  intros tid s [pc stk] s' th' Hstep.
  unfold step_thread, same, park in Hstep; cbn [tpc tstk] in Hstep.
  assert (RN : forall hd r, Some (upd s (cache s) (wip s) (pends s) r) = Some (s', th') ->
            (match r with (_, _, _, lg') => exists nw, lg' = nw ++ hd ++ log s /\ Forall is_dec nw end) ->
            new_ok tid {| tpc := pc; tstk := stk |} hd ->
            exists new, log s' = new ++ log s /\ new_ok tid {| tpc := pc; tstk := stk |} new).
  { intros hd [[[p0 stk'] fr'] lg'] Hs [nw [-> Hn]] Hok. apply some_inj in Hs. apply upd_eq in Hs.
    destruct Hs as [_ [_ [_ [_ [Hl _]]]]]. exists (nw ++ hd). rewrite Hl, app_assoc. split; auto.
    apply new_ok_dec; auto. }
  destruct pc.
  - eapply (RN []); eauto using new_ok_nil. apply next_op_log.
  - destruct (lookup (cache s) (cur, cty c)); [eapply (RN []); eauto using new_ok_nil; apply ret_decode_log|].
    destruct (mem cur path); [eapply (RN []); eauto using new_ok_nil; apply ret_decode_log|].
    destruct (maxdepth <? S (length path)); [eapply (RN []); eauto using new_ok_nil; apply ret_decode_log|].
    inversion Hstep; subst. exists []; split; auto using new_ok_nil.
  - destruct (next cur); inversion Hstep; subst; exists []; split; auto using new_ok_nil.
  - eapply (RN [ERun tid c e]); eauto.
    + apply next_op_log.
    + split; [|split]; intros; simpl in H; destruct H as [H|[]]; inversion H; subst. split; simpl; eauto.
  - destruct (store_or_load (cache s) refs (cty c) v) as [ca v'].
    apply some_inj in Hstep.
    pose proof (ret_decode_log tid c (Ok v') stk (fresh s) (log s)) as H.
    destruct (retdec tid c (Ok v') stk (fresh s) (log s)) as [[[p0 stk'] fr'] lg'].
    destruct H as [nw [-> Hn]]. apply upd_eq in Hstep. destruct Hstep as [_ [_ [_ [_ [Hl _]]]]].
    exists nw. split; auto. rewrite <- (app_nil_r nw). apply new_ok_dec; auto using new_ok_nil.
  - destruct (lookup (cache s) (r, t)).
    + eapply (RN [EExc tid r t (Ok v)]); eauto.
      * apply next_op_log.
      * split; [|split]; intros; simpl in H; destruct H as [H|[]]; inversion H; subst; auto.
    + destruct (lookup (wip s) (r, t)); inversion Hstep; subst; exists []; split; auto using new_ok_nil.
  - destruct (nth_error (pends s) p) as [[k [o|]]|]; try discriminate.
    eapply (RN [EExc tid r t o]); eauto.
    + apply next_op_log.
    + split; [|split]; intros; simpl in H; destruct H as [H|[]]; inversion H; subst; auto.
  - apply some_inj in Hstep.
    pose proof (next_op_log tid stk (fresh s) (EExc tid r t o :: EPub r t p o :: log s)) as H.
    destruct (nextop tid stk (fresh s) (EExc tid r t o :: EPub r t p o :: log s)) as [[[p0 stk'] fr'] lg'].
    destruct H as [nw [-> Hn]]. apply upd_eq in Hstep. destruct Hstep as [_ [_ [_ [_ [Hl _]]]]].
    exists (nw ++ [EExc tid r t o; EPub r t p o]). rewrite Hl, <- app_assoc. split; auto.
    apply new_ok_dec; auto.
    split; [|split]; intros; simpl in H; destruct H as [H|[H|[]]]; inversion H; subst; auto.
  - destruct (load_or_store (cache s) (r, ta) a) as [ca1 a'].
    destruct (load_or_store ca1 (r, tb) b) as [ca2 b'].
    apply some_inj in Hstep.
    pose proof (next_op_log tid stk (fresh s) (EPair tid r ta tb a' b' :: log s)) as H.
    destruct (nextop tid stk (fresh s) (EPair tid r ta tb a' b' :: log s)) as [[[p0 stk'] fr'] lg'].
    destruct H as [nw [-> Hn]]. apply upd_eq in Hstep. destruct Hstep as [_ [_ [_ [_ [Hl _]]]]].
    exists (nw ++ [EPair tid r ta tb a' b']). rewrite Hl, <- app_assoc. split; auto.
    apply new_ok_dec; auto.
    split; [|split]; intros; simpl in H; destruct H as [H|[]]; inversion H.
  - discriminate.
Qed.

(* ---- exclusive calls that have probed the chain end of their key ---- *)
Definition pe_call (c : call) (r : ref) (t : ty) : Prop := cref c = r /\ cty c = t /\ cex c <> None.

Definition pe_pc (p : pcs) (r : ref) (t : ty) : Prop :=
  match p with
  | PGet c cur _ _ => pe_call c r t /\ next cur = None
  | PDecode c _ _ _ | PStore c _ _ => pe_call c r t
  | _ => False
  end.

Definition pe_frame (r : ref) (t : ty) (f : frame) : Prop :=
  match fown f with Some (c, _, _) => pe_call c r t | None => False end.

Definition pe_th (th : thread) (r : ref) (t : ty) : Prop :=
  pe_pc (tpc th) r t \/ Exists (pe_frame r t) (tstk th).

(* inside the decode function of an exclusive call for (r,t) *)
Definition inside (th : thread) (r : ref) (t : ty) : Prop := Exists (pe_frame r t) (tstk th).

Lemma next_op_pe : forall tid r t stk fr lg,
  match nextop tid stk fr lg with (p, stk', _, _) =>
    pe_pc p r t \/ Exists (pe_frame r t) stk' -> Exists (pe_frame r t) stk end.
Proof.
  induction stk as [|f below IH]; intros; simpl.
  - intros [[]|H]; auto.
  - destruct f as [rest path own]; simpl. destruct rest as [|o rest].
    + destruct own as [[[c e] refs]|].
      * destruct (fails e (cty c)).
        -- destruct (cex c) eqn:Ex.
           ++ simpl. intros [[]|H]; auto.
           ++ specialize (IH fr (EDec tid c (Err EDecode) :: lg)).
              destruct (nextop tid below fr (EDec tid c (Err EDecode) :: lg)) as [[[p stk'] fr'] lg'].
              intros H; apply Exists_cons_tl; auto.
        -- simpl. intros [H|H]; [apply Exists_cons_hd; exact H|apply Exists_cons_tl; auto].
      * simpl. intros [[]|H]; apply Exists_cons_tl; auto.
    + destruct o; simpl; intros [H|H]; try contradiction.
      * inversion H; subst; [apply Exists_cons_hd; exact H1|apply Exists_cons_tl; auto].
      * inversion H; subst; [apply Exists_cons_hd; exact H1|apply Exists_cons_tl; auto].
      * inversion H; subst; [apply Exists_cons_hd; exact H1|apply Exists_cons_tl; auto].
Qed.

Lemma ret_decode_pe : forall tid r t c o stk fr lg,
  match retdec tid c o stk fr lg with (p, stk', _, _) =>
    pe_pc p r t \/ Exists (pe_frame r t) stk' -> Exists (pe_frame r t) stk end.
Proof.
  intros. unfold ret_decode. destruct (cex c).
  - simpl. intros [[]|H]; auto.
  - apply next_op_pe.
Qed.

Lemma pe_evolution : forall tid s th s' th' r t, stepT tid s th = Some (s', th') -> pe_th th' r t ->
  pe_th th r t \/
  (exists c cur refs path, tpc th = PProbe c cur refs path /\ pe_call c r t /\ next cur = None /\
                           lookup (cache s) (cur, cty c) = None).
Proof.
  intros tid s [pc stk] s' th' r t Hstep Hpe.
  unfold step_thread, same, park in Hstep; cbn [tpc tstk] in Hstep.
  assert (RN : forall stk0 res, Some (upd s (cache s) (wip s) (pends s) res) = Some (s', th') ->
            (match res with (p, stk', _, _) => pe_pc p r t \/ Exists (pe_frame r t) stk' -> Exists (pe_frame r t) stk0 end) ->
            Exists (pe_frame r t) stk0).
  { intros stk0 [[[p0 stk'] fr'] lg'] Hs H. apply some_inj in Hs. apply upd_eq in Hs.
    destruct Hs as [_ [_ [_ [_ [_ [Hp Hs]]]]]]. apply H. unfold pe_th in Hpe. rewrite Hp, Hs in Hpe. exact Hpe. }
  unfold pe_th; simpl.
  destruct pc.
  - left; right. eapply RN; eauto. apply next_op_pe.
  - destruct (lookup (cache s) (cur, cty c)) eqn:El; [left; right; eapply RN; eauto; apply ret_decode_pe|].
    destruct (mem cur path); [left; right; eapply RN; eauto; apply ret_decode_pe|].
    destruct (maxdepth <? S (length path)); [left; right; eapply RN; eauto; apply ret_decode_pe|].
    inversion Hstep; subst. destruct Hpe as [[H1 H2]|H]; simpl in *.
    + right. exists c, cur, refs, path. auto.
    + left; right; auto.
  - destruct (next cur) eqn:En; inversion Hstep; subst; destruct Hpe as [H|H]; simpl in *; try contradiction; auto.
  - assert (Exists (pe_frame r t) ({| frest := body e (cty c); fpath := path; fown := Some (c, e, refs) |} :: stk)).
    { eapply RN; eauto. apply next_op_pe. }
    inversion H; subst; auto.
  - destruct (store_or_load (cache s) refs (cty c) v) as [ca v'].
    apply some_inj in Hstep.
    pose proof (ret_decode_pe tid r t c (Ok v') stk (fresh s) (log s)) as H.
    destruct (retdec tid c (Ok v') stk (fresh s) (log s)) as [[[p0 stk'] fr'] lg'].
    apply upd_eq in Hstep. destruct Hstep as [_ [_ [_ [_ [_ [Hp Hs]]]]]].
    left; right. apply H. unfold pe_th in Hpe. rewrite Hp, Hs in Hpe. exact Hpe.
  - destruct (lookup (cache s) (r0, t0)).
    + left; right. eapply RN; eauto. apply next_op_pe.
    + destruct (lookup (wip s) (r0, t0)); inversion Hstep; subst; destruct Hpe as [H|H]; simpl in *; try contradiction; auto.
  - destruct (nth_error (pends s) p) as [[k [o|]]|]; try discriminate.
    left; right. eapply RN; eauto. apply next_op_pe.
  - apply some_inj in Hstep.
    pose proof (next_op_pe tid r t stk (fresh s) (EExc tid r0 t0 o :: EPub r0 t0 p o :: log s)) as H.
    destruct (nextop tid stk (fresh s) (EExc tid r0 t0 o :: EPub r0 t0 p o :: log s)) as [[[p0 stk'] fr'] lg'].
    apply upd_eq in Hstep. destruct Hstep as [_ [_ [_ [_ [_ [Hp Hs]]]]]].
    left; right. apply H. unfold pe_th in Hpe. rewrite Hp, Hs in Hpe. exact Hpe.
  - destruct (load_or_store (cache s) (r0, ta) a) as [ca1 a'].
    destruct (load_or_store ca1 (r0, tb) b) as [ca2 b'].
    apply some_inj in Hstep.
    pose proof (next_op_pe tid r t stk (fresh s) (EPair tid r0 ta tb a' b' :: log s)) as H.
    destruct (nextop tid stk (fresh s) (EPair tid r0 ta tb a' b' :: log s)) as [[[p0 stk'] fr'] lg'].
    apply upd_eq in Hstep. destruct Hstep as [_ [_ [_ [_ [_ [Hp Hs]]]]]].
    left; right. apply H. unfold pe_th in Hpe. rewrite Hp, Hs in Hpe. exact Hpe.
  - discriminate.
Qed.

(* ---- holders and their keys ---- *)
Lemma frame_holder : forall pe r t stk, Forall (frame_ok next Pd Px Pp pe) stk -> Exists (pe_frame r t) stk ->
  exists q, 1 <= hc_stk stk q /\ pkey pe q (r, t).
Proof.
  induction stk as [|f stk IH]; intros Hf He; inversion He; subst; inversion Hf; subst.
  - unfold pe_frame in H0. destruct H2 as [_ H2].
    destruct (fown f) as [[[c e] refs]|] eqn:Eo; try contradiction.
    destruct H0 as [<- [<- Hx]]. destruct H2 as [Hc _]. unfold call_ok in Hc.
    destruct (cex c) as [q|] eqn:Ex; try congruence. exists q. split; [|tauto].
    simpl. unfold frame_pid. rewrite Eo, Ex. simpl. rewrite Nat.eqb_refl. lia.
  - destruct (IH H3 H0) as [q [H1 H2']]. exists q; split; auto. simpl; lia.
Qed.

Lemma th_holder : forall ca pe th r t, th_ok next Pd Px Pp ca pe th -> pe_th th r t ->
  exists q, 1 <= hc_th th q /\ pkey pe q (r, t).
Proof.
  intros ca pe [pc stk] r t [Hpc Hst] [Hp|Hf]; simpl in *.
  - assert (forall c, call_ok Pd Px pe c -> pe_call c r t -> exists q, 1 <= cnt (cex c) q /\ pkey pe q (r, t)).
    { intros c Hc [<- [<- Hx]]. unfold call_ok in Hc. destruct (cex c) as [q|]; try congruence.
      exists q; split; [|tauto]. simpl. rewrite Nat.eqb_refl; lia. }
    destruct pc; simpl in Hp; try contradiction.
    + destruct Hp as [Hp _]. destruct Hpc as [Hc _]. destruct (H _ Hc Hp) as [q [H1 H2]].
      exists q; split; auto. unfold hc_th; simpl. lia.
    + destruct Hpc as [Hc _]. destruct (H _ Hc Hp) as [q [H1 H2]].
      exists q; split; auto. unfold hc_th; simpl. lia.
    + destruct Hpc as [Hc _]. destruct (H _ Hc Hp) as [q [H1 H2]].
      exists q; split; auto. unfold hc_th; simpl. lia.
  - destruct (frame_holder _ _ _ _ Hst Hf) as [q [H1 H2]]. exists q; split; auto. unfold hc_th; simpl. lia.
Qed.

Lemma holder_wip : forall s th q k, excl_inv s -> In th (ths s) -> 1 <= hc_th th q -> pkey (pends (sh s)) q k ->
  lookup (wip (sh s)) k = Some q.
Proof.
  intros s th q k [H1 [H2 H3]] Hin Hh [o Hk].
  pose proof (hc_all_in _ _ q Hin). specialize (H1 q).
  assert (E : hc_all (ths s) q = 1) by lia. apply H2 in E. destruct E as [k' E].
  rewrite E in Hk. inversion Hk; subst. apply H3; auto.
Qed.

(* at most one goroutine is inside the decode function of an exclusive call for a key *)
Lemma exclusive_mutex_inv : forall s i j thi thj r t, inv s -> excl_inv s ->
  nth_error (ths s) i = Some thi -> nth_error (ths s) j = Some thj ->
  inside thi r t -> inside thj r t -> i = j.
Proof.
  intros s i j thi thj r t [Hsh Hth] He Hi Hj Ii Ij.
  destruct (Nat.eq_dec i j) as [|N]; auto. exfalso.
  pose proof (nth_error_In _ _ Hi) as Ini. pose proof (nth_error_In _ _ Hj) as Inj.
  destruct (th_holder _ _ _ r t (Hth _ Ini) (or_intror Ii)) as [qi [Ci Ki]].
  destruct (th_holder _ _ _ r t (Hth _ Inj) (or_intror Ij)) as [qj [Cj Kj]].
  pose proof (holder_wip _ _ _ _ He Ini Ci Ki) as Wi.
  pose proof (holder_wip _ _ _ _ He Inj Cj Kj) as Wj.
  assert (qi = qj) by congruence. subst qj.
  pose proof (hc_all_two _ _ _ _ _ qi N Hi Hj). destruct He as [H1 _]. specialize (H1 qi). lia.
Qed.

(* ---- after a successful publication nobody holding the key has probed its chain end ---- *)
Definition xinv (s : state) : Prop :=
  forall r t p v, In (EPub r t p (Ok v)) (log (sh s)) ->
  forall j th, nth_error (ths s) j = Some th -> ~ pe_th th r t.

Lemma step_xinv : forall s tid s', inv s -> excl_inv s -> xinv s -> stepS s tid = Some s' -> xinv s'.
Proof.
  intros s tid s' Hinv He Hx Hstep. pose proof Hinv as [Hsh Hth]. unfold step in Hstep.
  destruct (nth_error (ths s) tid) as [th|] eqn:En; try discriminate.
  destruct (stepT tid (sh s) th) as [[sh' th']|] eqn:Et; try discriminate.
  inversion Hstep; subst; clear Hstep.
  destruct (step_thread_log _ _ _ _ _ Et) as [new [Hl [Hn1 _]]].
  pose proof (nth_error_In _ _ En) as Inth.
  intros r t p v Hin j thj Hj Hpe; simpl in *.
  rewrite Hl in Hin. apply in_app_or in Hin.
  destruct (Nat.eq_dec tid j) as [<-|Nj].
  - (* the goroutine that stepped *)
    rewrite nth_set_nth_eq in Hj; [|eapply nth_error_lt; eauto]. inversion Hj; subst thj; clear Hj.
    destruct (pe_evolution _ _ _ _ _ _ _ Et Hpe) as [Hold|[c [cur [refs [path [Hpc [Hc [Hnx Hmiss]]]]]]]].
    + destruct Hin as [Hin|Hin].
      * (* it published itself: it would hold the entry twice *)
        apply Hn1 in Hin.
        destruct Hold as [Hp|Hf]; [rewrite Hin in Hp; contradiction|].
        destruct (Hth _ Inth) as [Hpcok Hstk]. rewrite Hin in Hpcok. simpl in Hpcok.
        destruct Hpcok as [_ [Hk _]].
        destruct (frame_holder _ _ _ _ Hstk Hf) as [q [Hq Kq]].
        assert (W1 : lookup (wip (sh s)) (r, t) = Some q).
        { eapply holder_wip; eauto. unfold hc_th; lia. }
        assert (W2 : lookup (wip (sh s)) (r, t) = Some p).
        { eapply holder_wip; eauto. unfold hc_th. rewrite Hin. simpl. rewrite Nat.eqb_refl. lia. }
        assert (q = p) by congruence. subst q.
        pose proof (hc_all_in _ _ p Inth) as Hle. unfold hc_th in Hle. rewrite Hin in Hle. simpl in Hle.
        rewrite Nat.eqb_refl in Hle. destruct He as [H1 _]. specialize (H1 p). lia.
      * eapply Hx; eauto.
    + destruct Hin as [Hin|Hin].
      * apply Hn1 in Hin. congruence.
      * (* the chain end is cached since the publication: the probe cannot have missed *)
        destruct Hsh as [Hcl [Hlg _]]. apply Hlg in Hin. simpl in Hin. destruct Hin as [e [He' Hv]].
        destruct (Hth _ Inth) as [Hpcok _]. rewrite Hpc in Hpcok. simpl in Hpcok. destruct Hpcok as [_ Hw].
        destruct Hc as [Hr [Ht _]]. subst r t.
        assert (Hcc : ce cur cur) by (constructor; auto).
        destruct (walked_ce _ _ _ _ Hw _ Hcc) as [Hr0 _].
        assert (e = cur) by (eapply ce_fun; eauto). subst e. congruence.
  - (* another goroutine *)
    rewrite nth_set_nth_neq in Hj; auto.
    destruct Hin as [Hin|Hin]; [|eapply Hx; eauto].
    apply Hn1 in Hin.
    pose proof (nth_error_In _ _ Hj) as Inj.
    destruct (th_holder _ _ _ r t (Hth _ Inj) Hpe) as [q [Hq Kq]].
    destruct (Hth _ Inth) as [Hpcok _]. rewrite Hin in Hpcok. simpl in Hpcok. destruct Hpcok as [_ [Hk _]].
    assert (W1 : lookup (wip (sh s)) (r, t) = Some q) by (apply (holder_wip s thj q (r, t) He Inj Hq Kq)).
    assert (Hp1 : 1 <= hc_th th p).
    { unfold hc_th. rewrite Hin. simpl. rewrite Nat.eqb_refl. lia. }
    assert (W2 : lookup (wip (sh s)) (r, t) = Some p) by (apply (holder_wip s th p (r, t) He Inth Hp1 Hk)).
    assert (q = p) by congruence. subst q.
    pose proof (hc_all_two _ _ _ _ _ p Nj En Hj). destruct He as [H1 _]. specialize (H1 p). lia.
Qed.

Lemma init_xinv : forall progs, xinv (init progs).
Proof. intros progs r t p v []. Qed.

(* ---- counting exclusive decoder runs ---- *)
Definition is_xrun (r : ref) (t : ty) (ev : event) : bool :=
  match ev with
  | ERun _ c _ => Nat.eqb (cref c) r && Nat.eqb (cty c) t && (match cex c with Some _ => true | None => false end)
  | _ => false
  end.

Definition xruns (lg : list event) (r : ref) (t : ty) : nat := length (filter (is_xrun r t) lg).

Definition published_ok (lg : list event) (r : ref) (t : ty) : Prop := exists p v, In (EPub r t p (Ok v)) lg.

Lemma xruns_app : forall a b r t, xruns (a ++ b) r t = xruns a r t + xruns b r t.
Proof. intros; unfold xruns. rewrite filter_app, app_length; auto. Qed.

Lemma xruns_zero : forall new r t, (forall ev, In ev new -> is_xrun r t ev = false) -> xruns new r t = 0.
Proof.
  induction new; intros; unfold xruns in *; simpl; auto.
  rewrite (H a) by (left; auto). apply IHnew. intros; apply H; right; auto.
Qed.

Lemma is_xrun_true : forall r t ev, is_xrun r t ev = true -> exists tid c e, ev = ERun tid c e /\ pe_call c r t.
Proof.
  intros r t ev H. destruct ev; simpl in H; try discriminate.
  apply andb_true_iff in H; destruct H as [H H3]. apply andb_true_iff in H; destruct H as [H1 H2].
  apply Nat.eqb_eq in H1, H2. exists tid, c, e. split; auto. split; auto. split; auto.
  destruct (cex c); congruence.
Qed.

(* after a successful publication for (r,t) the number of exclusive decoder runs for (r,t) is frozen *)
Lemma no_rerun_inv : forall s tid s' r t, inv s -> excl_inv s -> xinv s ->
  published_ok (log (sh s)) r t -> stepS s tid = Some s' ->
  xruns (log (sh s')) r t = xruns (log (sh s)) r t.
Proof.
  intros s tid s' r t Hinv He Hx [p [v Hpub]] Hstep. unfold step in Hstep.
  destruct (nth_error (ths s) tid) as [th|] eqn:En; try discriminate.
  destruct (stepT tid (sh s) th) as [[sh' th']|] eqn:Et; try discriminate.
  inversion Hstep; subst; clear Hstep; simpl.
  destruct (step_thread_log _ _ _ _ _ Et) as [new [Hl [_ [Hn2 _]]]].
  rewrite Hl, xruns_app. rewrite xruns_zero; auto.
  intros ev Hin. destruct (is_xrun r t ev) eqn:E; auto. exfalso.
  destruct (is_xrun_true _ _ _ E) as [tid' [c [e [-> Hc]]]].
  destruct (Hn2 _ _ _ Hin) as [_ [refs [path Hpc]]].
  apply (Hx _ _ _ _ Hpub _ _ En). left. rewrite Hpc. exact Hc.
Qed.

(* ---- a waiter returns what its publisher published ---- *)
Lemma step_pub_logged : forall tid s stk r t p o s' th',
  stepT tid s {| tpc := PExPub r t p o; tstk := stk |} = Some (s', th') -> In (EPub r t p o) (log s').
Proof.
  intros. unfold step_thread in H; cbn [tpc tstk] in H. apply some_inj in H.
  pose proof (next_op_log tid stk (fresh s) (EExc tid r t o :: EPub r t p o :: log s)) as Hn.
  destruct (nextop tid stk (fresh s) (EExc tid r t o :: EPub r t p o :: log s)) as [[[pp stk'] fr'] lg'].
  destruct Hn as [nw [-> Hn]]. apply upd_eq in H. destruct H as [_ [_ [_ [_ [Hl' _]]]]].
  rewrite Hl'. apply in_or_app; right. right; left; auto.
Qed.

Lemma step_wait_logged : forall tid s stk r t p s' th',
  stepT tid s {| tpc := PExWait r t p; tstk := stk |} = Some (s', th') ->
  exists k o, nth_error (pends s) p = Some (k, Some o) /\ In (EExc tid r t o) (log s').
Proof.
  intros. unfold step_thread, same in H; cbn [tpc tstk] in H.
  destruct (nth_error (pends s) p) as [[k [o|]]|]; try discriminate.
  exists k, o; split; auto. apply some_inj in H.
  pose proof (next_op_log tid stk (fresh s) (EExc tid r t o :: log s)) as Hn.
  destruct (nextop tid stk (fresh s) (EExc tid r t o :: log s)) as [[[pp stk'] fr'] lg'].
  destruct Hn as [nw [-> Hn]]. apply upd_eq in H. destruct H as [_ [_ [_ [_ [Hl' _]]]]].
  rewrite Hl'. apply in_or_app; right. left; auto.
Qed.

Definition pub_inv (s : state) : Prop :=
  forall p r t o, nth_error (pends (sh s)) p = Some ((r, t), Some o) -> In (EPub r t p o) (log (sh s)).

Lemma step_pub_inv : forall s tid s', pub_inv s -> stepS s tid = Some s' -> pub_inv s'.
Proof.
  intros s tid s' Hp Hstep. unfold step in Hstep.
  destruct (nth_error (ths s) tid) as [th|] eqn:En; try discriminate.
  destruct (stepT tid (sh s) th) as [[sh' th']|] eqn:Et; try discriminate.
  inversion Hstep; subst; clear Hstep. unfold pub_inv; simpl.
  destruct (step_thread_log _ _ _ _ _ Et) as [new [Hl _]].
  destruct (step_thread_hc _ _ _ _ _ _ _ _ _ _ Et) as [Hw Hpe Hq | k Hk Hw Hpe Hq | r0 t0 p0 o0 Hpc Hw Hpe Hq];
    intros p r t o Hn; rewrite Hpe in Hn.
  - rewrite Hl; apply in_or_app; right; auto.
  - rewrite Hl; apply in_or_app; right. destruct (Nat.eq_dec p (length (pends (sh s)))) as [->|N].
    + rewrite nth_error_app_last in Hn. inversion Hn.
    + rewrite nth_app_single in Hn; auto.
  - destruct (Nat.eq_dec p0 p) as [<-|N].
    + assert (p0 < length (pends (sh s))).
      { apply nth_error_lt in Hn. rewrite set_nth_length in Hn. auto. }
      rewrite nth_set_nth_eq in Hn; auto. inversion Hn; subst.
      destruct th as [pc stk]. simpl in Hpc; subst pc. eapply step_pub_logged; eauto.
    + rewrite nth_set_nth_neq in Hn; auto. rewrite Hl; apply in_or_app; right; auto.
Qed.

Lemma init_pub_inv : forall progs, pub_inv (init progs).
Proof. intros progs p r t o H. simpl in H. destruct p; discriminate. Qed.

Lemma waiter_outcome_inv : forall s tid th r t p s', inv s -> pub_inv s ->
  nth_error (ths s) tid = Some th -> tpc th = PExWait r t p -> stepS s tid = Some s' ->
  exists o, In (EPub r t p o) (log (sh s)) /\ In (EExc tid r t o) (log (sh s')).
Proof.
  intros s tid th r t p s' [Hsh Hth] Hp En Hpc Hstep. unfold step in Hstep. rewrite En in Hstep.
  destruct (stepT tid (sh s) th) as [[sh' th']|] eqn:Et; try discriminate.
  inversion Hstep; subst; clear Hstep; simpl.
  destruct (Hth _ (nth_error_In _ _ En)) as [Hpcok _]. rewrite Hpc in Hpcok. simpl in Hpcok.
  destruct Hpcok as [_ [o' Hk]].
  destruct th as [pc stk]. simpl in Hpc; subst pc.
  destruct (step_wait_logged _ _ _ _ _ _ _ _ Et) as [k [o [Hn Hin]]].
  rewrite Hk in Hn. inversion Hn; subst. exists o; split; auto.
Qed.

End Once.
