(* C18 - concrete runs of the model: the refutation of `agree` for the store-or-load
   before fix F14, a deadlock when DecodeExclusive is used against its documented
   restriction, a cache hit that masks the depth limit, and witnesses that the
   hypotheses of the theorems are satisfiable. *)
From Coq Require Import List Arith Bool Lia.
From GoPdf.C18 Require Import Cache CacheLemmas CacheInv CacheExcl CacheOnce CacheLive CacheRank CachePair CacheSeq CacheProv CacheThm.
Import ListNotations.

Definition next12 (r : ref) : option ref := if Nat.eqb r 1 then Some 2 else None.
Definition nobody (e : ref) (t : ty) : list op := [].
Definition never (e : ref) (t : ty) : bool := false.
Definition nonext (r : ref) : option ref := None.

(* three Decode calls over the chain 1 -> 2:
   goroutine 0 = Decode(1), goroutines 1 and 2 = Decode(2) *)
Definition progs3 : list (list op) := [[ODecode true 1 0]; [ODecode true 2 0]; [ODecode true 2 0]].

(* goroutine 0 walks the chain and is past the cache probe for 2 (4 steps);
   goroutine 1 decodes 2 and publishes (5 steps); goroutine 0 fetches, decodes and
   stores under 1 AND 2 (3 steps); goroutine 2 then reads 2 (2 steps).
   In the granularity of the prototype model of DESIGN.md (no start step, Get and
   decode merged) this is the twelve-step schedule [0;0;0;0;1;1;1;0;0;2;2;2]. *)
Definition sched_f14 : list nat := [0;0;0;0; 1;1;1;1;1; 0;0;0; 2;2].

Definition disagree (lg : list event) (r : ref) : Prop :=
  exists tid tid' c c' v v',
    In (EDec tid c (Ok v)) lg /\ In (EDec tid' c' (Ok v')) lg /\
    cref c = r /\ cref c' = r /\ cty c = cty c' /\ v <> v'.

Lemma agree_prefix_refuted_lemma :
  exists progs sched,
    let s := fst (run next12 nobody never never 256 store_or_load_prefix (init progs) sched) in
    disagree (log (sh s)) 2.
Proof.
  exists progs3, sched_f14. vm_compute.
  exists 2, 1, {| cref := 2; cty := 0; cpath := []; cex := None |},
         {| cref := 2; cty := 0; cpath := []; cex := None |}, 2, 1.
  repeat split; auto 8; try discriminate.
Qed.

(* the same schedule on the repaired store-or-load: everybody gets the first published value *)
Example f14_schedule_after_fix :
  let s := fst (run next12 nobody never never 256 store_or_load (init progs3) sched_f14) in
  map (fun ev => match ev with EDec tid c o => Some (tid, cref c, o) | _ => None end) (rev (log (sh s)))
  = [None; Some (1, 2, Ok 1); None; Some (0, 1, Ok 1); Some (2, 2, Ok 1)].
Proof. vm_compute. reflexivity. Qed.

(* ---- DecodeExclusive against its documentation: the decoder of 1 exclusively
   decodes 2 and the decoder of 2 exclusively decodes 1 ---- *)
Definition body_nosink (e : ref) (t : ty) : list op :=
  match e, t with
  | 1, 0 => [OExcl true 2 0]
  | 2, 0 => [OExcl true 1 0]
  | _, _ => []
  end.

Example deadlock_without_sink :
  let '(s, ok) := run nonext body_nosink never never 256 store_or_load
                      (init [[OExcl true 1 0]; [OExcl true 2 0]]) [0;1; 0;0;0;0; 1;1;1;1; 0; 1] in
  ok = true /\ statuses s = [2; 2].
Proof. vm_compute. auto. Qed.

(* ---- two exclusive decodes of ONE reference under TWO types, in flight at the same time:
   each runs its own decode function, nobody waits, each gets its own value ---- *)
Example two_types_in_flight :
  let '(tr, s, ok) := run_trace nonext nobody never never 256
                        (init [[OExcl true 1 0]; [OExcl true 1 1]]) [0;1; 0;1; 0;1; 0;1; 0;1; 0;1; 0;1] in
  ok = true /\ forallb (forallb (fun st => negb (Nat.eqb st 2))) tr = true /\
  map (fun ev => match ev with
                 | ERun tid c e => Some (tid, cty c, 0)
                 | EExc tid r t (Ok v) => Some (tid, t, v)
                 | _ => None end) (rev (log (sh s)))
  = [Some (0, 0, 0); Some (1, 1, 0); None; Some (0, 0, 1); None; Some (1, 1, 2)] /\
  cache (sh s) = [((1, 1), 2); ((1, 0), 1)].
Proof. vm_compute. auto. Qed.

(* ---- a cache hit masks the depth limit - sequentially, in one goroutine:
   with limit 1 the chain 1 -> 2 is too deep for Decode(1) alone, but after
   Decode(2) the walk stops at the cached reference 2 ---- *)
Example cache_hit_masks_depth_limit :
  let s := fst (run next12 nobody never never 1 store_or_load
                    (init [[ODecode true 2 0; ODecode true 1 0]]) [0;0;0;0;0;0;0;0]) in
  alone next12 never 1 1 [] 0 = CErr EDepth /\
  exists v, In (EDec 0 {| cref := 1; cty := 0; cpath := []; cex := None |} (Ok v)) (log (sh s)).
Proof. vm_compute. split; auto. exists 1. left; reflexivity. Qed.

(* ---- the hypotheses of the theorems are satisfiable by non-trivial programs ---- *)

(* pages 1, 2 decode their widget (4, 5: type 1) and then the form (3) exclusively
   with a fresh cursor; the form decoder walks the widgets (annotation/decode/pageannots.go) *)
Definition body_form (e : ref) (t : ty) : list op :=
  match e, t with
  | 1, 0 => [ODecode false 4 1; OExcl true 3 0]
  | 2, 0 => [ODecode false 5 1; OExcl true 3 0]
  | 3, 0 => [ODecode false 4 1; ODecode false 5 1]
  | _, _ => []
  end.

Definition sink_form (e : ref) (t : ty) : Prop := (e = 3 /\ t = 0) \/ (t = 1 /\ (e = 4 \/ e = 5)).

Lemma ce_nonext : forall r e, ce nonext r e -> e = r.
Proof. intros r e H. inversion H; subst; auto. discriminate. Qed.

Ltac ops := repeat (first [apply Forall_nil | apply Forall_cons]).
Ltac sinkgoal :=
  simpl; unfold Pd, Px, Pp; try exact I;
  try (intros e' H; apply ce_nonext in H; subst; unfold sink_form; auto 6).

Example sink_hypotheses_satisfiable :
  (forall e t, sink_form e t -> Forall (op_sink nonext sink_form) (body_form e t)) /\
  (forall e t, Forall (sink_ok nonext sink_form) (body_form e t)) /\
  Forall (Forall (sink_ok nonext sink_form)) [[ODecode true 1 0]; [ODecode true 2 0]].
Proof.
  split; [|split].
  - intros e t [[-> ->]|[-> [->| ->]]]; simpl; ops; sinkgoal.
  - intros e t.
    destruct e as [|[|[|[|e]]]]; destruct t as [|t]; simpl; ops; unfold sink_ok; sinkgoal.
  - ops; unfold sink_ok; sinkgoal.
Qed.

(* ---- the rank condition: satisfied by the cross-type programs of the harness (the decode function of
   (1, T0) exclusively decodes the same reference as T1) and by the pages+form shape; impossible for
   the cyclic dependency of body_nosink ---- *)
Definition body_cross (e : ref) (t : ty) : list op :=
  match e, t with 1, 0 => [OExcl true 1 1] | _, _ => [] end.
Definition rk_cross (r : ref) (t : ty) : nat := if Nat.eqb t 0 then 1 else 0.

Example cross_type_is_ranked : ranked nonext body_cross rk_cross.
Proof.
  intros r0 e t H. apply ce_nonext in H; subst e.
  destruct r0 as [|[|r0]]; destruct t as [|t]; simpl; repeat constructor.
Qed.

Definition rk_form (r : ref) (t : ty) : nat := if Nat.eqb t 0 then (if Nat.eqb r 3 then 1 else 2) else 0.

Example pages_form_is_ranked : ranked nonext body_form rk_form.
Proof.
  intros r0 e t H. apply ce_nonext in H; subst e.
  destruct r0 as [|[|[|[|r0]]]]; destruct t as [|t]; simpl; repeat constructor.
Qed.

(* decode functions that follow links with the plain Decode - even in a cycle F <-> G - are covered with a
   constant rank: a plain Decode never waits, only the relation between exclusive decodes matters *)
Definition body_mutual (e : ref) (t : ty) : list op :=
  match e, t with 1, 0 => [ODecode false 2 0] | 2, 0 => [ODecode false 1 0] | _, _ => [] end.

Example mutual_plain_decode_is_ranked : ranked nonext body_mutual (fun _ _ => 0).
Proof.
  intros r0 e t H. apply ce_nonext in H; subst e.
  destruct r0 as [|[|[|r0]]]; destruct t as [|t]; simpl; repeat constructor.
Qed.

Example cyclic_has_no_rank : ~ exists rk, ranked nonext body_nosink rk.
Proof.
  intros [rk H].
  assert (H1 := H 1 1 0 (ce_end nonext 1 eq_refl)). assert (H2 := H 2 2 0 (ce_end nonext 2 eq_refl)).
  simpl in H1, H2. inversion H1; subst. inversion H2; subst. simpl in *. lia.
Qed.

Example pair_hypotheses_satisfiable :
  (forall e t, Forall (pair_only nonext 0 1) (nobody e t)) /\
  Forall (Forall (pair_only nonext 0 1)) [[OPair 1 0 1]; [OPair 1 0 1; ODecode true 1 2]].
Proof.
  split; [intros; constructor|].
  repeat constructor; unfold PdP; simpl; auto; try lia.
Qed.

Example wf_hypotheses_satisfiable :
  wf_file next12 nobody /\ wf_progs next12 [[OPair 2 0 1]; [ODecode true 1 0; OExcl true 2 1]] /\
  (forall e t, Forall xnp (nobody e t)) /\ Forall (Forall xnp) [[OPair 2 0 1]; [ODecode true 1 0; OExcl true 2 1]].
Proof.
  split; [intros e t; constructor|]. split; [repeat constructor|].
  split; [intros; constructor|repeat constructor].
Qed.

Example no_excl_hypotheses_satisfiable :
  (forall e t, Forall (no_excl nonext) (nobody e t)) /\
  Forall (Forall (no_excl nonext)) [[ODecode true 1 0; OPair 2 0 1]; [ODecode false 2 0]].
Proof. split; [intros; constructor|repeat constructor]. Qed.

(* ---- each case of `masked` occurs: the characterisation of seq_equiv is tight ---- *)
Definition differs (next : ref -> option ref) (fails : ref -> ty -> bool) (maxdepth : nat) (lg : list event) : Prop :=
  exists tid c v, In (EDec tid c (Ok v)) lg /\ class_of (Ok v) <> alone next fails maxdepth (cref c) (cpath c) (cty c) /\
                  masked next fails maxdepth lg (cref c) (cpath c) (cty c).

(* mutually referential objects: goroutine 0 is inside the decoder of 2 (inside the decoder of 1) and about
   to decode 1 again - alone a cycle error; meanwhile goroutine 1 has decoded and published 1 *)
Definition body_mut (e : ref) (t : ty) : list op :=
  match e, t with 1, 0 => [ODecode false 2 0] | 2, 0 => [ODecode false 1 0] | _, _ => [] end.

Example masked_cycle_occurs :
  let s := fst (run nonext body_mut never never 256 store_or_load
                    (init [[ODecode true 1 0]; [ODecode true 1 0]]) [0;0;0;0;0;0;0; 1;1;1;1;1;1;1;1;1;1; 0]) in
  differs nonext never 256 (log (sh s)).
Proof.
  vm_compute. exists 0, {| cref := 1; cty := 0; cpath := [2; 1]; cex := None |}, 2.
  split; [left; reflexivity|]. split; [discriminate|]. left; reflexivity.
Qed.

Example masked_depth_occurs :
  let s := fst (run next12 nobody never never 1 store_or_load
                    (init [[ODecode true 2 0; ODecode true 1 0]]) [0;0;0;0;0;0;0;0]) in
  differs next12 never 1 (log (sh s)).
Proof.
  vm_compute. exists 0, {| cref := 1; cty := 0; cpath := []; cex := None |}, 1.
  split; [left; reflexivity|]. split; [discriminate|]. right; left; reflexivity.
Qed.

(* the decoder of type 0 rejects object 1, but StoreOrLoadPair has published a view of that type *)
Definition fails10 (e : ref) (t : ty) : bool := andb (Nat.eqb e 1) (Nat.eqb t 0).

Example masked_by_pair_occurs :
  let s := fst (run nonext nobody fails10 never 256 store_or_load
                    (init [[OPair 1 0 1; ODecode true 1 0]]) [0;0;0]) in
  differs nonext fails10 256 (log (sh s)).
Proof.
  vm_compute. exists 0, {| cref := 1; cty := 0; cpath := []; cex := None |}, 1.
  split; [left; reflexivity|]. split; [discriminate|]. right; right. split; [reflexivity|].
  exists 1. split; [constructor; reflexivity|].
  exists 0, 0, 1, 1, 2. split; [right; left; reflexivity|left; reflexivity].
Qed.
