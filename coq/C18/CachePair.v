(* C18 - StoreOrLoadPair publishes its two views atomically: for a pair of types
   (ta, tb) that is used only through StoreOrLoadPair, in every reachable state
   both views of a reference are cached or neither is. *)
From Coq Require Import List Arith Bool Lia.
From GoPdf.C18 Require Import Cache CacheLemmas CacheInv CacheExcl.
Import ListNotations.

Section Pair.
Variable next : ref -> option ref.
Variable body : ref -> ty -> list op.
Variable fails isnil : ref -> ty -> bool.
Variable maxdepth : nat.
Variable ta tb : ty.

Notation stepT := (step_thread next body fails isnil maxdepth store_or_load).
Notation stepS := (step next body fails isnil maxdepth store_or_load).
Notation nextop := (next_op fails isnil).
Notation retdec := (ret_decode fails isnil).

(* the two types are never decoded directly, and every StoreOrLoadPair either
   publishes exactly (ta, tb) or has nothing to do with them *)
Definition PdP (r : ref) (t : ty) : Prop := t <> ta /\ t <> tb.
Definition PpP (r : ref) (ta' tb' : ty) : Prop :=
  next r = None /\ ((ta' = ta /\ tb' = tb) \/ (ta' <> ta /\ ta' <> tb /\ tb' <> ta /\ tb' <> tb)).

Notation inv := (inv next PdP PdP PpP).

Inductive cache_change (s s' : shared) (th : thread) : Prop :=
| cc_same : cache s' = cache s -> cache_change s s' th
| cc_store c v refs : tpc th = PStore c v refs ->
    cache s' = fst (store_or_load (cache s) refs (cty c) v) -> cache_change s s' th
| cc_pair r ta' tb' a b : tpc th = PPair r ta' tb' a b ->
    cache s' = fst (load_or_store (fst (load_or_store (cache s) (r, ta') a)) (r, tb') b) -> cache_change s s' th.

Lemma step_thread_cache : forall tid s th s' th', stepT tid s th = Some (s', th') -> cache_change s s' th.
Proof.
  intros tid s [pc stk] s' th' Hstep.
  unfold step_thread, same, park in Hstep; cbn [tpc tstk] in Hstep.
  assert (RN : forall wi pe res, Some (upd s (cache s) wi pe res) = Some (s', th') -> cache s' = cache s).
  { intros wi pe [[[p0 stk'] fr'] lg'] Hs. apply some_inj in Hs. apply upd_eq in Hs. tauto. }
  destruct pc.
  - apply cc_same; eapply RN; eauto.
  - destruct (lookup (cache s) (cur, cty c)); [apply cc_same; eapply RN; eauto|].
    destruct (mem cur path); [apply cc_same; eapply RN; eauto|].
    destruct (maxdepth <? S (length path)); [apply cc_same; eapply RN; eauto|].
    inversion Hstep; subst; apply cc_same; auto.
  - destruct (next cur); inversion Hstep; subst; apply cc_same; auto.
  - apply cc_same; eapply RN; eauto.
  - destruct (store_or_load (cache s) refs (cty c) v) as [ca v'] eqn:Es.
    apply some_inj in Hstep.
    destruct (retdec tid c (Ok v') stk (fresh s) (log s)) as [[[p0 stk'] fr'] lg'].
    apply upd_eq in Hstep. destruct Hstep as [Hc _].
    apply cc_store with (c := c) (v := v) (refs := refs); [reflexivity|]. rewrite Es; simpl; auto.
  - destruct (lookup (cache s) (r, t)); [apply cc_same; eapply RN; eauto|].
    destruct (lookup (wip s) (r, t)); inversion Hstep; subst; apply cc_same; auto.
  - destruct (nth_error (pends s) p) as [[k [o|]]|]; try discriminate.
    apply cc_same; eapply RN; eauto.
  - apply cc_same; eapply RN; eauto.
  - destruct (load_or_store (cache s) (r, ta0) a) as [ca1 a'] eqn:E1.
    destruct (load_or_store ca1 (r, tb0) b) as [ca2 b'] eqn:E2.
    apply some_inj in Hstep.
    destruct (nextop tid stk (fresh s) (EPair tid r ta0 tb0 a' b' :: log s)) as [[[p0 stk'] fr'] lg'].
    apply upd_eq in Hstep. destruct Hstep as [Hc _].
    apply cc_pair with (r := r) (ta' := ta0) (tb' := tb0) (a := a) (b := b); [reflexivity|].
    rewrite E1; simpl. rewrite E2; simpl; auto.
  - discriminate.
Qed.

Definition pair_inv (s : state) : Prop :=
  forall r, lookup (cache (sh s)) (r, ta) = None <-> lookup (cache (sh s)) (r, tb) = None.

Lemma inrefs_other_type : forall refs t r t', t <> t' -> inrefs refs t (r, t') = false.
Proof.
  intros. destruct (inrefs refs t (r, t')) eqn:E; auto.
  apply inrefs_true in E. destruct E as [r0 [_ E]]. inversion E; congruence.
Qed.

Lemma step_pair_inv : forall s tid s', inv s -> pair_inv s -> stepS s tid = Some s' -> pair_inv s'.
Proof.
  intros s tid s' [Hsh Hth] Hp Hstep. unfold step in Hstep.
  destruct (nth_error (ths s) tid) as [th|] eqn:En; try discriminate.
  destruct (stepT tid (sh s) th) as [[sh' th']|] eqn:Et; try discriminate.
  inversion Hstep; subst; clear Hstep. unfold pair_inv; simpl.
  destruct (Hth _ (nth_error_In _ _ En)) as [Hpc _].
  destruct (step_thread_cache _ _ _ _ _ Et) as [Hc | c v refs Hpcs Hc | r0 ta' tb' a b Hpcs Hc]; rewrite Hc.
  - exact Hp.
  - rewrite Hpcs in Hpc. simpl in Hpc. destruct Hpc as [Hcall _].
    assert (Ht : cty c <> ta /\ cty c <> tb).
    { unfold call_ok in Hcall. destruct (cex c); [destruct Hcall as [H _]|]; exact H || exact Hcall. }
    destruct Ht as [T1 T2]. intros r. unfold store_or_load; simpl.
    rewrite !fill_spec. rewrite !inrefs_other_type by auto.
    specialize (Hp r).
    destruct (lookup (cache (sh s)) (r, ta)); destruct (lookup (cache (sh s)) (r, tb)); tauto.
  - rewrite Hpcs in Hpc. simpl in Hpc. destruct Hpc as [_ Hcases].
    destruct (load_or_store (cache (sh s)) (r0, ta') a) as [ca1 a'] eqn:E1. simpl.
    destruct (load_or_store ca1 (r0, tb') b) as [ca2 b'] eqn:E2. simpl.
    destruct (load_or_store_spec _ _ _ _ _ E1) as [L1 [K1 [O1 _]]].
    destruct (load_or_store_spec _ _ _ _ _ E2) as [L2 [K2 [O2 _]]].
    intros r. destruct Hcases as [[-> ->]|[N1 [N2 [N3 N4]]]].
    + destruct (Nat.eq_dec r r0) as [->|Nr].
      * apply L2 in K1. rewrite K1, K2. split; discriminate.
      * rewrite !O2, !O1 by congruence. apply Hp.
    + rewrite !O2, !O1 by congruence. apply Hp.
Qed.

Lemma init_pair_inv : forall progs, pair_inv (init progs).
Proof. intros progs r; simpl; split; intros _; reflexivity. Qed.

End Pair.
