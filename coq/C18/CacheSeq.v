(* C18 - concurrency introduces no errors: whenever a Decode or DecodeExclusive
   call returns an error, the same call run alone on an empty cache returns an
   error of the same class; equivalently, a call that succeeds alone succeeds
   under every interleaving (and then returns the agreed value, CacheInv). *)
From Coq Require Import List Arith Bool Lia.
From GoPdf.C18 Require Import Cache CacheLemmas CacheInv CacheExcl CacheOnce.
Import ListNotations.

Section Seq.
Variable next : ref -> option ref.
Variable body : ref -> ty -> list op.
Variable fails isnil : ref -> ty -> bool.
Variable maxdepth : nat.

Notation stepT := (step_thread next body fails isnil maxdepth store_or_load).
Notation stepS := (step next body fails isnil maxdepth store_or_load).
Notation nextop := (next_op fails isnil).
Notation retdec := (ret_decode fails isnil).
Notation wk := (walk next fails maxdepth).
Notation alone := (alone next fails maxdepth).

Variable Pd Px : ref -> ty -> Prop.
Variable Pp : ref -> ty -> ty -> Prop.
Notation inv := (inv next Pd Px Pp).

(* DecodeExclusive is always called with a fresh cursor (as in the library:
   CursorAt(x, nil)), so that all callers of one key run the same call *)
Definition xnp (o : op) : Prop := match o with OExcl np _ _ => np = true | _ => True end.
Hypothesis body_xnp : forall e t, Forall xnp (body e t).

Definition al (c : call) : oclass := alone (cref c) (cpath c) (cty c).
Definition dec_class (e : ref) (t : ty) : oclass := if fails e t then CErr EDecode else COk.
Definition call_sq (c : call) : Prop := cex c <> None -> cpath c = [].

Definition out_sq (r : ref) (t : ty) (o : outcome) : Prop :=
  match o with Err x => alone r [] t = CErr x | Ok _ => True end.

Definition pc_sq (p : pcs) : Prop :=
  match p with
  | PProbe c cur refs path =>
      call_sq c /\ length path <= maxdepth /\ al c = wk (S maxdepth - length path) cur path (cty c)
  | PGet c cur refs path =>
      call_sq c /\ length path <= maxdepth /\
      al c = match next cur with
             | Some r' => wk (S maxdepth - length path) r' path (cty c)
             | None => dec_class cur (cty c)
             end
  | PDecode c e refs path => call_sq c /\ length path <= maxdepth /\ al c = dec_class e (cty c)
  | PStore c _ _ => call_sq c /\ al c = COk
  | PExEnter r t path => path = []
  | PExPub r t p o => out_sq r t o
  | _ => True
  end.

Definition frame_sq (f : frame) : Prop :=
  length (fpath f) <= maxdepth /\ Forall xnp (frest f) /\
  match fown f with
  | Some (c, e, refs) => call_sq c /\ al c = dec_class e (cty c)
  | None => True
  end.

Definition ev_sq (ev : event) : Prop :=
  match ev with
  | EDec _ c (Err x) => al c = CErr x
  | EExc _ r t o => out_sq r t o
  | EPub r t _ o => out_sq r t o
  | _ => True
  end.

Definition log_sq (lg : list event) : Prop := forall ev, In ev lg -> ev_sq ev.
Definition pends_sq (pe : list (key * option outcome)) : Prop :=
  forall p r t o, nth_error pe p = Some ((r, t), Some o) -> out_sq r t o.

Definition res_sq (r : pcs * list frame * nat * list event) : Prop :=
  match r with (p, stk, _, lg) => pc_sq p /\ Forall frame_sq stk /\ log_sq lg end.

Lemma log_sq_cons : forall ev lg, ev_sq ev -> log_sq lg -> log_sq (ev :: lg).
Proof. unfold log_sq; intros. destruct H1; subst; auto. Qed.

Lemma walk_unfold : forall cur path t, length path <= maxdepth ->
  wk (S maxdepth - length path) cur path t =
  if mem cur path then CErr ECycle
  else if maxdepth <? S (length path) then CErr EDepth
  else match next cur with
       | Some r' => wk (S maxdepth - S (length path)) r' (cur :: path) t
       | None => dec_class cur t
       end.
Proof.
  intros. replace (S maxdepth - length path) with (S (maxdepth - length path)) by lia.
  simpl. replace (maxdepth - length path) with (S maxdepth - S (length path)) by lia.
  unfold dec_class. reflexivity.
Qed.

Lemma call_sq_alone : forall c, call_sq c -> cex c <> None -> alone (cref c) [] (cty c) = al c.
Proof. intros c H N. unfold al. rewrite (H N). auto. Qed.

Lemma next_op_sq : forall tid stk fr lg, Forall frame_sq stk -> log_sq lg -> res_sq (nextop tid stk fr lg).
Proof.
  induction stk as [|f below IH]; intros fr lg Hs Hl; simpl.
  - repeat split; auto.
  - inversion Hs as [|? ? Hf Hb]; subst.
    destruct f as [rest path own]; destruct Hf as [Hlen [Hr Ho]]; simpl in *.
    destruct rest as [|o rest].
    + destruct own as [[[c e] refs]|]; [|repeat split; auto].
      destruct Ho as [Hc Ha]. unfold dec_class in Ha.
      destruct (fails e (cty c)).
      * destruct (cex c) eqn:Ex.
        -- simpl. repeat split; auto. rewrite call_sq_alone; auto. congruence.
        -- apply IH; auto. apply log_sq_cons; simpl; auto.
      * simpl. repeat split; auto.
    + inversion Hr; subst.
      destruct o; simpl in *.
      * repeat split; auto.
        -- intros N; simpl in N; congruence.
        -- destruct np; simpl; lia.
        -- constructor; auto. repeat split; auto.
      * repeat split; auto.
        -- rewrite H1; auto.
        -- constructor; auto. repeat split; auto.
      * repeat split; auto. constructor; auto. repeat split; auto.
Qed.

Lemma ret_decode_sq : forall tid c o stk fr lg,
  call_sq c -> (forall x, o = Err x -> al c = CErr x) -> Forall frame_sq stk -> log_sq lg ->
  res_sq (retdec tid c o stk fr lg).
Proof.
  intros. unfold ret_decode. destruct (cex c) eqn:Ex.
  - simpl. repeat split; auto. destruct o; simpl; auto. rewrite call_sq_alone; auto. congruence.
  - apply next_op_sq; auto. apply log_sq_cons; auto. simpl. destruct o; auto.
Qed.

Definition th_sq (th : thread) : Prop := pc_sq (tpc th) /\ Forall frame_sq (tstk th).
Definition sq_inv (s : state) : Prop :=
  log_sq (log (sh s)) /\ pends_sq (pends (sh s)) /\ forall th, In th (ths s) -> th_sq th.

Lemma step_thread_sq : forall tid s th s' th',
  th_ok next Pd Px Pp (cache s) (pends s) th ->
  log_sq (log s) -> pends_sq (pends s) -> th_sq th -> stepT tid s th = Some (s', th') ->
  log_sq (log s') /\ pends_sq (pends s') /\ th_sq th'.
Proof.
  intros tid s [pc stk] s' th' [Hok _] Hlg Hpe [Hpc Hst] Hstep.
  unfold step_thread, same, park in Hstep; cbn [tpc tstk] in *.
  assert (RN : forall ca wi pe res, Some (upd s ca wi pe res) = Some (s', th') -> pends_sq pe -> res_sq res ->
            log_sq (log s') /\ pends_sq (pends s') /\ th_sq th').
  { intros ca wi pe [[[p0 stk'] fr'] lg'] Hs Hp [H1 [H2 H3]]. apply some_inj in Hs. apply upd_eq in Hs.
    destruct Hs as [_ [_ [E1 [_ [E2 [E3 E4]]]]]]. unfold th_sq. rewrite E1, E2, E3, E4. auto. }
  destruct pc; cbn [pc_sq] in Hpc.
  - eapply RN; eauto. apply next_op_sq; auto.
  - destruct Hpc as [Hc [Hlen Ha]]. rewrite walk_unfold in Ha by auto.
    destruct (lookup (cache s) (cur, cty c)).
    { eapply RN; eauto. apply ret_decode_sq; auto. intros x E; discriminate. }
    destruct (mem cur path).
    { eapply RN; eauto. apply ret_decode_sq; auto. intros x E; inversion E; subst; auto. }
    destruct (maxdepth <? S (length path)) eqn:Ed.
    { eapply RN; eauto. apply ret_decode_sq; auto. intros x E; inversion E; subst; auto. }
    inversion Hstep; subst. repeat split; auto; simpl.
    all: try (apply Nat.ltb_ge in Ed; lia).
    all: try (rewrite Ha; destruct (next cur); auto).
  - destruct Hpc as [Hc [Hlen Ha]].
    destruct (next cur); inversion Hstep; subst; repeat split; auto.
  - destruct Hpc as [Hc [Hlen Ha]].
    eapply RN; eauto. apply next_op_sq.
    + constructor; auto. repeat split; simpl; auto.
    + apply log_sq_cons; simpl; auto.
  - destruct (store_or_load (cache s) refs (cty c) v) as [ca v'].
    destruct Hpc as [Hc _].
    eapply RN; eauto. apply ret_decode_sq; auto.
    intros x E; discriminate.
  - destruct (lookup (cache s) (r, t)).
    + eapply RN; eauto. apply next_op_sq; auto. apply log_sq_cons; simpl; auto.
    + destruct (lookup (wip s) (r, t)); inversion Hstep; subst; clear Hstep.
      * repeat split; auto.
      * repeat split; auto; simpl.
        -- intros p0 r0 t0 o Hn.
           destruct (Nat.eq_dec p0 (length (pends s))) as [->|N].
           ++ rewrite nth_error_app_last in Hn. inversion Hn.
           ++ rewrite nth_app_single in Hn; eauto.
        -- lia.
  - simpl in Hok. destruct Hok as [_ [o' Hk]]. rewrite Hk in Hstep. destruct o' as [o|]; try discriminate.
    eapply RN; eauto. apply next_op_sq; auto. apply log_sq_cons; simpl; auto. eapply Hpe; eauto.
  - eapply RN; eauto.
    + intros p0 r0 t0 o0 Hn. destruct (Nat.eq_dec p p0) as [<-|N].
      * assert (p < length (pends s)).
        { apply nth_error_lt in Hn. rewrite set_nth_length in Hn. auto. }
        rewrite nth_set_nth_eq in Hn; auto. inversion Hn; subst; auto.
      * rewrite nth_set_nth_neq in Hn; eauto.
    + apply next_op_sq; auto. apply log_sq_cons; simpl; auto. apply log_sq_cons; simpl; auto.
  - destruct (load_or_store (cache s) (r, ta) a) as [ca1 a'].
    destruct (load_or_store ca1 (r, tb) b) as [ca2 b'].
    eapply RN; eauto. apply next_op_sq; auto. apply log_sq_cons; simpl; auto.
  - discriminate.
Qed.

Lemma step_sq_inv : forall s tid s', inv s -> sq_inv s -> stepS s tid = Some s' -> sq_inv s'.
Proof.
  intros s tid s' [Hsh Hth] [Hl [Hp Ht]] Hstep. unfold step in Hstep.
  destruct (nth_error (ths s) tid) as [th|] eqn:En; try discriminate.
  destruct (stepT tid (sh s) th) as [[sh' th']|] eqn:Et; try discriminate.
  inversion Hstep; subst; clear Hstep.
  pose proof (nth_error_In _ _ En) as Hin.
  destruct (step_thread_sq _ _ _ _ _ (Hth _ Hin) Hl Hp (Ht _ Hin) Et) as [H1 [H2 H3]].
  split; [|split]; simpl; auto.
  intros th0 Hi. apply in_set_nth in Hi. destruct Hi as [->|Hi]; auto.
Qed.

Lemma init_sq_inv : forall progs, Forall (Forall xnp) progs -> sq_inv (init progs).
Proof.
  intros progs Hp. split; [|split]; simpl.
  - intros ev [].
  - intros p r t o H; destruct p; discriminate.
  - intros th Hin. apply in_map_iff in Hin. destruct Hin as [pr [<- Hin]].
    split; simpl; auto. constructor; auto. repeat split; simpl; auto; try lia.
    rewrite Forall_forall in Hp; auto.
Qed.

End Seq.
