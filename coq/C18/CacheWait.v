(* C18 - plain Decode is wait-free: a goroutine is blocked only while it is parked
   before `<-p.done` (PExWait), and it gets there only from the first critical
   section of DecodeExclusive (PExEnter) for the same key.  No step of a plain
   Decode call - cache probe, Get, decode function, store-or-load - blocks or ends
   in a blocked state, whatever the other goroutines do (no reachability or
   well-formedness hypothesis is needed: it is a property of the step function).
   This is why decode functions that follow links with the plain Decode put no
   constraint on the rank of no_deadlock_ranked beyond monotonicity. *)
From Coq Require Import List Arith Bool Lia.
From GoPdf.C18 Require Import Cache CacheLemmas CacheExcl.
Import ListNotations.

Section Wait.
Variable next : ref -> option ref.
Variable body : ref -> ty -> list op.
Variable fails isnil : ref -> ty -> bool.
Variable maxdepth : nat.
Notation stepT := (step_thread next body fails isnil maxdepth store_or_load).
Notation nextop := (next_op fails isnil).
Notation retdec := (ret_decode fails isnil).

Definition is_wait (p : pcs) : Prop := match p with PExWait _ _ _ => True | _ => False end.

Lemma next_op_not_wait : forall tid stk fr lg,
  match nextop tid stk fr lg with (p, _, _, _) => ~ is_wait p end.
Proof.
  induction stk as [|f below IH]; intros; simpl; auto.
  destruct f as [rest path own]; simpl. destruct rest as [|o rest].
  - destruct own as [[[c e] refs]|]; simpl; auto.
    destruct (fails e (cty c)); simpl; auto.
    destruct (cex c); simpl; auto. apply IH.
  - destruct o; simpl; auto.
Qed.

Lemma ret_decode_not_wait : forall tid c o stk fr lg,
  match retdec tid c o stk fr lg with (p, _, _, _) => ~ is_wait p end.
Proof. intros. unfold ret_decode. destruct (cex c); simpl; auto. apply next_op_not_wait. Qed.

Lemma blocked_only_at_wait : forall s th, status s th = 2 -> exists r t p, tpc th = PExWait r t p.
Proof.
  intros s [pc stk] H. unfold status in H; simpl in *. destruct pc; try discriminate. eauto.
Qed.

Lemma wait_only_from_enter : forall tid s th s' th' r t p,
  stepT tid s th = Some (s', th') -> tpc th' = PExWait r t p ->
  exists path, tpc th = PExEnter r t path.
Proof.
  intros tid s [pc stk] s' th' r t p Hstep Hw.
  unfold step_thread, same, park in Hstep; cbn [tpc tstk] in Hstep.
  assert (RN : forall ca wi pe res, Some (upd s ca wi pe res) = Some (s', th') ->
            (match res with (p0, _, _, _) => ~ is_wait p0 end) -> False).
  { intros ca wi pe [[[p0 stk'] fr'] lg'] Hs H. apply some_inj in Hs. apply upd_eq in Hs.
    destruct Hs as [_ [_ [_ [_ [_ [E _]]]]]]. rewrite Hw in E. subst p0. apply H. exact I. }
  destruct pc.
  - exfalso. eapply RN; eauto. apply next_op_not_wait.
  - exfalso.
    destruct (lookup (cache s) (cur, cty c)); [eapply RN; eauto; apply ret_decode_not_wait|].
    destruct (mem cur path); [eapply RN; eauto; apply ret_decode_not_wait|].
    destruct (maxdepth <? S (length path)); [eapply RN; eauto; apply ret_decode_not_wait|].
    inversion Hstep; subst. simpl in Hw. discriminate.
  - exfalso. destruct (next cur); inversion Hstep; subst; simpl in Hw; discriminate.
  - exfalso. eapply RN; eauto. apply next_op_not_wait.
  - exfalso. destruct (store_or_load (cache s) refs (cty c) v) as [ca v'].
    eapply RN; eauto. apply ret_decode_not_wait.
  - destruct (lookup (cache s) (r0, t0)); [exfalso; eapply RN; eauto; apply next_op_not_wait|].
    destruct (lookup (wip s) (r0, t0)); inversion Hstep; subst; simpl in Hw; try discriminate.
    inversion Hw; subst. simpl. eexists; reflexivity.
  - exfalso. destruct (nth_error (pends s) p0) as [[k [o|]]|]; try discriminate.
    eapply RN; eauto. apply next_op_not_wait.
  - exfalso. eapply RN; eauto. apply next_op_not_wait.
  - exfalso. destruct (load_or_store (cache s) (r0, ta) a) as [ca1 a'].
    destruct (load_or_store ca1 (r0, tb) b) as [ca2 b'].
    eapply RN; eauto. apply next_op_not_wait.
  - discriminate.
Qed.

(* the pcs of a plain Decode call (also the inner call of a DecodeExclusive) *)
Definition in_decode (p : pcs) : Prop :=
  match p with PProbe _ _ _ _ | PGet _ _ _ _ | PDecode _ _ _ _ | PStore _ _ _ => True | _ => False end.

Theorem decode_wait_free_thm : forall tid s th,
  in_decode (tpc th) ->
  status s th = 1 /\
  exists s' th', stepT tid s th = Some (s', th') /\ status s' th' <> 2.
Proof.
  intros tid s [pc stk] Hd. simpl in Hd.
  assert (Hs : status s {| tpc := pc; tstk := stk |} = 1) by (unfold status; simpl; destruct pc; try contradiction; auto).
  split; auto.
  assert (He : exists r, stepT tid s {| tpc := pc; tstk := stk |} = Some r).
  { unfold step_thread; cbn [tpc tstk]. destruct pc; try contradiction.
    - destruct (lookup (cache s) (cur, cty c)); [eauto|].
      destruct (mem cur path); [eauto|]. destruct (maxdepth <? S (length path)); eauto.
    - destruct (next cur); eauto.
    - eauto.
    - destruct (store_or_load (cache s) refs (cty c) v); eauto. }
  destruct He as [[s' th'] He]. exists s', th'. split; auto.
  intros H2. destruct (blocked_only_at_wait _ _ H2) as [r [t [p Hp]]].
  destruct (wait_only_from_enter _ _ _ _ _ _ _ _ He Hp) as [path Hpc]. simpl in Hpc.
  rewrite Hpc in Hd. exact Hd.
Qed.

End Wait.
