(* C18: property theorems only; each closed by [exact] and followed by Print Assumptions.

   The model (Cache.v) is an interleaving semantics: [run next body fails isnil maxdepth
   store_or_load (init progs) sched] executes the goroutine programs [progs] under the
   schedule [sched] (a list of goroutine numbers; one entry = the code between two
   scheduling hooks of the real implementation).  All theorems quantify over all files
   (next, body, fails, isnil, maxdepth), all programs (any number of goroutines, any
   operations) and ALL schedules. *)
From Coq Require Import List Arith Bool.
From GoPdf.C18 Require Import Cache CacheLemmas CacheInv CacheExcl CacheOnce CacheCount CacheLive CacheWait CacheTypes CacheRank CachePair CacheSeq CacheProv CacheThm CacheExamples Pool.
Import ListNotations.

(* ---- agree: all calls for one object and type return one value ---- *)
(* [returned lg r t v]: some pdf.Decode / pdf.DecodeExclusive / StoreOrLoadPair call for reference r
   and type t has returned the value v.  [ce next r e]: e is the end of r's reference chain. *)
Theorem agree :
  forall next body fails isnil maxdepth progs sched s b r r' e t v v',
  wf_file next body -> wf_progs next progs ->
  run next body fails isnil maxdepth store_or_load (init progs) sched = (s, b) ->
  returned (log (sh s)) r t v -> returned (log (sh s)) r' t v' ->
  ce next r e -> ce next r' e -> v = v'.
Proof. exact agree_thm. Qed.
Print Assumptions agree.

(* a published entry never changes *)
Theorem monotone_cache :
  forall next body fails isnil maxdepth progs sched s b tid s' k v,
  wf_file next body -> wf_progs next progs ->
  run next body fails isnil maxdepth store_or_load (init progs) sched = (s, b) ->
  step next body fails isnil maxdepth store_or_load s tid = Some s' ->
  lookup (cache (sh s)) k = Some v -> lookup (cache (sh s')) k = Some v.
Proof. exact monotone_thm. Qed.
Print Assumptions monotone_cache.

(* what a call returned is, from then on, the value cached for the object its reference leads to
   (so a later sequential Decode returns it) *)
Theorem returned_is_cached :
  forall next body fails isnil maxdepth progs sched s b r t v,
  wf_file next body -> wf_progs next progs ->
  run next body fails isnil maxdepth store_or_load (init progs) sched = (s, b) ->
  returned (log (sh s)) r t v -> exists e, ce next r e /\ lookup (cache (sh s)) (e, t) = Some v.
Proof. exact returned_cached_thm. Qed.
Print Assumptions returned_is_cached.

(* ---- exclusive_once ---- *)
(* at most one goroutine is inside the decode function of a DecodeExclusive call for a key *)
Theorem exclusive_mutex :
  forall next body fails isnil maxdepth progs sched s b i j thi thj r t,
  wf_file next body -> wf_progs next progs ->
  run next body fails isnil maxdepth store_or_load (init progs) sched = (s, b) ->
  nth_error (ths s) i = Some thi -> nth_error (ths s) j = Some thj ->
  inside thi r t -> inside thj r t -> i = j.
Proof. exact exclusive_mutex_thm. Qed.
Print Assumptions exclusive_mutex.

(* after a successful publication for a key, no DecodeExclusive call for that key enters the
   decode function again: the number of exclusive decoder runs for the key is frozen *)
Theorem exclusive_no_rerun :
  forall next body fails isnil maxdepth progs sched s b tid s' r t,
  wf_file next body -> wf_progs next progs ->
  run next body fails isnil maxdepth store_or_load (init progs) sched = (s, b) ->
  published_ok (log (sh s)) r t ->
  step next body fails isnil maxdepth store_or_load s tid = Some s' ->
  xruns (log (sh s')) r t = xruns (log (sh s)) r t.
Proof. exact exclusive_no_rerun_thm. Qed.
Print Assumptions exclusive_no_rerun.

(* hence: for a key whose object the decoder accepts, the decode function of DecodeExclusive
   is entered at most once, whatever the number of callers and the schedule *)
Theorem exclusive_once_count :
  forall next body fails isnil maxdepth progs sched s b r t,
  wf_file next body -> wf_progs next progs -> (forall e, ce next r e -> fails e t = false) ->
  run next body fails isnil maxdepth store_or_load (init progs) sched = (s, b) ->
  xruns (log (sh s)) r t <= 1.
Proof. exact exclusive_once_count_thm. Qed.
Print Assumptions exclusive_once_count.

(* a waiter returns the outcome (value or error) its publisher published *)
Theorem waiter_outcome :
  forall next body fails isnil maxdepth progs sched s b tid th r t p s',
  wf_file next body -> wf_progs next progs ->
  run next body fails isnil maxdepth store_or_load (init progs) sched = (s, b) ->
  nth_error (ths s) tid = Some th -> tpc th = PExWait r t p ->
  step next body fails isnil maxdepth store_or_load s tid = Some s' ->
  exists o, In (EPub r t p o) (log (sh s)) /\ In (EExc tid r t o) (log (sh s')).
Proof. exact waiter_outcome_thm. Qed.
Print Assumptions waiter_outcome.

(* ---- calls for different result types of one reference are independent ---- *)
(* a waiting DecodeExclusive[T](r) waits for an entry registered under its own key (r, T) ... *)
Theorem wait_same_key :
  forall next body fails isnil maxdepth progs sched s b tid th r t p,
  wf_file next body -> wf_progs next progs ->
  run next body fails isnil maxdepth store_or_load (init progs) sched = (s, b) ->
  nth_error (ths s) tid = Some th -> tpc th = PExWait r t p ->
  exists o, nth_error (pends (sh s)) p = Some ((r, t), o).
Proof. exact wait_same_key_thm. Qed.
Print Assumptions wait_same_key.

(* ... and a DecodeExclusive[T](r) that finds nothing cached and no open entry for (r, T) becomes the
   leader for (r, T) and goes on to run its own decode - whatever entries of OTHER types of r are open *)
Theorem excl_leads_own_type :
  forall next body fails isnil maxdepth progs sched s b tid th r t path,
  wf_file next body -> wf_progs next progs ->
  run next body fails isnil maxdepth store_or_load (init progs) sched = (s, b) ->
  nth_error (ths s) tid = Some th -> tpc th = PExEnter r t path ->
  lookup (cache (sh s)) (r, t) = None ->
  (forall p, nth_error (pends (sh s)) p <> Some ((r, t), None)) ->
  exists s' th' p,
    step next body fails isnil maxdepth store_or_load s tid = Some s' /\ nth_error (ths s') tid = Some th' /\
    tpc th' = PProbe {| cref := r; cty := t; cpath := path; cex := Some p |} r [] path /\
    lookup (wip (sh s')) (r, t) = Some p /\
    nth_error (pends (sh s')) p = Some ((r, t), None).
Proof. exact excl_leads_own_type_thm. Qed.
Print Assumptions excl_leads_own_type.

Example two_exclusive_types_in_flight :
  let '(tr, s, ok) := run_trace nonext nobody never never 256
                        (init [[OExcl true 1 0]; [OExcl true 1 1]]) [0;1; 0;1; 0;1; 0;1; 0;1; 0;1; 0;1] in
  ok = true /\ forallb (forallb (fun st => negb (Nat.eqb st 2))) tr = true /\
  map (fun ev => match ev with
                 | ERun tid c e => Some (tid, cty c, 0)
                 | EExc tid r t (Ok v) => Some (tid, t, v)
                 | _ => None end) (rev (log (sh s)))
  = [Some (0, 0, 0); Some (1, 1, 0); None; Some (0, 0, 1); None; Some (1, 1, 2)] /\
  cache (sh s) = [((1, 1), 2); ((1, 0), 1)].
Proof. exact two_types_in_flight. Qed.

(* ---- pair_atomic ---- *)
(* for types (ta, tb) published only through StoreOrLoadPair: both views present or both absent *)
Theorem pair_atomic :
  forall next body fails isnil maxdepth ta tb progs sched s b r,
  (forall e t, Forall (pair_only next ta tb) (body e t)) -> Forall (Forall (pair_only next ta tb)) progs ->
  run next body fails isnil maxdepth store_or_load (init progs) sched = (s, b) ->
  (lookup (cache (sh s)) (r, ta) = None <-> lookup (cache (sh s)) (r, tb) = None).
Proof. exact pair_atomic_thm. Qed.
Print Assumptions pair_atomic.

(* every caller receives the pair of the first publisher *)
Theorem pair_first_publisher :
  forall next body fails isnil maxdepth progs sched s b r ta tb tid a b0 tid' a' b0',
  wf_file next body -> wf_progs next progs ->
  run next body fails isnil maxdepth store_or_load (init progs) sched = (s, b) ->
  In (EPair tid r ta tb a b0) (log (sh s)) -> In (EPair tid' r ta tb a' b0') (log (sh s)) ->
  a = a' /\ b0 = b0'.
Proof. exact pair_first_publisher_thm. Qed.
Print Assumptions pair_first_publisher.

(* ---- no_deadlock ---- *)
(* [sink]: the (object, type) pairs that may be decoded while an exclusive decode is in progress;
   their decode functions call no DecodeExclusive and decode only sinks; every DecodeExclusive call
   is for a sink.  Then in every reachable state with an unfinished goroutine some goroutine can step. *)
Theorem no_deadlock :
  forall next body fails isnil maxdepth (sink : ref -> ty -> Prop) progs sched s b,
  (forall e t, sink e t -> Forall (op_sink next sink) (body e t)) ->
  (forall e t, Forall (sink_ok next sink) (body e t)) -> Forall (Forall (sink_ok next sink)) progs ->
  run next body fails isnil maxdepth store_or_load (init progs) sched = (s, b) ->
  (exists th, In th (ths s) /\ status (sh s) th <> 0) ->
  exists tid s', step next body fails isnil maxdepth store_or_load s tid = Some s'.
Proof. exact no_deadlock_thm. Qed.
Print Assumptions no_deadlock.

(* the general form: it suffices that the exclusive-dependency relation between keys is well-founded -
   given as a rank rk on (reference, type): inside the decode function run by a call for key k, nested
   Decodes are for keys of rank <= rk k and nested DecodeExclusives for keys of rank < rk k.
   Top-level programs are unrestricted.  (no_deadlock above is the special case rank 0 / 1.) *)
Theorem no_deadlock_ranked :
  forall next body fails isnil maxdepth (rk : ref -> ty -> nat) progs sched s b,
  wf_file next body -> wf_progs next progs -> ranked next body rk ->
  run next body fails isnil maxdepth store_or_load (init progs) sched = (s, b) ->
  (exists th, In th (ths s) /\ status (sh s) th <> 0) ->
  exists tid s', step next body fails isnil maxdepth store_or_load s tid = Some s'.
Proof. exact no_deadlock_ranked_thm. Qed.
Print Assumptions no_deadlock_ranked.

(* plain Decode is wait-free: in ANY state (no hypothesis), a goroutine inside a Decode call - cache probe,
   Get, decode function, store-or-load; also the inner call of a DecodeExclusive - can step, and the step does
   not leave it blocked.  A goroutine blocks only before `<-p.done`, reached only from the first critical
   section of DecodeExclusive.  Hence [ranked] constrains plain Decodes in decode functions only by
   monotonicity (<=): cycles of plain Decodes (mutually referential objects) are covered with a constant rank *)
Theorem decode_wait_free :
  forall next body fails isnil maxdepth tid s th,
  in_decode (tpc th) ->
  status s th = 1 /\
  exists s' th', step_thread next body fails isnil maxdepth store_or_load tid s th = Some (s', th') /\
                 status s' th' <> 2.
Proof. exact decode_wait_free_thm. Qed.
Print Assumptions decode_wait_free.

Example hyp_ranked_mutual_plain_decode : ranked nonext body_mutual (fun _ _ => 0).
Proof. exact mutual_plain_decode_is_ranked. Qed.

(* the cross-type programs of the harness (the decoder of (1,T0) exclusively decodes reference 1 as T1) and
   the pages+form shape satisfy the condition; a cyclic dependency admits no rank - and deadlocks *)
Example hyp_ranked_cross_type : ranked nonext body_cross rk_cross.
Proof. exact cross_type_is_ranked. Qed.

Example hyp_ranked_pages_form : ranked nonext body_form rk_form.
Proof. exact pages_form_is_ranked. Qed.

Example cyclic_dependency_has_no_rank : ~ exists rk, ranked nonext body_nosink rk.
Proof. exact cyclic_has_no_rank. Qed.

Example deadlock_when_cyclic :
  let '(s, ok) := run nonext body_nosink never never 256 store_or_load
                      (init [[OExcl true 1 0]; [OExcl true 2 0]]) [0;1; 0;0;0;0; 1;1;1;1; 0; 1] in
  ok = true /\ statuses s = [2; 2].
Proof. exact deadlock_without_sink. Qed.

(* programs that never call DecodeExclusive never wait at all (status 2 = blocked) *)
Theorem decode_only_never_wait :
  forall next body fails isnil maxdepth progs sched s b th,
  (forall e t, Forall (no_excl next) (body e t)) -> Forall (Forall (no_excl next)) progs ->
  run next body fails isnil maxdepth store_or_load (init progs) sched = (s, b) ->
  In th (ths s) -> status (sh s) th <> 2.
Proof. exact decode_only_never_wait_thm. Qed.
Print Assumptions decode_only_never_wait.

(* ---- seq_equiv ---- *)
(* the full statement.  [alone next fails maxdepth r path t] is the class of the outcome of the call
   (reference r, cursor path, type t) run alone on an empty cache.  An interleaved outcome differs from it
   EXACTLY when the call returned a (cached) value although alone its walk ends in a cycle error, a depth
   error, or a decoder error on an object of which StoreOrLoadPair has published a view of that type:
   a cache hit ends the walk before the check.  (DecodeExclusive: called with a fresh cursor.) *)
Theorem seq_equiv :
  forall next body fails isnil maxdepth progs sched s b,
  wf_file next body -> wf_progs next progs ->
  (forall e t, Forall xnp (body e t)) -> Forall (Forall xnp) progs ->
  run next body fails isnil maxdepth store_or_load (init progs) sched = (s, b) ->
  (forall tid c o, In (EDec tid c o) (log (sh s)) ->
     (class_of o <> alone next fails maxdepth (cref c) (cpath c) (cty c) <->
      (exists v, o = Ok v) /\ masked next fails maxdepth (log (sh s)) (cref c) (cpath c) (cty c))) /\
  (forall tid r t o, In (EExc tid r t o) (log (sh s)) ->
     (class_of o <> alone next fails maxdepth r [] t <->
      (exists v, o = Ok v) /\ masked next fails maxdepth (log (sh s)) r [] t)).
Proof. exact seq_equiv_thm. Qed.
Print Assumptions seq_equiv.

(* every case of [masked] occurs (the first needs a second goroutine, the others happen sequentially) *)
Example seq_masked_cycle :
  let s := fst (run nonext body_mut never never 256 store_or_load
                    (init [[ODecode true 1 0]; [ODecode true 1 0]]) [0;0;0;0;0;0;0; 1;1;1;1;1;1;1;1;1;1; 0]) in
  differs nonext never 256 (log (sh s)).
Proof. exact masked_cycle_occurs. Qed.

Example seq_masked_depth :
  let s := fst (run next12 nobody never never 1 store_or_load
                    (init [[ODecode true 2 0; ODecode true 1 0]]) [0;0;0;0;0;0;0;0]) in
  differs next12 never 1 (log (sh s)).
Proof. exact masked_depth_occurs. Qed.

Example seq_masked_by_pair :
  let s := fst (run nonext nobody fails10 never 256 store_or_load
                    (init [[OPair 1 0 1; ODecode true 1 0]]) [0;0;0]) in
  differs nonext fails10 256 (log (sh s)).
Proof. exact masked_by_pair_occurs. Qed.

(* consequences: an error is returned only if the call alone returns an error of the same class ... *)
Theorem seq_error_class :
  forall next body fails isnil maxdepth progs sched s b,
  wf_file next body -> wf_progs next progs ->
  (forall e t, Forall xnp (body e t)) -> Forall (Forall xnp) progs ->
  run next body fails isnil maxdepth store_or_load (init progs) sched = (s, b) ->
  (forall tid c x, In (EDec tid c (Err x)) (log (sh s)) ->
     alone next fails maxdepth (cref c) (cpath c) (cty c) = CErr x) /\
  (forall tid r t x, In (EExc tid r t (Err x)) (log (sh s)) -> alone next fails maxdepth r [] t = CErr x).
Proof. exact seq_error_thm. Qed.
Print Assumptions seq_error_class.

(* ... hence a call that succeeds alone succeeds under every interleaving (with the agreed value) *)
Theorem seq_success :
  forall next body fails isnil maxdepth progs sched s b tid c o,
  wf_file next body -> wf_progs next progs ->
  (forall e t, Forall xnp (body e t)) -> Forall (Forall xnp) progs ->
  run next body fails isnil maxdepth store_or_load (init progs) sched = (s, b) ->
  In (EDec tid c o) (log (sh s)) -> alone next fails maxdepth (cref c) (cpath c) (cty c) = COk ->
  exists v, o = Ok v.
Proof. exact seq_success_thm. Qed.
Print Assumptions seq_success.

(* a cache hit ends the walk before the depth limit is noticed - already for one goroutine *)
Example cache_hit_masks_depth_sequentially :
  let s := fst (run next12 nobody never never 1 store_or_load
                    (init [[ODecode true 2 0; ODecode true 1 0]]) [0;0;0;0;0;0;0;0]) in
  alone next12 never 1 1 [] 0 = CErr EDepth /\
  exists v, In (EDec 0 {| cref := 1; cty := 0; cpath := []; cex := None |} (Ok v)) (log (sh s)).
Proof. exact cache_hit_masks_depth_limit. Qed.

(* ---- the store-or-load before fix F14 violates agree ---- *)
Theorem agree_prefix_refuted :
  exists progs sched,
    let s := fst (run next12 nobody never never 256 store_or_load_prefix (init progs) sched) in
    disagree (log (sh s)) 2.
Proof. exact agree_prefix_refuted_lemma. Qed.
Print Assumptions agree_prefix_refuted.

(* ---- the package-level (de)compressor pools (Pool.v; tie: the deterministic pool oracle) ---- *)
(* a pool is a multiset of readers; POpen Gets a pooled reader or a new one, PClose Puts it back once.
   As long as no reader is Put twice for one Get, streams that are open at the same time never share one *)
Theorem pool_no_sharing :
  forall l, forallb disciplined l = true -> NoDup (readers (prun pinit l)).
Proof. exact pool_no_sharing_lemma. Qed.
Print Assumptions pool_no_sharing.

(* one double Put (a stage closed by DecodeStream's chain and again by the stage above it) and the next
   two streams get the same reader *)
Example pool_double_put_aliases :
  readers (prun pinit [POpen 0 None; PCloseTwice 0; POpen 1 (Some 0); POpen 2 (Some 0)]) = [0; 0].
Proof. exact double_put_aliases_lemma. Qed.

(* ---- hypotheses are satisfiable; the restriction of no_deadlock is necessary ---- *)
Example hyp_wf : wf_file next12 nobody /\ wf_progs next12 [[OPair 2 0 1]; [ODecode true 1 0; OExcl true 2 1]] /\
  (forall e t, Forall xnp (nobody e t)) /\ Forall (Forall xnp) [[OPair 2 0 1]; [ODecode true 1 0; OExcl true 2 1]].
Proof. exact wf_hypotheses_satisfiable. Qed.

Example hyp_sink :
  (forall e t, sink_form e t -> Forall (op_sink nonext sink_form) (body_form e t)) /\
  (forall e t, Forall (sink_ok nonext sink_form) (body_form e t)) /\
  Forall (Forall (sink_ok nonext sink_form)) [[ODecode true 1 0]; [ODecode true 2 0]].
Proof. exact sink_hypotheses_satisfiable. Qed.

Example hyp_pair :
  (forall e t, Forall (pair_only nonext 0 1) (nobody e t)) /\
  Forall (Forall (pair_only nonext 0 1)) [[OPair 1 0 1]; [OPair 1 0 1; ODecode true 1 2]].
Proof. exact pair_hypotheses_satisfiable. Qed.

Example hyp_no_excl :
  (forall e t, Forall (no_excl nonext) (nobody e t)) /\
  Forall (Forall (no_excl nonext)) [[ODecode true 1 0; OPair 2 0 1]; [ODecode false 2 0]].
Proof. exact no_excl_hypotheses_satisfiable. Qed.

Example deadlock_when_not_sink :
  let '(s, ok) := run nonext body_nosink never never 256 store_or_load
                      (init [[OExcl true 1 0]; [OExcl true 2 0]]) [0;1; 0;0;0;0; 1;1;1;1; 0; 1] in
  ok = true /\ statuses s = [2; 2].
Proof. exact deadlock_without_sink. Qed.

Example f14_schedule_repaired :
  let s := fst (run next12 nobody never never 256 store_or_load (init progs3) sched_f14) in
  map (fun ev => match ev with EDec tid c o => Some (tid, cref c, o) | _ => None end) (rev (log (sh s)))
  = [None; Some (1, 2, Ok 1); None; Some (0, 1, Ok 1); Some (2, 2, Ok 1)].
Proof. exact f14_schedule_after_fix. Qed.
