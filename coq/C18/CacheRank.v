(* C18 - no deadlock under the weakest natural condition: the relation "the decode
   function of key k (directly, or through nested plain Decodes) calls
   DecodeExclusive for key k'" is well-founded.  It is given as a rank on keys
   (reference, type): inside the decode function run by a call for key k, a nested
   Decode is for a key of rank <= rk k and a nested DecodeExclusive for a key of
   rank < rk k.  Top-level programs are unrestricted.  (For a finite file such a
   rank exists iff the exclusive-dependency relation is acyclic.)

   Then every goroutine that waits, waits for a key of strictly smaller rank than
   every key it holds itself, so the waiter for the key of least rank has a
   holder that can step. *)
From Coq Require Import List Arith Bool Lia.
From GoPdf.C18 Require Import Cache CacheLemmas CacheInv CacheExcl CacheLive.
Import ListNotations.

Section Rank.
Variable next : ref -> option ref.
Variable body : ref -> ty -> list op.
Variable fails isnil : ref -> ty -> bool.
Variable maxdepth : nat.
Variable rk : ref -> ty -> nat.

Notation stepT := (step_thread next body fails isnil maxdepth store_or_load).
Notation stepS := (step next body fails isnil maxdepth store_or_load).
Notation nextop := (next_op fails isnil).
Notation retdec := (ret_decode fails isnil).
Notation ce := (ce next).

Definition le_o (n : nat) (b : option nat) : Prop := match b with None => True | Some m => n <= m end.
Definition lt_o (n : nat) (b : option nat) : Prop := match b with None => True | Some m => n < m end.

Definition op_rk (b : option nat) (o : op) : Prop :=
  match o with
  | ODecode _ r t => le_o (rk r t) b
  | OExcl _ r t => lt_o (rk r t) b
  | OPair _ _ _ => True
  end.

(* the condition: r0 is any reference whose chain ends in the object e *)
Hypothesis body_rk : forall r0 e t, ce r0 e -> Forall (op_rk (Some (rk r0 t))) (body e t).

Definition PT (r : ref) (t : ty) : Prop := True.
Definition PpD (r : ref) (ta tb : ty) : Prop := next r = None.
Notation inv := (inv next PT PT PpD).
Notation th_ok := (th_ok next PT PT PpD).

Definition frk (f : frame) : option nat :=
  match fown f with Some (c, _, _) => Some (rk (cref c) (cty c)) | None => None end.

Definition top (stk : list frame) : option nat := match stk with f :: _ => frk f | [] => None end.

Definition pc_rk (b : option nat) (p : pcs) : Prop :=
  match p with
  | PProbe c _ _ _ | PGet c _ _ _ | PDecode c _ _ _ => le_o (rk (cref c) (cty c)) b
  | PExEnter r t _ | PExWait r t _ => lt_o (rk r t) b
  | _ => True
  end.

Fixpoint rstk (stk : list frame) : Prop :=
  match stk with
  | [] => True
  | f :: below =>
      rstk below /\ Forall (op_rk (frk f)) (frest f) /\ (fown f = None -> below = []) /\
      (forall n, frk f = Some n -> le_o n (top below))
  end.

Definition rth (th : thread) : Prop :=
  rstk (tstk th) /\ pc_rk (top (tstk th)) (tpc th) /\ (tpc th = PDone -> tstk th = []).

Lemma lt_le_o : forall n b, lt_o n b -> le_o n b.
Proof. intros n [m|]; simpl; auto; lia. Qed.

(* everything held in the stack has a rank above a bound on its top *)
Lemma rstk_bound : forall stk n, rstk stk -> lt_o n (top stk) ->
  forall g m, In g stk -> frk g = Some m -> n < m.
Proof.
  induction stk as [|f below IH]; intros n Hr Hn g m Hin Hg; [contradiction|].
  destruct Hr as [Hb [_ [Hnone Hle]]]. simpl in Hn.
  destruct Hin as [<-|Hin].
  - rewrite Hg in Hn. exact Hn.
  - destruct (frk f) as [k|] eqn:Ek.
    + simpl in Hn. specialize (Hle k eq_refl).
      apply (IH n Hb) with (g := g); auto.
      destruct (top below) as [j|]; simpl in *; auto; lia.
    + unfold frk in Ek. destruct (fown f) as [[[c e] refs]|] eqn:Eo; try discriminate.
      rewrite (Hnone eq_refl) in Hin. contradiction.
Qed.

Lemma next_op_rk : forall tid stk fr lg, rstk stk ->
  match nextop tid stk fr lg with (p, stk', _, _) => rstk stk' /\ pc_rk (top stk') p /\ (p = PDone -> stk' = []) end.
Proof.
  induction stk as [|f below IH]; intros fr lg Hr; simpl.
  - repeat split; auto.
  - destruct Hr as [Hb [Hops [Hnone Hle]]].
    destruct f as [rest path own]; simpl in *. destruct rest as [|o rest].
    + destruct own as [[[c e] refs]|].
      * destruct (fails e (cty c)).
        -- destruct (cex c); [repeat split; auto; discriminate|]. apply IH; auto.
        -- repeat split; auto; discriminate.
      * rewrite (Hnone eq_refl). repeat split; auto.
    + inversion Hops; subst.
      assert (Hf : frk {| frest := rest; fpath := path; fown := own |} = frk {| frest := o :: rest; fpath := path; fown := own |}) by reflexivity.
      destruct o; simpl.
      * repeat split; auto; try discriminate.
      * repeat split; auto; try discriminate.
      * repeat split; auto; try discriminate.
Qed.

Lemma ret_decode_rk : forall tid c o stk fr lg, rstk stk ->
  match retdec tid c o stk fr lg with (p, stk', _, _) => rstk stk' /\ pc_rk (top stk') p /\ (p = PDone -> stk' = []) end.
Proof.
  intros. unfold ret_decode. destruct (cex c).
  - repeat split; auto; discriminate.
  - apply next_op_rk; auto.
Qed.

Lemma step_thread_rk : forall tid s th s' th' ca pe,
  th_ok ca pe th -> rth th -> stepT tid s th = Some (s', th') -> rth th'.
Proof.
  intros tid s [pc stk] s' th' ca pe [Hpc Hst] [Hr [Hp Hd]] Hstep.
  unfold step_thread, same, park in Hstep; cbn [tpc tstk] in *.
  assert (RN : forall ca0 wi0 pe0 res, Some (upd s ca0 wi0 pe0 res) = Some (s', th') ->
            (match res with (p, stk', _, _) => rstk stk' /\ pc_rk (top stk') p /\ (p = PDone -> stk' = []) end) -> rth th').
  { intros ca0 wi0 pe0 [[[p0 stk'] fr'] lg'] Hs H. apply some_inj in Hs. apply upd_eq in Hs.
    destruct Hs as [_ [_ [_ [_ [_ [E1 E2]]]]]]. unfold rth. rewrite E1, E2. exact H. }
  destruct pc; cbn [pc_ok] in Hpc; simpl in Hp.
  - eapply RN; eauto. apply next_op_rk; auto.
  - destruct (lookup (cache s) (cur, cty c)); [eapply RN; eauto; apply ret_decode_rk; auto|].
    destruct (mem cur path); [eapply RN; eauto; apply ret_decode_rk; auto|].
    destruct (maxdepth <? S (length path)); [eapply RN; eauto; apply ret_decode_rk; auto|].
    inversion Hstep; subst. repeat split; auto; discriminate.
  - destruct (next cur); inversion Hstep; subst; repeat split; auto; discriminate.
  - destruct Hpc as [_ Hch].
    eapply RN; eauto. apply next_op_rk. simpl. repeat split; auto; try discriminate.
    + apply body_rk. destruct (chain_ok_ce _ _ _ _ Hch); auto.
    + intros n E. inversion E; subst. exact Hp.
  - destruct (store_or_load (cache s) refs (cty c) v) as [ca1 v'].
    eapply RN; eauto. apply ret_decode_rk; auto.
  - destruct (lookup (cache s) (r, t)); [eapply RN; eauto; apply next_op_rk; auto|].
    destruct (lookup (wip s) (r, t)); inversion Hstep; subst; repeat split; auto; try discriminate.
    simpl. apply lt_le_o; auto.
  - destruct (nth_error (pends s) p) as [[k [o|]]|]; try discriminate.
    eapply RN; eauto. apply next_op_rk; auto.
  - eapply RN; eauto. apply next_op_rk; auto.
  - destruct (load_or_store (cache s) (r, ta) a) as [ca1 a'].
    destruct (load_or_store ca1 (r, tb) b) as [ca2 b'].
    eapply RN; eauto. apply next_op_rk; auto.
  - discriminate.
Qed.

Definition rinv (s : state) : Prop := forall th, In th (ths s) -> rth th.

Lemma step_rinv : forall s tid s', inv s -> rinv s -> stepS s tid = Some s' -> rinv s'.
Proof.
  intros s tid s' [Hsh Hth] Hg Hstep. unfold step in Hstep.
  destruct (nth_error (ths s) tid) as [th|] eqn:En; try discriminate.
  destruct (stepT tid (sh s) th) as [[sh' th']|] eqn:Et; try discriminate.
  inversion Hstep; subst; clear Hstep. intros th0 Hin; simpl in Hin.
  apply in_set_nth in Hin. destruct Hin as [->|Hin]; auto.
  pose proof (nth_error_In _ _ En) as Hi.
  eapply step_thread_rk; eauto.
Qed.

Lemma init_rinv : forall progs, rinv (init progs).
Proof.
  intros progs th Hin. simpl in Hin. apply in_map_iff in Hin. destruct Hin as [pr [<- _]].
  split; [|split]; simpl; auto; try discriminate.
  repeat split; auto; try discriminate.
  apply Forall_forall. intros o _. destruct o; simpl; auto.
Qed.

Lemma hc_stk_frame : forall stk q, 0 < hc_stk stk q -> exists f, In f stk /\ frame_pid f = Some q.
Proof.
  induction stk as [|f stk IH]; simpl; intros q H; [lia|].
  destruct (frame_pid f) as [p|] eqn:E; simpl in H.
  - destruct (Nat.eqb p q) eqn:Eq.
    + apply Nat.eqb_eq in Eq; subst. exists f; auto.
    + destruct (IH q) as [g [H1 H2]]; [lia|]. exists g; auto.
  - destruct (IH q) as [g [H1 H2]]; [lia|]. exists g; auto.
Qed.

(* a goroutine that waits for a key of rank < n has, transitively, an enabled holder *)
Lemma waiter_has_enabled : forall s, inv s -> excl_inv s -> rinv s ->
  forall n th r t p, In th (ths s) -> tpc th = PExWait r t p -> rk r t < n ->
  exists th', In th' (ths s) /\ status (sh s) th' = 1.
Proof.
  intros s [Hsh Hth] [H1 [H2 H3]] Hr. induction n as [|n IH]; intros th r t p Hin Hpc Hlt; [lia|].
  destruct (Nat.eq_dec (status (sh s) th) 1) as [E|N]; [exists th; auto|].
  destruct (Hth _ Hin) as [Hok _]. rewrite Hpc in Hok. simpl in Hok. destruct Hok as [_ [o Hk]].
  assert (o = None).
  { unfold status in N. rewrite Hpc, Hk in N. destruct o; congruence. }
  subst o.
  assert (Hone : hc_all (ths s) p = 1) by (apply H2; eauto).
  destruct (hc_all_pos (ths s) p) as [h [Hinh Hpos]]; [lia|].
  destruct (Nat.eq_dec (status (sh s) h) 1) as [E|Nh]; [exists h; auto|].
  (* the holder does not hold p in its pc (it would be enabled), so in a frame; and it waits itself *)
  destruct (Hr _ Hinh) as [Hrs [Hprk Hdone]].
  destruct (Hth _ Hinh) as [Hhok Hhfr].
  destruct h as [hpc hstk]. unfold hc_th in Hpos. simpl in *.
  assert (Hw : exists r' t' p', hpc = PExWait r' t' p' /\ cnt (pc_pid hpc) p = 0).
  { unfold status in Nh; simpl in Nh. destruct hpc; simpl; try congruence.
    - exists r0, t0, p0; split; reflexivity.
    - exfalso. rewrite (Hdone eq_refl) in Hpos. simpl in Hpos. lia. }
  destruct Hw as [r' [t' [p' [-> Hc0]]]]. simpl in Hpos, Hprk.
  destruct (hc_stk_frame hstk p) as [g [Hg Hgp]]; [lia|].
  (* the frame holding p belongs to a call for the key (r,t) *)
  assert (Hgr : frk g = Some (rk r t)).
  { rewrite Forall_forall in Hhfr. destruct (Hhfr _ Hg) as [_ Hown].
    unfold frame_pid in Hgp. unfold frk. destruct (fown g) as [[[c e] refs]|]; try discriminate.
    destruct Hown as [Hcall _]. unfold call_ok in Hcall. rewrite Hgp in Hcall. destruct Hcall as [_ [o' Hk']].
    rewrite Hk in Hk'. inversion Hk'; subst. reflexivity. }
  pose proof (rstk_bound _ _ Hrs Hprk g _ Hg Hgr) as Hless.
  apply (IH {| tpc := PExWait r' t' p'; tstk := hstk |} r' t' p'); auto. lia.
Qed.

Lemma no_deadlock_rank_inv : forall s, inv s -> excl_inv s -> rinv s ->
  (exists th, In th (ths s) /\ status (sh s) th <> 0) -> exists tid s', stepS s tid = Some s'.
Proof.
  intros s Hi He Hr [th [Hin Hst]].
  assert (Hen : exists th', In th' (ths s) /\ status (sh s) th' = 1).
  { destruct (Nat.eq_dec (status (sh s) th) 1) as [E|N]; [exists th; auto|].
    destruct th as [pc stk]. unfold status in Hst, N; simpl in *.
    destruct pc; try congruence.
    apply (waiter_has_enabled s Hi He Hr (S (rk r t)) {| tpc := PExWait r t p; tstk := stk |} r t p); auto. }
  destruct Hen as [th' [Hin' Hs']].
  destruct (In_nth_error _ _ Hin') as [j Hj]. exists j. eapply can_step; eauto.
Qed.

End Rank.
