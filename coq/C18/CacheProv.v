(* C18 - provenance of cached values, and the exact characterisation of when a
   call's interleaved outcome differs from its outcome when run alone:
   only when it returns a cached value although, alone, its walk would have
   ended in a cycle error, a depth error, or in a decoder error for an object
   whose view was published by StoreOrLoadPair. *)
From Coq Require Import List Arith Bool Lia.
From GoPdf.C18 Require Import Cache CacheLemmas CacheInv CacheExcl CacheOnce CachePair CacheSeq.
Import ListNotations.

Section Prov.
Variable next : ref -> option ref.
Variable body : ref -> ty -> list op.
Variable fails isnil : ref -> ty -> bool.
Variable maxdepth : nat.

Notation stepT := (step_thread next body fails isnil maxdepth store_or_load).
Notation stepS := (step next body fails isnil maxdepth store_or_load).
Notation nextop := (next_op fails isnil).
Notation ce := (ce next).
Notation wk := (walk next fails maxdepth).
Notation alone := (alone next fails maxdepth).

Variable Pd Px : ref -> ty -> Prop.
Variable Pp : ref -> ty -> ty -> Prop.
Notation inv := (inv next Pd Px Pp).

Lemma walk_ok_ce : forall n cur path t, wk n cur path t = COk -> exists e, ce cur e /\ fails e t = false.
Proof.
  induction n; intros cur path t H; simpl in H; [discriminate|].
  destruct (mem cur path); [discriminate|].
  destruct (maxdepth <? S (length path)); [discriminate|].
  destruct (next cur) as [r'|] eqn:En.
  - destruct (IHn _ _ _ H) as [e [H1 H2]]. exists e; split; auto. eapply ce_next; eauto.
  - exists cur. split; [constructor; auto|]. destruct (fails cur t); [discriminate|auto].
Qed.

Lemma walk_dec_ce : forall n cur path t, wk n cur path t = CErr EDecode -> exists e, ce cur e /\ fails e t = true.
Proof.
  induction n; intros cur path t H; simpl in H; [discriminate|].
  destruct (mem cur path); [discriminate|].
  destruct (maxdepth <? S (length path)); [discriminate|].
  destruct (next cur) as [r'|] eqn:En.
  - destruct (IHn _ _ _ H) as [e [H1 H2]]. exists e; split; auto. eapply ce_next; eauto.
  - exists cur. split; [constructor; auto|]. destruct (fails cur t); [auto|discriminate].
Qed.

(* a view of r of type t was published by StoreOrLoadPair *)
Definition pairpub (lg : list event) (r : ref) (t : ty) : Prop :=
  exists tid ta tb a b, In (EPair tid r ta tb a b) lg /\ (t = ta \/ t = tb).

(* every cached value was made by a successful decoder run on the chain end, or published as a pair view *)
Definition prov (s : shared) : Prop :=
  forall r t v, lookup (cache s) (r, t) = Some v ->
  (exists e, ce r e /\ fails e t = false) \/ pairpub (log s) r t.

Lemma step_pair_logged : forall tid s stk r ta tb a b s' th',
  stepT tid s {| tpc := PPair r ta tb a b; tstk := stk |} = Some (s', th') ->
  exists a' b', In (EPair tid r ta tb a' b') (log s').
Proof.
  intros. unfold step_thread in H; cbn [tpc tstk] in H.
  destruct (load_or_store (cache s) (r, ta) a) as [ca1 a'].
  destruct (load_or_store ca1 (r, tb) b) as [ca2 b'].
  apply some_inj in H.
  pose proof (next_op_log fails isnil tid stk (fresh s) (EPair tid r ta tb a' b' :: log s)) as Hn.
  destruct (nextop tid stk (fresh s) (EPair tid r ta tb a' b' :: log s)) as [[[pp stk'] fr'] lg'].
  destruct Hn as [nw [-> Hn]]. apply upd_eq in H. destruct H as [_ [_ [_ [_ [Hl' _]]]]].
  exists a', b'. rewrite Hl'. apply in_or_app; right. left; auto.
Qed.

Lemma step_thread_prov : forall tid s th s' th',
  th_ok next Pd Px Pp (cache s) (pends s) th -> th_sq next fails maxdepth th ->
  prov s -> stepT tid s th = Some (s', th') -> prov s'.
Proof.
  intros tid s th s' th' [Hok _] [Hsq _] Hp Hstep.
  destruct (step_thread_log next body fails isnil maxdepth _ _ _ _ _ Hstep) as [new [Hl _]].
  assert (Mono : forall r t, pairpub (log s) r t -> pairpub (log s') r t).
  { intros r t [tid0 [ta [tb [a [b [Hin Ht]]]]]]. exists tid0, ta, tb, a, b. split; auto.
    rewrite Hl. apply in_or_app; auto. }
  assert (Old : forall r t v, lookup (cache s) (r, t) = Some v ->
                (exists e, ce r e /\ fails e t = false) \/ pairpub (log s') r t).
  { intros r t v H. destruct (Hp _ _ _ H); auto. }
  destruct (step_thread_cache next body fails isnil maxdepth _ _ _ _ _ Hstep) as [Hc | c v0 refs Hpc Hc | r0 ta tb a b Hpc Hc];
    intros r t v H; rewrite Hc in H.
  - eauto.
  - rewrite Hpc in Hok, Hsq. simpl in Hok, Hsq. destruct Hok as [_ [e Hch]]. destruct Hsq as [_ Hal].
    unfold store_or_load in H; simpl in H. rewrite fill_spec in H.
    destruct (lookup (cache s) (r, t)) as [y|] eqn:Ey; [eauto|].
    destruct (inrefs refs (cty c) (r, t)) eqn:Ei; [|discriminate].
    apply inrefs_true in Ei. destruct Ei as [r' [Hr' Heq]]. inversion Heq; subst r' t.
    left. destruct (chain_ok_ce _ _ _ _ Hch) as [Hc0 [_ Hall]].
    unfold al, Cache.alone in Hal. destruct (walk_ok_ce _ _ _ _ Hal) as [e' [He' Hf]].
    assert (e' = e) by (eapply ce_fun; eauto). subst e'. exists e; split; auto.
  - destruct th as [pc stk]. simpl in Hpc; subst pc.
    destruct (step_pair_logged _ _ _ _ _ _ _ _ _ _ Hstep) as [a' [b' Hin]].
    destruct (load_or_store (cache s) (r0, ta) a) as [ca1 a1] eqn:E1. simpl in H.
    destruct (load_or_store ca1 (r0, tb) b) as [ca2 b1] eqn:E2. simpl in H.
    destruct (load_or_store_spec _ _ _ _ _ E1) as [_ [_ [O1 _]]].
    destruct (load_or_store_spec _ _ _ _ _ E2) as [_ [_ [O2 _]]].
    destruct (key_dec (r, t) (r0, tb)) as [E|N2].
    + inversion E; subst. right. exists tid, ta, tb, a', b'. auto.
    + rewrite O2 in H by auto. destruct (key_dec (r, t) (r0, ta)) as [E|N1].
      * inversion E; subst. right. exists tid, ta, tb, a', b'. auto.
      * rewrite O1 in H by auto. eauto.
Qed.

Definition prov_inv (s : state) : Prop := prov (sh s).

Lemma step_prov_inv : forall s tid s', inv s -> sq_inv next fails maxdepth s -> prov_inv s ->
  stepS s tid = Some s' -> prov_inv s'.
Proof.
  intros s tid s' [Hsh Hth] [_ [_ Ht]] Hp Hstep. unfold step in Hstep.
  destruct (nth_error (ths s) tid) as [th|] eqn:En; try discriminate.
  destruct (stepT tid (sh s) th) as [[sh' th']|] eqn:Et; try discriminate.
  inversion Hstep; subst; clear Hstep. unfold prov_inv; simpl.
  pose proof (nth_error_In _ _ En) as Hin.
  eapply step_thread_prov; eauto.
Qed.

Lemma init_prov_inv : forall progs, prov_inv (init progs).
Proof. intros progs r t v H. discriminate. Qed.

(* ---- the characterisation ---- *)
Definition masked (lg : list event) (r : ref) (path : list ref) (t : ty) : Prop :=
  alone r path t = CErr ECycle \/ alone r path t = CErr EDepth \/
  (alone r path t = CErr EDecode /\ exists e, ce r e /\ pairpub lg e t).

Lemma differs_iff : forall s r path t o,
  closed next (cache s) -> prov s ->
  out_holds next (cache s) r t o ->
  (forall x, o = Err x -> alone r path t = CErr x) ->
  (class_of o <> alone r path t <-> (exists v, o = Ok v) /\ masked (log s) r path t).
Proof.
  intros s r path t o Hcl Hp Hh He. split.
  - intros Hd. destruct o as [v|x]; [|exfalso; apply Hd; simpl; rewrite (He x); auto].
    split; [eauto|]. simpl in Hd. unfold masked.
    destruct (alone r path t) as [|x] eqn:Ea; [congruence|].
    destruct x; auto. right; right. split; auto.
    unfold Cache.alone in Ea. destruct (walk_dec_ce _ _ _ _ Ea) as [e [Hce Hf]].
    exists e; split; auto.
    simpl in Hh. destruct Hh as [e' [He' Hv]].
    assert (e' = e) by (eapply ce_fun; eauto). subst e'.
    destruct (Hp _ _ _ Hv) as [[e2 [H1 H2]]|H]; auto.
    assert (e2 = e).
    { assert (ce e e) by (constructor; eapply ce_is_end; eauto). eapply ce_fun; eauto. }
    subst e2. congruence.
  - intros [[v ->] [H|[H|[H _]]]]; simpl; rewrite H; discriminate.
Qed.

End Prov.
