Require Extraction.
Require Import ExtrOcamlBasic.
From GoPdf.Base Require Import WireAnchor.
From GoPdf.C18 Require Import Cache.
Separate Extraction wire_anchor run_trace init store_or_load store_or_load_prefix alone.
