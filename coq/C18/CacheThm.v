(* C18 - the theorems, assembled from the invariants, in the form stated in Prop_C18.v *)
From Coq Require Import List Arith Bool Lia.
From GoPdf.C18 Require Import Cache CacheLemmas CacheInv CacheExcl CacheOnce CacheCount CacheLive CacheTypes CacheRank CachePair CacheSeq CacheProv.
Import ListNotations.

Section Thm.
Variable next : ref -> option ref.
Variable body : ref -> ty -> list op.
Variable fails isnil : ref -> ty -> bool.
Variable maxdepth : nat.

Notation stepS := (step next body fails isnil maxdepth store_or_load).
Notation reach := (reach next body fails isnil maxdepth).
Notation runS := (run next body fails isnil maxdepth store_or_load).
Notation ce := (ce next).
Notation alone := (alone next fails maxdepth).

(* every state a schedule leads to is reachable *)
Lemma schedule_reach : forall progs sched s b, runS (init progs) sched = (s, b) -> reach progs s.
Proof. intros. eapply run_reach; eauto. constructor. Qed.

(* ---- well-formedness: StoreOrLoadPair is applied to references of real
   objects, never to an alias object (an object that is itself a reference) ---- *)
Definition pair_direct (o : op) : Prop :=
  match o with OPair r _ _ => next r = None | _ => True end.

Definition wf_file : Prop := forall e t, Forall pair_direct (body e t).
Definition wf_progs (progs : list (list op)) : Prop := Forall (Forall pair_direct) progs.

Definition PT (r : ref) (t : ty) : Prop := True.
Definition PpD (r : ref) (ta tb : ty) : Prop := next r = None.

Lemma pair_direct_ok : forall o, pair_direct o -> op_ok PT PT PpD o.
Proof. intros [] H; simpl in *; unfold PT, PpD; auto. Qed.

Lemma pair_direct_oks : forall l, Forall pair_direct l -> Forall (op_ok PT PT PpD) l.
Proof. intros; eapply Forall_impl; [|eauto]. apply pair_direct_ok. Qed.

Definition all_inv (s : state) : Prop :=
  inv next PT PT PpD s /\ excl_inv s /\ xinv next s /\ pub_inv s.

Lemma reach_all_inv : forall progs s, wf_file -> wf_progs progs -> reach progs s -> all_inv s.
Proof.
  intros progs s Hf Hp Hr.
  assert (B : forall e t, Forall (op_ok PT PT PpD) (body e t)) by (intros; apply pair_direct_oks; auto).
  assert (D : forall r ta tb, PpD r ta tb -> next r = None) by auto.
  induction Hr.
  - split; [|split; [|split]].
    + apply init_inv. eapply Forall_impl; [|exact Hp]. apply pair_direct_oks.
    + apply init_excl_inv.
    + apply init_xinv.
    + apply init_pub_inv.
  - destruct IHHr as [I1 [I2 [I3 I4]]].
    split; [|split; [|split]].
    + eapply step_inv; eauto.
    + eapply step_excl_inv; eauto.
    + eapply step_xinv; eauto.
    + eapply step_pub_inv; eauto.
Qed.

(* ---- agree ---- *)
Theorem agree_thm : forall progs sched s b r r' e t v v',
  wf_file -> wf_progs progs -> runS (init progs) sched = (s, b) ->
  returned (log (sh s)) r t v -> returned (log (sh s)) r' t v' -> ce r e -> ce r' e -> v = v'.
Proof.
  intros. destruct (reach_all_inv progs s) as [I _]; eauto using schedule_reach.
  eapply agree_inv; eauto.
Qed.

Theorem monotone_thm : forall progs sched s b tid s' k v,
  wf_file -> wf_progs progs -> runS (init progs) sched = (s, b) -> stepS s tid = Some s' ->
  lookup (cache (sh s)) k = Some v -> lookup (cache (sh s')) k = Some v.
Proof.
  intros. destruct (reach_all_inv progs s) as [I _]; eauto using schedule_reach.
  assert (B : forall e t, Forall (op_ok PT PT PpD) (body e t)) by (intros; apply pair_direct_oks; auto).
  destruct (step_inv next body fails isnil maxdepth PT PT PpD (fun _ _ _ H => H) B s tid s' I H2) as [_ [L _]].
  apply L; auto.
Qed.

(* the value a call returned stays the value cached for its object (invariant d) *)
Theorem returned_cached_thm : forall progs sched s b r t v,
  wf_file -> wf_progs progs -> runS (init progs) sched = (s, b) ->
  returned (log (sh s)) r t v -> exists e, ce r e /\ lookup (cache (sh s)) (e, t) = Some v.
Proof.
  intros. destruct (reach_all_inv progs s) as [I _]; eauto using schedule_reach.
  eapply returned_holds; eauto.
Qed.

(* ---- exclusive_once ---- *)
Theorem exclusive_mutex_thm : forall progs sched s b i j thi thj r t,
  wf_file -> wf_progs progs -> runS (init progs) sched = (s, b) ->
  nth_error (ths s) i = Some thi -> nth_error (ths s) j = Some thj ->
  inside thi r t -> inside thj r t -> i = j.
Proof.
  intros. destruct (reach_all_inv progs s) as [I1 [I2 _]]; eauto using schedule_reach.
  eapply exclusive_mutex_inv; eauto.
Qed.

Theorem exclusive_no_rerun_thm : forall progs sched s b tid s' r t,
  wf_file -> wf_progs progs -> runS (init progs) sched = (s, b) ->
  published_ok (log (sh s)) r t -> stepS s tid = Some s' ->
  xruns (log (sh s')) r t = xruns (log (sh s)) r t.
Proof.
  intros. destruct (reach_all_inv progs s) as [I1 [I2 [I3 _]]]; eauto using schedule_reach.
  eapply no_rerun_inv; eauto.
Qed.

Theorem waiter_outcome_thm : forall progs sched s b tid th r t p s',
  wf_file -> wf_progs progs -> runS (init progs) sched = (s, b) ->
  nth_error (ths s) tid = Some th -> tpc th = PExWait r t p -> stepS s tid = Some s' ->
  exists o, In (EPub r t p o) (log (sh s)) /\ In (EExc tid r t o) (log (sh s')).
Proof.
  intros. destruct (reach_all_inv progs s) as [I1 [_ [_ I4]]]; eauto using schedule_reach.
  eapply waiter_outcome_inv; eauto.
Qed.

(* the decode function of DecodeExclusive runs at most once for a key whose object it accepts *)
Theorem exclusive_once_count_thm : forall progs sched s b r t,
  wf_file -> wf_progs progs -> (forall e, ce r e -> fails e t = false) ->
  runS (init progs) sched = (s, b) -> xruns (log (sh s)) r t <= 1.
Proof.
  intros progs sched s b r t Hf Hp Hacc Hrun.
  assert (B : forall e t, Forall (op_ok PT PT PpD) (body e t)) by (intros; apply pair_direct_oks; auto).
  assert (R : reach progs s) by (eapply schedule_reach; eauto).
  assert (I : all_inv s /\ count_inv r t s).
  { clear Hrun. induction R.
    - split; [eapply reach_all_inv; eauto; constructor|apply init_count_inv].
    - destruct IHR as [I1 I2]. split.
      + eapply reach_all_inv; eauto. econstructor; eauto.
      + destruct I1 as [J1 [J2 [J3 _]]]. eapply step_count_inv; eauto. }
  destruct I as [_ [K _]]. exact K.
Qed.

(* ---- calls for different types of one reference are independent ---- *)
Theorem wait_same_key_thm : forall progs sched s b tid th r t p,
  wf_file -> wf_progs progs -> runS (init progs) sched = (s, b) ->
  nth_error (ths s) tid = Some th -> tpc th = PExWait r t p ->
  exists o, nth_error (pends (sh s)) p = Some ((r, t), o).
Proof.
  intros. destruct (reach_all_inv progs s) as [I1 _]; eauto using schedule_reach.
  eapply wait_same_key_inv; eauto.
Qed.

Theorem excl_leads_own_type_thm : forall progs sched s b tid th r t path,
  wf_file -> wf_progs progs -> runS (init progs) sched = (s, b) ->
  nth_error (ths s) tid = Some th -> tpc th = PExEnter r t path ->
  lookup (cache (sh s)) (r, t) = None ->
  (forall p, nth_error (pends (sh s)) p <> Some ((r, t), None)) ->
  exists s' th' p,
    stepS s tid = Some s' /\ nth_error (ths s') tid = Some th' /\
    tpc th' = PProbe {| cref := r; cty := t; cpath := path; cex := Some p |} r [] path /\
    lookup (wip (sh s')) (r, t) = Some p /\
    nth_error (pends (sh s')) p = Some ((r, t), None).
Proof.
  intros. destruct (reach_all_inv progs s) as [_ [I2 _]]; eauto using schedule_reach.
  eapply excl_leads_own_type_inv; eauto.
Qed.

(* ---- pair_atomic ---- *)
Definition pair_only (ta tb : ty) (o : op) : Prop := op_ok (PdP ta tb) (PdP ta tb) (PpP next ta tb) o.

Theorem pair_atomic_thm : forall ta tb progs sched s b r,
  (forall e t, Forall (pair_only ta tb) (body e t)) -> Forall (Forall (pair_only ta tb)) progs ->
  runS (init progs) sched = (s, b) ->
  (lookup (cache (sh s)) (r, ta) = None <-> lookup (cache (sh s)) (r, tb) = None).
Proof.
  intros ta tb progs sched s b r Hb Hp Hrun.
  assert (D : forall r ta' tb', PpP next ta tb r ta' tb' -> next r = None) by (intros ? ? ? [H _]; auto).
  assert (R : reach progs s) by (eapply schedule_reach; eauto).
  assert (I : inv next (PdP ta tb) (PdP ta tb) (PpP next ta tb) s /\ pair_inv ta tb s).
  { clear Hrun. induction R.
    - split; [apply init_inv; exact Hp|apply init_pair_inv].
    - destruct IHR as [I1 I2]. split.
      + eapply (step_inv next body fails isnil maxdepth _ _ _ D Hb); eauto.
      + eapply step_pair_inv; eauto. }
  destruct I as [_ I]. apply I.
Qed.

Theorem pair_first_publisher_thm : forall progs sched s b r ta tb tid a b0 tid' a' b0',
  wf_file -> wf_progs progs -> runS (init progs) sched = (s, b) ->
  In (EPair tid r ta tb a b0) (log (sh s)) -> In (EPair tid' r ta tb a' b0') (log (sh s)) ->
  a = a' /\ b0 = b0'.
Proof.
  intros. destruct (reach_all_inv progs s) as [[[_ [Hl _]] _] _]; eauto using schedule_reach.
  apply Hl in H2. apply Hl in H3. simpl in *. destruct H2, H3. split; congruence.
Qed.

(* ---- no_deadlock ---- *)
Definition sink_ok (sink : ref -> ty -> Prop) (o : op) : Prop :=
  op_ok Pd (Px next sink) (Pp next) o.

Theorem no_deadlock_thm : forall (sink : ref -> ty -> Prop) progs sched s b,
  (forall e t, sink e t -> Forall (op_sink next sink) (body e t)) ->
  (forall e t, Forall (sink_ok sink) (body e t)) -> Forall (Forall (sink_ok sink)) progs ->
  runS (init progs) sched = (s, b) ->
  (exists th, In th (ths s) /\ status (sh s) th <> 0) ->
  exists tid s', stepS s tid = Some s'.
Proof.
  intros sink progs sched s b Hc Hb Hp Hrun Hun.
  assert (D : forall r ta tb, Pp next r ta tb -> next r = None) by auto.
  assert (R : reach progs s) by (eapply schedule_reach; eauto).
  assert (I : inv next Pd (Px next sink) (Pp next) s /\ excl_inv s /\ ginv next sink s).
  { clear Hrun Hun. induction R.
    - split; [apply init_inv; exact Hp|split; [apply init_excl_inv|apply init_ginv]].
    - destruct IHR as [I1 [I2 I3]]. split; [|split].
      + eapply (step_inv next body fails isnil maxdepth _ _ _ D Hb); eauto.
      + eapply step_excl_inv; eauto.
      + eapply step_ginv; eauto. }
  destruct I as [I1 [I2 I3]]. eapply no_deadlock_inv; eauto.
Qed.

(* the weakest natural condition: the exclusive-dependency relation is well-founded (CacheRank.v) *)
Definition ranked (rk : ref -> ty -> nat) : Prop :=
  forall r0 e t, ce r0 e -> Forall (op_rk rk (Some (rk r0 t))) (body e t).

Theorem no_deadlock_ranked_thm : forall (rk : ref -> ty -> nat) progs sched s b,
  wf_file -> wf_progs progs -> ranked rk ->
  runS (init progs) sched = (s, b) ->
  (exists th, In th (ths s) /\ status (sh s) th <> 0) ->
  exists tid s', stepS s tid = Some s'.
Proof.
  intros rk progs sched s b Hf Hp Hrk Hrun Hun.
  assert (R : reach progs s) by (eapply schedule_reach; eauto).
  assert (I : all_inv s /\ rinv rk s).
  { clear Hrun Hun. induction R.
    - split; [eapply reach_all_inv; eauto; constructor|apply init_rinv].
    - destruct IHR as [I1 I2]. split.
      + eapply reach_all_inv; eauto. econstructor; eauto.
      + destruct I1 as [J1 _]. eapply step_rinv; eauto. }
  destruct I as [[I1 [I2 _]] I3]. eapply no_deadlock_rank_inv; eauto.
Qed.

Definition no_excl (o : op) : Prop := op_ok PdT PxF (CacheLive.PpD next) o.

Theorem decode_only_never_wait_thm : forall progs sched s b th,
  (forall e t, Forall no_excl (body e t)) -> Forall (Forall no_excl) progs ->
  runS (init progs) sched = (s, b) -> In th (ths s) -> status (sh s) th <> 2.
Proof.
  intros progs sched s b th Hb Hp Hrun Hin.
  assert (D : forall r ta tb, CacheLive.PpD next r ta tb -> next r = None) by auto.
  assert (R : reach progs s) by (eapply schedule_reach; eauto).
  assert (I : inv next PdT PxF (CacheLive.PpD next) s).
  { clear Hrun Hin. induction R; [apply init_inv; exact Hp|eapply (step_inv next body fails isnil maxdepth _ _ _ D Hb); eauto]. }
  eapply decode_only_inv; eauto.
Qed.

(* ---- seq_equiv ---- *)
Theorem seq_error_thm : forall progs sched s b,
  wf_file -> wf_progs progs ->
  (forall e t, Forall xnp (body e t)) -> Forall (Forall xnp) progs ->
  runS (init progs) sched = (s, b) ->
  (forall tid c x, In (EDec tid c (Err x)) (log (sh s)) -> alone (cref c) (cpath c) (cty c) = CErr x) /\
  (forall tid r t x, In (EExc tid r t (Err x)) (log (sh s)) -> alone r [] t = CErr x).
Proof.
  intros progs sched s b Hf Hp Hbx Hpx Hrun.
  assert (B : forall e t, Forall (op_ok PT PT PpD) (body e t)) by (intros; apply pair_direct_oks; auto).
  assert (R : reach progs s) by (eapply schedule_reach; eauto).
  assert (I : inv next PT PT PpD s /\ sq_inv next fails maxdepth s).
  { clear Hrun. induction R.
    - split; [|apply init_sq_inv; auto].
      apply init_inv. eapply Forall_impl; [|exact Hp]. apply pair_direct_oks.
    - destruct IHR as [I1 I2]. split.
      + eapply (step_inv next body fails isnil maxdepth PT PT PpD (fun _ _ _ H => H) B); eauto.
      + eapply step_sq_inv; eauto. }
  destruct I as [_ [Hl _]]. split; intros.
  - apply Hl in H. exact H.
  - apply Hl in H. exact H.
Qed.

Theorem seq_success_thm : forall progs sched s b tid c o,
  wf_file -> wf_progs progs ->
  (forall e t, Forall xnp (body e t)) -> Forall (Forall xnp) progs ->
  runS (init progs) sched = (s, b) ->
  In (EDec tid c o) (log (sh s)) -> alone (cref c) (cpath c) (cty c) = COk -> exists v, o = Ok v.
Proof.
  intros. destruct o as [v|x]; eauto.
  destruct (seq_error_thm progs sched s b) as [E _]; auto.
  apply E in H4. congruence.
Qed.

(* the full statement: exactly when an outcome differs from the run-alone outcome *)
Theorem seq_equiv_thm : forall progs sched s b,
  wf_file -> wf_progs progs ->
  (forall e t, Forall xnp (body e t)) -> Forall (Forall xnp) progs ->
  runS (init progs) sched = (s, b) ->
  (forall tid c o, In (EDec tid c o) (log (sh s)) ->
     (class_of o <> alone (cref c) (cpath c) (cty c) <->
      (exists v, o = Ok v) /\ masked next fails maxdepth (log (sh s)) (cref c) (cpath c) (cty c))) /\
  (forall tid r t o, In (EExc tid r t o) (log (sh s)) ->
     (class_of o <> alone r [] t <->
      (exists v, o = Ok v) /\ masked next fails maxdepth (log (sh s)) r [] t)).
Proof.
  intros progs sched s b Hf Hp Hbx Hpx Hrun.
  assert (B : forall e t, Forall (op_ok PT PT PpD) (body e t)) by (intros; apply pair_direct_oks; auto).
  assert (R : reach progs s) by (eapply schedule_reach; eauto).
  assert (I : inv next PT PT PpD s /\ sq_inv next fails maxdepth s /\ prov_inv next fails s).
  { clear Hrun. induction R.
    - split; [|split; [apply init_sq_inv; auto|apply init_prov_inv]].
      apply init_inv. eapply Forall_impl; [|exact Hp]. apply pair_direct_oks.
    - destruct IHR as [I1 [I2 I3]]. split; [|split].
      + eapply (step_inv next body fails isnil maxdepth PT PT PpD (fun _ _ _ H => H) B); eauto.
      + eapply step_sq_inv; eauto.
      + eapply step_prov_inv; eauto. }
  destruct I as [[[Hcl [Hlg _]] _] [[Hl _] Hpv]]. split; intros.
  - pose proof (Hlg _ H) as H1. pose proof (Hl _ H) as H2. simpl in H1, H2.
    apply differs_iff; auto. intros x ->. exact H2.
  - pose proof (Hlg _ H) as H1. pose proof (Hl _ H) as H2. simpl in H1, H2.
    apply differs_iff; auto. intros x ->. exact H2.
Qed.

End Thm.
