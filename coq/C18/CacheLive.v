(* C18 - no interleaving deadlocks: whenever a goroutine waits for a pending
   exclusive decode, the holder of that entry can step - provided the objects
   decoded exclusively are "sinks": inside their decode functions (transitively)
   no DecodeExclusive is called (the documented restriction). *)
From Coq Require Import List Arith Bool Lia.
From GoPdf.C18 Require Import Cache CacheLemmas CacheInv CacheExcl.
Import ListNotations.

Section Live.
Variable next : ref -> option ref.
Variable body : ref -> ty -> list op.
Variable fails isnil : ref -> ty -> bool.
Variable maxdepth : nat.

Notation stepT := (step_thread next body fails isnil maxdepth store_or_load).
Notation stepS := (step next body fails isnil maxdepth store_or_load).
Notation nextop := (next_op fails isnil).
Notation retdec := (ret_decode fails isnil).
Notation ce := (ce next).

(* the set of (object, type) pairs that may be decoded while an exclusive decode is in progress *)
Variable sink : ref -> ty -> Prop.

Definition op_sink (o : op) : Prop :=
  match o with
  | OExcl _ _ _ => False
  | ODecode _ r t => forall e, ce r e -> sink e t
  | OPair _ _ _ => True
  end.

Hypothesis sink_closed : forall e t, sink e t -> Forall op_sink (body e t).

Definition Pd (r : ref) (t : ty) : Prop := True.
Definition Px (r : ref) (t : ty) : Prop := forall e, ce r e -> sink e t.
Definition Pp (r : ref) (ta tb : ty) : Prop := next r = None.

Notation inv := (inv next Pd Px Pp).
Notation th_ok := (th_ok next Pd Px Pp).

Definition has_ctx (stk : list frame) : bool :=
  existsb (fun f => match frame_pid f with Some _ => true | None => false end) stk.

Definition gframe (f : frame) : Prop := fown f <> None /\ frame_pid f = None /\ Forall op_sink (frest f).

Fixpoint gs (stk : list frame) : Prop :=
  match stk with
  | [] => True
  | f :: below => gs below /\ (has_ctx below = true -> gframe f) /\ (frame_pid f <> None -> Forall op_sink (frest f))
  end.

Definition gpc (p : pcs) : Prop :=
  match p with
  | PProbe c cur _ _ | PGet c cur _ _ => cex c = None /\ forall e, ce cur e -> sink e (cty c)
  | PDecode c e _ _ => cex c = None /\ sink e (cty c)
  | PStore c _ _ => cex c = None
  | PPair _ _ _ _ _ => True
  | _ => False
  end.

Definition gth (th : thread) : Prop := gs (tstk th) /\ (has_ctx (tstk th) = true -> gpc (tpc th)).

Lemma has_ctx_cons : forall f stk, has_ctx (f :: stk) = true -> frame_pid f <> None \/ has_ctx stk = true.
Proof.
  intros f stk H. simpl in H. apply orb_true_iff in H. destruct H; auto.
  left. destruct (frame_pid f); congruence.
Qed.

Lemma next_op_g : forall tid stk fr lg, gs stk ->
  match nextop tid stk fr lg with (p, stk', _, _) => gs stk' /\ (has_ctx stk' = true -> gpc p) end.
Proof.
  induction stk as [|f below IH]; intros fr lg Hg; simpl.
  - split; auto. discriminate.
  - destruct Hg as [Hb [Hgf Hsk]].
    destruct f as [rest path own]; simpl in *. destruct rest as [|o rest].
    + destruct own as [[[c e] refs]|].
      * destruct (fails e (cty c)).
        -- destruct (cex c) eqn:Ex.
           ++ split; auto. intros Hc. destruct (Hgf Hc) as [_ [Hn _]]. unfold frame_pid in Hn; simpl in Hn. congruence.
           ++ apply IH; auto.
        -- split; auto. intros Hc. destruct (Hgf Hc) as [_ [Hn _]]. unfold frame_pid in Hn; simpl in Hn. simpl. auto.
      * split; auto. intros Hc. destruct (Hgf Hc) as [Hn _]. simpl in Hn. congruence.
    + assert (Hfr : frame_pid {| frest := rest; fpath := path; fown := own |} = frame_pid {| frest := o :: rest; fpath := path; fown := own |}) by reflexivity.
      destruct (start o path fr) as [p fr'] eqn:Es.
      split.
      * simpl. split; auto. split.
        -- intros Hc. destruct (Hgf Hc) as [H1 [H2 H3]]. repeat split; auto. inversion H3; auto.
        -- intros Hn. rewrite Hfr in Hn. specialize (Hsk Hn). inversion Hsk; auto.
      * intros Hc. apply has_ctx_cons in Hc.
        assert (Ho : op_sink o).
        { destruct Hc as [Hn|Hc].
          - rewrite Hfr in Hn. specialize (Hsk Hn). inversion Hsk; auto.
          - destruct (Hgf Hc) as [_ [_ H3]]. inversion H3; auto. }
        destruct o; simpl in Es; inversion Es; subst; simpl in *; auto; try contradiction.
Qed.

Lemma ret_decode_g : forall tid c o stk fr lg, gs stk -> (cex c <> None -> has_ctx stk = false) ->
  match retdec tid c o stk fr lg with (p, stk', _, _) => gs stk' /\ (has_ctx stk' = true -> gpc p) end.
Proof.
  intros. unfold ret_decode. destruct (cex c) eqn:Ex.
  - split; auto. intros Hc. rewrite H0 in Hc; congruence.
  - apply next_op_g; auto.
Qed.

Lemma step_thread_g : forall tid s th s' th' ca pe,
  th_ok ca pe th -> gth th -> stepT tid s th = Some (s', th') -> gth th'.
Proof.
  intros tid s [pc stk] s' th' ca pe [Hpc Hst] [Hg Hgp] Hstep.
  unfold step_thread, same, park in Hstep; cbn [tpc tstk] in *.
  assert (RN : forall ca0 wi0 pe0 res, Some (upd s ca0 wi0 pe0 res) = Some (s', th') ->
            (match res with (p, stk', _, _) => gs stk' /\ (has_ctx stk' = true -> gpc p) end) -> gth th').
  { intros ca0 wi0 pe0 [[[p0 stk'] fr'] lg'] Hs H. apply some_inj in Hs. apply upd_eq in Hs.
    destruct Hs as [_ [_ [_ [_ [_ [Hp Hs]]]]]]. unfold gth. rewrite Hp, Hs. exact H. }
  assert (NC : forall c, (has_ctx stk = true -> cex c = None) -> cex c <> None -> has_ctx stk = false).
  { intros c H N. destruct (has_ctx stk); auto. exfalso; auto. }
  destruct pc; cbn [pc_ok] in Hpc.
  - eapply RN; eauto. apply next_op_g; auto.
  - assert (Hcx : cex c <> None -> has_ctx stk = false) by (apply NC; intros H; apply Hgp in H; simpl in H; tauto).
    destruct (lookup (cache s) (cur, cty c)); [eapply RN; eauto; apply ret_decode_g; auto|].
    destruct (mem cur path); [eapply RN; eauto; apply ret_decode_g; auto|].
    destruct (maxdepth <? S (length path)); [eapply RN; eauto; apply ret_decode_g; auto|].
    inversion Hstep; subst. split; simpl; auto.
  - destruct (next cur) as [r'|] eqn:En; inversion Hstep; subst; split; simpl; auto; intros Hc;
      destruct (Hgp Hc) as [H1 H2]; split; auto.
    + intros e He. apply H2. eapply ce_next; eauto.
    + apply H2. constructor; auto.
  - destruct Hpc as [Hc Hch].
    eapply RN; eauto. apply next_op_g. simpl. split; auto. split.
    + intros Hcx. destruct (Hgp Hcx) as [H1 H2]. repeat split; simpl; auto; try congruence.
    + intros Hn. unfold frame_pid in Hn; simpl in Hn. simpl.
      apply sink_closed. unfold call_ok in Hc. destruct (cex c); try congruence.
      destruct Hc as [Hx _]. apply Hx. destruct (chain_ok_ce _ _ _ _ Hch); auto.
  - assert (Hcx : cex c <> None -> has_ctx stk = false) by (apply NC; intros H; apply Hgp in H; simpl in H; tauto).
    destruct (store_or_load (cache s) refs (cty c) v) as [ca1 v'].
    eapply RN; eauto. apply ret_decode_g; auto.
  - assert (Hn : has_ctx stk = false).
    { destruct (has_ctx stk); auto. exfalso. apply Hgp; auto. }
    destruct (lookup (cache s) (r, t)).
    + eapply RN; eauto. apply next_op_g; auto.
    + destruct (lookup (wip s) (r, t)); inversion Hstep; subst; split; simpl; auto; rewrite Hn; discriminate.
  - destruct (nth_error (pends s) p) as [[k [o|]]|]; try discriminate.
    eapply RN; eauto. apply next_op_g; auto.
  - eapply RN; eauto. apply next_op_g; auto.
  - destruct (load_or_store (cache s) (r, ta) a) as [ca1 a'].
    destruct (load_or_store ca1 (r, tb) b) as [ca2 b'].
    eapply RN; eauto. apply next_op_g; auto.
  - discriminate.
Qed.

Definition ginv (s : state) : Prop := forall th, In th (ths s) -> gth th.

Lemma step_ginv : forall s tid s', inv s -> ginv s -> stepS s tid = Some s' -> ginv s'.
Proof.
  intros s tid s' [Hsh Hth] Hg Hstep. unfold step in Hstep.
  destruct (nth_error (ths s) tid) as [th|] eqn:En; try discriminate.
  destruct (stepT tid (sh s) th) as [[sh' th']|] eqn:Et; try discriminate.
  inversion Hstep; subst; clear Hstep. intros th0 Hin; simpl in Hin.
  apply in_set_nth in Hin. destruct Hin as [->|Hin]; auto.
  pose proof (nth_error_In _ _ En) as Hi.
  eapply step_thread_g; eauto.
Qed.

Lemma init_ginv : forall progs, ginv (init progs).
Proof.
  intros progs th Hin. simpl in Hin. apply in_map_iff in Hin. destruct Hin as [pr [<- _]].
  split; simpl; auto.
  - repeat split; auto; try discriminate. intros H; contradiction H; reflexivity.
  - discriminate.
Qed.

(* an enabled goroutine can step *)
Lemma can_step : forall s j th, nth_error (ths s) j = Some th -> status (sh s) th = 1 ->
  exists s', stepS s j = Some s'.
Proof.
  intros s j [pc stk] En Hs. unfold step. rewrite En.
  unfold status in Hs; simpl in Hs. unfold step_thread; cbn [tpc tstk].
  assert (F : forall (x : shared * thread), exists s', (let (s'0, th') := x in Some {| sh := s'0; ths := set_nth j th' (ths s) |}) = Some s').
  { intros [a b]; eexists; reflexivity. }
  unfold park.
  destruct pc; try discriminate; try (first [apply F | eexists; reflexivity]).
  - destruct (lookup (cache (sh s)) (cur, cty c)); [first [apply F | eexists; reflexivity]|].
    destruct (mem cur path); [first [apply F | eexists; reflexivity]|].
    destruct (maxdepth <? S (length path)); first [apply F | eexists; reflexivity].
  - destruct (next cur); first [apply F | eexists; reflexivity].
  - destruct (lookup (cache (sh s)) (r, t)); [first [apply F | eexists; reflexivity]|].
    destruct (lookup (wip (sh s)) (r, t)); first [apply F | eexists; reflexivity].
  - destruct (nth_error (pends (sh s)) p) as [[k [o|]]|]; try discriminate. first [apply F | eexists; reflexivity].
  - destruct (load_or_store (cache (sh s)) (r, ta) a) as [ca1 a'].
    destruct (load_or_store ca1 (r, tb) b); first [apply F | eexists; reflexivity].
Qed.

Lemma hc_stk_has_ctx : forall stk q, 0 < hc_stk stk q -> has_ctx stk = true.
Proof.
  induction stk as [|f stk IH]; simpl; intros; try lia.
  destruct (frame_pid f) eqn:E; simpl; auto. simpl in H. apply IH with (q := q); auto.
Qed.

Lemma holder_enabled : forall s th q, gth th -> 0 < hc_th th q -> status s th = 1.
Proof.
  intros s [pc stk] q [Hg Hgp] H. unfold hc_th in H; simpl in *.
  destruct (Nat.eq_dec (hc_stk stk q) 0) as [Z|NZ].
  - rewrite Z in H. unfold status; simpl. destruct pc; simpl in H; try lia; auto.
  - assert (Hc : has_ctx stk = true) by (apply hc_stk_has_ctx with (q := q); lia).
    specialize (Hgp Hc). unfold status; simpl. destruct pc; simpl in Hgp; try contradiction; auto.
Qed.

Lemma no_deadlock_inv : forall s, inv s -> excl_inv s -> ginv s ->
  (exists th, In th (ths s) /\ status (sh s) th <> 0) -> exists tid s', stepS s tid = Some s'.
Proof.
  intros s [Hsh Hth] [H1 [H2 H3]] Hg [th [Hin Hst]].
  destruct (Nat.eq_dec (status (sh s) th) 1) as [E|N].
  - destruct (In_nth_error _ _ Hin) as [j Hj]. exists j. eapply can_step; eauto.
  - (* blocked: waiting for an open pending entry, whose holder can step *)
    destruct (Hth _ Hin) as [Hpc _].
    destruct th as [pc stk]. unfold status in Hst, N; simpl in *.
    destruct pc; try congruence. simpl in Hpc. destruct Hpc as [_ [o Hk]].
    rewrite Hk in Hst, N. destruct o; try congruence.
    assert (Hone : hc_all (ths s) p = 1) by (apply H2; eauto).
    destruct (hc_all_pos (ths s) p) as [th' [Hin' Hpos]]; try lia.
    destruct (In_nth_error _ _ Hin') as [j Hj]. exists j. eapply can_step; eauto.
    eapply holder_enabled; eauto.
Qed.

End Live.

(* programs that never call DecodeExclusive never wait *)
Section DecodeOnly.
Variable next : ref -> option ref.
Variable body : ref -> ty -> list op.
Variable fails isnil : ref -> ty -> bool.
Variable maxdepth : nat.

Definition PdT (r : ref) (t : ty) : Prop := True.
Definition PxF (r : ref) (t : ty) : Prop := False.
Definition PpD (r : ref) (ta tb : ty) : Prop := next r = None.

Lemma decode_only_inv : forall s th, inv next PdT PxF PpD s -> In th (ths s) -> status (sh s) th <> 2.
Proof.
  intros s [pc stk] [_ Hth] Hin. destruct (Hth _ Hin) as [Hpc _]. unfold status; simpl in *.
  destruct pc; try congruence. simpl in Hpc. destruct Hpc as [[] _].
Qed.

End DecodeOnly.
