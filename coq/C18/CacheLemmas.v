(* C18 - basic facts about the data structures of Cache.v *)
From Coq Require Import List Arith Bool Lia.
From GoPdf.C18 Require Import Cache.
Import ListNotations.

Lemma key_eqb_eq : forall a b : key, key_eqb a b = true <-> a = b.
Proof.
  intros [a1 a2] [b1 b2]; unfold key_eqb; simpl.
  rewrite andb_true_iff, !Nat.eqb_eq. split.
  - intros [-> ->]; reflexivity.
  - intros H; inversion H; auto.
Qed.

Lemma key_eqb_refl : forall a : key, key_eqb a a = true.
Proof. intros; apply key_eqb_eq; reflexivity. Qed.

Lemma key_eqb_neq : forall a b : key, key_eqb a b = false <-> a <> b.
Proof.
  intros a b; split.
  - intros H E; apply key_eqb_eq in E; congruence.
  - intros H; destruct (key_eqb a b) eqn:E; auto. apply key_eqb_eq in E; contradiction.
Qed.

Lemma key_dec : forall a b : key, {a = b} + {a <> b}.
Proof.
  intros a b; destruct (key_eqb a b) eqn:E.
  - left; apply key_eqb_eq; exact E.
  - right; apply key_eqb_neq; exact E.
Qed.

Lemma lookup_cons_eq : forall A (c : list (key * A)) k v, lookup ((k, v) :: c) k = Some v.
Proof. intros; simpl; rewrite key_eqb_refl; reflexivity. Qed.

Lemma lookup_cons_neq : forall A (c : list (key * A)) k k' v, k' <> k -> lookup ((k', v) :: c) k = lookup c k.
Proof. intros; simpl. apply key_eqb_neq in H; rewrite H; reflexivity. Qed.

Lemma lookup_remove_eq : forall A (c : list (key * A)) k, lookup (remove_key c k) k = None.
Proof.
  induction c as [|[k' v] c IH]; intros; simpl; auto.
  destruct (key_eqb k' k) eqn:E; auto. simpl; rewrite E; auto.
Qed.

Lemma lookup_remove_neq : forall A (c : list (key * A)) k k', k' <> k -> lookup (remove_key c k) k' = lookup c k'.
Proof.
  induction c as [|[k0 v] c IH]; intros; simpl; auto.
  destruct (key_eqb k0 k) eqn:E.
  - apply key_eqb_eq in E; subst k0.
    assert (key_eqb k k' = false) by (apply key_eqb_neq; congruence).
    rewrite H0; auto.
  - simpl; destruct (key_eqb k0 k'); auto.
Qed.

Definition cache_le (ca ca' : cachet) : Prop := forall k v, lookup ca k = Some v -> lookup ca' k = Some v.

Lemma cache_le_refl : forall ca, cache_le ca ca.
Proof. unfold cache_le; auto. Qed.

Lemma cache_le_trans : forall a b c, cache_le a b -> cache_le b c -> cache_le a c.
Proof. unfold cache_le; auto. Qed.

Definition inrefs (refs : list ref) (t : ty) (k : key) : bool := existsb (fun r => key_eqb (r, t) k) refs.

Lemma inrefs_true : forall refs t k, inrefs refs t k = true <-> exists r, In r refs /\ k = (r, t).
Proof.
  unfold inrefs; intros; rewrite existsb_exists; split; intros [r [H1 H2]]; exists r; split; auto.
  - apply key_eqb_eq in H2; auto.
  - apply key_eqb_eq; auto.
Qed.

Lemma fill_spec : forall refs ca t v k,
  lookup (fill ca refs t v) k =
  match lookup ca k with Some x => Some x | None => if inrefs refs t k then Some v else None end.
Proof.
  induction refs as [|r tl IH]; intros; simpl.
  - destruct (lookup ca k); auto.
  - destruct (lookup ca (r, t)) eqn:E.
    + rewrite IH. destruct (lookup ca k) eqn:Ek; auto.
      destruct (key_eqb (r, t) k) eqn:Er; simpl; auto.
      apply key_eqb_eq in Er; subst k; congruence.
    + rewrite IH. simpl. destruct (key_eqb (r, t) k) eqn:Er; simpl.
      * apply key_eqb_eq in Er; subst k. rewrite E; auto.
      * destruct (lookup ca k); auto.
Qed.

Lemma fill_le : forall refs ca t v, cache_le ca (fill ca refs t v).
Proof. unfold cache_le; intros; rewrite fill_spec, H; auto. Qed.

Lemma first_cached_some : forall refs ca t x,
  first_cached ca refs t = Some x -> exists r, In r refs /\ lookup ca (r, t) = Some x.
Proof.
  induction refs as [|r tl IH]; simpl; intros; try discriminate.
  destruct (lookup ca (r, t)) eqn:E.
  - inversion H; subst; exists r; auto.
  - destruct (IH _ _ _ H) as [r' [H1 H2]]; exists r'; auto.
Qed.

Lemma first_cached_none : forall refs ca t,
  first_cached ca refs t = None -> forall r, In r refs -> lookup ca (r, t) = None.
Proof.
  induction refs as [|r tl IH]; simpl; intros; try contradiction.
  destruct (lookup ca (r, t)) eqn:E; try discriminate.
  destruct H0; subst; auto.
Qed.

Lemma load_or_store_spec : forall ca k v ca' x,
  load_or_store ca k v = (ca', x) ->
  cache_le ca ca' /\ lookup ca' k = Some x /\
  (forall k', k' <> k -> lookup ca' k' = lookup ca k') /\
  (lookup ca k = None -> x = v).
Proof.
  unfold load_or_store; intros. destruct (lookup ca k) eqn:E; inversion H; subst; clear H.
  - repeat split; auto using cache_le_refl. discriminate.
  - repeat split; auto.
    + intros k' v' H. destruct (key_dec k k') as [->|N].
      * congruence.
      * rewrite lookup_cons_neq; auto.
    + apply lookup_cons_eq.
    + intros; apply lookup_cons_neq; auto.
Qed.

Lemma some_inj : forall A (x y : A), Some x = Some y -> x = y.
Proof. intros; congruence. Qed.

(* lists *)
Lemma set_nth_length : forall A n (x : A) l, length (set_nth n x l) = length l.
Proof. induction n; destruct l; simpl; auto. Qed.

Lemma nth_set_nth_eq : forall A n (x : A) l, n < length l -> nth_error (set_nth n x l) n = Some x.
Proof. induction n; destruct l; simpl; intros; try lia; auto. apply IHn; lia. Qed.

Lemma nth_set_nth_neq : forall A n m (x : A) l, n <> m -> nth_error (set_nth n x l) m = nth_error l m.
Proof.
  induction n; destruct l; destruct m; simpl; intros; auto; try congruence.
Qed.

Lemma in_set_nth : forall A n (x y : A) l, In y (set_nth n x l) -> y = x \/ In y l.
Proof.
  induction n; destruct l; simpl; intros; auto.
  - destruct H; auto.
  - destruct H; auto. apply IHn in H; destruct H; auto.
Qed.

Lemma nth_error_lt : forall A (l : list A) n x, nth_error l n = Some x -> n < length l.
Proof. intros; apply nth_error_Some; congruence. Qed.

Lemma nth_error_app_last : forall A (l : list A) x, nth_error (l ++ [x]) (length l) = Some x.
Proof. intros; rewrite nth_error_app2, Nat.sub_diag; auto. Qed.

Lemma mem_In : forall r l, mem r l = true <-> In r l.
Proof.
  induction l; simpl; split; intros; try discriminate; try contradiction.
  - apply orb_true_iff in H; destruct H.
    + apply Nat.eqb_eq in H; auto.
    + right; apply IHl; auto.
  - apply orb_true_iff. destruct H.
    + left; apply Nat.eqb_eq; auto.
    + right; apply IHl; auto.
Qed.

(* the reference graph *)
Section Graph.
Variable next : ref -> option ref.

(* e is the last reference of r's chain: the object a Decode of r decodes *)
Inductive ce : ref -> ref -> Prop :=
| ce_end r : next r = None -> ce r r
| ce_next r r' e : next r = Some r' -> ce r' e -> ce r e.

Lemma ce_fun : forall r e, ce r e -> forall e', ce r e' -> e = e'.
Proof.
  induction 1; intros e' H'; inversion H'; subst; try congruence.
  rewrite H in H1; inversion H1; subst; auto.
Qed.

Lemma ce_is_end : forall r e, ce r e -> next e = None.
Proof. induction 1; auto. Qed.

(* refs = the references followed from r0 before reaching cur *)
Inductive walked (r0 : ref) : list ref -> ref -> Prop :=
| walked_nil : walked r0 [] r0
| walked_snoc refs cur cur' : walked r0 refs cur -> next cur = Some cur' -> walked r0 (refs ++ [cur]) cur'.

Lemma walked_ce : forall r0 refs cur, walked r0 refs cur ->
  forall e, ce cur e -> ce r0 e /\ forall r, In r refs -> ce r e.
Proof.
  induction 1; intros e He.
  - split; auto. intros r [].
  - assert (Hc : ce cur e) by (eapply ce_next; eauto).
    destruct (IHwalked _ Hc) as [H1 H2]. split; auto.
    intros r Hr; apply in_app_or in Hr; destruct Hr as [Hr|[<-|[]]]; auto.
Qed.

Lemma walked_first : forall r0 refs cur, walked r0 refs cur -> hd cur refs = r0.
Proof.
  induction 1; simpl; auto.
  destruct refs; simpl in *; auto.
Qed.

Definition chain_ok (r0 : ref) (refs : list ref) (e : ref) : Prop :=
  exists refs0, refs = refs0 ++ [e] /\ walked r0 refs0 e /\ next e = None.

Lemma chain_ok_ce : forall r0 refs e, chain_ok r0 refs e ->
  ce r0 e /\ In e refs /\ forall r, In r refs -> ce r e.
Proof.
  intros r0 refs e [refs0 [-> [Hw He]]].
  assert (Hc : ce e e) by (constructor; auto).
  destruct (walked_ce _ _ _ Hw _ Hc) as [H1 H2].
  split; auto. split.
  - apply in_or_app; right; simpl; auto.
  - intros r Hr; apply in_app_or in Hr; destruct Hr as [Hr|[<-|[]]]; auto.
Qed.

Lemma chain_ok_hd : forall r0 refs e, chain_ok r0 refs e -> hd e refs = r0.
Proof.
  intros r0 refs e [refs0 [-> [Hw He]]].
  pose proof (walked_first _ _ _ Hw). destruct refs0; simpl in *; auto.
Qed.

End Graph.
