(* C18 - calls for different result types of one reference are independent:
   cache, wip and the pending entries are keyed by (reference, type).
   - a DecodeExclusive call that waits, waits for an entry registered under its
     own (reference, type) (wait_same_key);
   - a DecodeExclusive call for (r,t) that finds nothing cached and no open entry
     for (r,t) registers its own entry and goes on to run its own decode - whatever
     entries of other types of r are open at that moment (excl_leads_own_type). *)
From Coq Require Import List Arith Bool Lia.
From GoPdf.C18 Require Import Cache CacheLemmas CacheInv CacheExcl.
Import ListNotations.

Section Types.
Variable next : ref -> option ref.
Variable body : ref -> ty -> list op.
Variable fails isnil : ref -> ty -> bool.
Variable maxdepth : nat.
Notation stepS := (step next body fails isnil maxdepth store_or_load).

Variable Pd Px : ref -> ty -> Prop.
Variable Pp : ref -> ty -> ty -> Prop.
Notation inv := (inv next Pd Px Pp).

Lemma wait_same_key_inv : forall s tid th r t p, inv s ->
  nth_error (ths s) tid = Some th -> tpc th = PExWait r t p ->
  exists o, nth_error (pends (sh s)) p = Some ((r, t), o).
Proof.
  intros s tid th r t p [_ Hth] En Hpc.
  destruct (Hth _ (nth_error_In _ _ En)) as [Hok _]. rewrite Hpc in Hok. simpl in Hok. tauto.
Qed.

Lemma excl_leads_own_type_inv : forall s tid th r t path, excl_inv s ->
  nth_error (ths s) tid = Some th -> tpc th = PExEnter r t path ->
  lookup (cache (sh s)) (r, t) = None ->
  (forall p, nth_error (pends (sh s)) p <> Some ((r, t), None)) ->
  exists s' th' p,
    stepS s tid = Some s' /\ nth_error (ths s') tid = Some th' /\
    tpc th' = PProbe {| cref := r; cty := t; cpath := path; cex := Some p |} r [] path /\
    lookup (wip (sh s')) (r, t) = Some p /\
    nth_error (pends (sh s')) p = Some ((r, t), None).
Proof.
  intros s tid [pc stk] r t path [_ [_ H3]] En Hpc Hc Hno. simpl in Hpc; subst pc.
  assert (Hw : lookup (wip (sh s)) (r, t) = None).
  { destruct (lookup (wip (sh s)) (r, t)) as [q|] eqn:E; auto. apply H3 in E. exfalso; eapply Hno; eauto. }
  unfold step. rewrite En. unfold step_thread; cbn [tpc tstk]. rewrite Hc, Hw.
  eexists. eexists. exists (length (pends (sh s))). split; [reflexivity|]. simpl.
  split; [apply nth_set_nth_eq; eapply nth_error_lt; eauto|]. split; [reflexivity|].
  split; [rewrite key_eqb_refl; reflexivity|apply nth_error_app_last].
Qed.

End Types.
