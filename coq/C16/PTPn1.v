(* C16 - page numbers under nesting, part 1: where things are in a tree of writers.
   rho gives, for every range that is still open, the number of pages it will have when it is
   closed; with it every writer has a size, every page a position, and every open range the
   position at which its next page will go. *)
From Coq Require Import List Arith Bool ZArith Lia Permutation.
From GoPdf.Base Require Import Res.
From GoPdf.C16 Require Import PageTree PTBasics PTTails PTStruct PTWriter PTSim PTFut.
Import ListNotations.

Lemma NoDup_app_remove_r {A} (a b : list A) : NoDup (a ++ b) -> NoDup a.
Proof. induction a as [|x a IH]; intros H; [constructor|]. inversion H; subst. constructor; [intros Hx; apply H2; apply in_or_app; auto|auto]. Qed.
Lemma NoDup_app_remove_l {A} (a b : list A) : NoDup (a ++ b) -> NoDup b.
Proof. induction a as [|x a IH]; intros H; [exact H|]. inversion H; subst. auto. Qed.
Lemma NoDup_app_disjoint {A} (a b : list A) : NoDup (a ++ b) -> forall x, In x a -> In x b -> False.
Proof.
  induction a as [|y a IH]; intros H x Ha Hb; [destruct Ha|]. inversion H; subst. destruct Ha as [->|Ha].
  - apply H2. apply in_or_app. auto.
  - exact (IH H3 x Ha Hb).
Qed.
Lemma NoDup_app_intro {A} (a b : list A) : NoDup a -> NoDup b -> (forall x, In x a -> ~ In x b) -> NoDup (a ++ b).
Proof.
  induction a as [|x a IH]; intros Ha Hb Hd; [exact Hb|]. inversion Ha; subst. cbn. constructor.
  - intros Hx. apply in_app_or in Hx as [Hx|Hx]; [auto|]. apply (Hd x (or_introl eq_refl) Hx).
  - apply IH; auto. intros y Hy. apply Hd. right. exact Hy.
Qed.

(* named ids of a tree of writers *)
Fixpoint wids (w : writer) : list nat :=
  match w with
  | Wr wid _ ch _ _ _ _ => (match wid with Some i => [i] | None => [] end) ++ flat_map wids ch
  end.

Definition named_open (wid : option nat) (cl : bool) : option nat :=
  match wid, cl with Some i, false => Some i | _, _ => None end.

(* a writer with a hole *)
Inductive wctx :=
| CHole
| CNode (wid : option nat) (cl : bool) (l1 : list writer) (C : wctx) (l2 : list writer)
        (tail : list ninfo) (npn : option nat) (pn : list nat) (nc : list cb).

Fixpoint plug (C : wctx) (t : writer) : writer :=
  match C with
  | CHole => t
  | CNode wid cl l1 C' l2 tail npn pn nc => Wr wid cl (l1 ++ plug C' t :: l2) tail npn pn nc
  end.

Fixpoint cids (C : wctx) : list nat :=
  match C with
  | CHole => []
  | CNode wid cl l1 C' l2 _ _ _ _ =>
    (match wid with Some i => [i] | None => [] end) ++ flat_map wids l1 ++ cids C' ++ flat_map wids l2
  end.

Lemma wids_plug C x : Permutation (wids (plug C x)) (wids x ++ cids C).
Proof.
  induction C as [|wid cl l1 C IH l2 tail npn pn nc]; cbn [plug cids wids]; [rewrite app_nil_r; reflexivity|].
  rewrite flat_map_app. cbn [flat_map]. rewrite IH.
  set (a := match wid with Some i => [i] | None => [] end).
  rewrite <- !app_assoc.
  apply Permutation_trans with (a ++ wids x ++ flat_map wids l1 ++ cids C ++ flat_map wids l2).
  - apply Permutation_app_head. apply perm_swap.
  - apply perm_swap.
Qed.

(* ids of the ranges that are open *)
Fixpoint woids (w : writer) : list nat :=
  match w with
  | Wr wid cl ch _ _ _ _ => (match named_open wid cl with Some i => [i] | None => [] end) ++ flat_map woids ch
  end.
Fixpoint coids (C : wctx) : list nat :=
  match C with
  | CHole => []
  | CNode wid cl l1 C' l2 _ _ _ _ =>
    (match named_open wid cl with Some i => [i] | None => [] end) ++ flat_map woids l1 ++ coids C' ++ flat_map woids l2
  end.

Lemma woids_plug C x : Permutation (woids (plug C x)) (woids x ++ coids C).
Proof.
  induction C as [|wid cl l1 C IH l2 tail npn pn nc]; cbn [plug coids woids]; [rewrite app_nil_r; reflexivity|].
  rewrite flat_map_app. cbn [flat_map]. rewrite IH.
  set (a := match named_open wid cl with Some i => [i] | None => [] end).
  rewrite <- !app_assoc.
  apply Permutation_trans with (a ++ woids x ++ flat_map woids l1 ++ coids C ++ flat_map woids l2).
  - apply Permutation_app_head. apply perm_swap.
  - apply perm_swap.
Qed.

Lemma woids_sub w : forall j, In j (woids w) -> In j (wids w).
Proof.
  induction w as [wid cl ch tail npn pn nc IH] using writer_ind'. intros j Hj. cbn [woids wids] in *.
  apply in_app_or in Hj as [Hj|Hj]; apply in_or_app.
  - left. destruct wid as [i|], cl; cbn in *; auto.
  - right. apply in_flat_map in Hj as (c & Hc & Hj). apply in_flat_map. exists c. split; [exact Hc|].
    rewrite Forall_forall in IH. exact (IH c Hc j Hj).
Qed.

Lemma coids_sub C : forall j, In j (coids C) -> In j (cids C).
Proof.
  induction C as [|wid cl l1 C IH l2 tail npn pn nc]; intros j Hj; [destruct Hj|]. cbn [coids cids] in *.
  assert (forall l, In j (flat_map woids l) -> In j (flat_map wids l)) as Hl.
  { intros l H. apply in_flat_map in H as (c & Hc & H). apply in_flat_map. exists c. split; [exact Hc|apply woids_sub; exact H]. }
  repeat (apply in_app_or in Hj as [Hj|Hj]); repeat rewrite in_app_iff; auto.
  left. destruct wid as [i|], cl; cbn in *; auto.
Qed.

(* the path to the hole: the writer looked for is not found earlier *)
Fixpoint cpath (id : nat) (C : wctx) : Prop :=
  match C with
  | CHole => True
  | CNode wid cl l1 C' l2 _ _ _ _ => wid <> Some id /\ Forall (fun c => ~ In id (wids c)) l1 /\ cpath id C'
  end.

Lemma with_writer_none id f st w : with_writer id f w st = Ok None -> ~ In id (wids w).
Proof.
  induction w as [wid cl ch tail npn pn nc IH] using writer_ind'. intros H.
  rewrite with_writer_eq in H. destruct (match wid with Some i => i =? id | None => false end) eqn:Eid.
  - apply bind_ok in H as (r & _ & H). discriminate.
  - apply bind_ok in H as (o & Hl & H). destruct o as [[[ch' st'] ok]|]; [discriminate|]. clear H.
    cbn [wids]. intros Hin. apply in_app_or in Hin as [Hin|Hin].
    + destruct wid as [i|]; [|destruct Hin]. destruct Hin as [->|[]]. rewrite Nat.eqb_refl in Eid. discriminate.
    + revert Hl Hin. induction ch as [|c cs IHc]; intros Hl Hin; [destruct Hin|].
      inversion IH as [|? ? Pc Pcs]; subst. cbn [ww_list] in Hl. apply bind_ok in Hl as (oc & Hc & Hl).
      destruct oc as [[[c' st'] ok]|]; [discriminate|]. apply bind_ok in Hl as (o' & Hr & Hl).
      destruct o' as [[[r' st'] ok]|]; [discriminate|]. cbn [flat_map] in Hin. apply in_app_or in Hin as [Hin|Hin].
      * exact (Pc Hc Hin).
      * exact (IHc Pcs Hr Hin).
Qed.

Lemma with_writer_split id f st w : forall w' st' ok, with_writer id f w st = Ok (Some (w', st', ok)) ->
  exists C t t', w = plug C t /\ w' = plug C t' /\ w_id t = Some id /\ f t st = Ok (t', st', ok) /\ cpath id C.
Proof.
  induction w as [wid cl ch tail npn pn nc IH] using writer_ind'. intros w' st' ok H.
  rewrite with_writer_eq in H. destruct (match wid with Some i => i =? id | None => false end) eqn:Eid.
  - destruct wid as [i|]; [|discriminate]. apply Nat.eqb_eq in Eid. subst i.
    apply bind_ok in H as ([[t' st1] ok1] & Hf & H). injection H as <- <- <-.
    exists CHole, (Wr (Some id) cl ch tail npn pn nc), t'. cbn. auto.
  - apply bind_ok in H as (o & Hl & H). destruct o as [[[ch' st1] ok1]|]; [|discriminate]. injection H as <- <- <-.
    assert (exists l1 c l2 C t t', ch = l1 ++ c :: l2 /\ ch' = l1 ++ plug C t' :: l2 /\ c = plug C t /\
              w_id t = Some id /\ f t st = Ok (t', st1, ok1) /\ cpath id C /\ Forall (fun c => ~ In id (wids c)) l1)
      as (l1 & c & l2 & C & t & t' & E1 & E2 & E3 & E4 & E5 & E6 & E7).
    { clear Eid. revert ch' Hl. induction ch as [|c cs IHc]; intros ch' Hl; [discriminate|].
      inversion IH as [|? ? Pc Pcs]; subst. cbn [ww_list] in Hl. apply bind_ok in Hl as (oc & Hc & Hl).
      destruct oc as [[[c' st2] ok2]|].
      - injection Hl as <- <- <-. destruct (Pc _ _ _ Hc) as (C & t & t' & A1 & A2 & A3 & A4 & A5).
        exists [], c, cs, C, t, t'. cbn [app]. subst c'. auto 10.
      - apply bind_ok in Hl as (o' & Hr & Hl). destruct o' as [[[r' st2] ok2]|]; [|discriminate]. injection Hl as <- <- <-.
        destruct (IHc Pcs _ Hr) as (l1 & c0 & l2 & C & t & t' & A1 & A2 & A3 & A4 & A5 & A6 & A7).
        exists (c :: l1), c0, l2, C, t, t'. cbn [app]. subst cs r'. splits; auto.
        constructor; [exact (with_writer_none _ _ _ _ Hc)|exact A7]. }
    exists (CNode wid cl l1 C l2 tail npn pn nc), t, t'. cbn [plug cpath]. subst ch ch' c. splits; auto.
    intros ->. rewrite Nat.eqb_refl in Eid. discriminate.
Qed.

Section Rho.
Variable rho : nat -> nat.

Fixpoint wsize (w : writer) : nat :=
  match w with
  | Wr wid cl ch tail _ _ _ =>
    match named_open wid cl with
    | Some i => rho i
    | None => list_sum (map wsize ch) + length (tleaves tail)
    end
  end.

Definition sizes (l : list writer) : nat := list_sum (map wsize l).

Lemma sizes_app a b : sizes (a ++ b) = sizes a + sizes b.
Proof. unfold sizes. rewrite map_app, list_sum_app. reflexivity. Qed.
Lemma sizes_cons c l : sizes (c :: l) = wsize c + sizes l.
Proof. reflexivity. Qed.

Fixpoint csize (s : nat) (C : wctx) : nat :=
  match C with
  | CHole => s
  | CNode wid cl l1 C' l2 tail _ _ _ =>
    match named_open wid cl with
    | Some i => rho i
    | None => sizes l1 + csize s C' + sizes l2 + length (tleaves tail)
    end
  end.

Lemma wsize_plug C x : wsize (plug C x) = csize (wsize x) C.
Proof.
  induction C as [|wid cl l1 C IH l2 tail npn pn nc]; [reflexivity|]. cbn [plug wsize csize].
  destruct (named_open wid cl); [reflexivity|]. fold (sizes (l1 ++ plug C x :: l2)).
  rewrite sizes_app, sizes_cons, IH. lia.
Qed.

(* offset of the hole *)
Fixpoint coff (C : wctx) : nat :=
  match C with
  | CHole => 0
  | CNode _ _ l1 C' _ _ _ _ _ => sizes l1 + coff C'
  end.

(* ---- things collected over a tree, each node contributing at the offset where its own pages start *)
Section Fold.
Context {X : Type}.
Variable loc : nat -> option nat -> bool -> list ninfo -> option nat -> list nat -> list cb -> list X.

Fixpoint wfold (off : nat) (w : writer) : list X :=
  match w with
  | Wr wid cl ch tail npn pn nc =>
    (fix go (l : list writer) (o : nat) {struct l} : list X :=
       match l with
       | [] => loc o wid cl tail npn pn nc
       | c :: r => wfold o c ++ go r (o + wsize c)
       end) ch off
  end.

Fixpoint lfold (l : list writer) (o : nat) : list X :=
  match l with
  | [] => []
  | c :: r => wfold o c ++ lfold r (o + wsize c)
  end.

Lemma wfold_eq off wid cl ch tail npn pn nc :
  wfold off (Wr wid cl ch tail npn pn nc) = lfold ch off ++ loc (off + sizes ch) wid cl tail npn pn nc.
Proof.
  cbn [wfold]. revert off. induction ch as [|c cs IH]; intros off.
  - cbn. rewrite Nat.add_0_r. reflexivity.
  - cbn [lfold]. rewrite IH, sizes_cons, <- app_assoc, Nat.add_assoc. reflexivity.
Qed.

Lemma lfold_app a b o : lfold (a ++ b) o = lfold a o ++ lfold b (o + sizes a).
Proof.
  revert o. induction a as [|c a IH]; intros o; cbn [app lfold].
  - cbn. rewrite Nat.add_0_r. reflexivity.
  - rewrite IH, sizes_cons, <- app_assoc, Nat.add_assoc. reflexivity.
Qed.

Fixpoint cfold (off s : nat) (C : wctx) : list X :=
  match C with
  | CHole => []
  | CNode wid cl l1 C' l2 tail npn pn nc =>
    lfold l1 off ++ cfold (off + sizes l1) s C' ++ lfold l2 (off + sizes l1 + csize s C') ++
    loc (off + sizes l1 + csize s C' + sizes l2) wid cl tail npn pn nc
  end.

Lemma wfold_plug C : forall off x,
  Permutation (wfold off (plug C x)) (wfold (off + coff C) x ++ cfold off (wsize x) C).
Proof.
  induction C as [|wid cl l1 C IH l2 tail npn pn nc]; intros off x; cbn [plug coff cfold].
  - rewrite Nat.add_0_r, app_nil_r. reflexivity.
  - rewrite wfold_eq, lfold_app. cbn [lfold]. rewrite IH, wsize_plug, sizes_app, sizes_cons, wsize_plug.
    rewrite <- !app_assoc. rewrite (Nat.add_assoc off (sizes l1) (coff C)).
    replace (off + (sizes l1 + (csize (wsize x) C + sizes l2))) with (off + sizes l1 + csize (wsize x) C + sizes l2) by lia.
    apply perm_swap.
Qed.

End Fold.

(* the same fold with another local part *)
Lemma wfold_ext_loc {X} (loc loc' : nat -> option nat -> bool -> list ninfo -> option nat -> list nat -> list cb -> list X) :
  (forall o wid cl tail npn pn nc, loc o wid cl tail npn pn nc = loc' o wid cl tail npn pn nc) ->
  forall w off, wfold loc off w = wfold loc' off w.
Proof.
  intros H. induction w as [wid cl ch tail npn pn nc IH] using writer_ind'. intros off. rewrite !wfold_eq, H. f_equal.
  revert off. induction ch as [|c cs IHc]; intros off; [reflexivity|]. inversion IH; subst. cbn [lfold]. f_equal; auto.
Qed.

(* ---- the five folds *)
Definition loc_lay (o : nat) (wid : option nat) (cl : bool) (tail : list ninfo) (npn : option nat) (pn : list nat) (nc : list cb)
  : list (nat * nat) := combine (ids (tleaves tail)) (seq o (length (tleaves tail))).
Definition loc_req (o : nat) (wid : option nat) (cl : bool) (tail : list ninfo) (npn : option nat) (pn : list nat) (nc : list cb)
  : list (nat * nat) :=
  match named_open wid cl, npn with Some _, Some c => [(c, o + length (tleaves tail))] | _, _ => [] end.
Definition loc_x (o : nat) (wid : option nat) (cl : bool) (tail : list ninfo) (npn : option nat) (pn : list nat) (nc : list cb)
  : list (nat * Z) :=
  match named_open wid cl with Some i => upd_of (Z.of_nat (rho i)) nc | None => [] end.
Definition loc_pend (o : nat) (wid : option nat) (cl : bool) (tail : list ninfo) (npn : option nat) (pn : list nat) (nc : list cb)
  : list (nat * nat) :=
  match named_open wid cl with Some i => map (pair i) pn | None => [] end.

Definition wlay := wfold loc_lay.     (* (page, position) *)
Definition wreq := wfold loc_req.     (* (cell, position at which the next page of an open range goes) *)
Definition wx := wfold loc_x 0.       (* (cell, pages) owed by the open ranges *)
Definition wpend := wfold loc_pend 0. (* (range, callback) registered with NextPageNumber and not resolved *)

(* the folds that do not look at the offset *)
Lemma wfold_off {X} (loc : nat -> option nat -> bool -> list ninfo -> option nat -> list nat -> list cb -> list X) :
  (forall o o' wid cl tail npn pn nc, loc o wid cl tail npn pn nc = loc o' wid cl tail npn pn nc) ->
  forall w off off', wfold loc off w = wfold loc off' w.
Proof.
  intros H. induction w as [wid cl ch tail npn pn nc IH] using writer_ind'. intros off off'. rewrite !wfold_eq.
  rewrite (H _ (off' + sizes ch)). f_equal.
  revert off off'. induction ch as [|c cs IHc]; intros off off'; [reflexivity|]. inversion IH; subst. cbn [lfold]. f_equal; auto.
Qed.

Lemma cfold_off {X} (loc : nat -> option nat -> bool -> list ninfo -> option nat -> list nat -> list cb -> list X) :
  (forall o o' wid cl tail npn pn nc, loc o wid cl tail npn pn nc = loc o' wid cl tail npn pn nc) ->
  forall C off off' s s', cfold loc off s C = cfold loc off' s' C.
Proof.
  intros H. assert (forall l o o', lfold loc l o = lfold loc l o') as Hl.
  { induction l as [|c l IHl]; intros o o'; [reflexivity|]. cbn [lfold]. f_equal; [apply wfold_off; exact H|apply IHl]. }
  induction C as [|wid cl l1 C IH l2 tail npn pn nc]; intros off off' s s'; [reflexivity|]. cbn [cfold].
  rewrite (Hl l1 off off'), (IH _ (off' + sizes l1) s s'), (Hl l2 _ (off' + sizes l1 + csize s' C)),
    (H _ (off' + sizes l1 + csize s' C + sizes l2)). reflexivity.
Qed.

End Rho.

(* ---- only the sizes of the open ranges of the tree itself matter *)
Lemma wfold_ext_rho {X} rho rho'
      (loc loc' : nat -> option nat -> bool -> list ninfo -> option nat -> list nat -> list cb -> list X) :
  (forall o wid cl tail npn pn nc, (forall i, named_open wid cl = Some i -> rho i = rho' i) ->
     loc o wid cl tail npn pn nc = loc' o wid cl tail npn pn nc) ->
  forall w, (forall j, In j (woids w) -> rho j = rho' j) ->
  wsize rho w = wsize rho' w /\ forall off, wfold rho loc off w = wfold rho' loc' off w.
Proof.
  intros Hloc. induction w as [wid cl ch tail npn pn nc IH] using writer_ind'. intros Hr.
  assert (forall i, named_open wid cl = Some i -> rho i = rho' i) as Hw.
  { intros i E. apply Hr. cbn [woids]. rewrite E. cbn. auto. }
  assert (sizes rho ch = sizes rho' ch /\ forall off, lfold rho loc ch off = lfold rho' loc' ch off) as [Hs Hl].
  { assert (forall j, In j (flat_map woids ch) -> rho j = rho' j) as Hr'.
    { intros j Hj. apply Hr. cbn [woids]. apply in_or_app. right. exact Hj. }
    clear Hr Hw. induction ch as [|c cs IHc]; [auto|]. inversion IH as [|? ? Pc Pcs]; subst.
    destruct Pc as [P1 P2]; [intros j Hj; apply Hr'; cbn; apply in_or_app; auto|].
    destruct (IHc Pcs) as [Q1 Q2]; [intros j Hj; apply Hr'; cbn; apply in_or_app; auto|].
    rewrite !sizes_cons. split; [congruence|]. intros off. cbn [lfold]. rewrite P1, P2, Q2. reflexivity. }
  split.
  - cbn [wsize]. fold (sizes rho ch) (sizes rho' ch). destruct (named_open wid cl) as [i|] eqn:E; [apply Hw; reflexivity|congruence].
  - intros off. rewrite !wfold_eq, Hs, Hl, (Hloc _ _ _ _ _ _ _ Hw). reflexivity.
Qed.

Lemma loc_x_ext rho rho' o wid cl tail npn pn nc : (forall i, named_open wid cl = Some i -> rho i = rho' i) ->
  loc_x rho o wid cl tail npn pn nc = loc_x rho' o wid cl tail npn pn nc.
Proof. intros H. unfold loc_x. destruct (named_open wid cl) as [i|]; [|reflexivity]. rewrite (H i eq_refl). reflexivity. Qed.

Lemma folds_ext rho rho' w : (forall j, In j (woids w) -> rho j = rho' j) ->
  wsize rho w = wsize rho' w /\ (forall off, wlay rho off w = wlay rho' off w) /\
  (forall off, wreq rho off w = wreq rho' off w) /\ wx rho w = wx rho' w /\ wpend rho w = wpend rho' w.
Proof.
  intros H. split; [|split; [|split; [|split]]].
  - apply (wfold_ext_rho rho rho' loc_lay loc_lay (fun _ _ _ _ _ _ _ _ => eq_refl) w H).
  - apply (wfold_ext_rho rho rho' loc_lay loc_lay (fun _ _ _ _ _ _ _ _ => eq_refl) w H).
  - apply (wfold_ext_rho rho rho' loc_req loc_req (fun _ _ _ _ _ _ _ _ => eq_refl) w H).
  - apply (wfold_ext_rho rho rho' (loc_x rho) (loc_x rho') (loc_x_ext rho rho') w H).
  - apply (wfold_ext_rho rho rho' loc_pend loc_pend (fun _ _ _ _ _ _ _ _ => eq_refl) w H).
Qed.

(* ---- plugging, for the four folds *)
Section Rho2.
Variable rho : nat -> nat.

Definition cx (C : wctx) := cfold rho (loc_x rho) 0 0 C.
Definition cpend (C : wctx) := cfold rho loc_pend 0 0 C.

Lemma wx_plug C x : Permutation (wx rho (plug C x)) (wx rho x ++ cx C).
Proof.
  unfold wx, cx. rewrite wfold_plug. rewrite (wfold_off rho (loc_x rho) (fun _ _ _ _ _ _ _ _ => eq_refl) x _ 0).
  rewrite (cfold_off rho (loc_x rho) (fun _ _ _ _ _ _ _ _ => eq_refl) C 0 0 _ 0). reflexivity.
Qed.
Lemma wpend_plug C x : Permutation (wpend rho (plug C x)) (wpend rho x ++ cpend C).
Proof.
  unfold wpend, cpend. rewrite wfold_plug. rewrite (wfold_off rho loc_pend (fun _ _ _ _ _ _ _ _ => eq_refl) x _ 0).
  rewrite (cfold_off rho loc_pend (fun _ _ _ _ _ _ _ _ => eq_refl) C 0 0 _ 0). reflexivity.
Qed.
Lemma wreq_plug C x : Permutation (wreq rho 0 (plug C x)) (wreq rho (coff rho C) x ++ cfold rho loc_req 0 (wsize rho x) C).
Proof. unfold wreq. rewrite wfold_plug. reflexivity. Qed.
Lemma wlay_plug C x : Permutation (wlay rho 0 (plug C x)) (wlay rho (coff rho C) x ++ cfold rho loc_lay 0 (wsize rho x) C).
Proof. unfold wlay. rewrite wfold_plug. reflexivity. Qed.

(* the pages of a layout *)
Lemma combine_fst {A B} (a : list A) (b : list B) : length a = length b -> map fst (combine a b) = a.
Proof. revert b. induction a as [|x a IH]; intros [|y b] H; try discriminate; [reflexivity|]. cbn. f_equal. apply IH. cbn in H. lia. Qed.

Lemma wlay_pages w : forall off, map fst (wlay rho off w) = ids (wpages w).
Proof.
  induction w as [wid cl ch tail npn pn nc IH] using writer_ind'. intros off. unfold wlay. rewrite wfold_eq.
  cbn [wpages]. unfold ids. rewrite !map_app. fold (ids (tleaves tail)). f_equal.
  - revert off. induction ch as [|c cs IHc]; intros off; [reflexivity|]. inversion IH as [|? ? Pc Pcs]; subst.
    cbn [lfold flat_map]. rewrite !map_app. f_equal; [apply Pc|apply IHc; exact Pcs].
  - unfold loc_lay. apply combine_fst. unfold ids. rewrite map_length, seq_length. reflexivity.
Qed.

(* entries of the folds name ranges / cells of the tree *)
Lemma wpend_ids w : forall e, In e (wpend rho w) -> In (fst e) (wids w).
Proof.
  induction w as [wid cl ch tail npn pn nc IH] using writer_ind'. intros e He. unfold wpend in He. rewrite wfold_eq in He.
  cbn [wids]. apply in_app_or in He as [He|He].
  - apply in_or_app. right. revert He. generalize 0. induction ch as [|c cs IHc]; intros o He; [destruct He|].
    inversion IH as [|? ? Pc Pcs]; subst. cbn [lfold flat_map] in *. apply in_app_or in He as [He|He]; apply in_or_app.
    + left. apply Pc. unfold wpend. rewrite (wfold_off rho loc_pend (fun _ _ _ _ _ _ _ _ => eq_refl) c 0 o). exact He.
    + right. exact (IHc Pcs _ He).
  - unfold loc_pend in He. destruct wid as [i|], cl; cbn [named_open] in He; try destruct He.
    apply in_map_iff in He as (k & <- & _). cbn. auto.
Qed.

Lemma lpend_ids ch : forall o e, In e (lfold rho loc_pend ch o) -> In (fst e) (flat_map wids ch).
Proof.
  induction ch as [|c cs IH]; intros o e He; [destruct He|]. cbn [lfold flat_map] in *.
  apply in_app_or in He as [He|He]; apply in_or_app.
  - left. apply wpend_ids. unfold wpend. rewrite (wfold_off rho loc_pend (fun _ _ _ _ _ _ _ _ => eq_refl) c 0 o). exact He.
  - right. exact (IH _ _ He).
Qed.

Definition dummy : writer := Wr None true [] [] None [] [].

Lemma cpend_ids C e : In e (cpend C) -> In (fst e) (cids C).
Proof.
  intros He. assert (In e (wpend rho (plug C dummy))) as H.
  { apply (Permutation_in _ (Permutation_sym (wpend_plug C dummy))). apply in_or_app. right. exact He. }
  apply wpend_ids in H. apply (Permutation_in _ (wids_plug C dummy)) in H. exact H.
Qed.

End Rho2.

(* every range in the subtree has the number of pages rho says *)
Inductive settled (rho : nat -> nat) : writer -> Prop :=
| st_w wid cl ch tail npn pn nc :
    Forall (settled rho) ch ->
    (forall i, named_open wid cl = Some i -> rho i = length (wpages (Wr wid cl ch tail npn pn nc))) ->
    settled rho (Wr wid cl ch tail npn pn nc).

Lemma settled_size rho w : settled rho w -> wsize rho w = length (wpages w).
Proof.
  induction w as [wid cl ch tail npn pn nc IH] using writer_ind'. intros H. inversion H as [? ? ? ? ? ? ? Hc Hi]; subst.
  cbn [wsize]. destruct (named_open wid cl) as [i|] eqn:E; [apply Hi; reflexivity|].
  cbn [wpages]. rewrite app_length. f_equal. clear Hi H. induction ch as [|c cs IHc]; [reflexivity|].
  inversion IH; subst. inversion Hc; subst. cbn. rewrite app_length. f_equal; auto.
Qed.

Lemma combine_app {A B} (a a' : list A) (b b' : list B) : length a = length b ->
  combine (a ++ a') (b ++ b') = combine a b ++ combine a' b'.
Proof. revert b. induction a as [|x a IH]; intros [|y b] H; try discriminate; [reflexivity|]. cbn. f_equal. apply IH. cbn in H. lia. Qed.

Lemma settled_lay rho w : settled rho w -> forall off,
  wlay rho off w = combine (ids (wpages w)) (seq off (length (wpages w))).
Proof.
  induction w as [wid cl ch tail npn pn nc IH] using writer_ind'. intros H off. inversion H as [? ? ? ? ? ? ? Hc Hi]; subst.
  unfold wlay. rewrite wfold_eq. cbn [wpages]. unfold ids. rewrite map_app, app_length, seq_app.
  assert (sizes rho ch = length (flat_map wpages ch)) as Hs.
  { clear - Hc. induction Hc as [|c cs Hc0 _ IHc]; [reflexivity|]. rewrite sizes_cons. cbn. rewrite app_length, (settled_size _ _ Hc0). congruence. }
  rewrite combine_app by (rewrite map_length, seq_length; reflexivity). rewrite Hs. f_equal. clear Hi H Hs.
  revert off. induction ch as [|c cs IHc]; intros off; [reflexivity|]. inversion IH as [|? ? Pc Pcs]; subst. inversion Hc as [|? ? Sc Scs]; subst.
  cbn [lfold flat_map]. rewrite map_app, app_length, seq_app.
  rewrite combine_app by (rewrite map_length, seq_length; reflexivity).
  f_equal; [apply Pc; exact Sc|]. rewrite (settled_size _ _ Sc). apply IHc; assumption.
Qed.

Lemma settled_ext rho rho' w : (forall j, In j (wids w) -> rho j = rho' j) -> settled rho w -> settled rho' w.
Proof.
  induction w as [wid cl ch tail npn pn nc IH] using writer_ind'. intros Hr H. inversion H as [? ? ? ? ? ? ? Hc Hi]; subst.
  constructor.
  - rewrite Forall_forall in *. intros c Hin. apply IH; [exact Hin| |apply Hc; exact Hin].
    intros j Hj. apply Hr. cbn [wids]. apply in_or_app. right. apply in_flat_map. eauto.
  - intros i E. rewrite <- (Hi i E). symmetry. apply Hr. destruct wid as [i'|], cl; cbn in E; try discriminate.
    injection E as ->. cbn. auto.
Qed.

(* a valuation that settles a tree with distinct names, and is the given one elsewhere *)
Lemma settle rho w : NoDup (wids w) -> exists rho', settled rho' w /\ forall j, ~ In j (wids w) -> rho' j = rho j.
Proof.
  revert rho. induction w as [wid cl ch tail npn pn nc IH] using writer_ind'. intros rho Hnd.
  assert (NoDup (flat_map wids ch)) as Hndc.
  { cbn [wids] in Hnd. apply NoDup_app_remove_l in Hnd. exact Hnd. }
  assert (exists rho1, Forall (settled rho1) ch /\ forall j, ~ In j (flat_map wids ch) -> rho1 j = rho j) as (rho1 & S1 & E1).
  { clear Hnd. revert rho Hndc. induction ch as [|c cs IHc]; intros rho Hndc; [exists rho; auto|].
    inversion IH as [|? ? Pc Pcs]; subst. cbn [flat_map] in Hndc.
    destruct (IHc Pcs rho (NoDup_app_remove_l _ _ Hndc)) as (r1 & A1 & A2).
    destruct (Pc r1 (NoDup_app_remove_r _ _ Hndc)) as (r2 & B1 & B2).
    exists r2. split.
    - constructor; [exact B1|]. rewrite Forall_forall in *. intros c' Hc'. apply (settled_ext r1); [|apply A1; exact Hc'].
      intros j Hj. symmetry. apply B2. intros Hj'.
      apply (NoDup_app_disjoint _ _ Hndc j Hj'). apply in_flat_map. eauto.
    - intros j Hj. rewrite B2, A2; auto; intros Hj'; apply Hj; cbn; apply in_or_app; auto. }
  destruct (named_open wid cl) as [i|] eqn:E.
  - exists (fun j => if j =? i then length (wpages (Wr wid cl ch tail npn pn nc)) else rho1 j).
    assert (wid = Some i) as -> by (destruct wid, cl; cbn in E; congruence).
    cbn [wids app] in Hnd. inversion Hnd as [|? ? Hni _]; subst. split.
    + constructor.
      * rewrite Forall_forall in *. intros c Hc. apply (settled_ext rho1); [|apply S1; exact Hc].
        intros j Hj. destruct (Nat.eqb_spec j i) as [->|]; [|reflexivity]. exfalso. apply Hni. apply in_flat_map. eauto.
      * intros i' E'. rewrite E in E'. injection E' as <-. rewrite Nat.eqb_refl. reflexivity.
    + intros j Hj. cbn [wids app] in Hj. destruct (Nat.eqb_spec j i) as [->|]; [exfalso; apply Hj; left; reflexivity|].
      apply E1. intros Hj'. apply Hj. right. exact Hj'.
  - exists rho1. split.
    + constructor; [exact S1|]. intros i E'. congruence.
    + intros j Hj. apply E1. intros Hj'. apply Hj. cbn [wids]. apply in_or_app. auto.
Qed.
