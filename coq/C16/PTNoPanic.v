(* C16 - the panic branches are unreachable in the balancing loop of AppendPageDict and in collapse,
   under the invariant of a tail (depths weakly decreasing, fewer than D nodes per depth); hence no
   program on the root range alone can panic.  The depth-list arithmetic is C17's (KTDepths). *)
From Coq Require Import List Arith Bool ZArith Lia Sorted.
From GoPdf.Base Require Import Res.
From GoPdf.C17 Require Import KTDepths KTWriter.
From GoPdf.C16 Require Import PageTree PTBasics PTTails PTWriter PTSim PTFuel PTPageNum.
Import ListNotations.

Lemma lead_run_same d l : PageTree.lead_run d l = KeyTree.lead_run d l.
Proof. induction l as [|x l IH]; [reflexivity|]. cbn. rewrite IH. reflexivity. Qed.

Lemma max_depth_hd cs c0 r : cs = c0 :: r -> wdec (depths cs) -> max_depth cs = n_depth c0.
Proof.
  intros -> Hw. cbn [depths map] in Hw. unfold max_depth. cbn [fold_right]. fold (max_depth r).
  assert (max_depth r <= n_depth c0) as H; [|lia].
  pose proof (hd_ge_all _ _ Hw) as Hge. clear Hw. induction r as [|x r IHr]; [cbn; lia|].
  cbn [max_depth fold_right]. fold (max_depth r).
  assert (n_depth c0 >= n_depth x) by (apply Hge; right; left; reflexivity).
  assert (max_depth r <= n_depth c0) by (apply IHr; intros y Hy; apply Hge; cbn in *; tauto). lia.
Qed.


(* ---- depth lists *)
Lemma cnt_firstn_le e n l : cnt e (firstn n l) <= cnt e l.
Proof. rewrite <- (firstn_skipn n l) at 2. rewrite cnt_app. lia. Qed.

Lemma wdec_firstn n l : wdec l -> wdec (firstn n l).
Proof. intros H. rewrite <- (firstn_skipn n l) in H. apply wdec_app in H. tauto. Qed.
Lemma wdec_skipn n l : wdec l -> wdec (skipn n l).
Proof. intros H. rewrite <- (firstn_skipn n l) in H. apply wdec_app in H. tauto. Qed.

Lemma wdec_nth_ge l i j : wdec l -> i <= j -> j < length l -> nth i l 0 >= nth j l 0.
Proof.
  revert i j. induction l as [|x l IH]; intros i j Hw Hij Hj; [cbn in Hj; lia|].
  destruct i as [|i], j as [|j]; cbn [nth]; try lia.
  - apply (hd_ge_all _ _ Hw). right. apply nth_In. cbn in Hj. lia.
  - apply IH; [inversion Hw; assumption|lia|cbn in Hj; lia].
Qed.

(* a stretch of equal depths counts *)
Lemma cnt_stretch e l i k : (forall t, t < k -> nth (i + t) l 0 = e) -> i + k <= length l -> k <= cnt e l.
Proof.
  revert l i. induction k as [|k IH]; intros l i H Hl; [lia|].
  rewrite <- (firstn_skipn i l). rewrite cnt_app.
  assert (exists x r, skipn i l = x :: r) as (x & r & E).
  { destruct (skipn i l) eqn:E; [|eauto]. apply (f_equal (@length nat)) in E. rewrite skipn_length in E. cbn in E. lia. }
  assert (x = e) as ->.
  { specialize (H 0 ltac:(lia)). rewrite Nat.add_0_r in H. rewrite <- (firstn_skipn i l) in H.
    rewrite app_nth2 in H by (rewrite firstn_length; lia). rewrite firstn_length, Nat.min_l in H by lia.
    rewrite Nat.sub_diag, E in H. exact H. }
  rewrite E. unfold cnt at 2. cbn [count_occ]. destruct (Nat.eq_dec e e); [|congruence].
  assert (k <= cnt e r); [|unfold cnt in *; lia].
  apply (IH r 0).
  - intros t Ht. specialize (H (S t) ltac:(lia)). rewrite <- (firstn_skipn i l) in H.
    rewrite app_nth2 in H by (rewrite firstn_length; lia). rewrite firstn_length, Nat.min_l in H by lia.
    replace (i + S t - i) with (S t) in H by lia. rewrite E in H. exact H.
  - apply (f_equal (@length nat)) in E. rewrite skipn_length in E. cbn in E. cbn. lia.
Qed.

Lemma nth_firstn' {A} (l : list A) i n d : i < n -> nth i (firstn n l) d = nth i l d.
Proof.
  revert i n. induction l as [|x l IH]; intros i n H; [destruct n, i; reflexivity|].
  destruct n; [lia|]. destruct i; [reflexivity|]. cbn. apply IH. lia.
Qed.

Lemma lastd_nth l : lastd l = nth (length l - 1) l 0.
Proof. unfold lastd. symmetry. apply nth_last. Qed.

(* merging the nodes from a run boundary s to the end keeps the loop invariant *)
Lemma LI_squeeze F ds s : 2 <= F -> LI F ds -> s < length ds ->
  (s = 0 \/ nth (s - 1) ds 0 <> nth s ds 0) -> LI F (firstn s ds ++ [S (nth s ds 0)]).
Proof.
  intros HF [Hw Hc] Hs Hb. set (e := nth s ds 0).
  assert (forall x, In x (firstn s ds) -> x > e) as Hgt.
  { intros x Hx. destruct Hb as [->|Hb]; [destruct Hx|].
    apply In_nth with (d := 0) in Hx as (i & Hi & <-). rewrite firstn_length in Hi.
    rewrite nth_firstn' by lia.
    assert (nth i ds 0 >= nth (s - 1) ds 0) by (apply wdec_nth_ge; auto; lia).
    assert (nth (s - 1) ds 0 >= e) by (apply wdec_nth_ge; auto; lia). unfold e in *. lia. }
  assert (lastd ds <= e) as Hle.
  { rewrite lastd_nth. apply wdec_nth_ge; auto; lia. }
  split.
  - apply wdec_app. split; [apply wdec_firstn; exact Hw|]. split; [constructor; constructor|].
    intros x y Hx [<-|[]]. specialize (Hgt x Hx). lia.
  - intros x. rewrite lastd_snoc, cnt_app. unfold cnt at 2. unfold cnt at 3. cbn [count_occ].
    pose proof (cnt_firstn_le x s ds) as Hf. destruct (Hc x) as [Hc1 Hc2].
    destruct (Nat.eq_dec (S e) x) as [<-|Hne].
    + assert (S e <> lastd ds) as Hx by lia. specialize (Hc2 Hx). split; [lia|congruence].
    + assert (cnt x (firstn s ds) < F); [|split; [lia|intros; lia]].
      destruct (Nat.eq_dec x (lastd ds)) as [->|Hxl]; [|specialize (Hc2 Hxl); lia].
      assert (cnt (lastd ds) (firstn s ds) = 0); [|lia]. apply cnt_notin. intros Hin. specialize (Hgt _ Hin). lia.
Qed.

Lemma LI_single F d : 2 <= F -> LI F [d].
Proof.
  intros HF. split; [constructor; constructor|]. intros e. unfold cnt, lastd. cbn. destruct (Nat.eq_dec d e); split; intros; lia.
Qed.

Section NoPanic.
Variable D : nat.
Variable old : bool.
Variable choose : list Z -> Z.
Variable choose_rot : list (option Z) -> option Z.
Hypothesis HD : 2 <= D.

Notation merge_nodes := (merge_nodes D old choose choose_rot).
Notation merge_tail := (merge_tail D old choose choose_rot).
Notation squeeze := (squeeze D old choose choose_rot).
Notation collapse := (collapse D old choose choose_rot).
Notation append_tail := (append_tail D old choose choose_rot).

(* mergeNodes on a slice of admissible length succeeds; the depths of the result *)
Lemma merge_nodes_succeeds pre cs post next c0 r : cs = c0 :: r -> 2 <= length cs <= D -> wdec (depths cs) ->
  exists out, merge_nodes (pre ++ cs ++ post) (length pre) (length pre + length cs) next = Ok (out, S next) /\
    depths out = depths pre ++ [S (n_depth c0)] ++ depths post /\ length out = length pre + 1 + length post.
Proof.
  intros Ecs Hl Hw. unfold PageTree.merge_nodes. rewrite !app_length.
  replace (length pre + length cs - length pre) with (length cs) by lia.
  destruct ((length pre + (length cs + length post) <? length pre + length cs) || (length cs <? 2) || (D <? length cs)) eqn:G.
  { exfalso. apply orb_true_iff in G as [G|G]; [apply orb_true_iff in G as [G|G]|];
      [apply Nat.ltb_lt in G|apply Nat.ltb_lt in G|apply Nat.ltb_lt in G]; lia. }
  rewrite skipn_app, skipn_all, Nat.sub_diag. cbn [skipn app].
  rewrite firstn_app, firstn_all, Nat.sub_diag. cbn [firstn]. rewrite app_nil_r.
  rewrite firstn_app, firstn_all, Nat.sub_diag. cbn [firstn]. rewrite app_nil_r.
  replace (length pre + length cs) with (length (pre ++ cs)) by apply app_length.
  rewrite app_assoc, skipn_app, skipn_all, Nat.sub_diag. cbn [skipn app].
  destruct (inherit _ _ _ _ _) as [pa kids]. eexists. split; [reflexivity|]. split.
  - unfold depths. rewrite !map_app. cbn [map n_depth]. rewrite (max_depth_hd cs c0 r Ecs Hw). reflexivity.
  - rewrite !app_length. cbn. lia.
Qed.

Lemma depths_app a b : depths (a ++ b) = depths a ++ depths b.
Proof. apply map_app. Qed.
Lemma depths_length a : length (depths a) = length a.
Proof. apply map_length. Qed.

(* ---- the balancing loop of AppendPageDict *)
Lemma merge_tail_ok fuel : forall tail next, length tail < fuel -> LI D (depths tail) ->
  exists out nx, merge_tail fuel tail next = Ok (out, nx) /\ Inv D (depths out).
Proof.
  induction fuel as [|fuel IH]; intros tail next Hf HLI; [lia|]. cbn [PageTree.merge_tail].
  destruct (length tail <? D) eqn:En.
  - apply Nat.ltb_lt in En. exists tail, next. split; [reflexivity|]. apply LI_exit_short; [exact HLI|rewrite depths_length; exact En].
  - apply Nat.ltb_ge in En.
    destruct (split_at (length tail - D) tail ltac:(lia)) as (Esp & Hlp & Hlm).
    remember (firstn (length tail - D) tail) as pre eqn:Xp. remember (skipn (length tail - D) tail) as mid eqn:Xm. clear Xp Xm.
    assert (length mid = D) as HlmD by lia.
    destruct mid as [|c0 r] eqn:Emid; [cbn in HlmD; lia|]. rewrite <- Emid in *.
    assert (depth_at (length tail - D) tail = hd 0 (depths mid)) as Hhd.
    { unfold depth_at. rewrite Esp at 2. rewrite depths_app. replace (length tail - D) with (length (depths pre)) by (rewrite depths_length; exact Hlp).
      apply nth_app_hd. }
    assert (depth_at (length tail - 1) tail = lastd (depths tail)) as Hlast.
    { unfold depth_at. rewrite lastd_nth, depths_length. reflexivity. }
    rewrite Hhd, Hlast.
    assert (lastd (depths tail) = lastd (depths mid)) as Hlm2.
    { rewrite Esp at 1. rewrite depths_app. apply lastd_app. rewrite Emid. discriminate. }
    destruct (lastd (depths tail) =? hd 0 (depths mid)) eqn:Eq; cbn [negb].
    + apply Nat.eqb_eq in Eq.
      assert (wdec (depths mid)) as Hwm.
      { destruct HLI as [Hwd _]. rewrite Esp, depths_app in Hwd. apply wdec_app in Hwd. tauto. }
      assert (Forall (eq (hd 0 (depths mid))) (depths mid)) as Hall.
      { apply mid_all_eq; [exact Hwm|rewrite Emid; discriminate|congruence]. }
      assert (~ In (hd 0 (depths mid)) (depths pre)) as Hnot.
      { eapply full_run_notin; [rewrite <- depths_app, <- Esp; exact HLI|exact Hall|rewrite depths_length; exact HlmD]. }
      destruct (merge_nodes_succeeds pre mid [] next c0 r Emid ltac:(lia) Hwm) as (out & Hm & Hd & Hl).
      rewrite app_nil_r, <- Esp in Hm. replace (length pre + length mid) with (length tail) in Hm by lia.
      rewrite Hlp in Hm. rewrite Hm. cbn [bind].
      apply IH; [cbn in Hl; lia|]. rewrite Hd. cbn [depths map app].
      assert (n_depth c0 = hd 0 (depths mid)) as -> by (rewrite Emid; reflexivity).
      apply (LI_step D (depths pre) (depths mid)); [lia|rewrite <- depths_app, <- Esp; exact HLI|rewrite Emid; discriminate|exact Hall|exact Hnot].
    + apply Nat.eqb_neq in Eq. exists tail, next. split; [reflexivity|].
      rewrite Esp, depths_app. apply LI_exit_ne.
      * rewrite <- depths_app, <- Esp. exact HLI.
      * rewrite depths_length. exact HlmD.
      * rewrite Emid. discriminate.
      * rewrite <- depths_app, <- Esp. congruence.
Qed.

Lemma append_tail_ok tail id a next : Inv D (depths tail) ->
  exists out nx, append_tail tail id a next = Ok (out, nx) /\ Inv D (depths out).
Proof.
  intros HI. unfold PageTree.append_tail. apply merge_tail_ok; [lia|].
  rewrite depths_app. cbn [depths map]. apply Inv_snoc0. exact HI.
Qed.

(* ---- the start++ loop: it finds the next run boundary, or runs off the end of a constant stretch *)
Lemma adj_start_spec fuel : forall ds start, 0 < fuel -> length ds < fuel + start -> 0 < start -> start < length ds ->
  (exists s, adj_start fuel ds start = Ok s /\ start <= s < length ds /\ nth (s - 1) ds 0 <> nth s ds 0 /\
             forall i, start - 1 <= i < s -> nth i ds 0 = nth (start - 1) ds 0) \/
  (adj_start fuel ds start = Err Panic /\ forall i, start - 1 <= i < length ds -> nth i ds 0 = nth (start - 1) ds 0).
Proof.
  induction fuel as [|fuel IH]; intros ds start H0 Hf Hs Hl; [lia|]. cbn [adj_start].
  destruct (0 <? start) eqn:E0; [|apply Nat.ltb_ge in E0; lia].
  destruct (length ds <=? start) eqn:E1; [apply Nat.leb_le in E1; lia|].
  destruct (nth (start - 1) ds 0 =? nth start ds 0) eqn:E2.
  - apply Nat.eqb_eq in E2. destruct (Nat.eq_dec (S start) (length ds)) as [Hend|Hend].
    + (* the next step leaves the list *)
      right. destruct fuel as [|fuel]; [lia|]. cbn [adj_start]. cbn [Nat.ltb Nat.leb].
      assert (length ds <=? S start = true) as -> by (apply Nat.leb_le; lia).
      split; [reflexivity|]. intros i Hi. assert (i = start - 1 \/ i = start) as [->| ->] by lia; congruence.
    + destruct (IH ds (S start)) as [(s & Ha & Hr & Hb & Heq)|(Ha & Heq)]; try lia.
      * left. exists s. split; [exact Ha|]. split; [lia|]. split; [exact Hb|].
        intros i Hi. destruct (Nat.eq_dec i (start - 1)) as [->|Hne]; [reflexivity|].
        rewrite (Heq i) by lia. replace (S start - 1) with start by lia. congruence.
      * right. split; [exact Ha|]. intros i Hi. destruct (Nat.eq_dec i (start - 1)) as [->|Hne]; [reflexivity|].
        rewrite (Heq i) by lia. replace (S start - 1) with start by lia. congruence.
  - apply Nat.eqb_neq in E2. left. exists start. split; [reflexivity|]. split; [lia|]. split; [exact E2|].
    intros i Hi. assert (i = start - 1) as -> by lia. reflexivity.
Qed.

(* ---- one round of collapse / of merge's first loop *)
Lemma squeeze_ok a next : LI D (depths a) -> 2 <= length a ->
  exists out nx, squeeze a next = Ok (out, nx) /\ LI D (depths out) /\ length out < length a /\ out <> [].
Proof.
  intros HLI Hlen. unfold PageTree.squeeze. set (ds := depths a) in *. set (n := length a) in *.
  assert (length ds = n) as Hdl by (apply depths_length).
  (* the boundary the start++ loop finds *)
  assert (exists s, adj_start (S n) ds (n - D) = Ok s /\ n - D <= s /\ s + 2 <= n /\ (s = 0 \/ nth (s - 1) ds 0 <> nth s ds 0)) as (s & Hadj & Hs1 & Hs2 & Hb).
  { destruct (Nat.eq_dec (n - D) 0) as [E0|E0].
    - rewrite E0. exists 0. cbn. split; [reflexivity|]. split; [lia|]. split; [lia|left; reflexivity].
    - destruct (adj_start_spec (S n) ds (n - D)) as [(s & Ha & Hr & Hbd & Heq)|(Ha & Heq)]; try lia.
      + exists s. split; [exact Ha|]. split; [lia|]. split; [|right; exact Hbd].
        (* a boundary at the very end would mean D equal depths before a different last one *)
        destruct (Nat.lt_ge_cases s (n - 1)) as [Hlt|Hge]; [lia|]. exfalso.
        assert (s = n - 1) as -> by lia.
        set (e := nth (n - D - 1) ds 0) in *.
        assert (D <= cnt e ds) as Hcnt.
        { apply (cnt_stretch e ds (n - D - 1) D); [|lia]. intros t Ht. apply Heq. lia. }
        destruct HLI as [_ Hc]. destruct (Hc e) as [_ Hc2].
        assert (e <> lastd ds) as Hne.
        { rewrite lastd_nth, Hdl. rewrite <- (Heq (n - 1 - 1)) by lia. exact Hbd. }
        specialize (Hc2 Hne). lia.
      + exfalso. set (e := nth (n - D - 1) ds 0) in *.
        assert (S D <= cnt e ds) as Hcnt.
        { apply (cnt_stretch e ds (n - D - 1) (S D)); [|lia]. intros t Ht. apply Heq. lia. }
        destruct HLI as [_ Hc]. destruct (Hc e) as [Hc1 _]. lia. }
  rewrite Hadj. cbn [bind].
  (* the nodes from s on become one node *)
  destruct (split_at s a ltac:(lia)) as (Esp & Hlp & Hlm).
  remember (firstn s a) as pre eqn:Xp. remember (skipn s a) as cs eqn:Xc.
  destruct cs as [|c0 r] eqn:Ecs; [cbn in Hlm; lia|]. rewrite <- Ecs in *.
  assert (wdec (depths cs)) as Hwc.
  { destruct HLI as [Hw _]. fold ds in Hw. rewrite Xc. unfold depths. rewrite <- skipn_map. apply wdec_skipn. exact Hw. }
  destruct (merge_nodes_succeeds pre cs [] next c0 r Ecs ltac:(lia) Hwc) as (out & Hm & Hd & Hl).
  rewrite app_nil_r, <- Esp in Hm. replace (length pre + length cs) with (length a) in Hm by lia. rewrite Hlp in Hm.
  exists out, (S next). split; [exact Hm|]. split; [|split; [cbn in Hl; lia|intros ->; cbn in Hl; lia]].
  rewrite Hd. cbn [depths map app].
  assert (depths pre = firstn s ds) as -> by (rewrite Xp; unfold ds, depths; rewrite firstn_map; reflexivity).
  assert (n_depth c0 = nth s ds 0) as ->.
  { unfold ds. rewrite Esp, depths_app. rewrite app_nth2 by (rewrite depths_length; lia).
    rewrite depths_length, Hlp, Nat.sub_diag, Ecs. reflexivity. }
  apply LI_squeeze; [exact HD|exact HLI|lia|exact Hb].
Qed.

Lemma collapse_ok fuel : forall tail next, length tail < fuel -> LI D (depths tail) ->
  exists out nx, collapse fuel tail next = Ok (out, nx).
Proof.
  induction fuel as [|fuel IH]; intros tail next Hf HLI; [lia|]. cbn [PageTree.collapse].
  destruct (1 <? length tail) eqn:E; [|eauto]. apply Nat.ltb_lt in E.
  destruct (squeeze_ok tail next HLI ltac:(lia)) as (out & nx & Hs & HLI' & Hl & _). rewrite Hs. cbn [bind].
  apply IH; [lia|exact HLI'].
Qed.

(* ---- programs on the root range alone never panic (they run to the end) *)
Notation step := (step D old choose choose_rot).
Notation steps := (steps D old choose choose_rot).
Notation run := (run D old choose choose_rot).

Definition inv2 (root : writer) (st : gstate) : Prop :=
  exists tail nx n pn log, root = Wr (Some 0) false [] tail (Some 0) pn [] /\
    st = mkG nx (mkF [mkCell (Z.of_nat n) 0%Z []] log) 1 /\ Inv D (depths tail).

Lemma step_root_ok o root st : root_only o -> inv2 root st ->
  exists root' st' ok, step root st o = Ok (root', st', ok) /\ inv2 root' st'.
Proof.
  intros Ho (tail & nx & n & pn & log & -> & -> & HI). destruct o as [w p a|w|w|w k]; [| destruct Ho | |].
  - destruct w as [|w].
    + unfold PageTree.step. cbn [op_fun]. rewrite with_writer_eq. cbn [Nat.eqb guarded w_closed].
      unfold PageTree.do_append. cbn [g_next g_f g_wid].
      destruct (append_tail_ok tail p a nx HI) as (tail' & nx' & Ha & HI'). rewrite Ha. cbn [bind].
      rewrite fire_loop. cbn [bind f_inc nth_error f_heap c_cbs set_nth c_val c_missing f_log].
      eexists _, _, _. split; [reflexivity|].
      exists tail', nx', (S n), [], (log ++ map (fun k => (k, Z.of_nat n)) pn). split; [reflexivity|]. split; [|exact HI'].
      f_equal. f_equal. f_equal. f_equal. lia.
    + unfold PageTree.step. cbn [op_fun]. rewrite with_writer_eq. cbn [Nat.eqb ww_list bind].
      eexists _, _, _. split; [reflexivity|]. exists tail, nx, n, pn, log. auto.
  - destruct w as [|w]; [destruct Ho|].
    unfold PageTree.step. cbn [op_fun]. rewrite with_writer_eq. cbn [Nat.eqb ww_list bind].
    eexists _, _, _. split; [reflexivity|]. exists tail, nx, n, pn, log. auto.
  - destruct w as [|w].
    + unfold PageTree.step. cbn [op_fun]. rewrite with_writer_eq. cbn [Nat.eqb bind w_closed do_next_pn].
      eexists _, _, _. split; [reflexivity|]. exists tail, nx, n, (pn ++ [k]), log. auto.
    + unfold PageTree.step. cbn [op_fun]. rewrite with_writer_eq.
      cbn [Nat.eqb ww_list bind f_fire g_f f_heap f_log with_f g_next g_wid].
      eexists _, _, _. split; [reflexivity|]. exists tail, nx, n, pn, (log ++ [(k, (-1)%Z)]). auto.
Qed.

Lemma steps_root_ok prog : Forall root_only prog -> forall root st acc, inv2 root st ->
  exists root' st' acc', steps root st prog acc = Ok (root', st', acc') /\ inv2 root' st'.
Proof.
  induction 1 as [|o prog Ho _ IH]; intros root st acc Hi; cbn [PageTree.steps].
  - eexists _, _, _. split; [reflexivity|exact Hi].
  - destruct (step_root_ok o root st Ho Hi) as (r1 & s1 & ok & Hs & Hi1). rewrite Hs. cbn [bind]. apply IH. exact Hi1.
Qed.

Theorem run_root_only_ok prog : Forall root_only prog -> exists out, run prog = Ok out.
Proof.
  intros Hr. unfold PageTree.run. cbn [init_state].
  destruct (steps_root_ok prog Hr (Wr (Some 0) false [] [] (Some 0) [] []) (mkG 0 (mkF [mkCell 0%Z 0%Z []] []) 1) [])
    as (root & st & acc & Hs & (tail & nx & n & pn & log & -> & -> & HI)).
  { exists [], 0, 0, [], []. split; [reflexivity|]. split; [reflexivity|]. apply Inv_nil. lia. }
  rewrite Hs. cbn [bind PageTree.close_w w_closed merge g_next g_f g_wid].
  rewrite fire_all_user. cbn [bind w_tail g_next].
  destruct (collapse_ok (S (length tail)) tail nx ltac:(lia) (Inv_LI D _ HI)) as (out & nx2 & Hc). rewrite Hc. cbn [bind].
  destruct out; eauto.
Qed.

End NoPanic.
