(* C16 - every operation on a tail (mergeNodes, the balancing loop, collapse, merge) keeps the
   pages in order and keeps any per-node invariant that one mergeNodes step keeps. *)
From Coq Require Import List Arith Bool ZArith Lia.
From GoPdf.Base Require Import Res.
From GoPdf.C16 Require Import PageTree PTBasics.
Import ListNotations.

Definition tleaves (tail : list ninfo) : list ref := flat_map (fun i => leaves (n_node i)) tail.

Lemma tleaves_app a b : tleaves (a ++ b) = tleaves a ++ tleaves b.
Proof. apply flat_map_app. Qed.

Lemma bind_ok {A B} (r : res A) (f : A -> res B) b : bind r f = Ok b -> exists a, r = Ok a /\ f a = Ok b.
Proof. destruct r; cbn; [eauto|discriminate]. Qed.

Lemma skipn_skipn' {A} (x y : nat) (l : list A) : skipn x (skipn y l) = skipn (y + x) l.
Proof.
  revert l. induction y as [|y IH]; intros l; [reflexivity|]. destruct l; [destruct x; reflexivity|]. cbn. apply IH.
Qed.

Section Tails.
Variable D : nat.
Variable old : bool.
Variable choose : list Z -> Z.
Variable choose_rot : list (option Z) -> option Z.

Notation merge_nodes := (merge_nodes D old choose choose_rot).
Notation merge_tail := (merge_tail D old choose choose_rot).
Notation squeeze := (squeeze D old choose choose_rot).
Notation collapse := (collapse D old choose choose_rot).
Notation merge_loop1 := (merge_loop1 D old choose choose_rot).
Notation merge_inner := (merge_inner D old choose choose_rot).
Notation merge_loop3 := (merge_loop3 D old choose choose_rot).
Notation merge := (merge D old choose choose_rot).
Notation append_tail := (append_tail D old choose choose_rot).

(* the node mergeNodes builds from the children cs *)
Definition merged (cs : list ninfo) (next : nat) : ninfo :=
  let pref := RN next in
  let kids0 := map (fun i => set_parent (Some pref) (n_node i)) cs in
  let '(pa, kids) := inherit old choose choose_rot a_empty kids0 in
  mkN (Pages pref None pa (sum_counts cs) kids) (sum_counts cs) (S (max_depth cs)).

Lemma merge_nodes_ok nodes a b next out nx : merge_nodes nodes a b next = Ok (out, nx) ->
  exists pre cs post, nodes = pre ++ cs ++ post /\ length pre = a /\ length cs = b - a /\
    2 <= length cs <= D /\ out = pre ++ [merged cs next] ++ post /\ nx = S next.
Proof.
  unfold PageTree.merge_nodes. destruct ((length nodes <? b) || (b - a <? 2) || (D <? b - a)) eqn:G; [discriminate|].
  apply orb_false_iff in G as [G G3]. apply orb_false_iff in G as [G1 G2].
  apply Nat.ltb_ge in G1, G2, G3.
  set (cs := firstn (b - a) (skipn a nodes)).
  assert (length cs = b - a) as Hl.
  { unfold cs. rewrite firstn_length, skipn_length. lia. }
  intros H. exists (firstn a nodes), cs, (skipn b nodes).
  assert (nodes = firstn a nodes ++ cs ++ skipn b nodes) as Hn.
  { unfold cs. rewrite <- (firstn_skipn a nodes) at 1. f_equal.
    rewrite <- (firstn_skipn (b - a) (skipn a nodes)) at 1. f_equal.
    rewrite skipn_skipn'. f_equal. lia. }
  splits; auto; try lia.
  - rewrite firstn_length. lia.
  - unfold merged. fold cs in H. destruct (inherit _ _ _ _ _) as [pa kids]. injection H as <- _. reflexivity.
  - fold cs in H. destruct (inherit _ _ _ _ _) as [pa kids]. injection H as _ <-. reflexivity.
Qed.

Lemma merged_leaves cs next : leaves (n_node (merged cs next)) = tleaves cs.
Proof.
  unfold merged.
  pose proof (inherit_variant old choose choose_rot a_empty (map (fun i => set_parent (Some (RN next)) (n_node i)) cs)) as Hv.
  destruct (inherit _ _ _ _ _) as [pa kids]. cbn [snd n_node leaves] in *.
  rewrite (Forall2_variant_leaves _ _ Hv). unfold tleaves. clear Hv. induction cs; cbn; [reflexivity|].
  rewrite set_parent_leaves, IHcs. reflexivity.
Qed.

(* a per-node invariant that one mergeNodes step keeps *)
Variable P : ninfo -> Prop.
Hypothesis P_merged : forall cs next, Forall P cs -> 2 <= length cs <= D -> P (merged cs next).
Hypothesis P_depth : forall i d, P i -> P (set_depth d i).

Lemma merge_nodes_keeps nodes a b next out nx : merge_nodes nodes a b next = Ok (out, nx) ->
  Forall P nodes -> Forall P out /\ tleaves out = tleaves nodes /\ length out + (b - a) = S (length nodes) /\ 2 <= b - a.
Proof.
  intros H HP. destruct (merge_nodes_ok _ _ _ _ _ _ H) as (pre & cs & post & -> & Hl1 & Hl2 & Hc & -> & ->).
  apply Forall_app in HP as [HP1 HP]. apply Forall_app in HP as [HP2 HP3]. splits.
  - apply Forall_app. split; [exact HP1|]. apply Forall_app. split; [|exact HP3]. constructor; [|constructor].
    apply P_merged; assumption.
  - rewrite !tleaves_app. cbn [tleaves flat_map]. rewrite app_nil_r, merged_leaves. reflexivity.
  - rewrite !app_length. cbn [length]. lia.
  - lia.
Qed.

Lemma merge_tail_keeps fuel : forall tail next out nx, merge_tail fuel tail next = Ok (out, nx) ->
  Forall P tail -> Forall P out /\ tleaves out = tleaves tail.
Proof.
  induction fuel as [|fuel IH]; intros tail next out nx H HP; [discriminate|].
  cbn [PageTree.merge_tail] in H. destruct (length tail <? D); [injection H as <- _; auto|].
  destruct (negb _); [injection H as <- _; auto|].
  apply bind_ok in H as ([t n1] & H1 & H2).
  destruct (merge_nodes_keeps _ _ _ _ _ _ H1 HP) as (K1 & K2 & _).
  destruct (IH _ _ _ _ H2 K1) as (R1 & R2). split; [exact R1|congruence].
Qed.

Lemma append_tail_keeps tail id a next out nx : append_tail tail id a next = Ok (out, nx) ->
  Forall P tail -> P (mkN (Page (RP id) None a) 1 0) ->
  Forall P out /\ tleaves out = tleaves tail ++ [RP id].
Proof.
  unfold PageTree.append_tail. intros H HP Hl.
  destruct (merge_tail_keeps _ _ _ _ _ H) as (R1 & R2).
  - apply Forall_app. split; [exact HP|constructor; [exact Hl|constructor]].
  - split; [exact R1|]. rewrite R2, tleaves_app. reflexivity.
Qed.

Lemma squeeze_keeps a next out nx : squeeze a next = Ok (out, nx) -> Forall P a ->
  Forall P out /\ tleaves out = tleaves a /\ length out < length a.
Proof.
  unfold PageTree.squeeze. intros H HP. apply bind_ok in H as (start & H1 & H2).
  destruct (merge_nodes_keeps _ _ _ _ _ _ H2 HP) as (K1 & K2 & K3 & K4). splits; auto. lia.
Qed.

Lemma collapse_keeps fuel : forall tail next out nx, collapse fuel tail next = Ok (out, nx) ->
  Forall P tail -> Forall P out /\ tleaves out = tleaves tail /\ length out <= 1.
Proof.
  induction fuel as [|fuel IH]; intros tail next out nx H HP; [discriminate|].
  cbn [PageTree.collapse] in H. destruct (1 <? length tail) eqn:E.
  - apply bind_ok in H as ([t n1] & H1 & H2).
    destruct (squeeze_keeps _ _ _ _ H1 HP) as (K1 & K2 & _).
    destruct (IH _ _ _ _ H2 K1) as (R1 & R2 & R3). splits; auto. congruence.
  - apply Nat.ltb_ge in E. injection H as <- _. auto.
Qed.

Lemma merge_loop1_keeps fuel : forall a nd next out nx, merge_loop1 fuel a nd next = Ok (out, nx) ->
  Forall P a -> Forall P out /\ tleaves out = tleaves a.
Proof.
  induction fuel as [|fuel IH]; intros a nd next out nx H HP; [discriminate|].
  cbn [PageTree.merge_loop1] in H. destruct (_ && _).
  - apply bind_ok in H as ([t n1] & H1 & H2).
    destruct (squeeze_keeps _ _ _ _ H1 HP) as (K1 & K2 & _).
    destruct (IH _ _ _ _ _ H2 K1) as (R1 & R2). split; auto. congruence.
  - injection H as <- _. auto.
Qed.

Lemma merge_inner_keeps fuel : forall a start stop ch next out s' e' ch' nx,
  merge_inner fuel a start stop ch next = Ok (out, s', e', ch', nx) ->
  Forall P a -> Forall P out /\ tleaves out = tleaves a.
Proof.
  induction fuel as [|fuel IH]; intros a start stop ch next out s' e' ch' nx H HP; [discriminate|].
  cbn [PageTree.merge_inner] in H. destruct (start + D <=? stop).
  - apply bind_ok in H as ([t n1] & H1 & H2).
    destruct (merge_nodes_keeps _ _ _ _ _ _ H1 HP) as (K1 & K2 & _).
    destruct (IH _ _ _ _ _ _ _ _ _ _ H2 K1) as (R1 & R2). split; auto. congruence.
  - injection H as <- _ _ _ _. auto.
Qed.

Lemma merge_loop3_keeps fuel : forall a start stop depth pd next out nx,
  merge_loop3 fuel a start stop depth pd next = Ok (out, nx) ->
  Forall P a -> Forall P out /\ tleaves out = tleaves a.
Proof.
  induction fuel as [|fuel IH]; intros a start stop depth pd next out nx H HP; [discriminate|].
  cbn [PageTree.merge_loop3] in H. apply bind_ok in H as ([[[[a1 s1] e1] c1] n1] & H1 & H2).
  destruct (merge_inner_keeps _ _ _ _ _ _ _ _ _ _ _ H1 HP) as (K1 & K2).
  destruct (_ || _).
  - injection H2 as <- _. auto.
  - destruct (IH _ _ _ _ _ _ _ _ H2 K1) as (R1 & R2). split; auto. congruence.
Qed.

Lemma merge_keeps a b next out nx : merge a b next = Ok (out, nx) ->
  Forall P a -> Forall P b -> Forall P out /\ tleaves out = tleaves a ++ tleaves b.
Proof.
  unfold PageTree.merge. intros H Ha Hb.
  destruct a as [|a0 ar]; [injection H as <- _; auto|].
  destruct b as [|b0 br]; [injection H as <- _; rewrite app_nil_r; auto|].
  apply bind_ok in H as ([a1 n1] & H1 & H2).
  destruct (merge_loop1_keeps _ _ _ _ _ _ H1 Ha) as (K1 & K2).
  set (a2 := match a1 with
             | [x] => if n_depth x <? n_depth b0 then [set_depth (n_depth b0) x] else [x]
             | _ => a1
             end) in *.
  assert (Forall P a2 /\ tleaves a2 = tleaves a1) as [K3 K4].
  { unfold a2. destruct a1 as [|x [|y r]]; auto. destruct (_ <? _); auto.
    inversion K1; subst. split; [constructor; auto|reflexivity]. }
  destruct (merge_loop3_keeps _ _ _ _ _ _ _ _ _ H2) as (R1 & R2).
  - apply Forall_app. split; assumption.
  - split; [exact R1|]. rewrite R2, tleaves_app. congruence.
Qed.

End Tails.
