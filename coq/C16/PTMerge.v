(* C16 - merge() of two tails (code after F47): it never panics and restores the invariant of a
   tail (depths weakly decreasing, fewer than D nodes per depth). *)
From Coq Require Import List Arith Bool ZArith Lia Sorted.
From GoPdf.Base Require Import Res.
From GoPdf.C17 Require Import KTDepths KTWriter.
From GoPdf.C16 Require Import PageTree PTBasics PTTails PTNoPanic.
Import ListNotations.

Lemma app_inv_length' {A} (a b c d : list A) : a ++ b = c ++ d -> length a = length c -> a = c /\ b = d.
Proof.
  revert c. induction a as [|x a IH]; intros [|y c] H Hl; cbn in Hl; try lia; [auto|].
  cbn in H. injection H as -> H. destruct (IH _ H ltac:(lia)) as [-> ->]. auto.
Qed.

(* ---- runs of equal depth at the two ends of a list of nodes *)
Definition allD (d : nat) (l : list ninfo) : Prop := Forall (eq d) (depths l).
Definition gtD (d : nat) (l : list ninfo) : Prop := Forall (fun x => x > d) (depths l).
Definition ltD (d : nat) (l : list ninfo) : Prop := Forall (fun x => x < d) (depths l).

Lemma allD_app d a b : allD d (a ++ b) <-> allD d a /\ allD d b.
Proof. unfold allD. rewrite depths_app. apply Forall_app. Qed.

Lemma allD_skipn d k l : allD d l -> allD d (skipn k l).
Proof. intros H. rewrite <- (firstn_skipn k l) in H. apply allD_app in H. tauto. Qed.

Lemma allD_wdec d l : allD d l -> wdec (depths l).
Proof.
  unfold allD. generalize (depths l). induction l0 as [|x l0 IH]; intros H; [constructor|].
  inversion H; subst. constructor; [apply IH; assumption|]. eapply Forall_impl; [|eassumption]. intros y <-. lia.
Qed.

Lemma lead_run_all d l rest : Forall (eq d) l -> PageTree.lead_run d (l ++ rest) = length l + PageTree.lead_run d rest.
Proof. induction 1 as [|x l Hx _ IH]; [reflexivity|]. subst x. cbn. rewrite Nat.eqb_refl, IH. reflexivity. Qed.

Lemma lead_run_stop d x rest : x <> d -> PageTree.lead_run d (x :: rest) = 0.
Proof. intros H. cbn. destruct (x =? d) eqn:E; [apply Nat.eqb_eq in E; contradiction|reflexivity]. Qed.

(* the trailing run of depth d *)
Lemma tail_run_split (l : list ninfo) d : exists l' t, l = l' ++ t /\ length t = PageTree.lead_run d (rev (depths l)) /\
  allD d t /\ (l' = [] \/ lastd (depths l') <> d).
Proof.
  induction l as [|x l IH] using rev_ind.
  - exists [], []. repeat split; auto. constructor.
  - rewrite depths_app, rev_app_distr. cbn [depths map rev app]. destruct (Nat.eq_dec (n_depth x) d) as [E|E].
    + destruct IH as (l' & t & -> & Hl & Ha & Hb). exists l', (t ++ [x]). repeat split.
      * rewrite app_assoc. reflexivity.
      * cbn [PageTree.lead_run]. rewrite E, Nat.eqb_refl, app_length. cbn. fold (depths (l' ++ t)). lia.
      * apply allD_app. split; [exact Ha|]. constructor; [symmetry; exact E|constructor].
      * exact Hb.
    + exists (l ++ [x]), []. repeat split.
      * rewrite app_nil_r. reflexivity.
      * rewrite lead_run_stop by exact E. reflexivity.
      * constructor.
      * right. rewrite depths_app. cbn [depths map]. rewrite lastd_snoc. exact E.
Qed.

(* the leading run of depth d *)
Lemma head_run_split (l : list ninfo) d : exists t l', l = t ++ l' /\ length t = PageTree.lead_run d (depths l) /\
  allD d t /\ (l' = [] \/ hd 0 (depths l') <> d).
Proof.
  induction l as [|x l (t & l' & -> & Hl & Ha & Hb)].
  - exists [], []. repeat split; auto. constructor.
  - destruct (Nat.eq_dec (n_depth x) d) as [E|E].
    + exists (x :: t), l'. repeat split; auto.
      * cbn [depths map PageTree.lead_run app length]. rewrite E, Nat.eqb_refl. fold (depths (t ++ l')). lia.
      * constructor; [symmetry; exact E|exact Ha].
    + exists [], (x :: t ++ l'). repeat split; auto.
      * cbn [depths map]. rewrite lead_run_stop by exact E. reflexivity.
      * constructor.
Qed.


(* ---- counting in lists of depths *)
Lemma cnt_gt d l : Forall (fun x => x > d) l -> cnt d l = 0.
Proof. intros H. apply cnt_notin. intros Hin. rewrite Forall_forall in H. specialize (H d Hin). lia. Qed.
Lemma cnt_lt d l : Forall (fun x => x < d) l -> cnt d l = 0.
Proof. intros H. apply cnt_notin. intros Hin. rewrite Forall_forall in H. specialize (H d Hin). lia. Qed.

Lemma wdec_ge_last l x : wdec l -> In x l -> x >= lastd l.
Proof.
  intros Hw Hx. induction l as [|a l IH]; [destruct Hx|]. destruct l as [|b l].
  - destruct Hx as [<-|[]]. cbn. lia.
  - assert (lastd (a :: b :: l) = lastd (b :: l)) as -> by reflexivity.
    destruct Hx as [<-|Hx]; [|apply IH; [inversion Hw; assumption|exact Hx]].
    apply (hd_ge_all _ _ Hw). right. apply lastd_in. discriminate.
Qed.

Lemma wdec4 a b c d : wdec a -> wdec b -> wdec c -> wdec d ->
  (forall x y, In x a -> In y (b ++ c ++ d) -> x >= y) -> (forall x y, In x b -> In y (c ++ d) -> x >= y) ->
  (forall x y, In x c -> In y d -> x >= y) -> wdec (a ++ b ++ c ++ d).
Proof.
  intros Ha Hb Hc Hd H1 H2 H3. apply wdec_app. split; [exact Ha|]. split; [|exact H1].
  apply wdec_app. split; [exact Hb|]. split; [|exact H2]. apply wdec_app. auto.
Qed.

Lemma Forall_eq_wdec d l : Forall (eq d) l -> wdec l.
Proof.
  induction 1 as [|x l Hx Hl IH]; [constructor|]. constructor; [exact IH|]. eapply Forall_impl; [|exact Hl]. intros y <-. lia.
Qed.

Lemma cnt_gt' d e l : Forall (fun x => x > d) l -> e <= d -> cnt e l = 0.
Proof. intros H He. apply cnt_notin. intros Hin. rewrite Forall_forall in H. specialize (H e Hin). lia. Qed.
Lemma cnt_lt' d e l : Forall (fun x => x < d) l -> d <= e -> cnt e l = 0.
Proof. intros H He. apply cnt_notin. intros Hin. rewrite Forall_forall in H. specialize (H e Hin). lia. Qed.

Lemma rev_firstn_hd (ds : list nat) s : 0 < s <= length ds -> exists r, rev (firstn s ds) = nth (s - 1) ds 0 :: r.
Proof.
  intros Hs. destruct s as [|s]; [lia|]. replace (S s - 1) with s by lia.
  assert (firstn (S s) ds = firstn s ds ++ [nth s ds 0]) as ->.
  { revert s Hs. induction ds as [|x ds IH]; intros s Hs; [cbn in Hs; lia|]. destruct s as [|s]; [reflexivity|].
    cbn [firstn nth app]. f_equal. apply IH. cbn in Hs. lia. }
  rewrite rev_app_distr. cbn. eauto.
Qed.

Lemma rev_lastd l : l <> [] -> exists r, rev l = lastd l :: r.
Proof. intros H. destruct l as [|x l _] using rev_ind; [congruence|]. rewrite rev_app_distr, lastd_snoc. cbn. eauto. Qed.

Section Merge.
Variable D : nat.
Variable old : bool.
Variable choose : list Z -> Z.
Variable choose_rot : list (option Z) -> option Z.
Hypothesis HD : 2 <= D.

Notation merge_nodes := (merge_nodes D old choose choose_rot).
Notation merge_inner := (merge_inner D old choose choose_rot).
Notation merge_loop3 := (merge_loop3 D old choose choose_rot).
Notation merge_loop1 := (merge_loop1 D old choose choose_rot).
Notation merge := (merge D old choose choose_rot).

(* the inner loop on a window whose nodes all have depth d: every full group of D becomes a node of depth d+1 *)
Lemma inner_uniform fuel : forall L W R changed next d, allD d W -> length L + length W < fuel ->
  exists M W' nx, merge_inner fuel (L ++ W ++ R) (length L) (length L + length W) changed next =
      Ok (L ++ M ++ W' ++ R, length L + length M, length L + length M + length W', changed || (0 <? length M), nx) /\
    allD (S d) M /\ allD d W' /\ length W' < D /\ length W = length M * D + length W'.
Proof.
  induction fuel as [|fuel IH]; intros L W R changed next d Ha Hf; [lia|]. cbn [PageTree.merge_inner].
  destruct (length L + D <=? length L + length W) eqn:E.
  - apply Nat.leb_le in E.
    destruct (split_at D W ltac:(lia)) as (Esp & Hl1 & Hl2).
    remember (firstn D W) as W1 eqn:X1. remember (skipn D W) as W2 eqn:X2. clear X1 X2.
    rewrite Esp in Ha. apply allD_app in Ha as [Ha1 Ha2].
    destruct W1 as [|c0 r] eqn:E1; [cbn in Hl1; lia|]. rewrite <- E1 in *.
    destruct (merge_nodes_succeeds D old choose choose_rot HD L W1 (W2 ++ R) next c0 r E1 ltac:(lia) (allD_wdec d W1 Ha1))
      as (out & Hm & Hd & Hlen).
    (* the shape of the result of mergeNodes *)
    destruct (merge_nodes_ok D old choose choose_rot _ _ _ _ _ _ Hm) as (pre & cs & post & Eapp & Hp1 & Hp2 & Hp3 & Eout & _).
    assert (L = pre /\ W1 ++ W2 ++ R = cs ++ post) as [<- E2] by (apply (app_inv_length' _ _ _ _ Eapp); lia).
    apply app_inv_length' in E2 as [<- <-]; [|lia].
    set (m := merged old choose choose_rot W1 next) in *.
    assert (n_depth m = S d) as Hmd.
    { pose proof (f_equal depths Eout) as Ed2. rewrite Hd in Ed2. rewrite !depths_app in Ed2. cbn [depths map] in Ed2.
      apply app_inv_head in Ed2. cbn [app] in Ed2. injection Ed2 as Ed2. rewrite <- Ed2. f_equal.
      unfold allD in Ha1. rewrite E1 in Ha1. cbn in Ha1. inversion Ha1 as [|? ? Hx _]. symmetry. exact Hx. }
    destruct (IH (L ++ [m]) W2 R true (S next) d Ha2) as (M & W' & nx & Hi & A1 & A2 & A3 & A4).
    { rewrite app_length. cbn. lia. }
    exists (m :: M), W', nx. split.
    + rewrite Esp, <- !app_assoc. replace (length L + D) with (length L + length W1) by lia. rewrite Hm. cbn [bind].
      rewrite Eout. cbn [app]. rewrite app_length in Hi. cbn [length] in Hi.
      replace (S (length L)) with (length L + 1) by lia.
      replace (length L + length (W1 ++ W2) - (D - 1)) with (length L + 1 + length W2) by (rewrite app_length; lia).
      rewrite <- app_assoc in Hi. cbn [app] in Hi. rewrite Hi. cbn [length].
      rewrite <- !app_assoc. cbn [app orb].
      replace (changed || (0 <? S (length M))) with true by (cbn; rewrite orb_true_r; reflexivity).
      replace (length L + S (length M)) with (length L + 1 + length M) by lia. reflexivity.
    + split; [constructor; [symmetry; exact Hmd|exact A1]|]. split; [exact A2|]. split; [exact A3|].
      rewrite Esp, app_length. cbn [length]. lia.
  - apply Nat.leb_gt in E. exists [], W, next. split.
    + cbn [app length]. rewrite !Nat.add_0_r. cbn. rewrite orb_false_r. reflexivity.
    + split; [constructor|]. split; [exact Ha|]. split; [lia|cbn; lia].
Qed.

(* the state of the depth loop when the window is uniform: L deeper than d, W all of depth d,
   R shallower, and no other depth occurs D times *)
Definition uni (L W R : list ninfo) (d : nat) : Prop :=
  wdec (depths (L ++ W ++ R)) /\ allD d W /\ gtD d L /\ ltD d R /\
  forall e, e <> d -> cnt e (depths (L ++ W ++ R)) < D.

Lemma uni_after L W R d M W' : uni L W R d -> allD (S d) M -> allD d W' -> length W' < D ->
  wdec (depths (L ++ M ++ W' ++ R)) /\
  (forall e, e <> S d -> cnt e (depths (L ++ M ++ W' ++ R)) < D) /\
  cnt (S d) (depths (L ++ M ++ W' ++ R)) = cnt (S d) (depths (L ++ W ++ R)) + length M.
Proof.
  intros (Hw & Ha & Hg & Hl & Hc) HM HW' Hlen. unfold allD, gtD, ltD in *.
  rewrite !depths_app in *.
  apply wdec_app in Hw as (HwL & Hw & _). apply wdec_app in Hw as (_ & HwR & _).
  split; [|split].
  - apply wdec4; [exact HwL|apply (Forall_eq_wdec (S d)); exact HM|apply (Forall_eq_wdec d); exact HW'|exact HwR| | |].
    + intros x y Hx Hy. rewrite Forall_forall in Hg. specialize (Hg x Hx).
      apply in_app_or in Hy as [Hy|Hy]; [rewrite Forall_forall in HM; rewrite <- (HM y Hy); lia|].
      apply in_app_or in Hy as [Hy|Hy]; [rewrite Forall_forall in HW'; rewrite <- (HW' y Hy); lia|].
      rewrite Forall_forall in Hl. specialize (Hl y Hy). lia.
    + intros x y Hx Hy. rewrite Forall_forall in HM. rewrite <- (HM x Hx).
      apply in_app_or in Hy as [Hy|Hy]; [rewrite Forall_forall in HW'; rewrite <- (HW' y Hy); lia|].
      rewrite Forall_forall in Hl. specialize (Hl y Hy). lia.
    + intros x y Hx Hy. rewrite Forall_forall in HW'. rewrite <- (HW' x Hx).
      rewrite Forall_forall in Hl. specialize (Hl y Hy). lia.
  - intros e He. rewrite !cnt_app. rewrite (cnt_all_other (S d) e _ HM He).
    destruct (Nat.eq_dec e d) as [->|Hed].
    + rewrite (cnt_gt d _ Hg), (cnt_lt d _ Hl), (cnt_all d _ HW'), depths_length. lia.
    + rewrite (cnt_all_other d e _ HW' Hed). specialize (Hc e Hed). rewrite !cnt_app, (cnt_all_other d e _ Ha Hed) in Hc. lia.
  - rewrite !cnt_app, (cnt_all (S d) _ HM), depths_length.
    rewrite (cnt_all_other d (S d) _ HW'), (cnt_all_other d (S d) _ Ha) by lia. lia.
Qed.

Lemma loop3_uniform fuel : forall L W R d pd next, pd <= d -> uni L W R d -> length (L ++ W ++ R) < fuel ->
  exists out nx, merge_loop3 fuel (L ++ W ++ R) (length L) (length L + length W) d pd next = Ok (out, nx) /\
    Inv D (depths out).
Proof.
  induction fuel as [|fuel IH]; intros L W R d pd next Hpd Hu Hf; [lia|].
  cbn [PageTree.merge_loop3].
  destruct Hu as (Hw & Ha & Hg & Hl & Hc).
  destruct (inner_uniform (S (length L + length W)) L W R false next d Ha ltac:(lia)) as (M & W' & nx & Hi & A1 & A2 & A3 & A4).
  rewrite Hi. cbn [bind orb].
  destruct (uni_after L W R d M W' (conj Hw (conj Ha (conj Hg (conj Hl Hc)))) A1 A2 A3) as (U1 & U2 & U3).
  assert (pd <=? d = true) as -> by (apply Nat.leb_le; exact Hpd). cbn [andb].
  destruct M as [|m0 M0] eqn:EM.
  - (* nothing merged: done *)
    cbn [length Nat.ltb Nat.leb negb orb]. exists (L ++ [] ++ W' ++ R), nx. split; [reflexivity|].
    split; [exact U1|]. intros e. destruct (Nat.eq_dec e (S d)) as [->|He]; [|apply U2; exact He].
    rewrite U3. cbn [length]. rewrite Nat.add_0_r. apply Hc. lia.
  - rewrite <- EM in *. assert (0 < length M) as HM by (rewrite EM; cbn; lia).
    assert (0 <? length M = true) as -> by (apply Nat.ltb_lt; exact HM). cbn [negb orb].
    assert (length L + length M =? 0 = false) as -> by (apply Nat.eqb_neq; lia).
    assert (d <? pd = false) as -> by (apply Nat.ltb_ge; exact Hpd). cbn [andb].
    (* the next window: the nodes of depth d+1 at the end of L, and M *)
    destruct (tail_run_split L (S d)) as (L' & T & EL & HT & HaT & HL').
    assert (firstn (length L + length M) (depths (L ++ M ++ W' ++ R)) = depths L ++ depths M) as ->.
    { rewrite !depths_app, app_assoc. rewrite firstn_app, firstn_all2 by (rewrite app_length, !depths_length; lia).
      rewrite app_length, !depths_length, Nat.sub_diag. cbn [firstn]. apply app_nil_r. }
    rewrite rev_app_distr, lead_run_all by (apply Forall_rev; exact A1).
    rewrite rev_length, depths_length, <- HT.
    replace (length L + length M - (length M + length T)) with (length L') by (rewrite EL, app_length; lia).
    replace (L ++ M ++ W' ++ R) with (L' ++ (T ++ M) ++ (W' ++ R)) by (rewrite EL, <- !app_assoc; reflexivity).
    replace (length L + length M) with (length L' + length (T ++ M)) by (rewrite EL, !app_length; lia).
    apply IH; [lia| |].
    + assert (L' ++ (T ++ M) ++ W' ++ R = L ++ M ++ W' ++ R) as Eq by (rewrite EL, <- !app_assoc; reflexivity).
      unfold uni. rewrite Eq. split; [exact U1|]. split; [apply allD_app; auto|]. split; [|split; [|exact U2]].
      * (* what is left of L is deeper than d+1 *)
        unfold gtD. rewrite Forall_forall. intros x Hx.
        assert (wdec (depths L')) as HwL'.
        { rewrite depths_app in Hw. apply wdec_app in Hw as (HwL & _). rewrite EL, depths_app in HwL. apply wdec_app in HwL. tauto. }
        destruct HL' as [->|Hne]; [destruct Hx|].
        pose proof (wdec_ge_last _ x HwL' Hx) as Hge.
        assert (lastd (depths L') > d) as Hgt.
        { unfold gtD in Hg. rewrite EL, depths_app, Forall_app in Hg. destruct Hg as [Hg _]. rewrite Forall_forall in Hg. apply Hg.
          apply lastd_in. destruct L'; [destruct Hx|discriminate]. }
        lia.
      * unfold ltD, allD in *. rewrite depths_app. apply Forall_app. split.
        -- eapply Forall_impl; [|exact A2]. intros y <-. lia.
        -- eapply Forall_impl; [|exact Hl]. intros y Hy. cbv beta in Hy. lia.
    + (* the list got shorter *)
      rewrite EL in *. rewrite !app_length in *. nia.
Qed.

(* ---- the first loop of merge *)
Lemma merge_loop1_ok fuel : forall a nd next, length a < fuel -> a <> [] -> LI D (depths a) ->
  exists out nx, merge_loop1 fuel a nd next = Ok (out, nx) /\ LI D (depths out) /\ out <> [] /\
    (length out <= 1 \/ nd <= lastd (depths out)).
Proof.
  induction fuel as [|fuel IH]; intros a nd next Hf Hne HLI; [lia|]. cbn [PageTree.merge_loop1].
  destruct ((1 <? length a) && (last_depth a <? nd)) eqn:E.
  - apply andb_prop in E as [E1 E2]. apply Nat.ltb_lt in E1.
    destruct (squeeze_ok D old choose choose_rot HD a next HLI ltac:(lia)) as (out & nx & Hs & HLI' & Hl & Hne').
    rewrite Hs. cbn [bind]. apply IH; [lia|exact Hne'|exact HLI'].
  - exists a, next. split; [reflexivity|]. split; [exact HLI|]. split; [exact Hne|].
    apply andb_false_iff in E as [E|E]; [left; apply Nat.ltb_ge in E; exact E|right].
    apply Nat.ltb_ge in E. unfold last_depth, depth_at in E. rewrite lastd_nth, depths_length. exact E.
Qed.

(* ---- iterations of the depth loop in which nothing can happen: the window is empty and
   everything to the left of it is deeper than prev_depth *)
Lemma loop3_idle fuel : forall a s depth pd next, depth <= pd -> pd - depth < fuel ->
  (s = 0 \/ (0 < s <= length a /\ nth (s - 1) (depths a) 0 > pd)) ->
  merge_loop3 fuel a s s depth pd next = Ok (a, next).
Proof.
  induction fuel as [|fuel IH]; intros a s depth pd next Hd Hf Hs; [lia|]. cbn [PageTree.merge_loop3 PageTree.merge_inner].
  assert (s + D <=? s = false) as -> by (apply Nat.leb_gt; lia). cbn [bind negb andb].
  rewrite andb_true_r.
  destruct (pd <=? depth) eqn:E1; [reflexivity|]. apply Nat.leb_gt in E1.
  destruct Hs as [->|(Hs1 & Hs2)]; [reflexivity|].
  assert (s =? 0 = false) as -> by (apply Nat.eqb_neq; lia). cbn [orb].
  destruct (rev_firstn_hd (depths a) s ltac:(rewrite depths_length; lia)) as (r & ->).
  rewrite lead_run_stop by lia. rewrite Nat.sub_0_r. apply IH; [lia|lia|right; auto].
Qed.

(* ---- the depth loop on the concatenation of two tails: A0 deeper than p, Pp the run of depth p
   that ends the first tail, Qq the run of depth q <= p that starts the second, B1 shallower *)
Section Core.
Variables (A0 Pp Qq B1 : list ninfo) (p q : nat).
Hypothesis Hqp : q <= p.
Hypothesis Hw : wdec (depths (A0 ++ Pp ++ Qq ++ B1)).
Hypothesis HA0 : gtD p A0.
Hypothesis HPp : allD p Pp.
Hypothesis HQq : allD q Qq.
Hypothesis HB1 : ltD q B1.
Hypothesis HcA : forall e, cnt e (depths A0) < D.
Hypothesis HcB : forall e, cnt e (depths B1) < D.
Hypothesis HlP : 1 <= length Pp <= D.
Hypothesis HlQ : 1 <= length Qq < D.

Lemma cnt_ab e : cnt e (depths (A0 ++ Pp ++ Qq ++ B1)) =
  cnt e (depths A0) + (if Nat.eq_dec e p then length Pp else 0) + (if Nat.eq_dec e q then length Qq else 0) + cnt e (depths B1).
Proof.
  rewrite !depths_app, !cnt_app. unfold allD in *.
  destruct (Nat.eq_dec e p) as [E1|H1]; destruct (Nat.eq_dec e q) as [E2|H2].
  - subst e. subst q. rewrite (cnt_all _ _ HPp), (cnt_all _ _ HQq), !depths_length. lia.
  - subst e. rewrite (cnt_all _ _ HPp), (cnt_all_other q p _ HQq H2), !depths_length. lia.
  - subst e. rewrite (cnt_all _ _ HQq), (cnt_all_other p q _ HPp H1), !depths_length. lia.
  - rewrite (cnt_all_other p e _ HPp H1), (cnt_all_other q e _ HQq H2). lia.
Qed.

Lemma core_small next fuel : length Pp + length Qq < D -> q < p -> p - q < fuel ->
  exists out nx, merge_loop3 fuel (A0 ++ Pp ++ Qq ++ B1) (length A0) (length A0 + (length Pp + length Qq)) q p next = Ok (out, nx) /\
    Inv D (depths out).
Proof.
  intros Hsm Hlt Hf. exists (A0 ++ Pp ++ Qq ++ B1), next. split.
  - destruct fuel as [|fuel]; [lia|]. cbn [PageTree.merge_loop3 PageTree.merge_inner].
    assert (length A0 + D <=? length A0 + (length Pp + length Qq) = false) as -> by (apply Nat.leb_gt; lia).
    cbn [bind negb andb]. assert (p <=? q = false) as -> by (apply Nat.leb_gt; lia). cbn [andb orb].
    destruct (length A0 =? 0) eqn:E0; [reflexivity|]. apply Nat.eqb_neq in E0.
    assert (firstn (length A0) (depths (A0 ++ Pp ++ Qq ++ B1)) = depths A0) as ->.
    { rewrite depths_app, firstn_app, firstn_all2 by (rewrite depths_length; lia). rewrite depths_length, Nat.sub_diag. cbn. apply app_nil_r. }
    assert (lastd (depths A0) > p) as Hlast.
    { unfold gtD in HA0. rewrite Forall_forall in HA0. apply HA0. apply lastd_in. destruct A0; [cbn in E0; lia|discriminate]. }
    destruct (rev_lastd (depths A0)) as (r & Er); [destruct A0; [cbn in E0; lia|discriminate]|].
    rewrite Er, lead_run_stop by lia. rewrite Nat.sub_0_r.
    apply loop3_idle; [lia|lia|]. right. split; [rewrite !app_length; lia|].
    rewrite depths_app, app_nth1 by (rewrite depths_length; lia). rewrite <- (depths_length A0), <- lastd_nth. exact Hlast.
  - split; [exact Hw|]. intros e. rewrite cnt_ab. pose proof (HcA e) as X1. pose proof (HcB e) as X2.
    unfold gtD, ltD in *.
    destruct (Nat.eq_dec e p) as [E1|H1]; destruct (Nat.eq_dec e q) as [E2|H2].
    + lia.
    + subst e. rewrite (cnt_gt p _ HA0), (cnt_lt' q p _ HB1) by lia. lia.
    + subst e. rewrite (cnt_gt' p q _ HA0), (cnt_lt q _ HB1) by lia. lia.
    + destruct (Nat.lt_ge_cases e q); [rewrite (cnt_gt' p e _ HA0) by lia; lia|rewrite (cnt_lt' q e _ HB1) by lia; lia].
Qed.

Lemma core_eq next fuel : q = p -> length (A0 ++ Pp ++ Qq ++ B1) < fuel ->
  exists out nx, merge_loop3 fuel (A0 ++ Pp ++ Qq ++ B1) (length A0) (length A0 + (length Pp + length Qq)) q p next = Ok (out, nx) /\
    Inv D (depths out).
Proof.
  intros E Hf.
  replace (A0 ++ Pp ++ Qq ++ B1) with (A0 ++ (Pp ++ Qq) ++ B1) by (rewrite <- !app_assoc; reflexivity).
  rewrite <- app_length. apply loop3_uniform; [lia| |rewrite <- !app_assoc; exact Hf].
  unfold uni. replace (A0 ++ (Pp ++ Qq) ++ B1) with (A0 ++ Pp ++ Qq ++ B1) by (rewrite <- !app_assoc; reflexivity).
  split; [exact Hw|]. split; [apply allD_app; split; [rewrite E; exact HPp|exact HQq]|]. split; [rewrite E; exact HA0|]. split; [exact HB1|].
  intros e He. rewrite cnt_ab. pose proof (HcA e) as X1. pose proof (HcB e) as X2. unfold gtD, ltD in *.
  destruct (Nat.eq_dec e p) as [E1|H1]; [lia|]. destruct (Nat.eq_dec e q) as [E2|H2]; [lia|].
  destruct (Nat.lt_ge_cases e p); [rewrite (cnt_gt' p e _ HA0) by lia; lia|rewrite (cnt_lt' q e _ HB1) by lia; lia].
Qed.

Lemma core_big next fuel : D <= length Pp + length Qq -> q < p -> length (A0 ++ Pp ++ Qq ++ B1) + 1 < fuel ->
  exists out nx, merge_loop3 fuel (A0 ++ Pp ++ Qq ++ B1) (length A0) (length A0 + (length Pp + length Qq)) q p next = Ok (out, nx) /\
    Inv D (depths out).
Proof.
  intros Hbig Hlt Hf. destruct fuel as [|fuel]; [lia|]. cbn [PageTree.merge_loop3 PageTree.merge_inner].
  assert (length A0 + D <=? length A0 + (length Pp + length Qq) = true) as -> by (apply Nat.leb_le; lia).
  (* the first D nodes of the window: all of Pp and some of Qq *)
  destruct Pp as [|x Pp'] eqn:EP; [cbn in HlP; lia|]. rewrite <- EP in *.
  set (W := Pp ++ Qq). assert (length W = length Pp + length Qq) as HlW by (unfold W; apply app_length).
  destruct (split_at D W ltac:(lia)) as (Esp & Hl1 & Hl2).
  remember (firstn D W) as W1 eqn:X1. remember (skipn D W) as W2 eqn:X2.
  assert (allD q W2) as HW2.
  { rewrite X2. unfold W. rewrite skipn_app, skipn_all2 by lia. cbn [app]. apply (allD_skipn q). exact HQq. }
  assert (exists r, W1 = x :: r) as (r & E1).
  { rewrite X1. unfold W. rewrite EP. destruct D as [|D']; [lia|]. cbn. eauto. }
  assert (wdec (depths (Pp ++ Qq))) as HwW.
  { rewrite !depths_app in Hw. apply wdec_app in Hw as (_ & Hw2 & _). rewrite app_assoc in Hw2. apply wdec_app in Hw2 as (Hw3 & _).
    rewrite depths_app. exact Hw3. }
  assert (wdec (depths W1)) as HwW1.
  { rewrite X1. unfold depths. rewrite <- firstn_map. apply wdec_firstn. exact HwW. }
  assert (n_depth x = p) as Hx.
  { unfold allD in HPp. rewrite EP in HPp. cbn in HPp. inversion HPp as [|? ? Hy _]. symmetry. exact Hy. }
  assert (A0 ++ Pp ++ Qq ++ B1 = A0 ++ W1 ++ W2 ++ B1) as Elist.
  { f_equal. rewrite app_assoc. fold W. rewrite Esp, <- app_assoc. reflexivity. }
  rewrite Elist in *.
  destruct (merge_nodes_succeeds D old choose choose_rot HD A0 W1 (W2 ++ B1) next x r E1 ltac:(lia) HwW1) as (out & Hm & Hd & Hlen).
  replace (length A0 + D) with (length A0 + length W1) by lia. rewrite Hm. cbn [bind].
  destruct (merge_nodes_ok D old choose choose_rot _ _ _ _ _ _ Hm) as (pre & cs & post & Eapp & Hp1 & Hp2 & Hp3 & Eout & _).
  assert (A0 = pre /\ W1 ++ W2 ++ B1 = cs ++ post) as [<- E2] by (apply (app_inv_length' _ _ _ _ Eapp); lia).
  apply app_inv_length' in E2 as [<- <-]; [|lia].
  set (m := merged old choose choose_rot W1 next) in *.
  assert (n_depth m = S p) as Hmd.
  { pose proof (f_equal depths Eout) as Ed2. rewrite Hd in Ed2. rewrite !depths_app in Ed2. cbn [depths map] in Ed2.
    apply app_inv_head in Ed2. cbn [app] in Ed2. injection Ed2 as Ed2. rewrite <- Ed2, Hx. reflexivity. }
  (* nothing more to merge at depth q *)
  destruct (inner_uniform (length A0 + (length Pp + length Qq)) (A0 ++ [m]) W2 B1 true (S next) q HW2) as (M & W' & nx & Hi & A1 & A2 & A3 & A4).
  { rewrite app_length. cbn [length]. lia. }
  assert (M = []) as ->.
  { destruct M; [reflexivity|]. cbn [length] in A4. exfalso. nia. }
  rewrite Eout. rewrite app_length in Hi. cbn [length] in Hi.
  replace (S (length A0)) with (length A0 + 1) by lia.
  replace (length A0 + (length Pp + length Qq) - (D - 1)) with (length A0 + 1 + length W2) by lia.
  rewrite <- app_assoc in Hi. rewrite Hi. cbn [bind length orb negb andb].
  change ((A0 ++ [m]) ++ [] ++ W' ++ B1) with ((A0 ++ [m]) ++ W' ++ B1).
  assert (p <=? q = false) as -> by (apply Nat.leb_gt; lia). cbn [andb orb].
  assert (length A0 + 1 + 0 =? 0 = false) as -> by (apply Nat.eqb_neq; lia).
  assert (q <? p = true) as -> by (apply Nat.ltb_lt; lia).
  (* the window of depth p+1: the nodes of that depth at the end of A0, and m *)
  destruct (tail_run_split A0 (S p)) as (A0' & T & EA & HT & HaT & HA').
  assert (firstn (length A0 + 1 + 0) (depths ((A0 ++ [m]) ++ W' ++ B1)) = depths A0 ++ [S p]) as ->.
  { rewrite !depths_app. cbn [depths map]. rewrite Hmd. rewrite firstn_app, firstn_all2 by (rewrite app_length, depths_length; cbn; lia).
    rewrite app_length, depths_length. cbn [length]. replace (length A0 + 1 + 0 - (length A0 + 1)) with 0 by lia. cbn [firstn]. apply app_nil_r. }
  rewrite rev_app_distr. cbn [rev app PageTree.lead_run]. rewrite Nat.eqb_refl, <- HT.
  replace (length A0 + 1 + 0 - S (length T)) with (length A0') by (rewrite EA, app_length; lia).
  replace ((A0 ++ [m]) ++ W' ++ B1) with (A0' ++ (T ++ [m]) ++ (W' ++ B1)) by (rewrite EA, <- !app_assoc; reflexivity).
  replace (length A0 + 1 + 0) with (length A0' + length (T ++ [m])) by (rewrite EA, !app_length; cbn; lia).
  apply loop3_uniform; [lia| |].
  - assert (A0' ++ (T ++ [m]) ++ W' ++ B1 = A0 ++ [m] ++ W' ++ B1) as Eq by (rewrite EA, <- !app_assoc; reflexivity).
    assert (wdec (depths A0)) as HwA0 by (rewrite depths_app in Hw; apply wdec_app in Hw; tauto).
    assert (wdec (depths B1)) as HwB1.
    { rewrite !depths_app in Hw. apply wdec_app in Hw as (_ & Hw2 & _). apply wdec_app in Hw2 as (_ & Hw3 & _). apply wdec_app in Hw3. tauto. }
    unfold uni. rewrite Eq. unfold allD, gtD, ltD in *. split; [|split; [|split; [|split]]].
    + rewrite !depths_app. apply wdec4; [exact HwA0|constructor; constructor|apply (Forall_eq_wdec q); exact A2|exact HwB1| | |].
      * intros a b Ha Hb. rewrite Forall_forall in HA0. specialize (HA0 a Ha). cbn [depths map app] in Hb. rewrite Hmd in Hb.
        destruct Hb as [<-|Hb]; [lia|]. apply in_app_or in Hb as [Hb|Hb].
        -- rewrite Forall_forall in A2. rewrite <- (A2 b Hb). lia.
        -- rewrite Forall_forall in HB1. specialize (HB1 b Hb). lia.
      * intros a b [<-|[]] Hb. rewrite Hmd. apply in_app_or in Hb as [Hb|Hb].
        -- rewrite Forall_forall in A2. rewrite <- (A2 b Hb). lia.
        -- rewrite Forall_forall in HB1. specialize (HB1 b Hb). lia.
      * intros a b Ha Hb. rewrite Forall_forall in A2. rewrite <- (A2 a Ha). rewrite Forall_forall in HB1. specialize (HB1 b Hb). lia.
    + rewrite depths_app. apply Forall_app. split; [exact HaT|]. cbn [depths map]. constructor; [symmetry; exact Hmd|constructor].
    + rewrite Forall_forall. intros y Hy.
      assert (wdec (depths A0')) as HwA' by (rewrite EA, depths_app in HwA0; apply wdec_app in HwA0; tauto).
      destruct HA' as [->|Hne]; [destruct Hy|].
      pose proof (wdec_ge_last _ y HwA' Hy) as Hge.
      assert (lastd (depths A0') > p) as Hgt.
      { pose proof HA0 as HA0c. rewrite EA, depths_app, Forall_app in HA0c. destruct HA0c as [HA0d _]. rewrite Forall_forall in HA0d. apply HA0d.
        apply lastd_in. destruct A0'; [destruct Hy|discriminate]. }
      lia.
    + rewrite depths_app. apply Forall_app. split.
      * eapply Forall_impl; [|exact A2]. intros y <-. lia.
      * eapply Forall_impl; [|exact HB1]. intros y Hy. cbv beta in Hy. lia.
    + intros e He. rewrite !depths_app, !cnt_app. cbn [depths map]. rewrite Hmd. unfold cnt at 2. cbn [count_occ].
      destruct (Nat.eq_dec (S p) e) as [E|_]; [congruence|].
      pose proof (HcA e) as Y1. pose proof (HcB e) as Y2.
      destruct (Nat.eq_dec e q) as [Eq2|Hq].
      * subst e. rewrite (cnt_all q _ A2), depths_length, (cnt_gt' p q _ HA0), (cnt_lt q _ HB1) by lia. lia.
      * rewrite (cnt_all_other q e _ A2 Hq).
        destruct (Nat.lt_ge_cases e q); [rewrite (cnt_gt' p e _ HA0) by lia; lia|rewrite (cnt_lt' q e _ HB1) by lia; lia].
  - rewrite EA in *. rewrite !app_length in *. cbn [length] in *. lia.
Qed.

End Core.

(* ---- merge *)
Lemma lastd_ge_all l x : wdec l -> In x l -> x >= lastd l.
Proof. apply wdec_ge_last. Qed.

Theorem merge_ok a b next : Inv D (depths a) -> Inv D (depths b) ->
  exists out nx, merge a b next = Ok (out, nx) /\ Inv D (depths out).
Proof.
  intros Ia Ib. unfold PageTree.merge.
  destruct a as [|a0 ar] eqn:Ea; [eauto|]. destruct b as [|b0 br] eqn:Eb; [eauto|]. rewrite <- Ea, <- Eb in *.
  set (q := n_depth b0).
  destruct (merge_loop1_ok (S (length a)) a q next ltac:(lia) ltac:(rewrite Ea; discriminate) (Inv_LI D _ Ia))
    as (a1 & n1 & H1 & HLI1 & Hne1 & Hlast1).
  rewrite H1. cbn [bind].
  (* a single node is lifted to the depth of the second tail *)
  set (a2 := match a1 with [x] => if n_depth x <? q then [set_depth q x] else [x] | _ => a1 end).
  assert (LI D (depths a2) /\ a2 <> [] /\ q <= lastd (depths a2) /\ length a2 = length a1) as (HLI2 & Hne2 & Hq2 & Hlen2).
  { unfold a2. destruct a1 as [|x [|y r]]; [congruence| |].
    - destruct (n_depth x <? q) eqn:E; cbn [depths map set_depth n_depth].
      + split; [apply LI_single; exact HD|]. split; [discriminate|]. split; [cbn; lia|reflexivity].
      + apply Nat.ltb_ge in E. split; [exact HLI1|]. split; [discriminate|]. split; [cbn; exact E|reflexivity].
    - split; [exact HLI1|]. split; [discriminate|]. split; [|reflexivity]. destruct Hlast1 as [H|H]; [cbn in H; lia|exact H]. }
  clearbody a2. set (p := last_depth a2).
  assert (p = lastd (depths a2)) as Ep by (unfold p, last_depth, depth_at; rewrite lastd_nth, depths_length; reflexivity).
  (* the two runs that meet *)
  destruct (tail_run_split a2 p) as (A0 & Pp & EA & HlP & HaP & HA0).
  destruct (head_run_split b q) as (Qq & B1 & EB & HlQ & HaQ & HB1).
  assert (wdec (depths a2)) as Hwa by apply HLI2. assert (wdec (depths b)) as Hwb by apply Ib.
  assert (1 <= length Pp) as HP1.
  { rewrite HlP. destruct (rev_lastd (depths a2)) as (r & Er); [destruct a2; [congruence|discriminate]|].
    rewrite Er, <- Ep. cbn. rewrite Nat.eqb_refl. lia. }
  assert (length Pp <= D) as HP2.
  { destruct HLI2 as [_ Hc]. destruct (Hc p) as [Hc1 _]. rewrite EA, depths_app, cnt_app, (cnt_all p _ HaP), depths_length in Hc1. lia. }
  assert (1 <= length Qq) as HQ1.
  { rewrite HlQ, Eb. cbn [depths map PageTree.lead_run]. fold q. rewrite Nat.eqb_refl. lia. }
  assert (length Qq < D) as HQ2.
  { destruct Ib as [_ Hc]. specialize (Hc q). rewrite EB, depths_app, cnt_app, (cnt_all q _ HaQ), depths_length in Hc. lia. }
  assert (gtD p A0) as HgA.
  { unfold gtD. rewrite Forall_forall. intros x Hx. destruct HA0 as [->|Hne]; [destruct Hx|].
    assert (wdec (depths A0)) as HwA0 by (rewrite EA, depths_app in Hwa; apply wdec_app in Hwa; tauto).
    pose proof (wdec_ge_last _ x HwA0 Hx) as H1'.
    assert (lastd (depths A0) >= p) as H2'.
    { rewrite Ep. apply wdec_ge_last; [exact Hwa|]. rewrite EA, depths_app. apply in_or_app. left. apply lastd_in.
      destruct A0; [destruct Hx|discriminate]. }
    lia. }
  assert (ltD q B1) as HlB.
  { unfold ltD. rewrite Forall_forall. intros y Hy. destruct HB1 as [->|Hne]; [destruct Hy|].
    assert (wdec (depths B1)) as HwB1 by (rewrite EB, depths_app in Hwb; apply wdec_app in Hwb; tauto).
    destruct (depths B1) as [|h t] eqn:EdB; [destruct Hy|]. cbn [hd] in Hne.
    pose proof (hd_ge_all _ _ HwB1 y Hy) as H1'.
    assert (q >= h) as H2'.
    { rewrite Eb in Hwb. cbn [depths map] in Hwb. apply (hd_ge_all _ _ Hwb). right. fold (depths br).
      assert (In h (depths b)) as Hin by (rewrite EB, depths_app, EdB; apply in_or_app; right; left; reflexivity).
      rewrite Eb in Hin. cbn [depths map] in Hin. destruct Hin as [E|Hin]; [|exact Hin].
      exfalso. apply Hne. fold q in E. congruence. }
    lia. }
  assert (forall e, cnt e (depths A0) < D) as HcA.
  { intros e. destruct (Nat.eq_dec e p) as [->|He]; [rewrite (cnt_gt p _ HgA); lia|].
    destruct HLI2 as [_ Hc]. destruct (Hc e) as [_ Hc2]. rewrite <- Ep in Hc2. specialize (Hc2 He).
    rewrite EA, depths_app, cnt_app in Hc2. lia. }
  assert (forall e, cnt e (depths B1) < D) as HcB.
  { intros e. destruct Ib as [_ Hc]. specialize (Hc e). rewrite EB, depths_app, cnt_app in Hc. lia. }
  assert (wdec (depths (A0 ++ Pp ++ Qq ++ B1))) as Hwab.
  { rewrite app_assoc, <- EA, <- EB, depths_app. apply wdec_app. split; [exact Hwa|]. split; [exact Hwb|].
    intros x y Hx Hy. pose proof (wdec_ge_last _ x Hwa Hx) as H1'. rewrite <- Ep in H1'.
    rewrite Eb in Hwb, Hy. cbn [depths map] in Hwb, Hy. pose proof (hd_ge_all _ _ Hwb y Hy) as H2'. fold q in H2'. lia. }
  (* the indices the Go code computes *)
  assert (length a2 - PageTree.lead_run p (rev (depths a2)) = length A0) as -> by (rewrite <- HlP, EA, app_length; lia).
  assert (S (length a2) + PageTree.lead_run q (skipn (S (length a2)) (depths (a2 ++ b))) = length A0 + (length Pp + length Qq)) as ->.
  { rewrite depths_app, skipn_app, skipn_all2 by (rewrite depths_length; lia). rewrite depths_length. cbn [app].
    replace (S (length a2) - length a2) with 1 by lia. rewrite HlQ, Eb. cbn [depths map skipn PageTree.lead_run]. fold q.
    rewrite Nat.eqb_refl, EA, app_length. lia. }
  replace (a2 ++ b) with (A0 ++ Pp ++ Qq ++ B1) by (rewrite EA, EB, <- !app_assoc; reflexivity).
  assert (q <= p) as Hqp by lia.
  destruct (Nat.eq_dec q p) as [Eqp|Nqp].
  - apply (core_eq A0 Pp Qq B1 p q); auto; try lia.
  - destruct (Nat.lt_ge_cases (length Pp + length Qq) D) as [Hsm|Hbig].
    + apply (core_small A0 Pp Qq B1 p q); auto; try lia.
    + apply (core_big A0 Pp Qq B1 p q); auto; try lia.
Qed.

End Merge.
