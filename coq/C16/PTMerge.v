(* C16 - merge() of two tails (code after F47): it never panics and restores the invariant of a
   tail (depths weakly decreasing, fewer than D nodes per depth). *)
From Coq Require Import List Arith Bool ZArith Lia Sorted.
From GoPdf.Base Require Import Res.
From GoPdf.C17 Require Import KTDepths KTWriter.
From GoPdf.C16 Require Import PageTree PTBasics PTTails PTNoPanic.
Import ListNotations.

Lemma app_inv_length' {A} (a b c d : list A) : a ++ b = c ++ d -> length a = length c -> a = c /\ b = d.
Proof.
  revert c. induction a as [|x a IH]; intros [|y c] H Hl; cbn in Hl; try lia; [auto|].
  cbn in H. injection H as -> H. destruct (IH _ H ltac:(lia)) as [-> ->]. auto.
Qed.

(* ---- runs of equal depth at the two ends of a list of nodes *)
Definition allD (d : nat) (l : list ninfo) : Prop := Forall (eq d) (depths l).
Definition gtD (d : nat) (l : list ninfo) : Prop := Forall (fun x => x > d) (depths l).
Definition ltD (d : nat) (l : list ninfo) : Prop := Forall (fun x => x < d) (depths l).

Lemma allD_app d a b : allD d (a ++ b) <-> allD d a /\ allD d b.
Proof. unfold allD. rewrite depths_app. apply Forall_app. Qed.

Lemma allD_wdec d l : allD d l -> wdec (depths l).
Proof.
  unfold allD. generalize (depths l). induction l0 as [|x l0 IH]; intros H; [constructor|].
  inversion H; subst. constructor; [apply IH; assumption|]. eapply Forall_impl; [|eassumption]. intros y <-. lia.
Qed.

Lemma lead_run_all d l rest : Forall (eq d) l -> PageTree.lead_run d (l ++ rest) = length l + PageTree.lead_run d rest.
Proof. induction 1 as [|x l Hx _ IH]; [reflexivity|]. subst x. cbn. rewrite Nat.eqb_refl, IH. reflexivity. Qed.

Lemma lead_run_stop d x rest : x <> d -> PageTree.lead_run d (x :: rest) = 0.
Proof. intros H. cbn. destruct (x =? d) eqn:E; [apply Nat.eqb_eq in E; contradiction|reflexivity]. Qed.

(* the trailing run of depth d *)
Lemma tail_run_split (l : list ninfo) d : exists l' t, l = l' ++ t /\ length t = PageTree.lead_run d (rev (depths l)) /\
  allD d t /\ (l' = [] \/ lastd (depths l') <> d).
Proof.
  induction l as [|x l IH] using rev_ind.
  - exists [], []. repeat split; auto. constructor.
  - rewrite depths_app, rev_app_distr. cbn [depths map rev app]. destruct (Nat.eq_dec (n_depth x) d) as [E|E].
    + destruct IH as (l' & t & -> & Hl & Ha & Hb). exists l', (t ++ [x]). repeat split.
      * rewrite app_assoc. reflexivity.
      * cbn [PageTree.lead_run]. rewrite E, Nat.eqb_refl, app_length. cbn. fold (depths (l' ++ t)). lia.
      * apply allD_app. split; [exact Ha|]. constructor; [symmetry; exact E|constructor].
      * exact Hb.
    + exists (l ++ [x]), []. repeat split.
      * rewrite app_nil_r. reflexivity.
      * rewrite lead_run_stop by exact E. reflexivity.
      * constructor.
      * right. rewrite depths_app. cbn [depths map]. rewrite lastd_snoc. exact E.
Qed.

(* the leading run of depth d *)
Lemma head_run_split (l : list ninfo) d : exists t l', l = t ++ l' /\ length t = PageTree.lead_run d (depths l) /\
  allD d t /\ (l' = [] \/ hd 0 (depths l') <> d).
Proof.
  induction l as [|x l (t & l' & -> & Hl & Ha & Hb)].
  - exists [], []. repeat split; auto. constructor.
  - destruct (Nat.eq_dec (n_depth x) d) as [E|E].
    + exists (x :: t), l'. repeat split; auto.
      * cbn [depths map PageTree.lead_run app length]. rewrite E, Nat.eqb_refl. fold (depths (t ++ l')). lia.
      * constructor; [symmetry; exact E|exact Ha].
    + exists [], (x :: t ++ l'). repeat split; auto.
      * cbn [depths map]. rewrite lead_run_stop by exact E. reflexivity.
      * constructor.
Qed.

Section Merge.
Variable D : nat.
Variable old : bool.
Variable choose : list Z -> Z.
Variable choose_rot : list (option Z) -> option Z.
Hypothesis HD : 2 <= D.

Notation merge_nodes := (merge_nodes D old choose choose_rot).
Notation merge_inner := (merge_inner D old choose choose_rot).
Notation merge_loop3 := (merge_loop3 D old choose choose_rot).
Notation merge_loop1 := (merge_loop1 D old choose choose_rot).
Notation merge := (merge D old choose choose_rot).

(* the inner loop on a window whose nodes all have depth d: every full group of D becomes a node of depth d+1 *)
Lemma inner_uniform fuel : forall L W R changed next d, allD d W -> length L + length W < fuel ->
  exists M W' nx, merge_inner fuel (L ++ W ++ R) (length L) (length L + length W) changed next =
      Ok (L ++ M ++ W' ++ R, length L + length M, length L + length M + length W', changed || (0 <? length M), nx) /\
    allD (S d) M /\ allD d W' /\ length W' < D /\ length W = length M * D + length W'.
Proof.
  induction fuel as [|fuel IH]; intros L W R changed next d Ha Hf; [lia|]. cbn [PageTree.merge_inner].
  destruct (length L + D <=? length L + length W) eqn:E.
  - apply Nat.leb_le in E.
    destruct (split_at D W ltac:(lia)) as (Esp & Hl1 & Hl2).
    remember (firstn D W) as W1 eqn:X1. remember (skipn D W) as W2 eqn:X2. clear X1 X2.
    rewrite Esp in Ha. apply allD_app in Ha as [Ha1 Ha2].
    destruct W1 as [|c0 r] eqn:E1; [cbn in Hl1; lia|]. rewrite <- E1 in *.
    destruct (merge_nodes_succeeds D old choose choose_rot HD L W1 (W2 ++ R) next c0 r E1 ltac:(lia) (allD_wdec d W1 Ha1))
      as (out & Hm & Hd & Hlen).
    (* the shape of the result of mergeNodes *)
    destruct (merge_nodes_ok D old choose choose_rot _ _ _ _ _ _ Hm) as (pre & cs & post & Eapp & Hp1 & Hp2 & Hp3 & Eout & _).
    assert (pre = L /\ cs = W1 /\ post = W2 ++ R) as (-> & -> & ->).
    { assert (length cs = length W1) by lia.
      assert (pre = L /\ cs ++ post = W1 ++ W2 ++ R) as [-> E2].
      { apply (app_inv_length' _ _ _ _ Eapp). exact Hp1. }
      split; [reflexivity|]. apply app_inv_length' in E2; [destruct E2; auto|lia]. }
    rewrite Esp. rewrite <- !app_assoc in *. rewrite Hl1. rewrite Hm. cbn [bind].
    set (m := merged old choose choose_rot W1 next) in *.
    assert (n_depth m = S d) as Hmd.
    { apply (f_equal depths) in Eout. rewrite Hd in Eout. rewrite !depths_app in Eout. cbn [depths map] in Eout.
      apply app_inv_head in Eout. injection Eout as Eout _. rewrite <- Eout. f_equal.
      rewrite E1 in Ha1. inversion Ha1; subst. symmetry. assumption. }
    destruct (IH (L ++ [m]) W2 R true (S next) d Ha2) as (M & W' & nx & Hi & A1 & A2 & A3 & A4).
    { rewrite app_length. cbn. lia. }
    exists (m :: M), W', nx. split.
    + rewrite Eout. cbn [app]. rewrite app_length in Hi. cbn [length] in Hi.
      replace (S (length L)) with (length L + 1) by lia.
      replace (length L + (D + length W2) - (D - 1)) with (length L + 1 + length W2) by lia.
      rewrite <- app_assoc in Hi. cbn [app] in Hi. rewrite Hi. cbn [length].
      rewrite <- !app_assoc. cbn [app]. f_equal. f_equal; [f_equal; [f_equal; lia|lia]|].
      cbn. destruct changed; reflexivity.
    + split; [constructor; [symmetry; exact Hmd|exact A1]|]. split; [exact A2|]. split; [exact A3|].
      rewrite app_length. cbn [length]. lia.
  - apply Nat.leb_gt in E. exists [], W, next. split.
    + cbn [app length]. rewrite !Nat.add_0_r. cbn. rewrite orb_false_r. reflexivity.
    + split; [constructor|]. split; [exact Ha|]. split; [lia|cbn; lia].
Qed.

End Merge.
