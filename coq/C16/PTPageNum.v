(* C16 - page-number callbacks, for programs that use the root range only (no NewRange):
   the log of callback invocations of the model is exactly the specification's. *)
From Coq Require Import List Arith Bool ZArith Lia.
From GoPdf.Base Require Import Res.
From GoPdf.C16 Require Import PageTree PTBasics PTTails PTWriter PTSim.
Import ListNotations.

Definition root_only (o : op) : Prop := match o with ONewRange _ => False | OClose 0 => False | _ => True end.

(* what the callbacks report when there is only the root range: [n] pages so far, [pn] waiting *)
Fixpoint simple (prog : list op) (n : nat) (pn : list nat) : list (nat * Z) :=
  match prog with
  | [] => map (fun k => (k, (-1)%Z)) pn
  | OAppend 0 _ _ :: r => map (fun k => (k, Z.of_nat n)) pn ++ simple r (S n) []
  | ONextPN 0 k :: r => simple r n (pn ++ [k])
  | ONextPN _ k :: r => (k, (-1)%Z) :: simple r n pn
  | _ :: r => simple r n pn
  end.

(* the same, symbolically: which page a callback is resolved by *)
Fixpoint simple_sym (prog : list op) (pn : list nat) : list (nat * option nat) :=
  match prog with
  | [] => map (fun k => (k, None)) pn
  | OAppend 0 p _ :: r => map (fun k => (k, Some p)) pn ++ simple_sym r []
  | ONextPN 0 k :: r => simple_sym r (pn ++ [k])
  | ONextPN _ k :: r => (k, None) :: simple_sym r pn
  | _ :: r => simple_sym r pn
  end.

Fixpoint appended0 (prog : list op) : list nat :=
  match prog with
  | [] => []
  | OAppend 0 p _ :: r => p :: appended0 r
  | _ :: r => appended0 r
  end.

(* ---- the specification on such programs *)
Lemma with_range_root_pages w f pre : w <> 0 -> with_range w f (ItRange 0 false (map ItPage pre)) = None.
Proof.
  intros Hw. rewrite with_range_eq. destruct (0 =? w) eqn:E; [apply Nat.eqb_eq in E; congruence|].
  rewrite wr_list_pages. reflexivity.
Qed.

Lemma filter_all0 pn : filter (fun '(w', _) => w' =? 0) (map (pair 0) pn) = map (pair 0) pn /\
                       filter (fun '(w', _) => negb (w' =? 0)) (map (pair 0) pn) = ([] : list (nat * nat)).
Proof. induction pn as [|k pn [IH1 IH2]]; cbn; [auto|]. rewrite IH1, IH2. auto. Qed.

Lemma spec_cbs_root prog : Forall root_only prog -> forall pre pn res,
  spec_cbs (ItRange 0 false (map ItPage pre)) 1 prog (map (pair 0) pn) res = res ++ simple_sym prog pn /\
  item_pages (fst (spec_steps (ItRange 0 false (map ItPage pre)) 1 prog [])) = pre ++ appended0 prog.
Proof.
  induction 1 as [|o prog Ho _ IH]; intros pre pn res.
  - cbn. rewrite item_pages_pages, app_nil_r. split; [|reflexivity]. f_equal. rewrite map_map. reflexivity.
  - assert (forall acc a, item_pages (fst (spec_steps a 1 prog acc)) = item_pages (fst (spec_steps a 1 prog []))) as Hacc.
    { clear. generalize 1. induction prog as [|o prog IHp]; intros nid acc a; [reflexivity|]. cbn [spec_steps].
      destruct (spec_step a nid o) as [[a' nid'] ok]. rewrite IHp. symmetry. apply IHp. }
    destruct o as [w p a|w|w|w k]; cbn [spec_cbs spec_steps simple_sym appended0].
    + destruct w as [|w].
      * cbn [spec_step]. rewrite with_range_eq. cbn [Nat.eqb spec_apply].
        destruct (filter_all0 pn) as [-> ->].
        replace (map ItPage pre ++ [ItPage p]) with (map ItPage (pre ++ [p])) by (rewrite map_app; reflexivity).
        destruct (IH (pre ++ [p]) [] (res ++ map (fun '(_, k) => (k, Some p)) (map (pair 0) pn))) as [I1 I2]. cbn [map] in I1.
        rewrite I1. rewrite Hacc, I2. split.
        -- rewrite <- app_assoc. f_equal. f_equal. rewrite map_map. reflexivity.
        -- rewrite <- app_assoc. reflexivity.
      * cbn [spec_step]. rewrite with_range_root_pages by discriminate. cbn [spec_apply].
        destruct (IH pre pn res) as [I1 I2]. rewrite I1, Hacc, I2. auto.
    + destruct Ho.
    + cbn [spec_step]. destruct w as [|w].
      * destruct Ho.
      * rewrite with_range_root_pages by discriminate. cbn [spec_apply].
        destruct (IH pre pn res) as [I1 I2]. rewrite I1, Hacc, I2. auto.
    + cbn [spec_step open_ids]. rewrite flat_map_concat_map.
      assert (concat (map open_ids (map ItPage pre)) = []) as -> by (induction pre; cbn; auto).
      destruct w as [|w]; cbn [mem_nat existsb Nat.eqb orb].
      * replace (map (pair 0) pn ++ [(0, k)]) with (map (pair 0) (pn ++ [k])) by (rewrite map_app; reflexivity).
        destruct (IH pre (pn ++ [k]) res) as [I1 I2]. rewrite I1, Hacc, I2. auto.
      * destruct (IH pre pn (res ++ [(k, None)])) as [I1 I2]. rewrite I1, Hacc, I2. rewrite <- app_assoc. auto.
Qed.

Lemma index_of_app pre p rest : ~ In p pre -> index_of p (pre ++ p :: rest) = Some (length pre).
Proof.
  induction pre as [|x pre IH]; intros H; cbn.
  - rewrite Nat.eqb_refl. reflexivity.
  - destruct (x =? p) eqn:E; [apply Nat.eqb_eq in E; subst; exfalso; apply H; left; reflexivity|].
    rewrite IH by (intros Hin; apply H; right; exact Hin). reflexivity.
Qed.

Definition valP (P : list nat) (e : nat * option nat) : nat * Z :=
  (fst e, match snd e with
          | Some p => match index_of p P with Some i => Z.of_nat i | None => (-1)%Z end
          | None => (-1)%Z
          end).

Lemma simple_sym_val prog : forall pre pn, NoDup (pre ++ appended0 prog) ->
  map (valP (pre ++ appended0 prog)) (simple_sym prog pn) = simple prog (length pre) pn.
Proof.
  induction prog as [|o prog IH]; intros pre pn Hnd.
  - cbn. rewrite map_map. reflexivity.
  - destruct o as [w p a|w|w|w k]; cbn [simple_sym simple appended0] in *.
    + destruct w as [|w]; [|apply IH; exact Hnd].
      rewrite map_app, map_map. f_equal.
      * apply map_ext. intros k. unfold valP. cbn [fst snd]. rewrite index_of_app; [reflexivity|].
        apply NoDup_remove_2 in Hnd. intros Hin. apply Hnd. apply in_or_app. left. exact Hin.
      * replace (pre ++ p :: appended0 prog) with ((pre ++ [p]) ++ appended0 prog) in * by (rewrite <- app_assoc; reflexivity).
        rewrite (IH (pre ++ [p]) [] Hnd). rewrite app_length. cbn. f_equal. lia.
    + apply IH. exact Hnd.
    + apply IH. exact Hnd.
    + destruct w as [|w]; [apply IH; exact Hnd|]. cbn [map]. f_equal. apply IH. exact Hnd.
Qed.

Lemma spec_log_root prog : Forall root_only prog -> NoDup (appended0 prog) -> spec_log prog = simple prog 0 [].
Proof.
  intros Hr Hnd. unfold spec_log, spec_log_of, spec_run.
  destruct (spec_cbs_root prog Hr [] [] []) as [H1 H2]. cbn [map] in H1, H2.
  destruct (spec_steps (ItRange 0 false []) 1 prog []) as [root acc] eqn:E. cbn [fst] in *.
  rewrite H1, H2. cbn [app]. pose proof (simple_sym_val prog [] [] Hnd) as Hv. cbn [length app] in Hv. rewrite <- Hv.
  apply map_ext. intros [k o]. reflexivity.
Qed.

(* ---- the model on such programs *)
Section Model.
Variable D : nat.
Variable old : bool.
Variable choose : list Z -> Z.
Variable choose_rot : list (option Z) -> option Z.

Notation step := (step D old choose choose_rot).
Notation steps := (steps D old choose choose_rot).
Notation run := (run D old choose choose_rot).

Definition inv (root : writer) (st : gstate) (n : nat) (pn : list nat) (log : list (nat * Z)) : Prop :=
  exists tail nx, root = Wr (Some 0) false [] tail (Some 0) pn [] /\
                  st = mkG nx (mkF [mkCell (Z.of_nat n) 0%Z []] log) 1.

Lemma fire_loop n pn : forall log,
  (fix go (l : list nat) (fs : fstate) : res fstate :=
     match l with [] => Ok fs | k :: r => bind (f_when fs 0 (CbUser k)) (go r) end) pn
    (mkF [mkCell (Z.of_nat n) 0%Z []] log)
  = Ok (mkF [mkCell (Z.of_nat n) 0%Z []] (log ++ map (fun k => (k, Z.of_nat n)) pn)).
Proof.
  induction pn as [|k pn IH]; intros log; [cbn; rewrite app_nil_r; reflexivity|].
  cbn [f_when nth_error f_heap c_missing Z.eqb f_fire bind c_val f_log map]. rewrite IH, <- app_assoc. reflexivity.
Qed.

Lemma fire_all_user pn v : forall h log,
  f_fire_all (mkF h log) (map CbUser pn) v = Ok (mkF h (log ++ map (fun k => (k, v)) pn)).
Proof.
  induction pn as [|k pn IH]; intros h log; [cbn; rewrite app_nil_r; reflexivity|].
  cbn [map f_fire_all f_fire bind f_heap f_log]. rewrite IH, <- app_assoc. reflexivity.
Qed.

Lemma step_root o root st n pn log root' st' ok : root_only o -> inv root st n pn log ->
  step root st o = Ok (root', st', ok) ->
  exists n' pn' log', inv root' st' n' pn' log' /\
    forall prog, log' ++ simple prog n' pn' = log ++ simple (o :: prog) n pn.
Proof.
  intros Ho (tail & nx & -> & ->) H. destruct o as [w p a|w|w|w k]; [| destruct Ho | |].
  - (* append *)
    destruct w as [|w].
    + unfold PageTree.step in H. cbn [op_fun] in H. rewrite with_writer_eq in H. cbn [Nat.eqb bind guarded w_closed] in H.
      apply bind_ok in H as (o & H1 & H). apply bind_ok in H1 as ([[w1 s1] ok1] & Hf & H1). injection H1 as <-.
      injection H as <- <- <-. apply bind_ok in Hf as ([w2 s2] & Hd & Hf). injection Hf as <- <- <-.
      unfold PageTree.do_append in Hd. cbn [g_next g_f g_wid] in Hd.
      apply bind_ok in Hd as ([tail' nx'] & _ & Hd). rewrite fire_loop in Hd. cbn [bind] in Hd.
      cbn [f_inc nth_error f_heap c_cbs set_nth c_val c_missing f_log bind] in Hd. injection Hd as <- <-.
      exists (S n), [], (log ++ map (fun k => (k, Z.of_nat n)) pn). split.
      * exists tail', nx'. split; [reflexivity|]. f_equal. f_equal. f_equal. f_equal. lia.
      * intros prog. cbn [simple]. rewrite <- app_assoc. reflexivity.
    + unfold PageTree.step in H. cbn [op_fun] in H. rewrite with_writer_eq in H. cbn [Nat.eqb ww_list bind] in H.
      injection H as <- <- <-. exists n, pn, log. split; [exists tail, nx; auto|]. reflexivity.
  - (* close of something that is not there *)
    destruct w as [|w]; [destruct Ho|].
    unfold PageTree.step in H. cbn [op_fun] in H. rewrite with_writer_eq in H. cbn [Nat.eqb ww_list bind] in H.
    injection H as <- <- <-. exists n, pn, log. split; [exists tail, nx; auto|]. reflexivity.
  - (* next page number *)
    destruct w as [|w].
    + unfold PageTree.step in H. cbn [op_fun] in H. rewrite with_writer_eq in H. cbn [Nat.eqb bind w_closed do_next_pn] in H.
      injection H as <- <- <-. exists n, (pn ++ [k]), log. split; [exists tail, nx; auto|]. reflexivity.
    + unfold PageTree.step in H. cbn [op_fun] in H. rewrite with_writer_eq in H.
      cbn [Nat.eqb ww_list bind f_fire g_f f_heap f_log with_f g_next g_wid] in H.
      injection H as <- <- <-. exists n, pn, (log ++ [(k, (-1)%Z)]). split; [exists tail, nx; auto|].
      intros prog. cbn [simple]. rewrite <- app_assoc. reflexivity.
Qed.

Lemma steps_root prog : Forall root_only prog -> forall root st acc n pn log root' st' acc',
  inv root st n pn log -> steps root st prog acc = Ok (root', st', acc') ->
  exists n' pn' log', inv root' st' n' pn' log' /\ log' ++ simple [] n' pn' = log ++ simple prog n pn.
Proof.
  induction 1 as [|o prog Ho _ IH]; intros root st acc n pn log root' st' acc' Hi H.
  - injection H as <- <- <-. exists n, pn, log. auto.
  - cbn [PageTree.steps] in H. apply bind_ok in H as ([[r1 s1] ok] & Hs & H).
    destruct (step_root o _ _ _ _ _ _ _ _ Ho Hi Hs) as (n1 & pn1 & log1 & Hi1 & E1).
    destruct (IH _ _ _ _ _ _ _ _ _ Hi1 H) as (n2 & pn2 & log2 & Hi2 & E2).
    exists n2, pn2, log2. split; [exact Hi2|]. rewrite E2. apply E1.
Qed.

Lemma appended0_sub prog : forall x, In x (appended0 prog) -> In x (append_ids prog).
Proof.
  induction prog as [|o prog IH]; intros x H; [destruct H|]. destruct o as [[|w] p a|w|w|w k]; cbn in *; auto.
  destruct H as [->|H]; auto.
Qed.

Lemma appended0_nodup prog : NoDup (append_ids prog) -> NoDup (appended0 prog).
Proof.
  induction prog as [|o prog IH]; intros H; [constructor|]. destruct o as [[|w] p a|w|w|w k]; cbn in *; auto.
  - inversion H; subst. constructor; auto. intros Hin. apply H2. apply appended0_sub. exact Hin.
  - inversion H; subst. auto.
Qed.

(* for programs on the root range only, the callbacks report exactly what the specification says *)
Theorem page_numbers_root_only prog out : Forall root_only prog -> NoDup (append_ids prog) ->
  run prog = Ok out -> o_log out = spec_log prog.
Proof.
  intros Hr Hnd H. rewrite (spec_log_root prog Hr (appended0_nodup prog Hnd)).
  unfold PageTree.run in H. cbn [init_state] in H. apply bind_ok in H as ([[root st] acc] & Hs & H).
  destruct (steps_root prog Hr _ _ _ 0 [] [] _ _ _ ltac:(exists [], 0; auto) Hs) as (n & pn & log & (tail & nx & -> & ->) & E).
  cbn [app simple] in E.
  apply bind_ok in H as ([root' st1] & Hc & H). cbn [PageTree.close_w] in Hc.
  apply bind_ok in Hc as ([nodes st0] & Hg & Hc). injection Hg as <- <-.
  apply bind_ok in Hc as ([tail' nx0] & _ & Hc).
  apply bind_ok in Hc as (fs1 & Hn & Hc). injection Hn as <-.
  apply bind_ok in Hc as (fs2 & Hf & Hc). cbn [g_f] in Hf. rewrite fire_all_user in Hf. injection Hf as <-. injection Hc as <- <-.
  apply bind_ok in H as ([tl nx2] & _ & H). cbn [g_f f_log] in H.
  destruct tl; injection H as <-; cbn [o_log]; exact E.
Qed.

End Model.
