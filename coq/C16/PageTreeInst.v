(* C16 - the page tree model with the translator's fan-out and concrete choice functions for
   the extracted driver.  (The theorems hold for every choice function; the real code's choice
   depends on Go's map iteration order.)  Definitions only. *)
From Coq Require Import List ZArith Bool Arith.
From GoPdf.Base Require Import Res.
From GoPdf.Gen Require Import Gen_C16.
From GoPdf.C16 Require Import PageTree.
Import ListNotations.

Definition max_degree : nat := Z.to_nat maxDegree.

Definition count_z (x : Z) (l : list Z) : nat := length (filter (Z.eqb x) l).

(* the most frequent value, the first one among equals *)
Definition choose_most (l : list Z) : Z :=
  fold_right (fun x best => if Nat.leb (count_z best l) (count_z x l) then x else best) 0%Z l.

(* the most frequent non-default value if it occurs at least as often as the default is needed *)
Definition choose_rot_most (vals : list (option Z)) : option Z :=
  let nd := filter (fun v => negb (Z.eqb v 0)) (somes vals) in
  match nd with
  | [] => None
  | _ => let b := choose_most nd in
         if Nat.leb (length (filter is_default_rot vals)) (count_z b nd) then Some b else None
  end.

Definition run_model (old : bool) (prog : list op) : res outcome :=
  run max_degree old choose_most choose_rot_most prog.
Definition ptree_ok_model (old : bool) (expected : list (ref * attrs)) (root : node) : bool :=
  ptree_ok max_degree old expected root.
Definition iterate_model (old : bool) (root : node) : list (ref * attrs) := iterate old root a_empty.
Definition get_page_model (old : bool) (root : node) (i : nat) : option (ref * attrs) := get_page old root i a_empty.
