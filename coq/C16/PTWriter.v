(* C16 - writers: the invariant of a tree of range writers, Close, and the abstraction to ranges. *)
From Coq Require Import List Arith Bool ZArith Lia.
From GoPdf.Base Require Import Res.
From GoPdf.C16 Require Import PageTree PTBasics PTTails PTStruct PTAttrs.
Import ListNotations.

Lemma writer_ind' (P : writer -> Prop) :
  (forall id cl ch tail npn pn nc, Forall P ch -> P (Wr id cl ch tail npn pn nc)) -> forall w, P w.
Proof.
  intros H. fix IH 1. intros [id cl ch tail npn pn nc]. apply H.
  induction ch as [|c cs IHc]; constructor; [apply IH|exact IHc].
Qed.

Definition ref_id (r : ref) : nat := match r with RP i => i | RN i => i end.
Definition ids (l : list ref) : list nat := map ref_id l.

Fixpoint wpages (w : writer) : list ref :=
  match w with Wr _ _ ch tail _ _ _ => flat_map wpages ch ++ tleaves tail end.

(* the range a writer stands for *)
Fixpoint abs (w : writer) : item :=
  match w with
  | Wr wid cl ch tail _ _ _ =>
    ItRange (match wid with Some i => i | None => 0 end) cl
      (flat_map (fun c => match w_id c with
                          | Some _ => [abs c]
                          | None => map ItPage (ids (wpages c))
                          end) ch ++ map ItPage (ids (tleaves tail)))
  end.

Definition abs_child (c : writer) : list item :=
  match w_id c with Some _ => [abs c] | None => map ItPage (ids (wpages c)) end.

Lemma abs_eq wid cl ch tail npn pn nc :
  abs (Wr wid cl ch tail npn pn nc) =
  ItRange (match wid with Some i => i | None => 0 end) cl (flat_map abs_child ch ++ map ItPage (ids (tleaves tail))).
Proof. reflexivity. Qed.

Lemma item_pages_pages l : flat_map item_pages (map ItPage l) = l.
Proof. induction l; cbn; congruence. Qed.

Lemma abs_pages w : item_pages (abs w) = ids (wpages w).
Proof.
  induction w as [wid cl ch tail npn pn nc IH] using writer_ind'. rewrite abs_eq. cbn [item_pages wpages].
  rewrite flat_map_app, item_pages_pages. unfold ids. rewrite map_app. f_equal.
  induction ch as [|c cs IHc]; [reflexivity|]. inversion IH; subst. cbn [flat_map]. rewrite flat_map_app, map_app, IHc by assumption.
  f_equal. unfold abs_child. destruct (w_id c); [cbn; rewrite app_nil_r; assumption|apply item_pages_pages].
Qed.

Section Writer.
Variable D : nat.
Variable old : bool.
Variable choose : list Z -> Z.
Variable choose_rot : list (option Z) -> option Z.
Variable G : ref -> attrs.
Hypothesis HD : 1 <= D.

Notation merge := (merge D old choose choose_rot).
Notation close_w := (close_w D old choose choose_rot).

Definition good (i : ninfo) : Prop := s_ok D i /\ a_inv old G (n_node i).

Lemma good_merged cs next : Forall good cs -> 2 <= length cs <= D -> good (merged old choose choose_rot cs next).
Proof.
  intros H Hl. split.
  - apply s_ok_merged; [|exact Hl]. eapply Forall_impl; [|exact H]. intros i [Hs _]. exact Hs.
  - apply a_inv_merged. eapply Forall_impl; [|exact H]. intros i [_ Ha]. exact Ha.
Qed.

Lemma good_depth i d : good i -> good (set_depth d i).
Proof. intros H. exact H. Qed.

Lemma good_leaf id a : (forall k, a k = G (RP id) k) -> good (mkN (Page (RP id) None a) 1 0).
Proof. intros H. split; [apply s_ok_leaf|apply a_inv_leaf; exact H]. Qed.

Inductive w_good : writer -> Prop :=
| wg id cl ch tail npn pn nc :
    Forall good tail -> Forall w_good ch -> (id = None -> ch = []) -> (cl = true -> ch = []) ->
    w_good (Wr id cl ch tail npn pn nc).

Lemma merge_good a b next out nx : merge a b next = Ok (out, nx) -> Forall good a -> Forall good b ->
  Forall good out /\ tleaves out = tleaves a ++ tleaves b.
Proof. apply (merge_keeps D old choose choose_rot good good_merged good_depth). Qed.

(* Close: everything below the writer ends up in its tail, in order *)
Lemma close_w_spec w : forall st w' st', close_w w st = Ok (w', st') -> w_good w ->
  w_good w' /\ tleaves (w_tail w') = wpages w /\ w_children w' = [] /\ w_closed w' = true /\
  w_id w' = w_id w /\ g_wid st' = g_wid st.
Proof.
  induction w as [wid cl ch tail npn pn nc IH] using writer_ind'. intros st w' st' H Hg.
  inversion Hg as [? ? ? ? ? ? ? Ht Hc Hid Hcl]; subst.
  cbn [PageTree.close_w] in H. apply bind_ok in H as ([nodes st1] & H1 & H).
  (* the loop over the children *)
  assert (Forall good nodes /\ tleaves nodes = flat_map wpages ch /\ g_wid st1 = g_wid st) as (Hn1 & Hn2 & Hn3).
  { clear H Hid Hcl Ht.
    assert (forall nodes0 st0 nodes1 st1',
      (fix go (l : list writer) (nodes : list ninfo) (st : gstate) {struct l} : res (list ninfo * gstate) :=
         match l with
         | [] => Ok (nodes, st)
         | c :: r =>
           bind (if w_closed c then Ok (c, st) else close_w c st) (fun '(c', st1) =>
           bind (merge nodes (w_tail c') (g_next st1)) (fun '(nodes', nx) => go r nodes' (with_next st1 nx)))
         end) ch nodes0 st0 = Ok (nodes1, st1') ->
      Forall good nodes0 ->
      Forall good nodes1 /\ tleaves nodes1 = tleaves nodes0 ++ flat_map wpages ch /\ g_wid st1' = g_wid st0) as Hgo.
    { clear H1 Hg. revert IH Hc. induction ch as [|c cs IHc]; intros IH Hc nodes0 st0 nodes1 st1' H0 Hg0.
      - injection H0 as <- <-. rewrite app_nil_r. auto.
      - inversion IH as [|? ? IHc0 IHcs]; subst. inversion Hc as [|? ? Hgc Hgcs]; subst.
        apply bind_ok in H0 as ([c' st2] & Hc1 & H0). apply bind_ok in H0 as ([nodes' nx] & Hm & H0).
        assert (Forall good (w_tail c') /\ tleaves (w_tail c') = wpages c /\ g_wid st2 = g_wid st0) as (G1 & G2 & G3).
        { destruct (w_closed c) eqn:Ecl.
          - injection Hc1 as <- <-. inversion Hgc as [? ? ? ? ? ? ? Htc _ _ Hclc]; subst. cbn in Ecl. subst.
            rewrite (Hclc eq_refl). cbn. auto.
          - destruct (IHc0 _ _ _ Hc1 Hgc) as (R1 & R2 & _ & _ & _ & R6).
            inversion R1; subst. cbn in *. auto. }
        destruct (merge_good _ _ _ _ _ Hm Hg0 G1) as (M1 & M2).
        destruct (IHc IHcs Hgcs _ _ _ _ H0 M1) as (K1 & K2 & K3).
        splits; auto.
        + rewrite K2, M2, G2. cbn [flat_map]. rewrite app_assoc. reflexivity.
        + rewrite K3. cbn. exact G3. }
    destruct (Hgo [] st nodes st1 H1 ltac:(constructor)) as (A & B & C). auto. }
  apply bind_ok in H as ([tail' nx] & Hm & H). apply bind_ok in H as (fs1 & _ & H). apply bind_ok in H as (fs2 & _ & H).
  injection H as <- <-.
  destruct (merge_good _ _ _ _ _ Hm Hn1 Ht) as (M1 & M2).
  splits.
  - constructor; auto.
  - cbn [w_tail wpages]. rewrite M2, Hn2. reflexivity.
  - reflexivity.
  - reflexivity.
  - reflexivity.
  - cbn [g_wid]. exact Hn3.
Qed.

End Writer.
