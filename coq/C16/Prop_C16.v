(* C16: property theorems only; each closed by [exact] and followed by Print Assumptions.

   All statements quantify over every program of AppendPageDict / NewRange / Close /
   NextPageNumber operations on nested writers (any interleaving, operations on closed ranges
   included), every fan-out D >= 1, both inheritance regimes ([old] = PDF < 1.3) and every
   choice the hoisting code makes among equally good values ([choose], [choose_rot]).
   Hypothesis [NoDup (append_ids prog)]: the pages are distinct objects.
   "run ... = Ok out" holds for every program that does not close the root range itself
   ([run_total]): the model never reports a Go panic ([fanout_full]) and the fuelled loops never
   run out of fuel ([no_fuel_exhaustion]). *)
From Coq Require Import List Arith Bool ZArith Permutation.
From GoPdf.Base Require Import Res.
From GoPdf.C17 Require Import KTDepths.
From GoPdf.C16 Require Import PageTree PageTreeInst PageTreePre PTStruct PTMain PTReaders PTFuel PTFuel2 PTPageNum PTNoPanic PTMerge PTSafe PTPn3.
Import ListNotations.

(* the leaves of the written root, left to right, are the pages in document order; an operation
   is carried out exactly when the range semantics says so *)
Theorem order : forall D old choose choose_rot, 1 <= D ->
  forall prog out, NoDup (append_ids prog) -> run D old choose choose_rot prog = Ok out ->
  o_accepted out = snd (spec_run prog) /\
  match o_root out with
  | None => fst (spec_run prog) = []
  | Some root => leaves root = map RP (fst (spec_run prog))
  end.
Proof. exact (fun D old c cr HD => order_l D old c cr HD). Qed.
Print Assumptions order.

(* /Count = number of leaf pages below, /Parent = the node listing the child, root without /Parent *)
Theorem counts_parents : forall D old choose choose_rot, 1 <= D ->
  forall prog out root, NoDup (append_ids prog) -> run D old choose choose_rot prog = Ok out -> o_root out = Some root ->
  root_ok D root = true.
Proof. exact (fun D old c cr HD => counts_parents_l D old c cr HD). Qed.
Print Assumptions counts_parents.

(* what root_ok says, node by node *)
Theorem structure_meaning : forall D root, root_ok D root = true ->
  node_parent root = None /\ (exists r a c kids, root = Pages r None a c kids) /\
  Forall (node_fine D) (all_nodes root).
Proof. exact root_ok_nodes. Qed.
Print Assumptions structure_meaning.

(* no node of a written tree has more than D kids (mergeNodes refuses, by panicking, to build one) *)
Theorem fanout_partial : forall D old choose choose_rot, 1 <= D ->
  forall prog out root, NoDup (append_ids prog) -> run D old choose choose_rot prog = Ok out -> o_root out = Some root ->
  Forall (fun n => match n with Pages _ _ _ _ kids => 1 <= length kids <= D | Page _ _ _ => True end) (all_nodes root).
Proof. exact (fun D old c cr HD => fanout_partial_l D old c cr HD). Qed.
Print Assumptions fanout_partial.

(* the full statement, for the code as it is after fix F47: the panic branch of mergeNodes
   (2 <= b-a <= maxDegree) and the index expressions of merge/collapse are unreachable, for EVERY
   program (any nesting of ranges, operations on closed or vanished writers, in any order).
   The proof carries the tail invariant Inv (depths weakly decrease, fewer than D nodes per depth)
   through every writer of the tree: AppendPageDict restores it (PTNoPanic), merge() of a closed
   child's tail into its parent restores it (PTMerge.merge_ok - this is where the line added by F47
   is used), the futureInt heap stays well formed (PTSafe).  See [fanout_refuted_before_F47] for the
   code as it was. *)
Theorem fanout_full : forall D old choose choose_rot, 2 <= D ->
  forall prog, run D old choose choose_rot prog <> Err Panic.
Proof. exact run_never_panics. Qed.
Print Assumptions fanout_full.

(* stronger: a program runs to the end, or it is refused because it closes the root range itself
   (the harness never does; Go has no such call - Writer.Close on the root IS the end of run) *)
Theorem run_total : forall D old choose choose_rot, 2 <= D ->
  forall prog, (exists out, run D old choose choose_rot prog = Ok out) \/ run D old choose choose_rot prog = Err Other.
Proof. exact run_safe. Qed.
Print Assumptions run_total.

(* the step used by fanout_full: merging two tails that satisfy the invariant never panics and
   gives a tail that satisfies it *)
Theorem merge_restores_invariant : forall D old choose choose_rot, 2 <= D ->
  forall a b next, Inv D (depths a) -> Inv D (depths b) ->
  exists out nx, merge D old choose choose_rot a b next = Ok (out, nx) /\ Inv D (depths out).
Proof. exact merge_ok. Qed.
Print Assumptions merge_restores_invariant.

(* BEFORE fix F47 (PageTreePre.merge_pre = merge() without the line added by commit 16000eb) the
   statement was false: the tail of 3968 pages appended to the root (15 subtrees of depth 2, 8 of depth 1)
   merged with the 9 pages of a range gives 16 nodes of depth 2 followed by ONE page, on which collapse
   panics in mergeNodes.  Confirmed on the real writer (regress/revert-F47.diff). *)
Theorem fanout_refuted_before_F47 :
  exists t nx, merge_pre max_degree false choose_most choose_rot_most wit_a wit_b 0 = Ok (t, nx) /\
    depths t = repeat 2 16 ++ [0] /\
    collapse max_degree false choose_most choose_rot_most (S (length t)) t nx = Err Panic.
Proof. exact merge_pre_panics_l. Qed.
Print Assumptions fanout_refuted_before_F47.

(* with the fix the same tails merge and collapse, and the program that produces them runs *)
Example witness_fixed :
  (exists t nx r, merge max_degree false choose_most choose_rot_most wit_a wit_b 0 = Ok (t, nx) /\
     collapse max_degree false choose_most choose_rot_most (S (length t)) t nx = Ok r) /\
  match run_model false panic_witness with
  | Ok out => match o_root out with Some root => Nat.eqb (length (leaves root)) (15 * 256 + 8 * 16 + 9) | None => false end
  | Err _ => false
  end = true.
Proof. split; [exact merge_fixed_ok_l|exact panic_witness_runs]. Qed.

(* parts of fanout_full, kept as statements of their own: under the invariant of a tail - depths weakly decrease,
   fewer than D nodes per depth - AppendPageDict's balancing loop never panics and restores the
   invariant, and collapse never panics (its start++ loop always stops at a run boundary that leaves
   at least two nodes to merge) *)
Theorem tail_ops_never_panic : forall D old choose choose_rot, 2 <= D ->
  forall tail id a next, Inv D (depths tail) ->
  (exists out nx, append_tail D old choose choose_rot tail id a next = Ok (out, nx) /\ Inv D (depths out)) /\
  (exists out nx, collapse D old choose choose_rot (S (length tail)) tail next = Ok (out, nx)).
Proof.
  exact (fun D old c cr HD tail id a next HI =>
           conj (append_tail_ok D old c cr HD tail id a next HI)
                (collapse_ok D old c cr HD (S (length tail)) tail next (le_n _) (Inv_LI D _ HI))).
Qed.
Print Assumptions tail_ops_never_panic.

(* hence every program on the root range alone runs to the end: no panic, no error *)
Theorem no_panic_root_only : forall D old choose choose_rot, 2 <= D ->
  forall prog, Forall root_only prog -> exists out, run D old choose choose_rot prog = Ok out.
Proof. exact run_root_only_ok. Qed.
Print Assumptions no_panic_root_only.

(* hoisting never changes a page's effective MediaBox, CropBox, Rotate (modulo its default 0),
   AA or Resources: what Iterator.All reports is what the page was given *)
Theorem inherit_sound : forall D old choose choose_rot, 1 <= D ->
  forall prog out root, NoDup (append_ids prog) -> run D old choose choose_rot prog = Ok out -> o_root out = Some root ->
  Forall2 (fun g p => fst g = RP p /\ eff_all (snd g) (given_of prog (RP p)))
          (iterate old root a_empty) (fst (spec_run prog)).
Proof. exact (fun D old c cr HD => inherit_sound_l D old c cr HD). Qed.
Print Assumptions inherit_sound.

(* every tree the writer model produces passes the validator *)
Theorem writer_passes_validator : forall D old choose choose_rot, 1 <= D ->
  forall prog out root, NoDup (append_ids prog) -> run D old choose choose_rot prog = Ok out -> o_root out = Some root ->
  ptree_ok D old (expected_of prog) root = true.
Proof. exact (fun D old c cr HD => writer_passes_validator_l D old c cr HD). Qed.
Print Assumptions writer_passes_validator.

(* the certified validator, run (extracted) on the raw tree of the real writer: acceptance means
   valid structure, the expected pages with their effective attributes in order, NumPages, and
   GetPage(i) = the i-th page for EVERY i *)
Theorem ptree_ok_sound : forall D old expected root, ptree_ok D old expected root = true ->
  root_ok D root = true /\
  Forall2 (fun g e => fst g = fst e /\ eff_same old (snd g) (snd e)) (iterate old root a_empty) expected /\
  num_pages root = length expected /\
  (forall i, get_page old root i a_empty = nth_error (iterate old root a_empty) i).
Proof. exact ptree_ok_sound_l. Qed.
Print Assumptions ptree_ok_sound.

Theorem ptree_ok_model_sound : forall old expected root, ptree_ok_model old expected root = true ->
  root_ok max_degree root = true /\
  num_pages root = length expected /\
  (forall i, get_page_model old root i = nth_error (iterate_model old root) i).
Proof. exact (ptree_ok_model_sound_l). Qed.
Print Assumptions ptree_ok_model_sound.

(* termination: the loops of mergeTail / collapse / merge and the cascade of futureInt updates
   always finish within the fuel the model gives them, for every program *)
Theorem no_fuel_exhaustion : forall D old choose choose_rot, 2 <= D ->
  forall prog, run D old choose choose_rot prog <> Err OutOfFuel.
Proof. exact run_nofuel. Qed.
Print Assumptions no_fuel_exhaustion.

(* page-number callbacks, any nesting of ranges: a callback registered with NextPageNumber is
   called with the position, in the finished document, of the next page added to its range - or
   with -1 when the range is closed first (or was closed already).  The log of the model's futureInt
   heap and the specification [spec_log] have the same entries.  The proof reads every futureInt as
   a value V that is fixed once the final sizes rho of the open ranges are fixed: Update / Inc /
   WhenAvailable keep "value so far + what is still owed = V" (PTFut), the cell of every open range
   stands for the position of its next page (PTPn2), for EVERY rho; when the root is closed nothing
   is owed and every stored callback has been called (PTPn3). *)
Theorem page_numbers_full : forall D old choose choose_rot, 2 <= D ->
  forall prog out, NoDup (append_ids prog) -> run D old choose choose_rot prog = Ok out ->
  forall k v, In (k, v) (o_log out) <-> In (k, v) (spec_log prog).
Proof. exact page_numbers_nested. Qed.
Print Assumptions page_numbers_full.

(* stronger: every callback is called exactly as often as the specification says (once per
   registration) - the two logs are the same up to the order of the calls.  (The order itself
   differs: a callback whose page number is not known yet is called later, when the ranges before
   it are closed.) *)
Theorem page_numbers_exact : forall D old choose choose_rot, 2 <= D ->
  forall prog out, NoDup (append_ids prog) -> run D old choose choose_rot prog = Ok out ->
  Permutation (o_log out) (spec_log prog).
Proof. exact page_numbers_exact. Qed.
Print Assumptions page_numbers_exact.

(* programs that use the root range only (no NewRange; NextPageNumber, appends and operations on
   writers that do not exist in any order): the log is the specification's, in the same order *)
Theorem page_numbers_partial : forall D old choose choose_rot prog out,
  Forall root_only prog -> NoDup (append_ids prog) ->
  run D old choose choose_rot prog = Ok out -> o_log out = spec_log prog.
Proof. exact page_numbers_root_only. Qed.
Print Assumptions page_numbers_partial.

(* ---- the hypotheses are satisfiable, the statements are not vacuous *)
Example degree : max_degree = 16.
Proof. reflexivity. Qed.

Definition ex_attrs (mb rot : option Z) : attrs := a_set KMediaBox mb (a_set KRotate rot a_empty).
(* 20 pages to the root, a range opened after page 2 and filled later, a closed range, callbacks *)
Definition ex_prog : list op :=
  [OAppend 0 0 (ex_attrs (Some 1%Z) None); OAppend 0 1 (ex_attrs (Some 1%Z) (Some 0%Z)); ONewRange 0;
   ONextPN 0 7; OAppend 0 2 (ex_attrs (Some 2%Z) (Some 90%Z))] ++
  map (fun i => OAppend 1 (3 + i) (ex_attrs (Some 1%Z) (Some 90%Z))) (seq 0 20) ++
  [ONextPN 1 8; OClose 1; OAppend 1 99 a_empty; ONextPN 1 9; OAppend 0 30 (ex_attrs None None)].

Example ex_nodup : NoDup (append_ids ex_prog).
Proof. apply nodup_check. vm_compute. reflexivity. Qed.

Example ex_run :
  match run_model false ex_prog with
  | Ok out =>
    match o_root out with
    | Some root =>
      (Nat.eqb (length (leaves root)) 24) && ptree_ok_model false (expected_of ex_prog) root &&
      (Nat.eqb (length (filter (fun b => negb b) (o_accepted out))) 1)
    | None => false
    end
  | Err _ => false
  end = true.
Proof. vm_compute. reflexivity. Qed.

Example ex_log : match run_model false ex_prog with Ok out => o_log out | Err _ => [] end = [(7, 22%Z); (8, (-1)%Z); (9, (-1)%Z)].
Proof. vm_compute. reflexivity. Qed.
Definition ex_prog_root : list op :=
  [ONextPN 0 1; OAppend 0 5 a_empty; ONextPN 3 2; ONextPN 0 3; ONextPN 0 4; OAppend 0 6 a_empty; OAppend 2 7 a_empty; ONextPN 0 9].
Example ex_root_only : Forall root_only ex_prog_root /\ NoDup (append_ids ex_prog_root) /\
  spec_log ex_prog_root = [(1, 0%Z); (2, (-1)%Z); (3, 1%Z); (4, 1%Z); (9, (-1)%Z)].
Proof. split; [repeat constructor|]. split; [apply nodup_check; vm_compute; reflexivity|vm_compute; reflexivity]. Qed.

Example ex_spec_log : spec_log ex_prog = [(7, 22%Z); (8, (-1)%Z); (9, (-1)%Z)].
Proof. vm_compute. reflexivity. Qed.
