(* C16 - merge() as it was before fix F47 (commit 16000eb), kept only to state what was wrong:
   the depth loop did not continue at the depth of a node built from a window that mixes two depths.
   Definitions only. *)
From Coq Require Import List Arith Bool ZArith.
From GoPdf.Base Require Import Res.
From GoPdf.C16 Require Import PageTree.
Import ListNotations.

Section Pre.
Variable D : nat.
Variable old : bool.
Variable choose : list Z -> Z.
Variable choose_rot : list (option Z) -> option Z.

Fixpoint merge_loop3_pre (fuel : nat) (a : list ninfo) (start stop : nat) (depth prev_depth : nat) (next : nat)
  : res (list ninfo * nat) :=
  match fuel with
  | O => Err OutOfFuel
  | S fuel =>
    bind (merge_inner D old choose choose_rot (S stop) a start stop false next) (fun '(a, start, stop, changed, next) =>
      if ((prev_depth <=? depth) && negb changed) || (start =? 0) then Ok (a, next)
      else
        let stop := start in
        let start := start - lead_run (S depth) (rev (firstn start (depths a))) in
        merge_loop3_pre fuel a start stop (S depth) prev_depth next)
  end.

Definition merge_pre (a b : list ninfo) (next : nat) : res (list ninfo * nat) :=
  match a, b with
  | [], _ => Ok (b, next)
  | _, [] => Ok (a, next)
  | _, b0 :: _ =>
    let next_depth := n_depth b0 in
    bind (merge_loop1 D old choose choose_rot (S (length a)) a next_depth next) (fun '(a, next) =>
      let a := match a with
               | [x] => if n_depth x <? next_depth then [set_depth next_depth x] else [x]
               | _ => a
               end in
      let prev_depth := last_depth a in
      let pos := length a in
      let ab := a ++ b in
      let start := pos - lead_run prev_depth (rev (depths a)) in
      let stop := S pos + lead_run next_depth (skipn (S pos) (depths ab)) in
      merge_loop3_pre (S (length ab + prev_depth)) ab start stop next_depth prev_depth next)
  end.

End Pre.

(* the tails of the witness: 15 subtrees of depth 2 and 8 of depth 1 (3968 pages appended to the
   root writer), and the 9 pages of a range opened after them *)
Definition sub (d : nat) : ninfo := mkN (Page (RP 0) None a_empty) 1 d.
Definition wit_a : list ninfo := repeat (sub 2) 15 ++ repeat (sub 1) 8.
Definition wit_b : list ninfo := repeat (sub 0) 9.
