(* C16 - page numbers under nesting, part 2: the invariant that ties the futureInt heap to the
   positions in the tree of writers, and the operations that keep it. *)
From Coq Require Import List Arith Bool ZArith Lia Permutation.
From GoPdf.Base Require Import Res.
From GoPdf.C17 Require Import KTDepths.
From GoPdf.C16 Require Import PageTree PTBasics PTTails PTStruct PTWriter PTSim PTRun PTFuel2 PTPageNum PTSafe PTFut PTPn1.
Import ListNotations.

(* what a resolved callback must have been told *)
Definition Rv (rho : nat -> nat) (root : writer) (o : option nat) (v : Z) : Prop :=
  match o with
  | Some p => exists pos, In (p, pos) (wlay rho 0 root) /\ v = Z.of_nat pos
  | None => v = (-1)%Z
  end.

Definition Rq (rho : nat -> nat) (root : writer) (q : nat * option nat) (e : nat * Z) : Prop :=
  fst q = fst e /\ Rv rho root (snd q) (snd e).

Record Jrho (rho : nat -> nat) (V : nat -> Z) (root : writer) (fs : fstate)
       (P : list (nat * nat)) (Q : list (nat * option nat)) : Prop := mkJ {
  j_heap : HInv V (f_heap fs) (wx rho root);
  j_req : Forall (fun e => V (fst e) = Z.of_nat (snd e)) (wreq rho 0 root);
  j_cells : NoDup (map fst (wreq rho 0 root));
  j_pend : Permutation P (wpend rho root);
  j_log : exists L, Permutation (f_log fs ++ upend V (f_heap fs)) L /\ Forall2 (Rq rho root) Q L }.

(* ---- list facts *)
Lemma Permutation_filter' {A} (f : A -> bool) l l' : Permutation l l' -> Permutation (filter f l) (filter f l').
Proof.
  induction 1 as [|x l l' _ IH|x y l|l l' l'' _ IH1 _ IH2]; cbn; [constructor| | |].
  - destruct (f x); [constructor|]; exact IH.
  - destruct (f x), (f y); try reflexivity. apply Permutation.perm_swap.
  - exact (Permutation_trans IH1 IH2).
Qed.
Lemma filter_true {A} (f : A -> bool) l : (forall x, In x l -> f x = true) -> filter f l = l.
Proof. induction l as [|x l IH]; intros H; [reflexivity|]. cbn. rewrite (H x (or_introl eq_refl)), IH; auto. intros y Hy. apply H. right. exact Hy. Qed.
Lemma filter_false {A} (f : A -> bool) l : (forall x, In x l -> f x = false) -> filter f l = [].
Proof. induction l as [|x l IH]; intros H; [reflexivity|]. cbn. rewrite (H x (or_introl eq_refl)), IH; auto. intros y Hy. apply H. right. exact Hy. Qed.
Lemma Forall2_impl' {A B} (R R' : A -> B -> Prop) l l' : (forall a b, R a b -> R' a b) -> Forall2 R l l' -> Forall2 R' l l'.
Proof. intros H. induction 1; constructor; auto. Qed.
Lemma Forall2_maps {A B C} (R : B -> C -> Prop) (f : A -> B) (g : A -> C) l :
  (forall x, In x l -> R (f x) (g x)) -> Forall2 R (map f l) (map g l).
Proof. induction l as [|x l IH]; intros H; cbn; constructor; [apply H; left; reflexivity|apply IH; intros y Hy; apply H; right; exact Hy]. Qed.

(* anonymous writers carry no callbacks; numPagesCb holds Updates only *)
Inductive w_shape : writer -> Prop :=
| wsh id cl ch tail npn pn nc :
    (id = None -> nc = [] /\ pn = []) -> Forall (fun k => exists c, k = CbUpd c) nc -> Forall w_shape ch ->
    w_shape (Wr id cl ch tail npn pn nc).

Lemma count_leaves_len n : count_leaves n = length (leaves n).
Proof.
  induction n as [r p a|r p a c kids IH] using node_ind'; [reflexivity|]. cbn [count_leaves leaves].
  induction kids as [|k ks IHk]; [reflexivity|]. inversion IH; subst. cbn. rewrite app_length. f_equal; auto.
Qed.

Lemma sum_counts_len D cs : Forall (s_ok D) cs -> sum_counts cs = length (tleaves cs).
Proof.
  induction 1 as [|i cs (H & _) _ IH]; [reflexivity|]. unfold sum_counts, tleaves in *. cbn. rewrite app_length, IH, H.
  rewrite count_leaves_len. reflexivity.
Qed.

Section Ops.
Variable D : nat.
Variable old : bool.
Variable choose : list Z -> Z.
Variable choose_rot : list (option Z) -> option Z.
Variable G : ref -> attrs.
Hypothesis HD : 2 <= D.

Notation w_good := (w_good D old G).
Notation do_append := (do_append D old choose choose_rot).
Notation close_w := (close_w D old choose choose_rot).

(* ---- requirements name cells of the heap *)
Lemma wreq_valid rho n w : w_safe D n w -> forall off e, In e (wreq rho off w) -> fst e < n.
Proof.
  induction w as [wid cl ch tail npn pn nc IH] using writer_ind'. intros H off e He.
  inversion H as [? ? ? ? ? ? ? _ Hc Hi _]; subst. unfold wreq in He. rewrite wfold_eq in He. apply in_app_or in He as [He|He].
  - clear Hi H. revert off He. induction ch as [|c cs IHc]; intros off He; [destruct He|].
    inversion IH as [|? ? Pc Pcs]; subst. inversion Hc as [|? ? Sc Scs]; subst.
    cbn [lfold] in He. apply in_app_or in He as [He|He]; [exact (Pc Sc _ _ He)|exact (IHc Pcs Scs _ He)].
  - unfold loc_req in He. destruct wid as [i|], cl; cbn [named_open] in He; try destruct He.
    destruct npn as [c|]; [|destruct He]. destruct He as [<-|[]]. cbn [fst].
    destruct (Hi i eq_refl) as (c' & E & Hlt). injection E as <-. exact Hlt.
Qed.

(* the loop of AppendPageDict over nextPageNumberCb *)
Lemma go_when_inv V c X : forall pn fs fs1, HInv V (f_heap fs) X ->
  (fix go (l : list nat) (fs : fstate) {struct l} : res fstate :=
     match l with
     | [] => Ok fs
     | k :: r => bind (f_when fs c (CbUser k)) (go r)
     end) pn fs = Ok fs1 ->
  HInv V (f_heap fs1) X /\ length (f_heap fs1) = length (f_heap fs) /\
  Permutation (f_log fs1 ++ upend V (f_heap fs1)) (map (fun k => (k, V c)) pn ++ f_log fs ++ upend V (f_heap fs)).
Proof.
  induction pn as [|k pn IH]; intros fs fs1 HI H.
  - injection H as <-. auto.
  - apply bind_ok in H as (fs0 & Hw & H). destruct (f_when_user_inv V _ _ _ _ _ HI Hw) as (A & B & C).
    destruct (IH _ _ A H) as (A' & B' & C'). split; [exact A'|]. split; [congruence|].
    rewrite C', C. cbn [map]. apply (perm_swap (map (fun k0 => (k0, V c)) pn) [(k, V c)]).
Qed.

Lemma NoDup_swap_mid {A} (a b : list A) x y : NoDup (a ++ x :: b) -> ~ In y (a ++ b) -> NoDup (a ++ y :: b).
Proof.
  intros H Hy. apply NoDup_remove_1 in H. apply (Permutation_NoDup (Permutation_middle a b y)). constructor; assumption.
Qed.

(* facts about the writer an operation is applied to, inside the tree *)
Lemma in_req_root rho C x e : In e (wreq rho (coff rho C) x) -> In e (wreq rho 0 (plug C x)).
Proof. intros H. apply (Permutation_in _ (Permutation_sym (wreq_plug rho C x))). apply in_or_app. auto. Qed.

(* ---- AppendPageDict *)
Lemma append_J rho V C i ch tail c pn nc p a st t' st' P Q :
  do_append p a (Wr (Some i) false ch tail (Some c) pn nc) st = Ok (t', st') ->
  w_safe D (hlen st) (plug C (Wr (Some i) false ch tail (Some c) pn nc)) ->
  NoDup (wids (plug C (Wr (Some i) false ch tail (Some c) pn nc))) ->
  ~ In p (ids (wpages (plug C (Wr (Some i) false ch tail (Some c) pn nc)))) ->
  (forall k q, In (k, Some q) Q -> In q (ids (wpages (plug C (Wr (Some i) false ch tail (Some c) pn nc))))) ->
  Jrho rho V (plug C (Wr (Some i) false ch tail (Some c) pn nc)) (g_f st) P Q ->
  exists V', Jrho rho V' (plug C t') (g_f st')
     (filter (fun '(w', _) => negb (w' =? i)) P)
     (Q ++ map (fun '(_, k) => (k, Some p)) (filter (fun '(w', _) => w' =? i) P)).
Proof.
  set (t := Wr (Some i) false ch tail (Some c) pn nc). intros H Hsafe Hnd Hfresh Hres [J1 J2 J3 J4 J5].
  unfold PageTree.do_append in H. apply bind_ok in H as ([tail' nx] & Ht & H). apply bind_ok in H as (fs1 & Hgo & H).
  apply bind_ok in H as ([fs2 c'] & Hinc & H). injection H as <- <-. cbn [g_f].
  set (t' := Wr (Some i) false ch tail' (Some c') [] nc).
  assert (tleaves tail' = tleaves tail ++ [RP p]) as Eleaves.
  { destruct (append_tail_keeps D old choose choose_rot (fun _ => True) (fun _ _ _ _ => I) _ _ _ _ _ _ Ht) as [_ E]; auto.
    clear. induction tail; constructor; auto. }
  set (off := coff rho C). set (e := off + sizes rho ch + length (tleaves tail)).
  assert (wsize rho t' = wsize rho t) as Esize by reflexivity.
  assert (wx rho t' = wx rho t) as Ex by (unfold wx, t, t'; rewrite !wfold_eq; reflexivity).
  assert (wreq rho off t = lfold rho loc_req ch off ++ [(c, e)]) as Ereq by (unfold wreq, t; rewrite wfold_eq; reflexivity).
  assert (wreq rho off t' = lfold rho loc_req ch off ++ [(c', S e)]) as Ereq'.
  { unfold wreq, t'. rewrite wfold_eq. unfold loc_req. cbn [named_open]. rewrite Eleaves, app_length. cbn [length].
    unfold e. do 3 f_equal. lia. }
  assert (wlay rho off t' = wlay rho off t ++ [(p, e)]) as Elay.
  { unfold wlay, t, t'. rewrite !wfold_eq, <- app_assoc. f_equal. unfold loc_lay. rewrite Eleaves. unfold ids. rewrite map_app, app_length, seq_app.
    rewrite combine_app by (rewrite map_length, seq_length; reflexivity). reflexivity. }
  set (L := lfold rho loc_pend ch 0).
  assert (wpend rho t = L ++ map (pair i) pn) as Epend by (unfold wpend, t; rewrite wfold_eq; reflexivity).
  assert (wpend rho t' = L ++ []) as Epend' by (unfold wpend, t'; rewrite wfold_eq; reflexivity).
  (* the heap *)
  destruct (go_when_inv V c _ _ _ _ J1 Hgo) as (A1 & A2 & A3).
  destruct (f_inc_inv V _ _ _ _ _ A1 Hinc) as (V' & B1 & B2 & B3 & B4 & B5 & B6 & B7).
  (* the requirements of the old tree *)
  pose proof (wreq_plug rho C t) as Pq. fold off in Pq. rewrite Ereq in Pq.
  pose proof (wreq_plug rho C t') as Pq'. fold off in Pq'. rewrite Esize, Ereq' in Pq'.
  set (creq := cfold rho loc_req 0 (wsize rho t) C) in *.
  assert (V c = Z.of_nat e) as HVc.
  { rewrite Forall_forall in J2. apply (J2 (c, e)). apply (Permutation_in _ (Permutation_sym Pq)).
    apply in_or_app. left. apply in_or_app. right. left. reflexivity. }
  assert (forall x, In x (lfold rho loc_req ch off ++ creq) -> fst x <> c' /\ V' (fst x) = Z.of_nat (snd x)) as Hothers.
  { intros x Hx.
    assert (In x (wreq rho 0 (plug C t))) as Hin.
    { apply (Permutation_in _ (Permutation_sym Pq)). apply in_app_or in Hx as [Hx|Hx]; apply in_or_app; [left; apply in_or_app|]; auto. }
    assert (fst x < length (f_heap fs1)) as Hlt by (rewrite A2; exact (wreq_valid rho _ _ Hsafe _ _ Hin)).
    assert (fst x <> c') as Hne.
    { destruct B4 as [->| ->]; [|lia]. intros Ec.
      pose proof (Permutation_NoDup (Permutation_map fst Pq) J3) as Hn. rewrite !map_app in Hn. cbn [map fst] in Hn.
      rewrite <- app_assoc in Hn. cbn [app] in Hn. apply NoDup_remove_2 in Hn. apply Hn. rewrite <- map_app, <- Ec. apply in_map. exact Hx. }
    split; [exact Hne|]. rewrite B3 by assumption. rewrite Forall_forall in J2. exact (J2 x Hin). }
  assert (forall y, In y L \/ In y (cpend rho C) -> fst y <> i) as Hni.
  { intros y Hy Ey. pose proof (Permutation_NoDup (wids_plug C t) Hnd) as Hn. cbn [wids t app] in Hn.
    apply NoDup_cons_iff in Hn as [Hnot _]. apply Hnot. rewrite <- Ey. destruct Hy as [Hy|Hy]; apply in_or_app.
    - left. exact (lpend_ids rho ch _ _ Hy).
    - right. exact (cpend_ids rho C _ Hy). }
  exists V'. constructor.
  - (* heap *)
    apply (HInv_perm _ _ (wx rho (plug C t))); [|exact B1].
    rewrite !wx_plug, Ex. reflexivity.
  - (* positions *)
    apply (Permutation_Forall (Permutation_sym Pq')). apply Forall_app. split; [apply Forall_app; split|].
    + apply Forall_forall. intros x Hx. apply Hothers. apply in_or_app. auto.
    + constructor; [|constructor]. cbn [fst snd]. rewrite B2, HVc. lia.
    + apply Forall_forall. intros x Hx. apply Hothers. apply in_or_app. auto.
  - (* cells *)
    apply (Permutation_NoDup (Permutation_map fst (Permutation_sym Pq'))).
    pose proof (Permutation_NoDup (Permutation_map fst Pq) J3) as Hn. rewrite !map_app in *. cbn [map fst] in *.
    rewrite <- app_assoc in *. cbn [app] in *. apply (NoDup_swap_mid _ _ c); [exact Hn|].
    rewrite <- map_app. intros Hin. apply in_map_iff in Hin as (x & Ex' & Hx). destruct (Hothers x Hx) as [Hne _]. congruence.
  - (* pending registrations *)
    apply Permutation_trans with (filter (fun '(w', _) => negb (w' =? i)) (wpend rho (plug C t)));
      [apply Permutation_filter'; exact J4|].
    rewrite (Permutation_filter' _ _ _ (wpend_plug rho C t)), wpend_plug, Epend, Epend', !filter_app, app_nil_r.
    rewrite (filter_true _ L), (filter_false _ (map (pair i) pn)), (filter_true _ (cpend rho C)), app_nil_r; [reflexivity|..].
    + intros [j k] Hy. apply negb_true_iff, Nat.eqb_neq. exact (Hni (j, k) (or_intror Hy)).
    + intros [j k] Hy. apply in_map_iff in Hy as (k' & E' & _). injection E' as <- _. rewrite Nat.eqb_refl. reflexivity.
    + intros [j k] Hy. apply negb_true_iff, Nat.eqb_neq. exact (Hni (j, k) (or_introl Hy)).
  - (* the callbacks *)
    destruct J5 as (L0 & PL & FL).
    assert (Permutation (filter (fun '(w', _) => w' =? i) P) (map (pair i) pn)) as Phit.
    { apply Permutation_trans with (filter (fun '(w', _) => w' =? i) (wpend rho (plug C t)));
        [apply Permutation_filter'; exact J4|].
      rewrite (Permutation_filter' _ _ _ (wpend_plug rho C t)), Epend, !filter_app.
      rewrite (filter_false _ L), (filter_true _ (map (pair i) pn)), (filter_false _ (cpend rho C)), app_nil_r; [reflexivity|..].
      - intros [j k] Hy. apply Nat.eqb_neq. exact (Hni (j, k) (or_intror Hy)).
      - intros [j k] Hy. apply in_map_iff in Hy as (k' & E' & _). injection E' as <- _. apply Nat.eqb_refl.
      - intros [j k] Hy. apply Nat.eqb_neq. exact (Hni (j, k) (or_introl Hy)). }
    assert (forall x, In x (wlay rho 0 (plug C t)) \/ x = (p, e) -> In x (wlay rho 0 (plug C t'))) as Hlay.
    { intros x [Hin| ->].
      - apply (Permutation_in _ (wlay_plug rho C t)) in Hin. apply (Permutation_in _ (Permutation_sym (wlay_plug rho C t'))).
        fold off in Hin. fold off. rewrite Esize, Elay. apply in_app_or in Hin as [Hin|Hin]; apply in_or_app; [left; apply in_or_app|]; auto.
      - apply (Permutation_in _ (Permutation_sym (wlay_plug rho C t'))). fold off. rewrite Elay.
        apply in_or_app. left. apply in_or_app. right. left. reflexivity. }
    exists (L0 ++ map (fun '(_, k) => (k, V c)) (filter (fun '(w', _) => w' =? i) P)). split.
    + rewrite B7, A3, (Permutation_app_comm (map (fun k => (k, V c)) pn)). apply Permutation_app; [exact PL|].
      rewrite (Permutation_map (fun '(_, k) => (k, V c)) Phit), map_map. reflexivity.
    + apply Forall2_app.
      * apply (Forall2_impl' (Rq rho (plug C t))); [|exact FL]. intros [k o] [k' v] [E1 E2]. split; [exact E1|].
        cbn [snd] in *. destruct o as [q|]; [|exact E2]. destruct E2 as (pos & Hin & Ev). exists pos. split; [apply Hlay; auto|exact Ev].
      * apply Forall2_maps. intros [j k] _. split; [reflexivity|]. cbn [snd Rv]. exists e. split; [apply Hlay; auto|exact HVc].
Qed.

(* ---- an operation that leaves sizes, positions, debts and the heap alone *)
Lemma same_folds_J rho V C t t' fs P Q :
  wsize rho t' = wsize rho t -> wx rho t' = wx rho t ->
  (forall off, wreq rho off t' = wreq rho off t) -> (forall off, wlay rho off t' = wlay rho off t) ->
  Jrho rho V (plug C t) fs P Q ->
  HInv V (f_heap fs) (wx rho (plug C t')) /\
  Forall (fun e => V (fst e) = Z.of_nat (snd e)) (wreq rho 0 (plug C t')) /\
  NoDup (map fst (wreq rho 0 (plug C t'))) /\
  (forall o v, Rv rho (plug C t') o v <-> Rv rho (plug C t) o v).
Proof.
  intros Es Ex Er El [J1 J2 J3 J4 J5].
  assert (Permutation (wreq rho 0 (plug C t')) (wreq rho 0 (plug C t))) as Pr.
  { rewrite !wreq_plug, Es, Er. reflexivity. }
  assert (Permutation (wlay rho 0 (plug C t')) (wlay rho 0 (plug C t))) as Pl.
  { rewrite !wlay_plug, Es, El. reflexivity. }
  splits.
  - apply (HInv_perm _ _ (wx rho (plug C t))); [|exact J1]. rewrite !wx_plug, Ex. reflexivity.
  - apply (Permutation_Forall (Permutation_sym Pr)). exact J2.
  - apply (Permutation_NoDup (Permutation_map fst (Permutation_sym Pr))). exact J3.
  - intros [q|] v; [|reflexivity]. cbn [Rv]. split; intros (pos & Hin & Ev); exists pos; (split; [|exact Ev]).
    + exact (Permutation_in _ Pl Hin).
    + exact (Permutation_in _ (Permutation_sym Pl) Hin).
Qed.

(* NextPageNumber on an open range: one more registration *)
Lemma nextpn_J rho V C i ch tail npn pn nc k fs P Q :
  Jrho rho V (plug C (Wr (Some i) false ch tail npn pn nc)) fs P Q ->
  Jrho rho V (plug C (Wr (Some i) false ch tail npn (pn ++ [k]) nc)) fs (P ++ [(i, k)]) Q.
Proof.
  intros J. set (t := Wr (Some i) false ch tail npn pn nc) in *. set (t' := Wr (Some i) false ch tail npn (pn ++ [k]) nc).
  destruct (same_folds_J rho V C t t' fs P Q) as (A1 & A2 & A3 & A4); auto;
    try (intros off; unfold wreq, wlay, t, t'; rewrite !wfold_eq; reflexivity);
    try (unfold wx, t, t'; rewrite !wfold_eq; reflexivity).
  destruct J as [J1 J2 J3 J4 J5]. constructor; auto.
  - assert (Permutation (wpend rho (plug C t')) (wpend rho (plug C t) ++ [(i, k)])) as Pp.
    { rewrite !wpend_plug. unfold wpend, t, t'. rewrite !wfold_eq. unfold loc_pend. cbn [named_open]. rewrite map_app. cbn [map].
      rewrite <- !app_assoc. apply Permutation_app_head. apply Permutation_app_head. apply Permutation_app_comm. }
    rewrite Pp. apply Permutation_app_tail. exact J4.
  - destruct J5 as (L0 & PL & FL). exists L0. split; [exact PL|].
    apply (Forall2_impl' (Rq rho (plug C t))); [|exact FL]. intros [k0 o] [k' v] [E1 E2]. split; [exact E1|apply A4; exact E2].
Qed.

(* a callback told -1 at once *)
Lemma fire_none_J rho V root fs k P Q :
  Jrho rho V root fs P Q -> Jrho rho V root (mkF (f_heap fs) (f_log fs ++ [(k, (-1)%Z)])) P (Q ++ [(k, None)]).
Proof.
  intros [J1 J2 J3 J4 J5]. constructor; auto. cbn [f_heap f_log]. destruct J5 as (L0 & PL & FL).
  exists (L0 ++ [(k, (-1)%Z)]). split.
  - rewrite <- app_assoc, (Permutation_app_comm [(k, (-1)%Z)]), app_assoc. apply Permutation_app_tail. exact PL.
  - apply Forall2_app; [exact FL|]. constructor; [|constructor]. split; reflexivity.
Qed.

(* ---- NewRange *)
Definition anon_of (tail : list ninfo) : list writer :=
  match tail with [] => [] | _ :: _ => [Wr None false [] tail None [] []] end.

Lemma anon_sizes rho tail : sizes rho (anon_of tail) = length (tleaves tail).
Proof. destruct tail; [reflexivity|]. unfold anon_of, sizes. cbn -[tleaves]. lia. Qed.

Lemma anon_fold {X} rho (loc : nat -> option nat -> bool -> list ninfo -> option nat -> list nat -> list cb -> list X) tail o :
  loc o None false [] None [] [] = [] ->
  lfold rho loc (anon_of tail) o = loc o None false tail None [] [].
Proof.
  intros H. destruct tail; [cbn; rewrite H; reflexivity|]. unfold anon_of. cbn [lfold]. rewrite wfold_eq. cbn [lfold sizes map list_sum app].
  rewrite app_nil_r, Nat.add_0_r. reflexivity.
Qed.

Lemma loc_req_open o i tail c pn nc : loc_req o (Some i) false tail (Some c) pn nc = [(c, o + length (tleaves tail))].
Proof. reflexivity. Qed.
Lemma loc_req_anon o cl tail npn pn nc : loc_req o None cl tail npn pn nc = [].
Proof. reflexivity. Qed.
Lemma loc_x_open rho o i tail npn pn nc : loc_x rho o (Some i) false tail npn pn nc = upd_of (Z.of_nat (rho i)) nc.
Proof. reflexivity. Qed.
Lemma loc_x_anon rho o cl tail npn pn nc : loc_x rho o None cl tail npn pn nc = [].
Proof. reflexivity. Qed.
Lemma loc_pend_open o i tail npn pn nc : loc_pend o (Some i) false tail npn pn nc = map (pair i) pn.
Proof. reflexivity. Qed.
Lemma loc_pend_anon o cl tail npn pn nc : loc_pend o None cl tail npn pn nc = [].
Proof. reflexivity. Qed.
Lemma loc_lay_nil o wid cl npn pn nc : loc_lay o wid cl [] npn pn nc = [].
Proof. reflexivity. Qed.

Lemma new_range_J rho V C i ch tail c pn nc st t' st' P Q :
  do_new_range (Wr (Some i) false ch tail (Some c) pn nc) st = Ok (t', st') ->
  w_safe D (hlen st) (plug C (Wr (Some i) false ch tail (Some c) pn nc)) ->
  Jrho rho V (plug C (Wr (Some i) false ch tail (Some c) pn nc)) (g_f st) P Q ->
  exists V', Jrho rho V' (plug C t') (g_f st') P Q.
Proof.
  set (t := Wr (Some i) false ch tail (Some c) pn nc). intros H Hsafe [J1 J2 J3 J4 J5].
  unfold do_new_range, t in H. destruct (nth_error (f_heap (g_f st)) c) as [clc|] eqn:Ec; cbn [is_none] in H; [|discriminate].
  change (f_new (g_f st) (mkCell 0 2 [])) with
    (mkF (f_heap (g_f st) ++ [mkCell 0 2 []]) (f_log (g_f st)), length (f_heap (g_f st))) in H. cbv beta iota in H.
  apply bind_ok in H as (fs2 & Hw & H).
  replace (match tail with [] => ch | _ :: _ => ch ++ [Wr None false [] tail None [] []] end) with (ch ++ anon_of tail) in H
    by (destruct tail; [apply app_nil_r|reflexivity]).
  injection H as <- <-. cbn [g_f].
  set (h := f_heap (g_f st)) in *. set (c' := length h) in *. set (w0 := g_wid st) in *.
  set (sub := Wr (Some w0) false [] [] (Some c) [] [CbUpd c']).
  set (t' := Wr (Some i) false ((ch ++ anon_of tail) ++ [sub]) [] (Some c') pn nc).
  set (off := coff rho C). set (e := off + sizes rho ch + length (tleaves tail)).
  assert (c < c')%nat as Hcc by (apply nth_error_Some; congruence).
  assert (wsize rho t' = wsize rho t) as Esize by reflexivity.
  (* the folds of the new writer *)
  assert (Permutation (wx rho t') ((c', Z.of_nat (rho w0)) :: wx rho t)) as Ex.
  { unfold wx, t, t'. rewrite !wfold_eq, !lfold_app. cbn [lfold]. rewrite anon_fold by reflexivity.
    unfold sub. rewrite wfold_eq. cbn [lfold app]. rewrite loc_x_anon, !loc_x_open. cbn [upd_of app]. rewrite app_nil_r.
    rewrite <- app_assoc. cbn [app]. symmetry. apply Permutation_middle. }
  assert (wreq rho off t = lfold rho loc_req ch off ++ [(c, e)]) as Ereq by (unfold wreq, t; rewrite wfold_eq; reflexivity).
  assert (wreq rho off t' = (lfold rho loc_req ch off ++ [(c, e)]) ++ [(c', e + rho w0)]) as Ereq'.
  { unfold wreq, t'. rewrite wfold_eq, !lfold_app. cbn [lfold]. rewrite anon_fold by reflexivity.
    unfold sub. rewrite wfold_eq. cbn [lfold app]. rewrite loc_req_anon, !loc_req_open. cbn [app].
    rewrite !sizes_app, anon_sizes. cbn [tleaves flat_map length].
    rewrite <- !app_assoc. cbn [app]. f_equal. unfold e, sizes. cbn [map list_sum fold_right wsize named_open].
    f_equal; [f_equal; lia|]. do 2 f_equal. lia. }
  assert (forall o, wlay rho o t' = wlay rho o t) as Elay.
  { intros o. unfold wlay, t, t'. rewrite !wfold_eq, !lfold_app. cbn [lfold]. rewrite anon_fold by reflexivity.
    unfold sub. rewrite wfold_eq. cbn [lfold app]. rewrite !loc_lay_nil, !app_nil_r.
    reflexivity. }
  assert (wpend rho t' = wpend rho t) as Epend.
  { unfold wpend, t, t'. rewrite !wfold_eq, !lfold_app. cbn [lfold]. rewrite anon_fold by reflexivity.
    unfold sub. rewrite wfold_eq. cbn [lfold app]. rewrite loc_pend_anon, !loc_pend_open. cbn [map app]. rewrite !app_nil_r. reflexivity. }
  (* the heap *)
  destruct J1 as (Hwf & HX & Hcells).
  assert (0 <= V c)%Z as HVc0 by exact (proj2 (Hcells c clc Ec)).
  set (V' := bump V c' (V c + Z.of_nat (rho w0))%Z).
  assert (forall j, (j < c')%nat -> V' j = V j) as HV.
  { intros j Hj. unfold V', bump. destruct (Nat.eqb_spec j c'); [lia|reflexivity]. }
  assert (HInv V' (h ++ [mkCell 0 2 []]) ([(c', V' c); (c', Z.of_nat (rho w0))] ++ wx rho (plug C t))) as HI1.
  { apply (HInv_new V V' h _ (mkCell 0 2 []) _ (conj Hwf (conj HX Hcells)) HV eq_refl); [cbn; lia| |reflexivity|].
    - rewrite (HV c Hcc). constructor; [split; [reflexivity|exact HVc0]|]. constructor; [split; [reflexivity|cbn; lia]|constructor].
    - cbn [map snd fold_right c_val]. rewrite (HV c Hcc). unfold V', bump. fold c'. rewrite Nat.eqb_refl. lia. }
  cbn [app] in HI1.
  destruct (f_when_upd_inv V' (mkF (h ++ [mkCell 0 2 []]) (f_log (g_f st))) c c' _ fs2 HI1 Hcc Hw) as (A1 & A2 & A3).
  cbn [f_heap f_log] in A1, A2, A3. rewrite app_length in A2. cbn [length] in A2.
  rewrite (upend_new V V' h (mkCell 0 2 []) HV eq_refl) in A3.
  (* requirements *)
  pose proof (wreq_plug rho C t) as Pq. fold off in Pq. rewrite Ereq in Pq.
  pose proof (wreq_plug rho C t') as Pq'. fold off in Pq'. rewrite Esize, Ereq' in Pq'.
  set (creq := cfold rho loc_req 0 (wsize rho t) C) in *.
  assert (V c = Z.of_nat e) as HVc.
  { rewrite Forall_forall in J2. apply (J2 (c, e)). apply (Permutation_in _ (Permutation_sym Pq)).
    apply in_or_app. left. apply in_or_app. right. left. reflexivity. }
  assert (forall x, In x (wreq rho 0 (plug C t)) -> (fst x < c')%nat) as Hval.
  { intros x Hx. exact (wreq_valid rho _ _ Hsafe _ _ Hx). }
  assert (Permutation (wreq rho 0 (plug C t')) ((c', e + rho w0) :: wreq rho 0 (plug C t))) as Pq2.
  { rewrite Pq', Pq. rewrite <- !app_assoc. symmetry.
    apply Permutation_trans with ((c', e + rho w0) :: lfold rho loc_req ch off ++ [(c, e)] ++ creq); [reflexivity|].
    rewrite (app_assoc (lfold rho loc_req ch off) [(c, e)] ([(c', e + rho w0)] ++ creq)).
    rewrite (app_assoc (lfold rho loc_req ch off) [(c, e)] creq). apply Permutation_middle. }
  exists V'. constructor.
  - apply (HInv_perm _ _ ((c', Z.of_nat (rho w0)) :: wx rho (plug C t))); [|exact A1].
    rewrite !wx_plug, Ex. reflexivity.
  - apply (Permutation_Forall (Permutation_sym Pq2)). constructor.
    + cbn [fst snd]. unfold V', bump. rewrite Nat.eqb_refl, HVc. lia.
    + rewrite Forall_forall in *. intros x Hx. rewrite HV by exact (Hval x Hx). exact (J2 x Hx).
  - apply (Permutation_NoDup (Permutation_map fst (Permutation_sym Pq2))). cbn [map fst]. constructor; [|exact J3].
    intros Hin. apply in_map_iff in Hin as (x & Ex' & Hx). pose proof (Hval x Hx). lia.
  - rewrite J4, !wpend_plug, Epend. reflexivity.
  - assert (Permutation (wlay rho 0 (plug C t')) (wlay rho 0 (plug C t))) as Pl.
    { rewrite !wlay_plug, Esize, Elay. reflexivity. }
    destruct J5 as (L0 & PL & FL). exists L0. split; [rewrite A3; exact PL|].
    apply (Forall2_impl' (Rq rho (plug C t))); [|exact FL]. intros [k0 o] [k' v] [E1 E2]. split; [exact E1|].
    cbn [snd] in *. destruct o as [q|]; [|exact E2]. destruct E2 as (pos & Hin & Ev). exists pos. split; [|exact Ev].
    exact (Permutation_in _ (Permutation_sym Pl) Hin).
Qed.

(* ---- Close *)
Lemma fire_all_upd V : forall nc fs fs' v K, Forall (fun k => exists c, k = CbUpd c) nc ->
  HInv V (f_heap fs) (upd_of v nc ++ K) -> f_fire_all fs nc v = Ok fs' ->
  HInv V (f_heap fs') K /\ length (f_heap fs') = length (f_heap fs) /\
  Permutation (f_log fs' ++ upend V (f_heap fs')) (f_log fs ++ upend V (f_heap fs)).
Proof.
  induction nc as [|k nc IH]; intros fs fs' v K Hup HI H.
  - injection H as <-. auto.
  - inversion Hup as [|? ? [c ->] Hup']; subst. cbn [f_fire_all f_fire] in H. apply bind_ok in H as (fs1 & Hu & H).
    cbn [upd_of app] in HI. destruct (f_update_inv V _ _ _ _ _ _ HI Hu) as (A1 & A2 & A3).
    destruct (IH _ _ _ _ Hup' A1 H) as (B1 & B2 & B3). splits; [exact B1|congruence|]. rewrite B3. exact A3.
Qed.

(* a closed writer owes nothing and has nothing registered *)
Lemma closed_folds rho wid tail npn pn nc :
  wx rho (Wr wid true [] tail npn pn nc) = [] /\ wpend rho (Wr wid true [] tail npn pn nc) = [] /\
  forall off, wreq rho off (Wr wid true [] tail npn pn nc) = [].
Proof.
  unfold wx, wpend, wreq. rewrite !wfold_eq. cbn [lfold app]. unfold loc_x, loc_pend.
  destruct wid; cbn [named_open]; splits; auto; intros off; rewrite wfold_eq; unfold loc_req; destruct wid; reflexivity.
Qed.

Definition minus1 (e : nat * nat) : nat * Z := (snd e, (-1)%Z).

Lemma close_heap rho V w : forall st w' st' K,
  close_w w st = Ok (w', st') -> w_closed w = false -> w_good w -> w_shape w -> settled rho w ->
  HInv V (f_heap (g_f st)) (wx rho w ++ K) ->
  HInv V (f_heap (g_f st')) K /\ length (f_heap (g_f st')) = length (f_heap (g_f st)) /\
  Permutation (f_log (g_f st') ++ upend V (f_heap (g_f st')))
              (f_log (g_f st) ++ upend V (f_heap (g_f st)) ++ map minus1 (wpend rho w)).
Proof.
  induction w as [wid cl ch tail npn pn nc IH] using writer_ind'. intros st w' st' K H Hcl Hg Hsh Hst HI.
  cbn [w_closed] in Hcl. subst cl.
  destruct (close_w_spec D old choose choose_rot G _ _ _ _ H Hg) as (Sg & Sl & _).
  inversion Hg as [? ? ? ? ? ? ? Hgt Hgc _ _]; subst.
  inversion Hsh as [? ? ? ? ? ? ? Han Hup Hshc]; subst.
  inversion Hst as [? ? ? ? ? ? ? Hstc Hsti]; subst.
  cbn [PageTree.close_w] in H. apply bind_ok in H as ([nodes st1] & H1 & H).
  apply bind_ok in H as ([tail' nx] & Hm & H). apply bind_ok in H as (fs1 & Hnc & H). apply bind_ok in H as (fs2 & Hpn & H).
  injection H as <- <-. cbn [g_f w_tail] in *.
  unfold wx, wpend in *. rewrite !wfold_eq in *. rewrite <- app_assoc in HI.
  (* the children *)
  assert (forall l nodes0 st0 nodes1 st1' o o' K0,
    (fix go (l : list writer) (nodes : list ninfo) (st : gstate) {struct l} : res (list ninfo * gstate) :=
       match l with
       | [] => Ok (nodes, st)
       | c :: r =>
         bind (if w_closed c then Ok (c, st) else close_w c st) (fun '(c', st1) =>
         bind (PageTree.merge D old choose choose_rot nodes (w_tail c') (g_next st1)) (fun '(nodes', nx) => go r nodes' (with_next st1 nx)))
       end) l nodes0 st0 = Ok (nodes1, st1') ->
    Forall (fun w => forall st w' st' K, close_w w st = Ok (w', st') -> w_closed w = false -> w_good w -> w_shape w ->
                       settled rho w -> HInv V (f_heap (g_f st)) (wx rho w ++ K) ->
                       HInv V (f_heap (g_f st')) K /\ length (f_heap (g_f st')) = length (f_heap (g_f st)) /\
                       Permutation (f_log (g_f st') ++ upend V (f_heap (g_f st')))
                         (f_log (g_f st) ++ upend V (f_heap (g_f st)) ++ map minus1 (wpend rho w))) l ->
    Forall w_good l -> Forall w_shape l -> Forall (settled rho) l ->
    HInv V (f_heap (g_f st0)) (lfold rho (loc_x rho) l o ++ K0) ->
    HInv V (f_heap (g_f st1')) K0 /\ length (f_heap (g_f st1')) = length (f_heap (g_f st0)) /\
    Permutation (f_log (g_f st1') ++ upend V (f_heap (g_f st1')))
                (f_log (g_f st0) ++ upend V (f_heap (g_f st0)) ++ map minus1 (lfold rho loc_pend l o'))) as Hloop.
  { clear. induction l as [|c cs IHl]; intros nodes0 st0 nodes1 st1' o o' K0 H0 HP Hgs Hss Hsts HI0.
    - injection H0 as <- <-. cbn [lfold map]. rewrite app_nil_r. auto.
    - inversion HP as [|? ? Pc Pcs]; subst. inversion Hgs as [|? ? Gc Gcs]; subst.
      inversion Hss as [|? ? Sc Scs]; subst. inversion Hsts as [|? ? Tc Tcs]; subst.
      apply bind_ok in H0 as ([c' st2] & Hc1 & H0). apply bind_ok in H0 as ([nodes' nx] & Hm & H0).
      cbn [lfold] in HI0. rewrite <- app_assoc in HI0.
      rewrite (wfold_off rho (loc_x rho) (fun _ _ _ _ _ _ _ _ => eq_refl) c o 0) in HI0. fold (wx rho c) in HI0.
      cbn [lfold]. rewrite map_app. rewrite (wfold_off rho loc_pend (fun _ _ _ _ _ _ _ _ => eq_refl) c o' 0). fold (wpend rho c).
      assert (HInv V (f_heap (g_f st2)) (lfold rho (loc_x rho) cs (o + wsize rho c) ++ K0) /\
              length (f_heap (g_f st2)) = length (f_heap (g_f st0)) /\
              Permutation (f_log (g_f st2) ++ upend V (f_heap (g_f st2)))
                          (f_log (g_f st0) ++ upend V (f_heap (g_f st0)) ++ map minus1 (wpend rho c))) as (A1 & A2 & A3).
      { destruct (w_closed c) eqn:Ecl.
        - injection Hc1 as <- <-. destruct c as [wid cl ch tail npn pn nc]. cbn in Ecl. subst cl.
          inversion Gc as [? ? ? ? ? ? ? _ _ _ Hch]; subst. rewrite (Hch eq_refl) in *.
          destruct (closed_folds rho wid tail npn pn nc) as (E1 & E2 & _). rewrite E1 in HI0. rewrite E2. cbn [map]. rewrite app_nil_r. auto.
        - exact (Pc _ _ _ _ Hc1 eq_refl Gc Sc Tc HI0). }
      destruct (IHl _ _ _ _ _ (o' + wsize rho c) _ H0 Pcs Gcs Scs Tcs A1) as (B1 & B2 & B3).
      splits; [exact B1|cbn [with_next g_f] in B2; congruence|]. cbn [with_next g_f] in B3. rewrite B3.
      rewrite (app_assoc (f_log (g_f st2))), A3. rewrite <- !app_assoc. reflexivity. }
  destruct (Hloop ch [] st nodes st1 0 0 _ H1 IH Hgc Hshc Hstc HI) as (A1 & A2 & A3).
  (* numPagesCb *)
  inversion Sg as [? ? ? ? ? ? ? Hgt' _ _ _]; subst.
  assert (Z.of_nat (sum_counts tail') = Z.of_nat (length (wpages (Wr wid false ch tail npn pn nc)))) as Ecount.
  { rewrite (sum_counts_len D), Sl; [reflexivity|]. eapply Forall_impl; [|exact Hgt']. intros x [Hx _]. exact Hx. }
  assert (HInv V (f_heap fs1) K /\ length (f_heap fs1) = length (f_heap (g_f st1)) /\
          Permutation (f_log fs1 ++ upend V (f_heap fs1)) (f_log (g_f st1) ++ upend V (f_heap (g_f st1)))) as (B1 & B2 & B3).
  { destruct wid as [i|].
    - rewrite loc_x_open in A1. rewrite (Hsti i eq_refl), <- Ecount in A1.
      destruct nc as [|k0 nc0]; [injection Hnc as <-; cbn [upd_of app] in A1; auto|].
      exact (fire_all_upd V _ _ _ _ _ Hup A1 Hnc).
    - rewrite loc_x_anon in A1. destruct (Han eq_refl) as [-> _]. injection Hnc as <-. auto. }
  (* nextPageNumberCb *)
  destruct fs1 as [h1 log1]. rewrite fire_all_user in Hpn. injection Hpn as <-. cbn [f_heap f_log] in *.
  splits; [exact B1|congruence|].
  rewrite map_app. 
  assert (map minus1 (loc_pend (0 + sizes rho ch) wid false tail npn pn nc) = map (fun k => (k, (-1)%Z)) pn) as ->.
  { destruct wid as [i|]; [rewrite loc_pend_open, map_map; reflexivity|]. destruct (Han eq_refl) as [_ ->]. reflexivity. }
  rewrite <- (app_assoc log1).
  apply Permutation_trans with (map (fun k => (k, (-1)%Z)) pn ++ log1 ++ upend V h1); [apply perm_swap|].
  rewrite B3, A3. rewrite <- ?app_assoc.
  apply Permutation_trans with (f_log (g_f st) ++ map (fun k => (k, (-1)%Z)) pn ++ upend V (f_heap (g_f st)) ++ map minus1 (lfold rho loc_pend ch 0));
    [apply perm_swap|].
  apply Permutation_app_head. rewrite (app_assoc (upend V (f_heap (g_f st)))). apply Permutation_app_comm.
Qed.

Lemma close_J rho V C t t' st st' P Q (sel : nat -> bool) :
  close_w t st = Ok (t', st') -> w_closed t = false -> w_good t -> w_shape t -> settled rho t ->
  (forall e, In e (wpend rho t) -> sel (fst e) = true) ->
  (forall j, In j (cids C) -> sel j = false) ->
  Jrho rho V (plug C t) (g_f st) P Q ->
  Jrho rho V (plug C t') (g_f st')
     (filter (fun '(w', _) => negb (sel w')) P)
     (Q ++ map (fun '(_, k) => (k, None)) (filter (fun '(w', _) => sel w') P)).
Proof.
  intros H Hcl Hg Hsh Hst Hsel1 Hsel2 [J1 J2 J3 J4 J5].
  destruct (close_w_spec D old choose choose_rot G _ _ _ _ H Hg) as (Sg & Sl & Sc & Scl & _).
  destruct t' as [wid' cl' ch' tail' npn' pn' nc']. cbn [w_tail w_children w_closed] in Sl, Sc, Scl. subst ch' cl'.
  set (t' := Wr wid' true [] tail' npn' pn' nc') in *.
  destruct (closed_folds rho wid' tail' npn' pn' nc') as (Ex & Ep & Er). fold t' in Ex, Ep, Er.
  assert (wsize rho t' = wsize rho t) as Esize.
  { rewrite (settled_size rho t Hst). unfold t'. cbn [wsize]. destruct wid'; cbn [named_open map list_sum]; rewrite Sl; reflexivity. }
  assert (forall off, wlay rho off t' = wlay rho off t) as Elay.
  { intros off. rewrite (settled_lay rho t Hst). unfold wlay, t'. rewrite wfold_eq. cbn [lfold app]. unfold loc_lay, sizes.
    cbn [map list_sum]. rewrite Nat.add_0_r, Sl. reflexivity. }
  (* the heap *)
  assert (HInv V (f_heap (g_f st)) (wx rho t ++ cx rho C)) as HI by (apply (HInv_perm _ _ _ _ (wx_plug rho C t)); exact J1).
  destruct (close_heap rho V t _ _ _ _ H Hcl Hg Hsh Hst HI) as (A1 & A2 & A3).
  pose proof (wreq_plug rho C t) as Pq. pose proof (wreq_plug rho C t') as Pq'. rewrite Esize, Er in Pq'. cbn [app] in Pq'.
  constructor.
  - apply (HInv_perm _ _ (cx rho C)); [|exact A1]. rewrite wx_plug, Ex. reflexivity.
  - apply (Permutation_Forall (Permutation_sym Pq')). apply (Permutation_Forall Pq) in J2. apply Forall_app in J2. apply J2.
  - apply (Permutation_NoDup (Permutation_map fst (Permutation_sym Pq'))).
    apply (Permutation_NoDup (Permutation_map fst Pq)) in J3. rewrite map_app in J3. exact (NoDup_app_remove_l _ _ J3).
  - apply Permutation_trans with (filter (fun '(w', _) => negb (sel w')) (wpend rho (plug C t)));
      [apply Permutation_filter'; exact J4|].
    rewrite (Permutation_filter' _ _ _ (wpend_plug rho C t)), wpend_plug, Ep, filter_app. cbn [app].
    rewrite (filter_false _ (wpend rho t)), (filter_true _ (cpend rho C)); [reflexivity|..].
    + intros [j k] Hy. apply negb_true_iff. exact (Hsel2 _ (cpend_ids rho C _ Hy)).
    + intros [j k] Hy. apply negb_false_iff. exact (Hsel1 _ Hy).
  - destruct J5 as (L0 & PL & FL).
    assert (Permutation (filter (fun '(w', _) => sel w') P) (wpend rho t)) as Phit.
    { apply Permutation_trans with (filter (fun '(w', _) => sel w') (wpend rho (plug C t)));
        [apply Permutation_filter'; exact J4|].
      rewrite (Permutation_filter' _ _ _ (wpend_plug rho C t)), filter_app.
      rewrite (filter_true _ (wpend rho t)), (filter_false _ (cpend rho C)), app_nil_r; [reflexivity|..].
      - intros [j k] Hy. exact (Hsel2 _ (cpend_ids rho C _ Hy)).
      - intros [j k] Hy. exact (Hsel1 _ Hy). }
    assert (Permutation (wlay rho 0 (plug C t')) (wlay rho 0 (plug C t))) as Pl.
    { rewrite !wlay_plug, Esize, Elay. reflexivity. }
    exists (L0 ++ map (fun '(_, k) => (k, (-1)%Z)) (filter (fun '(w', _) => sel w') P)). split.
    + rewrite A3, app_assoc. apply Permutation_app; [exact PL|].
      rewrite (Permutation_map (fun '(_, k) => (k, (-1)%Z)) Phit). apply Permutation_refl'. apply map_ext. intros [j k]. reflexivity.
    + apply Forall2_app.
      * apply (Forall2_impl' (Rq rho (plug C t))); [|exact FL]. intros [k0 o] [k' v] [E1 E2]. split; [exact E1|].
        cbn [snd] in *. destruct o as [q|]; [|exact E2]. destruct E2 as (pos & Hin & Ev). exists pos. split; [|exact Ev].
        exact (Permutation_in _ (Permutation_sym Pl) Hin).
      * apply Forall2_maps. intros [j k] _. split; reflexivity.
Qed.

(* the invariant for every choice of final sizes *)
Definition Jall (root : writer) (fs : fstate) (P : list (nat * nat)) (Q : list (nat * option nat)) : Prop :=
  forall rho, exists V, Jrho rho V root fs P Q.

Lemma Jrho_ext rho rho' V root fs P Q : (forall j, In j (woids root) -> rho j = rho' j) ->
  Jrho rho V root fs P Q -> Jrho rho' V root fs P Q.
Proof.
  intros H [J1 J2 J3 J4 J5]. destruct (folds_ext rho rho' root H) as (_ & E1 & E2 & E3 & E4).
  constructor; rewrite <- ?E2, <- ?E3, <- ?E4; auto.
  destruct J5 as (L0 & PL & FL). exists L0. split; [exact PL|].
  apply (Forall2_impl' (Rq rho root)); [|exact FL]. intros [k0 o] [k' v] [A B]. split; [exact A|].
  cbn [snd] in *. destruct o as [q|]; [|exact B]. cbn [Rv] in *. rewrite <- E1. exact B.
Qed.

Lemma close_Jall C t t' st st' P Q (sel : nat -> bool) :
  close_w t st = Ok (t', st') -> w_closed t = false -> w_good t -> w_shape t ->
  NoDup (wids (plug C t)) ->
  (forall rho e, In e (wpend rho t) -> sel (fst e) = true) ->
  (forall j, In j (cids C) -> sel j = false) ->
  Jall (plug C t) (g_f st) P Q ->
  Jall (plug C t') (g_f st')
     (filter (fun '(w', _) => negb (sel w')) P)
     (Q ++ map (fun '(_, k) => (k, None)) (filter (fun '(w', _) => sel w') P)).
Proof.
  intros H Hcl Hg Hsh Hnd Hsel1 Hsel2 HJ rho'.
  pose proof (Permutation_NoDup (wids_plug C t) Hnd) as Hnd2.
  destruct (settle rho' t (NoDup_app_remove_r _ _ Hnd2)) as (rho & Hst & Hout).
  destruct (HJ rho) as (V & J). exists V.
  apply (Jrho_ext rho rho'); [|exact (close_J rho V C t t' st st' P Q sel H Hcl Hg Hsh Hst (Hsel1 rho) Hsel2 J)].
  intros j Hj. apply Hout. intros Hjt.
  apply (Permutation_in _ (woids_plug C t')) in Hj.
  destruct (close_w_spec D old choose choose_rot G _ _ _ _ H Hg) as (_ & _ & Sc & Scl & _).
  destruct t' as [wid' cl' ch' tail' npn' pn' nc']. cbn [w_children w_closed] in Sc, Scl. subst ch' cl'.
  cbn [woids flat_map] in Hj. destruct wid'; cbn [named_open app] in Hj; apply coids_sub in Hj;
    exact (NoDup_app_disjoint _ _ Hnd2 j Hjt Hj).
Qed.

End Ops.
