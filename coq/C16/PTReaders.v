(* C16 - the readers on a tree with correct /Count entries: GetPage(i) is the i-th page of
   Iterator.All, NumPages is their number; soundness of the validator. *)
From Coq Require Import List Arith Bool ZArith Lia.
From GoPdf.Base Require Import Res.
From GoPdf.C16 Require Import PageTree PTBasics.
Import ListNotations.

Section Readers.
Variable D : nat.
Variable old : bool.

Notation iterate := (iterate old).
Notation get_page := (get_page old).

Inductive cnt_ok : node -> Prop :=
| co_page r p a : cnt_ok (Page r p a)
| co_pages r p a c kids : c = count_leaves (Pages r p a c kids) -> Forall cnt_ok kids -> cnt_ok (Pages r p a c kids).

Lemma sub_ok_cnt n : forall p, sub_ok D p n = true -> cnt_ok n.
Proof.
  induction n as [r p0 a|r p0 a c kids IH] using node_ind'; intros p H; [constructor|].
  cbn [sub_ok] in H. apply andb_prop in H as [_ H]. apply andb_prop in H as [H H0]. apply andb_prop in H as [H _].
  apply andb_prop in H as [H _]. apply Nat.eqb_eq in H.
  constructor; [exact H|]. rewrite forallb_forall in H0. rewrite Forall_forall in *. intros k Hk. eapply IH; eauto.
Qed.

Lemma root_ok_cnt n : root_ok D n = true -> cnt_ok n.
Proof.
  destruct n as [|r p a c kids]; [discriminate|]. cbn [root_ok]. intros H.
  apply andb_prop in H as [H H0]. apply andb_prop in H as [H _]. apply andb_prop in H as [H _]. apply andb_prop in H as [_ H3].
  apply Nat.eqb_eq in H3.
  constructor; [exact H3|]. rewrite forallb_forall in H0. rewrite Forall_forall. intros k Hk. eapply sub_ok_cnt; eauto.
Qed.

Lemma length_iterate n : forall inh, length (iterate n inh) = count_leaves n.
Proof.
  induction n as [r p a|r p a c kids IH] using node_ind'; intros inh; [reflexivity|].
  cbn [PageTree.iterate count_leaves]. induction kids as [|k ks IHk]; [reflexivity|].
  inversion IH; subst. cbn [flat_map fold_right]. rewrite app_length, H1, IHk by assumption. reflexivity.
Qed.

(* the loop of GetPage over the kids of a node *)
Section Loop.
Variable ctx : attrs.
Fixpoint gp_list (l : list node) (skip : nat) : option (ref * attrs) :=
  match l with
  | [] => None
  | k :: r =>
    match k with
    | Page _ _ _ => if skip =? 0 then get_page k 0 ctx else gp_list r (skip - 1)
    | Pages _ _ _ c' _ => if skip <? c' then get_page k skip ctx else gp_list r (skip - c')
    end
  end.
End Loop.

Lemma get_page_pages r p a c kids skip inh :
  get_page (Pages r p a c kids) skip inh = if skip <? c then gp_list (push_attrs old inh a) kids skip else None.
Proof. reflexivity. Qed.

Lemma get_page_nth n : cnt_ok n -> forall skip inh, get_page n skip inh = nth_error (iterate n inh) skip.
Proof.
  induction n as [r p a|r p a c kids IH] using node_ind'; intros Hc skip inh.
  - cbn. destruct skip; [reflexivity|]. cbn. destruct skip; reflexivity.
  - inversion Hc as [|? ? ? ? ? Hcnt Hk]; subst. rewrite get_page_pages. cbn [PageTree.iterate].
    set (ctx := push_attrs old inh a).
    assert (forall l s, Forall cnt_ok l -> Forall (fun n => cnt_ok n -> forall skip inh, get_page n skip inh = nth_error (iterate n inh) skip) l ->
              gp_list ctx l s = nth_error (flat_map (fun k => iterate k ctx) l) s) as Hl.
    { clear. induction l as [|k ks IHl]; intros s Hc HP; [destruct s; reflexivity|].
      inversion Hc as [|? ? Hck Hcks]; subst. inversion HP as [|? ? Pk Pks]; subst. cbn [gp_list flat_map].
      pose proof (length_iterate k ctx) as Hlen.
      destruct k as [r1 p1 a1|r1 p1 a1 c kids].
      - cbn in Hlen. destruct (s =? 0) eqn:E.
        + apply Nat.eqb_eq in E. subst s. rewrite (Pk Hck). reflexivity.
        + apply Nat.eqb_neq in E. rewrite nth_error_app2 by (cbn; lia). cbn [PageTree.iterate length].
          rewrite IHl by assumption. reflexivity.
      - inversion Hck as [|? ? ? ? ? Hcc _]; subst. rewrite <- Hcc in Hlen.
        destruct (s <? c) eqn:E.
        + apply Nat.ltb_lt in E. rewrite nth_error_app1 by lia. apply Pk. exact Hck.
        + apply Nat.ltb_ge in E. rewrite nth_error_app2 by lia. rewrite Hlen. apply IHl; assumption. }
    destruct (skip <? c) eqn:E.
    + apply Hl; assumption.
    + apply Nat.ltb_ge in E. symmetry. apply nth_error_None.
      pose proof (length_iterate (Pages r p a c kids) inh) as Hlen. cbn [PageTree.iterate] in Hlen. fold ctx in Hlen. rewrite Hlen, <- Hcnt. exact E.
Qed.

(* what the validator's comparison of pages means *)
Definition eff_same (a b : attrs) : Prop :=
  a KMediaBox = b KMediaBox /\ a KCropBox = b KCropBox /\ norm_rot (a KRotate) = norm_rot (b KRotate) /\
  (old = true -> a KAA = b KAA) /\ a KResources = b KResources.

Lemma eff_eqb_same a b : eff_eqb old a b = true -> eff_same a b.
Proof.
  unfold eff_eqb, eff_same. intros H. repeat (apply andb_prop in H as [H ?]).
  apply opt_eqb_eq in H, H0, H2, H3. splits; auto. intros ->. apply opt_eqb_eq. exact H1.
Qed.

Lemma pages_eqb_sound got expected : pages_eqb old got expected = true ->
  Forall2 (fun g e => fst g = fst e /\ eff_same (snd g) (snd e)) got expected.
Proof.
  revert expected. induction got as [|[r a] got IH]; intros [|[r' a'] expected] H; try discriminate; [constructor|].
  cbn [pages_eqb] in H. apply andb_prop in H as [H H3]. apply andb_prop in H as [H1 H2].
  apply ref_eqb_eq in H1. constructor; [split; [exact H1|apply eff_eqb_same; exact H2]|apply IH; exact H3].
Qed.

(* the certified validator *)
Theorem ptree_ok_sound_l expected root : ptree_ok D old expected root = true ->
  root_ok D root = true /\
  Forall2 (fun g e => fst g = fst e /\ eff_same (snd g) (snd e)) (iterate root a_empty) expected /\
  num_pages root = length expected /\
  (forall i, get_page root i a_empty = nth_error (iterate root a_empty) i).
Proof.
  unfold ptree_ok. intros H. apply andb_prop in H as [H1 H2]. pose proof (pages_eqb_sound _ _ H2) as HF.
  splits; auto.
  - destruct root as [|r p a c kids]; [discriminate|]. cbn [num_pages]. cbn [root_ok] in H1.
    apply andb_prop in H1 as [H1 _]. apply andb_prop in H1 as [H1 _]. apply andb_prop in H1 as [H1 _]. apply andb_prop in H1 as [_ H4].
    apply Nat.eqb_eq in H4. rewrite H4, <- (length_iterate _ a_empty).
    clear - HF. induction HF; cbn; congruence.
  - intros i. apply get_page_nth. apply root_ok_cnt. exact H1.
Qed.

End Readers.
