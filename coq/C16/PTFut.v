(* C16 - futureInt as a network of sums: every cell has a value V it will report; what has not
   arrived yet is in flight (an Update stored as a callback in another cell, or owed by a range
   that is still open).  Update / WhenAvailable / Inc keep this reading, and a user callback
   stored in a cell is eventually called with the value of that cell. *)
From Coq Require Import List Arith Bool ZArith Lia Permutation.
From GoPdf.Base Require Import Res.
From GoPdf.C16 Require Import PageTree PTBasics PTTails PTFuel2 PTSafe.
Import ListNotations.
Local Open Scope Z_scope.

(* ---- lists of (cell, value): how many entries go to a cell, and what they sum to *)
Notation ent := (nat * Z)%type.
Definition tgt (c : nat) (e : ent) : bool := (fst e =? c)%nat.
Definition cnt (P : list ent) (c : nat) : nat := length (filter (tgt c) P).
Definition sm (P : list ent) (c : nat) : Z := fold_right Z.add 0 (map snd (filter (tgt c) P)).

Lemma sumz_app (a b : list Z) : fold_right Z.add 0 (a ++ b) = fold_right Z.add 0 a + fold_right Z.add 0 b.
Proof. induction a as [|x a IH]; [reflexivity|]. cbn [app fold_right]. rewrite IH. lia. Qed.
Lemma cnt_app P Q c : cnt (P ++ Q) c = (cnt P c + cnt Q c)%nat.
Proof. unfold cnt. rewrite filter_app, app_length. reflexivity. Qed.
Lemma sm_app P Q c : sm (P ++ Q) c = sm P c + sm Q c.
Proof.
  unfold sm. rewrite filter_app, map_app. apply sumz_app.
Qed.
Lemma cnt_perm P Q c : Permutation P Q -> cnt P c = cnt Q c.
Proof.
  unfold cnt. induction 1 as [|x l l' _ IH|x y l|l l' l'' _ IH1 _ IH2]; cbn; try congruence.
  - destruct (tgt c x); cbn; congruence.
  - destruct (tgt c x), (tgt c y); reflexivity.
Qed.
Lemma sm_perm P Q c : Permutation P Q -> sm P c = sm Q c.
Proof.
  unfold sm. induction 1 as [|x l l' _ IH|x y l|l l' l'' _ IH1 _ IH2]; cbn; try congruence.
  - destruct (tgt c x); cbn; congruence.
  - destruct (tgt c x), (tgt c y); cbn; lia.
Qed.
Lemma cnt_cons_eq c v P : cnt ((c, v) :: P) c = S (cnt P c).
Proof. unfold cnt, tgt. cbn. rewrite Nat.eqb_refl. reflexivity. Qed.
Lemma sm_cons_eq c v P : sm ((c, v) :: P) c = v + sm P c.
Proof. unfold sm, tgt. cbn. rewrite Nat.eqb_refl. reflexivity. Qed.
Lemma cnt_cons_neq c c' v P : c' <> c -> cnt ((c', v) :: P) c = cnt P c.
Proof. intros H. unfold cnt, tgt. cbn. apply Nat.eqb_neq in H. rewrite H. reflexivity. Qed.
Lemma sm_cons_neq c c' v P : c' <> c -> sm ((c', v) :: P) c = sm P c.
Proof. intros H. unfold sm, tgt. cbn. apply Nat.eqb_neq in H. rewrite H. reflexivity. Qed.
Lemma cnt0_sm0 P c : cnt P c = 0%nat -> sm P c = 0.
Proof. unfold cnt, sm. destruct (filter (tgt c) P); [reflexivity|discriminate]. Qed.
Lemma cnt0_notin P c : (forall e, In e P -> fst e <> c) -> cnt P c = 0%nat.
Proof.
  intros H. unfold cnt. induction P as [|e P IH]; [reflexivity|]. cbn. unfold tgt at 1.
  destruct (Nat.eqb_spec (fst e) c) as [E|E]; [exfalso; exact (H e (or_introl eq_refl) E)|].
  apply IH. intros e' He'. apply H. right. exact He'.
Qed.

(* ---- what the callbacks stored in a heap stand for *)
Fixpoint upd_of (v : Z) (l : list cb) : list ent :=
  match l with
  | [] => []
  | CbUpd c :: r => (c, v) :: upd_of v r
  | CbUser _ :: r => upd_of v r
  end.
Fixpoint usr_of (v : Z) (l : list cb) : list ent :=
  match l with
  | [] => []
  | CbUser k :: r => (k, v) :: usr_of v r
  | CbUpd _ :: r => usr_of v r
  end.

Lemma upd_of_app v a b : upd_of v (a ++ b) = upd_of v a ++ upd_of v b.
Proof. induction a as [|[k|c] a IH]; cbn [app upd_of]; rewrite ?IH; reflexivity. Qed.
Lemma usr_of_app v a b : usr_of v (a ++ b) = usr_of v a ++ usr_of v b.
Proof. induction a as [|[k|c] a IH]; cbn [app usr_of]; rewrite ?IH; reflexivity. Qed.
Lemma upd_of_in v l e : In e (upd_of v l) -> In (CbUpd (fst e)) l /\ snd e = v.
Proof.
  induction l as [|[k|c] l IH]; cbn; [tauto| |].
  - intros H. destruct (IH H). auto.
  - intros [<-|H]; [cbn; auto|]. destruct (IH H). auto.
Qed.

Section Pend.
Variable V : nat -> Z.

Fixpoint pend_from (i : nat) (h : list cell) : list ent :=
  match h with [] => [] | cl :: r => upd_of (V i) (c_cbs cl) ++ pend_from (S i) r end.
Fixpoint upend_from (i : nat) (h : list cell) : list ent :=
  match h with [] => [] | cl :: r => usr_of (V i) (c_cbs cl) ++ upend_from (S i) r end.
Definition pend (h : list cell) := pend_from 0 h.
Definition upend (h : list cell) := upend_from 0 h.

(* the contribution of one cell, isolated *)
Lemma pend_from_split i h c cl : nth_error h c = Some cl ->
  exists A B, pend_from i h = A ++ upd_of (V (i + c)%nat) (c_cbs cl) ++ B /\
    forall cl', pend_from i (set_nth c cl' h) = A ++ upd_of (V (i + c)%nat) (c_cbs cl') ++ B.
Proof.
  revert i c. induction h as [|x h IH]; intros i c H; [destruct c; discriminate|].
  destruct c as [|c]; cbn in H.
  - injection H as ->. exists [], (pend_from (S i) h). rewrite Nat.add_0_r. cbn. auto.
  - destruct (IH (S i) c H) as (A & B & E1 & E2). exists (upd_of (V i) (c_cbs x) ++ A), B.
    replace (i + S c)%nat with (S i + c)%nat by lia. cbn [pend_from set_nth]. split.
    + rewrite E1, app_assoc. reflexivity.
    + intros cl'. rewrite E2, app_assoc. reflexivity.
Qed.
Lemma upend_from_split i h c cl : nth_error h c = Some cl ->
  exists A B, upend_from i h = A ++ usr_of (V (i + c)%nat) (c_cbs cl) ++ B /\
    forall cl', upend_from i (set_nth c cl' h) = A ++ usr_of (V (i + c)%nat) (c_cbs cl') ++ B.
Proof.
  revert i c. induction h as [|x h IH]; intros i c H; [destruct c; discriminate|].
  destruct c as [|c]; cbn in H.
  - injection H as ->. exists [], (upend_from (S i) h). rewrite Nat.add_0_r. cbn. auto.
  - destruct (IH (S i) c H) as (A & B & E1 & E2). exists (usr_of (V i) (c_cbs x) ++ A), B.
    replace (i + S c)%nat with (S i + c)%nat by lia. cbn [upend_from set_nth]. split.
    + rewrite E1, app_assoc. reflexivity.
    + intros cl'. rewrite E2, app_assoc. reflexivity.
Qed.

Lemma pend_split h c cl : nth_error h c = Some cl ->
  exists A B, pend h = A ++ upd_of (V c) (c_cbs cl) ++ B /\
    forall cl', pend (set_nth c cl' h) = A ++ upd_of (V c) (c_cbs cl') ++ B.
Proof. apply (pend_from_split 0). Qed.
Lemma upend_split h c cl : nth_error h c = Some cl ->
  exists A B, upend h = A ++ usr_of (V c) (c_cbs cl) ++ B /\
    forall cl', upend (set_nth c cl' h) = A ++ usr_of (V c) (c_cbs cl') ++ B.
Proof. apply (upend_from_split 0). Qed.

Lemma pend_from_app i a b : pend_from i (a ++ b) = pend_from i a ++ pend_from (i + length a)%nat b.
Proof.
  revert i. induction a as [|x a IH]; intros i; cbn; [rewrite Nat.add_0_r; reflexivity|].
  rewrite IH, app_assoc. replace (S i + length a)%nat with (i + S (length a))%nat by lia. reflexivity.
Qed.
Lemma upend_from_app i a b : upend_from i (a ++ b) = upend_from i a ++ upend_from (i + length a)%nat b.
Proof.
  revert i. induction a as [|x a IH]; intros i; cbn; [rewrite Nat.add_0_r; reflexivity|].
  rewrite IH, app_assoc. replace (S i + length a)%nat with (i + S (length a))%nat by lia. reflexivity.
Qed.

(* every entry comes from a stored callback *)
Lemma pend_from_in i h e : In e (pend_from i h) ->
  exists c cl, nth_error h c = Some cl /\ In (CbUpd (fst e)) (c_cbs cl) /\ snd e = V (i + c)%nat.
Proof.
  revert i. induction h as [|x h IH]; intros i H; [destruct H|]. cbn in H. apply in_app_or in H as [H|H].
  - apply upd_of_in in H as [H1 H2]. exists 0%nat, x. rewrite Nat.add_0_r. auto.
  - destruct (IH _ H) as (c & cl & E1 & E2 & E3). exists (S c), cl. replace (i + S c)%nat with (S i + c)%nat by lia. auto.
Qed.

End Pend.

(* only the values of cells that hold callbacks matter *)
Lemma pend_from_ext V V' i h :
  (forall c cl, nth_error h c = Some cl -> c_cbs cl <> [] -> V' (i + c)%nat = V (i + c)%nat) ->
  pend_from V' i h = pend_from V i h /\ upend_from V' i h = upend_from V i h.
Proof.
  revert i. induction h as [|x h IH]; intros i H; [auto|]. cbn [pend_from upend_from].
  destruct (IH (S i)) as [E1 E2].
  { intros c cl Hc Hne. replace (S i + c)%nat with (i + S c)%nat by lia. apply (H (S c) cl Hc Hne). }
  rewrite E1, E2. destruct (c_cbs x) as [|k r] eqn:Ek; [auto|].
  pose proof (H 0%nat x eq_refl) as H0. rewrite Nat.add_0_r in H0. rewrite H0 by (rewrite Ek; discriminate). auto.
Qed.
Lemma pend_ext V V' h : (forall c cl, nth_error h c = Some cl -> c_cbs cl <> [] -> V' c = V c) ->
  pend V' h = pend V h /\ upend V' h = upend V h.
Proof. intros H. apply (pend_from_ext V V' 0 h). exact H. Qed.

(* ---- the invariant: X = the updates that are owed from outside the heap, or in flight *)
Definition cell_ok (V : nat -> Z) (P : list ent) (c : nat) (cl : cell) : Prop :=
  c_missing cl = Z.of_nat (cnt P c) /\ V c = c_val cl + sm P c /\ 0 <= c_val cl /\
  (c_missing cl = 0 -> c_cbs cl = []).

Definition ent_ok (n : nat) (e : ent) : Prop := (fst e < n)%nat /\ 0 <= snd e.

Definition HInv (V : nat -> Z) (h : list cell) (X : list ent) : Prop :=
  heap_wf h /\ Forall (ent_ok (length h)) X /\
  forall c cl, nth_error h c = Some cl -> cell_ok V (pend V h ++ X) c cl /\ 0 <= V c.

Lemma perm_swap {A} (a b c : list A) : Permutation (a ++ b ++ c) (b ++ a ++ c).
Proof. rewrite !app_assoc. apply Permutation_app_tail. apply Permutation_app_comm. Qed.

Lemma cell_ok_perm V P Q c cl : Permutation P Q -> cell_ok V P c cl -> cell_ok V Q c cl.
Proof. intros HP (A & B & C & E). unfold cell_ok. rewrite <- (cnt_perm _ _ c HP), <- (sm_perm _ _ c HP). auto. Qed.

Lemma HInv_perm V h X Y : Permutation X Y -> HInv V h X -> HInv V h Y.
Proof.
  intros HP (A & B & C). split; [exact A|]. split.
  - eapply Permutation_Forall; eauto.
  - intros c cl H. destruct (C c cl H) as [C1 C2]. split; [|exact C2]. eapply cell_ok_perm; [|exact C1]. apply Permutation_app_head. exact HP.
Qed.

Lemma upd_of_ent_ok n c v l : Forall (cb_in n c) l -> 0 <= v -> Forall (ent_ok n) (upd_of v l).
Proof.
  intros H Hv. induction H as [|[k|c'] l Hk _ IH]; cbn; [constructor|exact IH|].
  constructor; [|exact IH]. split; cbn in *; lia.
Qed.

(* Update(n) on cell c, n being one of the updates in flight *)
Lemma f_update_inv V fuel : forall fs c n X fs',
  HInv V (f_heap fs) ((c, n) :: X) -> f_update fuel fs c n = Ok fs' ->
  HInv V (f_heap fs') X /\ length (f_heap fs') = length (f_heap fs) /\
  Permutation (f_log fs' ++ upend V (f_heap fs')) (f_log fs ++ upend V (f_heap fs)).
Proof.
  induction fuel as [|fuel IH]; intros fs c n X fs' HI H; [discriminate|]. cbn [f_update] in H.
  destruct HI as (Hwf & HX & Hcells).
  inversion HX as [|? ? [Hc Hn] HX']; subst. cbn [fst snd] in Hc, Hn.
  destruct (nth_error (f_heap fs) c) as [cl|] eqn:Ec; [|discriminate].
  destruct (Hcells c cl Ec) as ((Km & Kv & K0 & Kc) & Kp).
  rewrite cnt_app, cnt_cons_eq in Km. rewrite sm_app, sm_cons_eq in Kv.
  assert ((n <? 0) = false) as En by (apply Z.ltb_ge; exact Hn).
  assert ((c_val cl <? 0) = false) as Ev by (apply Z.ltb_ge; exact K0).
  rewrite En, Ev in H. cbn [orb] in H.
  assert ((c_val cl + n <? 0) = false) as Evn by (apply Z.ltb_ge; lia). rewrite Evn, orb_false_r in H.
  destruct (pend_split V _ _ _ Ec) as (PA & PB & EP & EP').
  destruct (upend_split V _ _ _ Ec) as (UA & UB & EU & EU').
  (* what an entry for another cell sees *)
  assert (forall c2 P, c2 <> c -> cnt (P ++ (c, n) :: X) c2 = cnt (P ++ X) c2 /\ sm (P ++ (c, n) :: X) c2 = sm (P ++ X) c2) as Hother.
  { intros c2 P Hne. rewrite !cnt_app, !sm_app, cnt_cons_neq, sm_cons_neq by congruence. auto. }
  destruct (c_missing cl - 1 =? 0) eqn:Em.
  - (* the value is complete: the callbacks run *)
    apply Z.eqb_eq in Em.
    assert (cnt (pend V (f_heap fs)) c + cnt X c = 0)%nat as Hz by lia.
    assert (sm (pend V (f_heap fs)) c = 0 /\ sm X c = 0) as [Hs1 Hs2] by (split; apply cnt0_sm0; lia).
    set (val := c_val cl + n) in *.
    assert (V c = val) as HVc by lia.
    set (h1 := set_nth c (mkCell val (c_missing cl - 1) []) (f_heap fs)) in *.
    assert (length h1 = length (f_heap fs)) as Hlen1 by apply set_nth_length.
    (* the loop over the callbacks *)
    assert (forall l fs1, HInv V (f_heap fs1) (upd_of val l ++ X) ->
              (fix fire (l : list cb) (fs : fstate) {struct l} : res fstate :=
                 match l with
                 | [] => Ok fs
                 | CbUser id :: r => fire r (mkF (f_heap fs) (f_log fs ++ [(id, val)]))
                 | CbUpd c' :: r => bind (f_update fuel fs c' val) (fire r)
                 end) l fs1 = Ok fs' ->
              HInv V (f_heap fs') X /\ length (f_heap fs') = length (f_heap fs1) /\
              Permutation (f_log fs' ++ upend V (f_heap fs')) (f_log fs1 ++ usr_of val l ++ upend V (f_heap fs1))) as Hloop.
    { clear - IH. induction l as [|[id|c'] r IHr]; intros fs1 HI1 Hf.
      - injection Hf as <-. cbn. auto.
      - cbn [upd_of] in HI1. destruct (IHr (mkF (f_heap fs1) (f_log fs1 ++ [(id, val)])) HI1 Hf) as (A & B & C). cbn [f_heap f_log] in *. splits; auto.
        rewrite C. cbn [usr_of]. rewrite <- app_assoc. reflexivity.
      - cbn [upd_of app] in HI1. apply bind_ok in Hf as (fs2 & Hu & Hf).
        destruct (IH _ _ _ _ _ HI1 Hu) as (A & B & C). destruct (IHr _ A Hf) as (A' & B' & C').
        splits; [exact A'|congruence|]. rewrite C'. cbn [usr_of].
        rewrite (perm_swap (f_log fs2)), (perm_swap (f_log fs1)). apply Permutation_app_head. exact C. }
    assert (HInv V h1 (upd_of val (c_cbs cl) ++ X)) as HI1.
    { split; [apply heap_wf_set; [exact Hwf|constructor]|]. split.
      - rewrite Hlen1. apply Forall_app. split; [|exact HX'].
        apply (upd_of_ent_ok _ c); [exact (Hwf c cl Ec)|lia].
      - intros c2 cl2 H2. unfold h1 in *. rewrite EP'. cbn [c_cbs upd_of app].
        destruct (Nat.eq_dec c2 c) as [->|Hne].
        + rewrite nth_error_set_nth_eq in H2 by exact Hc. injection H2 as <-. split; [|exact Kp].
          unfold cell_ok. cbn [c_missing c_val c_cbs].
          assert (Permutation (PA ++ PB ++ upd_of val (c_cbs cl) ++ X) (pend V (f_heap fs) ++ X)) as HP.
          { rewrite EP, HVc. rewrite <- !app_assoc. apply Permutation_app_head. rewrite !app_assoc.
            apply Permutation_app_tail. apply Permutation_app_comm. }
          rewrite <- app_assoc. rewrite (cnt_perm _ _ c HP), (sm_perm _ _ c HP), cnt_app, sm_app. splits; try lia. auto.
        + rewrite nth_error_set_nth_neq in H2 by congruence.
          assert (Permutation (PA ++ PB ++ upd_of val (c_cbs cl) ++ X) (pend V (f_heap fs) ++ X)) as HP.
          { rewrite EP, HVc. rewrite <- !app_assoc. apply Permutation_app_head. rewrite !app_assoc.
            apply Permutation_app_tail. apply Permutation_app_comm. }
          destruct (Hcells c2 cl2 H2) as ((Lm & Lv & L0 & Lc) & Lp). destruct (Hother c2 (pend V (f_heap fs)) Hne) as [O1 O2].
          split; [|exact Lp].
          unfold cell_ok. rewrite <- app_assoc. rewrite (cnt_perm _ _ c2 HP), (sm_perm _ _ c2 HP). rewrite O1 in Lm. rewrite O2 in Lv. auto. }
    destruct (Hloop (c_cbs cl) (mkF h1 (f_log fs)) HI1 H) as (A & B & C). cbn [f_heap f_log] in *.
    splits; [exact A|congruence|]. rewrite C. apply Permutation_app_head. unfold h1. rewrite EU, EU'. cbn [c_cbs usr_of app].
    rewrite HVc. rewrite (perm_swap UA). reflexivity.
  - (* still waiting *)
    apply Z.eqb_neq in Em. injection H as <-. cbn [f_heap f_log]. rewrite set_nth_length. splits; [|reflexivity|].
    + split; [apply heap_wf_set; [exact Hwf|exact (Hwf c cl Ec)]|]. split; [rewrite set_nth_length; exact HX'|].
      intros c2 cl2 H2. rewrite EP'. cbn [c_cbs]. rewrite <- EP. destruct (Nat.eq_dec c2 c) as [->|Hne].
      * rewrite nth_error_set_nth_eq in H2 by exact Hc. injection H2 as <-. split; [|exact Kp]. unfold cell_ok. cbn [c_missing c_val c_cbs].
        rewrite cnt_app, sm_app. splits; try lia.
      * rewrite nth_error_set_nth_neq in H2 by congruence. destruct (Hcells c2 cl2 H2) as ((Lm & Lv & L0 & Lc) & Lp).
        destruct (Hother c2 (pend V (f_heap fs)) Hne) as [O1 O2]. split; [|exact Lp]. unfold cell_ok. rewrite O1 in Lm. rewrite O2 in Lv. auto.
    + rewrite EU'. cbn [c_cbs]. rewrite <- EU. reflexivity.
Qed.

(* a cell whose value is complete reports V *)
Lemma known_val V h X c cl : HInv V h X -> nth_error h c = Some cl -> c_missing cl = 0 -> V c = c_val cl.
Proof.
  intros (_ & _ & H) Hc Hm. destruct (H c cl Hc) as ((A & B & _) & _).
  rewrite (cnt0_sm0 _ c) in B by lia. lia.
Qed.

(* WhenAvailable(cb) for a user callback: it will be called with V c *)
Lemma f_when_user_inv V fs c k X fs' : HInv V (f_heap fs) X -> f_when fs c (CbUser k) = Ok fs' ->
  HInv V (f_heap fs') X /\ length (f_heap fs') = length (f_heap fs) /\
  Permutation (f_log fs' ++ upend V (f_heap fs')) ((k, V c) :: f_log fs ++ upend V (f_heap fs)).
Proof.
  intros HI H. unfold f_when in H. destruct (nth_error (f_heap fs) c) as [cl|] eqn:Ec; [|discriminate].
  destruct (c_missing cl =? 0) eqn:Em.
  - apply Z.eqb_eq in Em. cbn [f_fire] in H. injection H as <-. cbn [f_heap f_log].
    rewrite (known_val _ _ _ _ _ HI Ec Em). splits; [exact HI|reflexivity|].
    rewrite <- app_assoc. cbn [app]. symmetry. apply Permutation_middle.
  - apply Z.eqb_neq in Em. injection H as <-. cbn [f_heap f_log]. rewrite set_nth_length.
    destruct HI as (Hwf & HX & Hcells).
    destruct (pend_split V _ _ _ Ec) as (PA & PB & EP & EP').
    destruct (upend_split V _ _ _ Ec) as (UA & UB & EU & EU').
    assert (pend V (set_nth c (mkCell (c_val cl) (c_missing cl) (c_cbs cl ++ [CbUser k])) (f_heap fs)) = pend V (f_heap fs)) as Epend.
    { rewrite EP', EP. cbn [c_cbs]. rewrite upd_of_app. cbn [upd_of]. rewrite app_nil_r. reflexivity. }
    splits; [|reflexivity|].
    + split; [|split; [rewrite set_nth_length; exact HX|]].
      * apply heap_wf_set; [exact Hwf|]. cbn [c_cbs]. apply Forall_app. split; [exact (Hwf c cl Ec)|constructor; [exact I|constructor]].
      * intros c2 cl2 H2. rewrite Epend. destruct (Nat.eq_dec c2 c) as [->|Hne].
        -- assert (c < length (f_heap fs))%nat as Hc by (apply nth_error_Some; congruence).
           rewrite nth_error_set_nth_eq in H2 by exact Hc. injection H2 as <-.
           destruct (Hcells c cl Ec) as ((A & B & C & _) & E). split; [|exact E]. unfold cell_ok. cbn [c_missing c_val c_cbs].
           splits; auto. intros; lia.
        -- rewrite nth_error_set_nth_neq in H2 by congruence. exact (Hcells c2 cl2 H2).
    + rewrite EU', EU. cbn [c_cbs]. rewrite usr_of_app. cbn [usr_of].
      rewrite <- !app_assoc. cbn [app].
      apply Permutation_trans with ((k, V c) :: f_log fs ++ UA ++ usr_of (V c) (c_cbs cl) ++ UB); [|reflexivity].
      symmetry. rewrite !app_assoc. apply Permutation_middle.
Qed.

(* WhenAvailable(x.Update): the update was owed, now it is stored in c (or delivered at once) *)
Lemma f_when_upd_inv V fs c t X fs' : HInv V (f_heap fs) ((t, V c) :: X) -> (c < t)%nat ->
  f_when fs c (CbUpd t) = Ok fs' ->
  HInv V (f_heap fs') X /\ length (f_heap fs') = length (f_heap fs) /\
  Permutation (f_log fs' ++ upend V (f_heap fs')) (f_log fs ++ upend V (f_heap fs)).
Proof.
  intros HI Hct H. unfold f_when in H. destruct (nth_error (f_heap fs) c) as [cl|] eqn:Ec; [|discriminate].
  destruct (c_missing cl =? 0) eqn:Em.
  - apply Z.eqb_eq in Em. cbn [f_fire] in H. rewrite (known_val _ _ _ _ _ HI Ec Em) in HI.
    exact (f_update_inv V _ _ _ _ _ _ HI H).
  - apply Z.eqb_neq in Em. injection H as <-. cbn [f_heap f_log]. rewrite set_nth_length.
    destruct HI as (Hwf & HX & Hcells). inversion HX as [|? ? [Ht Hv] HX']; subst. cbn [fst snd] in Ht, Hv.
    destruct (pend_split V _ _ _ Ec) as (PA & PB & EP & EP').
    destruct (upend_split V _ _ _ Ec) as (UA & UB & EU & EU').
    assert (Permutation (pend V (set_nth c (mkCell (c_val cl) (c_missing cl) (c_cbs cl ++ [CbUpd t])) (f_heap fs)) ++ X)
                        (pend V (f_heap fs) ++ (t, V c) :: X)) as HP.
    { rewrite EP', EP. cbn [c_cbs]. rewrite upd_of_app. cbn [upd_of]. rewrite <- !app_assoc. cbn [app].
      apply Permutation_app_head. apply Permutation_app_head. symmetry.
      apply Permutation_trans with ((t, V c) :: PB ++ X); [|reflexivity].
      symmetry. apply Permutation_middle. }
    splits; [|reflexivity|].
    + split; [|split; [rewrite set_nth_length; exact HX'|]].
      * apply heap_wf_set; [exact Hwf|]. cbn [c_cbs]. apply Forall_app. split; [exact (Hwf c cl Ec)|].
        constructor; [cbn; lia|constructor].
      * intros c2 cl2 H2. destruct (Nat.eq_dec c2 c) as [->|Hne].
        -- assert (c < length (f_heap fs))%nat as Hc by (apply nth_error_Some; congruence).
           rewrite nth_error_set_nth_eq in H2 by exact Hc. injection H2 as <-.
           destruct (Hcells c cl Ec) as (A & E). split; [|exact E].
           apply (cell_ok_perm _ _ _ _ _ (Permutation_sym HP)). destruct A as (A1 & A2 & A3 & _).
           unfold cell_ok. cbn [c_missing c_val c_cbs]. splits; auto. intros; lia.
        -- rewrite nth_error_set_nth_neq in H2 by congruence. destruct (Hcells c2 cl2 H2) as (A & E). split; [|exact E].
           apply (cell_ok_perm _ _ _ _ _ (Permutation_sym HP)). exact A.
    + rewrite EU', EU. cbn [c_cbs]. rewrite usr_of_app. cbn [usr_of]. rewrite app_nil_r. reflexivity.
Qed.

Lemma cnt_all c E : Forall (fun e : ent => fst e = c) E ->
  cnt E c = length E /\ sm E c = fold_right Z.add 0 (map snd E).
Proof.
  induction 1 as [|e E He _ [IH1 IH2]]; [auto|]. destruct e as [c0 v]. cbn [fst] in He. subst c0.
  rewrite cnt_cons_eq, sm_cons_eq, IH1, IH2. auto.
Qed.

(* the entries stored in a well-formed heap go to cells of the heap *)
Lemma pend_tgt V h e : heap_wf h -> In e (pend V h) -> (fst e < length h)%nat.
Proof.
  intros Hwf H. apply pend_from_in in H as (c & cl & E1 & E2 & _).
  pose proof (Hwf c cl E1) as Hf. rewrite Forall_forall in Hf. specialize (Hf _ E2). cbn in Hf. lia.
Qed.

(* a new cell: what it waits for is listed in E *)
Lemma HInv_new V V' h X cl E : HInv V h X -> (forall i, (i < length h)%nat -> V' i = V i) ->
  c_cbs cl = [] -> 0 <= c_val cl ->
  Forall (fun e : ent => fst e = length h /\ 0 <= snd e) E -> c_missing cl = Z.of_nat (length E) ->
  V' (length h) = c_val cl + fold_right Z.add 0 (map snd E) ->
  HInv V' (h ++ [cl]) (E ++ X).
Proof.
  intros (Hwf & HX & Hcells) HV Hcb Hval HE Hm HVn.
  assert (pend V' (h ++ [cl]) = pend V h) as Epend.
  { unfold pend. rewrite pend_from_app. cbn [pend_from]. rewrite Hcb. cbn [upd_of app]. rewrite app_nil_r.
    apply (pend_ext V V' h). intros c cl0 Hc _. apply HV. apply nth_error_Some. congruence. }
  assert (heap_wf (h ++ [cl])) as Hwf'.
  { exact (proj1 (f_new_safe (mkF h []) cl Hwf Hcb)). }
  split; [exact Hwf'|]. rewrite app_length. cbn [length]. split.
  - apply Forall_app. split.
    + eapply Forall_impl; [|exact HE]. intros e [A B]. split; [lia|exact B].
    + eapply Forall_impl; [|exact HX]. intros e [A B]. split; [lia|exact B].
  - intros c cl0 Hc. rewrite Epend.
    assert (forall c0, (c0 < length h)%nat -> cnt E c0 = 0%nat) as HE0.
    { intros c0 Hc0. apply cnt0_notin. intros e He. rewrite Forall_forall in HE. destruct (HE e He). lia. }
    destruct (Nat.lt_ge_cases c (length h)) as [Hl|Hl].
    + rewrite nth_error_app1 in Hc by exact Hl. destruct (Hcells c cl0 Hc) as ((A1 & A2 & A3 & A4) & A5).
      rewrite HV by exact Hl. split; [|exact A5]. unfold cell_ok.
      rewrite !cnt_app, !sm_app in *. rewrite (HE0 c Hl), (cnt0_sm0 E c (HE0 c Hl)). rewrite HV by exact Hl. splits; auto; lia.
    + rewrite nth_error_app2 in Hc by exact Hl. destruct (c - length h)%nat as [|d] eqn:Ed; [|destruct d; discriminate].
      injection Hc as <-. assert (c = length h) as -> by lia.
      assert (cnt (pend V h) (length h) = 0%nat) as Z1.
      { apply cnt0_notin. intros e He. pose proof (pend_tgt V h e Hwf He). lia. }
      assert (cnt X (length h) = 0%nat) as Z2.
      { apply cnt0_notin. intros e He. rewrite Forall_forall in HX. destruct (HX e He). lia. }
      destruct (cnt_all (length h) E) as [C1 C2]; [eapply Forall_impl; [|exact HE]; intros e [A _]; exact A|].
      assert (0 <= fold_right Z.add 0 (map snd E)) as Hsum.
      { clear - HE. induction HE as [|e E [_ He] _ IH]; cbn; lia. }
      split; [|lia]. unfold cell_ok. rewrite !cnt_app, !sm_app, Z1, Z2, C1, C2, (cnt0_sm0 _ _ Z1), (cnt0_sm0 _ _ Z2).
      splits; try lia. intros _. exact Hcb.
Qed.

Lemma upend_new V V' h cl : (forall i, (i < length h)%nat -> V' i = V i) -> c_cbs cl = [] ->
  upend V' (h ++ [cl]) = upend V h.
Proof.
  intros HV Hcb. unfold upend. rewrite upend_from_app. cbn [upend_from]. rewrite Hcb. cbn [usr_of app]. rewrite app_nil_r.
  apply (pend_ext V V' h). intros c cl0 Hc _. apply HV. apply nth_error_Some. congruence.
Qed.

Definition bump (V : nat -> Z) (c : nat) (v : Z) : nat -> Z := fun i => if (i =? c)%nat then v else V i.

(* Inc in place: nobody waits for the cell, so its value may still change *)
Lemma HInv_inc V h X c cl : HInv V h X -> nth_error h c = Some cl -> c_cbs cl = [] ->
  HInv (bump V c (V c + 1)) (set_nth c (mkCell (c_val cl + 1) (c_missing cl) []) h) X /\
  upend (bump V c (V c + 1)) (set_nth c (mkCell (c_val cl + 1) (c_missing cl) []) h) = upend V h.
Proof.
  intros (Hwf & HX & Hcells) Hc Hcb.
  set (V' := bump V c (V c + 1)). set (h' := set_nth c (mkCell (c_val cl + 1) (c_missing cl) []) h).
  assert (c < length h)%nat as Hlt by (apply nth_error_Some; congruence).
  destruct (pend_split V _ _ _ Hc) as (PA & PB & EP & EP').
  destruct (upend_split V _ _ _ Hc) as (UA & UB & EU & EU').
  assert (pend V' h' = pend V h' /\ upend V' h' = upend V h') as [E1 E2].
  { apply pend_ext. intros c2 cl2 H2 Hne. unfold V', bump. destruct (Nat.eqb_spec c2 c) as [->|]; [|reflexivity].
    unfold h' in H2. rewrite nth_error_set_nth_eq in H2 by exact Hlt. injection H2 as <-. cbn in Hne. congruence. }
  assert (pend V h' = pend V h) as E3 by (unfold h'; rewrite EP', EP, Hcb; reflexivity).
  assert (upend V h' = upend V h) as E4 by (unfold h'; rewrite EU', EU, Hcb; reflexivity).
  split; [|congruence]. split; [apply heap_wf_set; [exact Hwf|constructor]|]. unfold h'. rewrite set_nth_length. split; [exact HX|].
  intros c2 cl2 H2. fold h'. rewrite E1, E3. unfold cell_ok, V', bump. destruct (Nat.eqb_spec c2 c) as [->|Hne].
  - rewrite nth_error_set_nth_eq in H2 by exact Hlt. injection H2 as <-.
    destruct (Hcells c cl Hc) as ((A1 & A2 & A3 & A4) & A5). cbn [c_missing c_val c_cbs].
    splits; auto; lia.
  - rewrite nth_error_set_nth_neq in H2 by congruence. exact (Hcells c2 cl2 H2).
Qed.

(* Inc: the cell it returns stands for V c + 1 *)
Lemma f_inc_inv V fs c X fs' c' : HInv V (f_heap fs) X -> f_inc fs c = Ok (fs', c') ->
  exists V', HInv V' (f_heap fs') X /\ V' c' = V c + 1 /\
    (forall i, (i < length (f_heap fs))%nat -> i <> c' -> V' i = V i) /\
    (c' = c \/ c' = length (f_heap fs)) /\ (c' < length (f_heap fs'))%nat /\
    (length (f_heap fs) <= length (f_heap fs'))%nat /\
    Permutation (f_log fs' ++ upend V' (f_heap fs')) (f_log fs ++ upend V (f_heap fs)).
Proof.
  intros HI H. unfold f_inc in H. destruct (nth_error (f_heap fs) c) as [cl|] eqn:Ec; [|discriminate].
  assert (c < length (f_heap fs))%nat as Hlt by (apply nth_error_Some; congruence).
  destruct (c_cbs cl) as [|k0 r0] eqn:Ecb.
  - injection H as <- <-. cbn [f_heap f_log]. destruct (HInv_inc V _ X c cl HI Ec Ecb) as [A B].
    exists (bump V c (V c + 1)). rewrite set_nth_length. splits.
    + exact A.
    + unfold bump. rewrite Nat.eqb_refl. reflexivity.
    + intros i _ Hi. unfold bump. destruct (Nat.eqb_spec i c); [congruence|reflexivity].
    + left. reflexivity.
    + exact Hlt.
    + lia.
    + rewrite B. reflexivity.
  - unfold f_new in H. apply bind_ok in H as (fs2 & Hw & H). injection H as <- <-.
    set (r := length (f_heap fs)) in *. set (V' := bump V r (V c + 1)).
    assert (forall i, (i < r)%nat -> V' i = V i) as HV.
    { intros i Hi. unfold V', bump. destruct (Nat.eqb_spec i r); [lia|reflexivity]. }
    assert (0 <= V c) as HVc by (destruct HI as (_ & _ & Hcells); exact (proj2 (Hcells c cl Ec))).
    assert (HInv V' (f_heap fs ++ [mkCell 1 1 []]) ([(r, V' c)] ++ X)) as HI1.
    { apply (HInv_new V V' _ X (mkCell 1 1 []) [(r, V' c)] HI HV eq_refl); [cbn; lia| |reflexivity|].
      - constructor; [|constructor]. cbn [fst snd]. rewrite HV by exact Hlt. auto.
      - cbn [map snd fold_right c_val]. unfold V' at 1, bump. fold r. rewrite Nat.eqb_refl. rewrite HV by exact Hlt. lia. }
    cbn [app] in HI1.
    destruct (f_when_upd_inv V' (mkF (f_heap fs ++ [mkCell 1 1 []]) (f_log fs)) c r X fs2 HI1 Hlt Hw) as (A & B & C).
    cbn [f_heap f_log] in *. rewrite app_length in B. cbn [length] in B.
    exists V'. splits.
    + exact A.
    + unfold V', bump. rewrite Nat.eqb_refl. reflexivity.
    + intros i Hi _. apply HV. exact Hi.
    + right. reflexivity.
    + lia.
    + lia.
    + rewrite C. rewrite (upend_new V V' _ (mkCell 1 1 []) HV eq_refl). reflexivity.
Qed.
