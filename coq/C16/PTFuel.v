(* C16 - the fuelled loops of the model never run out of fuel (termination of the Go loops). *)
From Coq Require Import List Arith Bool ZArith Lia.
From GoPdf.Base Require Import Res.
From GoPdf.C16 Require Import PageTree PTBasics PTTails.
Import ListNotations.

Definition nofuel {A} (r : res A) : Prop := r <> Err OutOfFuel.

Lemma nofuel_bind {A B} (r : res A) (f : A -> res B) :
  nofuel r -> (forall a, r = Ok a -> nofuel (f a)) -> nofuel (bind r f).
Proof. intros H1 H2. destruct r as [a|c]; cbn; [apply H2; reflexivity|]. intros E. apply H1. congruence. Qed.

Lemma nofuel_err {A B} e : @nofuel A (Err e) -> @nofuel B (Err e).
Proof. intros H E. apply H. congruence. Qed.

Lemma nofuel_ok {A} (a : A) : nofuel (Ok a).
Proof. discriminate. Qed.
Lemma nofuel_panic {A} : nofuel (@Err A Panic).
Proof. discriminate. Qed.
Lemma nofuel_other {A} : nofuel (@Err A Other).
Proof. discriminate. Qed.

Section TailFuel.
Variable D : nat.
Variable old : bool.
Variable choose : list Z -> Z.
Variable choose_rot : list (option Z) -> option Z.
Hypothesis HD : 2 <= D.

Notation merge_nodes := (merge_nodes D old choose choose_rot).
Notation merge_tail := (merge_tail D old choose choose_rot).
Notation squeeze := (squeeze D old choose choose_rot).
Notation collapse := (collapse D old choose choose_rot).
Notation merge_loop1 := (merge_loop1 D old choose choose_rot).
Notation merge_inner := (merge_inner D old choose choose_rot).
Notation merge_loop3 := (merge_loop3 D old choose choose_rot).
Notation merge := (merge D old choose choose_rot).
Notation append_tail := (append_tail D old choose choose_rot).

Lemma merge_nodes_nofuel nodes a b next : nofuel (merge_nodes nodes a b next).
Proof.
  unfold PageTree.merge_nodes. destruct (_ || _); [apply nofuel_panic|]. destruct (inherit _ _ _ _ _). apply nofuel_ok.
Qed.

Lemma merge_nodes_length nodes a b next out nx : merge_nodes nodes a b next = Ok (out, nx) ->
  length out + (b - a) = S (length nodes) /\ 2 <= b - a <= D /\ b <= length nodes.
Proof.
  intros H. destruct (merge_nodes_ok _ _ _ _ _ _ _ _ _ _ H) as (pre & cs & post & E1 & H1 & H2 & H3 & E2 & _). subst nodes out.
  repeat rewrite app_length. cbn [length]. lia.
Qed.

Lemma merge_tail_nofuel fuel : forall tail next, length tail < fuel -> nofuel (merge_tail fuel tail next).
Proof.
  induction fuel as [|fuel IH]; intros tail next Hf; [lia|]. cbn [PageTree.merge_tail].
  destruct (length tail <? D); [apply nofuel_ok|]. destruct (negb _); [apply nofuel_ok|].
  apply nofuel_bind; [apply merge_nodes_nofuel|]. intros [t nx] Hm.
  destruct (merge_nodes_length _ _ _ _ _ _ Hm) as (H1 & H2 & H3). apply IH. lia.
Qed.

Lemma append_tail_nofuel tail id a next : nofuel (append_tail tail id a next).
Proof. unfold PageTree.append_tail. apply merge_tail_nofuel. lia. Qed.

Lemma adj_start_nofuel fuel : forall ds start, 0 < fuel -> length ds < fuel + start -> nofuel (adj_start fuel ds start).
Proof.
  induction fuel as [|fuel IH]; intros ds start H0 Hf; [lia|]. cbn [adj_start].
  destruct (0 <? start); [|apply nofuel_ok]. destruct (length ds <=? start) eqn:E; [apply nofuel_panic|].
  apply Nat.leb_gt in E. destruct (_ =? _); [|apply nofuel_ok]. apply IH; lia.
Qed.

Lemma squeeze_nofuel a next : nofuel (squeeze a next).
Proof.
  unfold PageTree.squeeze. apply nofuel_bind.
  - apply adj_start_nofuel; [lia|]. unfold depths. rewrite map_length. lia.
  - intros start _. apply merge_nodes_nofuel.
Qed.

Lemma squeeze_length a next out nx : squeeze a next = Ok (out, nx) -> length out < length a.
Proof.
  unfold PageTree.squeeze. intros H. apply bind_ok in H as (start & _ & H).
  destruct (merge_nodes_length _ _ _ _ _ _ H) as (H1 & H2 & H3). lia.
Qed.

Lemma collapse_nofuel fuel : forall tail next, length tail < fuel -> nofuel (collapse fuel tail next).
Proof.
  induction fuel as [|fuel IH]; intros tail next Hf; [lia|]. cbn [PageTree.collapse].
  destruct (1 <? length tail); [|apply nofuel_ok]. apply nofuel_bind; [apply squeeze_nofuel|].
  intros [t nx] Hs. apply IH. pose proof (squeeze_length _ _ _ _ Hs). lia.
Qed.

Lemma merge_loop1_nofuel fuel : forall a nd next, length a < fuel -> nofuel (merge_loop1 fuel a nd next).
Proof.
  induction fuel as [|fuel IH]; intros a nd next Hf; [lia|]. cbn [PageTree.merge_loop1].
  destruct (_ && _); [|apply nofuel_ok]. apply nofuel_bind; [apply squeeze_nofuel|].
  intros [t nx] Hs. apply IH. pose proof (squeeze_length _ _ _ _ Hs). lia.
Qed.

Lemma merge_loop1_length fuel : forall a nd next out nx, merge_loop1 fuel a nd next = Ok (out, nx) -> length out <= length a.
Proof.
  induction fuel as [|fuel IH]; intros a nd next out nx H; [discriminate|]. cbn [PageTree.merge_loop1] in H.
  destruct (_ && _); [|injection H as <- _; lia]. apply bind_ok in H as ([t n1] & Hs & H).
  pose proof (squeeze_length _ _ _ _ Hs). specialize (IH _ _ _ _ _ H). lia.
Qed.

Lemma merge_inner_nofuel fuel : forall a start stop ch next, stop < fuel -> nofuel (merge_inner fuel a start stop ch next).
Proof.
  induction fuel as [|fuel IH]; intros a start stop ch next Hf; [lia|]. cbn [PageTree.merge_inner].
  destruct (start + D <=? stop) eqn:E; [|apply nofuel_ok]. apply Nat.leb_le in E.
  apply nofuel_bind; [apply merge_nodes_nofuel|]. intros [t nx] _. apply IH. lia.
Qed.

(* the inner loop never lengthens the list, and shortens it when it reports a change *)
Lemma merge_inner_length fuel : forall a start stop ch next out s' e' ch' nx,
  merge_inner fuel a start stop ch next = Ok (out, s', e', ch', nx) ->
  length out <= length a /\ (ch = false -> ch' = true -> length out < length a) /\ (ch = true -> ch' = true).
Proof.
  induction fuel as [|fuel IH]; intros a start stop ch next out s' e' ch' nx H; [discriminate|].
  cbn [PageTree.merge_inner] in H. destruct (start + D <=? stop).
  - apply bind_ok in H as ([t n1] & Hm & H). destruct (merge_nodes_length _ _ _ _ _ _ Hm) as (H1 & H2 & H3).
    destruct (IH _ _ _ _ _ _ _ _ _ _ H) as (I1 & I2 & I3). splits; [lia|intros; lia|intros; apply I3; reflexivity].
  - injection H as <- _ _ <- _. splits; [lia|intros; congruence|auto].
Qed.

Lemma merge_loop3_nofuel fuel : forall a start stop depth pd next,
  length a + (pd - depth) < fuel -> nofuel (merge_loop3 fuel a start stop depth pd next).
Proof.
  induction fuel as [|fuel IH]; intros a start stop depth pd next Hf; [lia|]. cbn [PageTree.merge_loop3].
  apply nofuel_bind; [apply merge_inner_nofuel; lia|]. intros [[[[a1 s1] e1] c1] n1] Hi.
  destruct (merge_inner_length _ _ _ _ _ _ _ _ _ _ _ Hi) as (L1 & L2 & _).
  destruct ((pd <=? depth) && negb c1 || (s1 =? 0)) eqn:E; [apply nofuel_ok|].
  apply orb_false_iff in E as [E _]. apply IH.
  destruct c1.
  - specialize (L2 eq_refl eq_refl). cbn [andb]. destruct (depth <? pd); lia.
  - rewrite andb_true_r in E. apply Nat.leb_gt in E. cbn [andb]. lia.
Qed.

Lemma merge_nofuel a b next : nofuel (merge a b next).
Proof.
  unfold PageTree.merge. destruct a as [|a0 ar]; [apply nofuel_ok|]. destruct b as [|b0 br]; [apply nofuel_ok|].
  apply nofuel_bind; [apply merge_loop1_nofuel; lia|]. intros [a1 n1] H1.
  pose proof (merge_loop1_length _ _ _ _ _ _ H1) as Hl.
  apply merge_loop3_nofuel.
  set (a2 := match a1 with [x] => if n_depth x <? n_depth b0 then [set_depth (n_depth b0) x] else [x] | _ => a1 end).
  assert (length a2 = length a1) as E by (unfold a2; destruct a1 as [|x [|y r]]; try reflexivity; destruct (_ <? _); reflexivity).
  rewrite !app_length, E. lia.
Qed.

End TailFuel.
