(* C16 - basic facts: node induction, what hoisting leaves untouched, the single-key view of inheritance. *)
From Coq Require Import List Arith Bool ZArith Lia.
From GoPdf.Base Require Import Res.
From GoPdf.C16 Require Import PageTree.
Import ListNotations.

Ltac splits := repeat match goal with |- _ /\ _ => split end.

Lemma node_ind' (P : node -> Prop) :
  (forall r p a, P (Page r p a)) ->
  (forall r p a c kids, Forall P kids -> P (Pages r p a c kids)) -> forall n, P n.
Proof.
  intros HL HI. fix IH 1. intros [r p a|r p a c kids]; [apply HL|apply HI].
  induction kids as [|k ks IHk]; constructor; [apply IH|exact IHk].
Qed.

Lemma key_eqb_eq a b : key_eqb a b = true <-> a = b.
Proof. destruct a, b; cbn; split; intros H; try reflexivity; try discriminate. Qed.
Lemma key_eqb_refl a : key_eqb a a = true.
Proof. destruct a; reflexivity. Qed.
Lemma key_eqb_neq a b : a <> b -> key_eqb a b = false.
Proof. intros H. destruct (key_eqb a b) eqn:E; [apply key_eqb_eq in E; contradiction|reflexivity]. Qed.

Lemma a_set_same k v a : a_set k v a k = v.
Proof. unfold a_set. rewrite key_eqb_refl. reflexivity. Qed.
Lemma a_set_other k v a k' : k' <> k -> a_set k v a k' = a k'.
Proof. intros H. unfold a_set. rewrite (key_eqb_neq _ _ H). reflexivity. Qed.

Lemma ref_eqb_eq a b : ref_eqb a b = true <-> a = b.
Proof.
  destruct a, b; cbn; split; intros H; try discriminate; try (apply Nat.eqb_eq in H; congruence);
    injection H as ->; apply Nat.eqb_refl.
Qed.
Lemma ref_eqb_refl a : ref_eqb a a = true.
Proof. apply ref_eqb_eq. reflexivity. Qed.
Lemma opt_ref_eqb_eq a b : opt_ref_eqb a b = true <-> a = b.
Proof.
  destruct a, b; cbn; split; intros H; try discriminate; try reflexivity.
  - apply ref_eqb_eq in H. congruence.
  - injection H as ->. apply ref_eqb_refl.
Qed.
Lemma opt_eqb_eq a b : opt_eqb a b = true <-> a = b.
Proof.
  destruct a, b; cbn; split; intros H; try discriminate; try reflexivity.
  - apply Z.eqb_eq in H. congruence.
  - injection H as ->. apply Z.eqb_refl.
Qed.

(* ---- modifications that touch only a node's own attributes *)
Definition variant (n n' : node) : Prop := exists a, n' = set_attrs a n.

Lemma variant_refl n : variant n n.
Proof. exists (node_attrs n). destruct n; reflexivity. Qed.
Lemma variant_set a n : variant n (set_attrs a n).
Proof. exists a. reflexivity. Qed.
Lemma variant_trans a b c : variant a b -> variant b c -> variant a c.
Proof. intros [x ->] [y ->]. exists y. destruct a; reflexivity. Qed.

Lemma variant_leaves n n' : variant n n' -> leaves n' = leaves n.
Proof. intros [a ->]. destruct n; reflexivity. Qed.
Lemma variant_count n n' : variant n n' -> count_leaves n' = count_leaves n.
Proof. intros [a ->]. destruct n; reflexivity. Qed.
Lemma variant_parent n n' : variant n n' -> node_parent n' = node_parent n.
Proof. intros [a ->]. destruct n; reflexivity. Qed.
Lemma variant_ref n n' : variant n n' -> node_ref n' = node_ref n.
Proof. intros [a ->]. destruct n; reflexivity. Qed.

Definition body_ok (D : nat) (n : node) : bool :=
  match n with
  | Page _ _ _ => true
  | Pages r _ _ c kids =>
    (c =? count_leaves n) && (1 <=? length kids) && (length kids <=? D) && forallb (sub_ok D r) kids
  end.

Lemma sub_ok_eq D p n : sub_ok D p n = opt_ref_eqb (node_parent n) (Some p) && body_ok D n.
Proof. destruct n; reflexivity. Qed.

Lemma variant_body D n n' : variant n n' -> body_ok D n' = body_ok D n.
Proof. intros [a ->]. destruct n; reflexivity. Qed.

Lemma set_parent_leaves p n : leaves (set_parent p n) = leaves n.
Proof. destruct n; reflexivity. Qed.
Lemma set_parent_count p n : count_leaves (set_parent p n) = count_leaves n.
Proof. destruct n; reflexivity. Qed.
Lemma set_parent_body D p n : body_ok D (set_parent p n) = body_ok D n.
Proof. destruct n; reflexivity. Qed.
Lemma set_parent_parent p n : node_parent (set_parent p n) = p.
Proof. destruct n; reflexivity. Qed.
Lemma set_parent_attrs p n : node_attrs (set_parent p n) = node_attrs n.
Proof. destruct n; reflexivity. Qed.
Lemma set_attrs_attrs a n : node_attrs (set_attrs a n) = a.
Proof. destruct n; reflexivity. Qed.

Section Hoist.
Variable old : bool.
Variable choose : list Z -> Z.
Variable choose_rot : list (option Z) -> option Z.

(* a conditional rewrite of the children's own attributes *)
Lemma map_variant (f : node -> node) cs : (forall c, variant c (f c)) -> Forall2 variant cs (map f cs).
Proof. intros H. induction cs; constructor; auto. Qed.

Lemma Forall2_variant_refl cs : Forall2 variant cs cs.
Proof. induction cs; constructor; auto using variant_refl. Qed.

Lemma Forall2_variant_trans a b c : Forall2 variant a b -> Forall2 variant b c -> Forall2 variant a c.
Proof.
  intros H. revert c. induction H; intros c' H2; inversion H2; subst; constructor; eauto using variant_trans.
Qed.

Lemma inherit_key_variant k pa cs : Forall2 variant cs (snd (inherit_key choose k pa cs)).
Proof.
  unfold inherit_key. destruct (existsb _ _); [apply Forall2_variant_refl|].
  destruct (existsb _ _); [|apply Forall2_variant_refl]. cbn [snd].
  apply map_variant. intros c. destruct (opt_eqb _ _); [apply variant_set|apply variant_refl].
Qed.

Lemma inherit_rotate_variant pa cs : Forall2 variant cs (snd (inherit_rotate choose_rot pa cs)).
Proof.
  unfold inherit_rotate.
  assert (Forall2 variant cs (map (fun c => if opt_eqb (node_attrs c KRotate) (Some 0%Z)
            then set_attrs (a_set KRotate None (node_attrs c)) c else c) cs)) as H1.
  { apply map_variant. intros c. destruct (opt_eqb _ _); [apply variant_set|apply variant_refl]. }
  match goal with |- context [if ?b then _ else _] => destruct b end; cbn [snd]; [exact H1|].
  eapply Forall2_variant_trans; [exact H1|]. apply map_variant. intros c.
  destruct (opt_eqb _ _); [apply variant_set|]. destruct (is_none _); [apply variant_set|apply variant_refl].
Qed.

Lemma inherit_variant pa cs : Forall2 variant cs (snd (inherit old choose choose_rot pa cs)).
Proof.
  unfold inherit.
  pose proof (inherit_key_variant KMediaBox pa cs) as H1. destruct (inherit_key choose KMediaBox pa cs) as [pa1 cs1].
  pose proof (inherit_key_variant KCropBox pa1 cs1) as H2. destruct (inherit_key choose KCropBox pa1 cs1) as [pa2 cs2].
  pose proof (inherit_rotate_variant pa2 cs2) as H3. destruct (inherit_rotate choose_rot pa2 cs2) as [pa3 cs3].
  cbn [snd] in *. destruct old.
  - pose proof (inherit_key_variant KAA pa3 cs3) as H4. destruct (inherit_key choose KAA pa3 cs3) as [pa4 cs4]. cbn [snd] in *.
    eauto using Forall2_variant_trans.
  - cbn [snd]. eauto using Forall2_variant_trans.
Qed.

End Hoist.

(* consequences for lists of children *)
Lemma Forall2_variant_leaves cs cs' : Forall2 variant cs cs' -> flat_map leaves cs' = flat_map leaves cs.
Proof. induction 1; cbn; [reflexivity|]. rewrite IHForall2, (variant_leaves _ _ H). reflexivity. Qed.

Lemma Forall2_variant_counts cs cs' : Forall2 variant cs cs' ->
  fold_right (fun k s => count_leaves k + s) 0 cs' = fold_right (fun k s => count_leaves k + s) 0 cs.
Proof. induction 1; cbn; [reflexivity|]. rewrite IHForall2, (variant_count _ _ H). reflexivity. Qed.

Lemma Forall2_variant_length cs cs' : Forall2 variant cs cs' -> length cs' = length cs.
Proof. induction 1; cbn; congruence. Qed.

Lemma Forall2_variant_sub_ok D p cs cs' : Forall2 variant cs cs' ->
  forallb (sub_ok D p) cs' = forallb (sub_ok D p) cs.
Proof.
  induction 1; cbn; [reflexivity|]. rewrite IHForall2, !sub_ok_eq, (variant_parent _ _ H), (variant_body _ _ _ H). reflexivity.
Qed.
