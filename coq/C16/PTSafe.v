(* C16 - no operation of any program can reach a panic branch (code after F47): the tails of all
   writers keep the tail invariant (PTMerge.merge_ok), and every futureInt pointer is valid. *)
From Coq Require Import List Arith Bool ZArith Lia.
From GoPdf.Base Require Import Res.
From GoPdf.C17 Require Import KTDepths.
From GoPdf.C16 Require Import PageTree PTBasics PTTails PTWriter PTSim PTFuel PTFuel2 PTNoPanic PTMerge.
Import ListNotations.

(* ---- futureInt: every callback stored in cell c updates a younger cell that exists *)
Definition cb_in (n c : nat) (k : cb) : Prop := match k with CbUpd c' => c < c' < n | CbUser _ => True end.
Definition heap_wf (h : list cell) : Prop :=
  forall c cl, nth_error h c = Some cl -> Forall (cb_in (length h) c) (c_cbs cl).
Definition fs_wf (fs : fstate) : Prop := heap_wf (f_heap fs).
Definition cb_valid (n : nat) (k : cb) : Prop := match k with CbUpd c' => c' < n | CbUser _ => True end.

Lemma heap_wf_set h c cl : heap_wf h -> Forall (cb_in (length h) c) (c_cbs cl) -> heap_wf (set_nth c cl h).
Proof.
  intros Ha Hc c' cl' H. rewrite set_nth_length. destruct (Nat.eq_dec c c') as [<-|Hne].
  - destruct (Nat.lt_ge_cases c (length h)) as [Hl|Hl].
    + rewrite nth_error_set_nth_eq in H by exact Hl. injection H as <-. exact Hc.
    + assert (nth_error (set_nth c cl h) c = None) as E by (apply nth_error_None; rewrite set_nth_length; exact Hl). congruence.
  - rewrite nth_error_set_nth_neq in H by exact Hne. eapply Ha; eauto.
Qed.

(* the outcome of an operation on the heap: it succeeds, the heap stays well-formed and keeps its length *)
Definition fok (n : nat) (r : res fstate) : Prop :=
  exists fs', r = Ok fs' /\ fs_wf fs' /\ length (f_heap fs') = n.

Lemma f_update_safe fuel : forall fs c n, fs_wf fs -> c < length (f_heap fs) -> length (f_heap fs) < fuel + c ->
  fok (length (f_heap fs)) (f_update fuel fs c n).
Proof.
  induction fuel as [|fuel IH]; intros fs c n Ha Hc Hf; [lia|]. cbn [f_update].
  destruct (nth_error (f_heap fs) c) as [cl|] eqn:Ec; [|apply nth_error_None in Ec; lia].
  set (missing := (c_missing cl - 1)%Z).
  set (val := if (n <? 0)%Z || (c_val cl <? 0)%Z then (-1)%Z else (c_val cl + n)%Z).
  destruct ((missing =? 0)%Z || (val <? 0)%Z).
  - pose proof (Ha c cl Ec) as Habove.
    set (fs1 := mkF (set_nth c (mkCell val missing []) (f_heap fs)) (f_log fs)).
    assert (fs_wf fs1 /\ length (f_heap fs1) = length (f_heap fs)) as [H1 H2].
    { split; [apply heap_wf_set; [exact Ha|constructor]|apply set_nth_length]. }
    revert H1 H2. generalize fs1. clear fs1. induction (c_cbs cl) as [|k r IHr]; intros fs1 H1 H2.
    + exists fs1. auto.
    + inversion Habove as [|? ? Hk Hr]; subst. destruct k as [id|c'].
      * apply IHr; auto.
      * cbn in Hk. destruct (IH fs1 c' val H1 ltac:(lia) ltac:(lia)) as (fs2 & E2 & A1 & A2).
        rewrite E2. cbn [bind]. apply IHr; auto. congruence.
  - eexists. split; [reflexivity|]. split; [|apply set_nth_length].
    apply heap_wf_set; [exact Ha|]. exact (Ha c cl Ec).
Qed.

Lemma f_fire_safe fs k v : fs_wf fs -> cb_valid (length (f_heap fs)) k -> fok (length (f_heap fs)) (f_fire fs k v).
Proof.
  intros Ha Hk. destruct k as [id|c]; cbn [f_fire].
  - eexists. split; [reflexivity|]. auto.
  - apply f_update_safe; [exact Ha|exact Hk|lia].
Qed.

Lemma f_when_safe fs c k : fs_wf fs -> c < length (f_heap fs) -> cb_in (length (f_heap fs)) c k ->
  fok (length (f_heap fs)) (f_when fs c k).
Proof.
  intros Ha Hc Hk. unfold f_when. destruct (nth_error (f_heap fs) c) as [cl|] eqn:Ec; [|apply nth_error_None in Ec; lia].
  destruct (c_missing cl =? 0)%Z.
  - apply f_fire_safe; [exact Ha|]. destruct k; [exact I|cbn in *; lia].
  - eexists. split; [reflexivity|]. split; [|apply set_nth_length].
    apply heap_wf_set; [exact Ha|]. cbn [c_cbs]. apply Forall_app. split; [exact (Ha c cl Ec)|constructor; [exact Hk|constructor]].
Qed.

Lemma cb_in_mono n n' c k : n <= n' -> cb_in n c k -> cb_in n' c k.
Proof. destruct k; cbn; lia. Qed.
Lemma cb_valid_mono n n' k : n <= n' -> cb_valid n k -> cb_valid n' k.
Proof. destruct k; cbn; lia. Qed.

Lemma f_new_safe fs cl : fs_wf fs -> c_cbs cl = [] ->
  fs_wf (fst (f_new fs cl)) /\ snd (f_new fs cl) = length (f_heap fs) /\ length (f_heap (fst (f_new fs cl))) = S (length (f_heap fs)).
Proof.
  intros Ha Hc. unfold f_new. cbn [fst snd f_heap]. splits; [|reflexivity|rewrite app_length; cbn; lia].
  intros c cl' H. cbn [f_heap] in *. rewrite app_length. cbn [length].
  destruct (Nat.lt_ge_cases c (length (f_heap fs))) as [Hl|Hl].
  - rewrite nth_error_app1 in H by exact Hl. eapply Forall_impl; [|exact (Ha c cl' H)]. intros k. apply cb_in_mono. lia.
  - rewrite nth_error_app2 in H by exact Hl. destruct (c - length (f_heap fs)) as [|d]; cbn in H.
    + injection H as <-. rewrite Hc. constructor.
    + destruct d; discriminate.
Qed.

Lemma f_inc_safe fs c : fs_wf fs -> c < length (f_heap fs) ->
  exists fs' c', f_inc fs c = Ok (fs', c') /\ fs_wf fs' /\ c' < length (f_heap fs') /\ length (f_heap fs) <= length (f_heap fs').
Proof.
  intros Ha Hc. unfold f_inc. destruct (nth_error (f_heap fs) c) as [cl|] eqn:Ec; [|apply nth_error_None in Ec; lia].
  destruct (c_cbs cl) as [|k0 r] eqn:Ecb.
  - eexists _, _. split; [reflexivity|]. cbn [f_heap]. rewrite set_nth_length. splits; [|exact Hc|lia].
    apply heap_wf_set; [exact Ha|constructor].
  - destruct (f_new_safe fs (mkCell 1%Z 1%Z []) Ha eq_refl) as (N1 & N2 & N3).
    destruct (f_new fs (mkCell 1%Z 1%Z [])) as [fs1 r1]. cbn [fst snd] in *.
    destruct (f_when_safe fs1 c (CbUpd r1) N1 ltac:(lia) ltac:(cbn; lia)) as (fs2 & E2 & A1 & A2).
    rewrite E2. cbn [bind]. eexists _, _. split; [reflexivity|]. splits; [exact A1|lia|lia].
Qed.

Lemma f_fire_all_safe l : forall fs v, fs_wf fs -> Forall (cb_valid (length (f_heap fs))) l ->
  fok (length (f_heap fs)) (f_fire_all fs l v).
Proof.
  induction l as [|k r IH]; intros fs v Ha Hl; cbn [f_fire_all].
  - eexists. split; [reflexivity|]. auto.
  - inversion Hl as [|? ? Hk Hr]; subst. destruct (f_fire_safe fs k v Ha Hk) as (fs1 & E & A1 & A2).
    rewrite E. cbn [bind]. rewrite <- A2. apply IH; [exact A1|rewrite A2; exact Hr].
Qed.

(* ---- writers *)
Section Safe.
Variable D : nat.
Variable old : bool.
Variable choose : list Z -> Z.
Variable choose_rot : list (option Z) -> option Z.
Hypothesis HD : 2 <= D.

Notation do_append := (do_append D old choose choose_rot).
Notation close_w := (close_w D old choose choose_rot).
Notation merge := (merge D old choose choose_rot).
Notation step := (step D old choose choose_rot).
Notation steps := (steps D old choose choose_rot).
Notation run := (run D old choose choose_rot).

(* a writer in a state whose heap has n cells *)
Inductive w_safe (n : nat) : writer -> Prop :=
| ws id cl ch tail npn pn nc :
    Inv D (depths tail) -> Forall (w_safe n) ch ->
    (forall i, id = Some i -> exists c, npn = Some c /\ c < n) ->
    Forall (cb_valid n) nc ->
    w_safe n (Wr id cl ch tail npn pn nc).

Lemma w_safe_mono n n' w : n <= n' -> w_safe n w -> w_safe n' w.
Proof.
  intros Hn. induction w as [id cl ch tail npn pn nc IH] using writer_ind'. intros H.
  inversion H as [? ? ? ? ? ? ? Ht Hc Hi Hnc]; subst. constructor; auto.
  - rewrite Forall_forall in *. intros c Hin. apply IH; auto.
  - intros i Ei. destruct (Hi i Ei) as (c & E & Hc'). exists c. split; [exact E|lia].
  - eapply Forall_impl; [|exact Hnc]. intros k. apply cb_valid_mono. exact Hn.
Qed.

Definition hlen (st : gstate) : nat := length (f_heap (g_f st)).
Definition st_wf (st : gstate) : Prop := fs_wf (g_f st).

(* an operation on a writer: it succeeds and leaves writer and state in order; the heap only grows *)
Definition wok (st : gstate) (r : res (writer * gstate)) : Prop :=
  exists w' st', r = Ok (w', st') /\ w_safe (hlen st') w' /\ st_wf st' /\ hlen st <= hlen st'.

Lemma do_append_safe id a w st i : w_safe (hlen st) w -> w_id w = Some i -> st_wf st -> wok st (do_append id a w st).
Proof.
  intros Hw Hid Hs. destruct w as [wid cl ch tail npn pn nc]. cbn [w_id] in Hid. subst wid.
  inversion Hw as [? ? ? ? ? ? ? Ht Hc Hi Hnc]; subst. destruct (Hi i eq_refl) as (c & -> & Hcn).
  unfold PageTree.do_append.
  destruct (append_tail_ok D old choose choose_rot HD tail id a (g_next st) Ht) as (tail' & nx & Ha & Ht').
  rewrite Ha. cbn [bind].
  assert (forall l fs, fs_wf fs -> length (f_heap fs) = hlen st ->
            fok (hlen st)
              ((fix go (l : list nat) (fs : fstate) : res fstate :=
                  match l with [] => Ok fs | k :: r => bind (f_when fs c (CbUser k)) (go r) end) l fs)) as Hgo.
  { induction l as [|k r IH]; intros fs Ha' Hl.
    - exists fs. auto.
    - destruct (f_when_safe fs c (CbUser k) Ha' ltac:(rewrite Hl; exact Hcn) I) as (fs1 & E & A1 & A2).
      rewrite E. cbn [bind]. apply IH; [exact A1|congruence]. }
  destruct (Hgo pn (g_f st) Hs eq_refl) as (fs1 & E1 & A1 & A2). rewrite E1. cbn [bind].
  destruct (f_inc_safe fs1 c A1 ltac:(rewrite A2; exact Hcn)) as (fs2 & c' & E2 & B1 & B2 & B3).
  rewrite E2. cbn [bind]. eexists _, _. split; [reflexivity|]. unfold hlen, st_wf in *. cbn [g_f].
  split; [|split; [exact B1|lia]].
  constructor; auto.
  - rewrite Forall_forall in *. intros x Hx. apply (w_safe_mono (length (f_heap (g_f st)))); [lia|auto].
  - intros j _. exists c'. auto.
  - eapply Forall_impl; [|exact Hnc]. intros k. apply cb_valid_mono. lia.
Qed.

Lemma do_new_range_safe w st i : w_safe (hlen st) w -> w_id w = Some i -> st_wf st -> wok st (do_new_range w st).
Proof.
  intros Hw Hid Hs. destruct w as [wid cl ch tail npn pn nc]. cbn [w_id] in Hid. subst wid.
  inversion Hw as [? ? ? ? ? ? ? Ht Hc Hi Hnc]; subst. destruct (Hi i eq_refl) as (c & -> & Hcn).
  unfold do_new_range. unfold hlen in Hcn.
  destruct (nth_error (f_heap (g_f st)) c) as [cl0|] eqn:Ec; [|apply nth_error_None in Ec; lia]. cbn [is_none].
  destruct (f_new_safe (g_f st) (mkCell 0%Z 2%Z []) Hs eq_refl) as (N1 & N2 & N3).
  destruct (f_new (g_f st) (mkCell 0%Z 2%Z [])) as [fs1 c']. cbn [fst snd] in *.
  destruct (f_when_safe fs1 c (CbUpd c') N1 ltac:(lia) ltac:(cbn; lia)) as (fs2 & E2 & A1 & A2).
  rewrite E2. cbn [bind]. eexists _, _. split; [reflexivity|]. unfold hlen, st_wf in *. cbn [g_f].
  split; [|split; [exact A1|lia]].
  assert (forall x, w_safe (length (f_heap (g_f st))) x -> w_safe (length (f_heap fs2)) x) as Hm
    by (intros x; apply w_safe_mono; lia).
  constructor.
  - apply Inv_nil. lia.
  - apply Forall_app. split.
    + destruct tail as [|t0 tr]; [|apply Forall_app; split].
      * eapply Forall_impl; [|exact Hc]. exact Hm.
      * eapply Forall_impl; [|exact Hc]. exact Hm.
      * constructor; [|constructor]. constructor; [exact Ht|constructor|discriminate|constructor].
    + constructor; [|constructor]. constructor; [apply Inv_nil; lia|constructor| |].
      * intros j _. exists c. split; [reflexivity|lia].
      * constructor; [cbn; lia|constructor].
  - intros j _. exists c'. split; [reflexivity|lia].
  - eapply Forall_impl; [|exact Hnc]. intros k. apply cb_valid_mono. lia.
Qed.

Lemma close_w_safe w : forall st, w_safe (hlen st) w -> st_wf st ->
  exists w' st', close_w w st = Ok (w', st') /\ w_safe (hlen st') w' /\ st_wf st' /\ hlen st' = hlen st /\ Inv D (depths (w_tail w')).
Proof.
  induction w as [wid cl ch tail npn pn nc IH] using writer_ind'. intros st Hw Hs.
  inversion Hw as [? ? ? ? ? ? ? Ht Hc Hi Hnc]; subst. cbn [PageTree.close_w].
  assert (forall nodes st0, Inv D (depths nodes) -> st_wf st0 -> hlen st0 = hlen st ->
     exists nodes' st1,
       (fix go (l : list writer) (nodes : list ninfo) (st : gstate) {struct l} : res (list ninfo * gstate) :=
           match l with
           | [] => Ok (nodes, st)
           | c :: r =>
             bind (if w_closed c then Ok (c, st) else close_w c st) (fun '(c', st1) =>
             bind (merge nodes (w_tail c') (g_next st1)) (fun '(nodes', nx) =>
               go r nodes' (with_next st1 nx)))
           end) ch nodes st0 = Ok (nodes', st1) /\ Inv D (depths nodes') /\ st_wf st1 /\ hlen st1 = hlen st) as Hgo.
  { clear Hi Hnc Ht Hw. induction ch as [|c cs IHc]; intros nodes st0 Hn H0 Hl0.
    - eexists _, _. split; [reflexivity|]. auto.
    - inversion IH as [|? ? Pc Pcs]; subst. inversion Hc as [|? ? Sc Scs]; subst.
      assert (exists c' st1, (if w_closed c then Ok (c, st0) else close_w c st0) = Ok (c', st1) /\
                Inv D (depths (w_tail c')) /\ st_wf st1 /\ hlen st1 = hlen st) as (c' & st1 & E1 & T1 & W1 & L1).
      { destruct (w_closed c).
        - exists c, st0. split; [reflexivity|]. inversion Sc; subst. cbn [w_tail]. auto.
        - destruct (Pc st0 ltac:(rewrite Hl0; exact Sc) H0) as (c' & st1 & E & _ & A2 & A3 & A4).
          exists c', st1. split; [exact E|]. split; [exact A4|]. split; [exact A2|congruence]. }
      rewrite E1. cbn [bind].
      destruct (merge_ok D old choose choose_rot HD nodes (w_tail c') (g_next st1) Hn T1) as (nodes' & nx & Em & Im).
      rewrite Em. cbn [bind]. apply IHc; auto. }
  destruct (Hgo [] st ltac:(apply Inv_nil; lia) Hs eq_refl) as (nodes & st1 & E1 & In1 & W1 & L1).
  rewrite E1. cbn [bind].
  destruct (merge_ok D old choose choose_rot HD nodes tail (g_next st1) In1 Ht) as (tail' & nx & Em & Im).
  rewrite Em. cbn [bind].
  assert (fok (hlen st) (match nc with [] => Ok (g_f st1) | _ :: _ => f_fire_all (g_f st1) nc (Z.of_nat (sum_counts tail')) end))
    as (fs1 & F1 & FA & FL).
  { destruct nc as [|k0 nc0] eqn:En; [exists (g_f st1); auto|]. rewrite <- En in *. unfold hlen in *. rewrite <- L1.
    apply f_fire_all_safe; [exact W1|]. rewrite L1. exact Hnc. }
  rewrite F1. cbn [bind].
  destruct (f_fire_all_safe (map CbUser pn) fs1 (-1)%Z FA) as (fs2 & F2 & GA & GL).
  { clear. induction pn; constructor; [exact I|assumption]. }
  rewrite F2. cbn [bind]. eexists _, _. split; [reflexivity|]. unfold hlen, st_wf in *. cbn [g_f w_tail].
  split; [|split; [exact GA|split; [lia|exact Im]]].
  constructor; [exact Im|constructor| |].
  - intros i Ei. destruct (Hi i Ei) as (c & E & Hcn). exists c. split; [exact E|lia].
  - eapply Forall_impl; [|exact Hnc]. intros k. apply cb_valid_mono. lia.
Qed.

(* ---- operations addressed by writer id *)
Definition fsafe (f : writer -> gstate -> res (writer * gstate * bool)) : Prop :=
  forall w st i, w_safe (hlen st) w -> w_id w = Some i -> st_wf st ->
    exists w' st' ok, f w st = Ok (w', st', ok) /\ w_safe (hlen st') w' /\ st_wf st' /\ hlen st <= hlen st'.

Lemma with_writer_safe id f : fsafe f -> forall w st, w_safe (hlen st) w -> st_wf st ->
  exists r, with_writer id f w st = Ok r /\
    match r with
    | Some (w', st', ok) => w_safe (hlen st') w' /\ st_wf st' /\ hlen st <= hlen st'
    | None => True
    end.
Proof.
  intros Hf. induction w as [wid cl ch tail npn pn nc IH] using writer_ind'. intros st Hw Hs.
  rewrite with_writer_eq. destruct (match wid with Some i => i =? id | None => false end) eqn:Eid.
  - destruct wid as [i|]; [|discriminate].
    destruct (Hf _ st i Hw eq_refl Hs) as (w' & st' & ok & E & A1 & A2 & A3). rewrite E. cbn [bind].
    eexists. split; [reflexivity|]. cbn. auto.
  - inversion Hw as [? ? ? ? ? ? ? Ht Hc Hi Hnc]; subst.
    assert (exists o, ww_list id f st ch = Ok o /\
              match o with
              | Some (ch', st', ok) => Forall (w_safe (hlen st')) ch' /\ st_wf st' /\ hlen st <= hlen st'
              | None => True
              end) as (o & El & Ho).
    { clear Hi Hnc Ht Hw Eid. induction ch as [|c cs IHc]; cbn [ww_list].
      - exists None. auto.
      - inversion IH as [|? ? Pc Pcs]; subst. inversion Hc as [|? ? Sc Scs]; subst.
        destruct (Pc st Sc Hs) as (r & Er & Hr). rewrite Er. cbn [bind]. destruct r as [[[c' st'] ok]|].
        + eexists. split; [reflexivity|]. cbn. destruct Hr as (R1 & R2 & R3). split; [|auto].
          constructor; [exact R1|]. eapply Forall_impl; [|exact Scs]. intros x. apply w_safe_mono. exact R3.
        + destruct (IHc Pcs Scs) as (o' & Eo & Ho'). rewrite Eo. cbn [bind]. destruct o' as [[[r' st'] ok]|].
          * eexists. split; [reflexivity|]. cbn. destruct Ho' as (R1 & R2 & R3). split; [|auto].
            constructor; [apply (w_safe_mono (hlen st)); assumption|exact R1].
          * exists None. auto. }
    rewrite El. cbn [bind]. destruct o as [[[ch' st'] ok]|].
    + eexists. split; [reflexivity|]. cbn. destruct Ho as (R1 & R2 & R3). split; [|auto].
      constructor; [exact Ht|exact R1| |].
      * intros i Ei. destruct (Hi i Ei) as (c & E & Hcn). exists c. split; [exact E|lia].
      * eapply Forall_impl; [|exact Hnc]. intros k. apply cb_valid_mono. exact R3.
    + exists None. auto.
Qed.

Lemma guarded_safe f : (forall w st i, w_safe (hlen st) w -> w_id w = Some i -> st_wf st -> wok st (f w st)) -> fsafe (guarded f).
Proof.
  intros Hf w st i Hw Hid Hs. unfold guarded. destruct (w_closed w).
  - eexists _, _, _. split; [reflexivity|]. auto.
  - destruct (Hf w st i Hw Hid Hs) as (w' & st' & E & A1 & A2 & A3). rewrite E. cbn [bind].
    eexists _, _, _. split; [reflexivity|]. auto.
Qed.

(* one operation: it is carried out, or it is the forbidden Close of the root *)
Lemma step_safe root st o : w_safe (hlen st) root -> st_wf st ->
  (exists root' st' ok, step root st o = Ok (root', st', ok) /\ w_safe (hlen st') root' /\ st_wf st') \/
  step root st o = Err Other.
Proof.
  intros Hw Hs. unfold PageTree.step.
  assert (forall id f, fsafe f ->
     exists root' st' ok,
       bind (with_writer id f root st) (fun r =>
                 match r with
                 | Some x => Ok x
                 | None => match o with
                           | ONextPN _ k => bind (f_fire (g_f st) (CbUser k) (-1)%Z) (fun fs => Ok (root, with_f st fs, true))
                           | _ => Ok (root, st, false)
                           end
                 end) = Ok (root', st', ok) /\ w_safe (hlen st') root' /\ st_wf st') as Hgen.
  { intros id f Hf. destruct (with_writer_safe id f Hf root st Hw Hs) as (r & Er & Hr). rewrite Er. cbn [bind].
    destruct r as [[[r1 s1] ok]|].
    - eexists _, _, _. split; [reflexivity|]. tauto.
    - destruct o; cbn [f_fire bind]; eexists _, _, _; (split; [reflexivity|]); auto. }
  destruct o as [w id a|w|w|w k].
  - left. apply Hgen. apply guarded_safe. intros. eapply do_append_safe; eauto.
  - left. apply Hgen. apply guarded_safe. intros. eapply do_new_range_safe; eauto.
  - destruct w as [|w]; [right; reflexivity|]. left. apply Hgen. apply guarded_safe. intros w0 st0 i H1 H2 H3.
    destruct (close_w_safe w0 st0 H1 H3) as (w' & st' & E & A1 & A2 & A3 & _).
    exists w', st'. split; [exact E|]. split; [exact A1|]. split; [exact A2|lia].
  - left. apply Hgen. intros wr st0 i H1 H2 H3. destruct (w_closed wr).
    + cbn [f_fire bind]. eexists _, _, _. split; [reflexivity|]. auto.
    + destruct wr as [wid wcl ch tail npn pn nc]. cbn [do_next_pn bind]. eexists _, _, _. split; [reflexivity|].
      split; [|auto]. inversion H1; subst. constructor; auto.
Qed.

Lemma steps_safe prog : forall root st acc, w_safe (hlen st) root -> st_wf st ->
  (exists root' st' acc', steps root st prog acc = Ok (root', st', acc') /\ w_safe (hlen st') root' /\ st_wf st') \/
  steps root st prog acc = Err Other.
Proof.
  induction prog as [|o prog IH]; intros root st acc Hw Hs; cbn [PageTree.steps].
  - left. eexists _, _, _. split; [reflexivity|]. auto.
  - destruct (step_safe root st o Hw Hs) as [(r1 & s1 & ok & E & A1 & A2)|E]; rewrite E; cbn [bind]; [|right; reflexivity].
    apply IH; assumption.
Qed.

(* no program can reach a panic branch: it runs to the end, unless it closes the root itself *)
Theorem run_safe prog : (exists out, run prog = Ok out) \/ run prog = Err Other.
Proof.
  unfold PageTree.run. cbn [init_state].
  assert (st_wf (mkG 0 (mkF [mkCell 0%Z 0%Z []] []) 1)) as H0.
  { intros c cl H. destruct c as [|[|c]]; cbn in H; try discriminate. injection H as <-. constructor. }
  assert (w_safe (hlen (mkG 0 (mkF [mkCell 0%Z 0%Z []] []) 1)) (Wr (Some 0) false [] [] (Some 0) [] [])) as Hw0.
  { constructor; [apply Inv_nil; lia|constructor| |constructor]. intros i _. exists 0. split; [reflexivity|cbn; lia]. }
  destruct (steps_safe prog _ _ [] Hw0 H0) as [(root & st & acc & E & A1 & A2)|E]; rewrite E; cbn [bind]; [|right; reflexivity].
  destruct (close_w_safe root st A1 A2) as (root' & st1 & Ec & B1 & B2 & B3 & B4).
  rewrite Ec. cbn [bind].
  destruct (collapse_ok D old choose choose_rot HD (S (length (w_tail root'))) (w_tail root') (g_next st1) ltac:(lia) (Inv_LI D _ B4))
    as (out & nx & Ecol).
  rewrite Ecol. cbn [bind]. left. destruct out; eauto.
Qed.

Corollary run_never_panics prog : run prog <> Err Panic.
Proof. destruct (run_safe prog) as [(out & E)|E]; rewrite E; discriminate. Qed.

End Safe.
