(* C16 - fuel, continued: the cascade of futureInt updates is acyclic (a callback registered on a
   cell only ever updates a younger cell), and no operation of a program runs out of fuel. *)
From Coq Require Import List Arith Bool ZArith Lia.
From GoPdf.Base Require Import Res.
From GoPdf.C16 Require Import PageTree PTBasics PTTails PTWriter PTSim PTFuel.
Import ListNotations.

Definition cb_above (c : nat) (k : cb) : Prop := match k with CbUpd c' => c < c' | CbUser _ => True end.
Definition acyc (h : list cell) : Prop :=
  forall c cl, nth_error h c = Some cl -> Forall (cb_above c) (c_cbs cl).

Lemma set_nth_length {A} i (x : A) l : length (set_nth i x l) = length l.
Proof. revert i. induction l as [|y l IH]; intros [|i]; cbn; auto. Qed.

Lemma nth_error_set_nth_eq {A} i (x : A) l : i < length l -> nth_error (set_nth i x l) i = Some x.
Proof. revert i. induction l as [|y l IH]; intros [|i] H; cbn in *; try lia; [reflexivity|apply IH; lia]. Qed.

Lemma nth_error_set_nth_neq {A} i j (x : A) l : i <> j -> nth_error (set_nth i x l) j = nth_error l j.
Proof. revert i j. induction l as [|y l IH]; intros [|i] [|j] H; cbn; try reflexivity; try lia. apply IH. lia. Qed.

Lemma acyc_set h c cl : acyc h -> Forall (cb_above c) (c_cbs cl) -> acyc (set_nth c cl h).
Proof.
  intros Ha Hc c' cl' H. destruct (Nat.eq_dec c c') as [<-|Hne].
  - destruct (Nat.lt_ge_cases c (length h)) as [Hl|Hl].
    + rewrite nth_error_set_nth_eq in H by exact Hl. injection H as <-. exact Hc.
    + assert (nth_error (set_nth c cl h) c = None) as E by (apply nth_error_None; rewrite set_nth_length; exact Hl). congruence.
  - rewrite nth_error_set_nth_neq in H by exact Hne. eapply Ha; eauto.
Qed.

Definition fs_ok (fs : fstate) : Prop := acyc (f_heap fs).

(* result: not out of fuel; and if Ok, the heap stays acyclic and keeps its length *)
Definition fres_ok (n : nat) (r : res fstate) : Prop :=
  nofuel r /\ forall fs', r = Ok fs' -> fs_ok fs' /\ length (f_heap fs') = n.

Lemma f_update_ok fuel : forall fs c n, fs_ok fs -> 0 < fuel -> length (f_heap fs) < fuel + c ->
  fres_ok (length (f_heap fs)) (f_update fuel fs c n).
Proof.
  induction fuel as [|fuel IH]; intros fs c n Ha H0 Hf; [lia|]. cbn [f_update].
  destruct (nth_error (f_heap fs) c) as [cl|] eqn:Ec; [|split; [apply nofuel_panic|discriminate]].
  assert (c < length (f_heap fs)) as Hc by (apply nth_error_Some; congruence).
  set (missing := (c_missing cl - 1)%Z).
  set (val := if (n <? 0)%Z || (c_val cl <? 0)%Z then (-1)%Z else (c_val cl + n)%Z).
  destruct ((missing =? 0)%Z || (val <? 0)%Z).
  - (* fire the callbacks of the cell, each an update of a younger cell *)
    pose proof (Ha c cl Ec) as Habove.
    set (fs1 := mkF (set_nth c (mkCell val missing []) (f_heap fs)) (f_log fs)).
    assert (fs_ok fs1 /\ length (f_heap fs1) = length (f_heap fs)) as [H1 H2].
    { split; [apply acyc_set; [exact Ha|constructor]|apply set_nth_length]. }
    revert H1 H2. generalize fs1. clear fs1. induction (c_cbs cl) as [|k r IHr]; intros fs1 H1 H2.
    + split; [apply nofuel_ok|]. intros fs' [= <-]. auto.
    + inversion Habove as [|? ? Hk Hr]; subst. destruct k as [id|c'].
      * apply IHr; auto.
      * cbn in Hk. destruct (IH fs1 c' val H1 ltac:(lia) ltac:(lia)) as [N1 N2].
        destruct (f_update fuel fs1 c' val) as [fs2|e] eqn:E2; cbn [bind].
        -- destruct (N2 fs2 eq_refl) as [A1 A2]. apply IHr; auto. congruence.
        -- split; [eapply nofuel_err; exact N1|discriminate].
  - split; [apply nofuel_ok|]. intros fs' [= <-]. split; [|apply set_nth_length].
    apply acyc_set; [exact Ha|]. exact (Ha c cl Ec).
Qed.

Lemma f_fire_ok fs k v : fs_ok fs -> fres_ok (length (f_heap fs)) (f_fire fs k v).
Proof.
  intros Ha. destruct k as [id|c]; cbn [f_fire].
  - split; [apply nofuel_ok|]. intros fs' [= <-]. auto.
  - apply f_update_ok; [exact Ha|lia|lia].
Qed.

Lemma f_when_ok fs c k : fs_ok fs -> cb_above c k -> fres_ok (length (f_heap fs)) (f_when fs c k).
Proof.
  intros Ha Hk. unfold f_when. destruct (nth_error (f_heap fs) c) as [cl|] eqn:Ec; [|split; [apply nofuel_panic|discriminate]].
  destruct (c_missing cl =? 0)%Z; [apply f_fire_ok; exact Ha|].
  split; [apply nofuel_ok|]. intros fs' [= <-]. split; [|apply set_nth_length].
  apply acyc_set; [exact Ha|]. cbn [c_cbs]. apply Forall_app. split; [exact (Ha c cl Ec)|constructor; [exact Hk|constructor]].
Qed.

Lemma f_new_ok fs cl : fs_ok fs -> c_cbs cl = [] -> fs_ok (fst (f_new fs cl)) /\ snd (f_new fs cl) = length (f_heap fs) /\
  length (f_heap (fst (f_new fs cl))) = S (length (f_heap fs)).
Proof.
  intros Ha Hc. unfold f_new. cbn [fst snd f_heap]. splits; [|reflexivity|rewrite app_length; cbn; lia].
  intros c cl' H. cbn [f_heap] in H. destruct (Nat.lt_ge_cases c (length (f_heap fs))) as [Hl|Hl].
  - rewrite nth_error_app1 in H by exact Hl. eapply Ha; eauto.
  - rewrite nth_error_app2 in H by exact Hl. destruct (c - length (f_heap fs)) as [|d]; cbn in H.
    + injection H as <-. rewrite Hc. constructor.
    + destruct d; discriminate.
Qed.

Lemma f_inc_ok fs c : fs_ok fs -> nofuel (f_inc fs c) /\ forall fs' c', f_inc fs c = Ok (fs', c') -> fs_ok fs'.
Proof.
  intros Ha. unfold f_inc. destruct (nth_error (f_heap fs) c) as [cl|] eqn:Ec; [|split; [apply nofuel_panic|discriminate]].
  assert (c < length (f_heap fs)) as Hc by (apply nth_error_Some; congruence).
  destruct (c_cbs cl) as [|k0 r] eqn:Ecb.
  - split; [apply nofuel_ok|]. intros fs' c' [= <- _]. apply acyc_set; [exact Ha|constructor].
  - destruct (f_new_ok fs (mkCell 1%Z 1%Z []) Ha eq_refl) as (N1 & N2 & N3).
    destruct (f_new fs (mkCell 1%Z 1%Z [])) as [fs1 r1]. cbn [fst snd] in *.
    destruct (f_when_ok fs1 c (CbUpd r1) N1 ltac:(cbn; lia)) as [W1 W2].
    split.
    + apply nofuel_bind; [exact W1|]. intros; apply nofuel_ok.
    + intros fs' c' H. apply bind_ok in H as (fs2 & Hw & H). injection H as <- _. apply (W2 fs2 Hw).
Qed.

Lemma f_fire_all_ok l : forall fs v, fs_ok fs -> fres_ok (length (f_heap fs)) (f_fire_all fs l v).
Proof.
  induction l as [|k r IH]; intros fs v Ha; cbn [f_fire_all].
  - split; [apply nofuel_ok|]. intros fs' [= <-]. auto.
  - destruct (f_fire_ok fs k v Ha) as [F1 F2]. destruct (f_fire fs k v) as [fs1|e] eqn:E; cbn [bind].
    + destruct (F2 fs1 eq_refl) as [A1 A2]. rewrite <- A2. apply IH. exact A1.
    + split; [eapply nofuel_err; exact F1|discriminate].
Qed.

(* ---- operations on writers *)
Section OpsFuel.
Variable D : nat.
Variable old : bool.
Variable choose : list Z -> Z.
Variable choose_rot : list (option Z) -> option Z.
Hypothesis HD : 2 <= D.

Notation do_append := (do_append D old choose choose_rot).
Notation close_w := (close_w D old choose choose_rot).
Notation step := (step D old choose choose_rot).
Notation steps := (steps D old choose choose_rot).
Notation run := (run D old choose choose_rot).

Definition st_ok (st : gstate) : Prop := fs_ok (g_f st).

(* an operation: never out of fuel, keeps the state in order *)
Definition op_ok {A} (st : gstate) (r : res A) (st_of : A -> gstate) : Prop :=
  nofuel r /\ forall a, r = Ok a -> st_ok (st_of a).

Lemma do_append_ok id a w st : st_ok st -> op_ok st (do_append id a w st) snd.
Proof.
  intros Hs. destruct w as [wid cl ch tail npn pn nc]. unfold PageTree.do_append.
  destruct npn as [c|]; [|split; [apply nofuel_panic|discriminate]].
  pose proof (append_tail_nofuel D old choose choose_rot HD tail id a (g_next st)) as Ht.
  destruct (PageTree.append_tail D old choose choose_rot tail id a (g_next st)) as [[tail' nx]|e]; cbn [bind];
    [|split; [eapply nofuel_err; exact Ht|discriminate]].
  (* the loop over the pending callbacks *)
  assert (forall l fs, fs_ok fs ->
            fres_ok (length (f_heap fs))
              ((fix go (l : list nat) (fs : fstate) : res fstate :=
                  match l with [] => Ok fs | k :: r => bind (f_when fs c (CbUser k)) (go r) end) l fs)) as Hgo.
  { induction l as [|k r IH]; intros fs Ha.
    - split; [apply nofuel_ok|]. intros fs' [= <-]. auto.
    - destruct (f_when_ok fs c (CbUser k) Ha I) as [W1 W2]. destruct (f_when fs c (CbUser k)) as [fs1|e] eqn:E; cbn [bind].
      + destruct (W2 fs1 eq_refl) as [A1 A2]. rewrite <- A2. apply IH. exact A1.
      + split; [eapply nofuel_err; exact W1|discriminate]. }
  destruct (Hgo pn (g_f st) Hs) as [G1 G2].
  match goal with |- op_ok _ (bind ?X _) _ => destruct X as [fs1|e] eqn:E end; cbn [bind]; [|split; [eapply nofuel_err; exact G1|discriminate]].
  destruct (G2 fs1 eq_refl) as [A1 _]. destruct (f_inc_ok fs1 c A1) as [I1 I2].
  destruct (f_inc fs1 c) as [[fs2 c']|e] eqn:E2; cbn [bind]; [|split; [eapply nofuel_err; exact I1|discriminate]].
  split; [apply nofuel_ok|]. intros [w' st'] [= <- <-]. cbn. exact (I2 _ _ eq_refl).
Qed.

Lemma do_new_range_ok w st : st_ok st -> op_ok st (do_new_range w st) snd.
Proof.
  intros Hs. destruct w as [wid cl ch tail npn pn nc]. unfold do_new_range.
  destruct npn as [c|]; [|split; [apply nofuel_panic|discriminate]].
  destruct (nth_error (f_heap (g_f st)) c) as [cl0|] eqn:Ec; cbn [is_none]; [|split; [apply nofuel_panic|discriminate]].
  assert (c < length (f_heap (g_f st))) as Hc by (apply nth_error_Some; congruence).
  destruct (f_new_ok (g_f st) (mkCell 0%Z 2%Z []) Hs eq_refl) as (N1 & N2 & N3).
  destruct (f_new (g_f st) (mkCell 0%Z 2%Z [])) as [fs1 c']. cbn [fst snd] in *.
  destruct (f_when_ok fs1 c (CbUpd c') N1 ltac:(cbn; lia)) as [W1 W2].
  destruct (f_when fs1 c (CbUpd c')) as [fs2|e] eqn:E; cbn [bind]; [|split; [eapply nofuel_err; exact W1|discriminate]].
  split; [apply nofuel_ok|]. intros [w' st'] [= <- <-]. cbn. apply (W2 fs2 eq_refl).
Qed.

Lemma close_w_ok w : forall st, st_ok st -> op_ok st (close_w w st) snd.
Proof.
  induction w as [wid cl ch tail npn pn nc IH] using writer_ind'. intros st Hs. cbn [PageTree.close_w].
  (* the loop over the children *)
  assert (forall nodes st0, st_ok st0 ->
     op_ok st0
       ((fix go (l : list writer) (nodes : list ninfo) (st : gstate) {struct l} : res (list ninfo * gstate) :=
           match l with
           | [] => Ok (nodes, st)
           | c :: r =>
             bind (if w_closed c then Ok (c, st) else close_w c st) (fun '(c', st1) =>
             bind (merge D old choose choose_rot nodes (w_tail c') (g_next st1)) (fun '(nodes', nx) =>
               go r nodes' (with_next st1 nx)))
           end) ch nodes st0) snd) as Hgo.
  { induction ch as [|c cs IHc]; intros nodes st0 H0.
    - split; [apply nofuel_ok|]. intros [n s] [= _ <-]. exact H0.
    - inversion IH as [|? ? Pc Pcs]; subst.
      assert (op_ok st0 (if w_closed c then Ok (c, st0) else close_w c st0) snd) as [C1 C2].
      { destruct (w_closed c); [split; [apply nofuel_ok|intros [c' s] [= _ <-]; exact H0]|apply Pc; exact H0]. }
      destruct (if w_closed c then Ok (c, st0) else close_w c st0) as [[c' st1]|e]; cbn [bind]; [|split; [eapply nofuel_err; exact C1|discriminate]].
      pose proof (C2 _ eq_refl) as Hs1. cbn in Hs1.
      pose proof (merge_nofuel D old choose choose_rot HD nodes (w_tail c') (g_next st1)) as Hm.
      destruct (merge D old choose choose_rot nodes (w_tail c') (g_next st1)) as [[nodes' nx]|e]; cbn [bind]; [|split; [eapply nofuel_err; exact Hm|discriminate]].
      apply IHc; [exact Pcs|exact Hs1]. }
  destruct (Hgo [] st Hs) as [G1 G2].
  match goal with |- op_ok _ (bind ?X _) _ => destruct X as [[nodes st1]|e] eqn:E end; cbn [bind]; [|split; [eapply nofuel_err; exact G1|discriminate]].
  pose proof (G2 _ eq_refl) as Hs1. cbn in Hs1.
  pose proof (merge_nofuel D old choose choose_rot HD nodes tail (g_next st1)) as Hm.
  destruct (merge D old choose choose_rot nodes tail (g_next st1)) as [[tail' nx]|e]; cbn [bind]; [|split; [eapply nofuel_err; exact Hm|discriminate]].
  assert (fres_ok (length (f_heap (g_f st1)))
            (match nc with [] => Ok (g_f st1) | _ :: _ => f_fire_all (g_f st1) nc (Z.of_nat (sum_counts tail')) end)) as [F1 F2].
  { destruct nc; [split; [apply nofuel_ok|intros fs' [= <-]; auto]|apply f_fire_all_ok; exact Hs1]. }
  match goal with |- op_ok _ (bind ?X _) _ => destruct X as [fs1|e] eqn:E1 end; cbn [bind]; [|split; [eapply nofuel_err; exact F1|discriminate]].
  destruct (F2 fs1 eq_refl) as [A1 _].
  destruct (f_fire_all_ok (map CbUser pn) fs1 (-1)%Z A1) as [B1 B2].
  destruct (f_fire_all fs1 (map CbUser pn) (-1)%Z) as [fs2|e] eqn:E2; cbn [bind]; [|split; [eapply nofuel_err; exact B1|discriminate]].
  split; [apply nofuel_ok|]. intros [w' st'] [= <- <-]. cbn. apply (B2 fs2 eq_refl).
Qed.

Lemma with_writer_ok id f : (forall w st, st_ok st -> op_ok st (f w st) (fun r => snd (fst r))) ->
  forall w st, st_ok st ->
  nofuel (with_writer id f w st) /\
  forall r, with_writer id f w st = Ok (Some r) -> st_ok (snd (fst r)).
Proof.
  intros Hf. induction w as [wid cl ch tail npn pn nc IH] using writer_ind'. intros st Hs.
  rewrite with_writer_eq. destruct (match wid with Some i => i =? id | None => false end).
  - destruct (Hf (Wr wid cl ch tail npn pn nc) st Hs) as [F1 F2].
    destruct (f (Wr wid cl ch tail npn pn nc) st) as [r|e]; cbn [bind]; [|split; [eapply nofuel_err; exact F1|discriminate]].
    split; [apply nofuel_ok|]. intros r' [= <-]. apply F2. reflexivity.
  - assert (nofuel (ww_list id f st ch) /\ forall r, ww_list id f st ch = Ok (Some r) -> st_ok (snd (fst r))) as [L1 L2].
    { clear - IH Hs. induction ch as [|c cs IHc]; cbn [ww_list].
      - split; [apply nofuel_ok|discriminate].
      - inversion IH as [|? ? Pc Pcs]; subst. destruct (Pc st Hs) as [C1 C2].
        destruct (with_writer id f c st) as [[[[c' st'] ok]|]|e]; cbn [bind].
        + split; [apply nofuel_ok|]. intros r [= <-]. cbn. apply (C2 _ eq_refl).
        + destruct (IHc Pcs) as [R1 R2]. destruct (ww_list id f st cs) as [[[[r' st'] ok]|]|e]; cbn [bind].
          * split; [apply nofuel_ok|]. intros r [= <-]. cbn. apply (R2 _ eq_refl).
          * split; [apply nofuel_ok|discriminate].
          * split; [eapply nofuel_err; exact R1|discriminate].
        + split; [eapply nofuel_err; exact C1|discriminate]. }
    destruct (ww_list id f st ch) as [[[[ch' st'] ok]|]|e]; cbn [bind].
    + split; [apply nofuel_ok|]. intros r [= <-]. cbn. apply (L2 _ eq_refl).
    + split; [apply nofuel_ok|discriminate].
    + split; [eapply nofuel_err; exact L1|discriminate].
Qed.

Lemma guarded_ok f : (forall w st, st_ok st -> op_ok st (f w st) snd) ->
  forall w st, st_ok st -> op_ok st (guarded f w st) (fun r => snd (fst r)).
Proof.
  intros Hf w st Hs. unfold guarded. destruct (w_closed w).
  - split; [apply nofuel_ok|]. intros r [= <-]. exact Hs.
  - destruct (Hf w st Hs) as [F1 F2]. destruct (f w st) as [[w' st']|e]; cbn [bind]; [|split; [eapply nofuel_err; exact F1|discriminate]].
    split; [apply nofuel_ok|]. intros r [= <-]. cbn. apply (F2 _ eq_refl).
Qed.

Lemma step_ok root st o : st_ok st -> op_ok st (step root st o) (fun r => snd (fst r)).
Proof.
  intros Hs. unfold PageTree.step.
  assert (forall id f, (forall w st, st_ok st -> op_ok st (f w st) (fun r => snd (fst r))) ->
     op_ok st (bind (with_writer id f root st) (fun r =>
                 match r with
                 | Some x => Ok x
                 | None => match o with
                           | ONextPN _ k => bind (f_fire (g_f st) (CbUser k) (-1)%Z) (fun fs => Ok (root, with_f st fs, true))
                           | _ => Ok (root, st, false)
                           end
                 end)) (fun r => snd (fst r))) as Hgen.
  { intros id f Hf. destruct (with_writer_ok id f Hf root st Hs) as [W1 W2].
    destruct (with_writer id f root st) as [[r|]|e]; cbn [bind].
    - split; [apply nofuel_ok|]. intros r' [= <-]. apply (W2 _ eq_refl).
    - destruct o; split; try apply nofuel_ok; intros r' [= <-]; exact Hs.
    - split; [eapply nofuel_err; exact W1|discriminate]. }
  destruct o as [w id a|w|w|w k].
  - apply Hgen. apply guarded_ok. intros; apply do_append_ok; assumption.
  - apply Hgen. apply guarded_ok. intros; apply do_new_range_ok; assumption.
  - destruct w as [|w]; [split; [apply nofuel_other|discriminate]|]. apply Hgen. apply guarded_ok. intros; apply close_w_ok; assumption.
  - apply Hgen. intros wr st0 Hs0. destruct (w_closed wr).
    + destruct (f_fire_ok (g_f st0) (CbUser k) (-1)%Z Hs0) as [F1 F2].
      destruct (f_fire (g_f st0) (CbUser k) (-1)%Z) as [fs|e]; cbn [bind]; [|split; [eapply nofuel_err; exact F1|discriminate]].
      split; [apply nofuel_ok|]. intros r' [= <-]. cbn. apply (F2 _ eq_refl).
    + destruct wr. cbn. split; [apply nofuel_ok|]. intros r' [= <-]. exact Hs0.
Qed.

Lemma steps_ok prog : forall root st acc, st_ok st -> op_ok st (steps root st prog acc) (fun r => snd (fst r)).
Proof.
  induction prog as [|o prog IH]; intros root st acc Hs; cbn [PageTree.steps].
  - split; [apply nofuel_ok|]. intros r [= <-]. exact Hs.
  - destruct (step_ok root st o Hs) as [S1 S2]. destruct (step root st o) as [[[r1 s1] ok]|e]; cbn [bind]; [|split; [eapply nofuel_err; exact S1|discriminate]].
    apply IH. apply (S2 _ eq_refl).
Qed.

(* termination: the fuel the model provides always suffices *)
Theorem run_nofuel prog : nofuel (run prog).
Proof.
  unfold PageTree.run. cbn [init_state].
  assert (st_ok (mkG 0 (mkF [mkCell 0%Z 0%Z []] []) 1)) as H0.
  { intros c cl H. destruct c as [|[|c]]; cbn in H; try discriminate. injection H as <-. constructor. }
  destruct (steps_ok prog (Wr (Some 0) false [] [] (Some 0) [] []) _ [] H0) as [S1 S2].
  destruct (steps _ _ prog []) as [[[root st] acc]|e]; cbn [bind]; [|eapply nofuel_err; exact S1].
  pose proof (S2 _ eq_refl) as Hs. cbn in Hs.
  destruct (close_w_ok root st Hs) as [C1 C2]. destruct (close_w root st) as [[root' st1]|e]; cbn [bind]; [|eapply nofuel_err; exact C1].
  apply nofuel_bind; [apply (collapse_nofuel D old choose choose_rot HD); lia|].
  intros [tail nx] _. destruct tail; apply nofuel_ok.
Qed.

End OpsFuel.
