(* C16 - the page tree writer and readers (pagetree/{writer,subtree,future,read,simple}.go).

   Executable model, definitions only.

   Pages are added through AppendPageDict (AppendPage/AppendPageRef differ only in
   when the page dictionary is encoded).  A page dictionary is reduced to what the
   property talks about: its reference, its /Parent and the inheritable attributes
   (values are integers standing for PDF objects with distinct textual forms).

   Nondeterminism: inheritKey/inheritRotate iterate over a Go map, so which of
   several equally good values is hoisted is not determined by the source.  The
   model takes the two choices as parameters [choose] / [choose_rot]; every theorem
   holds for all choice functions.

   Panics of the Go code (mergeNodes' guard, slice index out of range) are [Err Panic]. *)
From Coq Require Import List Arith Bool ZArith.
From GoPdf.Base Require Import Res.
Import ListNotations.

(* ------------------------------------------------------------------ attributes *)

Inductive key := KMediaBox | KCropBox | KRotate | KAA | KResources.

Definition key_eqb (a b : key) : bool :=
  match a, b with
  | KMediaBox, KMediaBox | KCropBox, KCropBox | KRotate, KRotate | KAA, KAA | KResources, KResources => true
  | _, _ => false
  end.

Definition attrs := key -> option Z.
Definition a_empty : attrs := fun _ => None.
Definition a_set (k : key) (v : option Z) (a : attrs) : attrs :=
  fun k' => if key_eqb k' k then v else a k'.

Definition opt_eqb (a b : option Z) : bool :=
  match a, b with
  | Some x, Some y => Z.eqb x y
  | None, None => true
  | _, _ => false
  end.

Definition is_none {A} (o : option A) : bool := match o with None => true | Some _ => false end.

Fixpoint somes {A} (l : list (option A)) : list A :=
  match l with [] => [] | Some x :: r => x :: somes r | None :: r => somes r end.

(* ----------------------------------------------------------------------- nodes *)

Inductive ref := RP (id : nat) | RN (n : nat).   (* page objects / allocated /Pages objects *)

Definition ref_eqb (a b : ref) : bool :=
  match a, b with
  | RP x, RP y => x =? y
  | RN x, RN y => x =? y
  | _, _ => false
  end.

Inductive node :=
| Page (r : ref) (parent : option ref) (a : attrs)
| Pages (r : ref) (parent : option ref) (a : attrs) (count : nat) (kids : list node).

Definition node_ref (n : node) : ref := match n with Page r _ _ => r | Pages r _ _ _ _ => r end.
Definition node_parent (n : node) : option ref := match n with Page _ p _ => p | Pages _ p _ _ _ => p end.
Definition node_attrs (n : node) : attrs := match n with Page _ _ a => a | Pages _ _ a _ _ => a end.
Definition set_attrs (a : attrs) (n : node) : node :=
  match n with Page r p _ => Page r p a | Pages r p _ c ks => Pages r p a c ks end.
Definition set_parent (p : option ref) (n : node) : node :=
  match n with Page r _ a => Page r p a | Pages r _ a c ks => Pages r p a c ks end.

(* the pages below a node, left to right *)
Fixpoint leaves (n : node) : list ref :=
  match n with
  | Page r _ _ => [r]
  | Pages _ _ _ _ kids => flat_map leaves kids
  end.

Record ninfo := mkN { n_node : node; n_count : nat; n_depth : nat }.

Definition depths (l : list ninfo) : list nat := map n_depth l.

Section PageTree.
Variable D : nat.                                    (* maxDegree *)
Variable old : bool.                                 (* version < 1.3: /AA is inheritable *)
Variable choose : list Z -> Z.                       (* inheritKey: which value goes to the parent *)
Variable choose_rot : list (option Z) -> option Z.   (* inheritRotate: None = keep the default *)

(* ------------------------------------------------------------------- hoisting *)

(* inheritKey: acts only when every child has the key *)
Definition inherit_key (k : key) (pa : attrs) (cs : list node) : attrs * list node :=
  let vals := map (fun c => node_attrs c k) cs in
  if existsb is_none vals then (pa, cs) else
  let v := choose (somes vals) in
  if existsb (opt_eqb (Some v)) vals then
    (a_set k (Some v) pa,
     map (fun c => if opt_eqb (node_attrs c k) (Some v) then set_attrs (a_set k None (node_attrs c)) c else c) cs)
  else (pa, cs).

Definition is_default_rot (o : option Z) : bool :=
  match o with None => true | Some v => Z.eqb v 0 end.

(* inheritRotate: a missing /Rotate and an explicit 0 both mean "needs the default" *)
Definition inherit_rotate (pa : attrs) (cs : list node) : attrs * list node :=
  let vals := map (fun c => node_attrs c KRotate) cs in
  (* first loop: an explicit default is removed from the child *)
  let cs1 := map (fun c => if opt_eqb (node_attrs c KRotate) (Some 0%Z)
                           then set_attrs (a_set KRotate None (node_attrs c)) c else c) cs in
  let num_default := length (filter is_default_rot vals) in
  let best := choose_rot vals in
  let use_default :=
    match best with
    | None => true
    | Some b => Z.eqb b 0 || negb (existsb (opt_eqb (Some b)) vals)
    end in
  if use_default then
    (if num_default =? 0 then pa else a_set KRotate (Some 0%Z) pa, cs1)
  else
    (a_set KRotate best pa,
     map (fun c =>
            let r := node_attrs c KRotate in
            if opt_eqb r best then set_attrs (a_set KRotate None (node_attrs c)) c
            else if is_none r then set_attrs (a_set KRotate (Some 0%Z) (node_attrs c)) c
            else c) cs1).

Definition inherit (pa : attrs) (cs : list node) : attrs * list node :=
  let '(pa, cs) := inherit_key KMediaBox pa cs in
  let '(pa, cs) := inherit_key KCropBox pa cs in
  let '(pa, cs) := inherit_rotate pa cs in
  if old then inherit_key KAA pa cs else (pa, cs).

(* ----------------------------------------------------------------- mergeNodes *)

Definition sum_counts (l : list ninfo) : nat := fold_right (fun i s => n_count i + s) 0 l.
Definition max_depth (l : list ninfo) : nat := fold_right (fun i d => Nat.max (n_depth i) d) 0 l.

(* mergeNodes(nodes, a, b): nodes a..b-1 become the kids of a new /Pages node.
   [next] is the allocator of the PDF writer. *)
Definition merge_nodes (nodes : list ninfo) (a b : nat) (next : nat) : res (list ninfo * nat) :=
  if (length nodes <? b) || (b - a <? 2) || (D <? b - a) then Err Panic else
  let cs := firstn (b - a) (skipn a nodes) in
  let pref := RN next in
  let kids0 := map (fun i => set_parent (Some pref) (n_node i)) cs in
  let '(pa, kids) := inherit a_empty kids0 in
  let cnt := sum_counts cs in
  Ok (firstn a nodes ++ [mkN (Pages pref None pa cnt kids) cnt (S (max_depth cs))] ++ skipn b nodes, S next).

Definition depth_at (i : nat) (l : list ninfo) : nat := nth i (depths l) 0.

(* the balancing loop of AppendPageDict *)
Fixpoint merge_tail (fuel : nat) (tail : list ninfo) (next : nat) : res (list ninfo * nat) :=
  match fuel with
  | O => Err OutOfFuel
  | S fuel =>
    let n := length tail in
    if n <? D then Ok (tail, next)
    else if negb (depth_at (n - 1) tail =? depth_at (n - D) tail) then Ok (tail, next)
    else bind (merge_nodes tail (n - D) n next) (fun '(t, nx) => merge_tail fuel t nx)
  end.

Definition append_tail (tail : list ninfo) (id : nat) (a : attrs) (next : nat) : res (list ninfo * nat) :=
  let tail' := tail ++ [mkN (Page (RP id) None a) 1 0] in
  merge_tail (S (length tail')) tail' next.

(* [for start > 0 && a[start-1].depth == a[start].depth { start++ }]; a[start] may be out of range *)
Fixpoint adj_start (fuel : nat) (ds : list nat) (start : nat) : res nat :=
  match fuel with
  | O => Err OutOfFuel
  | S fuel =>
    if 0 <? start then
      if length ds <=? start then Err Panic
      else if nth (start - 1) ds 0 =? nth start ds 0 then adj_start fuel ds (S start)
      else Ok start
    else Ok start
  end.

(* one round of collapse / of the first loop of merge: the last (at most D) nodes become one *)
Definition squeeze (a : list ninfo) (next : nat) : res (list ninfo * nat) :=
  bind (adj_start (S (length a)) (depths a) (length a - D)) (fun start =>
    merge_nodes a start (length a) next).

Fixpoint collapse (fuel : nat) (tail : list ninfo) (next : nat) : res (list ninfo * nat) :=
  match fuel with
  | O => Err OutOfFuel
  | S fuel =>
    if 1 <? length tail
    then bind (squeeze tail next) (fun '(t, nx) => collapse fuel t nx)
    else Ok (tail, next)
  end.

(* ---------------------------------------------------------------------- merge *)

Definition last_depth (a : list ninfo) : nat := depth_at (length a - 1) a.

Fixpoint merge_loop1 (fuel : nat) (a : list ninfo) (next_depth : nat) (next : nat) : res (list ninfo * nat) :=
  match fuel with
  | O => Err OutOfFuel
  | S fuel =>
    if (1 <? length a) && (last_depth a <? next_depth)
    then bind (squeeze a next) (fun '(t, nx) => merge_loop1 fuel t next_depth nx)
    else Ok (a, next)
  end.

(* number of leading elements equal to d *)
Fixpoint lead_run (d : nat) (ds : list nat) : nat :=
  match ds with
  | x :: r => if x =? d then S (lead_run d r) else 0
  | [] => 0
  end.

(* [for end >= start+maxDegree { a = mergeNodes(a, start, start+maxDegree); start++; end -= maxDegree-1; changed = true }] *)
Fixpoint merge_inner (fuel : nat) (a : list ninfo) (start stop : nat) (changed : bool) (next : nat)
  : res (list ninfo * nat * nat * bool * nat) :=
  match fuel with
  | O => Err OutOfFuel
  | S fuel =>
    if start + D <=? stop
    then bind (merge_nodes a start (start + D) next) (fun '(t, nx) =>
           merge_inner fuel t (S start) (stop - (D - 1)) true nx)
    else Ok (a, start, stop, changed, next)
  end.

Fixpoint merge_loop3 (fuel : nat) (a : list ninfo) (start stop : nat) (depth prev_depth : nat) (next : nat)
  : res (list ninfo * nat) :=
  match fuel with
  | O => Err OutOfFuel
  | S fuel =>
    bind (merge_inner (S stop) a start stop false next) (fun '(a, start, stop, changed, next) =>
      if ((prev_depth <=? depth) && negb changed) || (start =? 0) then Ok (a, next)
      else
        (* a node created from a window that mixes the two depths has depth prev_depth+1: go on there *)
        let depth := if changed && (depth <? prev_depth) then prev_depth else depth in
        let stop := start in
        let start := start - lead_run (S depth) (rev (firstn start (depths a))) in
        merge_loop3 fuel a start stop (S depth) prev_depth next)
  end.

Definition set_depth (d : nat) (i : ninfo) : ninfo := mkN (n_node i) (n_count i) d.

(* merge(a, b): the tails of two consecutive page ranges become one tail *)
Definition merge (a b : list ninfo) (next : nat) : res (list ninfo * nat) :=
  match a, b with
  | [], _ => Ok (b, next)
  | _, [] => Ok (a, next)
  | _, b0 :: _ =>
    let next_depth := n_depth b0 in
    bind (merge_loop1 (S (length a)) a next_depth next) (fun '(a, next) =>
      let a := match a with
               | [x] => if n_depth x <? next_depth then [set_depth next_depth x] else [x]
               | _ => a
               end in
      let prev_depth := last_depth a in
      let pos := length a in
      let ab := a ++ b in
      let start := pos - lead_run prev_depth (rev (depths a)) in
      let stop := S pos + lead_run next_depth (skipn (S pos) (depths ab)) in
      merge_loop3 (S (length ab + prev_depth)) ab start stop next_depth prev_depth next)
  end.

(* -------------------------------------------------------------------- futureInt *)

Inductive cb := CbUser (id : nat) | CbUpd (c : nat).   (* a user callback / the method value futureInt.Update of cell c *)

Record cell := mkCell { c_val : Z; c_missing : Z; c_cbs : list cb }.

Record fstate := mkF { f_heap : list cell; f_log : list (nat * Z) }.

Fixpoint set_nth {A} (i : nat) (x : A) (l : list A) : list A :=
  match l, i with
  | [], _ => []
  | _ :: r, O => x :: r
  | y :: r, S i => y :: set_nth i x r
  end.

(* Update(n) on cell c; callbacks that are Updates of other cells cascade *)
Fixpoint f_update (fuel : nat) (fs : fstate) (c : nat) (n : Z) : res fstate :=
  match fuel with
  | O => Err OutOfFuel
  | S fuel =>
    match nth_error (f_heap fs) c with
    | None => Err Panic
    | Some cl =>
      let missing := (c_missing cl - 1)%Z in
      let val := if (n <? 0)%Z || (c_val cl <? 0)%Z then (-1)%Z else (c_val cl + n)%Z in
      if (missing =? 0)%Z || (val <? 0)%Z then
        let fs1 := mkF (set_nth c (mkCell val missing []) (f_heap fs)) (f_log fs) in
        (fix fire (l : list cb) (fs : fstate) : res fstate :=
           match l with
           | [] => Ok fs
           | CbUser id :: r => fire r (mkF (f_heap fs) (f_log fs ++ [(id, val)]))
           | CbUpd c' :: r => bind (f_update fuel fs c' val) (fire r)
           end) (c_cbs cl) fs1
      else Ok (mkF (set_nth c (mkCell val missing (c_cbs cl)) (f_heap fs)) (f_log fs))
    end
  end.

Definition f_fire (fs : fstate) (k : cb) (v : Z) : res fstate :=
  match k with
  | CbUser id => Ok (mkF (f_heap fs) (f_log fs ++ [(id, v)]))
  | CbUpd c => f_update (S (length (f_heap fs))) fs c v
  end.

Definition f_when (fs : fstate) (c : nat) (k : cb) : res fstate :=
  match nth_error (f_heap fs) c with
  | None => Err Panic
  | Some cl =>
    if (c_missing cl =? 0)%Z then f_fire fs k (c_val cl)
    else Ok (mkF (set_nth c (mkCell (c_val cl) (c_missing cl) (c_cbs cl ++ [k])) (f_heap fs)) (f_log fs))
  end.

Definition f_new (fs : fstate) (cl : cell) : fstate * nat :=
  (mkF (f_heap fs ++ [cl]) (f_log fs), length (f_heap fs)).

(* Inc: in place when nobody waits for the value *)
Definition f_inc (fs : fstate) (c : nat) : res (fstate * nat) :=
  match nth_error (f_heap fs) c with
  | None => Err Panic
  | Some cl =>
    match c_cbs cl with
    | [] => Ok (mkF (set_nth c (mkCell (c_val cl + 1)%Z (c_missing cl) []) (f_heap fs)) (f_log fs), c)
    | _ :: _ =>
      let '(fs1, r) := f_new fs (mkCell 1%Z 1%Z []) in
      bind (f_when fs1 c (CbUpd r)) (fun fs2 => Ok (fs2, r))
    end
  end.

Fixpoint f_fire_all (fs : fstate) (l : list cb) (v : Z) : res fstate :=
  match l with
  | [] => Ok fs
  | k :: r => bind (f_fire fs k v) (fun fs' => f_fire_all fs' r v)
  end.

(* -------------------------------------------------------------------- writers *)

(* id = None: the anonymous Writer NewRange creates for the pages added before the range *)
Inductive writer :=
| Wr (id : option nat) (closed : bool) (children : list writer) (tail : list ninfo)
     (npn : option nat)          (* nextPageNumber: address of a futureInt *)
     (pncbs : list nat)          (* nextPageNumberCb *)
     (numcbs : list cb).         (* numPagesCb *)

Definition w_id (w : writer) := match w with Wr i _ _ _ _ _ _ => i end.
Definition w_closed (w : writer) := match w with Wr _ c _ _ _ _ _ => c end.
Definition w_children (w : writer) := match w with Wr _ _ c _ _ _ _ => c end.
Definition w_tail (w : writer) := match w with Wr _ _ _ t _ _ _ => t end.

Record gstate := mkG {
  g_next : nat;        (* allocator for /Pages objects *)
  g_f : fstate;
  g_wid : nat }.       (* next writer id *)

Definition with_f (st : gstate) (fs : fstate) : gstate := mkG (g_next st) fs (g_wid st).
Definition with_next (st : gstate) (nx : nat) : gstate := mkG nx (g_f st) (g_wid st).

(* AppendPageDict on an open writer *)
Definition do_append (id : nat) (a : attrs) (w : writer) (st : gstate) : res (writer * gstate) :=
  match w with
  | Wr wid cl ch tail npn pncbs numcbs =>
    match npn with
    | None => Err Panic                      (* nil futureInt: cannot happen for a Writer the caller holds *)
    | Some c =>
      bind (append_tail tail id a (g_next st)) (fun '(tail', nx) =>
      bind ((fix go (l : list nat) (fs : fstate) : res fstate :=
               match l with
               | [] => Ok fs
               | k :: r => bind (f_when fs c (CbUser k)) (go r)
               end) pncbs (g_f st)) (fun fs1 =>
      bind (f_inc fs1 c) (fun '(fs2, c') =>
        Ok (Wr wid cl ch tail' (Some c') [] numcbs, mkG nx fs2 (g_wid st)))))
    end
  end.

(* the loop of AppendPageDict runs after the callbacks in the Go code; the two do not interact *)

Definition do_new_range (w : writer) (st : gstate) : res (writer * gstate) :=
  match w with
  | Wr wid cl ch tail npn pncbs numcbs =>
    match npn with
    | None => Err Panic
    | Some c =>
      if is_none (nth_error (f_heap (g_f st)) c) then Err Panic else     (* w.nextPageNumber is a valid pointer *)
      let ch1 := match tail with [] => ch | _ :: _ => ch ++ [Wr None false [] tail None [] []] end in
      let '(fs1, c') := f_new (g_f st) (mkCell 0%Z 2%Z []) in
      bind (f_when fs1 c (CbUpd c')) (fun fs2 =>
        let sub := Wr (Some (g_wid st)) false [] [] (Some c) [] [CbUpd c'] in
        Ok (Wr wid cl (ch1 ++ [sub]) [] (Some c') pncbs numcbs, mkG (g_next st) fs2 (S (g_wid st))))
    end
  end.

Definition do_next_pn (k : nat) (w : writer) (st : gstate) : res (writer * gstate) :=
  match w with
  | Wr wid cl ch tail npn pncbs numcbs => Ok (Wr wid cl ch tail npn (pncbs ++ [k]) numcbs, st)
  end.

(* Close of a writer that is not yet closed (without the root-only part) *)
Fixpoint close_w (w : writer) (st : gstate) : res (writer * gstate) :=
  match w with
  | Wr wid cl ch tail npn pncbs numcbs =>
    bind ((fix go (l : list writer) (nodes : list ninfo) (st : gstate) : res (list ninfo * gstate) :=
             match l with
             | [] => Ok (nodes, st)
             | c :: r =>
               bind (if w_closed c then Ok (c, st) else close_w c st) (fun '(c', st1) =>
               bind (merge nodes (w_tail c') (g_next st1)) (fun '(nodes', nx) =>
                 go r nodes' (with_next st1 nx)))
             end) ch [] st) (fun '(nodes, st1) =>
    bind (merge nodes tail (g_next st1)) (fun '(tail', nx) =>
    bind (match numcbs with
          | [] => Ok (g_f st1)
          | _ :: _ => f_fire_all (g_f st1) numcbs (Z.of_nat (sum_counts tail'))
          end) (fun fs1 =>
    bind (f_fire_all fs1 (map CbUser pncbs) (-1)%Z) (fun fs2 =>
      Ok (Wr wid true [] tail' npn [] numcbs, mkG nx fs2 (g_wid st1))))))
  end.

(* apply f to the writer with the given id; None: no such writer.  f also says whether the
   operation was carried out (true) or refused (false). *)
Fixpoint with_writer (id : nat) (f : writer -> gstate -> res (writer * gstate * bool)) (w : writer) (st : gstate)
  : res (option (writer * gstate * bool)) :=
  match w with
  | Wr wid cl ch tail npn pncbs numcbs =>
    if match wid with Some i => i =? id | None => false end
    then bind (f w st) (fun r => Ok (Some r))
    else
      bind ((fix go (l : list writer) : res (option (list writer * gstate * bool)) :=
               match l with
               | [] => Ok None
               | c :: r =>
                 bind (with_writer id f c st) (fun o =>
                   match o with
                   | Some (c', st', ok) => Ok (Some (c' :: r, st', ok))
                   | None => bind (go r) (fun o' =>
                               match o' with
                               | Some (r', st', ok) => Ok (Some (c :: r', st', ok))
                               | None => Ok None
                               end)
                   end)
               end) ch) (fun o =>
        match o with
        | Some (ch', st', ok) => Ok (Some (Wr wid cl ch' tail npn pncbs numcbs, st', ok))
        | None => Ok None
        end)
  end.

Inductive op :=
| OAppend (w : nat) (page : nat) (a : attrs)
| ONewRange (w : nat)
| OClose (w : nat)           (* a sub-range; the root is closed by [run] *)
| ONextPN (w : nat) (k : nat).

(* an operation on a closed writer is refused (an error is returned, nothing changes),
   except NextPageNumber, which reports -1 at once *)
Definition guarded (f : writer -> gstate -> res (writer * gstate)) (w : writer) (st : gstate)
  : res (writer * gstate * bool) :=
  if w_closed w then Ok (w, st, false) else bind (f w st) (fun '(w', st') => Ok (w', st', true)).

Definition op_fun (o : op) : nat * (writer -> gstate -> res (writer * gstate * bool)) :=
  match o with
  | OAppend w id a => (w, guarded (do_append id a))
  | ONewRange w => (w, guarded do_new_range)
  | OClose w => (w, guarded close_w)
  | ONextPN w k =>
    (w, fun wr st =>
          if w_closed wr then bind (f_fire (g_f st) (CbUser k) (-1)%Z) (fun fs => Ok (wr, with_f st fs, true))
          else bind (do_next_pn k wr st) (fun '(w', st') => Ok (w', st', true)))
  end.

Definition step (root : writer) (st : gstate) (o : op) : res (writer * gstate * bool) :=
  match o with
  | OClose 0 => Err Other     (* the root writer is closed by [run], once, at the end *)
  | _ =>
    let '(id, f) := op_fun o in
    bind (with_writer id f root st) (fun r =>
      match r with
      | Some x => Ok x
      | None =>
        (* the writer is no longer in the tree: it lies below a closed one and is closed itself *)
        match o with
        | ONextPN _ k => bind (f_fire (g_f st) (CbUser k) (-1)%Z) (fun fs => Ok (root, with_f st fs, true))
        | _ => Ok (root, st, false)
        end
      end)
  end.

Fixpoint steps (root : writer) (st : gstate) (prog : list op) (acc : list bool)
  : res (writer * gstate * list bool) :=
  match prog with
  | [] => Ok (root, st, acc)
  | o :: r => bind (step root st o) (fun '(root', st', ok) => steps root' st' r (acc ++ [ok]))
  end.

Definition init_state : writer * gstate :=
  (Wr (Some 0) false [] [] (Some 0) [] [], mkG 0 (mkF [mkCell 0%Z 0%Z []] []) 1).

(* wrapIfLeaf *)
Definition wrap_if_leaf (i : ninfo) (next : nat) : node :=
  match n_node i with
  | Pages _ _ _ _ _ => n_node i
  | Page r _ a => Pages (RN next) None a_empty 1 [Page r (Some (RN next)) a]
  end.

Record outcome := mkOut {
  o_root : option node;              (* None: "no pages in document" *)
  o_accepted : list bool;            (* per operation: carried out / refused *)
  o_log : list (nat * Z) }.          (* callback invocations, in order *)

(* the whole history: the operations, then Close of the root writer *)
Definition run (prog : list op) : res outcome :=
  let '(root, st) := init_state in
  bind (steps root st prog []) (fun '(root, st, acc) =>
  bind (close_w root st) (fun '(root', st1) =>
  bind (collapse (S (length (w_tail root'))) (w_tail root') (g_next st1)) (fun '(tail, nx) =>
    match tail with
    | [] => Ok (mkOut None acc (f_log (g_f st1)))
    | i :: _ => Ok (mkOut (Some (wrap_if_leaf i nx)) acc (f_log (g_f st1)))
    end))).

(* -------------------------------------------------------------------- readers *)

(* attributes a page sees: its own value, else the nearest ancestor's *)
Definition inheritable : list key :=
  if old then [KResources; KMediaBox; KCropBox; KRotate; KAA] else [KResources; KMediaBox; KCropBox; KRotate].

Definition key_in (k : key) (l : list key) : bool := existsb (key_eqb k) l.

(* node attributes override what was inherited so far *)
Definition push_attrs (inh : attrs) (a : attrs) : attrs :=
  fun k => if key_in k inheritable then match a k with Some v => Some v | None => inh k end else inh k.

(* a page dictionary as the readers return it *)
Definition fill (a inh : attrs) : attrs :=
  fun k => match a k with Some v => Some v | None => if key_in k inheritable then inh k else None end.

(* Iterator.All *)
Fixpoint iterate (n : node) (inh : attrs) : list (ref * attrs) :=
  match n with
  | Page r _ a => [(r, fill a inh)]
  | Pages _ _ a _ kids => flat_map (fun k => iterate k (push_attrs inh a)) kids
  end.

Definition num_pages (root : node) : nat :=
  match root with Pages _ _ _ c _ => c | Page _ _ _ => 0 end.

(* GetPage: descend by /Count *)
Fixpoint get_page (n : node) (skip : nat) (inh : attrs) : option (ref * attrs) :=
  match n with
  | Page r _ a => if skip =? 0 then Some (r, fill a inh) else None
  | Pages _ _ a c kids =>
    if skip <? c then
      (fix go (l : list node) (skip : nat) : option (ref * attrs) :=
         match l with
         | [] => None
         | k :: r =>
           match k with
           | Page _ _ _ => if skip =? 0 then get_page k 0 (push_attrs inh a) else go r (skip - 1)
           | Pages _ _ _ c' _ => if skip <? c' then get_page k skip (push_attrs inh a) else go r (skip - c')
           end
         end) kids skip
    else None
  end.

(* ----------------------------------------------------- validity of a written tree *)

Fixpoint count_leaves (n : node) : nat :=
  match n with
  | Page _ _ _ => 1
  | Pages _ _ _ _ kids => fold_right (fun k s => count_leaves k + s) 0 kids
  end.

Definition opt_ref_eqb (a b : option ref) : bool :=
  match a, b with
  | Some x, Some y => ref_eqb x y
  | None, None => true
  | _, _ => false
  end.

(* below the root: /Count = leaves below, /Parent = the listing node, 1..D kids *)
Fixpoint sub_ok (parent : ref) (n : node) : bool :=
  opt_ref_eqb (node_parent n) (Some parent) &&
  match n with
  | Page _ _ _ => true
  | Pages r _ _ c kids =>
    (c =? count_leaves n) && (1 <=? length kids) && (length kids <=? D) && forallb (sub_ok r) kids
  end.

Definition norm_rot (o : option Z) : option Z := match o with None => Some 0%Z | Some v => Some v end.

(* effective attributes, /Rotate with its default made explicit *)
Definition eff_eqb (a b : attrs) : bool :=
  opt_eqb (a KMediaBox) (b KMediaBox) && opt_eqb (a KCropBox) (b KCropBox) &&
  opt_eqb (norm_rot (a KRotate)) (norm_rot (b KRotate)) &&
  (if old then opt_eqb (a KAA) (b KAA) else true) && opt_eqb (a KResources) (b KResources).

Fixpoint pages_eqb (got expected : list (ref * attrs)) : bool :=
  match got, expected with
  | [], [] => true
  | (r, a) :: g, (r', a') :: e => ref_eqb r r' && eff_eqb a a' && pages_eqb g e
  | _, _ => false
  end.

(* structure of a whole tree: the root is a /Pages node without /Parent *)
Definition root_ok (root : node) : bool :=
  match root with
  | Page _ _ _ => false
  | Pages r p _ c kids =>
    opt_ref_eqb p None && (c =? count_leaves root) && (1 <=? length kids) && (length kids <=? D) &&
    forallb (sub_ok r) kids
  end.

(* the certified validator: run on the raw tree the real writer produced, with the pages as given *)
Definition ptree_ok (expected : list (ref * attrs)) (root : node) : bool :=
  root_ok root && pages_eqb (iterate root a_empty) expected.

End PageTree.

(* the attributes each page was given by the program (the first AppendPageDict with that id) *)
Fixpoint given_of (prog : list op) (r : ref) : attrs :=
  match prog with
  | [] => a_empty
  | OAppend _ id a :: rest => if ref_eqb r (RP id) then a else given_of rest r
  | _ :: rest => given_of rest r
  end.

Fixpoint append_ids (prog : list op) : list nat :=
  match prog with
  | [] => []
  | OAppend _ id _ :: rest => id :: append_ids rest
  | _ :: rest => append_ids rest
  end.

(* ------------------------------------------------- the specification of page order *)

(* Ranges as the caller sees them: a range is a sequence of pages and sub-ranges, in the order
   in which they were added; closing a range freezes it into its pages (its sub-ranges can no
   longer be addressed). *)
Inductive item :=
| ItPage (id : nat)
| ItRange (id : nat) (closed : bool) (items : list item).

Fixpoint item_pages (i : item) : list nat :=
  match i with
  | ItPage id => [id]
  | ItRange _ _ items => flat_map item_pages items
  end.

(* apply f to the range [id].  None: there is no such range; Some None: it is closed;
   Some (Some r): done.  (Sub-ranges of a closed range are gone: closing froze them.) *)
Fixpoint with_range (id : nat) (f : nat -> list item -> item) (i : item) : option (option item) :=
  match i with
  | ItPage _ => None
  | ItRange rid closed items =>
    if rid =? id then (if closed then Some None else Some (Some (f rid items)))
    else
      match (fix go (l : list item) : option (option (list item)) :=
               match l with
               | [] => None
               | x :: r => match with_range id f x with
                           | Some (Some x') => Some (Some (x' :: r))
                           | Some None => Some None
                           | None => match go r with
                                     | Some (Some r') => Some (Some (x :: r'))
                                     | Some None => Some None
                                     | None => None
                                     end
                           end
               end) items with
      | Some (Some items') => Some (Some (ItRange rid closed items'))
      | Some None => Some None
      | None => None
      end
  end.

Definition spec_apply (root : item) (next_id : nat) (bump : bool) (r : option (option item)) : item * nat * bool :=
  match r with
  | Some (Some root') => (root', if bump then S next_id else next_id, true)
  | _ => (root, next_id, false)
  end.

Definition spec_step (root : item) (next_id : nat) (o : op) : item * nat * bool :=
  match o with
  | OAppend w p _ =>
    spec_apply root next_id false (with_range w (fun rid items => ItRange rid false (items ++ [ItPage p])) root)
  | ONewRange w =>
    spec_apply root next_id true (with_range w (fun rid items => ItRange rid false (items ++ [ItRange next_id false []])) root)
  | OClose w =>
    spec_apply root next_id false (with_range w (fun rid items => ItRange rid true (map ItPage (flat_map item_pages items))) root)
  | ONextPN _ _ => (root, next_id, true)
  end.

Fixpoint spec_steps (root : item) (next_id : nat) (prog : list op) (acc : list bool) : item * list bool :=
  match prog with
  | [] => (root, acc)
  | o :: r => let '(root', nid, ok) := spec_step root next_id o in spec_steps root' nid r (acc ++ [ok])
  end.

(* the pages of the document, in document order, and which operations are carried out *)
Definition spec_run (prog : list op) : list nat * list bool :=
  let '(root, acc) := spec_steps (ItRange 0 false []) 1 prog [] in (item_pages root, acc).

(* --- page-number callbacks: NextPageNumber(cb) on a range reports the final index of the next
   page added to that range, or -1 when the range is closed before another page is added *)

(* ids of the open ranges inside an item (the item itself included) *)
Fixpoint open_ids (i : item) : list nat :=
  match i with
  | ItPage _ => []
  | ItRange rid closed items => if closed then [] else rid :: flat_map open_ids items
  end.

Fixpoint find_range (id : nat) (i : item) : option item :=
  match i with
  | ItPage _ => None
  | ItRange rid closed items =>
    if rid =? id then Some i
    else (fix go (l : list item) : option item :=
            match l with
            | [] => None
            | x :: r => match find_range id x with Some y => Some y | None => go r end
            end) items
  end.

Definition mem_nat (x : nat) (l : list nat) : bool := existsb (Nat.eqb x) l.

(* one pass over the program: [pending] = registrations (range, cb) not yet resolved;
   [resolved] = (cb, inl page | inr tt) where inr means -1 *)
Fixpoint spec_cbs (root : item) (next_id : nat) (prog : list op)
         (pending : list (nat * nat)) (resolved : list (nat * option nat)) : list (nat * option nat) :=
  match prog with
  | [] => resolved ++ map (fun '(_, k) => (k, None)) pending
  | o :: r =>
    let '(root', nid, ok) := spec_step root next_id o in
    match o with
    | OAppend w p _ =>
      if ok then
        let hit := filter (fun '(w', _) => w' =? w) pending in
        let rest := filter (fun '(w', _) => negb (w' =? w)) pending in
        spec_cbs root' nid r rest (resolved ++ map (fun '(_, k) => (k, Some p)) hit)
      else spec_cbs root' nid r pending resolved
    | OClose w =>
      if ok then
        let ids := match find_range w root with Some x => open_ids x | None => [] end in
        let hit := filter (fun '(w', _) => mem_nat w' ids) pending in
        let rest := filter (fun '(w', _) => negb (mem_nat w' ids)) pending in
        spec_cbs root' nid r rest (resolved ++ map (fun '(_, k) => (k, None)) hit)
      else spec_cbs root' nid r pending resolved
    | ONextPN w k =>
      if mem_nat w (open_ids root)
      then spec_cbs root' nid r (pending ++ [(w, k)]) resolved
      else spec_cbs root' nid r pending (resolved ++ [(k, None)])
    | ONewRange _ => spec_cbs root' nid r pending resolved
    end
  end.

Fixpoint index_of (x : nat) (l : list nat) : option nat :=
  match l with
  | [] => None
  | y :: r => if y =? x then Some 0 else option_map S (index_of x r)
  end.

(* (callback, reported value) for every registration, in order of resolution;
   [pages] = the document order *)
Definition spec_log_of (pages : list nat) (prog : list op) : list (nat * Z) :=
  map (fun '(k, o) =>
         (k, match o with
             | Some p => match index_of p pages with Some i => Z.of_nat i | None => (-1)%Z end
             | None => (-1)%Z
             end))
      (spec_cbs (ItRange 0 false []) 1 prog [] []).

Definition spec_log (prog : list op) : list (nat * Z) := spec_log_of (fst (spec_run prog)) prog.
