(* C16 - the theorems of Prop_C16, assembled. *)
From Coq Require Import List Arith Bool ZArith Lia.
From GoPdf.Base Require Import Res.
From GoPdf.C16 Require Import PageTree PTBasics PTTails PTStruct PTAttrs PTWriter PTSim PTRun PTReaders.
Import ListNotations.

Lemma ids_rp l pages : ids l = pages -> Forall is_rp l -> l = map RP pages.
Proof.
  intros <- H. unfold ids. induction H as [|r l Hr _ IH]; [reflexivity|]. cbn [map]. f_equal; [destruct r; [reflexivity|destruct Hr]|exact IH].
Qed.

Section Main.
Variable D : nat.
Variable old : bool.
Variable choose : list Z -> Z.
Variable choose_rot : list (option Z) -> option Z.
Hypothesis HD : 1 <= D.

Notation run := (run D old choose choose_rot).

(* effective attributes, /Rotate modulo its default: for every key *)
Definition eff_all (a b : attrs) : Prop :=
  forall k, (if key_eqb k KRotate then norm_rot (a k) else a k) = (if key_eqb k KRotate then norm_rot (b k) else b k).

Lemma attr_eqs_forall2 G root : attr_eqs old G root ->
  Forall2 (fun g r => fst g = r /\ eff_all (snd g) (G r)) (iterate old root a_empty) (leaves root).
Proof.
  unfold attr_eqs. generalize (iterate old root a_empty) as it, (leaves root) as lv.
  induction it as [|[r a] it IH]; intros lv H.
  - destruct lv; [constructor|]. specialize (H KMediaBox). discriminate.
  - destruct lv as [|r' lv]; [specialize (H KMediaBox); discriminate|]. constructor.
    + split.
      * specialize (H KMediaBox). cbn in H. injection H as -> _. reflexivity.
      * intros k. specialize (H k). cbn [map fst snd] in H. injection H as _ H _. exact H.
    + apply IH. intros k. specialize (H k). cbn [map] in H. injection H as _ _ H. exact H.
Qed.

Lemma eff_all_eqb a b : eff_all a b -> eff_eqb old a b = true.
Proof.
  intros H. unfold eff_eqb.
  pose proof (H KMediaBox) as H1. pose proof (H KCropBox) as H2. pose proof (H KRotate) as H3.
  pose proof (H KAA) as H4. pose proof (H KResources) as H5. cbn in H1, H2, H3, H4, H5.
  rewrite H1, H2, H3, H4, H5.
  assert (forall o, opt_eqb o o = true) as Hr by (intros o; apply opt_eqb_eq; reflexivity).
  rewrite !Hr. destruct old; reflexivity.
Qed.

(* the pages as the program gave them, in the order of the specification *)
Definition expected_of (prog : list op) : list (ref * attrs) :=
  map (fun p => (RP p, given_of prog (RP p))) (fst (spec_run prog)).

Theorem run_all prog out : NoDup (append_ids prog) -> run prog = Ok out ->
  o_accepted out = snd (spec_run prog) /\
  match o_root out with
  | None => fst (spec_run prog) = []
  | Some root =>
    leaves root = map RP (fst (spec_run prog)) /\
    root_ok D root = true /\
    Forall2 (fun g p => fst g = RP p /\ eff_all (snd g) (given_of prog (RP p)))
            (iterate old root a_empty) (fst (spec_run prog)) /\
    ptree_ok D old (expected_of prog) root = true
  end.
Proof.
  intros Hnd H. destruct (run_correct D old choose choose_rot (given_of prog) HD prog out (given_of_ok prog Hnd) H) as [Hacc Hroot].
  split; [exact Hacc|]. destruct (o_root out) as [root|]; [|exact Hroot].
  destruct Hroot as (H1 & H2 & H3 & H4).
  pose proof (ids_rp _ _ H1 H2) as Hl. pose proof (attr_eqs_forall2 _ _ H4) as HF. rewrite Hl in HF.
  assert (Forall2 (fun g p => fst g = RP p /\ eff_all (snd g) (given_of prog (RP p)))
                  (iterate old root a_empty) (fst (spec_run prog))) as HF2.
  { revert HF. generalize (iterate old root a_empty) as it, (fst (spec_run prog)) as pages. clear.
    intros it pages. revert it. induction pages as [|p pages IH]; intros it HF; cbn [map] in HF; inversion HF; subst; constructor; auto. }
  splits; auto.
  unfold ptree_ok. rewrite H3. cbn [andb]. unfold expected_of. clear - HF2.
  induction HF2 as [|[r a] p it pages [E1 E2] _ IH]; [reflexivity|]. cbn [map pages_eqb fst snd] in *. subst r.
  rewrite ref_eqb_refl, (eff_all_eqb _ _ E2), IH. reflexivity.
Qed.

(* fan-out, /Count and /Parent of every node, spelled out *)
Fixpoint all_nodes (n : node) : list node :=
  n :: match n with Page _ _ _ => [] | Pages _ _ _ _ kids => flat_map all_nodes kids end.

Definition node_fine (n : node) : Prop :=
  match n with
  | Page _ _ _ => True
  | Pages r _ _ c kids =>
    c = length (leaves n) /\ 1 <= length kids <= D /\ Forall (fun k => node_parent k = Some r) kids
  end.

Lemma count_leaves_length n : count_leaves n = length (leaves n).
Proof.
  induction n as [r p a|r p a c kids IH] using node_ind'; [reflexivity|]. cbn [count_leaves leaves].
  induction kids as [|k ks IHk]; [reflexivity|]. inversion IH; subst. cbn. rewrite app_length, H1, IHk by assumption. reflexivity.
Qed.

Lemma sub_ok_nodes n : forall p, sub_ok D p n = true -> node_parent n = Some p /\ Forall node_fine (all_nodes n).
Proof.
  induction n as [r p0 a|r p0 a c kids IH] using node_ind'; intros p H.
  - cbn in H. apply andb_prop in H as [H _]. apply opt_ref_eqb_eq in H. cbn in H. subst. split; [reflexivity|]. repeat constructor.
  - cbn [sub_ok] in H. apply andb_prop in H as [Hp H]. apply andb_prop in H as [H Hk]. apply andb_prop in H as [H H3].
    apply andb_prop in H as [H1 H2]. apply opt_ref_eqb_eq in Hp. apply Nat.eqb_eq in H1. apply Nat.leb_le in H2, H3.
    split; [exact Hp|]. rewrite forallb_forall in Hk. cbn [all_nodes]. constructor.
    + cbn [node_fine]. rewrite <- count_leaves_length. splits; auto.
      rewrite Forall_forall in *. intros k Hin. apply (IH k Hin r). auto.
    + apply Forall_flat_map. rewrite Forall_forall in *. intros k Hin. apply (IH k Hin r). auto.
Qed.

Theorem root_ok_nodes root : root_ok D root = true ->
  node_parent root = None /\ (exists r a c kids, root = Pages r None a c kids) /\ Forall node_fine (all_nodes root).
Proof.
  destruct root as [|r p a c kids]; [discriminate|]. cbn [root_ok]. intros H.
  apply andb_prop in H as [H Hk]. apply andb_prop in H as [H H3]. apply andb_prop in H as [H H2].
  apply andb_prop in H as [Hp H1]. apply opt_ref_eqb_eq in Hp. apply Nat.eqb_eq in H1. apply Nat.leb_le in H2, H3.
  subst p. splits; [reflexivity|eauto|]. rewrite forallb_forall in Hk. cbn [all_nodes]. constructor.
  - cbn [node_fine]. rewrite <- count_leaves_length. splits; auto.
    rewrite Forall_forall. intros k Hin. apply (sub_ok_nodes k r). auto.
  - apply Forall_flat_map. rewrite Forall_forall. intros k Hin. apply (sub_ok_nodes k r). auto.
Qed.

End Main.

From GoPdf.C16 Require Import PageTreeInst.
Lemma max_degree_ge1 : 1 <= max_degree.
Proof. apply Nat.leb_le. vm_compute. reflexivity. Qed.

(* ---- the statements of Prop_C16 *)
Section Statements.
Variable D : nat.
Variable old : bool.
Variable choose : list Z -> Z.
Variable choose_rot : list (option Z) -> option Z.
Hypothesis HD : 1 <= D.
Notation run := (run D old choose choose_rot).

Lemma order_l prog out : NoDup (append_ids prog) -> run prog = Ok out ->
  o_accepted out = snd (spec_run prog) /\
  match o_root out with
  | None => fst (spec_run prog) = []
  | Some root => leaves root = map RP (fst (spec_run prog))
  end.
Proof.
  intros Hnd H. destruct (run_all D old choose choose_rot HD prog out Hnd H) as [H1 H2]. split; [exact H1|].
  destruct (o_root out); [apply H2|exact H2].
Qed.

Lemma counts_parents_l prog out root : NoDup (append_ids prog) -> run prog = Ok out -> o_root out = Some root ->
  root_ok D root = true.
Proof.
  intros Hnd H Hr. destruct (run_all D old choose choose_rot HD prog out Hnd H) as [_ H2]. rewrite Hr in H2. apply H2.
Qed.

Lemma fanout_partial_l prog out root : NoDup (append_ids prog) -> run prog = Ok out -> o_root out = Some root ->
  Forall (fun n => match n with Pages _ _ _ _ kids => 1 <= length kids <= D | Page _ _ _ => True end) (all_nodes root).
Proof.
  intros Hnd H Hr. pose proof (counts_parents_l prog out root Hnd H Hr) as H2.
  destruct (root_ok_nodes D root H2) as (_ & _ & H3).
  eapply Forall_impl; [|exact H3]. intros n Hn. destruct n; [exact I|]. apply Hn.
Qed.

Lemma inherit_sound_l prog out root : NoDup (append_ids prog) -> run prog = Ok out -> o_root out = Some root ->
  Forall2 (fun g p => fst g = RP p /\ eff_all (snd g) (given_of prog (RP p)))
          (iterate old root a_empty) (fst (spec_run prog)).
Proof.
  intros Hnd H Hr. destruct (run_all D old choose choose_rot HD prog out Hnd H) as [_ H2]. rewrite Hr in H2. apply H2.
Qed.

Lemma writer_passes_validator_l prog out root : NoDup (append_ids prog) -> run prog = Ok out -> o_root out = Some root ->
  ptree_ok D old (expected_of prog) root = true.
Proof.
  intros Hnd H Hr. destruct (run_all D old choose choose_rot HD prog out Hnd H) as [_ H2]. rewrite Hr in H2. apply H2.
Qed.

End Statements.

Lemma ptree_ok_model_sound_l old expected root : ptree_ok_model old expected root = true ->
  root_ok max_degree root = true /\
  num_pages root = length expected /\
  (forall i, get_page_model old root i = nth_error (iterate_model old root) i).
Proof.
  intros H. destruct (ptree_ok_sound_l max_degree old expected root H) as (H1 & _ & H3 & H4). auto.
Qed.

(* a boolean test for distinct page ids *)
Lemma nodup_check (l : list nat) : forallb (fun x => Nat.eqb (length (filter (Nat.eqb x) l)) 1) l = true -> NoDup l.
Proof.
  induction l as [|x l IH]; intros H; constructor.
  - cbn in H. rewrite Nat.eqb_refl in H. cbn in H. apply andb_prop in H as [H _]. apply Nat.eqb_eq in H.
    intros Hin. assert (In x (filter (Nat.eqb x) l)) as Hf by (apply filter_In; split; [exact Hin|apply Nat.eqb_refl]).
    destruct (filter (Nat.eqb x) l); [contradiction|discriminate].
  - apply IH. cbn in H. apply andb_prop in H as [_ H]. rewrite forallb_forall in *. intros y Hy. specialize (H y Hy).
    cbn [filter] in H. destruct (y =? x) eqn:E; [|exact H]. cbn [length] in H. apply Nat.eqb_eq in H.
    assert (In y (filter (Nat.eqb y) l)) as Hf by (apply filter_In; split; [exact Hy|apply Nat.eqb_refl]).
    destruct (filter (Nat.eqb y) l); [contradiction|cbn in H; lia].
Qed.

(* ---- before fix F47 the panic branch of mergeNodes WAS reachable: merging the tail of 15 subtrees
   of depth 2 and 8 of depth 1 with the 9 pages of a range left 16 nodes of depth 2 followed by ONE
   page, and collapse then asked mergeNodes to merge that single node *)
From GoPdf.C16 Require Import PageTreePre.

Lemma merge_pre_panics_l :
  exists t nx, merge_pre max_degree false choose_most choose_rot_most wit_a wit_b 0 = Ok (t, nx) /\
    depths t = repeat 2 16 ++ [0] /\
    collapse max_degree false choose_most choose_rot_most (S (length t)) t nx = Err Panic.
Proof.
  destruct (merge_pre max_degree false choose_most choose_rot_most wit_a wit_b 0) as [[t nx]|e] eqn:E; [|vm_compute in E; discriminate].
  exists t, nx. split; [reflexivity|]. vm_compute in E. injection E as <- <-. split; vm_compute; reflexivity.
Qed.

(* with the fix the same tails merge into 15+1 nodes that collapse without panic *)
Lemma merge_fixed_ok_l :
  exists t nx r, merge max_degree false choose_most choose_rot_most wit_a wit_b 0 = Ok (t, nx) /\
    collapse max_degree false choose_most choose_rot_most (S (length t)) t nx = Ok r.
Proof.
  destruct (merge max_degree false choose_most choose_rot_most wit_a wit_b 0) as [[t nx]|e] eqn:E; [|vm_compute in E; discriminate].
  destruct (collapse max_degree false choose_most choose_rot_most (S (length t)) t nx) as [r|e] eqn:E2.
  - exists t, nx, r. auto.
  - vm_compute in E. injection E as <- <-. vm_compute in E2. discriminate.
Qed.

(* the program that produces these tails *)
Definition panic_witness : list op :=
  map (fun i => OAppend 0 i a_empty) (seq 0 (15 * 256 + 8 * 16)) ++ [ONewRange 0] ++
  map (fun i => OAppend 1 (15 * 256 + 8 * 16 + i) a_empty) (seq 0 9).

Lemma panic_witness_runs :
  match run_model false panic_witness with
  | Ok out => match o_root out with Some root => Nat.eqb (length (leaves root)) (15 * 256 + 8 * 16 + 9) | None => false end
  | Err _ => false
  end = true.
Proof. vm_compute. reflexivity. Qed.
