(* C16 - page numbers under nesting, part 3: whole programs.  Every NextPageNumber callback is
   called with the final position of the page that resolved it, or with -1. *)
From Coq Require Import List Arith Bool ZArith Lia Permutation.
From GoPdf.Base Require Import Res.
From GoPdf.C17 Require Import KTDepths.
From GoPdf.C16 Require Import PageTree PTBasics PTTails PTStruct PTWriter PTSim PTRun PTFuel2 PTPageNum PTSafe PTFut PTPn1 PTPn2.
Import ListNotations.

(* ---- the ranges of the specification, seen from the writers *)
Section FrList.
Variable id : nat.
Fixpoint fr_list (l : list item) : option item :=
  match l with
  | [] => None
  | x :: r => match find_range id x with Some y => Some y | None => fr_list r end
  end.
End FrList.

Lemma find_range_eq id rid closed items :
  find_range id (ItRange rid closed items) = if rid =? id then Some (ItRange rid closed items) else fr_list id items.
Proof. reflexivity. Qed.

Lemma fr_list_app id a b : fr_list id (a ++ b) = match fr_list id a with Some y => Some y | None => fr_list id b end.
Proof. induction a as [|x a IH]; [reflexivity|]. cbn [app fr_list]. destruct (find_range id x); [reflexivity|exact IH]. Qed.

Lemma fr_list_pages id l : fr_list id (map ItPage l) = None.
Proof. induction l; [reflexivity|exact IHl]. Qed.

Lemma open_ids_pages l : flat_map open_ids (map ItPage l) = [].
Proof. induction l; [reflexivity|exact IHl]. Qed.

Section Spec.
Variable D : nat.
Variable old : bool.
Variable G : ref -> attrs.
Notation w_good := (w_good D old G).

Lemma abs_child_named c : w_id c <> None -> abs_child c = [abs c].
Proof. unfold abs_child. destruct (w_id c); [reflexivity|congruence]. Qed.

(* open_ids of the range of a writer = the open writers below it *)
Lemma open_ids_abs w : w_good w ->
  flat_map open_ids (abs_child w) = woids w.
Proof.
  induction w as [wid cl ch tail npn pn nc IH] using writer_ind'. intros Hg.
  inversion Hg as [? ? ? ? ? ? ? _ Hc Hid Hcl]; subst. unfold abs_child. cbn [w_id].
  destruct wid as [i|].
  - cbn [flat_map]. rewrite app_nil_r, abs_eq. cbn [open_ids woids]. destruct cl.
    + rewrite (Hcl eq_refl). reflexivity.
    + cbn [named_open app]. f_equal. rewrite flat_map_app, open_ids_pages, app_nil_r.
      clear Hid Hcl Hg. induction ch as [|c cs IHc]; [reflexivity|]. inversion IH; subst. inversion Hc; subst.
      cbn [flat_map]. rewrite flat_map_app. f_equal; auto.
  - rewrite (Hid eq_refl), open_ids_pages. reflexivity.
Qed.

Lemma open_ids_root w : w_good w -> w_id w <> None -> open_ids (abs w) = woids w.
Proof. intros Hg Hn. rewrite <- (open_ids_abs w Hg), (abs_child_named w Hn). cbn. rewrite app_nil_r. reflexivity. Qed.

(* a name that does not occur is not found *)
Lemma fr_none id w : w_good w -> ~ In id (wids w) -> fr_list id (abs_child w) = None.
Proof.
  induction w as [wid cl ch tail npn pn nc IH] using writer_ind'. intros Hg Hn.
  inversion Hg as [? ? ? ? ? ? ? _ Hc Hid Hcl]; subst. unfold abs_child. cbn [w_id].
  destruct wid as [i|]; [|apply fr_list_pages].
  cbn [fr_list]. rewrite abs_eq, find_range_eq. cbn [wids] in Hn.
  destruct (Nat.eqb_spec i id) as [->|_]; [exfalso; apply Hn; left; reflexivity|].
  rewrite fr_list_app, fr_list_pages.
  assert (fr_list id (flat_map abs_child ch) = None) as ->; [|reflexivity].
  assert (~ In id (flat_map wids ch)) as Hn' by (intros H; apply Hn; right; exact H).
  clear Hn Hid Hcl Hg. induction ch as [|c cs IHc]; [reflexivity|]. inversion IH as [|? ? Pc Pcs]; subst. inversion Hc; subst.
  cbn [flat_map] in *. rewrite fr_list_app, Pc; [apply IHc|..]; auto; intros H; apply Hn'; apply in_or_app; auto.
Qed.

Lemma plug_good C x : w_good (plug C x) -> w_good x.
Proof.
  induction C as [|wid cl l1 C IH l2 tail npn pn nc]; intros H; [exact H|]. cbn [plug] in H.
  inversion H as [? ? ? ? ? ? ? _ Hc _ _]; subst. apply Forall_app in Hc as [_ Hc]. inversion Hc; subst. auto.
Qed.

(* the range looked for is the range of the writer that with_writer finds *)
Lemma find_range_plug id C t : w_good (plug C t) -> cpath id C -> w_id t = Some id ->
  fr_list id (abs_child (plug C t)) = Some (abs t).
Proof.
  induction C as [|wid cl l1 C IH l2 tail npn pn nc]; intros Hg Hp Hid; cbn [plug] in *.
  - rewrite abs_child_named by congruence. cbn [fr_list]. destruct t as [wid cl ch tail npn pn nc]. cbn [w_id] in Hid. subst wid.
    rewrite abs_eq, find_range_eq, Nat.eqb_refl. reflexivity.
  - destruct Hp as (Hw & Hl1 & Hp). inversion Hg as [? ? ? ? ? ? ? _ Hc Hn _]; subst.
    destruct wid as [i|]; [|destruct l1; discriminate (Hn eq_refl)].
    unfold abs_child. cbn [w_id fr_list]. rewrite abs_eq, find_range_eq.
    destruct (Nat.eqb_spec i id) as [->|_]; [congruence|].
    rewrite flat_map_app. cbn [flat_map]. rewrite !fr_list_app.
    apply Forall_app in Hc as [Hc1 Hc2]. inversion Hc2 as [|? ? Hcp _]; subst.
    assert (fr_list id (flat_map abs_child l1) = None) as ->.
    { clear - Hl1 Hc1. induction l1 as [|c l1 IHl]; [reflexivity|]. inversion Hl1; subst. inversion Hc1; subst.
      cbn [flat_map]. rewrite fr_list_app, (fr_none id c); auto. }
    rewrite (IH Hcp Hp Hid). reflexivity.
Qed.

Lemma find_range_root id C t : w_good (plug C t) -> w_id (plug C t) <> None -> cpath id C -> w_id t = Some id ->
  find_range id (abs (plug C t)) = Some (abs t).
Proof.
  intros Hg Hn Hp Hid. pose proof (find_range_plug id C t Hg Hp Hid) as H. rewrite (abs_child_named _ Hn) in H.
  cbn [fr_list] in H. destruct (find_range id (abs (plug C t))); [exact H|discriminate].
Qed.

End Spec.

(* ---- what is registered belongs to open ranges *)
Lemma wpend_woids rho w : forall e, In e (wpend rho w) -> In (fst e) (woids w).
Proof.
  induction w as [wid cl ch tail npn pn nc IH] using writer_ind'. intros e He. unfold wpend in He. rewrite wfold_eq in He.
  cbn [woids]. apply in_app_or in He as [He|He].
  - apply in_or_app. right. revert He. generalize 0. induction ch as [|c cs IHc]; intros o He; [destruct He|].
    inversion IH as [|? ? Pc Pcs]; subst. cbn [lfold flat_map] in *. apply in_app_or in He as [He|He]; apply in_or_app.
    + left. apply Pc. unfold wpend. rewrite (wfold_off rho loc_pend (fun _ _ _ _ _ _ _ _ => eq_refl) c 0 o). exact He.
    + right. exact (IHc Pcs _ He).
  - unfold loc_pend in He. destruct (named_open wid cl) as [i|]; [|destruct He].
    apply in_map_iff in He as (k & <- & _). cbn. auto.
Qed.

Lemma mem_nat_in x l : mem_nat x l = true <-> In x l.
Proof.
  unfold mem_nat. rewrite existsb_exists. split.
  - intros (y & Hy & E). apply Nat.eqb_eq in E. subst y. exact Hy.
  - intros H. exists x. split; [exact H|apply Nat.eqb_refl].
Qed.

(* the pages of a tree with a hole *)
Lemma pages_plug rho C x :
  Permutation (ids (wpages (plug C x))) (ids (wpages x) ++ map fst (cfold rho loc_lay 0 (wsize rho x) C)).
Proof.
  rewrite <- (wlay_pages rho (plug C x) 0), <- (wlay_pages rho x (coff rho C)), <- map_app.
  apply Permutation_map. apply wlay_plug.
Qed.

Lemma shape_plug C x : w_shape (plug C x) -> w_shape x /\ forall y, w_shape y -> w_shape (plug C y).
Proof.
  induction C as [|wid cl l1 C IH l2 tail npn pn nc]; intros H; cbn [plug] in *; [auto|].
  inversion H as [? ? ? ? ? ? ? Ha Hu Hc]; subst. apply Forall_app in Hc as [Hc1 Hc2]. inversion Hc2 as [|? ? Hp Hc3]; subst.
  destruct (IH Hp) as [I1 I2]. split; [exact I1|]. intros y Hy. constructor; auto.
  apply Forall_app. split; [exact Hc1|]. constructor; auto.
Qed.

Section Prog.
Variable D : nat.
Variable old : bool.
Variable choose : list Z -> Z.
Variable choose_rot : list (option Z) -> option Z.
Variable G : ref -> attrs.
Hypothesis HD : 2 <= D.

Notation w_good := (w_good D old G).
Notation do_append := (do_append D old choose choose_rot).
Notation close_w := (close_w D old choose choose_rot).
Notation step := (step D old choose choose_rot).
Notation steps := (steps D old choose choose_rot).
Notation run := (run D old choose choose_rot).

Record Jst (root : writer) (st : gstate) (Q : list (nat * option nat)) (rest : list op) : Prop := mkJst {
  s_good : w_good root; s_id : w_id root = Some 0; s_safe : w_safe D (hlen st) root; s_shape : w_shape root;
  s_nd : NoDup (wids root); s_lt : Forall (fun i => i < g_wid st) (wids root);
  s_pages : NoDup (ids (wpages root) ++ append_ids rest);
  s_res : forall k p, In (k, Some p) Q -> In p (ids (wpages root));
  s_given : Forall (given_ok G) rest }.

Lemma Jst_drop root st Q o rest : Jst root st Q (o :: rest) -> Jst root st Q rest.
Proof.
  intros [A1 A2 A3 A4 A5 A6 A7 A8 A9]. constructor; auto.
  - destruct o; cbn [append_ids] in A7; auto. apply NoDup_remove_1 in A7. exact A7.
  - inversion A9; assumption.
Qed.

Lemma Jall_heap_wf root fs P Q : Jall root fs P Q -> fs_wf fs.
Proof. intros H. destruct (H (fun _ => 0)) as (V & [(Hwf & _) _ _ _ _]). exact Hwf. Qed.

(* the structural part of the result of a step *)
Lemma step_struct root st o root' st' ok P Q rest :
  Jst root st Q (o :: rest) -> Jall root (g_f st) P Q -> step root st o = Ok (root', st', ok) ->
  w_good root' /\ w_id root' = Some 0 /\ w_safe D (hlen st') root' /\
  spec_step (abs root) (g_wid st) o = (abs root', g_wid st', ok).
Proof.
  intros [A1 A2 A3 A4 A5 A6 A7 A8 A9] HJ H. inversion A9 as [|? ? Ho _]; subst.
  assert (1 <= D) as HD1 by lia.
  destruct (step_sim D old choose choose_rot G _ _ _ _ _ _ A1 A2 Ho H) as (S1 & S2 & S3).
  destruct (step_safe D old choose choose_rot HD root st o A3 (Jall_heap_wf _ _ _ _ HJ)) as [(r1 & s1 & ok1 & E & B1 & B2)|E];
    rewrite E in H; [|discriminate]. injection H as <- <- <-. auto.
Qed.

Lemma perm_nodup_lt {n} (a b : list nat) : Permutation a b -> NoDup a /\ Forall (fun i => i < n) a -> NoDup b /\ Forall (fun i => i < n) b.
Proof. intros HP [H1 H2]. split; [exact (Permutation_NoDup HP H1)|exact (Permutation_Forall HP H2)]. Qed.

(* ---- AppendPageDict carried out *)
Lemma append_step C i ch tail c pn nc p a st t' st' P Q rest :
  let t := Wr (Some i) false ch tail (Some c) pn nc in
  do_append p a t st = Ok (t', st') ->
  Jst (plug C t) st Q (OAppend i p a :: rest) -> Jall (plug C t) (g_f st) P Q ->
  w_good (plug C t') -> w_id (plug C t') = Some 0 -> w_safe D (hlen st') (plug C t') ->
  Jst (plug C t') st' (Q ++ map (fun '(_, k) => (k, Some p)) (filter (fun '(w', _) => w' =? i) P)) rest /\
  Jall (plug C t') (g_f st') (filter (fun '(w', _) => negb (w' =? i)) P)
       (Q ++ map (fun '(_, k) => (k, Some p)) (filter (fun '(w', _) => w' =? i) P)).
Proof.
  intros t H [A1 A2 A3 A4 A5 A6 A7 A8 A9] HJ G1 G2 G3. cbn [append_ids] in A7.
  assert (~ In p (ids (wpages (plug C t)))) as Hfresh.
  { intros Hin. exact (NoDup_app_disjoint _ _ A7 p Hin (or_introl eq_refl)). }
  split.
  - pose proof H as H0. unfold PageTree.do_append, t in H0. apply bind_ok in H0 as ([tail' nx] & Ht & H0). apply bind_ok in H0 as (fs1 & _ & H0).
    apply bind_ok in H0 as ([fs2 c'] & _ & H0). injection H0 as <- <-.
    assert (tleaves tail' = tleaves tail ++ [RP p]) as Eleaves.
    { destruct (append_tail_keeps D old choose choose_rot (fun _ => True) (fun _ _ _ _ => I) _ _ _ _ _ _ Ht) as [_ E]; auto.
      clear. induction tail; constructor; auto. }
    set (t' := Wr (Some i) false ch tail' (Some c') [] nc) in *.
    assert (Permutation (wids (plug C t')) (wids (plug C t))) as Pw by (rewrite !wids_plug; reflexivity).
    assert (Permutation (ids (wpages (plug C t'))) (ids (wpages (plug C t)) ++ [p])) as Pp.
    { rewrite (pages_plug (fun _ => 0) C t'), (pages_plug (fun _ => 0) C t).
      change (wsize (fun _ => 0) t') with (wsize (fun _ => 0) t). unfold t', t. cbn [wpages]. rewrite Eleaves.
      unfold ids. rewrite !map_app. cbn [map ref_id]. rewrite <- !app_assoc. apply Permutation_app_head. apply Permutation_app_head.
      apply Permutation_app_comm. }
    destruct (perm_nodup_lt _ _ (Permutation_sym Pw) (conj A5 A6)) as [N1 N2].
    constructor; auto.
    + destruct (shape_plug C t A4) as [St Sp]. apply Sp. inversion St; subst. constructor; auto. intros; discriminate.
    + apply (Permutation_NoDup (Permutation_app_tail _ (Permutation_sym Pp))). rewrite <- app_assoc. exact A7.
    + intros k q Hin. apply (Permutation_in _ (Permutation_sym Pp)). apply in_or_app. apply in_app_or in Hin as [Hin|Hin].
      * left. exact (A8 _ _ Hin).
      * right. apply in_map_iff in Hin as ([j k'] & E & _). injection E as _ <-. left. reflexivity.
    + inversion A9; assumption.
  - intros rho. destruct (HJ rho) as (V & J). exact (append_J D old choose choose_rot HD rho V C i ch tail c pn nc p a st t' st' P Q H A3 A5 Hfresh A8 J).
Qed.

(* ---- NewRange carried out *)
Lemma new_range_step C i ch tail c pn nc st t' st' P Q rest o :
  let t := Wr (Some i) false ch tail (Some c) pn nc in
  do_new_range t st = Ok (t', st') ->
  Jst (plug C t) st Q (o :: rest) -> append_ids (o :: rest) = append_ids rest -> Jall (plug C t) (g_f st) P Q ->
  w_good (plug C t') -> w_id (plug C t') = Some 0 -> w_safe D (hlen st') (plug C t') ->
  Jst (plug C t') st' Q rest /\ Jall (plug C t') (g_f st') P Q.
Proof.
  intros t H [A1 A2 A3 A4 A5 A6 A7 A8 A9] Ho HJ G1 G2 G3. rewrite Ho in A7.
  split.
  - pose proof H as H0. unfold do_new_range, t in H0.
    destruct (is_none (nth_error (f_heap (g_f st)) c)); [discriminate|].
    destruct (f_new (g_f st) (mkCell 0%Z 2%Z [])) as [fs1 c'] eqn:En. apply bind_ok in H0 as (fs2 & _ & H0).
    replace (match tail with [] => ch | _ :: _ => ch ++ [Wr None false [] tail None [] []] end) with (ch ++ anon_of tail) in H0
      by (destruct tail; [apply app_nil_r|reflexivity]).
    injection H0 as <- <-. set (w0 := g_wid st) in *.
    set (sub := Wr (Some w0) false [] [] (Some c) [] [CbUpd c']).
    set (t' := Wr (Some i) false ((ch ++ anon_of tail) ++ [sub]) [] (Some c') pn nc) in *.
    assert (flat_map wids (anon_of tail) = [] /\ flat_map wpages (anon_of tail) = tleaves tail) as [Ea1 Ea2].
    { destruct tail; [auto|]. cbn. rewrite app_nil_r. auto. }
    assert (Permutation (wids (plug C t')) (w0 :: wids (plug C t))) as Pw.
    { rewrite !wids_plug. unfold t', t. cbn [wids]. rewrite !flat_map_app, Ea1. cbn [flat_map wids sub app]. rewrite !app_nil_r.
      rewrite <- !app_assoc. cbn [app].
      apply Permutation_trans with (w0 :: i :: flat_map wids ch ++ cids C); [|reflexivity].
      symmetry. apply (Permutation_middle (i :: flat_map wids ch) (cids C) w0). }
    assert (Permutation (ids (wpages (plug C t'))) (ids (wpages (plug C t)))) as Pp.
    { rewrite (pages_plug (fun _ => 0) C t'), (pages_plug (fun _ => 0) C t).
      change (wsize (fun _ => 0) t') with (wsize (fun _ => 0) t). unfold t', t. cbn [wpages]. rewrite !flat_map_app, Ea2.
      cbn [flat_map wpages sub tleaves app]. rewrite !app_nil_r. reflexivity. }
    constructor; auto.
    + destruct (shape_plug C t A4) as [St Sp]. apply Sp. inversion St as [? ? ? ? ? ? ? Ha Hu Hc]; subst. constructor; auto.
      apply Forall_app. split; [apply Forall_app; split; [exact Hc|]|].
      * destruct tail; [constructor|]. constructor; [|constructor]. constructor; auto.
      * constructor; [|constructor]. constructor; [intros; discriminate| |constructor]. constructor; [eauto|constructor].
    + apply (Permutation_NoDup (Permutation_sym Pw)). constructor; [|exact A5].
      intros Hin. rewrite Forall_forall in A6. pose proof (A6 _ Hin). unfold w0 in *. lia.
    + apply (Permutation_Forall (Permutation_sym Pw)). cbn [g_wid]. constructor; [unfold w0; lia|].
      eapply Forall_impl; [|exact A6]. intros j Hj. cbn in Hj. unfold w0. lia.
    + apply (Permutation_NoDup (Permutation_app_tail _ (Permutation_sym Pp))). exact A7.
    + intros k q Hin. apply (Permutation_in _ (Permutation_sym Pp)). exact (A8 _ _ Hin).
    + inversion A9; assumption.
  - intros rho. destruct (HJ rho) as (V & J). exact (new_range_J D HD rho V C i ch tail c pn nc st t' st' P Q H A3 J).
Qed.

(* ---- Close of a sub-range carried out *)
Lemma close_step C t i st t' st' P Q rest o :
  close_w t st = Ok (t', st') -> w_closed t = false -> w_id t = Some i ->
  Jst (plug C t) st Q (o :: rest) -> append_ids (o :: rest) = append_ids rest -> Jall (plug C t) (g_f st) P Q ->
  w_good (plug C t') -> w_id (plug C t') = Some 0 -> w_safe D (hlen st') (plug C t') ->
  let sel := fun j => mem_nat j (open_ids (abs t)) in
  Jst (plug C t') st' (Q ++ map (fun '(_, k) => (k, None)) (filter (fun '(w', _) => sel w') P)) rest /\
  Jall (plug C t') (g_f st') (filter (fun '(w', _) => negb (sel w')) P)
       (Q ++ map (fun '(_, k) => (k, None)) (filter (fun '(w', _) => sel w') P)).
Proof.
  intros H Hcl Hid [A1 A2 A3 A4 A5 A6 A7 A8 A9] Ho HJ G1 G2 G3 sel. rewrite Ho in A7.
  pose proof (plug_good D old G C t A1) as Hgt. destruct (shape_plug C t A4) as [Hsh Sp].
  pose proof (Permutation_NoDup (wids_plug C t) A5) as Hnd2.
  destruct (close_w_spec D old choose choose_rot G _ _ _ _ H Hgt) as (Sg & Sl & Sc & Scl & Sid & Swid).
  assert (open_ids (abs t) = woids t) as Eo by (apply (open_ids_root D old G); [exact Hgt|congruence]).
  split.
  - (* the shape of the closed writer *)
    assert (exists tail' npn nc, t' = Wr (Some i) true [] tail' npn [] nc /\ w_shape t') as (tail' & npn & nc & Et & Sht).
    { destruct t as [wid cl ch tail npn pn nc]. cbn [w_id] in Hid. subst wid. pose proof H as H0.
      cbn [PageTree.close_w] in H0. apply bind_ok in H0 as ([nodes st1] & _ & H0).
      apply bind_ok in H0 as ([tail' nx] & _ & H0). apply bind_ok in H0 as (fs1 & _ & H0). apply bind_ok in H0 as (fs2 & _ & H0).
      injection H0 as <- _. exists tail', npn, nc. split; [reflexivity|]. inversion Hsh; subst. constructor; auto. intros; discriminate. }
    destruct (settle (fun _ => 0) t (NoDup_app_remove_r _ _ Hnd2)) as (rho & Hst & _).
    assert (wsize rho t' = wsize rho t) as Esize.
    { rewrite (settled_size rho t Hst). subst t'. cbn [wsize named_open map list_sum w_tail] in *. rewrite Sl. reflexivity. }
    assert (Permutation (ids (wpages (plug C t'))) (ids (wpages (plug C t)))) as Pp.
    { rewrite (pages_plug rho C t'), (pages_plug rho C t), Esize. subst t'. cbn [wpages flat_map app w_tail] in *. rewrite Sl. reflexivity. }
    assert (Permutation (wids (plug C t')) (i :: cids C)) as Pw.
    { rewrite wids_plug. subst t'. reflexivity. }
    assert (In i (wids t)) as Hit by (destruct t as [wid cl ch tail0 npn0 pn0 nc0]; cbn in Hid; subst wid; cbn; auto).
    constructor; auto.
    + apply (Permutation_NoDup (Permutation_sym Pw)). constructor; [|exact (NoDup_app_remove_l _ _ Hnd2)].
      intros Hin. exact (NoDup_app_disjoint _ _ Hnd2 i Hit Hin).
    + apply (Permutation_Forall (Permutation_sym Pw)). rewrite Swid.
      apply (Permutation_Forall (wids_plug C t)) in A6. apply Forall_app in A6 as [A6a A6b].
      constructor; [|exact A6b]. rewrite Forall_forall in A6a. exact (A6a i Hit).
    + apply (Permutation_NoDup (Permutation_app_tail _ (Permutation_sym Pp))). exact A7.
    + intros k q Hin. apply (Permutation_in _ (Permutation_sym Pp)). apply in_app_or in Hin as [Hin|Hin]; [exact (A8 _ _ Hin)|].
      apply in_map_iff in Hin as ([j k'] & E & _). discriminate.
    + inversion A9; assumption.
  - apply (close_Jall D old choose choose_rot G C t t' st st' P Q sel H Hcl Hgt Hsh A5); [| |exact HJ].
    + intros rho e He. unfold sel. apply mem_nat_in. rewrite Eo. exact (wpend_woids rho t e He).
    + intros j Hj. unfold sel. destruct (mem_nat j (open_ids (abs t))) eqn:E; [|reflexivity]. apply mem_nat_in in E.
      rewrite Eo in E. apply woids_sub in E. exfalso. exact (NoDup_app_disjoint _ _ Hnd2 j E Hj).
Qed.

(* ---- NextPageNumber on an open range *)
Lemma nextpn_step C i ch tail npn pn nc k st P Q rest o :
  let t := Wr (Some i) false ch tail npn pn nc in
  let t' := Wr (Some i) false ch tail npn (pn ++ [k]) nc in
  Jst (plug C t) st Q (o :: rest) -> append_ids (o :: rest) = append_ids rest -> Jall (plug C t) (g_f st) P Q ->
  w_good (plug C t') -> w_id (plug C t') = Some 0 -> w_safe D (hlen st) (plug C t') ->
  Jst (plug C t') st Q rest /\ Jall (plug C t') (g_f st) (P ++ [(i, k)]) Q.
Proof.
  intros t t' [A1 A2 A3 A4 A5 A6 A7 A8 A9] Ho HJ G1 G2 G3. rewrite Ho in A7.
  assert (Permutation (wids (plug C t')) (wids (plug C t))) as Pw by (rewrite !wids_plug; reflexivity).
  assert (Permutation (ids (wpages (plug C t'))) (ids (wpages (plug C t)))) as Pp.
  { rewrite (pages_plug (fun _ => 0) C t'), (pages_plug (fun _ => 0) C t). reflexivity. }
  split.
  - constructor; auto.
    + destruct (shape_plug C t A4) as [St Sp]. apply Sp. inversion St; subst. constructor; auto. intros; discriminate.
    + exact (Permutation_NoDup (Permutation_sym Pw) A5).
    + exact (Permutation_Forall (Permutation_sym Pw) A6).
    + apply (Permutation_NoDup (Permutation_app_tail _ (Permutation_sym Pp))). exact A7.
    + intros k0 q Hin. apply (Permutation_in _ (Permutation_sym Pp)). exact (A8 _ _ Hin).
    + inversion A9; assumption.
  - intros rho. destruct (HJ rho) as (V & J). exists V. apply nextpn_J. exact J.
Qed.

Lemma Jst_log root st Q rest fs k : g_f st = fs -> forall log',
  Jst root st Q rest -> Jst root (with_f st (mkF (f_heap fs) log')) (Q ++ [(k, None)]) rest.
Proof.
  intros E log' [A1 A2 A3 A4 A5 A6 A7 A8 A9]. constructor; auto.
  - unfold hlen in *. cbn [with_f g_f f_heap]. rewrite <- E. exact A3.
  - intros k0 p Hin. apply in_app_or in Hin as [Hin|[Hin|[]]]; [exact (A8 _ _ Hin)|discriminate].
Qed.

(* a name that is not the name of an open range *)
Lemma not_open_closed C t id : w_good (plug C t) -> w_id (plug C t) <> None -> NoDup (wids (plug C t)) ->
  w_id t = Some id -> w_closed t = true -> mem_nat id (open_ids (abs (plug C t))) = false.
Proof.
  intros Hg Hn Hnd Hid Hcl. destruct (mem_nat id (open_ids (abs (plug C t)))) eqn:E; [|reflexivity]. exfalso.
  apply mem_nat_in in E. rewrite (open_ids_root D old G _ Hg Hn) in E. apply (Permutation_in _ (woids_plug C t)) in E.
  pose proof (Permutation_NoDup (wids_plug C t) Hnd) as Hnd2.
  assert (In id (wids t)) as Hit by (destruct t as [wid cl ch tail0 npn0 pn0 nc0]; cbn in Hid; subst wid; cbn; auto).
  apply in_app_or in E as [E|E].
  - destruct t as [wid cl ch tail npn pn nc]. cbn in Hcl, Hid. subst cl wid.
    pose proof (plug_good D old G C _ Hg) as Hgt. inversion Hgt as [? ? ? ? ? ? ? _ _ _ Hch]; subst. rewrite (Hch eq_refl) in E. destruct E.
  - apply coids_sub in E. exact (NoDup_app_disjoint _ _ Hnd2 id Hit E).
Qed.

Lemma is_open_open C t id : w_good (plug C t) -> w_id (plug C t) <> None ->
  w_id t = Some id -> w_closed t = false -> mem_nat id (open_ids (abs (plug C t))) = true.
Proof.
  intros Hg Hn Hid Hcl. apply mem_nat_in. rewrite (open_ids_root D old G _ Hg Hn).
  apply (Permutation_in _ (Permutation_sym (woids_plug C t))). apply in_or_app. left.
  destruct t as [wid cl ch tail npn pn nc]. cbn in Hcl, Hid. subst cl wid. cbn. auto.
Qed.

Lemma not_open_absent root id : w_good root -> w_id root <> None -> ~ In id (wids root) ->
  mem_nat id (open_ids (abs root)) = false.
Proof.
  intros Hg Hn Hni. destruct (mem_nat id (open_ids (abs root))) eqn:E; [|reflexivity]. exfalso.
  apply mem_nat_in in E. rewrite (open_ids_root D old G _ Hg Hn) in E. apply Hni. apply woids_sub. exact E.
Qed.

(* ---- one operation *)
Lemma step_pn root st o rest root' st' ok P Q :
  Jst root st Q (o :: rest) -> Jall root (g_f st) P Q ->
  step root st o = Ok (root', st', ok) ->
  exists P' Q', (forall r, spec_cbs (abs root) (g_wid st) (o :: r) P Q = spec_cbs (abs root') (g_wid st') r P' Q') /\
     Jst root' st' Q' rest /\ Jall root' (g_f st') P' Q'.
Proof.
  intros HS HJ H. destruct (step_struct _ _ _ _ _ _ _ _ _ HS HJ H) as (G1 & G2 & G3 & Hsim).
  pose proof (s_good _ _ _ _ HS) as Hg. pose proof (s_id _ _ _ _ HS) as Hid0.
  assert (w_id root <> None) as Hn by congruence.
  destruct o as [w p a|w|w|w k].
  - (* AppendPageDict *)
    unfold PageTree.step in H. cbn [op_fun] in H. apply bind_ok in H as (r & Hw & H). destruct r as [[[r1 s1] ok1]|].
    + injection H as -> -> ->. destruct (with_writer_split _ _ _ _ _ _ _ Hw) as (C & t & t' & -> & -> & Ewid & Hf & Hpath).
      unfold guarded in Hf. destruct (w_closed t) eqn:Ecl.
      * injection Hf as <- <- <-. exists P, Q. splits; [|exact (Jst_drop _ _ _ _ _ HS)|exact HJ].
        intros r. cbn [spec_cbs]. rewrite Hsim. reflexivity.
      * apply bind_ok in Hf as ([t2 s2] & Hd & Hf). injection Hf as <- <- <-.
        destruct t as [wid cl ch tail npn pn nc]. cbn in Ewid, Ecl. subst wid cl. destruct npn as [c|]; [|discriminate].
        destruct (append_step C w ch tail c pn nc p a st t2 s2 P Q rest Hd HS HJ G1 G2 G3) as [B1 B2].
        eexists _, _. splits; [|exact B1|exact B2]. intros r. cbn [spec_cbs]. rewrite Hsim. reflexivity.
    + injection H as <- <- <-. exists P, Q. splits; [|exact (Jst_drop _ _ _ _ _ HS)|exact HJ].
      intros r. cbn [spec_cbs]. rewrite Hsim. reflexivity.
  - (* NewRange *)
    unfold PageTree.step in H. cbn [op_fun] in H. apply bind_ok in H as (r & Hw & H). destruct r as [[[r1 s1] ok1]|].
    + injection H as -> -> ->. destruct (with_writer_split _ _ _ _ _ _ _ Hw) as (C & t & t' & -> & -> & Ewid & Hf & Hpath).
      unfold guarded in Hf. destruct (w_closed t) eqn:Ecl.
      * injection Hf as <- <- <-. exists P, Q. splits; [|exact (Jst_drop _ _ _ _ _ HS)|exact HJ].
        intros r. cbn [spec_cbs]. rewrite Hsim. reflexivity.
      * apply bind_ok in Hf as ([t2 s2] & Hd & Hf). injection Hf as <- <- <-.
        destruct t as [wid cl ch tail npn pn nc]. cbn in Ewid, Ecl. subst wid cl. destruct npn as [c|]; [|discriminate].
        destruct (new_range_step C w ch tail c pn nc st t2 s2 P Q rest _ Hd HS eq_refl HJ G1 G2 G3) as [B1 B2].
        exists P, Q. splits; [|exact B1|exact B2]. intros r. cbn [spec_cbs]. rewrite Hsim. reflexivity.
    + injection H as <- <- <-. exists P, Q. splits; [|exact (Jst_drop _ _ _ _ _ HS)|exact HJ].
      intros r. cbn [spec_cbs]. rewrite Hsim. reflexivity.
  - (* Close *)
    unfold PageTree.step in H. destruct w as [|w]; [discriminate|]. cbn [op_fun] in H.
    apply bind_ok in H as (r & Hw & H). destruct r as [[[r1 s1] ok1]|].
    + injection H as -> -> ->. destruct (with_writer_split _ _ _ _ _ _ _ Hw) as (C & t & t' & -> & -> & Ewid & Hf & Hpath).
      unfold guarded in Hf. destruct (w_closed t) eqn:Ecl.
      * injection Hf as <- <- <-. exists P, Q. splits; [|exact (Jst_drop _ _ _ _ _ HS)|exact HJ].
        intros r. cbn [spec_cbs]. rewrite Hsim. reflexivity.
      * apply bind_ok in Hf as ([t2 s2] & Hd & Hf). injection Hf as <- <- <-.
        destruct (close_step C t (S w) st t2 s2 P Q rest _ Hd Ecl Ewid HS eq_refl HJ G1 G2 G3) as [B1 B2].
        eexists _, _. splits; [|exact B1|exact B2]. intros r. cbn [spec_cbs]. rewrite Hsim.
        rewrite (find_range_root D old G (S w) C t Hg Hn Hpath Ewid). reflexivity.
    + injection H as <- <- <-. exists P, Q. splits; [|exact (Jst_drop _ _ _ _ _ HS)|exact HJ].
      intros r. cbn [spec_cbs]. rewrite Hsim. reflexivity.
  - (* NextPageNumber *)
    unfold PageTree.step in H. cbn [op_fun] in H. apply bind_ok in H as (r & Hw & H). destruct r as [[[r1 s1] ok1]|].
    + injection H as -> -> ->. destruct (with_writer_split _ _ _ _ _ _ _ Hw) as (C & t & t' & -> & -> & Ewid & Hf & Hpath).
      destruct (w_closed t) eqn:Ecl.
      * cbn [f_fire bind] in Hf. injection Hf as <- <- <-.
        exists P, (Q ++ [(k, None)]). splits.
        -- intros r. cbn [spec_cbs]. rewrite Hsim. rewrite (not_open_closed C t w Hg Hn (s_nd _ _ _ _ HS) Ewid Ecl). reflexivity.
        -- apply (Jst_log _ _ _ _ (g_f st) k eq_refl). exact (Jst_drop _ _ _ _ _ HS).
        -- intros rho. destruct (HJ rho) as (V & J). exists V. cbn [with_f g_f]. apply fire_none_J. exact J.
      * apply bind_ok in Hf as ([t2 s2] & Hd & Hf). injection Hf as <- <- <-.
        destruct t as [wid cl ch tail npn pn nc]. cbn in Ewid, Ecl. subst wid cl. cbn [do_next_pn] in Hd. injection Hd as <- <-.
        destruct (nextpn_step C w ch tail npn pn nc k st P Q rest _ HS eq_refl HJ G1 G2 G3) as [B1 B2].
        exists (P ++ [(w, k)]), Q. splits; [|exact B1|exact B2].
        intros r. cbn [spec_cbs]. rewrite Hsim.
        rewrite (is_open_open C (Wr (Some w) false ch tail npn pn nc) w Hg Hn eq_refl eq_refl). reflexivity.
    + apply bind_ok in H as (fs & Hfire & H). cbn [f_fire] in Hfire. injection Hfire as <-. injection H as <- <- <-.
      exists P, (Q ++ [(k, None)]). splits.
      * intros r. cbn [spec_cbs]. rewrite Hsim. rewrite (not_open_absent root w Hg Hn (with_writer_none _ _ _ _ Hw)). reflexivity.
      * apply (Jst_log _ _ _ _ (g_f st) k eq_refl). exact (Jst_drop _ _ _ _ _ HS).
      * intros rho. destruct (HJ rho) as (V & J). exists V. cbn [with_f g_f]. apply fire_none_J. exact J.
Qed.

(* ---- programs *)
Lemma steps_pn prog : forall root st acc root' st' acc' P Q,
  Jst root st Q prog -> Jall root (g_f st) P Q ->
  steps root st prog acc = Ok (root', st', acc') ->
  exists P' Q', spec_cbs (abs root) (g_wid st) prog P Q = Q' ++ map (fun '(_, k) => (k, None)) P' /\
    Jst root' st' Q' [] /\ Jall root' (g_f st') P' Q'.
Proof.
  induction prog as [|o prog IH]; intros root st acc root' st' acc' P Q HS HJ H.
  - injection H as <- <- <-. exists P, Q. auto.
  - cbn [PageTree.steps] in H. apply bind_ok in H as ([[r1 s1] ok] & Hs & H).
    destruct (step_pn _ _ _ _ _ _ _ _ _ HS HJ Hs) as (P1 & Q1 & E1 & S1 & J1).
    destruct (IH _ _ _ _ _ _ _ _ S1 J1 H) as (P2 & Q2 & E2 & S2 & J2).
    exists P2, Q2. rewrite E1. auto.
Qed.

Definition item_closed (i : item) : bool := match i with ItRange _ c _ => c | ItPage _ => true end.

(* the root range stays open *)
Lemma step_open root st o root' st' ok : w_good root -> w_id root = Some 0 -> given_ok G o -> w_closed root = false ->
  step root st o = Ok (root', st', ok) -> w_closed root' = false.
Proof.
  intros Hg Hid Ho Hcl H. destruct (step_sim D old choose choose_rot G _ _ _ _ _ _ Hg Hid Ho H) as (_ & _ & S3).
  destruct root as [wid cl ch tail npn pn nc]. cbn in Hid, Hcl. subst wid cl. rewrite abs_eq in S3.
  destruct root' as [wid' cl' ch' tail' npn' pn' nc']. rewrite abs_eq in S3. cbn [w_closed].
  set (items := flat_map abs_child ch ++ map ItPage (ids (tleaves tail))) in *.
  assert (forall id g, (id = 0 -> forall its, exists its', g 0 its = ItRange 0 false its') ->
            forall r, with_range id g (ItRange 0 false items) = Some (Some r) -> exists its', r = ItRange 0 false its') as Hwr.
  { intros id g Hg0 r Hr. rewrite with_range_eq in Hr. destruct (0 =? id) eqn:E.
    - apply Nat.eqb_eq in E. injection Hr as <-. apply Hg0. congruence.
    - destruct (wr_list id g items) as [[its'|]|]; try discriminate. injection Hr as <-. eauto. }
  assert (forall (x : item * nat * bool), x = (ItRange (match wid' with Some i => i | None => 0 end) cl'
             (flat_map abs_child ch' ++ map ItPage (ids (tleaves tail'))), g_wid st', ok) ->
            item_closed (fst (fst x)) = false -> cl' = false) as Hfin.
  { intros x -> Hx. exact Hx. }
  destruct o as [w p a|w|w|w k]; cbn [spec_step] in S3.
  - destruct (with_range w _ _) as [[r|]|] eqn:E; cbn [spec_apply] in S3; apply (Hfin _ S3); [|reflexivity..].
    destruct (Hwr _ _ (fun _ its => ex_intro _ _ eq_refl) _ E) as (its' & ->). reflexivity.
  - destruct (with_range w _ _) as [[r|]|] eqn:E; cbn [spec_apply] in S3; apply (Hfin _ S3); [|reflexivity..].
    destruct (Hwr _ _ (fun _ its => ex_intro _ _ eq_refl) _ E) as (its' & ->). reflexivity.
  - destruct w as [|w]; [unfold PageTree.step in H; discriminate|].
    destruct (with_range (S w) _ _) as [[r|]|] eqn:E; cbn [spec_apply] in S3; apply (Hfin _ S3); [|reflexivity..].
    destruct (Hwr _ _ (fun (E0 : S w = 0) _ => match Nat.neq_succ_0 _ E0 with end) _ E) as (its' & ->). reflexivity.
  - apply (Hfin _ S3). reflexivity.
Qed.

Lemma steps_open prog : forall root st acc root' st' acc',
  w_good root -> w_id root = Some 0 -> Forall (given_ok G) prog -> w_closed root = false ->
  steps root st prog acc = Ok (root', st', acc') -> w_closed root' = false.
Proof.
  induction prog as [|o prog IH]; intros root st acc root' st' acc' Hg Hid Hgv Hcl H.
  - injection H as <- <- <-. exact Hcl.
  - inversion Hgv as [|? ? Ho Hrest]; subst. cbn [PageTree.steps] in H. apply bind_ok in H as ([[r1 s1] ok] & Hs & H).
    destruct (step_sim D old choose choose_rot G _ _ _ _ _ _ Hg Hid Ho Hs) as (S1 & S2 & _).
    exact (IH _ _ _ _ _ _ S1 S2 Hrest (step_open _ _ _ _ _ _ Hg Hid Ho Hcl Hs) H).
Qed.

End Prog.

(* ---- positions in a list without repetitions *)
Lemma index_of_combine p pos l : forall o, NoDup l ->
  (In (p, pos) (combine l (seq o (length l))) <-> exists i, index_of p l = Some i /\ pos = o + i).
Proof.
  induction l as [|y l IH]; intros o Hnd; cbn [length seq combine index_of].
  - split; [intros []|intros (i & E & _); discriminate].
  - inversion Hnd as [|? ? Hy Hnd']; subst. cbn [In]. rewrite (IH (S o) Hnd'). destruct (Nat.eqb_spec y p) as [->|Hne].
    + split.
      * intros [E|(i & E & _)]; [injection E as <-; exists 0; split; [reflexivity|lia]|].
        exfalso. apply Hy. clear - E. revert i E. induction l as [|z l IHl]; intros i E; [discriminate|]. cbn in E.
        destruct (Nat.eqb_spec z p) as [->|]; [left; reflexivity|]. right. destruct (index_of p l); [eauto|discriminate].
      * intros (i & E & ->). injection E as <-. left. f_equal. lia.
    + split.
      * intros [E|(i & E & ->)]; [injection E as E' _; congruence|]. exists (S i). rewrite E. split; [reflexivity|lia].
      * intros (i & E & ->). right. destruct (index_of p l) as [j|]; [|discriminate]. injection E as <-. exists j. split; [reflexivity|lia].
Qed.

Lemma filter_all {A} (f : A -> bool) l : (forall x, In x l -> f x = true) -> filter f l = l /\ filter (fun x => negb (f x)) l = [].
Proof.
  induction l as [|x l IH]; intros H; [auto|]. cbn. rewrite (H x (or_introl eq_refl)). cbn.
  destruct IH as [-> ->]; [intros y Hy; apply H; right; exact Hy|]. auto.
Qed.

(* with nothing owed from outside, every cell is complete: no callback is left waiting *)
Lemma all_known V h : HInv V h [] -> upend V h = [].
Proof.
  intros (Hwf & _ & Hcells).
  assert (forall n c cl, c < n -> nth_error h c = Some cl -> c_cbs cl = []) as Hk.
  { induction n as [|n IH]; intros c cl Hc E; [lia|].
    destruct (Hcells c cl E) as ((Hm & _ & _ & Hz) & _). apply Hz. rewrite Hm, app_nil_r.
    rewrite (cnt0_notin (pend V h) c); [reflexivity|]. intros e He Efst.
    apply pend_from_in in He as (c2 & cl2 & E2 & Hin & _). rewrite Efst in Hin.
    pose proof (Hwf c2 cl2 E2) as Hf. rewrite Forall_forall in Hf. specialize (Hf _ Hin). cbn in Hf.
    rewrite (IH c2 cl2 ltac:(lia) E2) in Hin. destruct Hin. }
  assert (Forall (fun cl => c_cbs cl = []) h) as Hall.
  { apply Forall_forall. intros cl Hin. apply In_nth_error in Hin as (c & E).
    apply (Hk (S c) c cl); [lia|exact E]. }
  clear - Hall. unfold upend. generalize 0. induction Hall as [|cl h Hc _ IHh]; intros i; [reflexivity|]. cbn [upend_from].
  rewrite Hc. cbn [usr_of app]. apply IHh.
Qed.

Section Final.
Variable D : nat.
Variable old : bool.
Variable choose : list Z -> Z.
Variable choose_rot : list (option Z) -> option Z.
Hypothesis HD : 2 <= D.

(* every callback is called once, with the value the specification says: the two logs are
   the same up to the order of the calls *)
Theorem page_numbers_exact prog out : NoDup (append_ids prog) -> run D old choose choose_rot prog = Ok out ->
  Permutation (o_log out) (spec_log prog).
Proof.
  intros Hnd H. set (G := given_of prog).
  unfold PageTree.run in H. cbn [init_state] in H. apply bind_ok in H as ([[root1 st1] acc] & Hs & H).
  set (root0 := Wr (Some 0) false [] [] (Some 0) [] []) in *. set (st0 := mkG 0 (mkF [mkCell 0%Z 0%Z []] []) 1) in *.
  assert (w_good D old G root0) as Hg0 by (constructor; auto; discriminate).
  assert (Jst D old G root0 st0 [] prog) as HS0.
  { constructor.
    - exact Hg0.
    - reflexivity.
    - constructor; [apply Inv_nil; lia|constructor| |constructor]. intros i _. exists 0. split; [reflexivity|cbn; lia].
    - constructor; [intros; discriminate|constructor|constructor].
    - cbn. constructor; [intros []|constructor].
    - cbn. constructor; [lia|constructor].
    - exact Hnd.
    - intros k p [].
    - exact (given_of_ok prog Hnd). }
  assert (Jall root0 (g_f st0) [] []) as HJ0.
  { intros rho. exists (fun _ => 0%Z). unfold root0, st0. cbn [g_f]. constructor.
    - unfold wx. rewrite wfold_eq. cbn [lfold app loc_x named_open upd_of f_heap]. split; [|split; [constructor|]].
      + intros c cl Hc. destruct c as [|[|c]]; cbn in Hc; try discriminate. injection Hc as <-. constructor.
      + intros c cl Hc. destruct c as [|[|c]]; cbn in Hc; try discriminate. injection Hc as <-.
        cbn. unfold cell_ok. cbn. splits; auto; lia.
    - unfold wreq. rewrite wfold_eq. cbn. constructor; [reflexivity|constructor].
    - unfold wreq. rewrite wfold_eq. cbn. constructor; [intros []|constructor].
    - unfold wpend. rewrite wfold_eq. cbn. constructor.
    - exists []. cbn. split; constructor. }
  destruct (steps_pn D old choose choose_rot G HD prog _ _ _ _ _ _ _ _ HS0 HJ0 Hs) as (P1 & Q1 & E1 & S1 & J1).
  pose proof (steps_open D old choose choose_rot G prog _ _ _ _ _ _ Hg0 eq_refl (given_of_ok prog Hnd) eq_refl Hs) as Hopen.
  destruct (steps_sim D old choose choose_rot G prog _ _ _ _ _ _ Hg0 eq_refl (given_of_ok prog Hnd) Hs) as (_ & _ & Ssim).
  apply bind_ok in H as ([root2 st2] & Hc & H).
  pose proof (s_good _ _ _ _ _ _ _ S1) as Hg1. pose proof (s_id _ _ _ _ _ _ _ S1) as Hid1.
  destruct (close_w_spec D old choose choose_rot G _ _ _ _ Hc Hg1) as (Sg & Sl & Sc & Scl & Sid & Swid).
  assert (o_log out = f_log (g_f st2)) as Elog.
  { apply bind_ok in H as ([tail nx] & _ & H). destruct tail; injection H as <-; reflexivity. }
  (* the final Close, as a step *)
  assert (Jst D old G root1 st1 Q1 [OClose 0]) as S1'.
  { destruct S1 as [A1 A2 A3 A4 A5 A6 A7 A8 A9]. constructor; auto. constructor; [exact I|constructor]. }
  destruct (close_w_safe D old choose choose_rot HD root1 st1 (s_safe _ _ _ _ _ _ _ S1) (Jall_heap_wf _ _ _ _ J1))
    as (r2 & s2 & Ec & B1 & _). rewrite Hc in Ec. injection Ec as <- <-.
  destruct (close_step D old choose choose_rot G CHole root1 0 st1 root2 st2 P1 Q1 [] (OClose 0) Hc Hopen Hid1 S1' eq_refl J1 Sg
              ltac:(cbn [plug]; congruence) B1) as [S2 J2].
  cbn [plug] in S2, J2.
  (* everything that was registered is told -1 *)
  assert (forall x, In x P1 -> (fun '(w', _) => mem_nat w' (open_ids (abs root1))) x = true) as Hall.
  { intros [j k0] Hin. apply mem_nat_in. rewrite (open_ids_root D old G _ Hg1 ltac:(congruence)).
    destruct (J1 (fun _ => 0)) as (V & [_ _ _ J4 _]). apply (Permutation_in _ J4) in Hin. exact (wpend_woids _ _ _ Hin). }
  destruct (filter_all _ P1 Hall) as [F1 F2].
  assert (filter (fun '(w', _) => negb (mem_nat w' (open_ids (abs root1)))) P1 = []) as F2'.
  { rewrite <- F2. apply filter_ext. intros [j k0]. reflexivity. }
  rewrite F1 in S2, J2. rewrite F2' in J2.
  (* the log *)
  destruct (J2 (fun _ => 0)) as (V & [K1 _ _ _ K5]).
  destruct root2 as [wid2 cl2 ch2 tail2 npn2 pn2 nc2]. cbn [w_tail w_children w_closed w_id] in Sl, Sc, Scl, Sid. subst ch2 cl2.
  assert (wx (fun _ => 0) (Wr wid2 true [] tail2 npn2 pn2 nc2) = []) as Ex by apply closed_folds.
  rewrite Ex in K1. rewrite (all_known V _ K1), app_nil_r in K5.
  set (pages := ids (wpages root1)).
  assert (wlay (fun _ => 0) 0 (Wr wid2 true [] tail2 npn2 pn2 nc2) = combine pages (seq 0 (length pages))) as Elay.
  { unfold wlay. rewrite wfold_eq. cbn [lfold app]. unfold loc_lay, sizes, pages. cbn [map list_sum]. rewrite Sl.
    unfold ids. rewrite map_length. reflexivity. }
  assert (NoDup pages) as Hndp.
  { pose proof (s_pages _ _ _ _ _ _ _ S1) as Hp. cbn [append_ids] in Hp. rewrite app_nil_r in Hp. exact Hp. }
  assert (fst (spec_run prog) = pages) as Epages.
  { unfold spec_run. change (ItRange 0 false []) with (abs root0). change 1 with (g_wid st0). rewrite Ssim.
    cbn [fst]. apply abs_pages. }
  destruct K5 as (L & PL & FL). rewrite Elog, PL. unfold spec_log, spec_log_of. rewrite Epages.
  change (ItRange 0 false []) with (abs root0). change 1 with (g_wid st0). rewrite E1.
  apply Permutation_refl'. clear - FL Elay Hndp. induction FL as [|[k o] [k' v] Q L [E1 E2] _ IH]; [reflexivity|].
  cbn [map]. f_equal; [|exact IH]. cbn [fst snd] in *. subst k'. f_equal. destruct o as [p|]; [|exact E2].
  cbn [Rv] in E2. destruct E2 as (pos & Hin & ->). rewrite Elay in Hin.
  apply (index_of_combine p pos pages 0 Hndp) in Hin as (i & Ei & ->). rewrite Ei. reflexivity.
Qed.

(* the same entries *)
Corollary page_numbers_nested prog out : NoDup (append_ids prog) -> run D old choose choose_rot prog = Ok out ->
  forall k v, In (k, v) (o_log out) <-> In (k, v) (spec_log prog).
Proof.
  intros Hnd H k v. pose proof (page_numbers_exact prog out Hnd H) as HP.
  split; intros Hin; [exact (Permutation_in _ HP Hin)|exact (Permutation_in _ (Permutation_sym HP) Hin)].
Qed.

End Final.
