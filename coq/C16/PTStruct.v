(* C16 - the structural invariant of the nodes in a tail: /Count, /Parent, fan-out. *)
From Coq Require Import List Arith Bool ZArith Lia.
From GoPdf.Base Require Import Res.
From GoPdf.C16 Require Import PageTree PTBasics PTTails.
Import ListNotations.

Definition is_rp (r : ref) : Prop := match r with RP _ => True | RN _ => False end.

Section Struct.
Variable D : nat.
Variable old : bool.
Variable choose : list Z -> Z.
Variable choose_rot : list (option Z) -> option Z.

(* a node at the top of a tail: no parent yet, everything below it is in order *)
Definition s_ok (i : ninfo) : Prop :=
  n_count i = count_leaves (n_node i) /\ node_parent (n_node i) = None /\
  body_ok D (n_node i) = true /\ Forall is_rp (leaves (n_node i)).

Lemma sum_counts_leaves cs : Forall s_ok cs ->
  sum_counts cs = fold_right (fun k s => count_leaves k + s) 0 (map n_node cs).
Proof. unfold sum_counts. induction 1 as [|i cs (H & _) _ IH]; cbn; [reflexivity|]. rewrite IH, H. reflexivity. Qed.

Lemma s_ok_merged cs next : Forall s_ok cs -> 2 <= length cs <= D -> s_ok (merged old choose choose_rot cs next).
Proof.
  intros Hs Hl. pose proof (merged_leaves old choose choose_rot cs next) as Hlv. unfold merged in *.
  pose proof (inherit_variant old choose choose_rot a_empty (map (fun i => set_parent (Some (RN next)) (n_node i)) cs)) as Hv.
  destruct (inherit _ _ _ _ _) as [pa kids]. cbn [snd n_node n_count] in *.
  assert (fold_right (fun k s => count_leaves k + s) 0 kids = sum_counts cs) as Hc.
  { rewrite (Forall2_variant_counts _ _ Hv), (sum_counts_leaves cs Hs). clear. induction cs; cbn; [reflexivity|].
    rewrite set_parent_count, IHcs. reflexivity. }
  unfold s_ok. cbn [n_count n_node count_leaves node_parent body_ok]. splits.
  - symmetry. exact Hc.
  - reflexivity.
  - rewrite Hc, Nat.eqb_refl. rewrite (Forall2_variant_length _ _ Hv), map_length.
    rewrite (Forall2_variant_sub_ok D _ _ _ Hv).
    assert (forallb (sub_ok D (RN next)) (map (fun i => set_parent (Some (RN next)) (n_node i)) cs) = true) as ->.
    { apply forallb_forall. intros k Hk. apply in_map_iff in Hk as (i & <- & Hi).
      rewrite sub_ok_eq, set_parent_parent, set_parent_body. cbn [opt_ref_eqb]. rewrite ref_eqb_refl. cbn [andb].
      rewrite Forall_forall in Hs. apply (Hs i Hi). }
    destruct (1 <=? length cs) eqn:E1; [|apply Nat.leb_gt in E1; lia].
    destruct (length cs <=? D) eqn:E2; [reflexivity|apply Nat.leb_gt in E2; lia].
  - rewrite Hlv. unfold tleaves. clear - Hs. induction Hs as [|i cs (_ & _ & _ & H) _ IH]; cbn; [constructor|].
    apply Forall_app. split; assumption.
Qed.

Lemma s_ok_depth i d : s_ok i -> s_ok (set_depth d i).
Proof. intros H. exact H. Qed.

Lemma s_ok_leaf id a : s_ok (mkN (Page (RP id) None a) 1 0).
Proof. unfold s_ok. cbn. splits; auto. constructor; [exact I|constructor]. Qed.

(* a finished root satisfies the structural part of the validator *)
Lemma s_ok_root i next : 1 <= D -> s_ok i -> root_ok D (wrap_if_leaf i next) = true.
Proof.
  intros HD (H1 & H2 & H3 & H4). unfold wrap_if_leaf, root_ok. destruct (n_node i) as [r p a|r p a c kids]; cbn in H2, H3.
  - cbn [count_leaves fold_right length forallb sub_ok node_parent opt_ref_eqb]. rewrite ref_eqb_refl. cbn.
    destruct D; [lia|reflexivity].
  - subst p. cbn [opt_ref_eqb]. cbn [body_ok] in H3. exact H3.
Qed.

Lemma wrap_leaves i next : leaves (wrap_if_leaf i next) = leaves (n_node i).
Proof. unfold wrap_if_leaf. destruct (n_node i); reflexivity. Qed.

End Struct.
