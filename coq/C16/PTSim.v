(* C16 - every operation on the tree of writers is the corresponding operation on ranges. *)
From Coq Require Import List Arith Bool ZArith Lia.
From GoPdf.Base Require Import Res.
From GoPdf.C16 Require Import PageTree PTBasics PTTails PTStruct PTAttrs PTWriter.
Import ListNotations.

(* the loops inside with_writer / with_range, named *)
Section Loops.
Variable id : nat.
Variable f : writer -> gstate -> res (writer * gstate * bool).
Variable st : gstate.

Fixpoint ww_list (l : list writer) : res (option (list writer * gstate * bool)) :=
  match l with
  | [] => Ok None
  | c :: r =>
    bind (with_writer id f c st) (fun o =>
      match o with
      | Some (c', st', ok) => Ok (Some (c' :: r, st', ok))
      | None => bind (ww_list r) (fun o' =>
                  match o' with
                  | Some (r', st', ok) => Ok (Some (c :: r', st', ok))
                  | None => Ok None
                  end)
      end)
  end.

Lemma with_writer_eq wid cl ch tail npn pn nc :
  with_writer id f (Wr wid cl ch tail npn pn nc) st =
  if match wid with Some i => i =? id | None => false end
  then bind (f (Wr wid cl ch tail npn pn nc) st) (fun r => Ok (Some r))
  else bind (ww_list ch) (fun o =>
         match o with
         | Some (ch', st', ok) => Ok (Some (Wr wid cl ch' tail npn pn nc, st', ok))
         | None => Ok None
         end).
Proof. reflexivity. Qed.

Variable g : nat -> list item -> item.

Fixpoint wr_list (l : list item) : option (option (list item)) :=
  match l with
  | [] => None
  | x :: r => match with_range id g x with
              | Some (Some x') => Some (Some (x' :: r))
              | Some None => Some None
              | None => match wr_list r with
                        | Some (Some r') => Some (Some (x :: r'))
                        | Some None => Some None
                        | None => None
                        end
              end
  end.

Lemma with_range_eq rid closed items :
  with_range id g (ItRange rid closed items) =
  if rid =? id then (if closed then Some None else Some (Some (g rid items)))
  else match wr_list items with
       | Some (Some items') => Some (Some (ItRange rid closed items'))
       | Some None => Some None
       | None => None
       end.
Proof. reflexivity. Qed.

Lemma wr_list_pages l : wr_list (map ItPage l) = None.
Proof. induction l; cbn; [reflexivity|]. rewrite IHl. reflexivity. Qed.

Lemma wr_list_app_none a b : wr_list a = None -> wr_list (a ++ b) =
  match wr_list b with Some (Some b') => Some (Some (a ++ b')) | Some None => Some None | None => None end.
Proof.
  induction a as [|x a IH]; intros H; cbn in *.
  - destruct (wr_list b) as [[?|]|]; reflexivity.
  - destruct (with_range id g x) as [[?|]|]; try discriminate.
    destruct (wr_list a) as [[?|]|]; try discriminate. rewrite IH by reflexivity.
    destruct (wr_list b) as [[?|]|]; reflexivity.
Qed.

End Loops.

Section Sim.
Variable D : nat.
Variable old : bool.
Variable choose : list Z -> Z.
Variable choose_rot : list (option Z) -> option Z.
Variable G : ref -> attrs.
Hypothesis HD : 1 <= D.

Notation w_good := (w_good D old G).

Variable id : nat.
Variable f : writer -> gstate -> res (writer * gstate * bool).
Variable g : nat -> list item -> item.
Variable st0 : gstate.                      (* the state in which the operation starts *)
Variable Q : gstate -> bool -> Prop.        (* what the operation guarantees about the state it leaves *)

(* f on a writer with this id is g on its range; a closed writer refuses *)
Hypothesis f_local : forall w w' st' ok cl items,
  w_good w -> w_id w = Some id -> abs w = ItRange id cl items -> f w st0 = Ok (w', st', ok) ->
  w_good w' /\ w_id w' = Some id /\ Q st' ok /\
  (if cl then ok = false /\ w' = w else ok = true /\ abs w' = g id items).

Definition sim_result (w : writer) (r : option (writer * gstate * bool)) : Prop :=
  match r with
  | None => with_range id g (abs w) = None
  | Some (w', st', ok) =>
    w_good w' /\ w_id w' = w_id w /\ Q st' ok /\
    (if ok then with_range id g (abs w) = Some (Some (abs w'))
     else with_range id g (abs w) = Some None /\ w' = w)
  end.

Lemma abs_id w i : w_id w = Some i -> exists cl items, abs w = ItRange i cl items.
Proof. destruct w as [wid cl ch tail npn pn nc]. cbn [w_id]. intros ->. rewrite abs_eq. eauto. Qed.

Lemma with_writer_sim w : forall r, w_good w -> w_id w <> None -> with_writer id f w st0 = Ok r -> sim_result w r.
Proof.
  induction w as [wid cl ch tail npn pn nc IH] using writer_ind'. intros r Hg Hsome H.
  rewrite with_writer_eq in H.
  destruct (match wid with Some i => i =? id | None => false end) eqn:Eid.
  - (* this writer *)
    destruct wid as [i|]; [|discriminate]. apply Nat.eqb_eq in Eid. subst i.
    apply bind_ok in H as ([[w' st'] ok] & Hf & H). injection H as <-.
    destruct (f_local _ _ _ _ cl _ Hg eq_refl (abs_eq _ _ _ _ _ _ _) Hf) as (G1 & G2 & GQ & G3).
    cbn [sim_result]. splits; auto. rewrite abs_eq, with_range_eq, Nat.eqb_refl.
    destruct cl; destruct G3 as [-> G3]; [split; [reflexivity|exact G3]|rewrite G3; reflexivity].
  - (* below *)
    inversion Hg as [? ? ? ? ? ? ? Ht Hc Hid Hcl]; subst.
    apply bind_ok in H as (o & Hl & H).
    set (rid := match wid with Some i => i | None => 0 end) in *.
    assert ((rid =? id) = false \/ wid = None) as Hrid.
    { destruct wid as [i|]; [left; exact Eid|right; reflexivity]. }
    (* the loop over the children, against the loop over the items *)
    assert (forall l o, Forall (fun c => forall r, w_good c -> w_id c <> None -> with_writer id f c st0 = Ok r -> sim_result c r) l ->
              Forall w_good l -> ww_list id f st0 l = Ok o ->
              match o with
              | None => wr_list id g (flat_map abs_child l) = None
              | Some (l', st', ok) =>
                Forall w_good l' /\ (l = [] -> l' = []) /\ Q st' ok /\
                (if ok then wr_list id g (flat_map abs_child l) = Some (Some (flat_map abs_child l'))
                 else wr_list id g (flat_map abs_child l) = Some None /\ l' = l)
              end) as Hloop.
    { clear. induction l as [|c cs IHl]; intros o HP Hgs Hww.
      - injection Hww as <-. reflexivity.
      - inversion HP as [|? ? Pc Pcs]; subst. inversion Hgs as [|? ? Gc Gcs]; subst.
        cbn [ww_list] in Hww. apply bind_ok in Hww as (oc & Hc & Hww).
        cbn [flat_map].
        destruct (w_id c) as [ci|] eqn:Eci.
        * (* a range writer *)
          assert (abs_child c = [abs c]) as Eac by (unfold abs_child; rewrite Eci; reflexivity).
          specialize (Pc _ Gc ltac:(congruence) Hc).
          destruct oc as [[[c' st'] ok]|].
          -- injection Hww as <-. destruct Pc as (P1 & P2 & PQ & P3). splits; [constructor; auto|discriminate|exact PQ|].
             assert (abs_child c' = [abs c']) as Ec' by (unfold abs_child; rewrite P2, Eci; reflexivity).
             rewrite Eac. cbn [flat_map app wr_list]. destruct ok.
             ++ rewrite P3, Ec'. reflexivity.
             ++ destruct P3 as [P3 ->]. rewrite P3. auto.
          -- apply bind_ok in Hww as (o' & Hr & Hww). specialize (IHl _ Pcs Gcs Hr).
             assert (wr_list id g (abs_child c) = None) as Hnone by (rewrite Eac; cbn; cbn in Pc; rewrite Pc; reflexivity).
             rewrite (wr_list_app_none _ _ _ _ Hnone).
             destruct o' as [[[r' st'] ok]|].
             ++ injection Hww as <-. destruct IHl as (I1 & I2 & IQ & I3). splits; [constructor; auto|discriminate|exact IQ|].
                destruct ok; [rewrite I3; reflexivity|destruct I3 as [I3 ->]; rewrite I3; auto].
             ++ injection Hww as <-. rewrite IHl. reflexivity.
        * (* an anonymous writer is never the target and has no children *)
          assert (oc = None) as ->.
          { destruct c as [wid' cl' ch' tail' npn' pn' nc']. cbn in Eci. subst wid'.
            rewrite with_writer_eq in Hc. inversion Gc as [? ? ? ? ? ? ? _ _ Hn _]; subst.
            rewrite (Hn eq_refl) in Hc. cbn in Hc. injection Hc as <-. reflexivity. }
          apply bind_ok in Hww as (o' & Hr & Hww). specialize (IHl _ Pcs Gcs Hr).
          assert (wr_list id g (abs_child c) = None) as Hnone by (unfold abs_child; rewrite Eci; apply wr_list_pages).
          rewrite (wr_list_app_none _ _ _ _ Hnone).
          destruct o' as [[[r' st'] ok]|].
          -- injection Hww as <-. destruct IHl as (I1 & I2 & IQ & I3). splits; [constructor; auto|discriminate|exact IQ|].
             destruct ok; [rewrite I3; reflexivity|destruct I3 as [I3 ->]; rewrite I3; auto].
          -- injection Hww as <-. rewrite IHl. reflexivity. }
    specialize (Hloop ch o IH Hc Hl).
    assert (with_range id g (ItRange rid cl (flat_map abs_child ch ++ map ItPage (ids (tleaves tail)))) =
            match wr_list id g (flat_map abs_child ch) with
            | Some (Some l') => Some (Some (ItRange rid cl (l' ++ map ItPage (ids (tleaves tail)))))
            | Some None => Some None
            | None => None
            end) as Hwr.
    { rewrite with_range_eq.
      assert ((rid =? id) = false \/ ch = []) as [E|E].
      { destruct Hrid as [E|E]; [left; exact E|right; apply Hid; exact E]. }
      - rewrite E. destruct (wr_list id g (flat_map abs_child ch)) as [[l'|]|] eqn:El.
        + (* found among the children *)
          assert (forall a b l', wr_list id g a = Some (Some l') -> wr_list id g (a ++ b) = Some (Some (l' ++ b))) as Happ.
          { clear. induction a as [|x a IHa]; intros b l' H; [discriminate|]. cbn in *.
            destruct (with_range id g x) as [[x'|]|]; [injection H as <-; reflexivity|discriminate|].
            destruct (wr_list id g a) as [[a'|]|]; try discriminate. injection H as <-. rewrite (IHa b a' eq_refl). reflexivity. }
          rewrite (Happ _ _ _ El). reflexivity.
        + assert (forall a b, wr_list id g a = Some None -> wr_list id g (a ++ b) = Some None) as Happ.
          { clear. induction a as [|x a IHa]; intros b H; [discriminate|]. cbn in *.
            destruct (with_range id g x) as [[x'|]|]; [discriminate|reflexivity|].
            destruct (wr_list id g a) as [[a'|]|]; try discriminate. rewrite (IHa b eq_refl). reflexivity. }
          rewrite (Happ _ _ El). reflexivity.
        + rewrite (wr_list_app_none _ _ _ _ El), wr_list_pages. reflexivity.
      - subst ch. cbn [flat_map app wr_list]. rewrite wr_list_pages.
        destruct (rid =? id) eqn:E2; [|reflexivity].
        (* an anonymous writer: its id 0 may coincide, but it has no children and is never looked up *)
        destruct Hrid as [Hx|Hx]; [congruence|]. subst wid. cbn in Hsome. congruence. }
    destruct o as [[[ch' st'] ok]|].
    + injection H as <-. destruct Hloop as (L1 & L2 & LQ & L3). cbn [sim_result]. splits.
      * constructor; [exact Ht|exact L1|intros E; apply L2, Hid, E|intros E; apply L2, Hcl, E].
      * reflexivity.
      * exact LQ.
      * rewrite !abs_eq. fold rid. destruct ok.
        -- rewrite Hwr, L3. reflexivity.
        -- destruct L3 as [L3 ->]. rewrite Hwr, L3. auto.
    + injection H as <-. cbn [sim_result]. rewrite abs_eq. fold rid. rewrite Hwr, Hloop. reflexivity.
Qed.

End Sim.
