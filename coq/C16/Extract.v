Require Extraction.
Require Import ExtrOcamlBasic.
From GoPdf.Base Require Import WireAnchor.
From GoPdf.C16 Require Import PageTree PageTreeInst.
Separate Extraction wire_anchor run_model ptree_ok_model iterate_model get_page_model num_pages
  spec_run spec_log spec_log_of leaves a_set a_empty.
