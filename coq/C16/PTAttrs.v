(* C16 - hoisting inheritable attributes into the parent never changes what a page inherits.
   Single-key view: [iterk k n v] is what Iterator.All reports for key k below n when v comes
   from above. *)
From Coq Require Import List Arith Bool ZArith Lia.
From GoPdf.Base Require Import Res.
From GoPdf.C16 Require Import PageTree PTBasics PTTails.
Import ListNotations.

Section Attrs.
Variable old : bool.
Variable choose : list Z -> Z.
Variable choose_rot : list (option Z) -> option Z.

Definition inhk (k : key) : bool := key_in k (inheritable old).
Definition orelse (a b : option Z) : option Z := match a with Some _ => a | None => b end.
Definition fillk (k : key) (o v : option Z) : option Z :=
  match o with Some x => Some x | None => if inhk k then v else None end.
Definition ctxk (k : key) (o v : option Z) : option Z := if inhk k then orelse o v else v.

Fixpoint iterk (k : key) (n : node) (v : option Z) : list (ref * option Z) :=
  match n with
  | Page r _ a => [(r, fillk k (a k) v)]
  | Pages _ _ a _ kids => flat_map (fun c => iterk k c (ctxk k (a k) v)) kids
  end.

Lemma iterate_iterk k n : forall inh, map (fun p => (fst p, snd p k)) (iterate old n inh) = iterk k n (inh k).
Proof.
  induction n as [r p a|r p a c kids IH] using node_ind'; intros inh; [reflexivity|].
  cbn [iterate iterk]. rewrite flat_map_concat_map, concat_map, map_map, <- flat_map_concat_map.
  induction kids as [|x xs IHx]; [reflexivity|]. inversion IH; subst. cbn [flat_map].
  rewrite H1, IHx by assumption. f_equal. f_equal.
  unfold push_attrs, ctxk, inhk, orelse. destruct (key_in _ _); [destruct (a k)|]; reflexivity.
Qed.

Lemma inhk_always k : k <> KAA -> inhk k = true.
Proof. unfold inhk, inheritable. destruct old, k; intros H; try reflexivity; congruence. Qed.
Lemma inhk_aa : inhk KAA = old.
Proof. unfold inhk, inheritable. destruct old; reflexivity. Qed.

(* what happens below the node's own attributes *)
Definition topk (k : key) (c : node) (e : option Z) : list (ref * option Z) :=
  match c with
  | Page r _ _ => [(r, e)]
  | Pages _ _ _ _ kids => flat_map (fun c => iterk k c e) kids
  end.

Lemma iterk_topk k c v : inhk k = true -> iterk k c v = topk k c (orelse (node_attrs c k) v).
Proof. intros H. destruct c; cbn; unfold fillk, ctxk, orelse; rewrite H; [destruct (a k)|]; reflexivity. Qed.

Lemma topk_variant k c c' e : variant c c' -> topk k c' e = topk k c e.
Proof. intros [a ->]. destruct c; reflexivity. Qed.

Lemma iterk_variant k c c' v : variant c c' -> node_attrs c' k = node_attrs c k -> iterk k c' v = iterk k c v.
Proof. intros [a ->] H. destruct c; cbn in *; rewrite H; reflexivity. Qed.

Lemma iterk_set_parent k p c v : iterk k (set_parent p c) v = iterk k c v.
Proof. destruct c; reflexivity. Qed.

(* ---- a stage that does not touch key k *)
Definition frame (k : key) (pa : attrs) (cs : list node) (pa' : attrs) (cs' : list node) : Prop :=
  pa' k = pa k /\ Forall2 (fun c c' => variant c c' /\ node_attrs c' k = node_attrs c k) cs cs'.

Lemma frame_iterk k pa cs pa' cs' x : frame k pa cs pa' cs' ->
  flat_map (fun c => iterk k c x) cs' = flat_map (fun c => iterk k c x) cs.
Proof.
  intros [_ H]. induction H as [|c c' cs cs' [Hv Ha] _ IH]; [reflexivity|]. cbn. rewrite IH, (iterk_variant k c c' x Hv Ha). reflexivity.
Qed.

Lemma frame_refl k pa cs : frame k pa cs pa cs.
Proof. split; [reflexivity|]. induction cs; constructor; auto using variant_refl. Qed.

Lemma frame_map k pa pa' cs (f : node -> node) : pa' k = pa k ->
  (forall c, variant c (f c) /\ node_attrs (f c) k = node_attrs c k) -> frame k pa cs pa' (map f cs).
Proof. intros H1 H2. split; [exact H1|]. induction cs; constructor; auto. Qed.

Lemma frame_trans k pa cs pa1 cs1 pa2 cs2 : frame k pa cs pa1 cs1 -> frame k pa1 cs1 pa2 cs2 -> frame k pa cs pa2 cs2.
Proof.
  intros [E1 H1] [E2 H2]. split; [congruence|]. clear E1 E2. revert cs2 H2.
  induction H1 as [|c c1 cs cs1 [V1 A1] _ IH]; intros cs2 H2; inversion H2 as [|? c2 ? cs2' [V2 A2] H2']; subst; constructor.
  - split; [eauto using variant_trans|congruence].
  - apply IH. exact H2'.
Qed.

Lemma set_attrs_other k k' v c : k' <> k ->
  variant c (set_attrs (a_set k v (node_attrs c)) c) /\ node_attrs (set_attrs (a_set k v (node_attrs c)) c) k' = node_attrs c k'.
Proof. intros H. split; [apply variant_set|]. rewrite set_attrs_attrs. apply a_set_other. exact H. Qed.

Lemma inherit_key_frame k k' pa cs : k' <> k ->
  frame k' pa cs (fst (inherit_key choose k pa cs)) (snd (inherit_key choose k pa cs)).
Proof.
  intros Hne. unfold inherit_key. destruct (existsb _ _); [apply frame_refl|].
  destruct (existsb _ _); [|apply frame_refl]. cbn [fst snd]. apply frame_map.
  - apply a_set_other. exact Hne.
  - intros c. destruct (opt_eqb _ _); [apply set_attrs_other; exact Hne|split; [apply variant_refl|reflexivity]].
Qed.

Lemma inherit_rotate_frame k' pa cs : k' <> KRotate ->
  frame k' pa cs (fst (inherit_rotate choose_rot pa cs)) (snd (inherit_rotate choose_rot pa cs)).
Proof.
  intros Hne. unfold inherit_rotate.
  set (f1 := fun c => if opt_eqb (node_attrs c KRotate) (Some 0%Z) then set_attrs (a_set KRotate None (node_attrs c)) c else c).
  assert (forall pa', pa' k' = pa k' -> frame k' pa cs pa' (map f1 cs)) as H1.
  { intros pa' E. apply frame_map; [exact E|]. intros c. unfold f1.
    destruct (opt_eqb _ _); [apply set_attrs_other; exact Hne|split; [apply variant_refl|reflexivity]]. }
  match goal with |- context [if ?b then _ else _] => destruct b end; cbn [fst snd].
  - apply H1. destruct (_ =? 0); [reflexivity|apply a_set_other; exact Hne].
  - eapply frame_trans; [apply (H1 pa); reflexivity|]. apply frame_map; [apply a_set_other; exact Hne|].
    intros c. destruct (opt_eqb _ _); [apply set_attrs_other; exact Hne|].
    destruct (is_none _); [apply set_attrs_other; exact Hne|split; [apply variant_refl|reflexivity]].
Qed.

(* ---- hoisting key k with inheritKey *)
Lemma existsb_none_false (l : list (option Z)) : existsb is_none l = false -> forall o, In o l -> exists y, o = Some y.
Proof.
  intros H o Hin. destruct o as [y|]; [eauto|]. exfalso.
  assert (existsb is_none l = true) by (apply existsb_exists; exists None; auto). congruence.
Qed.

Lemma inherit_key_hoist k pa cs : inhk k = true -> pa k = None ->
  forall v, flat_map (fun c => iterk k c (orelse (fst (inherit_key choose k pa cs) k) v)) (snd (inherit_key choose k pa cs))
          = flat_map (fun c => iterk k c v) cs.
Proof.
  intros Hi Hp v. unfold inherit_key.
  destruct (existsb is_none (map (fun c => node_attrs c k) cs)) eqn:E1; cbn [fst snd]; [rewrite Hp; reflexivity|].
  destruct (existsb (opt_eqb _) _) eqn:E2; cbn [fst snd]; [|rewrite Hp; reflexivity].
  rewrite a_set_same. cbn [orelse]. set (x := choose (somes (map (fun c => node_attrs c k) cs))) in *.
  pose proof (existsb_none_false _ E1) as Hall. clear E1 E2. clearbody x.
  induction cs as [|c cs IH]; [reflexivity|]. cbn [map flat_map]. rewrite IH by (intros o Ho; apply Hall; right; exact Ho).
  f_equal. destruct (Hall (node_attrs c k) (or_introl eq_refl)) as [y Hy].
  destruct (opt_eqb (node_attrs c k) (Some x)) eqn:Ex.
  - apply opt_eqb_eq in Ex. rewrite !iterk_topk by exact Hi. rewrite set_attrs_attrs, a_set_same, Ex.
    rewrite (topk_variant k c _ _ (variant_set _ c)). reflexivity.
  - rewrite !iterk_topk by exact Hi. rewrite Hy. reflexivity.
Qed.

(* ---- /Rotate *)
Variable G : ref -> attrs.   (* the attributes each page was given *)

Definition normr (l : list (ref * option Z)) : list (ref * option Z) := map (fun p => (fst p, norm_rot (snd p))) l.
Definition rot_expected (n : node) : list (ref * option Z) := map (fun r => (r, norm_rot (G r KRotate))) (leaves n).

Definition r_inv (n : node) : Prop :=
  match n with
  | Page r _ a => a KRotate = G r KRotate
  | Pages _ _ _ _ _ => forall v, normr (iterk KRotate n v) = rot_expected n
  end.

Lemma inhk_rot : inhk KRotate = true.
Proof. apply inhk_always. discriminate. Qed.

Lemma normr_app a b : normr (a ++ b) = normr a ++ normr b.
Proof. apply map_app. Qed.

(* the effective context e' of a child after hoisting is as good as the old one *)
Lemma r_inv_child c (own' : option Z) (e' v : option Z) : r_inv c ->
  (forall y, node_attrs c KRotate = Some y -> e' = Some y) ->
  (node_attrs c KRotate = None -> match c with Page _ _ _ => e' = Some 0%Z | _ => True end) ->
  normr (topk KRotate c e') = rot_expected c.
Proof.
  intros Hr H1 H2. destruct c as [r p a|r p a cnt kids]; cbn [node_attrs] in *.
  - cbn [topk normr map fst snd r_inv rot_expected leaves] in *. rewrite <- Hr.
    destruct (a KRotate) as [y|] eqn:Ea; [rewrite (H1 y eq_refl); reflexivity|rewrite (H2 eq_refl); reflexivity].
  - cbn [r_inv] in Hr. destruct (a KRotate) as [y|] eqn:Ea.
    + rewrite (H1 y eq_refl). rewrite <- (Hr None). rewrite (iterk_topk _ _ _ inhk_rot). cbn [node_attrs]. rewrite Ea. reflexivity.
    + rewrite <- (Hr e'). rewrite (iterk_topk _ _ _ inhk_rot). cbn [node_attrs]. rewrite Ea. reflexivity.
Qed.

Lemma r_inv_variant c c' : variant c c' -> node_attrs c' KRotate = node_attrs c KRotate -> r_inv c -> r_inv c'.
Proof.
  intros [a ->] Ha Hr. destruct c as [r p a0|r p a0 cnt kids]; cbn in *; [congruence|].
  intros v. specialize (Hr v). unfold ctxk in *. rewrite Ha. exact Hr.
Qed.

Lemma r_inv_set_parent p c : r_inv c -> r_inv (set_parent p c).
Proof. destruct c; auto. Qed.

Lemma filter_default_in (vals : list (option Z)) o : In o vals -> is_default_rot o = true ->
  length (filter is_default_rot vals) <> 0.
Proof.
  intros Hin Hd. induction vals as [|x xs IH]; [destruct Hin|]. cbn. destruct Hin as [->|Hin].
  - rewrite Hd. cbn. lia.
  - destruct (is_default_rot x); cbn; [lia|auto].
Qed.

Lemma inherit_rotate_hoist pa cs : pa KRotate = None -> Forall r_inv cs ->
  forall v, normr (flat_map (fun c => iterk KRotate c (orelse (fst (inherit_rotate choose_rot pa cs) KRotate) v))
                            (snd (inherit_rotate choose_rot pa cs)))
          = flat_map rot_expected cs.
Proof.
  intros Hp Hr v. unfold inherit_rotate.
  set (vals := map (fun c => node_attrs c KRotate) cs).
  set (f1 := fun c => if opt_eqb (node_attrs c KRotate) (Some 0%Z) then set_attrs (a_set KRotate None (node_attrs c)) c else c).
  assert (forall c, In c cs -> In (node_attrs c KRotate) vals) as Hvals by (intros c Hc; unfold vals; apply (in_map (fun c => node_attrs c KRotate)); exact Hc).
  match goal with |- context [if ?b then _ else _] => destruct b eqn:Ed end; cbn [fst snd].
  - (* the default stays: the parent gets an explicit 0 when some child needs it *)
    match goal with |- context [orelse (?X KRotate) v] => set (pk := X KRotate) end.
    assert (length (filter is_default_rot vals) <> 0 -> pk = Some 0%Z) as Hpk.
    { intros H. unfold pk. destruct (_ =? 0) eqn:E; [apply Nat.eqb_eq in E; contradiction|apply a_set_same]. }
    clearbody pk. clear Ed. clearbody vals.
    induction cs as [|c cs IH]; [reflexivity|]. inversion Hr as [|? ? Hc Hrs]; subst.
    cbn [map flat_map]. rewrite normr_app, IH by (auto; intros; apply Hvals; right; assumption). f_equal.
    specialize (Hvals c (or_introl eq_refl)). unfold f1.
    destruct (opt_eqb (node_attrs c KRotate) (Some 0%Z)) eqn:E0.
    + apply opt_eqb_eq in E0. rewrite (iterk_topk _ _ _ inhk_rot), set_attrs_attrs, a_set_same.
      rewrite (topk_variant _ c _ _ (variant_set _ c)). cbn [orelse].
      rewrite Hpk by (eapply filter_default_in; [exact Hvals|rewrite E0; reflexivity]). cbn [orelse].
      apply r_inv_child; auto; [intros y Hy; congruence|intros Hn; congruence].
    + rewrite (iterk_topk _ _ _ inhk_rot). apply r_inv_child; auto.
      * intros y Hy. rewrite Hy. reflexivity.
      * intros Hn. rewrite Hn. cbn [orelse]. rewrite Hpk by (eapply filter_default_in; [exact Hvals|rewrite Hn; reflexivity]).
        destruct c; auto.
  - (* a non-default value b goes to the parent *)
    destruct (choose_rot vals) as [b|] eqn:Eb; [|discriminate]. apply orb_false_iff in Ed as [Ed1 H]. apply Z.eqb_neq in Ed1.
    rewrite a_set_same. cbn [orelse]. clear Hvals Eb H. clearbody vals.
    induction cs as [|c cs IH]; [reflexivity|]. inversion Hr as [|? ? Hc Hrs]; subst.
    cbn [map flat_map]. rewrite normr_app, IH by auto. f_equal. clear IH.
    (* r1: the child's value after the first loop *)
    assert (exists c1, f1 c = c1 /\ variant c c1 /\
            node_attrs c1 KRotate = (if opt_eqb (node_attrs c KRotate) (Some 0%Z) then None else node_attrs c KRotate)) as (c1 & E1 & V1 & A1).
    { exists (f1 c). unfold f1. destruct (opt_eqb _ _); splits; auto using variant_set, variant_refl.
      rewrite set_attrs_attrs. apply a_set_same. }
    rewrite E1. rewrite (iterk_topk _ _ _ inhk_rot).
    destruct (opt_eqb (node_attrs c1 KRotate) (Some b)) eqn:E2.
    + apply opt_eqb_eq in E2. rewrite set_attrs_attrs, a_set_same. cbn [orelse].
      rewrite (topk_variant _ c _ _ (variant_trans _ _ _ V1 (variant_set _ c1))).
      apply r_inv_child; auto.
      * intros y Hy. rewrite A1, Hy in E2. destruct (opt_eqb (Some y) (Some 0%Z)); congruence.
      * intros Hn. rewrite A1, Hn in E2. cbn in E2. discriminate.
    + destruct (is_none (node_attrs c1 KRotate)) eqn:E3.
      * rewrite set_attrs_attrs, a_set_same. cbn [orelse].
        rewrite (topk_variant _ c _ _ (variant_trans _ _ _ V1 (variant_set _ c1))).
        apply r_inv_child; auto.
        -- intros y Hy. rewrite A1, Hy in E3. destruct (opt_eqb (Some y) (Some 0%Z)) eqn:E4; [|discriminate].
           apply opt_eqb_eq in E4. exact (eq_sym E4).
        -- intros Hn. destruct c; auto.
      * rewrite (topk_variant _ c _ _ V1).
        destruct (node_attrs c1 KRotate) as [y1|] eqn:Ey; [|discriminate]. cbn [orelse].
        apply r_inv_child; auto.
        -- intros y Hy. rewrite Hy in A1. destruct (opt_eqb (Some y) (Some 0%Z)); congruence.
        -- intros Hn. rewrite Hn in A1. cbn in A1. discriminate.
Qed.

(* ---- the whole of inherit, key by key *)
Definition exp_k (k : key) (v : option Z) (n : node) : list (ref * option Z) :=
  map (fun r => (r, fillk k (G r k) v)) (leaves n).

(* what the pages below a top-level node report, for every value coming from above *)
Definition a_inv (n : node) : Prop :=
  (forall k, k <> KRotate -> forall v, iterk k n v = exp_k k v n) /\ r_inv n.

Lemma ctxk_none k v : ctxk k None v = v.
Proof. unfold ctxk. destruct (inhk k); reflexivity. Qed.

Lemma inherit_sound_key k cs0 : k <> KRotate ->
  forall v, flat_map (fun c => iterk k c (ctxk k (fst (inherit old choose choose_rot a_empty cs0) k) v))
                     (snd (inherit old choose choose_rot a_empty cs0))
          = flat_map (fun c => iterk k c v) cs0.
Proof.
  intros Hk v. unfold inherit.
  pose proof (inherit_key_frame KMediaBox k a_empty cs0) as F1.
  pose proof (inherit_key_hoist KMediaBox a_empty cs0) as H1.
  destruct (inherit_key choose KMediaBox a_empty cs0) as [pa1 cs1]. cbn [fst snd] in *.
  pose proof (inherit_key_frame KCropBox k pa1 cs1) as F2.
  pose proof (inherit_key_hoist KCropBox pa1 cs1) as H2.
  destruct (inherit_key choose KCropBox pa1 cs1) as [pa2 cs2]. cbn [fst snd] in *.
  pose proof (inherit_rotate_frame k pa2 cs2 Hk) as F3.
  destruct (inherit_rotate choose_rot pa2 cs2) as [pa3 cs3]. cbn [fst snd] in *.
  pose proof (inherit_key_frame KAA k pa3 cs3) as F4.
  pose proof (inherit_key_hoist KAA pa3 cs3) as H4.
  assert (forall pa cs pa' cs' x, frame k pa cs pa' cs' ->
            flat_map (fun c => iterk k c x) cs' = flat_map (fun c => iterk k c x) cs) as FI
    by (intros; eapply frame_iterk; eauto).
  destruct k; try congruence.
  - (* MediaBox: hoisted by the first stage *)
    specialize (F2 ltac:(discriminate)). 
    assert (pa3 KMediaBox = pa1 KMediaBox) as E3 by (destruct F2 as [X2 _]; destruct F3 as [X3 _]; congruence).
    unfold ctxk. rewrite inhk_always by discriminate.
    destruct old.
    + specialize (F4 ltac:(discriminate)). destruct (inherit_key choose KAA pa3 cs3) as [pa4 cs4]. cbn [fst snd] in *.
      destruct F4 as [E4 F4']. rewrite E4, E3.
      rewrite (FI pa3 cs3 pa4 cs4 _ (conj E4 F4')), (FI _ _ _ _ _ F3), (FI _ _ _ _ _ F2).
      apply H1; [apply inhk_always; discriminate|reflexivity].
    + cbn [fst snd]. rewrite E3, (FI _ _ _ _ _ F3), (FI _ _ _ _ _ F2).
      apply H1; [apply inhk_always; discriminate|reflexivity].
  - (* CropBox: hoisted by the second stage *)
    specialize (F1 ltac:(discriminate)).
    assert (pa1 KCropBox = None) as E1 by (destruct F1 as [X1 _]; rewrite X1; reflexivity).
    assert (pa3 KCropBox = pa2 KCropBox) as E3 by (destruct F3 as [X3 _]; exact X3).
    unfold ctxk. rewrite inhk_always by discriminate.
    destruct old.
    + specialize (F4 ltac:(discriminate)). destruct (inherit_key choose KAA pa3 cs3) as [pa4 cs4]. cbn [fst snd] in *.
      destruct F4 as [E4 F4']. rewrite E4, E3.
      rewrite (FI pa3 cs3 pa4 cs4 _ (conj E4 F4')), (FI _ _ _ _ _ F3).
      rewrite H2 by (auto; apply inhk_always; discriminate). apply (FI _ _ _ _ _ F1).
    + cbn [fst snd]. rewrite E3, (FI _ _ _ _ _ F3).
      rewrite H2 by (auto; apply inhk_always; discriminate). apply (FI _ _ _ _ _ F1).
  - (* AA: hoisted by the fourth stage, for old versions only *)
    specialize (F1 ltac:(discriminate)). specialize (F2 ltac:(discriminate)).
    assert (pa3 KAA = None) as E3 by (destruct F1 as [E1 _]; destruct F2 as [E2 _]; destruct F3 as [E3 _]; rewrite E3, E2, E1; reflexivity).
    unfold ctxk. rewrite inhk_aa. destruct old eqn:Eo.
    + destruct (inherit_key choose KAA pa3 cs3) as [pa4 cs4]. cbn [fst snd] in *.
      rewrite H4 by (auto; rewrite inhk_aa; exact Eo).
      rewrite (FI _ _ _ _ _ F3), (FI _ _ _ _ _ F2). apply (FI _ _ _ _ _ F1).
    + cbn [fst snd]. rewrite (FI _ _ _ _ _ F3), (FI _ _ _ _ _ F2). apply (FI _ _ _ _ _ F1).
  - (* Resources: never hoisted *)
    specialize (F1 ltac:(discriminate)). specialize (F2 ltac:(discriminate)).
    assert (pa3 KResources = None) as E3 by (destruct F1 as [E1 _]; destruct F2 as [E2 _]; destruct F3 as [E3 _]; rewrite E3, E2, E1; reflexivity).
    destruct old.
    + specialize (F4 ltac:(discriminate)). destruct (inherit_key choose KAA pa3 cs3) as [pa4 cs4]. cbn [fst snd] in *.
      destruct F4 as [E4 F4']. rewrite E4, E3, ctxk_none.
      rewrite (FI pa3 cs3 pa4 cs4 _ (conj E4 F4')), (FI _ _ _ _ _ F3), (FI _ _ _ _ _ F2). apply (FI _ _ _ _ _ F1).
    + cbn [fst snd]. rewrite E3, ctxk_none. rewrite (FI _ _ _ _ _ F3), (FI _ _ _ _ _ F2). apply (FI _ _ _ _ _ F1).
Qed.

Lemma frame_r_inv pa cs pa' cs' : frame KRotate pa cs pa' cs' -> Forall r_inv cs -> Forall r_inv cs'.
Proof.
  intros [_ H] Hr. induction H as [|c c' cs cs' [V A] _ IH]; [constructor|].
  inversion Hr; subst. constructor; [eapply r_inv_variant; eauto|auto].
Qed.

Lemma frame_rot_expected k pa cs pa' cs' : frame k pa cs pa' cs' -> flat_map rot_expected cs' = flat_map rot_expected cs.
Proof.
  intros [_ H]. induction H as [|c c' cs cs' [V A] _ IH]; [reflexivity|]. cbn. rewrite IH. unfold rot_expected.
  rewrite (variant_leaves _ _ V). reflexivity.
Qed.

Lemma inherit_sound_rot cs0 : Forall r_inv cs0 ->
  forall v, normr (flat_map (fun c => iterk KRotate c (orelse (fst (inherit old choose choose_rot a_empty cs0) KRotate) v))
                            (snd (inherit old choose choose_rot a_empty cs0)))
          = flat_map rot_expected cs0.
Proof.
  intros Hr v. unfold inherit.
  pose proof (inherit_key_frame KMediaBox KRotate a_empty cs0 ltac:(discriminate)) as F1.
  destruct (inherit_key choose KMediaBox a_empty cs0) as [pa1 cs1]. cbn [fst snd] in *.
  pose proof (inherit_key_frame KCropBox KRotate pa1 cs1 ltac:(discriminate)) as F2.
  destruct (inherit_key choose KCropBox pa1 cs1) as [pa2 cs2]. cbn [fst snd] in *.
  assert (pa2 KRotate = None) as E2 by (destruct F1 as [E1 _]; destruct F2 as [E2 _]; rewrite E2, E1; reflexivity).
  pose proof (frame_r_inv _ _ _ _ F2 (frame_r_inv _ _ _ _ F1 Hr)) as Hr2.
  pose proof (inherit_rotate_hoist pa2 cs2 E2 Hr2) as H3.
  destruct (inherit_rotate choose_rot pa2 cs2) as [pa3 cs3]. cbn [fst snd] in *.
  assert (flat_map rot_expected cs2 = flat_map rot_expected cs0) as Ex
    by (rewrite (frame_rot_expected _ _ _ _ _ F2); apply (frame_rot_expected _ _ _ _ _ F1)).
  destruct old.
  - pose proof (inherit_key_frame KAA KRotate pa3 cs3 ltac:(discriminate)) as F4.
    destruct (inherit_key choose KAA pa3 cs3) as [pa4 cs4]. cbn [fst snd] in *.
    destruct F4 as [E4 F4']. rewrite E4. rewrite (frame_iterk KRotate pa3 cs3 pa4 cs4 _ (conj E4 F4')).
    rewrite H3. exact Ex.
  - cbn [fst snd]. rewrite H3. exact Ex.
Qed.

Lemma a_inv_merged cs next : Forall (fun i => a_inv (n_node i)) cs ->
  a_inv (n_node (merged old choose choose_rot cs next)).
Proof.
  intros Ha. pose proof (merged_leaves old choose choose_rot cs next) as Hlv. unfold merged in *.
  set (kids0 := map (fun i => set_parent (Some (RN next)) (n_node i)) cs) in *.
  pose proof (fun k Hk => inherit_sound_key k kids0 Hk) as HK.
  pose proof (inherit_sound_rot kids0) as HR.
  destruct (inherit old choose choose_rot a_empty kids0) as [pa kids]. cbn [fst snd n_node] in *.
  split.
  - intros k Hk v. cbn [iterk]. rewrite (HK k Hk v). unfold exp_k. rewrite Hlv. unfold kids0, tleaves.
    clear - Ha Hk. induction Ha as [|i cs [Hi _] _ IH]; [reflexivity|]. cbn [map flat_map]. rewrite map_app, <- IH.
    f_equal. rewrite iterk_set_parent. apply Hi. exact Hk.
  - cbn [r_inv]. intros v. cbn [iterk]. unfold ctxk. rewrite inhk_rot. rewrite HR.
    + unfold rot_expected at 2. rewrite Hlv. unfold kids0, tleaves. clear. induction cs; [reflexivity|].
      cbn [map flat_map]. rewrite map_app, <- IHcs. f_equal. unfold rot_expected. rewrite set_parent_leaves. reflexivity.
    + unfold kids0. clear - Ha. induction Ha as [|i cs [_ Hi] _ IH]; constructor; [apply r_inv_set_parent; exact Hi|exact IH].
Qed.

Lemma a_inv_leaf id p a : (forall k, a k = G (RP id) k) -> a_inv (Page (RP id) p a).
Proof.
  intros H. split; [|cbn; apply H]. intros k _ v. cbn. unfold exp_k. cbn. rewrite H. reflexivity.
Qed.

(* the root: what Iterator.All reports is what every page was given *)
Lemma a_inv_wrap i next : a_inv (n_node i) -> forall k,
  map (fun p => (fst p, if key_eqb k KRotate then norm_rot (snd p k) else snd p k)) (iterate old (wrap_if_leaf i next) a_empty) =
  map (fun r => (r, if key_eqb k KRotate then norm_rot (G r k) else G r k)) (leaves (wrap_if_leaf i next)).
Proof.
  intros [HA HRr] k.
  assert (forall n, map (fun p => (fst p, if key_eqb k KRotate then norm_rot (snd p k) else snd p k)) (iterate old n a_empty)
           = map (fun p => (fst p, if key_eqb k KRotate then norm_rot (snd p) else snd p)) (iterk k n None)) as Hit.
  { intros n. change (iterk k n None) with (iterk k n (a_empty k)). rewrite <- (iterate_iterk k n a_empty). rewrite map_map. reflexivity. }
  rewrite Hit. unfold wrap_if_leaf. destruct (n_node i) as [r p a|r p a c kids] eqn:En.
  - (* a single page under a fresh /Pages node *)
    cbn [iterk flat_map leaves map app]. unfold ctxk. cbn [a_empty orelse].
    assert ((if inhk k then None else None) = @None Z) as -> by (destruct (inhk k); reflexivity).
    cbn [r_inv] in HRr. destruct (key_eqb k KRotate) eqn:Ek.
    + apply key_eqb_eq in Ek. subst k. cbn. unfold fillk. rewrite HRr. destruct (G r KRotate); [reflexivity|].
      destruct (inhk KRotate); reflexivity.
    + assert (k <> KRotate) as Hk by (intros ->; rewrite key_eqb_refl in Ek; discriminate).
      specialize (HA k Hk None). cbn in HA. unfold exp_k in HA. cbn in HA. injection HA as HA.
      cbn. rewrite HA. unfold fillk. destruct (G r k); [reflexivity|destruct (inhk k); reflexivity].
  - destruct (key_eqb k KRotate) eqn:Ek.
    + apply key_eqb_eq in Ek. subst k. cbn [r_inv] in HRr. specialize (HRr None). unfold normr, rot_expected in HRr.
      exact HRr.
    + assert (k <> KRotate) as Hk by (intros ->; rewrite key_eqb_refl in Ek; discriminate).
      rewrite (HA k Hk None). unfold exp_k. rewrite map_map. apply map_ext. intros x. cbn [fst snd].
      unfold fillk. destruct (G x k); [reflexivity|destruct (inhk k); reflexivity].
Qed.

End Attrs.
