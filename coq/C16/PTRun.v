(* C16 - whole programs: the written tree lists the pages of the range semantics, in order,
   with valid structure and with the attributes each page was given. *)
From Coq Require Import List Arith Bool ZArith Lia.
From GoPdf.Base Require Import Res.
From GoPdf.C16 Require Import PageTree PTBasics PTTails PTStruct PTAttrs PTWriter PTSim.
Import ListNotations.

Section Run.
Variable D : nat.
Variable old : bool.
Variable choose : list Z -> Z.
Variable choose_rot : list (option Z) -> option Z.
Variable G : ref -> attrs.
Hypothesis HD : 1 <= D.

Notation w_good := (w_good D old G).
Notation good := (good D old G).
Notation do_append := (do_append D old choose choose_rot).
Notation close_w := (close_w D old choose choose_rot).
Notation step := (step D old choose choose_rot).
Notation steps := (steps D old choose choose_rot).
Notation run := (run D old choose choose_rot).

(* ---- an operation that changes nothing the ranges can see (NextPageNumber) *)
Section Keep.
Variable id : nat.
Variable f : writer -> gstate -> res (writer * gstate * bool).
Variable st0 : gstate.
Hypothesis f_keep : forall w w' st' ok, w_good w -> f w st0 = Ok (w', st', ok) ->
  w_good w' /\ abs w' = abs w /\ w_id w' = w_id w /\ wpages w' = wpages w /\ g_wid st' = g_wid st0.

Lemma with_writer_keep w : forall w' st' ok, w_good w -> with_writer id f w st0 = Ok (Some (w', st', ok)) ->
  w_good w' /\ abs w' = abs w /\ w_id w' = w_id w /\ wpages w' = wpages w /\ g_wid st' = g_wid st0.
Proof.
  induction w as [wid cl ch tail npn pn nc IH] using writer_ind'. intros w' st' ok Hg H.
  rewrite with_writer_eq in H. destruct (match wid with Some i => i =? id | None => false end).
  - apply bind_ok in H as ([[w1 st1] ok1] & Hf & H). injection H as <- <- <-. eapply f_keep; eauto.
  - inversion Hg as [? ? ? ? ? ? ? Ht Hc Hid Hcl]; subst.
    apply bind_ok in H as (o & Hl & H). destruct o as [[[ch' st1] ok1]|]; [|discriminate]. injection H as <- -> ->.
    assert (Forall w_good ch' /\ flat_map abs_child ch' = flat_map abs_child ch /\ flat_map wpages ch' = flat_map wpages ch /\
            (ch = [] -> ch' = []) /\ g_wid st' = g_wid st0) as (L1 & L2 & L3 & L4 & L5).
    { clear Ht Hid Hcl Hg. revert ch' Hl. induction ch as [|c cs IHc]; intros ch' Hl; [discriminate|].
      inversion IH as [|? ? Pc Pcs]; subst. inversion Hc as [|? ? Gc Gcs]; subst.
      cbn [ww_list] in Hl. apply bind_ok in Hl as (oc & Hc1 & Hl). destruct oc as [[[c' st1] ok1]|].
      - injection Hl as <- <- <-. destruct (Pc _ _ _ Gc Hc1) as (A1 & A2 & A3 & A4 & A5).
        splits; [constructor; auto| | |discriminate|exact A5].
        + cbn [flat_map]. f_equal. unfold abs_child. rewrite A3, A2, A4. reflexivity.
        + cbn [flat_map]. rewrite A4. reflexivity.
      - apply bind_ok in Hl as (o' & Hr & Hl). destruct o' as [[[r' st1] ok1]|]; [|discriminate]. injection Hl as <- <- <-.
        destruct (IHc Pcs Gcs _ Hr) as (B1 & B2 & B3 & B4 & B5).
        splits; [constructor; auto| | |discriminate|exact B5]; cbn [flat_map]; congruence. }
    splits.
    + constructor; [exact Ht|exact L1|intros E; apply L4, Hid, E|intros E; apply L4, Hcl, E].
    + rewrite !abs_eq, L2. reflexivity.
    + reflexivity.
    + cbn [wpages]. rewrite L3. reflexivity.
    + exact L5.
Qed.
End Keep.

(* ---- the three operations that change ranges *)

Lemma append_local id a st0 : (forall k, a k = G (RP id) k) ->
  forall i w w' st' ok cl items,
  w_good w -> w_id w = Some i -> abs w = ItRange i cl items -> guarded (do_append id a) w st0 = Ok (w', st', ok) ->
  w_good w' /\ w_id w' = Some i /\ (g_wid st' = g_wid st0) /\
  (if cl then ok = false /\ w' = w else ok = true /\ abs w' = ItRange i false (items ++ [ItPage id])).
Proof.
  intros Ha i w w' st' ok cl items Hg Hid Habs H. destruct w as [wid wcl ch tail npn pn nc]. cbn [w_id] in Hid. subst wid.
  rewrite abs_eq in Habs. injection Habs as <- <-. unfold guarded in H. cbn [w_closed] in H.
  destruct wcl; [injection H as <- <- <-; auto|].
  apply bind_ok in H as ([w1 st1] & Hd & H). injection H as <- <- <-.
  unfold PageTree.do_append in Hd. destruct npn as [c|]; [|discriminate].
  apply bind_ok in Hd as ([tail' nx] & Ht & Hd). apply bind_ok in Hd as (fs1 & _ & Hd).
  apply bind_ok in Hd as ([fs2 c'] & _ & Hd). injection Hd as <- <-.
  inversion Hg as [? ? ? ? ? ? ? Hgt Hgc Hgi Hgcl]; subst.
  destruct (append_tail_keeps D old choose choose_rot good (good_merged D old choose choose_rot G)
              _ _ _ _ _ _ Ht Hgt (good_leaf D old G id a Ha)) as (K1 & K2).
  splits; try reflexivity.
  - constructor; auto.
  - rewrite abs_eq, K2. unfold ids. rewrite map_app, map_app, app_assoc. reflexivity.
Qed.

Lemma new_range_local st0 : forall i w w' st' ok cl items,
  w_good w -> w_id w = Some i -> abs w = ItRange i cl items -> guarded do_new_range w st0 = Ok (w', st', ok) ->
  w_good w' /\ w_id w' = Some i /\ (g_wid st' = if ok then S (g_wid st0) else g_wid st0) /\
  (if cl then ok = false /\ w' = w else ok = true /\ abs w' = ItRange i false (items ++ [ItRange (g_wid st0) false []])).
Proof.
  intros i w w' st' ok cl items Hg Hid Habs H. destruct w as [wid wcl ch tail npn pn nc]. cbn [w_id] in Hid. subst wid.
  rewrite abs_eq in Habs. injection Habs as <- <-. unfold guarded in H. cbn [w_closed] in H.
  destruct wcl; [injection H as <- <- <-; auto|].
  apply bind_ok in H as ([w1 st1] & Hd & H). injection H as <- <- <-.
  unfold do_new_range in Hd. destruct npn as [c|]; [|discriminate].
  destruct (is_none (nth_error (f_heap (g_f st0)) c)); [discriminate|].
  destruct (f_new (g_f st0) (mkCell 0%Z 2%Z [])) as [fs1 c'].
  apply bind_ok in Hd as (fs2 & _ & Hd). injection Hd as <- <-.
  inversion Hg as [? ? ? ? ? ? ? Hgt Hgc Hgi Hgcl]; subst.
  set (ch1 := match tail with [] => ch | _ :: _ => ch ++ [Wr None false [] tail None [] []] end).
  assert (Forall w_good ch1 /\ flat_map abs_child ch1 = flat_map abs_child ch ++ map ItPage (ids (tleaves tail))) as (C1 & C2).
  { unfold ch1. destruct tail as [|t0 tr]; [rewrite app_nil_r; auto|]. split.
    - apply Forall_app. split; [exact Hgc|]. constructor; [|constructor]. constructor; auto; discriminate.
    - rewrite flat_map_app. cbn [flat_map abs_child w_id wpages app]. rewrite app_nil_r. reflexivity. }
  splits; try reflexivity.
  - constructor; [constructor| |discriminate|discriminate].
    apply Forall_app. split; [exact C1|]. constructor; [|constructor]. constructor; auto; discriminate.
  - rewrite abs_eq. cbn [tleaves flat_map ids map]. rewrite app_nil_r, flat_map_app, C2.
    cbn [flat_map abs_child w_id]. rewrite abs_eq. cbn [flat_map tleaves ids map app]. reflexivity.
Qed.

Lemma close_local st0 : forall i w w' st' ok cl items,
  w_good w -> w_id w = Some i -> abs w = ItRange i cl items -> guarded close_w w st0 = Ok (w', st', ok) ->
  w_good w' /\ w_id w' = Some i /\ (g_wid st' = g_wid st0) /\
  (if cl then ok = false /\ w' = w else ok = true /\ abs w' = ItRange i true (map ItPage (flat_map item_pages items))).
Proof.
  intros i w w' st' ok cl items Hg Hid Habs H. unfold guarded in H.
  assert (w_closed w = cl) as Hcl by (destruct w; rewrite abs_eq in Habs; injection Habs as _ <- _; reflexivity).
  rewrite Hcl in H. destruct cl; [injection H as <- <- <-; auto|].
  apply bind_ok in H as ([w1 st1] & Hc & H). injection H as -> -> <-.
  destruct (close_w_spec D old choose choose_rot G w _ _ _ Hc Hg) as (R1 & R2 & R3 & R4 & R5 & R6).
  splits; [exact R1|congruence|exact R6|reflexivity|].
  pose proof (abs_pages w) as Hp. rewrite Habs in Hp. cbn [item_pages] in Hp. rewrite Hp.
  destruct w' as [wid' cl' ch' tail' npn' pn' nc']. cbn [w_tail w_children w_closed w_id] in R2, R3, R4, R5. subst ch' cl'. rewrite abs_eq. cbn [flat_map app].
  rewrite R2. rewrite Hid in R5. subst wid'. reflexivity.
Qed.

(* ---- one operation *)
Definition given_ok (o : op) : Prop :=
  match o with OAppend _ id a => forall k, a k = G (RP id) k | _ => True end.

Definition no_root_close (o : op) : Prop := match o with OClose 0 => False | _ => True end.

Lemma step_sim root st o root' st' ok :
  w_good root -> w_id root = Some 0 -> given_ok o ->
  step root st o = Ok (root', st', ok) ->
  w_good root' /\ w_id root' = Some 0 /\ spec_step (abs root) (g_wid st) o = (abs root', g_wid st', ok).
Proof.
  intros Hg Hid Hgiven H.
  assert (w_id root <> None) as Hne by congruence.
  destruct o as [w id a|w|w|w k].
  - (* AppendPageDict *)
    unfold PageTree.step in H. cbn [op_fun] in H. apply bind_ok in H as (r & Hw & H).
    pose proof (with_writer_sim D old G w _ (fun rid items => ItRange rid false (items ++ [ItPage id])) st
                  (fun st' _ => g_wid st' = g_wid st)
                  (fun w0 w' st' ok cl items => append_local id a st Hgiven w w0 w' st' ok cl items) root r Hg Hne Hw) as Hs.
    cbn [spec_step]. destruct r as [[[r1 s1] ok1]|]; injection H as <- <- <-.
    + destruct Hs as (S1 & S2 & S3 & S4). splits; auto; [congruence|]. destruct ok1.
      * rewrite S4. cbn. rewrite S3. reflexivity.
      * destruct S4 as [S4 ->]. rewrite S4. cbn. rewrite S3. reflexivity.
    + cbn in Hs. rewrite Hs. auto.
  - (* NewRange *)
    unfold PageTree.step in H. cbn [op_fun] in H. apply bind_ok in H as (r & Hw & H).
    pose proof (with_writer_sim D old G w _ (fun rid items => ItRange rid false (items ++ [ItRange (g_wid st) false []])) st
                  (fun st' ok => g_wid st' = if ok then S (g_wid st) else g_wid st)
                  (fun w0 w' st' ok cl items => new_range_local st w w0 w' st' ok cl items) root r Hg Hne Hw) as Hs.
    cbn [spec_step]. destruct r as [[[r1 s1] ok1]|]; injection H as <- <- <-.
    + destruct Hs as (S1 & S2 & S3 & S4). splits; auto; [congruence|]. destruct ok1.
      * rewrite S4. cbn. rewrite S3. reflexivity.
      * destruct S4 as [S4 ->]. rewrite S4. cbn. rewrite S3. reflexivity.
    + cbn in Hs. rewrite Hs. auto.
  - (* Close of a sub-range *)
    unfold PageTree.step in H. destruct w as [|w]; [discriminate|]. cbn [op_fun] in H. apply bind_ok in H as (r & Hw & H).
    pose proof (with_writer_sim D old G (S w) _ (fun rid items => ItRange rid true (map ItPage (flat_map item_pages items))) st
                  (fun st' _ => g_wid st' = g_wid st)
                  (fun w0 w' st' ok cl items => close_local st (S w) w0 w' st' ok cl items) root r Hg Hne Hw) as Hs.
    cbn [spec_step]. destruct r as [[[r1 s1] ok1]|]; injection H as <- <- <-.
    + destruct Hs as (S1 & S2 & S3 & S4). splits; auto; [congruence|]. destruct ok1.
      * rewrite S4. cbn. rewrite S3. reflexivity.
      * destruct S4 as [S4 ->]. rewrite S4. cbn. rewrite S3. reflexivity.
    + cbn in Hs. rewrite Hs. auto.
  - (* NextPageNumber *)
    unfold PageTree.step in H. cbn [op_fun] in H. apply bind_ok in H as (r & Hw & H). cbn [spec_step].
    destruct r as [[[r1 s1] ok1]|].
    + injection H as <- <- <-.
      match type of Hw with with_writer _ ?f0 _ _ = _ => set (fq := f0) in * end.
      assert (forall w0 w' st1 ok0, w_good w0 -> fq w0 st = Ok (w', st1, ok0) ->
                w_good w' /\ abs w' = abs w0 /\ w_id w' = w_id w0 /\ wpages w' = wpages w0 /\ g_wid st1 = g_wid st) as Hf.
      { intros w0 w' st1 ok0 Hg0 Hf. unfold fq in Hf. destruct (w_closed w0).
        - apply bind_ok in Hf as (fs & _ & Hf). injection Hf as <- <- _. auto.
        - apply bind_ok in Hf as ([w1 st2] & Hd & Hf). injection Hf as <- <- _.
          destruct w0 as [wid wcl ch tail npn pn nc]. cbn in Hd. injection Hd as <- <-.
          inversion Hg0; subst. splits; auto. constructor; auto. }
      destruct (with_writer_keep w fq st Hf root r1 s1 ok1 Hg Hw) as (K1 & K2 & K3 & K4 & K5).
      splits; auto; [congruence|]. rewrite K2, K5.
      (* the flag: NextPageNumber never fails *)
      assert (ok1 = true) as ->; [|reflexivity]. unfold fq in Hw.
      clear - Hw. revert r1 s1 ok1 Hw. induction root as [wid cl ch tail npn pn nc IH] using writer_ind'. intros r1 s1 ok1 Hw.
      rewrite with_writer_eq in Hw. destruct (match wid with Some i => i =? w | None => false end).
      * apply bind_ok in Hw as ([[w1 st1] ok2] & Hf & Hw). injection Hw as <- <- <-.
        cbn [w_closed] in Hf. destruct cl.
        -- apply bind_ok in Hf as (fs & _ & Hf). injection Hf as _ _ <-. reflexivity.
        -- apply bind_ok in Hf as ([w2 st2] & _ & Hf). injection Hf as _ _ <-. reflexivity.
      * apply bind_ok in Hw as (o & Hl & Hw). destruct o as [[[ch' st1] ok2]|]; [|discriminate]. injection Hw as _ _ <-.
        clear - IH Hl. revert ch' st1 ok2 Hl. induction ch as [|c cs IHc]; intros ch' st1 ok2 Hl; [discriminate|].
        inversion IH as [|? ? Pc Pcs]; subst. cbn [ww_list] in Hl. apply bind_ok in Hl as (oc & Hc1 & Hl).
        destruct oc as [[[c' st2] ok3]|].
        -- injection Hl as _ _ <-. eapply Pc; eauto.
        -- apply bind_ok in Hl as (o' & Hr & Hl). destruct o' as [[[r' st2] ok3]|]; [|discriminate]. injection Hl as _ _ <-.
           eapply IHc; eauto.
    + apply bind_ok in H as (fs & _ & H). injection H as <- <- <-. auto.
Qed.

(* ---- programs *)
Lemma steps_sim prog : forall root st acc root' st' acc',
  w_good root -> w_id root = Some 0 -> Forall given_ok prog ->
  steps root st prog acc = Ok (root', st', acc') ->
  w_good root' /\ w_id root' = Some 0 /\ spec_steps (abs root) (g_wid st) prog acc = (abs root', acc').
Proof.
  induction prog as [|o prog IH]; intros root st acc root' st' acc' Hg Hid Hgv H.
  - injection H as <- <- <-. auto.
  - inversion Hgv as [|? ? Ho Hrest]; subst. cbn [PageTree.steps] in H. apply bind_ok in H as ([[r1 s1] ok] & Hs & H).
    destruct (step_sim _ _ _ _ _ _ Hg Hid Ho Hs) as (S1 & S2 & S3).
    destruct (IH _ _ _ _ _ _ S1 S2 Hrest H) as (I1 & I2 & I3).
    splits; auto. cbn [spec_steps]. rewrite S3. exact I3.
Qed.

Definition attr_eqs (root : node) : Prop := forall k,
  map (fun p => (fst p, if key_eqb k KRotate then norm_rot (snd p k) else snd p k)) (iterate old root a_empty) =
  map (fun r => (r, if key_eqb k KRotate then norm_rot (G r k) else G r k)) (leaves root).

Theorem run_correct prog out : Forall given_ok prog -> run prog = Ok out ->
  o_accepted out = snd (spec_run prog) /\
  match o_root out with
  | None => fst (spec_run prog) = []
  | Some root =>
    ids (leaves root) = fst (spec_run prog) /\ Forall is_rp (leaves root) /\
    root_ok D root = true /\ attr_eqs root
  end.
Proof.
  intros Hgv H. unfold PageTree.run in H. cbn [init_state] in H.
  apply bind_ok in H as ([[root1 st1] acc] & Hs & H).
  assert (w_good (Wr (Some 0) false [] [] (Some 0) [] [])) as Hg0 by (constructor; auto; discriminate).
  destruct (steps_sim _ _ _ _ _ _ _ Hg0 eq_refl Hgv Hs) as (S1 & S2 & S3).
  apply bind_ok in H as ([root2 st2] & Hc & H).
  destruct (close_w_spec D old choose choose_rot G _ _ _ _ Hc S1) as (C1 & C2 & _).
  apply bind_ok in H as ([tail nx] & Hcol & H).
  inversion C1 as [? ? ? ? ? ? ? Ht _ _ _]; subst. cbn [w_tail] in *.
  destruct (collapse_keeps D old choose choose_rot good (good_merged D old choose choose_rot G) _ _ _ _ _ Hcol Ht) as (K1 & K2 & K3).
  unfold spec_run. cbn [abs_eq] in S3. change (ItRange 0 false []) with (abs (Wr (Some 0) false [] [] (Some 0) [] [])).
  change 1 with (g_wid (mkG 0 (mkF [mkCell 0%Z 0%Z []] []) 1)). rewrite S3. cbn [fst snd].
  pose proof (abs_pages root1) as Hp.
  destruct tail as [|i rest]; injection H as <-; cbn [o_accepted o_root]; split; try reflexivity.
  - rewrite Hp, <- C2, <- K2. reflexivity.
  - assert (rest = []) as -> by (destruct rest; [reflexivity|cbn in K3; lia]).
    inversion K1 as [|? ? [Hs1 Ha1] _]; subst.
    assert (leaves (wrap_if_leaf i nx) = wpages root1) as Hl.
    { rewrite wrap_leaves, <- C2, <- K2. cbn. rewrite app_nil_r. reflexivity. }
    splits.
    + rewrite Hl, Hp. reflexivity.
    + rewrite wrap_leaves. apply Hs1.
    + apply s_ok_root; assumption.
    + intros k. apply a_inv_wrap. exact Ha1.
Qed.

End Run.

(* the attributes given by the program itself *)
Lemma given_of_ok prog : NoDup (append_ids prog) -> Forall (given_ok (given_of prog)) prog.
Proof.
  induction prog as [|o prog IH]; intros Hnd; [constructor|].
  destruct o as [w id a|w|w|w k]; cbn [append_ids given_of] in *.
  - inversion Hnd as [|? ? Hnot Hnd']; subst. constructor.
    + cbn [given_ok given_of]. intros k. rewrite ref_eqb_refl. reflexivity.
    + specialize (IH Hnd'). rewrite Forall_forall in *. intros o Ho. specialize (IH o Ho).
      destruct o as [w' id' a'|w'|w'|w' k']; cbn [given_ok given_of] in *; auto.
      intros k. destruct (ref_eqb (RP id') (RP id)) eqn:E; [|apply IH].
      apply ref_eqb_eq in E. injection E as ->. exfalso. apply Hnot.
      clear - Ho. induction prog as [|o prog IHp]; [destruct Ho|]. destruct Ho as [->|Ho]; [left; reflexivity|].
      destruct o; cbn; auto.
  - constructor; [exact I|apply IH; exact Hnd].
  - constructor; [exact I|apply IH; exact Hnd].
  - constructor; [exact I|apply IH; exact Hnd].
Qed.
