(* Parameter dictionaries: models of parseFlate, parseLZW, parseCCITTFax,
   predictParams (filter.go) and of the geometry cap in
   FilterCCITTFax.toParams.  A dictionary maps each key to an object of any
   type; only Integer (an int64) and Boolean values are ever looked at, every
   other type (and an absent key) fails the Go type assertion in the same way.
   FlatePredictor.isValid is the translated Go function (Gen_C08). *)
From Coq Require Import List ZArith Bool.
From GoPdf.Gen Require Import Gen_C08.
From GoPdf.C08 Require Import Predict.
Import ListNotations.
Open Scope Z_scope.

Inductive pkey :=
| KPredictor | KColors | KBitsPerComponent | KColumns | KEarlyChange
| KK | KEndOfLine | KEncodedByteAlign | KRows | KEndOfBlock | KBlackIs1 | KDamagedRowsBeforeError.

Inductive pobj := PInt (z : Z) | PBool (b : bool) | POther.

Definition pdict := pkey -> pobj.

Definition pkey_eqb (a b : pkey) : bool :=
  match a, b with
  | KPredictor, KPredictor | KColors, KColors | KBitsPerComponent, KBitsPerComponent
  | KColumns, KColumns | KEarlyChange, KEarlyChange | KK, KK | KEndOfLine, KEndOfLine
  | KEncodedByteAlign, KEncodedByteAlign | KRows, KRows | KEndOfBlock, KEndOfBlock
  | KBlackIs1, KBlackIs1 | KDamagedRowsBeforeError, KDamagedRowsBeforeError => true
  | _, _ => false
  end.

Fixpoint dict_of_list (l : list (pkey * pobj)) : pdict :=
  fun k =>
    match l with
    | [] => POther
    | (k', v) :: r => if pkey_eqb k k' then v else dict_of_list r k
    end.

Definition int64_ok (z : Z) : Prop := - 2 ^ 63 <= z < 2 ^ 63.
Definition dict_ok (d : pdict) : Prop := forall k z, d k = PInt z -> int64_ok z.

Definition max_int : Z := 2 ^ 63 - 1.           (* maxInt = int(^uint(0) >> 1) on the 64-bit targets *)
Definition max_dim : Z := 2 ^ 20.               (* 1 << 20 in parseFlate / parseCCITTFax *)

(* ---- FlateDecode / LZWDecode ---- *)

Record flate := Flate { f_pred : Z; f_colors : Z; f_bpc : Z; f_cols : Z }.

Definition parse_flate (d : pdict) : flate :=
  let pred :=
    match d KPredictor with
    | PInt v => if FlatePredictor_isValid v && negb (v =? 0) then v else FlatePredictorNone
    | _ => FlatePredictorNone
    end in
  if pred =? FlatePredictorNone then Flate pred 0 0 0
  else
    let colors :=
      match d KColors with
      | PInt v => if (1 <=? v) && (v <=? max_int) then v else 1
      | _ => 1
      end in
    let bpc :=
      match d KBitsPerComponent with
      | PInt v => if (v =? 1) || (v =? 2) || (v =? 4) || (v =? 8) || (v =? 16) then v else 8
      | _ => 8
      end in
    let cols :=
      match d KColumns with
      | PInt v => if (1 <=? v) && (v <=? max_dim) then v else 1
      | _ => 1
      end in
    Flate pred colors bpc cols.

(* OffByOne: true unless /EarlyChange is the integer 0 *)
Definition parse_lzw (d : pdict) : flate * bool :=
  (parse_flate d, match d KEarlyChange with PInt v => negb (v =? 0) | _ => true end).

(* predictParams: zero fields take the defaults *)
Definition predict_params (f : flate) : pparams :=
  PP (if f_pred f =? 0 then 1 else f_pred f)
     (if f_colors f =? 0 then 1 else f_colors f)
     (if f_bpc f =? 0 then 8 else f_bpc f)
     (if f_cols f =? 0 then 1 else f_cols f).

(* ---- CCITTFaxDecode ---- *)

Record ccitt := CCITT {
  c_k : Z; c_eol : bool; c_eba : bool; c_cols : Z; c_rows : Z;
  c_ignore_eob : bool; c_black1 : bool; c_damaged : Z }.

Definition get_bool (d : pdict) (k : pkey) (dflt : bool) : bool :=
  match d k with PBool b => b | _ => dflt end.

Definition get_dim (d : pdict) (k : pkey) (dflt : Z) : Z :=
  match d k with PInt v => if (0 <? v) && (v <=? max_dim) then v else dflt | _ => dflt end.

Definition parse_ccitt (d : pdict) : ccitt :=
  CCITT
    (match d KK with
     | PInt v => if v <? 0 then -1 else if max_int <? v then max_int else v
     | _ => 0
     end)
    (get_bool d KEndOfLine false)
    (get_bool d KEncodedByteAlign false)
    (get_dim d KColumns 1728)
    (get_dim d KRows 0)
    (match d KEndOfBlock with PBool b => negb b | _ => false end)
    (get_bool d KBlackIs1 false)
    (get_dim d KDamagedRowsBeforeError 0).

(* FilterCCITTFax.toParams (used by Decode and by Encode): the Columns and the MaxRows handed
   to the reader; maxRows := max(1, min(MaxImageHeight, MaxImagePixels/max(cols,1))), replaced
   by /Rows when 0 < Rows < maxRows *)
Definition ccitt_geometry (c : ccitt) : Z * Z :=
  let pcols := if c_cols c =? 0 then 1728 else c_cols c in
  let cols := Z.max pcols 1 in
  let geo := Z.max 1 (Z.min MaxImageHeight (Z.quot MaxImagePixels cols)) in
  (pcols, if (0 <? c_rows c) && (c_rows c <? geo) then c_rows c else geo).
