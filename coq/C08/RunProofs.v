(* Filter chains over the modelled decoders are total. *)
From Coq Require Import List NArith ZArith Bool Lia.
From GoPdf.Base Require Import Bytes Res.
From GoPdf.C08 Require Import Stream Simple LZW Predict Params Run
  SimpleProofs LZWProofs PredictProofs.
Import ListNotations.

Definition clean_or_mal (t : tl) : Prop := t = None \/ t = Some Malformed.

Lemma good_clean t s : clean_or_mal t -> good_status t s -> clean_or_mal s.
Proof. intros Ht [-> | [-> | ->]]; [left | right | exact Ht]; reflexivity. Qed.

Lemma good_trans a b c : good_status a b -> good_status b c -> good_status a c.
Proof.
  intros [-> | [-> | ->]] [-> | [-> | ->]]; auto with c08.
Qed.

Lemma lzw_stage_good avail d inp t : good_status t (snd (lzw_stage avail d inp t)).
Proof.
  unfold lzw_stage. destruct (parse_lzw d) as [f early].
  pose proof (lzw_dec_total early inp t) as [H1 _].
  destruct (lzw_dec early inp t) as [mid t']. cbn [snd] in H1.
  eapply good_trans; [exact H1|]. apply unpredict_total.
Qed.

Lemma run_stage_good avail s inp t : good_status t (snd (run_stage avail s inp t)).
Proof.
  destruct s; cbn [run_stage].
  - apply ahx_go_status.
  - apply a85_go_status.
  - apply rl_go_status.
  - apply lzw_stage_good.
  - cbn. auto with c08.
Qed.

Lemma run_chain_good avail : forall ss inp t, good_status t (snd (run_chain avail ss inp t)).
Proof.
  induction ss as [|s ss IH]; intros inp t; cbn [run_chain].
  - cbn. auto with c08.
  - pose proof (run_stage_good avail s inp t) as H.
    destruct (run_stage avail s inp t) as [o t']. cbn [snd] in H.
    eapply good_trans; [exact H | apply IH].
Qed.

Theorem decode_stream_total ss raw : clean_or_mal (snd (decode_stream ss raw)).
Proof.
  unfold decode_stream. eapply good_clean; [left; reflexivity | apply run_chain_good].
Qed.
