(* Filter chains over the modelled decoders are total. *)
From Coq Require Import List NArith ZArith Bool Lia.
From GoPdf.Base Require Import Bytes Res.
From GoPdf.C08 Require Import Stream Simple LZW Predict Params Run
  SimpleProofs LZWProofs PredictProofs.
Import ListNotations.

Definition clean_or_mal (t : tl) : Prop := t = None \/ t = Some Malformed.

Lemma good_clean t s : clean_or_mal t -> good_status t s -> clean_or_mal s.
Proof. intros Ht [-> | [-> | ->]]; [left | right | exact Ht]; reflexivity. Qed.

Lemma good_trans a b c : good_status a b -> good_status b c -> good_status a c.
Proof.
  intros [-> | [-> | ->]] [-> | [-> | ->]]; auto with c08.
Qed.

Lemma lzw_stage_good avail d inp t : good_status t (snd (lzw_stage avail d inp t)).
Proof.
  unfold lzw_stage. destruct (parse_lzw d) as [f early].
  pose proof (lzw_dec_total early inp t) as [H1 _].
  destruct (lzw_dec early inp t) as [mid t']. cbn [snd] in H1.
  eapply good_trans; [exact H1|]. apply unpredict_total.
Qed.

Lemma run_stage_good avail s inp t : good_status t (snd (run_stage avail s inp t)).
Proof.
  destruct s; cbn [run_stage].
  - apply ahx_go_status.
  - apply a85_go_status.
  - apply rl_go_status.
  - apply lzw_stage_good.
  - cbn. auto with c08.
Qed.

Lemma run_chain_good avail : forall ss inp t, good_status t (snd (run_chain avail ss inp t)).
Proof.
  induction ss as [|s ss IH]; intros inp t; cbn [run_chain].
  - cbn. auto with c08.
  - pose proof (run_stage_good avail s inp t) as H.
    destruct (run_stage avail s inp t) as [o t']. cbn [snd] in H.
    eapply good_trans; [exact H | apply IH].
Qed.

Theorem decode_stream_total ss raw : clean_or_mal (snd (decode_stream ss raw)).
Proof.
  unfold decode_stream. eapply good_clean; [left; reflexivity | apply run_chain_good].
Qed.

(* ---- memory of a whole chain ---- *)
From Coq Require Import ZifyBool.
From GoPdf.Gen Require Import Gen_Limits.
From GoPdf.C08 Require Import Charge ChargeProofs BudgetProofs.

Lemma stage_sites_ok s : Forall site_ok (stage_sites s).
Proof.
  destruct s; cbn [stage_sites]; try constructor.
  destruct (pp_validate _ && negb (_ =? 1)%Z) eqn:E; [|constructor].
  apply andb_prop in E as [E1 E2]. constructor; [|constructor].
  apply predict_site_ok; [exact E1 | lia].
Qed.

Lemma chain_sites_ok ss : Forall site_ok (chain_sites ss).
Proof.
  unfold chain_sites. induction ss as [|s r IH]; cbn [flat_map]; [constructor|].
  apply Forall_app. split; [apply stage_sites_ok | exact IH].
Qed.

Lemma chain_fixed_bound ss : (0 <= chain_fixed ss <= Z.of_nat (length ss) * 20480)%Z.
Proof.
  induction ss as [|s r IH]; cbn [chain_fixed fold_right length]; [lia|].
  fold (chain_fixed r). assert (0 <= stage_fixed s <= 20480)%Z.
  { destruct s; cbn [stage_fixed]; rewrite ?lzw_table_bytes_eq; lia. }
  lia.
Qed.

(* whatever the chain, the parameters and the body (shorter than 2^63 bytes, as every Go
   slice is): the buffers of the charging sites stay within StreamBudget(rawLen) <= 8 MiB +
   256 MiB, and the tables that are not charged are at most 20 KiB per stage, 160 KiB for the
   longest chain GetFilters admits *)
Theorem chain_memory (ss : list stage) (raw : bytes) :
  (length ss <= 8)%nat -> (Z.of_nat (length raw) < 2 ^ 63)%Z ->
  let budget := StreamBudget (Z.of_nat (length raw)) in
  (0 <= fst (run_sites budget (chain_sites ss)) <= budget)%Z /\
  (budget <= 8388608 + 268435456)%Z /\
  (0 <= chain_fixed ss <= 163840)%Z.
Proof.
  intros Hl Hraw budget.
  assert (Hi : int64 (Z.of_nat (length raw))) by (unfold int64; lia).
  destruct StreamBudget_props as (Hb & _ & _). specialize (Hb _ Hi). fold budget in Hb.
  destruct (discipline (chain_sites ss) budget (chain_sites_ok ss)) as [H1 H2].
  pose proof (chain_fixed_bound ss) as Hf.
  split; [split; [exact H1 | apply H2; lia] | split; lia].
Qed.
