(* PNG / TIFF un-predict: model of internal/filter/predict/{params.go,read.go}
   (Params.Validate, NewReader, initBuffers, Read, decodePNGRow,
   decodeTIFFRow and its five bit-depth variants), hostile-input view.

   Set-up (validation, buffer sizes, budget charge, make) follows the code
   statement by statement, with Go's panics (make with a negative length,
   x % 0) as explicit branches.  The row decoders are modelled by what they
   compute: all of their index expressions are guarded in the Go code by
   explicit length tests (prevRow) or by the loop bounds (result[i-bpp] with
   i >= bpp; prevValues[idx % Colors]).  prevRow is zeros(bpp) ++ previous
   decoded row, so prevRow[bpp+i] is "up" and prevRow[i] (i >= bpp) is
   "upper left".  Integer arithmetic is unbounded: Validate bounds every
   operand (Colors <= 256, BitsPerComponent <= 16, Columns <= 65536) before
   any product is formed. *)
From Coq Require Import List NArith ZArith Bool.
From GoPdf.Base Require Import Bytes Res.
From GoPdf.Gen Require Import Gen_C08.
From GoPdf.C08 Require Import Stream.
Import ListNotations.

Record pparams := PP { p_pred : Z; p_colors : Z; p_bpc : Z; p_cols : Z }.

Open Scope Z_scope.

Definition bpc_ok (b : Z) : bool :=
  (b =? 1) || (b =? 2) || (b =? 4) || (b =? 8) || (b =? 16).

Definition is_png (pred : Z) : bool := (10 <=? pred) && (pred <=? 15).

Definition bits_per_pixel (p : pparams) : Z := p_colors p * p_bpc p.
Definition bits_per_row (p : pparams) : Z := bits_per_pixel p * p_cols p.
Definition bytes_per_row (p : pparams) : Z := Z.quot (bits_per_row p + 7) 8.
Definition bytes_per_pixel (p : pparams) : Z := Z.quot (bits_per_pixel p + 7) 8.

(* Params.Validate: true = nil *)
Definition pp_validate (p : pparams) : bool :=
  if p_pred p =? 1 then true
  else
    let colors_ok :=
      if p_pred p =? 2 then (1 <=? p_colors p) && (p_colors p <=? 60)
      else if is_png (p_pred p) then (1 <=? p_colors p) && (p_colors p <=? 256)
      else false in
    colors_ok && bpc_ok (p_bpc p)
    && (1 <=? p_cols p) && (p_cols p <=? MaxImageWidth)
    && (Z.quot (p_colors p * p_bpc p * p_cols p + 7) 8 <=? predict_maxBytesPerRow).

(* membudget.Budget.Charge against [avail] bytes remaining: Some avail' or None (error) *)
Definition charge (avail n : Z) : option Z :=
  if n <? 0 then None                    (* ErrInvalid *)
  else if avail <? n + 32 then None      (* ErrExceeded *)
  else Some (avail - (n + 32)).

(* the single Charge of initBuffers *)
Definition init_charge (p : pparams) : Z :=
  let rb := bytes_per_row p in
  if is_png (p_pred p) then rb + (bytes_per_pixel p + rb) + (rb + 1)
  else rb + p_colors p * 4 + rb.

(* bytes read per row *)
Definition row_need (p : pparams) : Z :=
  if is_png (p_pred p) then bytes_per_row p + 1 else bytes_per_row p.

Open Scope N_scope.

(* ---- PNG row ---- *)

Definition absz (x : Z) : Z := if (x <? 0)%Z then (- x)%Z else x.

Definition paeth (a b c : N) : N :=
  let p := (Z.of_N a + Z.of_N b - Z.of_N c)%Z in
  let pa := absz (p - Z.of_N a) in
  let pb := absz (p - Z.of_N b) in
  let pc := absz (p - Z.of_N c) in
  if ((pa <=? pb) && (pa <=? pc))%Z then a else if (pb <=? pc)%Z then b else c.

(* [up]: previous row from position i on; [ul]: previous row from position
   i-bpp on (valid once i >= bpp); [cur_rev]: decoded bytes so far, reversed *)
Fixpoint png_row (alg : N) (bpp : nat) (row up ul : bytes) (i : nat) (cur_rev : bytes) : bytes :=
  match row with
  | [] => cur_rev
  | x :: r =>
    let has_left := Nat.leb bpp i in
    let left := if has_left then nth (bpp - 1) cur_rev 0 else 0 in
    let upv := hd 0 up in
    let ulv := if has_left then hd 0 ul else 0 in
    let pr :=
      if alg =? 1 then left
      else if alg =? 2 then upv
      else if alg =? 3 then (left + upv) / 2
      else if alg =? 4 then paeth left upv ulv
      else 0 in                                          (* tag 0 and every unknown tag: no prediction *)
    png_row alg bpp r (List.tl up) (if has_left then List.tl ul else ul) (S i)
            (((x + pr) mod 256) :: cur_rev)
  end.

(* one encoded row (tag byte first) against the previous decoded row *)
Definition png_decode_row (bpp : nat) (prev : bytes) (enc : bytes) : bytes :=
  match enc with
  | [] => []
  | alg :: row => frev (png_row alg bpp row prev prev 0 [])
  end.

(* ---- TIFF row ---- *)

(* slots of one byte, most significant first *)
Definition unpack_byte (bpc : N) (b : N) : list N :=
  if bpc =? 1 then [ (b / 128) mod 2; (b / 64) mod 2; (b / 32) mod 2; (b / 16) mod 2;
                     (b / 8) mod 2; (b / 4) mod 2; (b / 2) mod 2; b mod 2 ]
  else if bpc =? 2 then [ (b / 64) mod 4; (b / 16) mod 4; (b / 4) mod 4; b mod 4 ]
  else if bpc =? 4 then [ (b / 16) mod 16; b mod 16 ]
  else [ b ].

Fixpoint unpack (bpc : N) (row : bytes) : list N :=
  match row with
  | [] => []
  | a :: r =>
    if bpc =? 16 then
      match r with
      | b :: r' => (a * 256 + b) :: unpack bpc r'
      | [] => [ a + 65536 ]                       (* odd trailing byte: untouched (marked) *)
      end
    else unpack_byte bpc a ++ unpack bpc r
  end.

Fixpoint pack (bpc : N) (cs : list N) : bytes :=
  match cs with
  | [] => []
  | a :: r =>
    if bpc =? 16 then
      if 65536 <=? a then [ a - 65536 ] else (a / 256) :: (a mod 256) :: pack bpc r
    else if bpc =? 8 then a :: pack bpc r
    else if bpc =? 4 then
      match r with b :: r' => (a * 16 + b) :: pack bpc r' | _ => [ a * 16 ] end
    else if bpc =? 2 then
      match r with
      | b :: c :: d :: r' => (a * 64 + b * 16 + c * 4 + d) :: pack bpc r'
      | _ => [ a * 64 ]
      end
    else
      match r with
      | b :: c :: d :: e :: f :: g :: h :: r' =>
        (a * 128 + b * 64 + c * 32 + d * 16 + e * 8 + f * 4 + g * 2 + h) :: pack bpc r'
      | _ => [ a * 128 ]
      end
  end.

(* the first [n] slots are components: the first [colors] stay, each later
   one adds the component [colors] places back, modulo 2^bpc; the remaining
   slots are padding and stay *)
Fixpoint tiff_comps (colors : nat) (m : N) (n : nat) (cs : list N) (j : nat) (cur_rev : list N) : list N :=
  match cs with
  | [] => cur_rev
  | x :: r =>
    match n with
    | O => tiff_comps colors m O r (S j) (x :: cur_rev)
    | S n' =>
      let v := if Nat.leb colors j then (x + nth (colors - 1) cur_rev 0) mod m else x in
      tiff_comps colors m n' r (S j) (v :: cur_rev)
    end
  end.

(* result := r.outputBuffer[:len(encodedData)], decoded in place *)
Definition tiff_decode_row (colors cols : nat) (bpc : N) (enc : bytes) : bytes :=
  firstn (length enc) (pack bpc (frev (tiff_comps colors (2 ^ bpc) (colors * cols) (unpack bpc enc) 0 []))).

(* ---- reading rows ---- *)

Inductive tk := TFull (row rest : bytes) | TShort (got : bool).

(* io.ReadFull(r, buf[:n]) *)
Fixpoint take (l : bytes) (n : N) (acc : bytes) : tk :=
  if n =? 0 then TFull (frev acc) l
  else match l with
       | [] => TShort (match acc with [] => false | _ => true end)
       | x :: r => take r (n - 1) (x :: acc)
       end.

Fixpoint up_loop (fuel : nat) (need : N) (dec : bytes -> bytes -> bytes)
         (inp : bytes) (t : tl) (prev : bytes) (acc : bytes) : dres :=
  match fuel with
  | O => finish acc (Some OutOfFuel)
  | S f =>
    match take inp need [] with
    | TShort false => finish acc t                    (* nothing read: EOF ends the data, an error is passed on *)
    | TShort true => finish acc (unexpected t)        (* a partial row cannot be decoded *)
    | TFull row rest =>
      let out := dec prev row in
      up_loop f need dec rest t out (rev_append out acc)
    end
  end.

(* predict.NewReader + Read to the end, with [avail] bytes of budget left *)
Definition unpredict (avail : Z) (p : pparams) (inp : bytes) (t : tl) : dres :=
  if negb (pp_validate p) then ([], Some Malformed)
  else if (p_pred p =? 1)%Z then (inp, t)                      (* the inner reader itself *)
  else
    match charge avail (init_charge p) with
    | None => ([], Some Malformed)                             (* sticky initErr on the first Read *)
    | Some _ =>
      if (bytes_per_row p <? 0)%Z then ([], Some Panic)        (* make([]byte, rowBytes) *)
      else if is_png (p_pred p) then
        if (bytes_per_pixel p + bytes_per_row p <? 0)%Z then ([], Some Panic)
        else
          let bpp := Z.to_nat (bytes_per_pixel p) in
          (* the previous-row buffer starts as zeros: an exhausted list reads as 0 in png_row *)
          up_loop (S (length inp)) (Z.to_N (row_need p)) (png_decode_row bpp) inp t [] []
      else
        if (p_colors p <? 0)%Z then ([], Some Panic)           (* make([]uint32, Colors) *)
        else if (p_colors p =? 0)%Z then ([], Some Panic)      (* idx % Colors *)
        else
          up_loop (S (length inp)) (Z.to_N (row_need p))
                  (fun _ row => tiff_decode_row (Z.to_nat (p_colors p)) (Z.to_nat (p_cols p))
                                                (Z.to_N (p_bpc p)) row)
                  inp t [] []
    end.
