(* Error classification on the way out of DecodeStream: asMalformedFilter and
   filterContentReader (filter.go), sourceErrChecker, promote and
   sourceAwareReader (container.go).

   A Go error is represented by what the wrappers can observe of it:
   errors.Is(err, io.EOF), err == io.EOF, IsMalformed(err); [gid] names it. *)
From Coq Require Import List NArith Bool.
Import ListNotations.

Record gerr := GE {
  is_eof : bool;        (* errors.Is(err, io.EOF) *)
  eof_ident : bool;     (* err == io.EOF *)
  is_mal : bool;        (* IsMalformed(err) *)
  gid : N }.

Definition gerr_wf (e : gerr) : Prop := eof_ident e = true -> is_eof e = true /\ is_mal e = false.

(* &MalformedFileError{Err: e}; Unwrap keeps errors.Is(_, io.EOF) *)
Definition wrap_mal (e : gerr) : gerr := GE (is_eof e) false true (gid e).

(* filterContentReader.Read: only io.EOF itself is the end of the data *)
Definition content_read (e : option gerr) : option gerr :=
  match e with
  | None => None
  | Some x => if negb (eof_ident x) && negb (is_mal x) then Some (wrap_mal x) else Some x
  end.

(* the same before commit c59f855, which tested errors.Is(err, io.EOF): kept to state what
   that repair removed *)
Definition content_read_errors_is (e : option gerr) : option gerr :=
  match e with
  | None => None
  | Some x => if negb (is_eof x) && negb (is_mal x) then Some (wrap_mal x) else Some x
  end.

(* asMalformedFilter(rc, err): the error returned at construction *)
Definition as_malformed (e : option gerr) : option gerr :=
  match e with
  | None => None
  | Some x => if is_mal x then Some x else Some (wrap_mal x)
  end.

(* sourceErrChecker.Read: sticky first non-EOF error of the byte source *)
Definition src_record (sticky : option gerr) (e : option gerr) : option gerr :=
  match sticky, e with
  | None, Some x => if eof_ident x then None else Some x
  | _, _ => sticky
  end.

Definition src_records (sticky : option gerr) (evs : list (option gerr)) : option gerr :=
  fold_left src_record evs sticky.

(* sourceAwareReader.Read and sourceErrChecker.promote *)
Definition source_aware (e sticky : option gerr) : option gerr :=
  match e, sticky with
  | Some _, Some s => Some s
  | _, _ => e
  end.

(* One Read call on the reader DecodeStream returned: the layers below perform
   any reads on the byte source ([evs]: the error result of each) and the
   outermost filter's own reader answers [inner] - any value whatsoever. *)
Definition call := (list (option gerr) * option gerr)%type.

Definition top_read (sticky : option gerr) (c : call) : option gerr * option gerr :=
  let sticky' := src_records sticky (fst c) in
  (source_aware (content_read (snd c)) sticky', sticky').

(* io.ReadAll: Read until an error; returns that error (io.EOF itself is success) *)
Fixpoint read_all (sticky : option gerr) (cs : list call) : option gerr :=
  match cs with
  | [] => None
  | c :: r =>
    match top_read sticky c with
    | (Some e, _) => Some e
    | (None, s') => read_all s' r
    end
  end.

(* the construction phase of DecodeStream: fi.Decode returned [e] after the
   source events [evs]; the caller sees promote(asMalformedFilter's error) *)
Definition construct (evs : list (option gerr)) (e : option gerr) : option gerr :=
  source_aware (as_malformed e) (src_records None evs).

(* the non-EOF errors the byte source itself returned *)
Definition source_failed_with (cs : list (list (option gerr))) (e : gerr) : Prop :=
  exists evs, In evs cs /\ In (Some e) evs /\ eof_ident e = false.
