(* LZWDecode: decoder-only model of internal/filter/lzw/reader.go
   (Reader.read, Reader.decode), hostile-input view.

   Every Go operation of the decoder that can panic is an explicit branch:
   indexing suffix/prefix (arrays of 1<<maxWidth entries), indexing and slicing
   the output buffer (2<<maxWidth bytes).  A copy whose source and destination
   ranges overlap (i < o) does not panic in Go but silently corrupts the data;
   it is flagged with the same hazard class.  uint16/uint32 fields wrap
   explicitly.  The constants come from the translated source (Gen_C08). *)
From Coq Require Import List NArith ZArith Bool FMapPositive.
From GoPdf.Base Require Import Bytes Res.
From GoPdf.Gen Require Import Gen_C08.
From GoPdf.C08 Require Import Stream Simple.
Import ListNotations.
Open Scope N_scope.

Definition maxW : N := Z.to_N lzw_maxWidth.
Definition litW : N := Z.to_N lzw_litWidth.
Definition clearC : N := Z.to_N lzw_clear.
Definition eofC : N := Z.to_N lzw_eof.
Definition flushB : N := Z.to_N lzw_flushBuffer.
Definition invalidC : N := Z.to_N lzw_decoderInvalidCode.
Definition tabLen : N := 2 ^ maxW.            (* len(suffix) = len(prefix) *)
Definition outLen : N := 2 * 2 ^ maxW.        (* len(output) *)

Definition u16 (x : N) : N := x mod 65536.

(* suffix[] and prefix[] as one finite map code -> (prefix, suffix); Go's
   arrays are zero-initialised and survive clear codes *)
Definition ptab := PositiveMap.t (N * N).
Definition tget (c : N) (tb : ptab) : N * N :=
  match PositiveMap.find (N.succ_pos c) tb with Some p => p | None => (0, 0) end.
Definition tset (c : N) (p : N * N) (tb : ptab) : ptab := PositiveMap.add (N.succ_pos c) p tb.

Record lzst := LZ {
  bits : N; nbits : N;          (* bit reservoir (uint32) and its fill *)
  width : N;                    (* currentWidth *)
  hi : N; ovf : N; last : N;    (* uint16 fields *)
  tab : ptab;
  opos : N                      (* r.o: bytes pending in the output buffer *)
}.

Definition lz_init : lzst :=
  LZ 0 0 (1 + litW) eofC (u16 (2 ^ (1 + litW))) invalidC (PositiveMap.empty _) 0.

(* Reader.read: fill the reservoir byte-wise, then take [width] bits *)
Inductive rd := RdEnd | RdFuel | RdCode (code : N) (inp : bytes) (b nb : N).

Fixpoint lz_read (f : nat) (inp : bytes) (b nb w : N) : rd :=
  if nb <? w then
    match f with
    | O => RdFuel
    | S f' =>
      match inp with
      | [] => RdEnd
      | x :: r =>
        (* r.bits |= uint32(x) << (24 - r.nBits): a uint count; beyond 24 it wraps and the shift gives 0 *)
        let sh := if nb <=? 24 then u32 (N.shiftl x (24 - nb)) else 0 in
        lz_read f' r (u32 (N.lor b sh)) (nb + 8) w
      end
    end
  else
    let code := if w <=? 32 then u16 (N.shiftr b (32 - w)) else 0 in
    RdCode code inp (u32 (N.shiftl b w)) (nb - w).

Definition walk_fuel : nat := S (N.to_nat tabLen).

(* c = r.last; for c >= clear { c = r.prefix[c] } *)
Fixpoint lz_head (f : nat) (tb : ptab) (c : N) : res N :=
  if c <? clearC then Ok c
  else match f with
       | O => Err OutOfFuel
       | S f' => if tabLen <=? c then Err Panic else lz_head f' tb (fst (tget c tb))
       end.

(* for c >= clear { r.output[i] = r.suffix[c]; i--; c = r.prefix[c] }; r.output[i] = uint8(c)
   [buf] collects what is written right-to-left, so it ends up in output order *)
Fixpoint lz_walk (f : nat) (tb : ptab) (c : N) (i : Z) (buf : bytes) : res (N * Z * bytes) :=
  if c <? clearC then
    if (i <? 0)%Z then Err Panic else Ok (c, i, c :: buf)
  else match f with
       | O => Err OutOfFuel
       | S f' =>
         if (i <? 0)%Z then Err Panic
         else if tabLen <=? c then Err Panic
         else let ps := tget c tb in lz_walk f' tb (fst ps) (i - 1)%Z (snd ps :: buf)
       end.

Definition set_rd (st : lzst) (b nb : N) : lzst :=
  LZ b nb (width st) (hi st) (ovf st) (last st) (tab st) (opos st).

Definition lz_reset (st : lzst) : lzst :=
  LZ (bits st) (nbits st) (1 + litW) eofC (u16 (2 ^ (1 + litW))) invalidC (tab st) (opos st).

(* if r.last != decoderInvalidCode { r.suffix[r.hi] = s; r.prefix[r.hi] = r.last } *)
Definition lz_save (st : lzst) (s : N) : res ptab :=
  if last st =? invalidC then Ok (tab st)
  else if tabLen <=? hi st then Err Panic
  else Ok (tset (hi st) (last st, s) (tab st)).

(* r.last, r.hi = code, r.hi+1; width change or table-full handling; flush test *)
Definition lz_next (early code : N) (st : lzst) (tb : ptab) (emitted : N) : lzst :=
  let hi1 := u16 (hi st + 1) in
  let o1 := opos st + emitted in
  let o2 := if flushB <=? o1 then 0 else o1 in
  if ovf st <=? u16 (hi1 + early) then
    if maxW <=? width st then
      LZ (bits st) (nbits st) (width st) (u16 (hi1 + 65535)) (ovf st) invalidC tb o2
    else
      LZ (bits st) (nbits st) (width st + 1) hi1 (u16 (2 ^ (width st + 1))) code tb o2
  else LZ (bits st) (nbits st) (width st) hi1 (ovf st) code tb o2.

(* what one code does to the decoder: stop with a status, or go on with the
   new state and the bytes decoded for this code (in output order) *)
Inductive stepres := StStop (t : tl) | StCont (st : lzst) (emit : bytes).

Definition lz_step (early : N) (st : lzst) (code : N) : stepres :=
  if code <? clearC then
    (* literal: r.output[r.o] = uint8(code); r.o++ *)
    if outLen <=? opos st then StStop (Some Panic)
    else match lz_save st code with
         | Err e => StStop (Some e)
         | Ok tb => StCont (lz_next early code st tb 1) [code]
         end
  else if code =? clearC then StCont (lz_reset st) []
  else if code =? eofC then StStop None
  else if code <=? hi st then
    let start :=
      if (code =? hi st) && negb (last st =? invalidC) then
        match lz_head walk_fuel (tab st) (last st) with
        | Err e => Err e
        | Ok h => Ok (last st, Z.of_N outLen - 2, [h])%Z       (* r.output[i] = uint8(c); i-- *)
        end
      else Ok (code, Z.of_N outLen - 1, [])%Z in
    match start with
    | Err e => StStop (Some e)
    | Ok (c0, i0, buf0) =>
      match lz_walk walk_fuel (tab st) c0 i0 buf0 with
      | Err e => StStop (Some e)
      | Ok (c, i, buf) =>
        (* r.o += copy(r.output[r.o:], r.output[i:]) *)
        if outLen <? opos st then StStop (Some Panic)
        else if (i <? Z.of_N (opos st))%Z then StStop (Some Panic)     (* overlap: silent corruption *)
        else match lz_save st c with
             | Err e => StStop (Some e)
             | Ok tb => StCont (lz_next early code st tb (N.of_nat (length buf))) buf
             end
      end
    end
  else StStop (Some Malformed).                                      (* lzw: invalid code *)

Fixpoint lz_loop (fuel : nat) (early : N) (inp : bytes) (t : tl) (st : lzst) (acc : bytes) : dres :=
  match fuel with
  | O => finish acc (Some OutOfFuel)
  | S fuel' =>
    match lz_read 4 inp (bits st) (nbits st) (width st) with
    | RdFuel => finish acc (Some OutOfFuel)
    | RdEnd => finish acc (unexpected t)                  (* EOF inside the code stream *)
    | RdCode code inp' b nb =>
      match lz_step early (set_rd st b nb) code with
      | StStop s => finish acc s
      | StCont st' buf => lz_loop fuel' early inp' t st' (rev_append buf acc)
      end
    end
  end.

(* one code per iteration, and every code takes at least one input byte *)
Definition lzw_fuel (inp : bytes) : nat := S (length inp).

Definition lzw_dec (early : bool) (inp : bytes) (t : tl) : dres :=
  lz_loop (lzw_fuel inp) (if early then 1 else 0) inp t lz_init [].
