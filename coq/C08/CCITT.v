(* CCITTFaxDecode: control-flow model of internal/filter/ccittfax/reader.go,
   hostile-input view.  What is modelled is where the decoder writes: the
   cursor a0 / xpos, the length of the line buffer (fillRowBits extends it to
   hold [end] bits), the row counter of Reader.Read.  The bits themselves, the
   code tables and the reference line enter as the EVENTS they give rise to -
   any finite sequence of them: every event consumes at least one input bit or
   ends the row (table check [main_table_ok], run on the real table).  So the
   theorems hold for every body, every table content and every reference line.

   Facts used about the events, all from the code:
     b1, b2 (findB1B2FromChanges) are elements of the changing-element list,
       which lies in [0, Columns), or Columns itself;
     the parameter of a vertical-mode entry is a table constant;
     run lengths (decodeFullRun, decodeRun) are sums of table constants >= 0. *)
From Coq Require Import List ZArith Bool.
From GoPdf.Gen Require Import Gen_C08dct.
Import ListNotations.
Open Scope Z_scope.

(* fillRowBits(start, end, _): the line is extended to (end+7)/8 bytes when start < end;
   the bytes written are at positions pos/8 for max(start,0) <= pos < end, all below that *)
Definition fill (len start end_ : Z) : Z :=
  if start <? end_ then Z.max len (Z.quot (end_ + 7) 8) else len.

(* ---- one 2-D coded row (decode2D) ---- *)

Inductive ev2 :=
| EPass (b2 : Z)
| EHoriz (r1 r2 : Z)          (* the two decodeFullRun totals *)
| EVert (b1 param : Z)
| EStop.                      (* EOL entry, extension code, no-progress guard, read error *)

Fixpoint row2d (cols : Z) (evs : list ev2) (a0 len : Z) : Z :=
  if cols <=? a0 then len                              (* for a0 < r.Columns && r.err == nil *)
  else match evs with
       | [] => len                                     (* input exhausted: err is set *)
       | e :: r =>
         match e with
         | EStop => len
         | EPass b2 => row2d cols r b2 (fill len a0 b2)
         | EHoriz r1 r2 =>
           let a := Z.max a0 0 in                     (* raised to 0 before the run is clipped (F46) *)
           let r1' := Z.min r1 (cols - a) in
           let len1 := fill len a (a + r1') in
           let a := a + r1' in
           let r2' := Z.min r2 (cols - a) in
           row2d cols r (a + r2') (fill len1 a (a + r2'))
         | EVert b1 p =>
           let a1 := Z.min (b1 + p) cols in           (* clipped at the right margin (F41) *)
           row2d cols r a1 (fill len a0 a1)
         end
       end.

(* the same loop as it was before the repairs F41 (vertical-mode target not clipped) and F46
   (first run clipped against the unclamped a0): kept to state what those repairs removed *)
Fixpoint row2d_before_F41_F46 (cols : Z) (evs : list ev2) (a0 len : Z) : Z :=
  if cols <=? a0 then len
  else match evs with
       | [] => len
       | e :: r =>
         match e with
         | EStop => len
         | EPass b2 => row2d_before_F41_F46 cols r b2 (fill len a0 b2)
         | EHoriz r1 r2 =>
           let r1' := Z.min r1 (cols - a0) in
           let a := Z.max a0 0 in
           let len1 := fill len a (a + r1') in
           let a := a + r1' in
           let r2' := Z.min r2 (cols - a) in
           row2d_before_F41_F46 cols r (a + r2') (fill len1 a (a + r2'))
         | EVert b1 p => row2d_before_F41_F46 cols r (b1 + p) (fill len a0 (b1 + p))
         end
       end.

Definition ev2_ok (cols : Z) (e : ev2) : Prop :=
  match e with
  | EPass b2 => 0 <= b2 <= cols
  | EHoriz r1 r2 => 0 <= r1 /\ 0 <= r2
  | EVert b1 p => 0 <= b1 <= cols /\ -3 <= p <= 3
  | EStop => True
  end.

(* ---- one 1-D coded row (decodeG3ScanLine1D): runs clipped at Columns ---- *)

Fixpoint row1d (cols : Z) (runs : list Z) (xpos len : Z) : Z :=
  match runs with
  | [] => len
  | r :: rest =>
    let r' := Z.min r (cols - xpos) in
    row1d cols rest (xpos + r') (fill len xpos (xpos + r'))
  end.

(* ---- Reader.Read over the rows ---- *)

Inductive rowev := Row2 (evs : list ev2) (err_after : bool) | Row1 (runs : list Z) (err_after : bool).

Definition row_len (cols : Z) (r : rowev) : Z :=
  match r with
  | Row2 evs _ => row2d cols evs (-1) 0
  | Row1 runs _ => row1d cols runs 0 0
  end.
Definition row_err (r : rowev) : bool := match r with Row2 _ e | Row1 _ e => e end.

(* a row is decoded while err == nil and (MaxRows == 0 || numRows < MaxRows); an empty
   line ends the stream; numRows counts delivered lines.  Result: (bytes, rows) delivered *)
Fixpoint ccitt_read (cols maxrows : Z) (rows : list rowev) (numrows : Z) : Z * Z :=
  match rows with
  | [] => (0, numrows)
  | r :: rest =>
    if negb (maxrows =? 0) && (maxrows <=? numrows) then (0, numrows)
    else
      let l := row_len cols r in
      if l <=? 0 then (0, numrows)
      else if row_err r then (l, numrows + 1)
      else let '(t, n) := ccitt_read cols maxrows rest (numrows + 1) in (l + t, n)
  end.

(* ---- the 2-D mode table, as exported from the implementation ---- *)

(* entries (state, width, param); checked on every run on the real mainTable *)
Definition entry_ok (e : Z * Z * Z) : bool :=
  let '(st, w, p) := e in
  (if st =? S_Vert then (-3 <=? p) && (p <=? 3) else true) &&
  (if st =? S_EOL then true else 1 <=? w).
Definition main_table_ok (t : list (Z * Z * Z)) : bool := forallb entry_ok t.

(* run tables: (width, run length) - a usable entry consumes at least one bit *)
Definition run_table_ok (t : list (Z * Z)) : bool :=
  forallb (fun e => (0 <=? fst e) && (0 <=? snd e)) t.
