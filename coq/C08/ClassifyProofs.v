(* What leaves the classification wrappers, for every behaviour of the inner layers. *)
From Coq Require Import List NArith Bool Lia.
From GoPdf.C08 Require Import Classify.
Import ListNotations.

Definition classified (e : gerr) : Prop := eof_ident e = true \/ is_mal e = true.

Lemma content_read_classified e x : content_read e = Some x -> classified x.
Proof.
  unfold content_read, classified. destruct e as [y|]; [|discriminate].
  destruct (eof_ident y) eqn:E1, (is_mal y) eqn:E2; cbn; intro H; inversion H; subst; cbn; auto.
Qed.

Lemma as_malformed_classified e x : as_malformed e = Some x -> is_mal x = true.
Proof.
  unfold as_malformed. destruct e as [y|]; [|discriminate].
  destruct (is_mal y) eqn:E; intro H; inversion H; subst; cbn; auto.
Qed.

(* the sticky error is a non-EOF error the source returned, or the one we started with *)
Lemma src_records_from evs : forall sticky s,
  src_records sticky evs = Some s ->
  sticky = Some s \/ (In (Some s) evs /\ eof_ident s = false).
Proof.
  induction evs as [|e evs IH]; intros sticky s H; cbn in H.
  - left. exact H.
  - apply IH in H as [H | [H1 H2]].
    + unfold src_record in H. destruct sticky as [k|].
      * left. exact H.
      * destruct e as [x|]; [|discriminate]. destruct (eof_ident x) eqn:E; [discriminate|].
        inversion H; subst. right. split; [left; reflexivity | exact E].
    + right. split; [right; exact H1 | exact H2].
Qed.

Theorem read_all_classified : forall cs sticky e,
  read_all sticky cs = Some e ->
  classified e \/ sticky = Some e \/ source_failed_with (map fst cs) e.
Proof.
  induction cs as [|c cs IH]; intros sticky e H; cbn [read_all] in H; [discriminate|].
  unfold top_read in H. set (s' := src_records sticky (fst c)) in *.
  destruct (source_aware (content_read (snd c)) s') as [x|] eqn:E.
  - inversion H; subst x. unfold source_aware in E.
    destruct (content_read (snd c)) as [y|] eqn:Ec; [|discriminate].
    destruct s' as [s|] eqn:Es.
    + inversion E; subst s. apply src_records_from in Es as [Hs | [H1 H2]].
      * right; left. exact Hs.
      * right; right. exists (fst c). split; [left; reflexivity | split; assumption].
    + inversion E; subst y. left. eapply content_read_classified; eauto.
  - apply IH in H as [H | [H | (evs & H1 & H2 & H3)]].
    + left. exact H.
    + apply src_records_from in H as [H | [H1 H2]].
      * right; left. exact H.
      * right; right. exists (fst c). split; [left; reflexivity | split; assumption].
    + right; right. exists evs. split; [right; exact H1 | split; assumption].
Qed.

Theorem construct_classified evs e x :
  construct evs e = Some x -> is_mal x = true \/ (In (Some x) evs /\ eof_ident x = false).
Proof.
  unfold construct, source_aware. intro H.
  destruct (as_malformed e) as [y|] eqn:Ea; [|discriminate].
  destruct (src_records None evs) as [s|] eqn:Es.
  - inversion H; subst s. apply src_records_from in Es as [Hs | Hs]; [discriminate | right; exact Hs].
  - inversion H; subst y. left. eapply as_malformed_classified; eauto.
Qed.

(* before commit c59f855 the wrapper let an error that merely WRAPS io.EOF through unclassified *)
Lemma errors_is_variant_leaks :
  exists inner, gerr_wf inner /\ exists e, content_read_errors_is (Some inner) = Some e /\ ~ classified e.
Proof.
  exists (GE true false false 3). split.
  - intro H. discriminate.
  - eexists. split; [reflexivity|]. intros [H | H]; discriminate.
Qed.
