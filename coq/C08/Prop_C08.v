(* C08: property theorems only; each closed by [exact] and followed by Print Assumptions. *)
From Coq Require Import List NArith ZArith Bool.
From GoPdf.Base Require Import Bytes Res.
From GoPdf.Gen Require Import Gen_C08 Gen_Limits.
From GoPdf.C08 Require Import Stream Simple LZW Predict Params Chain Classify Run
  SimpleProofs LZWProofs PredictProofs ParamsProofs ChainProofs ClassifyProofs BudgetProofs RunProofs
  Charge CCITT ChargeProofs CCITTProofs DCTFrames DCTFramesProofs Summary.
From GoPdf.Gen Require Import Gen_C08dct.
Import ListNotations.

(* ---- dec_total ----
   Each modelled decoder, on every byte string and every way the layer below
   can end (clean, malformed, I/O error), ends clean, Malformed, or with the
   error of the layer below: never Panic, never OutOfFuel.  ASCIIHex, ASCII85
   and RunLength take one step per input byte by construction (structural
   recursion); LZW is given fuel |in| + 1 (one unit per code) and a constant
   4097 per chain walk; un-predict is given |in| + 1 (one unit per row). *)
Theorem dec_total :
  (forall inp t, good_status t (snd (ahx_dec inp t))) /\
  (forall inp t, good_status t (snd (a85_dec inp t))) /\
  (forall inp t, good_status t (snd (rl_dec inp t))) /\
  (forall early inp t, good_status t (snd (lzw_dec early inp t))) /\
  (forall avail p inp t, good_status t (snd (unpredict avail p inp t))).
Proof. exact dec_total_lemma. Qed.
Print Assumptions dec_total.

(* any fuel above |in| is enough for LZW, from any state satisfying the invariant *)
Theorem dec_total_lzw_fuel :
  forall early, (early <= 1)%N -> forall fuel inp t st acc,
  lz_inv early st -> (length inp < fuel)%nat ->
  good_status t (snd (lz_loop fuel early inp t st acc)) /\
  (length (fst (lz_loop fuel early inp t st acc)) <= length acc + 4096 * length inp)%nat.
Proof. exact lz_loop_total. Qed.
Print Assumptions dec_total_lzw_fuel.

(* good_status excludes the hazards whenever the layer below ends in one of the ways a reader can *)
Theorem dec_never_hazard :
  forall below t, src_status below -> good_status below t -> t <> Some Panic /\ t <> Some OutOfFuel.
Proof. exact good_not_hazard. Qed.
Print Assumptions dec_never_hazard.

(* whole chains over the modelled decoders, as DecodeStream builds them *)
Theorem chain_total :
  forall ss raw, snd (decode_stream ss raw) = None \/ snd (decode_stream ss raw) = Some Malformed.
Proof. exact decode_stream_total. Qed.
Print Assumptions chain_total.

(* ---- out_bound ---- *)
Theorem out_bound :
  (forall e t, (length (fst (rl_dec e t)) <= 128 * length e)%nat) /\
  (forall e t, (2 * length (fst (ahx_dec e t)) <= length e)%nat) /\
  (forall e t, (length (fst (a85_dec e t)) <= 4 * length e)%nat) /\
  (forall early e t, (length (fst (lzw_dec early e t)) <= 4096 * length e)%nat) /\
  (forall avail p e t, (length (fst (unpredict avail p e t)) <= length e)%nat).
Proof. exact out_bound_lemma. Qed.
Print Assumptions out_bound.

(* LZW: at most 4096 bytes per code *)
Theorem out_bound_lzw_per_code :
  forall early st code, (early <= 1)%N -> lz_inv early st ->
  forall st' buf, lz_step early st code = StCont st' buf -> (length buf <= 4096)%nat.
Proof. exact lzw_per_code. Qed.
Print Assumptions out_bound_lzw_per_code.

(* the bound of DESIGN.md for ASCII85, |a85_dec e| <= |e|, is false: 'z' stands for four zero bytes *)
Definition a85_out_bound_as_designed : Prop :=
  forall e t, (length (fst (a85_dec e t)) <= length e)%nat.
Theorem a85_out_bound_as_designed_refuted :
  exists e t, (length e < length (fst (a85_dec e t)))%nat.
Proof. exact a85_out_bound_as_designed_refuted_lemma. Qed.
Print Assumptions a85_out_bound_as_designed_refuted.

(* ---- budget_props, over the translated limits.StreamBudget ---- *)
Theorem budget_props :
  (forall n, int64 n -> (8388608 <= StreamBudget n <= 8388608 + 268435456)%Z) /\
  (forall a b, int64 a -> int64 b -> (a <= b)%Z -> (StreamBudget a <= StreamBudget b)%Z) /\
  (forall n, int64 n -> StreamBudget n = budget_ideal n).
Proof. exact StreamBudget_props. Qed.
Print Assumptions budget_props.

Theorem budget_props_maxxref :
  (forall n, (- 2 ^ 63 <= n < 2 ^ 58 - 256)%Z ->
     (8192 <= MaxXRefEntries n)%Z /\ MaxXRefEntries n = xref_ideal n) /\
  (forall a b, (- 2 ^ 63 <= a)%Z -> (a <= b)%Z -> (b < 2 ^ 58 - 256)%Z ->
     (MaxXRefEntries a <= MaxXRefEntries b)%Z).
Proof. exact MaxXRefEntries_props. Qed.
Print Assumptions budget_props_maxxref.

Definition maxxref_no_overflow_on_int64 : Prop :=
  forall n, int64 n -> MaxXRefEntries n = xref_ideal n.
Theorem maxxref_overflow_refuted :
  exists n, int64 n /\ (0 <= n)%Z /\ (MaxXRefEntries n < 0)%Z.
Proof. exact MaxXRefEntries_overflows. Qed.
Print Assumptions maxxref_overflow_refuted.

(* ---- parse_clamps: every dictionary, entries of any type and magnitude ---- *)
Theorem parse_clamps :
  (forall d, flate_clamped (parse_flate d)) /\
  (forall d, flate_clamped (fst (parse_lzw d))) /\
  (forall d, ccitt_clamped (parse_ccitt d)).
Proof. exact parse_clamps_lemma. Qed.
Print Assumptions parse_clamps.

(* the CCITT row cap bounds the decoded size whatever the dictionary says *)
Theorem parse_clamps_ccitt_geometry :
  forall d, let '(cols, rows) := ccitt_geometry (parse_ccitt d) in
  (1 <= cols <= max_dim /\ 1 <= rows <= MaxImageHeight /\ rows * cols <= MaxImagePixels /\
   rows * ((cols + 7) / 8) <= 16777216 + 65536)%Z.
Proof. exact ccitt_geometry_cap. Qed.
Print Assumptions parse_clamps_ccitt_geometry.

(* parameters that pass Params.Validate: rows of at most 4 MiB, a charge of at most 12 MiB + 577 *)
Theorem parse_clamps_predictor :
  forall p, pp_validate p = true -> p_pred p <> 1%Z -> validated p.
Proof. exact validate_bounds. Qed.
Print Assumptions parse_clamps_predictor.

(* ---- chain_cap ---- *)
Theorem chain_cap :
  (forall l p, (8 < length l)%nat -> get_filters (FArr l) p = Err Malformed) /\
  (forall f p l, get_filters f p = Ok l ->
     (length l <= 8)%nat /\ forall i, (0 < i)%nat -> nth_error l i <> Some FCrypt) /\
  (forall ns p i, (0 < i)%nat -> nth_error ns i = Some FCrypt ->
     get_filters (FArr (map EName ns)) p = Err Malformed) /\
  (forall f p e, get_filters f p = Err e -> e = Malformed).
Proof. exact chain_cap_lemma. Qed.
Print Assumptions chain_cap.

(* ---- classify: for all behaviours of the inner layers and of the byte source ---- *)
(* the error that ends io.ReadAll is io.EOF itself, or malformed, or an error the byte source
   itself returned (other than io.EOF itself); likewise at construction *)
Theorem classify :
  (forall cs e, read_all None cs = Some e ->
     (eof_ident e = true \/ is_mal e = true) \/ source_failed_with (map fst cs) e) /\
  (forall evs e x, construct evs e = Some x ->
     is_mal x = true \/ (In (Some x) evs /\ eof_ident x = false)).
Proof. exact classify_lemma. Qed.
Print Assumptions classify.

(* the wrapper as it was before commit c59f855 (errors.Is(err, io.EOF) instead of err == io.EOF)
   let an inner error that wraps io.EOF through unclassified; [content_read_errors_is] is not
   the current code *)
Theorem classify_before_c59f855_refuted :
  exists inner, gerr_wf inner /\
  exists e, content_read_errors_is (Some inner) = Some e /\ ~ (eof_ident e = true \/ is_mal e = true).
Proof. exact errors_is_variant_leaks. Qed.
Print Assumptions classify_before_c59f855_refuted.

(* ---- the budget discipline: charge before allocate, and the charge covers the allocation ---- *)

(* any number of sites on one shared cell: the bytes allocated never exceed the cell's limit *)
Theorem budget_discipline :
  forall ss avail, Forall site_ok ss ->
  (0 <= fst (run_sites avail ss))%Z /\ ((0 <= avail)%Z -> (fst (run_sites avail ss) <= avail)%Z).
Proof. exact discipline. Qed.
Print Assumptions budget_discipline.

(* DCT: for 1, 3 or 4 components, ALL sampling factors, all MCU grids and widths, what
   pixelPlaneBytes charges equals what makeImg allocates; the same for the progressive
   coefficient blocks (bytesPerProgBlock = 4 * blockSize, translated constants) *)
Theorem dct_charge_covers_alloc :
  (forall g mxx smyy, geom_ok g -> (0 <= mxx)%Z -> (0 <= smyy)%Z ->
     (0 <= plane_alloc g mxx smyy <= plane_charge g mxx smyy)%Z /\
     plane_alloc g mxx smyy = plane_charge g mxx smyy) /\
  (forall mxx myy h v, (0 <= mxx)%Z -> (0 <= myy)%Z -> (0 <= h)%Z -> (0 <= v)%Z ->
     site_ok (prog_site mxx myy h v) /\ s_alloc (prog_site mxx myy h v) = s_charge (prog_site mxx myy h v)).
Proof. exact dct_charge_covers_alloc_lemma. Qed.
Print Assumptions dct_charge_covers_alloc.

(* two components: pixelPlaneBytes would not cover makeImg's chroma planes; the SOF parser
   (1, 3 or 4 components only) keeps that case away *)
Definition dct_charge_covers_alloc_any_component_count : Prop :=
  forall g mxx smyy, (0 <= mxx)%Z -> (0 <= smyy)%Z -> (plane_alloc g mxx smyy <= plane_charge g mxx smyy)%Z.
Theorem dct_charge_two_components_refuted :
  exists g mxx smyy, g_n g = 2%Z /\ (plane_charge g mxx smyy < plane_alloc g mxx smyy)%Z.
Proof. exact plane_two_components_uncovered. Qed.
Print Assumptions dct_charge_two_components_refuted.

(* DCT, progressive: the cap on passes over the coefficient buffer.  Whatever the scans are
   (DC or AC, first pass or refinement, coded blocks or blocks skipped by EOB runs), the
   blocks walked never exceed maxProgPasses x (coefficient blocks allocated and charged) + 1;
   the closed form used by the extracted model is the block-by-block loop *)
Theorem dct_pass_cap :
  (forall scans st, pw_inv st -> Forall (fun s => (0 <= fst s)%Z /\ (0 <= snd s)%Z) scans ->
     let '(st', ok) := run_scans scans st in
     (w_total st <= w_total st')%Z /\ (0 <= w_visits st' <= jpeg_maxProgPasses * w_total st' + 1)%Z) /\
  (forall n st, pw_inv st -> scan_iter n st = scan_fast (Z.of_nat n) st).
Proof. exact (conj run_scans_bound scan_fast_iter). Qed.
Print Assumptions dct_pass_cap.

(* DCT: for every frame kind (baseline SOF0, extended sequential SOF1, progressive SOF2, any
   other SOFn) and every sequence of scans - one scan over all components, one per component,
   repeated scans, further SOS after the image is complete - the rows that reach the output
   never exceed the height of the image *)
Theorem dct_output_rows :
  forall k h scans, (0 <= h)%Z -> (0 <= fst (decode_frame k h scans) <= h)%Z.
Proof. exact dct_output_rows_lemma. Qed.
Print Assumptions dct_output_rows.

(* predictor row buffers, CCITT line buffers, JBIG2 pool (live bytes never exceed the cell),
   LZW (no charge: 20 KiB of fixed tables per reader) *)
Theorem charge_covers_alloc :
  (forall p, pp_validate p = true -> p_pred p <> 1%Z ->
     site_ok (predict_site p) /\ s_alloc (predict_site p) = s_charge (predict_site p)) /\
  (forall cols k, (0 < cols)%Z ->
     site_ok (ccitt_site cols k) /\ s_alloc (ccitt_site cols k) = s_charge (ccitt_site cols k)) /\
  (forall limit ops, (0 <= limit)%Z ->
     let p := fst (pool_run (Pool 0 0 limit) ops 0) in (0 <= p_live p <= limit)%Z) /\
  lzw_table_bytes = 20480%Z.
Proof. exact charge_covers_alloc_lemma. Qed.
Print Assumptions charge_covers_alloc.

(* JBIG2: the translated workLimit - between 64 Mi and 512 Mi pixel operations, at most
   64 Mi + 4096 per input byte, monotone, for all int64 lengths - and the work cell: the
   per-pixel loops that are allowed to run never add up to more than the limit *)
Theorem jbig2_work_bound :
  (forall n, int64 n -> (67108864 <= jbig2_workLimit n <= 536870912)%Z /\
                        (jbig2_workLimit n <= 67108864 + 4096 * Z.max n 0)%Z) /\
  (forall a b, int64 a -> int64 b -> (a <= b)%Z -> (jbig2_workLimit a <= jbig2_workLimit b)%Z) /\
  (forall limit regions, (0 <= limit)%Z -> Forall (fun p => (0 <= p)%Z) regions ->
     (0 <= fst (run_sites limit (map work_site regions)) <= limit)%Z).
Proof. exact (conj (proj1 workLimit_props) (conj (proj2 workLimit_props) work_discipline)). Qed.
Print Assumptions jbig2_work_bound.

(* a whole chain: charged buffers within StreamBudget(rawLen) <= 264 MiB, uncharged tables <= 160 KiB *)
Theorem chain_memory_bound :
  forall (ss : list stage) (raw : bytes),
  (length ss <= 8)%nat -> (Z.of_nat (length raw) < 2 ^ 63)%Z ->
  let budget := StreamBudget (Z.of_nat (length raw)) in
  (0 <= fst (run_sites budget (chain_sites ss)) <= budget)%Z /\
  (budget <= 8388608 + 268435456)%Z /\
  (0 <= chain_fixed ss <= 163840)%Z.
Proof. exact chain_memory. Qed.
Print Assumptions chain_memory_bound.

(* ---- CCITT: rows and the row cap, for every body, table content and reference line ---- *)
Theorem ccitt_row_cap :
  forall cols maxrows, (0 <= cols)%Z -> (1 <= maxrows)%Z -> forall rows numrows,
  Forall (rowev_ok cols) rows -> (0 <= numrows <= maxrows)%Z ->
  let '(t, n) := ccitt_read cols maxrows rows numrows in
  (numrows <= n <= maxrows)%Z /\ (0 <= t <= (n - numrows) * plain_bound cols)%Z.
Proof. exact ccitt_read_cap. Qed.
Print Assumptions ccitt_row_cap.

(* the bound the filter documents: at most MaxRows rows of ceil(Columns/8) bytes *)
Theorem ccitt_row_cap_as_documented :
  forall cols maxrows rows, (0 <= cols)%Z -> (1 <= maxrows)%Z -> Forall (rowev_ok cols) rows ->
  (0 <= fst (ccitt_read cols maxrows rows 0) <= maxrows * plain_bound cols)%Z.
Proof. exact ccitt_documented_cap. Qed.
Print Assumptions ccitt_row_cap_as_documented.

(* the decoder as it was before the repairs F41 and F46 did not have it (kept as a record of
   what those repairs removed; [row2d_before_F41_F46] is not the current code) *)
Theorem ccitt_row_before_F41_F46_refuted :
  (exists cols evs, Forall (ev2_ok cols) evs /\ (plain_bound cols < row2d_before_F41_F46 cols evs (-1) 0)%Z) /\
  (plain_bound 8 < row2d_before_F41_F46 8 [EVert 8 3] (-1) 0)%Z /\
  (plain_bound 8 < row2d_before_F41_F46 8 [EHoriz 63 0] (-1) 0)%Z.
Proof. exact row_before_repairs_too_long. Qed.
Print Assumptions ccitt_row_before_F41_F46_refuted.

(* the validator run on the real 2-D mode table establishes the premise on vertical-mode events *)
Theorem ccitt_table_facts :
  forall t, main_table_ok t = true ->
  forall st w p, In (st, w, p) t -> (st = S_Vert -> (-3 <= p <= 3)%Z) /\ (st <> S_EOL -> (1 <= w)%Z).
Proof. exact main_table_vert. Qed.
Print Assumptions ccitt_table_facts.

(* ---- the hypotheses are satisfiable, the error branches are reachable ---- *)
Example ex_inv : lz_inv 1 lz_init.
Proof. apply lz_inv_init. discriminate. Qed.
Example ex_lzw_spec : lzw_dec true [128; 11; 96; 80; 34; 12; 12; 133; 1]%N None
                      = ([45; 45; 45; 45; 45; 65; 45; 45; 45; 66]%N, None).
Proof. vm_compute. reflexivity. Qed.
Example ex_lzw_invalid_code : snd (lzw_dec true [128; 127; 255]%N None) = Some Malformed.
Proof. vm_compute. reflexivity. Qed.
Example ex_lzw_truncated : snd (lzw_dec true [128; 11]%N None) = Some Malformed.
Proof. vm_compute. reflexivity. Qed.
Example ex_lzw_passes_io : snd (lzw_dec true [128; 11]%N (Some (IO 7))) = Some (IO 7).
Proof. vm_compute. reflexivity. Qed.
Example ex_validated : pp_validate (PP 12 3 8 100) = true /\ pp_validate (PP 12 257 8 1) = false
                       /\ pp_validate (PP 15 256 16 65536) = false.
Proof. vm_compute. auto. Qed.
Example ex_pred_budget : snd (unpredict 100 (PP 12 1 8 40) [0]%N None) = Some Malformed.
Proof. vm_compute. reflexivity. Qed.
Example ex_chain : get_filters (FArr [EName FAHx; EName FCrypt]) PfNone = Err Malformed
                   /\ get_filters (FArr [EName FCrypt; EName FAHx]) PfNone = Ok [FCrypt; FAHx]
                   /\ get_filters (FArr [EName FAHx]) (PfArr [PNotDict]) = Err Malformed
                   /\ get_filters (FOne FAHx) PfBad = Err Malformed.
Proof. vm_compute. auto. Qed.
Example ex_source_error_surfaces :
  read_all None [([Some (GE false false false 5)], Some (GE false false false 6))] = Some (GE false false false 5).
Proof. reflexivity. Qed.
Example ex_geom : geom_ok (Geom 4 2 2 1 1 2 2 2176) /\ plane_charge (Geom 4 2 2 1 1 2 2 2176) 136 136 = 11846144%Z.
Proof. split; [unfold geom_ok; cbn; repeat split; auto; discriminate | reflexivity]. Qed.
Example ex_rowev : Forall (rowev_ok 16) [Row2 [EPass 8; EVert 16 0] false; Row1 [3; 20] true].
Proof. repeat constructor; cbn; auto with zarith. Qed.
Example ex_pw : pw_inv (PW 0 0) /\ run_scans [(100, 100); (0, 100); (0, 6300)]%Z (PW 0 0) = (PW 6401 100, false).
Proof. split; [unfold pw_inv, pass_cap; cbn; auto with zarith | vm_compute; reflexivity]. Qed.
Example ex_frames : decode_frame FExtended 16 [true; true; true] = (16, false)%Z
                    /\ decode_frame FProgressive 16 [true; false; false] = (16, true)%Z
                    /\ decode_frame FBaseline 16 [false; false; true] = (16, true)%Z.
Proof. vm_compute. auto. Qed.
