(* Totality and output bounds of the ASCIIHex, ASCII85 and RunLength models. *)
From Coq Require Import List NArith Bool Lia ZifyN ZifyNat ZifyBool.
From GoPdf.Base Require Import Bytes Res.
From GoPdf.C08 Require Import Stream Simple.
Import ListNotations.
Open Scope N_scope.

Lemma frev_rev {A} (l : list A) : frev l = rev l.
Proof. unfold frev. rewrite rev_append_rev. apply app_nil_r. Qed.

Lemma frev_length {A} (l : list A) : length (frev l) = length l.
Proof. rewrite frev_rev. apply rev_length. Qed.

Lemma rev_append_length {A} (a b : list A) : length (rev_append a b) = (length a + length b)%nat.
Proof. rewrite rev_append_rev, app_length, rev_length. reflexivity. Qed.

Lemma finish_len acc t : length (fst (finish acc t)) = length acc.
Proof. unfold finish; cbn [fst]. apply frev_length. Qed.
Lemma finish_snd acc t : snd (finish acc t) = t.
Proof. reflexivity. Qed.
#[global] Opaque finish.

Lemma good_none b : good_status b None.
Proof. left; reflexivity. Qed.
Lemma good_mal b : good_status b (Some Malformed).
Proof. right; left; reflexivity. Qed.
Lemma good_self b : good_status b b.
Proof. right; right; reflexivity. Qed.
Lemma good_unexpected b : good_status b (unexpected b).
Proof. destruct b; cbn; [apply good_self | apply good_mal]. Qed.

#[export] Hint Resolve good_none good_mal good_self good_unexpected : c08.
Ltac fin := rewrite ?finish_snd; auto with c08.

(* a total decoder never ends in a panic or out of fuel, whatever ends the layer below *)
Lemma good_not_hazard b t :
  src_status b -> good_status b t -> t <> Some Panic /\ t <> Some OutOfFuel.
Proof.
  intros Hb [-> | [-> | ->]]; try (split; discriminate).
  destruct b as [[]|]; cbn in Hb; try contradiction; split; discriminate.
Qed.

(* ---- ASCIIHex ---- *)

Lemma ahx_go_status inp : forall t high acc, good_status t (snd (ahx_go inp t high acc)).
Proof.
  induction inp as [|c r IH]; intros t high acc; cbn [ahx_go].
  - fin.
  - destruct (hexval c).
    + destruct high; apply IH.
    + destruct (is_space c); [apply IH|].
      destruct (c =? 62); [destruct high; fin | fin].
Qed.

Lemma ahx_go_length inp : forall t high acc,
  (2 * length (fst (ahx_go inp t high acc)) <=
   2 * length acc + length inp + (match high with Some _ => 1 | None => 0 end))%nat.
Proof.
  induction inp as [|c r IH]; intros t high acc; cbn [ahx_go].
  - rewrite finish_len. destruct high; lia.
  - destruct (hexval c).
    + destruct high.
      * specialize (IH t None (((n0 * 16 + n) mod 256) :: acc)). cbn [length] in *. lia.
      * specialize (IH t (Some n) acc). cbn [length] in *. lia.
    + destruct (is_space c).
      * specialize (IH t high acc). cbn [length]. destruct high; lia.
      * destruct (c =? 62).
        -- destruct high; rewrite finish_len; cbn [length]; lia.
        -- rewrite finish_len. destruct high; lia.
Qed.

(* ---- ASCII85 ---- *)

Lemma a85_go_status inp : forall t v k e acc, good_status t (snd (a85_go inp t v k e acc)).
Proof.
  induction inp as [|c r IH]; intros t v k e acc; cbn [a85_go].
  - fin.
  - destruct e.
    + destruct (c =? 62); fin.
    + destruct ((33 <=? c) && (c <? 118)).
      * destruct (k + 1 =? 5); apply IH.
      * destruct ((k =? 0) && (c =? 122)); [apply IH|].
        destruct (is_space c); [apply IH|].
        destruct (c =? 126).
        -- destruct (k =? 0); [apply IH|]. destruct (k =? 1); [fin | apply IH].
        -- fin.
Qed.

Lemma be4_length v : length (be4 v) = 4%nat.
Proof. reflexivity. Qed.

Lemma a85_go_length inp : forall t v k e acc,
  (length (fst (a85_go inp t v k e acc)) <= length acc + 4 * length inp)%nat.
Proof.
  induction inp as [|c r IH]; intros t v k e acc; cbn [a85_go].
  - rewrite finish_len. lia.
  - cbn [length]. destruct e.
    + destruct (c =? 62); rewrite finish_len; lia.
    + destruct ((33 <=? c) && (c <? 118)).
      * destruct (k + 1 =? 5).
        -- etransitivity; [apply IH|]. rewrite rev_append_length, be4_length. lia.
        -- etransitivity; [apply IH|]. lia.
      * destruct ((k =? 0) && (c =? 122)).
        { etransitivity; [apply IH|]. rewrite rev_append_length, be4_length. lia. }
        destruct (is_space c). { etransitivity; [apply IH|]. lia. }
        destruct (c =? 126).
        -- destruct (k =? 0). { etransitivity; [apply IH|]. lia. }
           destruct (k =? 1). { rewrite finish_len. lia. }
           etransitivity; [apply IH|]. rewrite rev_append_length.
           rewrite firstn_length.
           change (length (be4 (a85_pad (N.to_nat (5 - k)) v))) with 4%nat. lia.
        -- rewrite finish_len. lia.
Qed.

(* ---- RunLength ---- *)

Definition rl_mode_ok (m : rlmode) : Prop :=
  match m with RRep n => n <= 128 | _ => True end.

Lemma rl_go_status inp : forall t m acc, good_status t (snd (rl_go inp t m acc)).
Proof.
  induction inp as [|c r IH]; intros t m acc; cbn [rl_go].
  - destruct m as [|rem got|n]; fin. destruct got; fin.
  - destruct m as [|rem got|n].
    + destruct (c =? 128); [fin|]. destruct (c <? 128); apply IH.
    + destruct (rem <=? 1); apply IH.
    + apply IH.
Qed.

Lemma rl_go_length inp : forall t m acc, rl_mode_ok m ->
  (length (fst (rl_go inp t m acc)) <= length acc + 128 * length inp)%nat.
Proof.
  induction inp as [|c r IH]; intros t m acc Hm; cbn [rl_go].
  - destruct m as [|rem got|n]; rewrite finish_len; lia.
  - cbn [length]. destruct m as [|rem got|n].
    + destruct (c =? 128) eqn:E0. { rewrite finish_len. lia. }
      destruct (c <? 128) eqn:E.
      * etransitivity; [apply IH; exact I|]. lia.
      * etransitivity; [apply IH|]; [unfold rl_mode_ok; lia | lia].
    + destruct (rem <=? 1); (etransitivity; [apply IH; exact I|]); cbn [length]; lia.
    + etransitivity; [apply IH; exact I|]. rewrite rev_append_length, repeat_length.
      unfold rl_mode_ok in Hm. lia.
Qed.
