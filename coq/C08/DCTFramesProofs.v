From Coq Require Import List ZArith Bool Lia ZifyBool.
From GoPdf.C08 Require Import DCTFrames.
Import ListNotations.
Open Scope Z_scope.

(* rows written so far, given the mode: a streamed sequential scan has written the image *)
Definition ds_inv (k : fkind) (h : Z) (st : dstate) : Prop :=
  (allocated st = false -> emitted st = 0) /\
  (allocated st = true -> streaming st = true -> is_prog k = false -> emitted st = h) /\
  (allocated st = true -> (is_prog k = true \/ streaming st = false) -> emitted st = 0).

Lemma run_frame_rows k h : 0 <= h -> forall scans st, ds_inv k h st ->
  0 <= fst (run_frame k h scans st) <= h.
Proof.
  intros Hh. induction scans as [|a r IH]; intros st (H1 & H2 & H3); cbn [run_frame].
  - destruct (allocated st) eqn:Ea; cbn [negb].
    + destruct (is_prog k) eqn:Ep; cbn [orb negb].
      * rewrite H3 by auto. cbn. lia.
      * destruct (streaming st) eqn:Es; cbn [negb fst].
        -- rewrite H2 by auto. lia.
        -- rewrite H3 by auto. lia.
    + cbn [fst]. rewrite H1 by auto. lia.
  - unfold sos. destruct k; cbn [is_prog orb negb andb] in *;
      try (cbn [fst]; destruct (allocated st) eqn:Ea; [destruct (streaming st) eqn:Es|]; lia).
    all: destruct (allocated st) eqn:Ea; cbn [negb].
    all: try (destruct (streaming st) eqn:Es; cbn [andb fst];
              [ try (rewrite H2 by auto; lia); try (apply IH; unfold ds_inv; rewrite Ea, Es; cbn [is_prog]; repeat split; intros; try discriminate; auto; try (destruct H; discriminate); lia)
              | apply IH; unfold ds_inv; rewrite Ea, Es; cbn [is_prog]; repeat split; intros; try discriminate; auto; lia ]).
    all: try (apply IH; unfold ds_inv; cbn [allocated streaming emitted is_prog]; rewrite H1 by auto;
              destruct a; cbn [orb andb negb]; repeat split; intros; try discriminate; try lia;
              try (destruct H; discriminate)).
Qed.
