(* DCTDecode: which scans may follow which, per frame kind, and how many image rows reach
   the output.  Model of the bookkeeping in dct/jpeg/scan.go processSOS and stream.go:
   the first SOS allocates the planes and chooses streaming mode (progressive frames, and
   sequential frames whose first scan lists every component); a sequential scan in streaming
   mode writes the stripes of the whole image while it runs, so a further SOS is refused
   ("multi-scan baseline not supported in streaming mode") for every frame kind that is not
   progressive - baseline (SOF0) and extended sequential (SOF1) alike; progressive frames and
   the full-buffer mode write the image once, after the last scan.  The entropy decoding
   itself is not modelled: the theorems hold for every content of the scans. *)
From Coq Require Import List ZArith Bool.
Import ListNotations.
Open Scope Z_scope.

Inductive fkind := FBaseline | FExtended | FProgressive | FUnsupported.   (* SOF0, SOF1, SOF2, the other SOFn *)

Definition is_prog (k : fkind) : bool := match k with FProgressive => true | _ => false end.

Record dstate := DS { allocated : bool; streaming : bool; emitted : Z }.   (* image rows written so far *)

(* one SOS; [all] = the scan lists every component; None = refused *)
Definition sos (k : fkind) (h : Z) (all : bool) (st : dstate) : option dstate :=
  match k with
  | FUnsupported => None
  | _ =>
    if negb (allocated st) then
      let str := is_prog k || all in
      Some (DS true str (if str && negb (is_prog k) then emitted st + h else emitted st))
    else if streaming st && negb (is_prog k) then None
    else Some st
  end.

(* the scans of a file, then the end of the image: rows written, and whether the file was refused *)
Fixpoint run_frame (k : fkind) (h : Z) (scans : list bool) (st : dstate) : Z * bool :=
  match scans with
  | [] =>
    if negb (allocated st) then (emitted st, false)            (* "missing SOS marker" *)
    else if is_prog k || negb (streaming st) then (emitted st + h, true)
    else (emitted st, true)
  | a :: r =>
    match sos k h a st with
    | None => (emitted st, false)
    | Some st' => run_frame k h r st'
    end
  end.

Definition decode_frame (k : fkind) (h : Z) (scans : list bool) : Z * bool :=
  run_frame k h scans (DS false false 0).
