Require Extraction.
Require Import ExtrOcamlBasic.
From GoPdf.Base Require Import WireAnchor.
From GoPdf.Gen Require Import Gen_Limits Gen_C08dct.
From GoPdf.C08 Require Import Stream Simple LZW Predict Params Chain Classify Run Charge CCITT DCTFrames.
Separate Extraction wire_anchor ahx_dec a85_dec rl_dec lzw_dec unpredict run_chain decode_stream
  parse_flate parse_lzw parse_ccitt ccitt_geometry predict_params pp_validate dict_of_list
  get_filters read_all construct content_read as_malformed StreamBudget MaxXRefEntries
  plane_charge plane_alloc prog_site predict_site ccitt_site pool_run lzw_table_bytes run_sites
  main_table_ok run_table_ok ccitt_read row_len run_scans jbig2_workLimit decode_frame.
