(* The budget discipline: what was charged covers what is allocated. *)
From Coq Require Import List ZArith Bool Lia ZifyBool.
From GoPdf.Gen Require Import Gen_C08 Gen_C08dct.
From GoPdf.C08 Require Import Predict LZW Charge PredictProofs LZWProofs.
Import ListNotations.
Open Scope Z_scope.

Definition site_ok (s : site) : Prop := 0 <= s_alloc s <= s_charge s.

Lemma charge_spec avail n av : charge avail n = Some av -> 0 <= n /\ av = avail - n - 32 /\ 0 <= av.
Proof. unfold charge. destruct (n <? 0) eqn:E1; [discriminate|]. destruct (avail <? n + 32) eqn:E2; [discriminate|]. intro H; inversion H. lia. Qed.

(* whatever the sites are and however many: if each allocates no more than it
   charged, the bytes allocated never exceed the cell's limit *)
Theorem discipline : forall ss avail, Forall site_ok ss ->
  0 <= fst (run_sites avail ss) /\ (0 <= avail -> fst (run_sites avail ss) <= avail).
Proof.
  induction ss as [|s r IH]; intros avail H; cbn [run_sites].
  - cbn. lia.
  - inversion H as [|? ? Hs Hr]; subst. unfold site_ok in Hs.
    destruct (charge avail (s_charge s)) as [av|] eqn:E; [|cbn; lia].
    apply charge_spec in E as (E1 & E2 & E3).
    specialize (IH av Hr). destruct (run_sites av r) as [a ok]. cbn [fst] in *. lia.
Qed.

(* ---- the sites ---- *)

Lemma predict_site_ok p : pp_validate p = true -> p_pred p <> 1 -> site_ok (predict_site p) /\
  s_alloc (predict_site p) = s_charge (predict_site p).
Proof.
  intros H1 H2. destruct (validate_bounds p H1 H2).
  unfold site_ok, predict_site, predict_alloc, init_charge. cbn [s_alloc s_charge].
  destruct (is_png (p_pred p)); lia.
Qed.

Definition geom_ok (g : geom) : Prop :=
  (g_n g = 1 \/ g_n g = 3 \/ g_n g = 4) /\ 0 <= g_h0 g /\ 0 <= g_v0 g /\ 0 <= g_h1 g /\ 0 <= g_v1 g /\
  0 <= g_h3 g /\ 0 <= g_v3 g /\ 0 <= g_width g.

Lemma plane_site_ok g mxx smyy : geom_ok g -> 0 <= mxx -> 0 <= smyy ->
  plane_alloc g mxx smyy = plane_charge g mxx smyy /\ 0 <= plane_alloc g mxx smyy.
Proof.
  intros (Hn & H0 & H1 & H2 & H3 & H4 & H5 & H6) Hm Hs.
  unfold plane_alloc, plane_charge.
  assert (0 <= 8 * g_h0 g * mxx * 8 * g_v0 g * smyy) by (repeat apply Z.mul_nonneg_nonneg; lia).
  assert (0 <= 8 * g_h1 g * mxx * 8 * g_v1 g * smyy) by (repeat apply Z.mul_nonneg_nonneg; lia).
  assert (0 <= 8 * g_h3 g * mxx * 8 * g_v3 g * smyy) by (repeat apply Z.mul_nonneg_nonneg; lia).
  assert (0 <= g_width g * g_n g) by (apply Z.mul_nonneg_nonneg; lia).
  destruct Hn as [Hn | [Hn | Hn]]; rewrite Hn in *.
  - change (3 <=? 1) with false. change (1 =? 4) with false. change (1 =? 1) with true. cbv iota. split; [ring | lia].
  - change (3 <=? 3) with true. change (3 =? 4) with false. change (3 =? 1) with false. cbv iota. split; [ring | lia].
  - change (3 <=? 4) with true. change (4 =? 4) with true. change (4 =? 1) with false. cbv iota. split; [ring | lia].
Qed.

(* two components never reach makeImg (the SOF parser accepts 1, 3 or 4); if they did, the
   charge would not cover the chroma planes *)
Lemma plane_two_components_uncovered :
  exists g mxx smyy, g_n g = 2 /\ plane_charge g mxx smyy < plane_alloc g mxx smyy.
Proof. exists (Geom 2 1 1 1 1 1 1 8), 1, 1. split; [reflexivity | vm_compute; reflexivity]. Qed.

Lemma prog_site_ok mxx myy h v : 0 <= mxx -> 0 <= myy -> 0 <= h -> 0 <= v ->
  site_ok (prog_site mxx myy h v) /\ s_alloc (prog_site mxx myy h v) = s_charge (prog_site mxx myy h v).
Proof.
  intros. unfold site_ok, prog_site, prog_blocks, jpeg_bytesPerProgBlock, jpeg_blockSize. cbn [s_alloc s_charge].
  assert (0 <= mxx * myy * h * v) by (repeat apply Z.mul_nonneg_nonneg; lia). lia.
Qed.

Lemma ccitt_site_ok cols k : 0 < cols -> site_ok (ccitt_site cols k) /\
  s_alloc (ccitt_site cols k) = s_charge (ccitt_site cols k).
Proof.
  intro H. unfold site_ok, ccitt_site, ccitt_alloc, ccitt_charge. cbn [s_alloc s_charge].
  destruct (k =? 0); lia.
Qed.

(* ---- JBIG2 pool ---- *)

(* what has been taken from the cell since [p0] covers the peak, the peak covers the live bytes *)
Definition pool_inv (limit : Z) (p : pool) : Prop :=
  0 <= p_live p <= p_peak p /\ p_peak p <= limit - p_avail p /\ 0 <= p_avail p.

Lemma pool_step_inv limit p n p' : pool_inv limit p -> pool_step p n = Some p' -> pool_inv limit p'.
Proof.
  unfold pool_inv, pool_step. intros (H1 & H2 & H3) H.
  destruct (0 <=? n) eqn:E0.
  - destruct (p_peak p <? p_live p + n) eqn:E1.
    + destruct (charge (p_avail p) (p_live p + n - p_peak p)) as [av|] eqn:Ec; [|discriminate].
      apply charge_spec in Ec as (A & B & C). inversion H; subst p'. cbn [p_live p_peak p_avail]. lia.
    + inversion H; subst p'. cbn [p_live p_peak p_avail]. lia.
  - destruct (p_live p <? - n) eqn:E1; [discriminate|].
    inversion H; subst p'. cbn [p_live p_peak p_avail]. lia.
Qed.

Lemma pool_run_inv limit : forall ops p done, pool_inv limit p -> pool_inv limit (fst (pool_run p ops done)).
Proof.
  induction ops as [|n r IH]; intros p done H; cbn [pool_run]; [exact H|].
  destruct (pool_step p n) as [p'|] eqn:E; [|exact H].
  apply IH. eapply pool_step_inv; eauto.
Qed.

Theorem pool_live_within_limit limit ops :
  0 <= limit -> let p := fst (pool_run (Pool 0 0 limit) ops 0) in 0 <= p_live p <= limit.
Proof.
  intros H p. assert (Hi : pool_inv limit p).
  { apply pool_run_inv. unfold pool_inv. cbn. lia. }
  destruct Hi as (H1 & H2 & H3). lia.
Qed.

Lemma lzw_table_bytes_eq : lzw_table_bytes = 20480.
Proof. reflexivity. Qed.

(* ---- the progressive pass cap ---- *)

Definition pw_inv (st : pwork) : Prop := 0 <= w_visits st <= pass_cap st /\ 0 <= w_total st.

Lemma scan_fast_iter : forall n st, pw_inv st ->
  scan_iter n st = scan_fast (Z.of_nat n) st.
Proof.
  induction n as [|n IH]; intros st (Hv & Ht); unfold scan_fast.
  - cbn [scan_iter Z.of_nat]. rewrite Z.add_0_r. destruct (w_visits st <=? pass_cap st) eqn:E; [|lia].
    destruct st; reflexivity.
  - cbn [scan_iter]. unfold pass_cap in *. cbn [w_visits w_total].
    destruct (jpeg_maxProgPasses * w_total st <? w_visits st + 1) eqn:E1.
    + destruct (w_visits st + Z.of_nat (S n) <=? jpeg_maxProgPasses * w_total st) eqn:E2; [lia|].
      f_equal. f_equal. lia.
    + rewrite IH by (unfold pw_inv, pass_cap; cbn [w_visits w_total]; lia).
      unfold scan_fast, pass_cap. cbn [w_visits w_total].
      replace (w_visits st + 1 + Z.of_nat n) with (w_visits st + Z.of_nat (S n)) by lia.
      destruct (w_visits st + Z.of_nat (S n) <=? jpeg_maxProgPasses * w_total st) eqn:E2; [reflexivity|].
      f_equal. f_equal. lia.
Qed.

(* however many scans, of whatever kind: the blocks walked never exceed
   maxProgPasses x (blocks allocated) + 1 *)
Lemma scan_fast_bound n st : pw_inv st -> 0 <= n ->
  let '(st', ok) := scan_fast n st in
  w_total st' = w_total st /\ w_visits st <= w_visits st' <= pass_cap st' + 1 /\ (ok = true -> pw_inv st').
Proof.
  intros (Hv & Ht) Hn. unfold scan_fast, pw_inv, pass_cap in *.
  destruct (w_visits st + n <=? jpeg_maxProgPasses * w_total st) eqn:E; cbn [w_visits w_total]; repeat split; try lia; try discriminate.
Qed.

Theorem run_scans_bound : forall scans st, pw_inv st ->
  Forall (fun s => 0 <= fst s /\ 0 <= snd s) scans ->
  let '(st', ok) := run_scans scans st in
  w_total st <= w_total st' /\ 0 <= w_visits st' <= jpeg_maxProgPasses * w_total st' + 1.
Proof.
  induction scans as [|[fresh n] r IH]; intros st Hi Hs; cbn [run_scans].
  - destruct Hi as (Hv & Ht). unfold pass_cap in Hv. lia.
  - inversion Hs as [|? ? (Hf & Hn) Hr]; subst. cbn [fst snd] in *.
    set (st0 := PW (w_visits st) (w_total st + fresh)).
    assert (Hi0 : pw_inv st0).
    { destruct Hi as (Hv & Ht). unfold pw_inv, pass_cap, st0 in *. cbn [w_visits w_total]. unfold jpeg_maxProgPasses in *. nia. }
    pose proof (scan_fast_bound n st0 Hi0 Hn) as Hb.
    destruct (scan_fast n st0) as [st' ok]. destruct Hb as (H1 & H2 & H3).
    destruct ok.
    + specialize (IH st' (H3 eq_refl) Hr). destruct (run_scans r st') as [st'' ok'].
      unfold st0 in H1. cbn [w_total] in H1. lia.
    + unfold pass_cap, st0 in *. cbn [w_visits w_total] in *. destruct Hi as (Hv & Ht). lia.
Qed.

(* ---- JBIG2 work: the per-pixel loops that run never add up to more than the work limit ---- *)
Theorem work_discipline limit regions : 0 <= limit -> Forall (fun p => 0 <= p) regions ->
  0 <= fst (run_sites limit (map work_site regions)) <= limit.
Proof.
  intros Hl Hr. destruct (discipline (map work_site regions) limit) as [H1 H2].
  - apply Forall_forall. intros s Hs. apply in_map_iff in Hs as (p & <- & Hp).
    rewrite Forall_forall in Hr. specialize (Hr p Hp). unfold site_ok, work_site. cbn. lia.
  - split; [exact H1 | exact (H2 Hl)].
Qed.
