(* CCITT: the length of a decoded row and the row cap, for every event sequence. *)
From Coq Require Import List ZArith Bool Lia ZifyBool.
From GoPdf.Gen Require Import Gen_C08dct.
From GoPdf.C08 Require Import CCITT.
Import ListNotations.
Open Scope Z_scope.

(* bytes of one image row *)
Definition plain_bound (cols : Z) : Z := (cols + 7) / 8.

Lemma quot8_le b m : 0 <= m -> b + 7 <= m -> Z.quot (b + 7) 8 <= m / 8.
Proof.
  intros Hm Hb. destruct (Z_lt_le_dec (b + 7) 0) as [Hn|Hn].
  - assert (Z.quot (b + 7) 8 <= Z.quot 0 8) by (apply Z.quot_le_mono; lia).
    rewrite Z.quot_0_l in H by lia. assert (0 <= m / 8) by (apply Z.div_pos; lia). lia.
  - rewrite Z.quot_div_nonneg by lia. apply Z.div_le_mono; lia.
Qed.

Lemma fill_plain cols len a b : 0 <= cols -> len <= plain_bound cols -> b <= cols -> fill len a b <= plain_bound cols.
Proof.
  intros Hc Hl Hb. unfold fill, plain_bound in *. destruct (a <? b) eqn:E; [|exact Hl].
  apply Z.max_lub; [exact Hl | apply quot8_le; lia].
Qed.

Lemma fill_nonneg len a b : 0 <= len -> 0 <= fill len a b.
Proof. unfold fill. intro H. destruct (a <? b); lia. Qed.

Lemma row2d_bound cols : 0 <= cols -> forall evs a0 len,
  Forall (ev2_ok cols) evs -> a0 <= cols -> 0 <= len <= plain_bound cols ->
  0 <= row2d cols evs a0 len <= plain_bound cols.
Proof.
  intros Hc. induction evs as [|e r IH]; intros a0 len Hev Ha Hl; cbn [row2d].
  - destruct (cols <=? a0); exact Hl.
  - destruct (cols <=? a0) eqn:E0; [exact Hl|].
    inversion Hev as [|? ? He Hr]; subst.
    destruct e as [b2|r1 r2|b1 p|]; cbn [ev2_ok] in He.
    + apply IH; [exact Hr | lia |]. split; [apply fill_nonneg; lia | apply fill_plain; lia].
    + destruct He as [Hr1 Hr2].
      set (a := Z.max a0 0). set (r1' := Z.min r1 (cols - a)).
      assert (Ha1 : 0 <= a + r1' <= cols) by (subst a r1'; lia).
      set (r2' := Z.min r2 (cols - (a + r1'))).
      assert (Ha2 : 0 <= a + r1' + r2' <= cols) by (subst r2'; lia).
      apply IH; [exact Hr | lia |].
      split; [apply fill_nonneg, fill_nonneg; lia|].
      apply fill_plain; [lia | apply fill_plain; lia | lia].
    + apply IH; [exact Hr | lia |]. split; [apply fill_nonneg; lia | apply fill_plain; lia].
    + exact Hl.
Qed.

Lemma row1d_bound cols : 0 <= cols -> forall runs xpos len,
  xpos <= cols -> 0 <= len <= plain_bound cols -> 0 <= row1d cols runs xpos len <= plain_bound cols.
Proof.
  intros Hc. induction runs as [|r rest IH]; intros xpos len Hx Hl; cbn [row1d]; [exact Hl|].
  apply IH; [lia|]. split; [apply fill_nonneg; lia | apply fill_plain; lia].
Qed.

Definition rowev_ok (cols : Z) (r : rowev) : Prop :=
  match r with Row2 evs _ => Forall (ev2_ok cols) evs | Row1 _ _ => True end.

Lemma row_len_bound cols r : 0 <= cols -> rowev_ok cols r -> 0 <= row_len cols r <= plain_bound cols.
Proof.
  intros Hc H. assert (0 <= plain_bound cols) by (unfold plain_bound; apply Z.div_pos; lia).
  destruct r as [evs e|runs e]; cbn [row_len].
  - apply row2d_bound; [exact Hc | exact H | lia | lia].
  - apply row1d_bound; lia.
Qed.

Theorem ccitt_read_cap cols maxrows : 0 <= cols -> 1 <= maxrows -> forall rows numrows,
  Forall (rowev_ok cols) rows -> 0 <= numrows <= maxrows ->
  let '(t, n) := ccitt_read cols maxrows rows numrows in
  numrows <= n <= maxrows /\ 0 <= t <= (n - numrows) * plain_bound cols.
Proof.
  intros Hc Hm. induction rows as [|r rest IH]; intros numrows Hok Hn; cbn [ccitt_read].
  - lia.
  - inversion Hok as [|? ? Hr Hrest]; subst.
    destruct (negb (maxrows =? 0) && (maxrows <=? numrows)) eqn:E; [lia|].
    assert (Hlt : numrows < maxrows) by lia.
    pose proof (row_len_bound cols r Hc Hr) as Hl.
    destruct (row_len cols r <=? 0) eqn:E1; [lia|].
    destruct (row_err r); [lia|].
    specialize (IH (numrows + 1) Hrest). destruct (ccitt_read cols maxrows rest (numrows + 1)) as [t n].
    destruct IH as [H1 H2]; [lia|]. split; [lia|]. nia.
Qed.

(* the bound the filter documents: at most MaxRows rows of ceil(Columns/8) bytes *)
Theorem ccitt_documented_cap cols maxrows rows : 0 <= cols -> 1 <= maxrows ->
  Forall (rowev_ok cols) rows -> 0 <= fst (ccitt_read cols maxrows rows 0) <= maxrows * plain_bound cols.
Proof.
  intros Hc Hm Hok. pose proof (ccitt_read_cap cols maxrows Hc Hm rows 0 Hok) as H.
  destruct (ccitt_read cols maxrows rows 0) as [t n]. cbn [fst].
  destruct H as [H1 H2]; [lia|].
  assert (0 <= plain_bound cols) by (unfold plain_bound; apply Z.div_pos; lia). nia.
Qed.

(* before the repairs F41 and F46 a row could be one byte longer: a vertical-right code at the
   right margin, or a first horizontal run clipped to Columns + 1 pixels *)
Lemma row_before_repairs_too_long :
  (exists cols evs, Forall (ev2_ok cols) evs /\ plain_bound cols < row2d_before_F41_F46 cols evs (-1) 0) /\
  plain_bound 8 < row2d_before_F41_F46 8 [EVert 8 3] (-1) 0 /\
  plain_bound 8 < row2d_before_F41_F46 8 [EHoriz 63 0] (-1) 0.
Proof.
  split; [|split; vm_compute; reflexivity].
  exists 8, [EVert 8 3]. split; [|vm_compute; reflexivity].
  constructor; [cbn; lia | constructor].
Qed.

(* with the vertical-mode target clipped to Columns (the repair), and a first run of at most
   Columns pixels, the documented bound would hold: here for rows made of pass and vertical codes *)
Lemma main_table_vert t : main_table_ok t = true ->
  forall st w p, In (st, w, p) t -> (st = S_Vert -> -3 <= p <= 3) /\ (st <> S_EOL -> 1 <= w).
Proof.
  unfold main_table_ok. intros H st w p Hin. rewrite forallb_forall in H. specialize (H _ Hin).
  unfold entry_ok in H. apply andb_prop in H as [H1 H2]. split.
  - intros ->. rewrite Z.eqb_refl in H1. lia.
  - intro Hne. destruct (st =? S_EOL) eqn:E; [apply Z.eqb_eq in E; contradiction | lia].
Qed.
