(* ASCIIHexDecode, ASCII85Decode, RunLengthDecode: decoder-only models of
   internal/filter/{asciihex/read.go, ascii85/ascii85.go, runlength/reader.go}.
   Each is a byte-at-a-time state machine, structurally recursive on the input
   (one step per input byte: the time bound is the definition), tail recursive
   so that the extracted code runs on megabyte inputs.

   Reading convention: the consumer's buffer is larger than the decoded data
   (one Read loop), see the note at [rl_go]. *)
From Coq Require Import List NArith Bool.
From GoPdf.Base Require Import Bytes Res.
From GoPdf.C08 Require Import Stream.
Import ListNotations.
Open Scope N_scope.

(* ---- ASCIIHex ------------------------------------------------------- *)

Definition hexval (c : N) : option N :=
  if (48 <=? c) && (c <=? 57) then Some (c - 48)
  else if (65 <=? c) && (c <=? 70) then Some (c - 65 + 10)
  else if (97 <=? c) && (c <=? 102) then Some (c - 97 + 10)
  else None.

(* [high] = Some l when a high nibble is pending (readHigh, low) *)
Fixpoint ahx_go (inp : bytes) (t : tl) (high : option N) (acc : bytes) : dres :=
  match inp with
  | [] => finish acc (unexpected t)            (* EOF before '>' is ErrUnexpectedEOF *)
  | c :: r =>
    match hexval c with
    | Some b =>
      match high with
      | Some l => ahx_go r t None (((l * 16 + b) mod 256) :: acc)     (* low<<4 | b *)
      | None => ahx_go r t (Some b) acc
      end
    | None =>
      if is_space c then ahx_go r t high acc
      else if c =? 62 then                                            (* '>' *)
        match high with
        | Some l => finish (((l * 16) mod 256) :: acc) None
        | None => finish acc None
        end
      else finish acc (Some Malformed)                                (* invalid hex character *)
    end
  end.

Definition ahx_dec (inp : bytes) (t : tl) : dres := ahx_go inp t None [].

(* ---- ASCII85 -------------------------------------------------------- *)

(* uint32 truncation: x mod 2^32, written as a mask (N.land_ones) because it is much faster when extracted *)
Definition u32 (x : N) : N := N.land x 4294967295.

Definition be4 (v : N) : bytes :=
  [ (v / 16777216) mod 256; (v / 65536) mod 256; (v / 256) mod 256; v mod 256 ].

(* for i := k; i < 5; i++ { v = v*85 + 84 } *)
Fixpoint a85_pad (n : nat) (v : N) : N :=
  match n with O => v | S n' => a85_pad n' (u32 (v * 85 + 84)) end.

(* state: v (uint32), k (digits seen in this group), is_end ('~' seen) *)
Fixpoint a85_go (inp : bytes) (t : tl) (v k : N) (is_end : bool) (acc : bytes) : dres :=
  match inp with
  | [] => finish acc (unexpected t)            (* EOF before "~>" is ErrUnexpectedEOF *)
  | c :: r =>
    if is_end then
      if c =? 62 then finish acc None else finish acc (Some Malformed)
    else if (33 <=? c) && (c <? 118) then
      let v' := u32 (v * 85 + (c - 33)) in
      if k + 1 =? 5 then a85_go r t 0 0 false (rev_append (be4 v') acc)
      else a85_go r t v' (k + 1) false acc
    else if (k =? 0) && (c =? 122) then                               (* 'z' *)
      a85_go r t 0 0 false (rev_append (be4 0) acc)
    else if is_space c then a85_go r t v k false acc
    else if c =? 126 then                                             (* '~' *)
      if k =? 0 then a85_go r t v k true acc
      else if k =? 1 then finish acc (Some Malformed)
      else
        let v' := a85_pad (N.to_nat (5 - k)) v in
        a85_go r t v' 0 true (rev_append (firstn (N.to_nat (k - 1)) (be4 v')) acc)
    else finish acc (Some Malformed)
  end.

Definition a85_dec (inp : bytes) (t : tl) : dres := a85_go inp t 0 0 false [].

(* ---- RunLength ------------------------------------------------------ *)

(* Where the reader stands: at a length byte, inside a literal run ([rem]
   bytes to go; [got] = some byte of the run was already delivered), or at the
   value byte of a repeat run of [n] copies.

   Note on chunking.  rlReader.Read copies a literal run with
   io.ReadFull(p[:min(count, len(p))]).  io.ReadFull answers io.EOF (a clean
   end) when it obtains no byte at all and io.ErrUnexpectedEOF when it obtains
   some.  With one Read loop over a buffer larger than the data, "no byte at
   all" means "no byte of this run": that is what [got] records.  If the
   consumer's buffer boundary falls inside a truncated literal run, the real
   reader may report a clean end where this model reports Malformed; both are
   permitted outcomes for C08.  The harness reads modelled RunLength stages
   with a large buffer. *)
Inductive rlmode := RLen | RLit (rem : N) (got : bool) | RRep (n : N).

Fixpoint rl_go (inp : bytes) (t : tl) (m : rlmode) (acc : bytes) : dres :=
  match inp with
  | [] =>
    match m with
    | RLen => finish acc t                                   (* EOF at a length byte: clean *)
    | RLit _ got => finish acc (if got then unexpected t else t)
    | RRep _ => finish acc t                                 (* ReadByte error returned as is *)
    end
  | c :: r =>
    match m with
    | RLen =>
      if c =? 128 then finish acc None
      else if c <? 128 then rl_go r t (RLit (c + 1) false) acc
      else rl_go r t (RRep (257 - c)) acc
    | RLit rem _ =>
      if rem <=? 1 then rl_go r t RLen (c :: acc)
      else rl_go r t (RLit (rem - 1) true) (c :: acc)
    | RRep n => rl_go r t RLen (rev_append (repeat c (N.to_nat n)) acc)
    end
  end.

Definition rl_dec (inp : bytes) (t : tl) : dres := rl_go inp t RLen [].
