(* GetFilters (container.go) and the error classification wrappers
   asMalformedFilter / filterContentReader (filter.go), sourceErrChecker /
   sourceAwareReader (container.go). *)
From Coq Require Import List NArith ZArith Bool.
From GoPdf.Base Require Import Res.
From GoPdf.Gen Require Import Gen_C08.
Import ListNotations.

(* ---- the filter chain ---- *)

(* the eleven names the harness uses; any other name behaves like FUnknown *)
Inductive fname :=
| FA85 | FAHx | FRL | FFlate | FLZW | FCCITT | FDCT | FJBIG2 | FJPX | FCrypt | FUnknown.

(* an element of the /Filter array after resolution *)
Inductive fent := EName (n : fname) | ENotName.

(* an element of /DecodeParms after resolution; for a dictionary only what
   MakeFilter can fail on is kept: whether /Name is present with a non-Name type *)
Inductive pent := PNull | PDict (crypt_name_bad : bool) | PNotDict.

Inductive ffield := FNone | FOne (n : fname) | FArr (l : list fent) | FBad.
Inductive pfield := PfNone | PfDict (crypt_name_bad : bool) | PfArr (l : list pent) | PfBad.

(* MakeFilter fails only for Crypt with a wrongly typed /Name *)
Definition make_filter (n : fname) (crypt_name_bad : bool) : res fname :=
  match n with
  | FCrypt => if crypt_name_bad then Err Malformed else Ok FCrypt
  | _ => Ok n
  end.

Fixpoint gf_entries (fs : list fent) (ps : list pent) : res (list fname) :=
  match fs with
  | [] => Ok []
  | f :: fs' =>
    match f with
    | ENotName => Err Malformed                               (* "wrong type, expected Name" *)
    | EName n =>
      let p := match ps with [] => PNull | p :: _ => p end in
      match p with
      | PNotDict => Err Malformed                             (* "wrong type, expected Dict" *)
      | _ =>
        match make_filter n (match p with PDict b => b | _ => false end) with
        | Err e => Err e
        | Ok x =>
          match gf_entries fs' (List.tl ps) with
          | Err e => Err e
          | Ok r => Ok (x :: r)
          end
        end
      end
    end
  end.

(* a Crypt filter anywhere but at index 0 *)
Definition crypt_misplaced (l : list fname) : bool :=
  existsb (fun n => match n with FCrypt => true | _ => false end) (List.tl l).

Definition one (r : res fname) : res (list fname) :=
  match r with Ok x => Ok [x] | Err e => Err e end.

Definition get_filters (f : ffield) (p : pfield) : res (list fname) :=
  let r :=
    match f with
    | FNone => Ok []
    | FOne n =>
      match p with
      | PfNone => one (make_filter n false)
      | PfDict b => one (make_filter n b)
      | _ => Err Malformed                                    (* "wrong type, expected Dict" *)
      end
    | FArr l =>
      if (Z.to_nat maxFilterChainLength <? length l)%nat then Err Malformed
      else
        match p with
        | PfArr ps => gf_entries l ps
        | PfNone => gf_entries l []
        | _ => Err Malformed                                  (* "invalid /DecodeParms field" *)
        end
    | FBad => Err Malformed                                   (* Error("invalid /Filter field") *)
    end in
  match r with
  | Err e => Err e
  | Ok l => if crypt_misplaced l then Err Malformed else Ok l
  end.
