(* Totality and output bound of the un-predict model; what Validate guarantees. *)
From Coq Require Import List NArith ZArith Bool Lia ZifyN ZifyNat ZifyBool.
From GoPdf.Base Require Import Bytes Res.
From GoPdf.Gen Require Import Gen_C08.
From GoPdf.C08 Require Import Stream Predict SimpleProofs.
Import ListNotations.

Open Scope Z_scope.

Lemma bpc_ok_cases b : bpc_ok b = true -> b = 1 \/ b = 2 \/ b = 4 \/ b = 8 \/ b = 16.
Proof. unfold bpc_ok. lia. Qed.

(* what a parameter set accepted by Params.Validate satisfies (predictor other than 1) *)
Record validated (p : pparams) : Prop := {
  v_pred : p_pred p = 2 \/ 10 <= p_pred p <= 15;
  v_colors : 1 <= p_colors p <= 256;
  v_tiff : p_pred p = 2 -> p_colors p <= 60;
  v_bpc : p_bpc p = 1 \/ p_bpc p = 2 \/ p_bpc p = 4 \/ p_bpc p = 8 \/ p_bpc p = 16;
  v_cols : 1 <= p_cols p <= 65536;
  v_row : 1 <= bytes_per_row p <= 4194304;
  v_bpp : 1 <= bytes_per_pixel p <= 512;
  v_charge : 0 <= init_charge p <= 3 * 4194304 + 513
}.

Lemma validate_bounds p : pp_validate p = true -> p_pred p <> 1 -> validated p.
Proof.
  unfold pp_validate. intros H Hp.
  destruct (p_pred p =? 1) eqn:E; [lia|].
  apply andb_prop in H as [H H5]. apply andb_prop in H as [H H4]. apply andb_prop in H as [H H3].
  apply andb_prop in H as [H1 H2]. apply bpc_ok_cases in H2.
  unfold MaxImageWidth in H4. unfold predict_maxBytesPerRow in H5.
  assert (Hc : (p_pred p = 2 /\ 1 <= p_colors p <= 60) \/ (10 <= p_pred p <= 15 /\ 1 <= p_colors p <= 256)).
  { destruct (p_pred p =? 2) eqn:E2; [left; lia|]. unfold is_png in H1.
    destruct ((10 <=? p_pred p) && (p_pred p <=? 15)) eqn:E3; [right; lia | discriminate]. }
  assert (Hrow : 1 <= bytes_per_row p <= 4194304).
  { unfold bytes_per_row, bits_per_row, bits_per_pixel.
    assert (1 <= p_colors p * p_bpc p * p_cols p) by nia. lia. }
  assert (Hbpp : 1 <= bytes_per_pixel p <= 512).
  { unfold bytes_per_pixel, bits_per_pixel. destruct H2 as [->|[->|[->|[->| ->]]]]; lia. }
  constructor; try lia.
  unfold init_charge. destruct (is_png (p_pred p)); lia.
Qed.

Open Scope N_scope.

(* ---- rows ---- *)

Lemma png_row_length alg bpp : forall row up ul i cur,
  length (png_row alg bpp row up ul i cur) = (length row + length cur)%nat.
Proof.
  induction row as [|x r IH]; intros up ul i cur; cbn [png_row length]; [lia|].
  rewrite IH. cbn [length]. lia.
Qed.

Lemma png_decode_row_length bpp prev enc : (length (png_decode_row bpp prev enc) <= length enc)%nat.
Proof.
  unfold png_decode_row. destruct enc as [|alg row]; cbn [length]; [lia|].
  rewrite frev_length, png_row_length. cbn [length]. lia.
Qed.

Lemma tiff_decode_row_length colors cols bpc enc :
  (length (tiff_decode_row colors cols bpc enc) <= length enc)%nat.
Proof. unfold tiff_decode_row. rewrite firstn_length. lia. Qed.

Lemma take_spec : forall l n acc,
  match take l n acc with
  | TFull row rest => (length l = N.to_nat n + length rest)%nat /\ (length row = length acc + N.to_nat n)%nat
  | TShort got => True
  end.
Proof.
  induction l as [|x r IH]; intros n acc; cbn [take].
  - destruct (n =? 0) eqn:E; [|exact I]. rewrite frev_length. cbn [length]. lia.
  - destruct (n =? 0) eqn:E. { rewrite frev_length. cbn [length]. lia. }
    specialize (IH (n - 1) (x :: acc)). destruct (take r (n - 1) (x :: acc)); [|exact I].
    cbn [length] in *. lia.
Qed.

Lemma up_loop_total need dec : 1 <= need ->
  (forall prev row, (length (dec prev row) <= length row)%nat) ->
  forall fuel inp t prev acc, (length inp < fuel)%nat ->
  good_status t (snd (up_loop fuel need dec inp t prev acc)) /\
  (length (fst (up_loop fuel need dec inp t prev acc)) <= length acc + length inp)%nat.
Proof.
  intros Hn Hdec. induction fuel as [|fuel IH]; intros inp t prev acc Hf; [lia|].
  cbn [up_loop]. pose proof (take_spec inp need []) as Ht.
  destruct (take inp need []) as [row rest | got].
  - destruct Ht as [H1 H2]. cbn [length] in H2.
    destruct (IH rest t (dec prev row) (rev_append (dec prev row) acc)) as [G1 G2]; [lia|].
    split; [exact G1|]. rewrite rev_append_length in G2. specialize (Hdec prev row). lia.
  - destruct got; rewrite finish_snd, finish_len; split; auto with c08; lia.
Qed.

Open Scope Z_scope.

Theorem unpredict_total avail p inp t :
  good_status t (snd (unpredict avail p inp t)) /\
  (length (fst (unpredict avail p inp t)) <= length inp)%nat.
Proof.
  unfold unpredict.
  destruct (pp_validate p) eqn:Ev; cbn [negb]; [| cbn; split; [auto with c08 | lia]].
  destruct (p_pred p =? 1) eqn:E1. { cbn [fst snd]. split; [auto with c08 | lia]. }
  assert (Hv : validated p) by (apply validate_bounds; [exact Ev | lia]). destruct Hv.
  destruct (charge avail (init_charge p)); [| cbn; split; [auto with c08 | lia]].
  destruct (bytes_per_row p <? 0) eqn:E2; [lia|].
  assert (Hneed : (1 <= Z.to_N (row_need p))%N).
  { unfold row_need. destruct (is_png (p_pred p)); lia. }
  destruct (is_png (p_pred p)) eqn:E3.
  - destruct (bytes_per_pixel p + bytes_per_row p <? 0) eqn:E4; [lia|].
    apply (up_loop_total _ _ Hneed); [intros; apply png_decode_row_length | lia].
  - destruct (p_colors p <? 0) eqn:E4; [lia|].
    destruct (p_colors p =? 0) eqn:E5; [lia|].
    apply (up_loop_total _ _ Hneed); [intros; apply tiff_decode_row_length | lia].
Qed.

(* the working memory the predictor charges is bounded whatever the parameters *)
Theorem unpredict_charge_bounded p : pp_validate p = true -> p_pred p <> 1 ->
  0 <= init_charge p <= 12583425.
Proof. intros H1 H2. destruct (validate_bounds p H1 H2). lia. Qed.
