(* Entry points of the extracted model: one decoder stage and filter chains
   over the modelled decoders, with the budget DecodeStream derives from the
   raw length (translated limits.StreamBudget). *)
From Coq Require Import List NArith ZArith Bool.
From GoPdf.Base Require Import Bytes Res.
From GoPdf.Gen Require Import Gen_Limits.
From GoPdf.C08 Require Import Stream Simple LZW Predict Params Charge.
Import ListNotations.

Inductive stage :=
| SAHx | SA85 | SRL
| SLZW (d : pdict)          (* LZWDecode with this /DecodeParms dictionary *)
| SIdent.                   (* Crypt /Identity: the bytes pass unchanged *)

(* FilterLZW.Decode = decodeFlateLZW: LZW, then the predictor of the parsed parameters *)
Definition lzw_stage (avail : Z) (d : pdict) (inp : bytes) (t : tl) : dres :=
  let '(f, early) := parse_lzw d in
  let '(mid, t') := lzw_dec early inp t in
  unpredict avail (predict_params f) mid t'.

Definition run_stage (avail : Z) (s : stage) (inp : bytes) (t : tl) : dres :=
  match s with
  | SAHx => ahx_dec inp t
  | SA85 => a85_dec inp t
  | SRL => rl_dec inp t
  | SLZW d => lzw_stage avail d inp t
  | SIdent => (inp, t)
  end.

(* The budget is shared along the chain, but of the modelled stages only a
   predictor charges it (once, at most 12 MiB + 577); every stage is given the
   full amount.  This is exact for chains with at most one predictor stage and
   for chains whose predictor rows are small; the harness compares only those. *)
Fixpoint run_chain (avail : Z) (ss : list stage) (inp : bytes) (t : tl) : dres :=
  match ss with
  | [] => (inp, t)
  | s :: r =>
    let '(o, t') := run_stage avail s inp t in
    run_chain avail r o t'
  end.

(* DecodeStream on a stream of these raw bytes *)
Definition decode_stream (ss : list stage) (raw : bytes) : dres :=
  run_chain (StreamBudget (Z.of_nat (length raw))) ss raw None.

(* the allocation sites of a chain that charge the shared budget cell (of the modelled
   stages only LZW with a predictor has one), and the fixed tables that do not *)
Definition stage_sites (s : stage) : list Charge.site :=
  match s with
  | SLZW d =>
    let p := predict_params (fst (parse_lzw d)) in
    if pp_validate p && negb (p_pred p =? 1)%Z then [Charge.predict_site p] else []
  | _ => []
  end.

Definition stage_fixed (s : stage) : Z :=
  match s with SLZW _ => Charge.lzw_table_bytes | _ => 0%Z end.

Definition chain_sites (ss : list stage) : list Charge.site := flat_map stage_sites ss.
Definition chain_fixed (ss : list stage) : Z := fold_right (fun s a => (stage_fixed s + a)%Z) 0%Z ss.
