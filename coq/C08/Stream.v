(* C08 models: byte streams with a terminal status.

   A Go io.Reader seen by the next layer is a finite byte string followed by a
   terminal condition: clean end of data (io.EOF) or an error of some class.
   Every modelled decoder maps such a stream to such a stream, so that filter
   chains compose exactly (a decoder may stop at its own end-of-data marker
   before it ever sees the error of the layer below). *)
From Coq Require Import List NArith ZArith Bool.
From GoPdf.Base Require Import Bytes Res.
Import ListNotations.
Open Scope N_scope.

(* None = clean end of data (io.EOF); Some c = error of class c.
   Content errors raised by a decoder are written [Malformed]: that is their
   class once they leave the filter (asMalformedFilter / filterContentReader,
   see Classify.v).  [Panic] marks a Go run-time panic (index or slice out of
   range, division by zero, negative make) or a silent buffer overlap;
   [OutOfFuel] marks a loop that did not finish within the fuel given. *)
Definition tl := option cls.
Definition dres := (bytes * tl)%type.

(* what a decoder reports when the layer below ends: clean EOF inside encoded
   data is io.ErrUnexpectedEOF (a content error); an error below is passed on *)
Definition unexpected (t : tl) : tl :=
  match t with None => Some Malformed | Some e => Some e end.

(* linear-time reversal (List.rev is quadratic) *)
Definition frev {A} (l : list A) : list A := rev_append l [].

Definition finish (acc : bytes) (t : tl) : dres := (frev acc, t).

Definition is_space (c : N) : bool :=
  (c =? 0) || (c =? 9) || (c =? 10) || (c =? 12) || (c =? 13) || (c =? 32).

(* statuses a layer below may present *)
Definition src_status (t : tl) : Prop :=
  match t with
  | None | Some Malformed | Some (IO _) => True
  | _ => False
  end.

(* statuses a total decoder may end with, given the status below *)
Definition good_status (below t : tl) : Prop :=
  t = None \/ t = Some Malformed \/ t = below.
