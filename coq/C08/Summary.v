(* The statements of Prop_C08.v that are assembled from several lemmas. *)
From Coq Require Import List NArith ZArith Bool.
From GoPdf.Base Require Import Bytes Res.
From GoPdf.Gen Require Import Gen_C08 Gen_Limits.
From GoPdf.C08 Require Import Stream Simple LZW Predict Params Chain Classify Run
  SimpleProofs LZWProofs PredictProofs ParamsProofs ChainProofs ClassifyProofs BudgetProofs RunProofs
  Charge CCITT ChargeProofs CCITTProofs DCTFrames DCTFramesProofs.
From GoPdf.Gen Require Import Gen_C08dct.
Import ListNotations.

Lemma dec_total_lemma :
  (forall inp t, good_status t (snd (ahx_dec inp t))) /\
  (forall inp t, good_status t (snd (a85_dec inp t))) /\
  (forall inp t, good_status t (snd (rl_dec inp t))) /\
  (forall early inp t, good_status t (snd (lzw_dec early inp t))) /\
  (forall avail p inp t, good_status t (snd (unpredict avail p inp t))).
Proof.
  exact (conj (fun inp t => ahx_go_status inp t None [])
        (conj (fun inp t => a85_go_status inp t 0%N 0%N false [])
        (conj (fun inp t => rl_go_status inp t RLen [])
        (conj (fun e inp t => proj1 (lzw_dec_total e inp t))
              (fun avail p inp t => proj1 (unpredict_total avail p inp t)))))).
Qed.

Lemma out_bound_lemma :
  (forall e t, (length (fst (rl_dec e t)) <= 128 * length e)%nat) /\
  (forall e t, (2 * length (fst (ahx_dec e t)) <= length e)%nat) /\
  (forall e t, (length (fst (a85_dec e t)) <= 4 * length e)%nat) /\
  (forall early e t, (length (fst (lzw_dec early e t)) <= 4096 * length e)%nat) /\
  (forall avail p e t, (length (fst (unpredict avail p e t)) <= length e)%nat).
Proof.
  exact (conj (fun e t => rl_go_length e t RLen [] I)
        (conj (fun e t => eq_ind _ (fun n => (2 * length (fst (ahx_dec e t)) <= n)%nat)
                            (ahx_go_length e t None []) _ (PeanoNat.Nat.add_0_r (length e)))
        (conj (fun e t => a85_go_length e t 0%N 0%N false [])
        (conj (fun early e t => proj2 (lzw_dec_total early e t))
              (fun avail p e t => proj2 (unpredict_total avail p e t)))))).
Qed.

Lemma a85_out_bound_as_designed_refuted_lemma :
  exists e t, (length e < length (fst (a85_dec e t)))%nat.
Proof. exists [122; 126; 62]%N, None. vm_compute. auto. Qed.

Lemma parse_clamps_lemma :
  (forall d, flate_clamped (parse_flate d)) /\
  (forall d, flate_clamped (fst (parse_lzw d))) /\
  (forall d, ccitt_clamped (parse_ccitt d)).
Proof. exact (conj parse_flate_clamped (conj parse_lzw_clamped parse_ccitt_clamped)). Qed.

Lemma chain_cap_lemma :
  (forall l p, (8 < length l)%nat -> get_filters (FArr l) p = Err Malformed) /\
  (forall f p l, get_filters f p = Ok l ->
     (length l <= 8)%nat /\ forall i, (0 < i)%nat -> nth_error l i <> Some FCrypt) /\
  (forall ns p i, (0 < i)%nat -> nth_error ns i = Some FCrypt ->
     get_filters (FArr (map EName ns)) p = Err Malformed) /\
  (forall f p e, get_filters f p = Err e -> e = Malformed).
Proof.
  exact (conj chain_cap_reject
        (conj (fun f p l H => conj (proj1 (get_filters_ok f p l H)) (crypt_not_first_rejected f p l H))
        (conj crypt_misplaced_malformed get_filters_err))).
Qed.

Lemma classify_lemma :
  (forall cs e, read_all None cs = Some e ->
     (eof_ident e = true \/ is_mal e = true) \/ source_failed_with (map fst cs) e) /\
  (forall evs e x, construct evs e = Some x ->
     is_mal x = true \/ (In (Some x) evs /\ eof_ident x = false)).
Proof.
  split; [|exact construct_classified].
  intros cs e H. destruct (read_all_classified cs None e H) as [a | [b | c]].
  - left. exact a.
  - discriminate b.
  - right. exact c.
Qed.


Lemma dct_charge_covers_alloc_lemma :
  (forall g mxx smyy, geom_ok g -> (0 <= mxx)%Z -> (0 <= smyy)%Z ->
     (0 <= plane_alloc g mxx smyy <= plane_charge g mxx smyy)%Z /\
     plane_alloc g mxx smyy = plane_charge g mxx smyy) /\
  (forall mxx myy h v, (0 <= mxx)%Z -> (0 <= myy)%Z -> (0 <= h)%Z -> (0 <= v)%Z ->
     site_ok (prog_site mxx myy h v) /\ s_alloc (prog_site mxx myy h v) = s_charge (prog_site mxx myy h v)).
Proof.
  split.
  - intros g mxx smyy Hg Hm Hs. destruct (plane_site_ok g mxx smyy Hg Hm Hs) as [H1 H2].
    split; [|exact H1]. rewrite <- H1. split; [exact H2 | apply Z.le_refl].
  - exact prog_site_ok.
Qed.

Lemma charge_covers_alloc_lemma :
  (forall p, pp_validate p = true -> p_pred p <> 1%Z ->
     site_ok (predict_site p) /\ s_alloc (predict_site p) = s_charge (predict_site p)) /\
  (forall cols k, (0 < cols)%Z ->
     site_ok (ccitt_site cols k) /\ s_alloc (ccitt_site cols k) = s_charge (ccitt_site cols k)) /\
  (forall limit ops, (0 <= limit)%Z ->
     let p := fst (pool_run (Pool 0 0 limit) ops 0) in (0 <= p_live p <= limit)%Z) /\
  lzw_table_bytes = 20480%Z.
Proof. exact (conj predict_site_ok (conj ccitt_site_ok (conj pool_live_within_limit lzw_table_bytes_eq))). Qed.


Lemma dct_output_rows_lemma :
  forall k h scans, (0 <= h)%Z -> (0 <= fst (decode_frame k h scans) <= h)%Z.
Proof.
  intros k h scans Hh. unfold decode_frame. apply run_frame_rows; [exact Hh|].
  unfold ds_inv. cbn. repeat split; intros; try discriminate; reflexivity.
Qed.
