(* Arithmetic of the translated limits.StreamBudget and limits.MaxXRefEntries. *)
From Coq Require Import ZArith Lia ZifyBool.
From GoPdf.Gen Require Import Gen_Limits.
Open Scope Z_scope.

Definition int64 (x : Z) : Prop := - 2 ^ 63 <= x < 2 ^ 63.
Ltac pw := change (2 ^ 63) with 9223372036854775808 in *; change (2 ^ 58) with 288230376151711744 in *.

Lemma swrap_small x : int64 x -> swrap 64 x = x.
Proof.
  unfold swrap, int64. intro H.
  change (2 ^ (64 - 1)) with 9223372036854775808. change (2 ^ 64) with 18446744073709551616.
  change (2 ^ 63) with 9223372036854775808 in H.
  rewrite Z.mod_small; lia.
Qed.

(* the value the Go code computes, without any wrap-around *)
Definition budget_ideal (n : Z) : Z :=
  8388608 + Z.min (1024 * Z.max n 0) 268435456.

Lemma StreamBudget_ideal n : int64 n -> StreamBudget n = budget_ideal n.
Proof.
  intro H. unfold StreamBudget, budget_ideal, int64 in *. pw.
  change (Z.quot 268435456 1024) with 262144.
  destruct (n <? 0) eqn:E1.
  - change (262144 <? 0) with false. cbv iota.
    rewrite (swrap_small (1024 * 0)) by (unfold int64; pw; lia).
    rewrite swrap_small by (unfold int64; pw; lia). lia.
  - destruct (262144 <? n) eqn:E2.
    + rewrite swrap_small by (unfold int64; pw; lia). lia.
    + rewrite (swrap_small (1024 * n)) by (unfold int64; pw; lia).
      rewrite swrap_small by (unfold int64; pw; lia). lia.
Qed.

Lemma StreamBudget_props :
  (forall n, int64 n -> 8388608 <= StreamBudget n <= 8388608 + 268435456) /\
  (forall a b, int64 a -> int64 b -> a <= b -> StreamBudget a <= StreamBudget b) /\
  (forall n, int64 n -> StreamBudget n = budget_ideal n).
Proof.
  split; [|split].
  - intros n H. rewrite StreamBudget_ideal by exact H. unfold budget_ideal. lia.
  - intros a b Ha Hb Hab. rewrite !StreamBudget_ideal by assumption. unfold budget_ideal. lia.
  - exact StreamBudget_ideal.
Qed.

Definition xref_ideal (n : Z) : Z := 8192 + 32 * Z.max n 0.

Lemma MaxXRefEntries_ideal n : - 2 ^ 63 <= n < 2 ^ 58 - 256 -> MaxXRefEntries n = xref_ideal n.
Proof.
  intro H. unfold MaxXRefEntries, xref_ideal. pw.
  destruct (n <? 0) eqn:E1.
  - rewrite (swrap_small (32 * 0)) by (unfold int64; pw; lia).
    rewrite swrap_small by (unfold int64; pw; lia). lia.
  - rewrite (swrap_small (32 * n)) by (unfold int64; pw; lia).
    rewrite swrap_small by (unfold int64; pw; lia). lia.
Qed.

Lemma MaxXRefEntries_props :
  (forall n, - 2 ^ 63 <= n < 2 ^ 58 - 256 -> 8192 <= MaxXRefEntries n /\ MaxXRefEntries n = xref_ideal n) /\
  (forall a b, - 2 ^ 63 <= a -> a <= b -> b < 2 ^ 58 - 256 -> MaxXRefEntries a <= MaxXRefEntries b).
Proof.
  split.
  - intros n H. rewrite MaxXRefEntries_ideal by exact H. unfold xref_ideal. lia.
  - intros a b Ha Hab Hb. rewrite !MaxXRefEntries_ideal by (pw; lia). unfold xref_ideal. lia.
Qed.

Lemma MaxXRefEntries_overflows : exists n, int64 n /\ 0 <= n /\ MaxXRefEntries n < 0.
Proof. exists (2 ^ 58). split; [unfold int64; pw; lia|]. split; [pw; lia|]. vm_compute. reflexivity. Qed.

(* ---- JBIG2: the translated workLimit (pixel-decode operations allowed per input) ---- *)
From GoPdf.Gen Require Import Gen_C08dct.

Definition work_ideal (n : Z) : Z := Z.min (67108864 + 4096 * Z.max n 0) 536870912.

Lemma dswrap_small x : int64 x -> Gen_C08dct.swrap 64 x = x.
Proof. intro H. change (Gen_C08dct.swrap 64 x) with (Gen_Limits.swrap 64 x). apply swrap_small. exact H. Qed.

Lemma swrap_const : Gen_C08dct.swrap 64 (536870912 - 67108864) = 469762048.
Proof. reflexivity. Qed.

Lemma workLimit_ideal n : int64 n -> jbig2_workLimit n = work_ideal n.
Proof.
  intro H. unfold jbig2_workLimit, work_ideal, int64 in *. pw.
  rewrite swrap_const. change (Z.quot 469762048 4096) with 114688.
  destruct (n <? 0) eqn:E1.
  - change (114688 <? 0) with false. cbv iota.
    rewrite (dswrap_small (4096 * 0)) by (unfold int64; pw; lia).
    rewrite dswrap_small by (unfold int64; pw; lia). lia.
  - destruct (114688 <? n) eqn:E2; [lia|].
    rewrite (dswrap_small (4096 * n)) by (unfold int64; pw; lia).
    rewrite dswrap_small by (unfold int64; pw; lia). lia.
Qed.

Lemma workLimit_props :
  (forall n, int64 n -> 67108864 <= jbig2_workLimit n <= 536870912 /\
                        jbig2_workLimit n <= 67108864 + 4096 * Z.max n 0) /\
  (forall a b, int64 a -> int64 b -> a <= b -> jbig2_workLimit a <= jbig2_workLimit b).
Proof.
  split.
  - intros n H. rewrite workLimit_ideal by exact H. unfold work_ideal. lia.
  - intros a b Ha Hb Hab. rewrite !workLimit_ideal by assumption. unfold work_ideal. lia.
Qed.
