(* Clamped ranges of the parsed parameters, for every dictionary. *)
From Coq Require Import List ZArith Bool Lia ZifyBool.
From GoPdf.Gen Require Import Gen_C08.
From GoPdf.C08 Require Import Predict Params PredictProofs.
Import ListNotations.
Open Scope Z_scope.

Ltac mx := change max_dim with 1048576 in *; change max_int with 9223372036854775807 in *;
           change (2 ^ 63 - 1) with 9223372036854775807 in *; change (2 ^ 20) with 1048576 in *.

Lemma isValid_cases v : FlatePredictor_isValid v = true ->
  v = 0 \/ v = 1 \/ v = 2 \/ v = 10 \/ v = 11 \/ v = 12 \/ v = 13 \/ v = 14 \/ v = 15.
Proof. unfold FlatePredictor_isValid. intro H. destruct (_ || _) eqn:E in H; [lia | discriminate]. Qed.

Definition flate_clamped (f : flate) : Prop :=
  (f_pred f = 1 \/ f_pred f = 2 \/ 10 <= f_pred f <= 15) /\
  (f_pred f = 1 -> f_colors f = 0 /\ f_bpc f = 0 /\ f_cols f = 0) /\
  (f_pred f <> 1 ->
     1 <= f_colors f <= max_int /\
     (f_bpc f = 1 \/ f_bpc f = 2 \/ f_bpc f = 4 \/ f_bpc f = 8 \/ f_bpc f = 16) /\
     1 <= f_cols f <= max_dim).

Lemma parse_flate_clamped d : flate_clamped (parse_flate d).
Proof.
  unfold parse_flate, flate_clamped, FlatePredictorNone. mx.
  set (pred := match d KPredictor with
               | PInt v => if FlatePredictor_isValid v && negb (v =? 0) then v else 1
               | _ => 1 end).
  assert (Hp : pred = 1 \/ pred = 2 \/ 10 <= pred <= 15).
  { subst pred. destruct (d KPredictor) as [v| |]; try lia.
    destruct (FlatePredictor_isValid v) eqn:E; cbn [andb]; [|lia].
    apply isValid_cases in E. destruct (v =? 0) eqn:E0; cbn [negb]; lia. }
  destruct (pred =? 1) eqn:E1; cbn [f_pred f_colors f_bpc f_cols].
  - repeat split; lia.
  - split; [exact Hp|]. split; [lia|]. intros _.
    repeat split.
    + destruct (d KColors) as [v| |]; try lia. destruct ((1 <=? v) && (v <=? 9223372036854775807)) eqn:E; lia.
    + destruct (d KColors) as [v| |]; try lia. destruct ((1 <=? v) && (v <=? 9223372036854775807)) eqn:E; lia.
    + destruct (d KBitsPerComponent) as [v| |]; try lia.
      destruct ((v =? 1) || (v =? 2) || (v =? 4) || (v =? 8) || (v =? 16)) eqn:E; lia.
    + destruct (d KColumns) as [v| |]; try lia. destruct ((1 <=? v) && (v <=? 1048576)) eqn:E; lia.
    + destruct (d KColumns) as [v| |]; try lia. destruct ((1 <=? v) && (v <=? 1048576)) eqn:E; lia.
Qed.

Lemma parse_lzw_clamped d : flate_clamped (fst (parse_lzw d)).
Proof. apply parse_flate_clamped. Qed.

Definition ccitt_clamped (c : ccitt) : Prop :=
  -1 <= c_k c <= max_int /\ 1 <= c_cols c <= max_dim /\ 0 <= c_rows c <= max_dim /\
  0 <= c_damaged c <= max_dim.

Lemma get_dim_range d k dflt : 0 <= dflt <= max_dim -> 0 <= get_dim d k dflt <= max_dim /\
  (1 <= dflt -> 1 <= get_dim d k dflt).
Proof.
  unfold get_dim. mx. intro H. destruct (d k) as [v| |]; try lia.
  destruct ((0 <? v) && (v <=? 1048576)) eqn:E; lia.
Qed.

Lemma parse_ccitt_clamped d : ccitt_clamped (parse_ccitt d).
Proof.
  unfold parse_ccitt, ccitt_clamped. cbn [c_k c_cols c_rows c_damaged].
  pose proof (get_dim_range d KColumns 1728) as H1.
  pose proof (get_dim_range d KRows 0) as H2.
  pose proof (get_dim_range d KDamagedRowsBeforeError 0) as H3.
  mx.
  repeat split; try lia.
  - destruct (d KK) as [v| |]; try lia. destruct (v <? 0) eqn:E; [lia|]. destruct (9223372036854775807 <? v) eqn:E2; lia.
  - destruct (d KK) as [v| |]; try lia. destruct (v <? 0) eqn:E; [lia|]. destruct (9223372036854775807 <? v) eqn:E2; lia.
Qed.

(* the rows handed to the CCITT reader bound the decoded size:
   at most 16 MiB + 64 KiB whatever the dictionary says *)
Lemma ccitt_geometry_cap d :
  let '(cols, rows) := ccitt_geometry (parse_ccitt d) in
  1 <= cols <= max_dim /\ 1 <= rows <= MaxImageHeight /\
  (rows * cols <= MaxImagePixels) /\
  rows * ((cols + 7) / 8) <= 16777216 + 65536.
Proof.
  pose proof (parse_ccitt_clamped d) as (Hk & Hc & Hr & Hd).
  unfold ccitt_geometry. set (c := parse_ccitt d) in *.
  unfold MaxImageHeight, MaxImagePixels in *. mx.
  destruct (c_cols c =? 0) eqn:E0. { exfalso. apply Z.eqb_eq in E0. lia. }
  rewrite (Z.max_l (c_cols c) 1) by lia.
  set (cols := c_cols c) in *.
  assert (Hq : Z.quot 134217728 cols = 134217728 / cols) by (apply Z.quot_div_nonneg; lia).
  rewrite Hq.
  assert (Hdiv : 128 <= 134217728 / cols) by (apply Z.div_le_lower_bound; lia).
  assert (Hmul : cols * (134217728 / cols) <= 134217728) by (apply Z.mul_div_le; lia).
  set (q := 134217728 / cols) in *.
  set (geo := Z.max 1 (Z.min 65536 q)).
  assert (Hgeo : 1 <= geo <= 65536 /\ geo <= q) by (subst geo; lia).
  assert (Hrows : forall rows, 1 <= rows <= geo ->
            1 <= cols <= 1048576 /\ 1 <= rows <= 65536 /\ rows * cols <= 134217728 /\
            rows * ((cols + 7) / 8) <= 16777216 + 65536).
  { intros rows Hrw. assert (rows * cols <= 134217728) by nia.
    assert ((cols + 7) / 8 * 8 <= cols + 7) by (pose proof (Z.mul_div_le (cols + 7) 8); lia).
    repeat split; try lia; nia. }
  destruct ((0 <? c_rows c) && (c_rows c <? geo)) eqn:E; apply Hrows; lia.
Qed.

(* parsed Flate/LZW parameters that pass Validate give bounded rows and a bounded charge *)
Lemma parsed_predictor_bounded d :
  let p := predict_params (parse_flate d) in
  pp_validate p = true -> p_pred p <> 1 ->
  1 <= bytes_per_row p <= predict_maxBytesPerRow /\ 0 <= init_charge p <= 12583425.
Proof.
  intros p H1 H2. destruct (validate_bounds p H1 H2). unfold predict_maxBytesPerRow. lia.
Qed.
