(* The membudget discipline as the decoders use it: one budget cell per
   DecodeStream, shared by all stages; every allocation site charges the cell
   BEFORE it allocates and gives up when the charge fails.  For each site the
   amount charged (the Go expression handed to Charge) and the bytes allocated
   (the lengths handed to make at that site) are stated side by side.

     predictor   predict/read.go initBuffers        (charge: Predict.init_charge)
     DCT planes  dct/jpeg/scan.go pixelPlaneBytes -> makeImg
     DCT blocks  dct/jpeg/scan.go processSOS (progressive coefficient blocks)
     CCITT       ccittfax.BufferBytes (charged by FilterCCITTFax.Decode) -> NewReaderRaw
     JBIG2       jbig2/decode.go bitmapPool (peak of live bytes is charged)
     LZW         no charge: the reader's tables are fixed-size arrays

   Integers are unbounded: the callers bound every operand first (Validate,
   the SOF checks, maxColumns, checkBitmapSize). *)
From Coq Require Import List ZArith Bool.
From GoPdf.Gen Require Import Gen_C08 Gen_C08dct.
From GoPdf.C08 Require Import Predict LZW.
Import ListNotations.
Open Scope Z_scope.

(* ---- the cell ---- *)

Record site := Site { s_charge : Z; s_alloc : Z }.   (* Charge(s_charge), then make(... s_alloc bytes ...) *)

(* run the sites in order against [avail] bytes; stops at the first failed charge.
   Result: bytes allocated, and whether every site was reached *)
Fixpoint run_sites (avail : Z) (ss : list site) : Z * bool :=
  match ss with
  | [] => (0, true)
  | s :: r =>
    match charge avail (s_charge s) with
    | None => (0, false)
    | Some av => let '(a, ok) := run_sites av r in (s_alloc s + a, ok)
    end
  end.

(* ---- predictor ---- *)

(* make([]byte, rowBytes), make([]byte, prevRowLen), make([]byte, inputBufLen)   (PNG)
   make([]byte, rowBytes), make([]uint32, Colors), make([]byte, rowBytes)        (TIFF) *)
Definition predict_alloc (p : pparams) : Z :=
  let rb := bytes_per_row p in
  if is_png (p_pred p) then rb + (bytes_per_pixel p + rb) + (rb + 1)
  else rb + 4 * p_colors p + rb.

Definition predict_site (p : pparams) : site := Site (init_charge p) (predict_alloc p).

(* ---- DCT ---- *)

(* what pixelPlaneBytes and makeImg read of the decoder: nComp, the sampling
   factors of components 0, 1 and 3, the image width *)
Record geom := Geom { g_n : Z; g_h0 : Z; g_v0 : Z; g_h1 : Z; g_v1 : Z; g_h3 : Z; g_v3 : Z; g_width : Z }.

(* decoder.pixelPlaneBytes(mxx, storeMyy) *)
Definition plane_charge (g : geom) (mxx smyy : Z) : Z :=
  let cost := (8 * g_h0 g * mxx) * (8 * g_v0 g * smyy) in
  let cost := if 3 <=? g_n g then cost + 2 * (8 * g_h1 g * mxx) * (8 * g_v1 g * smyy) else cost in
  let cost := if g_n g =? 4 then cost + (8 * g_h3 g * mxx) * (8 * g_v3 g * smyy) else cost in
  if 3 <=? g_n g then cost + g_width g * g_n g else cost.

(* the make sites of decoder.makeImg: y; then, unless nComp == 1: cb, cr,
   blackPix (nComp == 4), row *)
Definition plane_alloc (g : geom) (mxx smyy : Z) : Z :=
  let y := (8 * g_h0 g * mxx) * 8 * g_v0 g * smyy in
  if g_n g =? 1 then y
  else
    let c := (8 * g_h1 g * mxx) * 8 * g_v1 g * smyy in
    let k := if g_n g =? 4 then (8 * g_h3 g * mxx) * 8 * g_v3 g * smyy else 0 in
    y + c + c + k + g_width g * g_n g.

Definition plane_site (g : geom) (mxx smyy : Z) : site := Site (plane_charge g mxx smyy) (plane_alloc g mxx smyy).

(* processSOS, progressive: Charge(nBlocks * bytesPerProgBlock); make([]block, nBlocks)
   with block = [blockSize]int32 *)
Definition prog_blocks (mxx myy h v : Z) : Z := mxx * myy * h * v.
Definition prog_site (mxx myy h v : Z) : site :=
  Site (prog_blocks mxx myy h v * jpeg_bytesPerProgBlock) (prog_blocks mxx myy h v * (jpeg_blockSize * 4)).

(* ---- CCITT ---- *)

(* ccittfax.BufferBytes for Columns > 0 *)
Definition ccitt_charge (cols k : Z) : Z :=
  let lb := Z.quot (cols + 7) 8 in
  if k =? 0 then lb else 2 * lb + cols * 8.

(* NewReaderRaw: line (capacity lineBufSize), refLine (K != 0); decode2D's
   changing-element index holds at most one int per column *)
Definition ccitt_alloc (cols k : Z) : Z :=
  let lb := Z.quot (cols + 7) 8 in
  if k =? 0 then lb else lb + lb + 8 * cols.

Definition ccitt_site (cols k : Z) : site := Site (ccitt_charge cols k) (ccitt_alloc cols k).

(* ---- JBIG2: bitmapPool ---- *)

(* live bytes, their peak, and what has been taken from the cell *)
Record pool := Pool { p_live : Z; p_peak : Z; p_avail : Z }.

(* operation n >= 0: bitmapPool.charge(n); n < 0: bitmapPool.release(-n) (panics when -n > live) *)
Definition pool_step (p : pool) (n : Z) : option pool :=
  if 0 <=? n then
    let live := p_live p + n in
    if p_peak p <? live then
      match charge (p_avail p) (live - p_peak p) with
      | None => None
      | Some av => Some (Pool live live av)
      end
    else Some (Pool live (p_peak p) (p_avail p))
  else if p_live p <? - n then None
  else Some (Pool (p_live p + n) (p_peak p) (p_avail p)).

(* run a trace; returns the last good state and the number of operations done *)
Fixpoint pool_run (p : pool) (ops : list Z) (done : Z) : pool * Z :=
  match ops with
  | [] => (p, done)
  | n :: r => match pool_step p n with None => (p, done) | Some p' => pool_run p' r (done + 1) end
  end.

(* ---- LZW: no charge, fixed tables ---- *)

(* suffix [1<<maxWidth]uint8, prefix [1<<maxWidth]uint16, output [2<<maxWidth]byte *)
Definition lzw_table_bytes : Z := Z.of_N tabLen + 2 * Z.of_N tabLen + Z.of_N outLen.

(* ---- DCT, progressive: the cap on passes over the coefficient buffer ---- *)

(* processSOS, progressive: every block iteration - coded, skipped by an EOB run, first pass
   or refinement - does  progVisits++; if progVisits > maxProgPasses*totalProgBlocks: error.
   totalProgBlocks is the number of coefficient blocks allocated (and charged) so far. *)
Record pwork := PW { w_visits : Z; w_total : Z }.

Definition pass_cap (st : pwork) : Z := jpeg_maxProgPasses * w_total st.

(* the loop over the blocks of one scan, block by block *)
Fixpoint scan_iter (n : nat) (st : pwork) : pwork * bool :=
  match n with
  | O => (st, true)
  | S n' =>
    let st' := PW (w_visits st + 1) (w_total st) in
    if pass_cap st' <? w_visits st' then (st', false) else scan_iter n' st'
  end.

(* the same in closed form *)
Definition scan_fast (n : Z) (st : pwork) : pwork * bool :=
  if w_visits st + n <=? pass_cap st then (PW (w_visits st + n) (w_total st), true)
  else (PW (Z.max (w_visits st + 1) (pass_cap st + 1)) (w_total st), false).

(* a scan: [fresh] blocks allocated for components seen for the first time, [n] blocks walked *)
Fixpoint run_scans (scans : list (Z * Z)) (st : pwork) : pwork * bool :=
  match scans with
  | [] => (st, true)
  | (fresh, n) :: r =>
    match scan_fast n (PW (w_visits st) (w_total st + fresh)) with
    | (st', true) => run_scans r st'
    | (st', false) => (st', false)
    end
  end.

(* ---- JBIG2: the work cell ---- *)

(* bitmapPool.chargeWork(pixels) before each per-pixel loop, against a second cell of
   workLimit(rawLen) units that is never credited back: a region is a site that "allocates"
   as many units of work as it charged *)
Definition work_site (pixels : Z) : site := Site pixels pixels.
