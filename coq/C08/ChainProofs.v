(* GetFilters: the chain cap and the position of Crypt. *)
From Coq Require Import List NArith ZArith Bool Lia.
From GoPdf.Base Require Import Res.
From GoPdf.Gen Require Import Gen_C08.
From GoPdf.C08 Require Import Chain.
Import ListNotations.

Lemma cap_eq : Z.to_nat maxFilterChainLength = 8%nat.
Proof. reflexivity. Qed.

Lemma chain_cap_reject l p : (8 < length l)%nat -> get_filters (FArr l) p = Err Malformed.
Proof.
  intro H. unfold get_filters. rewrite cap_eq.
  destruct (8 <? length l)%nat eqn:E; [reflexivity|]. apply Nat.ltb_ge in E. lia.
Qed.

Lemma gf_entries_length : forall fs ps r, gf_entries fs ps = Ok r -> length r = length fs.
Proof.
  induction fs as [|f fs IH]; intros ps r H; cbn [gf_entries] in H.
  - inversion H. reflexivity.
  - destruct f as [n|]; [|discriminate].
    destruct (match ps with [] => PNull | p :: _ => p end); try discriminate;
      (destruct (make_filter n _); [|discriminate]);
      (destruct (gf_entries fs (tl ps)) eqn:E; [|discriminate]);
      inversion H; subst; cbn [length]; f_equal; eapply IH; eauto.
Qed.

Lemma get_filters_ok f p l : get_filters f p = Ok l ->
  (length l <= 8)%nat /\ crypt_misplaced l = false.
Proof.
  unfold get_filters. intro H.
  match type of H with (match ?r with _ => _ end) = _ => destruct r as [l0|e] eqn:E; [|discriminate] end.
  destruct (crypt_misplaced l0) eqn:Ec; [discriminate|]. inversion H; subst l0. split; [|exact Ec].
  destruct f as [|n|fs|].
  - inversion E. cbn. lia.
  - assert (length l = 1)%nat; [|lia].
    destruct p; try discriminate; unfold one in E;
      (destruct (make_filter n _); [|discriminate]); inversion E; reflexivity.
  - rewrite cap_eq in E. destruct (8 <? length fs)%nat eqn:E8; [discriminate|].
    apply Nat.ltb_ge in E8.
    destruct p; try discriminate; apply gf_entries_length in E; lia.
  - discriminate.
Qed.

(* a misplaced Crypt filter is never accepted; with well-typed entries the answer is Malformed *)
Lemma crypt_not_first_rejected f p l : get_filters f p = Ok l ->
  forall i, (0 < i)%nat -> nth_error l i <> Some FCrypt.
Proof.
  intros H i Hi Hn. apply get_filters_ok in H as [_ Hc].
  unfold crypt_misplaced in Hc. destruct l as [|x l]; [destruct i; discriminate|].
  cbn [tl] in Hc. destruct i as [|i]; [lia|]. cbn [nth_error] in Hn.
  assert (existsb (fun n => match n with FCrypt => true | _ => false end) l = true).
  { apply existsb_exists. exists FCrypt. split; [eapply nth_error_In; eauto | reflexivity]. }
  congruence.
Qed.

(* every error of GetFilters is a malformed-file error *)
Lemma gf_entries_err : forall fs ps e, gf_entries fs ps = Err e -> e = Malformed.
Proof.
  induction fs as [|f fs IH]; intros ps e H; cbn [gf_entries] in H; [discriminate|].
  destruct f as [n|]; [|inversion H; reflexivity].
  destruct (match ps with [] => PNull | p :: _ => p end); try (inversion H; reflexivity);
    (destruct (make_filter n _) eqn:Em;
     [ destruct (gf_entries fs (tl ps)) eqn:E; [discriminate | inversion H; subst; eapply IH; eauto]
     | inversion H; subst; destruct n; cbn in Em; try discriminate;
       match type of Em with (if ?b then _ else _) = _ => destruct b end; inversion Em; reflexivity ]).
Qed.

Lemma get_filters_err f p e : get_filters f p = Err e -> e = Malformed.
Proof.
  unfold get_filters. intro H.
  match type of H with (match ?r with _ => _ end) = _ => destruct r as [l0|e0] eqn:E end.
  - destruct (crypt_misplaced l0); inversion H; reflexivity.
  - inversion H; subst e0. clear H.
    destruct f as [|n|fs|]; try discriminate.
    + destruct p as [|b|ps|]; try (inversion E; reflexivity); unfold one in E;
        (destruct (make_filter n _) eqn:Em; [discriminate|]); inversion E; subst;
        destruct n; cbn in Em; try discriminate;
        try (match type of Em with (if ?b then _ else _) = _ => destruct b end); inversion Em; reflexivity.
    + rewrite cap_eq in E. destruct (8 <? length fs)%nat; [inversion E; reflexivity|].
      destruct p; try (inversion E; reflexivity); eapply gf_entries_err; eauto.
    + inversion E; reflexivity.
Qed.

(* the filters GetFilters returns are the names of the /Filter array, in order *)
Lemma gf_entries_ok : forall fs ps r, gf_entries fs ps = Ok r -> fs = map EName r.
Proof.
  induction fs as [|f fs IH]; intros ps r H; cbn [gf_entries] in H.
  - inversion H. reflexivity.
  - destruct f as [n|]; [|discriminate].
    destruct (match ps with [] => PNull | p :: _ => p end); try discriminate;
      (destruct (make_filter n _) eqn:Em; [|discriminate]);
      (destruct (gf_entries fs (tl ps)) eqn:E; [|discriminate]);
      inversion H; subst; cbn [map]; f_equal;
      [ | eapply IH; eauto | | eapply IH; eauto ];
      (destruct n; cbn in Em; try (inversion Em; reflexivity);
       match type of Em with (if ?b then _ else _) = _ => destruct b end; inversion Em; reflexivity).
Qed.

Lemma map_EName_inj : forall a b, map EName a = map EName b -> a = b.
Proof.
  induction a as [|x a IH]; intros [|y b] H; cbn in H; try discriminate; [reflexivity|].
  inversion H. f_equal. apply IH. assumption.
Qed.

Lemma crypt_misplaced_malformed ns p i :
  (0 < i)%nat -> nth_error ns i = Some FCrypt ->
  get_filters (FArr (map EName ns)) p = Err Malformed.
Proof.
  intros Hi Hn.
  destruct (get_filters (FArr (map EName ns)) p) as [l|e] eqn:E.
  - exfalso. pose proof (crypt_not_first_rejected _ _ _ E i Hi) as Hc.
    unfold get_filters in E.
    match type of E with (match ?r with _ => _ end) = _ => destruct r as [l0|e0] eqn:E0; [|discriminate] end.
    destruct (crypt_misplaced l0); [discriminate|]. inversion E; subst l0.
    rewrite cap_eq in E0. destruct (8 <? length (map EName ns))%nat; [discriminate|].
    assert (map EName ns = map EName l) by (destruct p; try discriminate; eapply gf_entries_ok; eauto).
    apply map_EName_inj in H. subst l. contradiction.
  - f_equal. eapply get_filters_err; eauto.
Qed.
