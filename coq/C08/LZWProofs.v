(* Totality and output bound of the LZW decoder model: the table invariant
   (every prefix is a smaller code), the width/hi/overflow invariant, and the
   KwKwK and table-full cases. *)
From Coq Require Import List NArith ZArith Bool Lia ZifyN ZifyNat ZifyBool FMapPositive.
From GoPdf.Base Require Import Bytes Res.
From GoPdf.C08 Require Import Stream Simple LZW SimpleProofs.
Import ListNotations.
Open Scope N_scope.

(* the translated constants, as numbers (re-checked whenever Gen_C08 changes) *)
Lemma maxW_eq : maxW = 12. Proof. reflexivity. Qed.
Lemma litW_eq : litW = 8. Proof. reflexivity. Qed.
Lemma clearC_eq : clearC = 256. Proof. reflexivity. Qed.
Lemma eofC_eq : eofC = 257. Proof. reflexivity. Qed.
Lemma flushB_eq : flushB = 4096. Proof. reflexivity. Qed.
Lemma invalidC_eq : invalidC = 65535. Proof. reflexivity. Qed.
Lemma tabLen_eq : tabLen = 4096. Proof. reflexivity. Qed.
Lemma outLen_eq : outLen = 8192. Proof. reflexivity. Qed.
Lemma walk_fuel_eq : walk_fuel = S (N.to_nat 4096). Proof. reflexivity. Qed.

Ltac consts :=
  rewrite ?maxW_eq, ?litW_eq, ?clearC_eq, ?eofC_eq, ?flushB_eq, ?invalidC_eq, ?tabLen_eq, ?outLen_eq in *.

#[global] Opaque maxW litW clearC eofC flushB invalidC tabLen outLen walk_fuel.

Lemma succ_pos_inj a b : N.succ_pos a = N.succ_pos b -> a = b.
Proof. intro H. apply (f_equal Npos) in H. rewrite !N.succ_pos_spec in H. lia. Qed.

Lemma tget_tset_same c p tb : tget c (tset c p tb) = p.
Proof. unfold tget, tset. rewrite PositiveMap.gss. reflexivity. Qed.

Lemma tget_tset_other c c' p tb : c <> c' -> tget c' (tset c p tb) = tget c' tb.
Proof.
  intro H. unfold tget, tset. rewrite PositiveMap.gso; [reflexivity|].
  intro E. apply succ_pos_inj in E. congruence.
Qed.

#[global] Opaque tget tset.

(* ---- the chain walks ---- *)

Definition decreasing (tb : ptab) (c : N) : Prop :=
  forall c', 256 <= c' -> c' <= c -> fst (tget c' tb) < c'.

Lemma lz_head_ok tb : forall f c,
  decreasing tb c -> c < 4096 -> (N.to_nat c < f)%nat ->
  exists h, lz_head f tb c = Ok h /\ h < 256.
Proof.
  induction f as [|f IH]; intros c Hd Hc Hf; [lia|].
  cbn [lz_head]. consts.
  destruct (c <? 256) eqn:E. { exists c. split; [reflexivity | lia]. }
  destruct (4096 <=? c) eqn:E2; [lia|].
  assert (Hp : fst (tget c tb) < c) by (apply Hd; lia).
  apply IH; [| lia | lia].
  intros c' H1 H2. apply Hd; lia.
Qed.

Definition excess (c : N) : Z := Z.max 0 (Z.of_N c - 255).

Lemma lz_walk_ok tb : forall f c i buf,
  decreasing tb c -> c < 4096 -> (N.to_nat c < f)%nat -> (excess c <= i)%Z ->
  exists c0 i' buf',
    lz_walk f tb c i buf = Ok (c0, i', buf') /\ c0 < 256 /\ (i - excess c <= i')%Z /\
    (Z.of_nat (length buf') <= Z.of_nat (length buf) + excess c + 1)%Z.
Proof.
  induction f as [|f IH]; intros c i buf Hd Hc Hf Hi; [lia|].
  cbn [lz_walk]. consts. unfold excess in *.
  destruct (c <? 256) eqn:E.
  - destruct (i <? 0)%Z eqn:E1; [lia|].
    exists c, i, (c :: buf). cbn [length]. repeat split; lia.
  - destruct (i <? 0)%Z eqn:E1; [lia|].
    destruct (4096 <=? c) eqn:E2; [lia|].
    assert (Hp : fst (tget c tb) < c) by (apply Hd; lia).
    destruct (IH (fst (tget c tb)) (i - 1)%Z (snd (tget c tb) :: buf)) as (c0 & i' & buf' & H1 & H2 & H3 & H4);
      try lia.
    { intros c' Ha Hb. apply Hd; lia. }
    exists c0, i', buf'. cbn [length] in H4. repeat split; try assumption; lia.
Qed.

(* ---- reading a code ---- *)

Lemma lz_read_spec inp b nb w : nb <= 7 -> 9 <= w <= 12 ->
  match lz_read 4 inp b nb w with
  | RdFuel => False
  | RdEnd => True
  | RdCode code inp' b' nb' => (length inp' < length inp)%nat /\ nb' <= 7
  end.
Proof.
  intros Hnb Hw. cbn [lz_read].
  destruct (nb <? w) eqn:E1; [|lia].
  destruct inp as [|x r]; [exact I|]. cbn [lz_read].
  destruct (nb + 8 <? w) eqn:E2.
  - destruct r as [|y r']; [exact I|]. cbn [lz_read].
    destruct (nb + 8 + 8 <? w) eqn:E3; [lia|].
    cbn [length]. split; lia.
  - cbn [length]. split; lia.
Qed.

(* ---- the state invariant ---- *)

Record lz_inv (early : N) (st : lzst) : Prop := {
  i_w : (width st = 9 /\ ovf st = 512) \/ (width st = 10 /\ ovf st = 1024) \/
        (width st = 11 /\ ovf st = 2048) \/ (width st = 12 /\ ovf st = 4096);
  i_hi : 257 <= hi st /\ hi st + early < ovf st;
  i_last : last st = 65535 \/ last st < hi st;
  i_h : hi st = 257 -> last st = 65535;
  i_low : fst (tget 256 (tab st)) < 256 /\ fst (tget 257 (tab st)) < 257;
  i_tab : forall c, 258 <= c ->
          (c < hi st \/ (c = hi st /\ last st = 65535)) -> fst (tget c (tab st)) < c;
  i_o : opos st < 4096;
  i_nb : nbits st <= 7
}.

Lemma tget_empty c : tget c (PositiveMap.empty _) = (0, 0).
Proof. Transparent tget. unfold tget. rewrite PositiveMap.gempty. reflexivity. Opaque tget. Qed.

Lemma lz_inv_init early : early <= 1 -> lz_inv early lz_init.
Proof.
  intro He. unfold lz_init. consts.
  change (u16 (2 ^ (1 + 8))) with 512. change (1 + 8) with 9.
  constructor; cbn [width ovf hi last tab opos nbits]; rewrite ?tget_empty; cbn [fst]; try lia.
Qed.

Lemma lz_inv_set_rd early st b nb : lz_inv early st -> nb <= 7 -> lz_inv early (set_rd st b nb).
Proof. intros [] H. constructor; cbn [set_rd width ovf hi last tab opos nbits]; assumption. Qed.

Lemma lz_inv_reset early st : early <= 1 -> lz_inv early st -> lz_inv early (lz_reset st).
Proof.
  intros He []. unfold lz_reset. consts.
  change (u16 (2 ^ (1 + 8))) with 512. change (1 + 8) with 9.
  constructor; cbn [width ovf hi last tab opos nbits]; try assumption; try lia.
Qed.

(* decreasing chains below hi *)
Lemma inv_decreasing early st c : lz_inv early st ->
  (c < hi st \/ (c = hi st /\ last st = 65535)) -> decreasing (tab st) c.
Proof.
  intros [] Hc c' H1 H2.
  destruct (N.eq_dec c' 256) as [->|]; [apply i_low0|].
  destruct (N.eq_dec c' 257) as [->|]; [apply i_low0|].
  apply i_tab0; lia.
Qed.

(* the table after the save of one step *)
Definition saved (st : lzst) (tb : ptab) : Prop :=
  (fst (tget 256 tb) < 256 /\ fst (tget 257 tb) < 257) /\
  (forall c, 258 <= c -> (c < hi st \/ (c = hi st /\ last st = 65535)) -> fst (tget c tb) < c) /\
  (last st <> 65535 -> fst (tget (hi st) tb) < hi st).

Lemma lz_save_ok early st s : lz_inv early st ->
  exists tb, lz_save st s = Ok tb /\ saved st tb.
Proof.
  intros Hinv. pose proof Hinv as []. unfold lz_save. consts.
  destruct (last st =? 65535) eqn:E.
  - exists (tab st). split; [reflexivity|]. repeat split; try apply i_low0; try assumption. lia.
  - destruct (4096 <=? hi st) eqn:E2; [lia|].
    assert (Hh : 258 <= hi st).
    { destruct (N.eq_dec (hi st) 257) as [H|H]; [apply i_h0 in H; lia | lia]. }
    exists (tset (hi st) (last st, s) (tab st)). split; [reflexivity|].
    repeat split.
    + rewrite tget_tset_other by lia. apply i_low0.
    + rewrite tget_tset_other by lia. apply i_low0.
    + intros c H1 [H2 | [H2 H3]]; [|lia]. rewrite tget_tset_other by lia. apply i_tab0; lia.
    + intros _. rewrite tget_tset_same. cbn [fst]. lia.
Qed.

Lemma lz_next_inv early code st tb emitted :
  early <= 1 -> lz_inv early st -> saved st tb -> code <= hi st ->
  lz_inv early (lz_next early code st tb emitted).
Proof.
  intros He Hinv (Hlow & Htab & Hnew) Hcode. pose proof Hinv as [].
  unfold lz_next. consts. unfold u16.
  assert (Hhi : hi st < 4096) by (destruct i_w0 as [[? ?]|[[? ?]|[[? ?]|[? ?]]]]; lia).
  assert (Ho : (if 4096 <=? opos st + emitted then 0 else opos st + emitted) < 4096)
    by (destruct (4096 <=? opos st + emitted) eqn:E; lia).
  replace ((hi st + 1) mod 65536) with (hi st + 1) by lia.
  replace ((hi st + 1 + early) mod 65536) with (hi st + 1 + early) by lia.
  assert (Hent : forall c, 258 <= c -> c <= hi st -> fst (tget c tb) < c).
  { intros c H1 H2. destruct (N.eq_dec c (hi st)) as [->|Hne].
    - destruct (N.eq_dec (last st) 65535) as [Hl|Hl]; [apply Htab; auto | apply Hnew; exact Hl].
    - apply Htab; [exact H1 | left; lia]. }
  destruct (ovf st <=? hi st + 1 + early) eqn:E1.
  - destruct (12 <=? width st) eqn:E2.
    + (* table full: hi stays, last becomes invalid *)
      replace ((hi st + 1 + 65535) mod 65536) with (hi st) by lia.
      constructor; cbn [width ovf hi last tab opos nbits]; try assumption; try lia.
      intros c H1 [H2 | [H2 _]]; apply Hent; lia.
    + (* wider codes *)
      assert (Hw : (width st = 9 /\ ovf st = 512) \/ (width st = 10 /\ ovf st = 1024) \/
                   (width st = 11 /\ ovf st = 2048)) by lia.
      assert (Hp : (width st + 1 = 10 /\ 2 ^ (width st + 1) mod 65536 = 1024 /\ ovf st = 512) \/
                   (width st + 1 = 11 /\ 2 ^ (width st + 1) mod 65536 = 2048 /\ ovf st = 1024) \/
                   (width st + 1 = 12 /\ 2 ^ (width st + 1) mod 65536 = 4096 /\ ovf st = 2048)).
      { destruct Hw as [[Hx Hy]|[[Hx Hy]|[Hx Hy]]]; rewrite Hx, Hy.
        - left. repeat split; reflexivity.
        - right; left. repeat split; reflexivity.
        - right; right. repeat split; reflexivity. }
      constructor; cbn [width ovf hi last tab opos nbits]; try assumption; try lia.
      intros c H1 [H2 | [H2 H3]]; [apply Hent; lia | lia].
  - constructor; cbn [width ovf hi last tab opos nbits]; try assumption; try lia.
    intros c H1 [H2 | [H2 H3]]; [apply Hent; lia | lia].
Qed.

(* ---- one code ---- *)

Lemma lz_step_ok early st code : early <= 1 -> lz_inv early st ->
  match lz_step early st code with
  | StStop s => s = None \/ s = Some Malformed
  | StCont st' buf => lz_inv early st' /\ (length buf <= 4096)%nat
  end.
Proof.
  intros He Hinv. pose proof Hinv as [].
  assert (Hhi : hi st < 4096) by (destruct i_w0 as [[? ?]|[[? ?]|[[? ?]|[? ?]]]]; lia).
  unfold lz_step. consts.
  destruct (code <? 256) eqn:E1.
  { (* literal *)
    destruct (8192 <=? opos st) eqn:E2; [lia|].
    destruct (lz_save_ok early st code Hinv) as (tb & -> & Hs).
    split; [apply lz_next_inv; auto; lia | cbn; lia]. }
  destruct (code =? 256) eqn:E2.
  { split; [apply lz_inv_reset; auto | cbn; lia]. }
  destruct (code =? 257) eqn:E3. { left; reflexivity. }
  destruct (code <=? hi st) eqn:E4; [| right; reflexivity].
  destruct ((code =? hi st) && negb (last st =? 65535)) eqn:E5.
  - (* KwKwK: the previous expansion followed by its first byte *)
    assert (Hl : last st < hi st) by lia.
    assert (Hd : decreasing (tab st) (last st)) by (eapply inv_decreasing; eauto).
    destruct (lz_head_ok (tab st) walk_fuel (last st) Hd) as (h & -> & Hh); [lia | rewrite walk_fuel_eq; lia |].
    destruct (lz_walk_ok (tab st) walk_fuel (last st) (Z.of_N 8192 - 2)%Z [h] Hd)
      as (c0 & i' & buf' & -> & H2 & H3 & H4); [lia | rewrite walk_fuel_eq; lia | unfold excess; lia |].
    unfold excess in *. cbn [length] in H4.
    destruct (8192 <? opos st) eqn:E6; [lia|].
    destruct (i' <? Z.of_N (opos st))%Z eqn:E7; [lia|].
    destruct (lz_save_ok early st c0 Hinv) as (tb & -> & Hs).
    split; [apply lz_next_inv; auto; lia | lia].
  - assert (Hd : decreasing (tab st) code).
    { eapply inv_decreasing; eauto.
      destruct (N.eq_dec code (hi st)) as [Heq|Hne]; [right; split; [exact Heq | lia] | left; lia]. }
    cbv beta iota zeta.
    match goal with |- context [lz_walk ?f ?tb ?c ?i ?b] =>
      destruct (lz_walk_ok tb f c i b Hd)
        as (c0 & i' & buf' & -> & H2 & H3 & H4); [lia | rewrite walk_fuel_eq; lia | unfold excess; lia |]
    end.
    unfold excess in *. cbn [length] in H4.
    destruct (8192 <? opos st) eqn:E6; [lia|].
    destruct (i' <? Z.of_N (opos st))%Z eqn:E7; [lia|].
    destruct (lz_save_ok early st c0 Hinv) as (tb & -> & Hs).
    split; [apply lz_next_inv; auto; lia | lia].
Qed.

(* ---- the whole stream ---- *)

Lemma lz_loop_total early : early <= 1 -> forall fuel inp t st acc,
  lz_inv early st -> (length inp < fuel)%nat ->
  good_status t (snd (lz_loop fuel early inp t st acc)) /\
  (length (fst (lz_loop fuel early inp t st acc)) <= length acc + 4096 * length inp)%nat.
Proof.
  intros He. induction fuel as [|fuel IH]; intros inp t st acc Hinv Hf; [lia|].
  cbn [lz_loop]. pose proof Hinv as [].
  assert (Hw : 9 <= width st <= 12) by (destruct i_w0 as [[? ?]|[[? ?]|[[? ?]|[? ?]]]]; lia).
  pose proof (lz_read_spec inp (bits st) (nbits st) (width st) i_nb0 Hw) as Hr.
  destruct (lz_read 4 inp (bits st) (nbits st) (width st)) as [| |code inp' b nb]; [| contradiction |].
  - rewrite finish_snd, finish_len. split; [auto with c08 | lia].
  - destruct Hr as [Hlen Hnb].
    pose proof (lz_step_ok early (set_rd st b nb) code He (lz_inv_set_rd early st b nb Hinv Hnb)) as Hs.
    destruct (lz_step early (set_rd st b nb) code) as [s | st' buf].
    + rewrite finish_snd, finish_len. split; [destruct Hs as [-> | ->]; auto with c08 | lia].
    + destruct Hs as [Hinv' Hb].
      destruct (IH inp' t st' (rev_append buf acc) Hinv') as [H1 H2]; [lia|].
      split; [exact H1|]. rewrite rev_append_length in H2. lia.
Qed.

Lemma lzw_dec_total e inp t :
  good_status t (snd (lzw_dec e inp t)) /\
  (length (fst (lzw_dec e inp t)) <= 4096 * length inp)%nat.
Proof.
  unfold lzw_dec, lzw_fuel.
  destruct (lz_loop_total (if e then 1 else 0)) with (fuel := S (length inp)) (inp := inp) (t := t)
    (st := lz_init) (acc := @nil byte) as [H1 H2].
  - destruct e; lia.
  - apply lz_inv_init. destruct e; lia.
  - lia.
  - split; [exact H1 | cbn [length] in H2; lia].
Qed.

(* per code: at most 4096 bytes (DESIGN.md C08 out_bound) *)
Lemma lzw_per_code early st code : early <= 1 -> lz_inv early st ->
  forall st' buf, lz_step early st code = StCont st' buf -> (length buf <= 4096)%nat.
Proof.
  intros He Hinv st' buf H. pose proof (lz_step_ok early st code He Hinv) as Hs.
  rewrite H in Hs. apply Hs.
Qed.
