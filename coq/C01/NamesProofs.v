(* name_rt: ReadName reads back what formatName wrote, for all byte values. *)
From Coq Require Import List NArith ZArith Bool Lia.
From GoPdf.Base Require Import Bytes Res.
From GoPdf.C01 Require Import Lex Names LexProofs.
Import ListNotations.
Open Scope N_scope.

(* the byte after a name must not continue it *)
Definition follow_ok (rest : bytes) : bool :=
  match rest with [] => true | b :: _ => negb (is_regular b) end.

Lemma not_funny c : funny c = false -> is_regular c = true /\ (c =? cHASH) = false.
Proof.
  unfold funny. intro H.
  apply orb_false_iff in H as [H H4]. apply orb_false_iff in H as [H H3]. apply orb_false_iff in H as [H1 H2].
  apply negb_false_iff in H1. auto.
Qed.

Lemma read_fmt_name_body L : forall n acc rest,
  wfbs n = true -> N.of_nat (length acc + length n) < max_name L -> follow_ok rest = true ->
  read_name_loop L acc (fmt_name_body n ++ rest) = Ok (rev acc ++ n, rest).
Proof.
  induction n as [|c r IH]; intros acc rest Hw Hm Hf.
  - cbn [fmt_name_body app]. rewrite app_nil_r. destruct rest as [|b rest]; [reflexivity|].
    cbn [read_name_loop].
    replace (max_name L <=? blen acc) with false
      by (symmetry; apply N.leb_gt; unfold blen; cbn [length] in Hm; lia).
    cbn [follow_ok] in Hf. apply negb_true_iff in Hf.
    destruct (b =? cHASH) eqn:E.
    + apply N.eqb_eq in E. subst b. vm_compute in Hf. discriminate.
    + rewrite Hf. reflexivity.
  - apply wfbs_cons in Hw as [Hc Hw].
    assert (Hlim : (max_name L <=? blen acc) = false)
      by (apply N.leb_gt; unfold blen; cbn [length] in Hm; lia).
    assert (Hm' : forall x, N.of_nat (length (x :: acc) + length r) < max_name L)
      by (intro x; cbn [length] in *; lia).
    cbn [fmt_name_body]. destruct (funny c) eqn:Ef.
    + destruct (hex_pair_rt c Hc) as (H1 & H2 & H3).
      cbn [app read_name_loop]. rewrite Hlim. change (cHASH =? cHASH) with true. cbn iota.
      rewrite H1, H2. cbn [andb]. rewrite H3.
      rewrite IH; auto. cbn [rev]. rewrite <- app_assoc. reflexivity.
    + apply not_funny in Ef as [Hr Hh].
      cbn [app read_name_loop]. rewrite Hlim, Hh, Hr. cbn [negb].
      rewrite IH; auto. cbn [rev]. rewrite <- app_assoc. reflexivity.
Qed.

Lemma name_rt_lemma L n rest :
  wfbs n = true -> blen n < max_name L -> follow_ok rest = true ->
  read_name L (fmt_name n ++ rest) = Ok (n, rest).
Proof.
  intros Hw Hm Hf. unfold fmt_name, read_name. cbn [app]. change (cSLASH =? cSLASH) with true. cbn iota.
  rewrite read_fmt_name_body; [reflexivity | exact Hw | | exact Hf].
  unfold blen in Hm. cbn [length]. lia.
Qed.

Lemma parse_name_rt L n : wfbs n = true -> blen n < max_name L -> parse_name L (fmt_name n) = Ok n.
Proof.
  intros Hw Hm. pose proof (name_rt_lemma L n [] Hw Hm eq_refl) as H. rewrite app_nil_r in H.
  unfold parse_name. unfold fmt_name in *. change (cSLASH =? cSLASH) with true. cbn iota.
  rewrite H. reflexivity.
Qed.
