(* C01: property theorems only; each closed by [exact] and followed by Print Assumptions. *)
From Coq Require Import List NArith ZArith Bool.
From GoPdf.Base Require Import Bytes Res.
From GoPdf.C01 Require Import Lex Obj Num Names Strings Format Scan Wf
  LexProofs NumProofs NamesProofs StringsProofs FormatProofs ScanProofs
  SortProofs CanonProofs FuelProofs LimitProofs ArrayLimitProofs LimitsFull MainProofs
  BufSrc BufSrcProofs Readers ReadersProofs AcceptProofs.
Import ListNotations.
Open Scope N_scope.

(* Strings: all 256 byte values, literal or hex form (whatever OptPretty chooses), any
   continuation of the input, any limit above the string's length. *)
Theorem string_rt : forall L p s rest,
  wfbs s = true -> blen s < max_str L ->
  read_string_tok L (fmt_string p s ++ rest) = Ok (s, rest).
Proof. exact string_rt_lemma. Qed.
Print Assumptions string_rt.

Theorem string_rt_parse : forall L p s,
  wfbs s = true -> blen s < max_str L -> parse_string L (fmt_string p s) = Ok s.
Proof. exact parse_string_rt. Qed.
Print Assumptions string_rt_parse.

Example string_rt_hyp : wfbs [40; 41; 41; 92; 13; 10; 0; 255] = true /\ blen [40; 41; 41; 92; 13; 10; 0; 255] < max_str std_limits.
Proof. split; reflexivity. Qed.

(* Names: all byte values incl. '#' and non-regular bytes; the next byte must not be regular. *)
Theorem name_rt : forall L n rest,
  wfbs n = true -> blen n < max_name L -> follow_ok rest = true ->
  read_name L (fmt_name n ++ rest) = Ok (n, rest).
Proof. exact name_rt_lemma. Qed.
Print Assumptions name_rt.

Theorem name_rt_parse : forall L n,
  wfbs n = true -> blen n < max_name L -> parse_name L (fmt_name n) = Ok n.
Proof. exact parse_name_rt. Qed.
Print Assumptions name_rt_parse.

Example name_rt_hyp : wfbs [35; 47; 0; 65; 255] = true /\ blen [35; 47; 0; 65; 255] < max_name std_limits /\ follow_ok [cSP; 65] = true.
Proof. repeat split; reflexivity. Qed.

(* Integers: all of int64. *)
Theorem int_rt : forall L z rest,
  in_int64 z = true -> blen (print_int z) <= max_name L -> follow_int rest = true ->
  read_number L (print_int z ++ rest) = Ok (OInt z, rest).
Proof. exact int_rt_lemma. Qed.
Print Assumptions int_rt.

Example int_rt_hyp : in_int64 (- 2 ^ 63) = true /\ blen (print_int (- 2 ^ 63)) <= max_name std_limits /\ follow_int [cRB] = true.
Proof. repeat split; vm_compute; congruence. Qed.

(* Reals: every token of the grammar -?[0-9]+(\.[0-9]+)? is read back as the same token with the
   forced dot.  That the token denotes the float it was printed from is H-float. *)
Theorem real_rt : forall L t rest,
  real_grammar t = true -> blen (force_dot t) <= max_name L -> real_overflow (force_dot t) = false ->
  follow_real rest = true ->
  read_number L (fmt_real t ++ rest) = Ok (OReal (force_dot t), rest).
Proof. exact real_rt_lemma. Qed.
Print Assumptions real_rt.

Example real_rt_hyp :
  real_grammar [45; 48; 46; 53] = true /\ real_grammar [49; 50] = true /\
  real_overflow (force_dot [49; 50]) = false /\ follow_real [cSP] = true.
Proof. repeat split; reflexivity. Qed.

(* H-float made explicit (the Section is in NumProofs.v): for any float type with a printer whose
   output lies in the grammar and a parser that inverts the printer (forced dot included), reading
   what doFormat wrote gives a token that parses to the float that was written. *)
Theorem real_value_rt : forall (F : Type) (fmt_float : F -> bytes) (parse_float : bytes -> option F),
  (forall x, real_grammar (fmt_float x) = true) ->
  (forall x, parse_float (force_dot (fmt_float x)) = Some x) ->
  (forall x, real_overflow (force_dot (fmt_float x)) = false) ->
  forall L x rest,
  blen (force_dot (fmt_float x)) <= max_name L -> follow_real rest = true ->
  exists t, read_number L (fmt_real (fmt_float x) ++ rest) = Ok (OReal t, rest) /\ parse_float t = Some x.
Proof. exact real_value_rt_lemma. Qed.
Print Assumptions real_value_rt.

(* Whole values.  For every list of values within the limits (wf_list: the documented limits,
   with ReadArray's transient two slots for a reference), plain or pretty output, any
   continuation after the closing bracket that the hook appends, and enough fuel (linear in
   the number of nodes): the scanner returns exactly the normalised values, in order. *)
Theorem scan_format : forall L p os rest fuel,
  wf_list L os = true -> (lsize os + 1 <= fuel)%nat ->
  scan_objects_fuel L fuel (format p os ++ cRB :: rest) = Ok (map norm os, rest).
Proof. exact scan_format_lemma. Qed.
Print Assumptions scan_format.

Example scan_format_hyp :
  wf_list std_limits
    [OInt 1; ORef 2 0; OName [65]; OStr [40]; OArr [ONull; OReal [48; 46; 53]; ONilArr];
     ODict [([66], OInt 3); ([84; 121; 112; 101], OName [88]); ([67], ONull); ([68], ORef 5 1)]; ONilDict] = true.
Proof. vm_compute. reflexivity. Qed.

(* The same with the fuel the extracted scanner gives itself (2 * |input| + 8): this is the
   function the model driver runs and the hook VerifParseObjects corresponds to. *)
Theorem scan_objects_format : forall L p os,
  wf_list L os = true -> scan_objects L (format p os) = Ok (map norm os, []).
Proof. exact scan_objects_format_lemma. Qed.
Print Assumptions scan_objects_format.

(* Equality as the property reads it (a nil entry is absent, a nil array is null, a nil
   dictionary is empty, dictionaries are finite maps): canon. *)
Theorem norm_canon : forall o L d, wf_obj L d o = true -> canon (norm o) = canon o.
Proof. exact norm_canon_lemma. Qed.
Print Assumptions norm_canon.

Theorem scan_format_canon : forall L p os,
  wf_list L os = true ->
  exists vs, scan_objects L (format p os) = Ok (vs, []) /\ map canon vs = map canon os.
Proof. exact scan_format_canon_lemma. Qed.
Print Assumptions scan_format_canon.

(* Several values formatted one after another remain separately parseable, in order. *)
Theorem scan_format_app : forall L p os1 os2,
  wf_list L (os1 ++ os2) = true ->
  scan_objects L (format p (os1 ++ os2)) = Ok (map norm os1 ++ map norm os2, []).
Proof. exact scan_format_app_lemma. Qed.
Print Assumptions scan_format_app.

(* Determinism beyond functionality: the text (and the normal form) of a dictionary does not
   depend on the order in which its entries are listed (Go: map iteration order). *)
Theorem format_perm : forall p sep l1 l2,
  Permutation.Permutation l1 l2 -> NoDup (map fst l1) ->
  fmt_obj p sep (ODict l1) = fmt_obj p sep (ODict l2) /\ norm (ODict l1) = norm (ODict l2).
Proof. exact format_perm_lemma. Qed.
Print Assumptions format_perm.

Example format_perm_hyp :
  Permutation.Permutation [([66], OInt 1); ([65], ONull); ([84; 121; 112; 101], OName [88])]
                          [([65], ONull); ([84; 121; 112; 101], OName [88]); ([66], OInt 1)]
  /\ NoDup (map fst [([66], OInt 1); ([65], ONull); ([84; 121; 112; 101], OName [88])]).
Proof.
  split.
  - apply Permutation.Permutation_cons_app with (l1 := [([65], ONull); ([84; 121; 112; 101], OName [88])]) (l2 := []).
    rewrite app_nil_r. apply Permutation.Permutation_refl.
  - repeat constructor; cbn; intuition congruence.
Qed.

(* Limits.  Every value just beyond one of the five limits is rejected with a MalformedFileError,
   in both output styles, by the complete reader with its own fuel: strings (literal form: length
   >= maxStringBytes; hex form, which the reader accepts up to and including the limit: length >
   maxStringBytes), names, arrays (with or without references among the elements), dictionaries
   (counting written entries) and nesting depth. *)
Theorem limits_reject : forall L p, 0 < max_depth L ->
  (forall s, wfbs s = true ->
             (if p && use_hex s then max_str L < blen s else max_str L <= blen s) ->
             scan_objects L (format p [OStr s]) = Err Malformed) /\
  (forall n, wfbs n = true -> max_name L <= blen n ->
             scan_objects L (format p [OName n]) = Err Malformed) /\
  (forall l, forallb (wf_obj L 2) l = true -> max_arr L < N.of_nat (length l) ->
             scan_objects L (format p [OArr l]) = Err Malformed) /\
  (forall l, nodup_keys l = true ->
             forallb (fun kv => wf_name L (fst kv) && wf_obj L 2 (snd kv)) l = true ->
             max_dict L < N.of_nat (length (norm_entries l)) ->
             scan_objects L (format p [ODict l]) = Err Malformed) /\
  (forall k, max_depth L <= N.of_nat (S k) ->
             scan_objects L (format p [nest k]) = Err Malformed).
Proof. exact limits_reject_all. Qed.
Print Assumptions limits_reject.

(* the same at token level, for any continuation of the input *)
Theorem limits_reject_tokens : forall L,
  (forall s rest, max_str L <= blen s -> read_string_tok L (fmt_str_lit s ++ rest) = Err Malformed) /\
  (forall n b rest, wfbs n = true -> max_name L <= blen n -> read_name L (fmt_name n ++ b :: rest) = Err Malformed).
Proof. exact limits_reject_lemma. Qed.
Print Assumptions limits_reject_tokens.

Definition small_limits : limits := mkLimits 8 6 4 3 3.
Example limits_reject_array_ex :
  scan_objects small_limits (format false [OArr [OInt 1; OInt 2; OInt 3; OInt 4; OInt 5]]) = Err Malformed /\
  scan_objects small_limits (format false [OArr [OInt 1; OInt 2; OInt 3; OInt 4]]) = Ok ([OArr [OInt 1; OInt 2; OInt 3; OInt 4]], []).
Proof. split; vm_compute; reflexivity. Qed.
Example limits_reject_dict :
  scan_objects small_limits (format true [ODict [([65], OInt 1); ([66], OInt 2); ([67], OInt 3); ([68], OInt 4)]]) = Err Malformed.
Proof. vm_compute; reflexivity. Qed.
Example limits_reject_depth :
  scan_objects small_limits (format false [OArr [OArr [OArr []]]]) = Err Malformed /\
  scan_objects small_limits (format false [OArr [OArr []]]) = Ok ([OArr [OArr []]], []).
Proof. split; vm_compute; reflexivity. Qed.
(* the former boundary defect (fixed): an array filled to the limit whose last element is a
   reference is read; one element more is rejected, with or without a reference at the end *)
Example array_limit_edge :
  scan_objects small_limits (format false [OArr [OInt 1; OInt 2; OInt 3; ORef 5 0]]) = Ok ([OArr [OInt 1; OInt 2; OInt 3; ORef 5 0]], []) /\
  wf_list small_limits [OArr [OInt 1; OInt 2; OInt 3; ORef 5 0]] = true /\
  scan_objects small_limits (format false [OArr [OInt 1; OInt 2; OInt 3; OInt 4; ORef 5 0]]) = Err Malformed /\
  scan_objects small_limits (format false [OArr [OInt 1; OInt 2; OInt 3; OInt 4; OInt 5]]) = Err Malformed.
Proof. repeat split; vm_compute; reflexivity. Qed.

(* The order of dictionary keys.  The text of a dictionary lists the keys of its non-null entries
   exactly once each, in strictly increasing order of Dict.SortedKeys (Obj.key_ltb: "Type",
   "Subtype", then byte-wise lexicographic - bytes_ltb), and the scanned value carries the same
   key sequence; with format_perm (independence of the order of the entry list) the text is a
   function of the dictionary as a finite map. *)
Theorem dict_keys_sorted : forall p sep l, NoDup (map fst l) ->
  let ks := map fst (sort_entries (fmt_frags p l)) in
  keys_sorted ks /\ Permutation.Permutation ks (map fst (filter nonnull l)) /\
  fmt_obj p sep (ODict l) =
    (kw_ltlt ++ (if p then [cLF] else []) ++ concat (map snd (sort_entries (fmt_frags p l))) ++ kw_gtgt, false) /\
  exists es, norm (ODict l) = ODict es /\ map fst es = ks.
Proof. exact dict_keys_sorted_lemma. Qed.
Print Assumptions dict_keys_sorted.

(* ... at every nesting level: the model scanner keeps the entries in the order of the text, and
   what it reads from a formatted text has the keys of every dictionary in SortedKeys order
   (Scan.text_ordered - the check the correspondence applies to the implementation's text). *)
Theorem scan_text_ordered : forall L p os, wf_list L os = true ->
  exists vs, scan_objects L (format p os) = Ok (vs, []) /\ forallb text_ordered vs = true.
Proof. exact scan_text_ordered_lemma. Qed.
Print Assumptions scan_text_ordered.

(* F01 < F1 < F10 < F2 byte-wise; a text with F2 before F10 is not in SortedKeys order *)
Example text_ordered_ex :
  match scan_objects std_limits
    [60;60; 47;70;48;49; 32;49; 47;70;49; 32;49; 47;70;49;48; 32;49; 47;70;50; 32;49; 62;62] with
  | Ok (vs, _) => forallb text_ordered vs | Err _ => false end = true /\
  match scan_objects std_limits [60;60; 47;70;50; 32;49; 47;70;49;48; 32;49; 62;62] with
  | Ok (vs, _) => forallb text_ordered vs | Err _ => true end = false.
Proof. vm_compute. split; reflexivity. Qed.

(* The scanner's nesting counter.  scanner.go keeps the depth in a field that ReadArray and
   ReadDict increment on entry and decrement on every way out; the model passes the depth as an
   argument, which is the same thing only if the field is back at its old value after every
   value.  Under that discipline (Scan.run_counter over the entries and exits of a value's text)
   the counter is restored after every value within the limits, and therefore after any number of
   values read one after another by one scanner: the width of a sequence or container never adds
   to the depth. *)
Theorem depth_restored : forall L os d,
  forallb (wf_obj L d) os = true ->
  run_counter L (concat (map events os)) d = Some d /\
  (forall o, In o os -> run_counter L (events o) d = Some d).
Proof. exact depth_restored_lemma. Qed.
Print Assumptions depth_restored.

Example depth_restored_wide :
  run_counter std_limits (concat (map events (repeat (OArr [OArr []; ODict [([75], OArr [])]; ONilDict]) 1000))) 1 = Some 1.
Proof. vm_compute. reflexivity. Qed.

(* What the writer accepts.  types.go refuses what the scanner would not read back
   (Wf.fmt_ok / format_checked: nesting, array and dictionary sizes, name and string lengths,
   reference numbers, with the translated limits).  For values of the Go types (go_value: int64,
   finite reals, bytes, uint32/uint16 references, maps) whose number tokens fit ReadNumber's
   buffer (nums_fit: always so with the real maxNameBytes; a hypothesis under shrunk limits only)
   Format succeeds exactly when the value, without the nil dictionary entries that Format does not
   write (prune), is within the limits of the scanner at the same nesting depth; and every value
   within the limits is accepted. *)
Theorem format_accepts_iff_within_limits : forall L p os,
  forallb go_value os = true -> forallb (nums_fit L) os = true ->
  ((exists t, format_checked L p os = Ok t) <-> forallb (fun o => wf_obj L 0 (prune o)) os = true) /\
  (forallb (wf_obj L 0) os = true -> format_checked L p os = Ok (format p os)).
Proof. exact format_accepts_iff_lemma. Qed.
Print Assumptions format_accepts_iff_within_limits.

(* Hence no size hypothesis is left in the round trip: when Format accepts the array of the
   values, the text of its elements (what follows "[") is read back by ReadArray as the values.
   (scan_objects is ReadArray at depth 0 on the text followed by "]" - the hook.) *)
Theorem format_ok_roundtrip : forall L p os t,
  go_value (OArr os) = true -> nums_fit L (OArr os) = true ->
  format_checked L p [OArr os] = Ok t ->
  scan_objects L (format p os) = Ok (map norm os, []).
Proof. exact format_ok_roundtrip_lemma. Qed.
Print Assumptions format_ok_roundtrip.

Example format_checked_edges :
  (* small_limits: strings < 8, names < 6, arrays <= 4, dictionaries <= 3, depth 3 *)
  format_checked small_limits false [OStr [1; 2; 3; 4; 5; 6; 7]] <> Err Other /\
  format_checked small_limits false [OStr [1; 2; 3; 4; 5; 6; 7; 8]] = Err Other /\
  format_checked small_limits false [OName [65; 66; 67; 68; 69; 70]] = Err Other /\
  format_checked small_limits false [OArr [OInt 1; OInt 2; OInt 3; OInt 4; OInt 5]] = Err Other /\
  format_checked small_limits false [OArr [OArr [OArr []]]] <> Err Other /\
  format_checked small_limits false [OArr [OArr [OArr [OArr []]]]] = Err Other /\
  format_checked small_limits false [ODict [([65; 66; 67; 68; 69; 70; 71], ONull)]] <> Err Other.
Proof. vm_compute. repeat split; congruence. Qed.

(* OutputOptions.  The formatter model takes the option mask of types.go (constants translated):
   under every mask the text is read back as the values, and setting any of OptDictTypes,
   OptTrimStandardFonts, OptTextStringUtf8, OptContentStream does not change the text written
   for native values - only OptPretty reaches them.  (That the implementation behaves like this
   under all 32 masks is what the harness oracle checks on every generated value list.) *)
Theorem options_irrelevant : forall L mask os, wf_list L os = true ->
  scan_objects L (format_opt mask os) = Ok (map norm os, []) /\
  (forall o, In o inert_options -> format_opt (Z.lor mask o) os = format_opt mask os).
Proof. exact options_lemma. Qed.
Print Assumptions options_irrelevant.

(* Buffering transparency.  A reader written against the scanner's interface (PeekN followed by
   an advance of at most the bytes seen, ScanBytes with its closure) returns the same value and
   leaves the same input over the buffered source (buffer of BUF bytes, refill with compaction,
   io.ReadFull [full = true, scanner.go] or a single Read with the latched s.err [full = false,
   content scanner]) as over the plain byte list - for every buffer size, every state of the
   buffer and every chunking of the underlying reader, provided no window exceeds the buffer. *)
Theorem buffering_transparent_any : forall BUF full, (1 <= BUF)%nat -> forall (St A : Type) (p : prog St A),
  wf_prog BUF full p -> forall st, binv BUF st ->
  let (a, st') := run_buf BUF full p st in
  run_list p (view st) = (a, view st') /\ binv BUF st'.
Proof. exact run_buf_list. Qed.
Print Assumptions buffering_transparent_any.

(* The token readers of the model: over a scanner with the translated scannerBufSize, in any
   state (any position of the token relative to the buffer end), SkipWhiteSpace, ReadName (with
   tryHex's PeekN(3)), ReadNumber, ReadString (escapes, octal look-ahead), ReadHexString and
   ReadObject's PeekN(5) dispatch on non-composite values compute exactly the list readers of
   Lex/Names/Num/Strings/Scan on the bytes still to be read. *)
Theorem buffering_transparent : forall L fuel f d st,
  binv scanner_buf st -> (length (view st) < fuel)%nat ->
  reads scanner_buf true skip_ws_p (fun s => match skip_ws s with Ok r => Ok (tt, r) | Err e => Err e end) st /\
  reads scanner_buf true (read_name_p L fuel) (read_name L) st /\
  reads scanner_buf true (read_number_p L) (read_number L) st /\
  reads scanner_buf true (read_string_p L fuel) (read_string L) st /\
  reads scanner_buf true (read_hex_p L) (read_hex_string L) st /\
  (composite_head (view st) = false ->
   reads scanner_buf true (read_atom_p L fuel) (read_object L (S f) d) st).
Proof. exact buffering_transparent_scanner. Qed.
Print Assumptions buffering_transparent.

(* every chunking (read sizes >= 1) is a legal start and shows the scanner exactly the data *)
Theorem buffering_start : forall chunks,
  Forall nonempty chunks ->
  binv scanner_buf (scanner_start chunks) /\ view (scanner_start chunks) = concat chunks.
Proof. exact scanner_start_ok. Qed.
Print Assumptions buffering_start.

(* a name whose #xx escape straddles the end of an 8-byte buffer, delivered in chunks of 3, 1, 9 *)
Example buffered_name_ex :
  read_atoms_buffered std_limits 8 [[32; 32; 32]; [32]; [32; 47; 65; 35; 52; 50; 67; 32; 49]]
  = Ok [OName [65; 66; 67]; OInt 1].
Proof. vm_compute. reflexivity. Qed.
