(* C01 model, part 1: byte classes, white space, hex digits, limits.
   Follows scanner.go: class[256] (translated, GoPdf.Gen.Gen_Consts), SkipWhiteSpace,
   hexDigit, and the limit variables maxStringBytes/maxNameBytes/maxArrayLen/maxDictLen
   and the constant maxScannerNestDepth.  Definitions only. *)
From Coq Require Import List NArith ZArith Bool.
From GoPdf.Base Require Import Bytes Res.
From GoPdf.Gen Require Gen_Consts Gen_C01.
Import ListNotations.
Open Scope N_scope.

(* ---- named bytes ---- *)
Definition cNUL := 0.   Definition cBSP := 8.   Definition cTAB := 9.  Definition cLF := 10.
Definition cFF := 12.   Definition cCR := 13.   Definition cSP := 32.  Definition cHASH := 35.
Definition cPCT := 37.  Definition cLP := 40.   Definition cRP := 41.  Definition cPLUS := 43.
Definition cMINUS := 45. Definition cDOT := 46. Definition cSLASH := 47.
Definition c0 := 48.    Definition c7 := 55.    Definition c9 := 57.
Definition cLT := 60.   Definition cGT := 62.   Definition cR := 82.
Definition cLB := 91.   Definition cBS := 92.   Definition cRB := 93.

(* ---- character classes: the translated table ---- *)
Definition cls_of (b : byte) : Z := nth (N.to_nat b) Gen_Consts.class Gen_Consts.regular.
Definition is_space (b : byte) : bool := Z.eqb (cls_of b) Gen_Consts.space.
Definition is_regular (b : byte) : bool := Z.eqb (cls_of b) Gen_Consts.regular.
Definition is_digit (b : byte) : bool := (c0 <=? b) && (b <=? c9).
Definition is_oct (b : byte) : bool := (c0 <=? b) && (b <=? c7).

(* ---- limits (variables in scanner.go, so that tests can shrink them) ---- *)
Record limits := mkLimits {
  max_str : N;     (* maxStringBytes *)
  max_name : N;    (* maxNameBytes *)
  max_arr : N;     (* maxArrayLen *)
  max_dict : N;    (* maxDictLen *)
  max_depth : N    (* maxScannerNestDepth *)
}.
Definition std_limits : limits :=
  mkLimits (Z.to_N Gen_Consts.maxStringBytes) (Z.to_N Gen_Consts.maxNameBytes)
           (Z.to_N Gen_Consts.maxArrayLen) (Z.to_N Gen_Consts.maxDictLen)
           (Z.to_N Gen_C01.maxScannerNestDepth).
Definition max_xref : Z := Gen_Consts.maxXRefSize.
Definition max_gen : Z := Gen_Consts.maxGeneration.

Definition blen (s : bytes) : N := N.of_nat (length s).

(* ---- SkipWhiteSpace: white space and comments; io.EOF when the input ends ---- *)
Fixpoint skip_ws_aux (cmt : bool) (s : bytes) : res bytes :=
  match s with
  | [] => Err EOF
  | b :: r =>
    if cmt then skip_ws_aux (negb ((b =? cCR) || (b =? cLF))) r
    else if b =? cPCT then skip_ws_aux true r
    else if is_space b then skip_ws_aux false r
    else Ok s
  end.
Definition skip_ws (s : bytes) : res bytes := skip_ws_aux false s.

(* ---- hex digits ---- *)
(* hexDigit: 255 when c is not a hex digit *)
Definition hex_val (c : byte) : N :=
  if (c0 <=? c) && (c <=? c9) then c - c0
  else if (65 <=? c) && (c <=? 70) then c - 65 + 10
  else if (97 <=? c) && (c <=? 102) then c - 97 + 10
  else 255.
Definition is_hex (c : byte) : bool := negb (hex_val c =? 255).
(* one digit of fmt's %x / %02x (lower case) *)
Definition hex_digit (v : N) : byte := if v <? 10 then c0 + v else 97 + (v - 10).

(* ---- prefixes ---- *)
Fixpoint starts_with (p s : bytes) : bool :=
  match p, s with
  | [], _ => true
  | a :: p', b :: s' => (a =? b) && starts_with p' s'
  | _ :: _, [] => false
  end.
Fixpoint drop (n : nat) (s : bytes) : bytes :=
  match n, s with
  | O, _ => s
  | S n', _ :: s' => drop n' s'
  | S _, [] => []
  end.

Definition kw_null : bytes := [110; 117; 108; 108].
Definition kw_true : bytes := [116; 114; 117; 101].
Definition kw_false : bytes := [102; 97; 108; 115; 101].
Definition kw_stream : bytes := [115; 116; 114; 101; 97; 109].
Definition kw_ltlt : bytes := [cLT; cLT].
Definition kw_gtgt : bytes := [cGT; cGT].

(* the 256 byte values, for finite checks *)
Definition all_bytes : bytes := map N.of_nat (seq 0 256).
