(* int_rt, real_rt: ReadNumber reads back the tokens doFormat writes for numbers. *)
From Coq Require Import List NArith ZArith Bool Lia Decimal DecimalZ DecimalPos.
From GoPdf.Base Require Import Bytes Res.
From GoPdf.C01 Require Import Lex Obj Num LexProofs.
Import ListNotations.
Open Scope N_scope.

(* what may follow an integer / a real with a dot *)
Definition follow_int (rest : bytes) : bool :=
  match rest with [] => true | b :: _ => negb (is_digit b) && negb (b =? cDOT) end.
Definition follow_real (rest : bytes) : bool :=
  match rest with [] => true | b :: _ => negb (is_digit b) end.

Lemma uint_digits d : all_digits (uint_to_bytes d) = true.
Proof. induction d; cbn [uint_to_bytes all_digits forallb]; auto; rewrite <- IHd; reflexivity. Qed.

Lemma uint_rt d : digits_to_uint (uint_to_bytes d) = d.
Proof. induction d; cbn [uint_to_bytes digits_to_uint]; auto; rewrite IHd; reflexivity. Qed.

Lemma digit_not_sign b : is_digit b = true -> (b =? cMINUS) = false /\ (b =? cPLUS) = false /\ (b =? cDOT) = false.
Proof.
  unfold is_digit, c0, c9, cMINUS, cPLUS, cDOT. intro H. apply andb_true_iff in H as [H1 H2].
  apply N.leb_le in H1, H2. repeat split; apply N.eqb_neq; lia.
Qed.

(* one step of the accept closure *)
Lemma scan_num_digit hd first b s : is_digit b = true ->
  scan_num hd first (b :: s) = let '(t, hd', rest) := scan_num hd false s in (b :: t, hd', rest).
Proof.
  intro Hb. destruct (digit_not_sign b Hb) as (_ & _ & Hd).
  change (scan_num hd first (b :: s)) with
    (if negb hd && (b =? cDOT) then let '(t, hd', rest) := scan_num true false s in (b :: t, hd', rest)
     else if (first && ((b =? cPLUS) || (b =? cMINUS))) || is_digit b
          then let '(t, hd', rest) := scan_num hd false s in (b :: t, hd', rest)
          else ([], hd, b :: s)).
  rewrite Hd, Hb. rewrite andb_false_r, orb_true_r. reflexivity.
Qed.
Lemma scan_num_minus s :
  scan_num false true (cMINUS :: s) = let '(t, hd', rest) := scan_num false false s in (cMINUS :: t, hd', rest).
Proof. reflexivity. Qed.
Lemma scan_num_dot s :
  scan_num false false (cDOT :: s) = let '(t, hd', rest) := scan_num true false s in (cDOT :: t, hd', rest).
Proof. reflexivity. Qed.

(* scanning over digits *)
Lemma scan_num_digits ds : forall hd s,
  all_digits ds = true ->
  scan_num hd false (ds ++ s) = let '(t, hd', rest) := scan_num hd false s in (ds ++ t, hd', rest).
Proof.
  induction ds as [|b ds IH]; intros hd s H.
  - rewrite app_nil_l. destruct (scan_num hd false s) as [[t h] r]. reflexivity.
  - cbn [all_digits forallb] in H. apply andb_true_iff in H as [Hb H].
    cbn [List.app]. rewrite scan_num_digit by exact Hb.
    rewrite IH by exact H. destruct (scan_num hd false s) as [[t h] r]. reflexivity.
Qed.

Lemma scan_num_stop_int rest : follow_int rest = true -> scan_num false false rest = ([], false, rest).
Proof.
  destruct rest as [|b r]; [reflexivity|]. cbn [follow_int scan_num]. intro H.
  apply andb_true_iff in H as [H1 H2]. apply negb_true_iff in H1, H2. rewrite H1, H2. reflexivity.
Qed.

Lemma scan_num_stop_real rest : follow_real rest = true -> scan_num true false rest = ([], true, rest).
Proof.
  destruct rest as [|b r]; [reflexivity|]. cbn [follow_real scan_num]. intro H.
  apply negb_true_iff in H. rewrite H. reflexivity.
Qed.

Lemma to_uint_head p : exists b r, uint_to_bytes (Pos.to_uint p) = b :: r /\ is_digit b = true.
Proof.
  pose proof (Unsigned.to_uint_nonnil p) as H. pose proof (uint_digits (Pos.to_uint p)) as Hd.
  destruct (Pos.to_uint p); try congruence; cbn [uint_to_bytes] in *;
    eexists; eexists; (split; [reflexivity|reflexivity]).
Qed.

Lemma print_int_shape z : exists sgn b ds,
  print_int z = sgn ++ b :: ds /\ (sgn = [] \/ sgn = [cMINUS]) /\ is_digit b = true /\ all_digits ds = true.
Proof.
  unfold print_int. destruct z as [|p|p]; cbn [Z.to_int].
  - exists [], 48, []. repeat split; auto.
  - destruct (to_uint_head p) as (b & r & E & Hb). pose proof (uint_digits (Pos.to_uint p)) as Hd.
    rewrite E in *. exists [], b, r. cbn [all_digits forallb] in Hd. apply andb_true_iff in Hd as [_ Hd].
    repeat split; auto.
  - destruct (to_uint_head p) as (b & r & E & Hb). pose proof (uint_digits (Pos.to_uint p)) as Hd.
    rewrite E in *. exists [cMINUS], b, r. cbn [all_digits forallb] in Hd. apply andb_true_iff in Hd as [_ Hd].
    repeat split; auto.
Qed.

Lemma parse_print_int z : in_int64 z = true -> parse_int_tok (print_int z) = Some z.
Proof.
  intro Hr. pose proof (of_to z) as Hz. unfold print_int, parse_int_tok.
  destruct (Z.to_int z) as [d|d] eqn:E.
  - assert (Hne : exists b r, uint_to_bytes d = b :: r /\ is_digit b = true).
    { destruct z; cbn [Z.to_int] in E; inversion E; subst;
        [exists 48, []; auto | apply to_uint_head]. }
    destruct Hne as (b & r & Eb & Hb). destruct (digit_not_sign b Hb) as (Hm & Hp & _).
    unfold strip_sign. rewrite Eb. rewrite Hm, Hp. rewrite <- Eb.
    rewrite uint_digits. unfold digits_val. rewrite uint_rt. cbn [Z.of_int] in Hz. rewrite Hz, Hr.
    try rewrite Eb; reflexivity.
  - assert (Hne : exists b r, uint_to_bytes d = b :: r /\ is_digit b = true).
    { destruct z; cbn [Z.to_int] in E; inversion E; subst. apply to_uint_head. }
    destruct Hne as (b & r & Eb & Hb).
    unfold strip_sign. change (cMINUS =? cMINUS) with true. cbn iota.
    rewrite uint_digits. unfold digits_val. rewrite uint_rt. cbn [Z.of_int] in Hz. rewrite Hz, Hr.
    try rewrite Eb; reflexivity.
Qed.

Lemma scan_print_int z rest : follow_int rest = true ->
  scan_num false true (print_int z ++ rest) = (print_int z, false, rest).
Proof.
  intro Hf. destruct (print_int_shape z) as (sgn & b & ds & E & Hs & Hb & Hd). rewrite E.
  destruct (digit_not_sign b Hb) as (_ & _ & Hdot).
  assert (Hrest : scan_num false false ((b :: ds) ++ rest) = (b :: ds, false, rest)).
  { rewrite scan_num_digits by (cbn [all_digits forallb]; rewrite Hb; exact Hd).
    rewrite scan_num_stop_int by exact Hf. rewrite app_nil_r. reflexivity. }
  cbn [List.app] in Hrest. rewrite scan_num_digit in Hrest by exact Hb.
  destruct Hs as [-> | ->].
  - cbn [List.app]. rewrite scan_num_digit by exact Hb. exact Hrest.
  - cbn [List.app]. rewrite scan_num_minus. rewrite scan_num_digit by exact Hb.
    destruct (scan_num false false (ds ++ rest)) as [[t h] r]. inversion Hrest; subst. reflexivity.
Qed.

Lemma int_rt_lemma L z rest :
  in_int64 z = true -> blen (print_int z) <= max_name L -> follow_int rest = true ->
  read_number L (print_int z ++ rest) = Ok (OInt z, rest).
Proof.
  intros Hr Hl Hf. unfold read_number. rewrite scan_print_int by exact Hf.
  replace (max_name L <? blen (print_int z)) with false by (symmetry; apply N.ltb_ge; exact Hl).
  rewrite parse_print_int by exact Hr. reflexivity.
Qed.

(* ---- reals ---- *)
Lemma take_drop_digits u : u = take_digits u ++ drop_digits u.
Proof.
  induction u as [|b u IH]; [reflexivity|]. cbn [take_digits drop_digits].
  destruct (is_digit b); [cbn [List.app]; f_equal; exact IH | reflexivity].
Qed.
Lemma take_digits_all u : all_digits (take_digits u) = true.
Proof.
  induction u as [|b u IH]; [reflexivity|]. cbn [take_digits].
  destruct (is_digit b) eqn:E; [cbn [all_digits forallb]; rewrite E; exact IH | reflexivity].
Qed.
Lemma drop_digits_head u b r : drop_digits u = b :: r -> is_digit b = false.
Proof.
  induction u as [|c u IH]; [discriminate|]. cbn [drop_digits].
  destruct (is_digit c) eqn:E; [exact IH|]. intro H. inversion H; subst. exact E.
Qed.
Lemma has_dot_digits ds : all_digits ds = true -> has_dot ds = false.
Proof.
  induction ds as [|b ds IH]; [reflexivity|]. cbn [all_digits forallb has_dot existsb].
  intro H. apply andb_true_iff in H as [Hb H]. destruct (digit_not_sign b Hb) as (_ & _ & Hd).
  rewrite Hd. apply IH. exact H.
Qed.
Lemma has_dot_app a b : has_dot (a ++ b) = has_dot a || has_dot b.
Proof. unfold has_dot. apply existsb_app. Qed.
Lemma digits_exists ds : ds <> [] -> all_digits ds = true -> existsb is_digit ds = true.
Proof.
  destruct ds as [|b ds]; [congruence|]. intros _ H. cbn [all_digits forallb] in H.
  apply andb_true_iff in H as [Hb _]. cbn [existsb]. rewrite Hb. reflexivity.
Qed.

(* the shape of force_dot t for a token of the grammar: sign, digits, ".", digits *)
Lemma real_shape t : real_grammar t = true ->
  exists sgn d1 ds1 ds2, force_dot t = sgn ++ (d1 :: ds1) ++ cDOT :: ds2 /\
    (sgn = [] \/ sgn = [cMINUS]) /\ is_digit d1 = true /\ all_digits ds1 = true /\ all_digits ds2 = true.
Proof.
  unfold real_grammar. intro H.
  set (u := match t with b :: r => if b =? cMINUS then r else t | [] => [] end) in *.
  assert (Ht : exists sgn, t = sgn ++ u /\ (sgn = [] \/ sgn = [cMINUS])).
  { subst u. destruct t as [|b r].
    - exists []. auto.
    - destruct (b =? cMINUS) eqn:E.
      + apply N.eqb_eq in E. subst b. exists [cMINUS]. auto.
      + exists []. auto. }
  destruct Ht as (sgn & Et & Hs).
  pose proof (take_drop_digits u) as Eu. pose proof (take_digits_all u) as Ha.
  destruct (take_digits u) as [|d1 ds1] eqn:Etd; [discriminate|].
  cbn [all_digits forallb] in Ha. apply andb_true_iff in Ha as [Hd1 Hds1].
  assert (Hsd : has_dot sgn = false) by (destruct Hs as [-> | ->]; reflexivity).
  assert (Hdd : has_dot (d1 :: ds1) = false)
    by (apply has_dot_digits; cbn [all_digits forallb]; rewrite Hd1; exact Hds1).
  destruct (drop_digits u) as [|d fp] eqn:Edd.
  - (* no dot in t *)
    exists sgn, d1, ds1, []. repeat split; auto.
    unfold force_dot. rewrite Et, Eu, app_nil_r. rewrite has_dot_app, Hsd, Hdd. cbn [orb].
    rewrite <- app_assoc. reflexivity.
  - apply andb_true_iff in H as [Hd Hfp]. apply N.eqb_eq in Hd. subst d.
    destruct fp as [|f fp]; [discriminate|].
    exists sgn, d1, ds1, (f :: fp). repeat split; auto.
    unfold force_dot. rewrite Et, Eu. rewrite !has_dot_app, Hsd, Hdd. cbn [orb has_dot existsb].
    change (cDOT =? cDOT) with true. cbn [orb]. reflexivity.
Qed.

Lemma scan_real_token sgn d1 ds1 ds2 rest :
  (sgn = [] \/ sgn = [cMINUS]) -> is_digit d1 = true -> all_digits ds1 = true -> all_digits ds2 = true ->
  follow_real rest = true ->
  scan_num false true ((sgn ++ (d1 :: ds1) ++ cDOT :: ds2) ++ rest)
  = (sgn ++ (d1 :: ds1) ++ cDOT :: ds2, true, rest).
Proof.
  intros Hs Hd1 Hds1 Hds2 Hf.
  assert (Htail : scan_num false false ((ds1 ++ cDOT :: ds2) ++ rest) = (ds1 ++ cDOT :: ds2, true, rest)).
  { rewrite <- app_assoc. rewrite scan_num_digits by exact Hds1.
    cbn [List.app]. rewrite scan_num_dot.
    rewrite scan_num_digits by exact Hds2. rewrite scan_num_stop_real by exact Hf.
    rewrite app_nil_r. reflexivity. }
  assert (Hd : forall first, scan_num false first (((d1 :: ds1) ++ cDOT :: ds2) ++ rest)
                             = ((d1 :: ds1) ++ cDOT :: ds2, true, rest)).
  { intro first. cbn [List.app]. rewrite scan_num_digit by exact Hd1.
    cbn [List.app] in Htail. rewrite Htail. reflexivity. }
  destruct Hs as [-> | ->].
  - cbn [List.app] in *. apply Hd.
  - cbn [List.app]. rewrite scan_num_minus.
    specialize (Hd false). cbn [List.app] in Hd. unfold bytes, byte in *. rewrite Hd. reflexivity.
Qed.

Lemma real_rt_lemma L t rest :
  real_grammar t = true -> blen (force_dot t) <= max_name L -> real_overflow (force_dot t) = false ->
  follow_real rest = true ->
  read_number L (fmt_real t ++ rest) = Ok (OReal (force_dot t), rest).
Proof.
  intros Hg Hl Ho Hf. unfold fmt_real.
  destruct (real_shape t Hg) as (sgn & d1 & ds1 & ds2 & E & Hs & Hd1 & Hds1 & Hds2).
  assert (Hscan : scan_num false true (force_dot t ++ rest) = (force_dot t, true, rest)).
  { rewrite E. apply scan_real_token; assumption. }
  unfold read_number. rewrite Hscan.
  replace (max_name L <? blen (force_dot t)) with false by (symmetry; apply N.ltb_ge; exact Hl).
  unfold float_ok. rewrite Ho. cbn [negb]. rewrite andb_true_r.
  assert (Hex : existsb is_digit (force_dot t) = true).
  { rewrite E. rewrite existsb_app. cbn [List.app existsb]. rewrite Hd1. cbn [orb]. apply orb_true_r. }
  rewrite Hex. reflexivity.
Qed.

(* H-float made explicit: for any float type with a printer whose output lies in the grammar
   and a parser that inverts the printer (forced dot included), reading what doFormat wrote
   gives a token that parses to the float that was written. *)
Section HFloat.
  Variable F : Type.
  Variable fmt_float : F -> bytes.            (* strconv.FormatFloat(x, 'f', -1, 64) *)
  Variable parse_float : bytes -> option F.   (* strconv.ParseFloat(s, 64) *)
  Hypothesis H_float_grammar : forall x, real_grammar (fmt_float x) = true.
  Hypothesis H_float_rt : forall x, parse_float (force_dot (fmt_float x)) = Some x.
  Hypothesis H_float_finite : forall x, real_overflow (force_dot (fmt_float x)) = false.
  Lemma real_value_rt_lemma L x rest :
    blen (force_dot (fmt_float x)) <= max_name L -> follow_real rest = true ->
    exists t, read_number L (fmt_real (fmt_float x) ++ rest) = Ok (OReal t, rest) /\ parse_float t = Some x.
  Proof.
    intros Hl Hf. exists (force_dot (fmt_float x)). split; [|apply H_float_rt].
    apply real_rt_lemma; auto.
  Qed.
End HFloat.
