(* C01 model: the token readers of scanner.go written against the scanner's interface
   (PeekN + advance, ScanBytes), as programs of BufSrc.prog.  They follow the Go functions call
   by call; Scan.v/Names.v/Strings.v/Num.v are the same readers over plain byte lists, and
   ReadersProofs.v shows that the two agree.  Definitions only. *)
From Coq Require Import List NArith ZArith Bool.
From GoPdf.Base Require Import Bytes Res.
From GoPdf.C01 Require Import Lex Obj Num Names Strings Scan BufSrc.
Import ListNotations.
Open Scope N_scope.

(* the captured variables of the three ScanBytes closures of scanner.go's token readers *)
Inductive cstate :=
| CWs (cmt : bool)                                  (* SkipWhiteSpace: isComment *)
| CNum (t : bytes) (hd first : bool)                (* ReadNumber: res (reversed), hasDot, first *)
| CHex (hv : option N) (acc : bytes) (tl : bool).   (* ReadHexString: hexVal/first, res, tooLong *)
Notation rprog := (prog cstate).

(* s.ReadByte(): PeekN(1), pos++ *)
Definition read_byte {A} (k : option byte -> rprog A) : rprog A :=
  Peek 1 (fun _ => 1%nat) (fun w => k (hd_error w)).

Fixpoint pbind {St A B} (p : prog St A) (f : A -> prog St B) : prog St B :=
  match p with
  | Ret a => f a
  | Peek n adv k => Peek n adv (fun w => pbind (k w) f)
  | Scan a0 acc k => Scan a0 acc (fun a e => pbind (k a e) f)
  end.
Definition pmap {St A B} (f : A -> B) (p : prog St A) : prog St B := pbind p (fun a => Ret (f a)).

(* ---- SkipWhiteSpace: ScanBytes with the captured isComment ---- *)
Definition ws_acc (a : cstate) (b : byte) : cstate * bool :=
  match a with
  | CWs cmt =>
    if cmt then (CWs (negb ((b =? cCR) || (b =? cLF))), true)
    else if b =? cPCT then (CWs true, true)
    else (CWs false, is_space b)
  | _ => (a, false)
  end.
Definition skip_ws_p : rprog (res unit) :=
  Scan (CWs false) ws_acc (fun _ e => Ret (if e then Err EOF else Ok tt)).

(* ---- SkipString(one byte) ---- *)
Definition skip1_adv (c : byte) (w : bytes) : nat :=
  match w with b :: _ => if b =? c then 1%nat else 0%nat | [] => 0%nat end.

(* ---- ReadName ---- *)
(* pos++ at the end of the loop body: not for "#" (tryHex decides), not at a delimiter *)
Definition name_adv (L : limits) (acc : bytes) (w : bytes) : nat :=
  match w with
  | b :: _ =>
    if max_name L <=? blen acc then 0%nat
    else if b =? cHASH then 0%nat
    else if negb (is_regular b) then 0%nat else 1%nat
  | [] => 0%nat
  end.
(* tryHex: PeekN(3); three bytes with two hex digits: pos += 3; else the caller's pos++ *)
Definition hex_ok (d : bytes) : bool :=
  match d with [_; h; l] => is_hex h && is_hex l | _ => false end.
Fixpoint read_name_loop_p (L : limits) (fuel : nat) (acc : bytes) : rprog (res bytes) :=
  match fuel with
  | O => Ret (Err OutOfFuel)
  | S f =>
    Peek 1 (name_adv L acc) (fun w =>
      match w with
      | [] => Ret (Ok (rev acc))
      | b :: _ =>
        if max_name L <=? blen acc then Ret (Err Malformed)
        else if b =? cHASH then
          Peek 3 (fun d => if hex_ok d then 3%nat else 1%nat) (fun d =>
            match d with
            | [_; h; l] =>
              if is_hex h && is_hex l
              then read_name_loop_p L f ((16 * hex_val h + hex_val l) mod 256 :: acc)
              else read_name_loop_p L f (cHASH :: acc)
            | _ => read_name_loop_p L f (cHASH :: acc)
            end)
        else if negb (is_regular b) then Ret (Ok (rev acc))
        else read_name_loop_p L f (b :: acc)
      end)
  end.
Definition read_name_p (L : limits) (fuel : nat) : rprog (res bytes) :=
  Peek 1 (skip1_adv cSLASH) (fun w =>
    match w with
    | b :: _ => if b =? cSLASH then read_name_loop_p L fuel [] else Ret (Err Malformed)
    | [] => Ret (Err Malformed)
    end).

(* ---- ReadNumber: ScanBytes with the captured res (reversed), hasDot, first ---- *)
Definition num_acc (a : cstate) (b : byte) : cstate * bool :=
  match a with
  | CNum t hd first =>
    if negb hd && (b =? cDOT) then (CNum (b :: t) true false, true)
    else if (first && ((b =? cPLUS) || (b =? cMINUS))) || is_digit b then (CNum (b :: t) hd false, true)
    else (a, false)
  | _ => (a, false)
  end.
Definition number_of (L : limits) (t : bytes) (hd : bool) : res obj :=
  if max_name L <? blen t then Err Malformed
  else
    match (if hd then None else parse_int_tok t) with
    | Some z => Ok (OInt z)
    | None => if float_ok t then Ok (OReal t) else Err Malformed
    end.
Definition read_number_p (L : limits) : rprog (res obj) :=
  Scan (CNum [] false true) num_acc
       (fun a _ => match a with CNum t hd _ => Ret (number_of L (rev t) hd) | _ => Ret (Err Other) end).

(* ---- ReadString, after the "(" ---- *)
Definition oct_adv (w : bytes) : nat :=
  match w with d :: _ => if is_oct d then 1%nat else 0%nat | [] => 0%nat end.
Fixpoint read_str_p (L : limits) (fuel : nat) (lvl : nat) (ignoreLF : bool) (acc : bytes)
  : rprog (res bytes) :=
  match fuel with
  | O => Ret (Err OutOfFuel)
  | S f =>
    if max_str L <=? blen acc then Ret (Err Malformed)
    else
    read_byte (fun ob =>
      match ob with
      | None => Ret (Err EOF)
      | Some b =>
        if ignoreLF && (b =? cLF) then read_str_p L f lvl false acc
        else if b =? cLP then read_str_p L f (S lvl) false (b :: acc)
        else if b =? cRP then
          (match lvl with
           | O => Ret (Ok (rev acc))
           | S l' => read_str_p L f l' false (b :: acc)
           end)
        else if b =? cBS then
          read_byte (fun oe =>
            match oe with
            | None => Ret (Err EOF)
            | Some e =>
              if e =? 110 then read_str_p L f lvl false (cLF :: acc)
              else if e =? 114 then read_str_p L f lvl false (cCR :: acc)
              else if e =? 116 then read_str_p L f lvl false (cTAB :: acc)
              else if e =? 98 then read_str_p L f lvl false (cBSP :: acc)
              else if e =? 102 then read_str_p L f lvl false (cFF :: acc)
              else if e =? cLF then read_str_p L f lvl false acc
              else if e =? cCR then read_str_p L f lvl true acc
              else if is_oct e then
                Peek 1 oct_adv (fun w1 =>
                  match w1 with
                  | d1 :: _ =>
                    if is_oct d1 then
                      Peek 1 oct_adv (fun w2 =>
                        match w2 with
                        | d2 :: _ =>
                          if is_oct d2
                          then read_str_p L f lvl false
                                 (((e - c0) * 64 + (d1 - c0) * 8 + (d2 - c0)) mod 256 :: acc)
                          else read_str_p L f lvl false (((e - c0) * 8 + (d1 - c0)) :: acc)
                        | [] => read_str_p L f lvl false (((e - c0) * 8 + (d1 - c0)) :: acc)
                        end)
                    else read_str_p L f lvl false ((e - c0) :: acc)
                  | [] => read_str_p L f lvl false ((e - c0) :: acc)
                  end)
              else read_str_p L f lvl false (e :: acc)
            end)
        else if b =? cCR then read_str_p L f lvl true (cLF :: acc)
        else read_str_p L f lvl false (b :: acc)
      end)
  end.
Definition read_string_p (L : limits) (fuel : nat) : rprog (res bytes) := read_str_p L fuel 0 false [].

(* ---- ReadHexString, after the "<": ScanBytes with the captured hexVal/first, res, tooLong ---- *)
Definition hex_acc (L : limits) (a : cstate) (b : byte) : cstate * bool :=
  match a with
  | CHex hv acc tl =>
    if is_hex b then
      match hv with
      | None => (CHex (Some (hex_val b)) acc tl, true)
      | Some h =>
        if max_str L <=? blen acc then (CHex hv acc true, false)
        else (CHex None ((16 * h + hex_val b) mod 256 :: acc) tl, true)
      end
    else if b =? cGT then (a, false)
    else (a, true)
  | _ => (a, false)
  end.
Definition read_hex_p (L : limits) : rprog (res bytes) :=
  Scan (CHex None [] false) (hex_acc L) (fun a e =>
    match a with CHex hv acc tl =>
    if e then Ret (Err EOF)
    else if tl then Ret (Err Malformed)
    else
      Peek 1 (skip1_adv cGT) (fun w =>
        match w with
        | b :: _ =>
          if b =? cGT
          then Ret (Ok (rev (match hv with Some h => (16 * h) mod 256 :: acc | None => acc end)))
          else Ret (Err Malformed)
        | [] => Ret (Err Malformed)
        end)
    | _ => Ret (Err Other) end).

(* ---- ReadObject on the non-composite values: PeekN(5) and the dispatch ---- *)
Definition atom_adv (w : bytes) : nat :=
  match w with
  | b :: _ =>
    if starts_with kw_null w then 4%nat
    else if starts_with kw_true w then 4%nat
    else if starts_with kw_false w then 5%nat
    else if b =? cSLASH then 0%nat
    else if num_start b then 0%nat
    else if starts_with kw_ltlt w then 0%nat
    else if b =? cLP then 1%nat
    else if b =? cLT then 1%nat
    else 0%nat
  | [] => 0%nat
  end.
Definition read_atom_p (L : limits) (fuel : nat) : rprog (res obj) :=
  Peek 5 atom_adv (fun w =>
    match w with
    | [] => Ret (Err Malformed)
    | b :: _ =>
      if starts_with kw_null w then Ret (Ok ONull)
      else if starts_with kw_true w then Ret (Ok (OBool true))
      else if starts_with kw_false w then Ret (Ok (OBool false))
      else if b =? cSLASH then
        pmap (fun r => match r with Ok n => Ok (OName n) | Err e => Err e end) (read_name_p L fuel)
      else if num_start b then read_number_p L
      else if starts_with kw_ltlt w then Ret (Err Other)       (* composite: not an atom *)
      else if b =? cLP then
        pmap (fun r => match r with Ok v => Ok (OStr v) | Err e => Err e end) (read_string_p L fuel)
      else if b =? cLT then
        pmap (fun r => match r with Ok v => Ok (OStr v) | Err e => Err e end) (read_hex_p L)
      else if b =? cLB then Ret (Err Other)                    (* composite *)
      else Ret (Err Malformed)
    end).

(* a sequence of atoms separated as ReadArray separates them, up to the end of the input:
   what the hook's wrapper array holds when the input has no composite values and no "R" *)
Fixpoint read_atoms_p (L : limits) (fuel : nat) (n : nat) (acc : list obj) : rprog (res (list obj)) :=
  match n with
  | O => Ret (Err OutOfFuel)
  | S n' =>
    pbind skip_ws_p (fun r =>
      match r with
      | Err _ => Ret (Ok (rev acc))
      | Ok _ =>
        pbind (read_atom_p L fuel) (fun ro =>
          match ro with
          | Ok o => read_atoms_p L fuel n' (o :: acc)
          | Err e => Ret (Err (eof_mal e))
          end)
      end)
  end.

(* the buffer of scanner.go: make([]byte, scannerBufSize) *)
Definition scanner_buf : nat := Z.to_nat Gen_C01.scannerBufSize.
(* a scanner over a reader that delivers [chunks]; ReadFull makes [eager] immaterial *)
Definition scanner_start (chunks : list bytes) : bstate := bstart scanner_buf chunks false.
(* the values in a flat sequence of atoms, read through the buffer *)
Definition read_atoms_buffered (L : limits) (buf : nat) (chunks : list bytes) : res (list obj) :=
  let n := S (length (concat chunks)) in
  fst (run_buf buf true (read_atoms_p L n n []) (bstart buf chunks false)).
Definition read_atoms_list (L : limits) (s : bytes) : res (list obj) :=
  let n := S (length s) in fst (run_list (read_atoms_p L n n []) s).
