(* C01 model, part 4: names.  types.go formatName, scanner.go ReadName/tryHex,
   types.go ParseName.  Definitions only. *)
From Coq Require Import List NArith ZArith Bool.
From GoPdf.Base Require Import Bytes Res.
From GoPdf.C01 Require Import Lex.
Import ListNotations.
Open Scope N_scope.

(* formatName: bytes written as #xx *)
Definition funny (c : byte) : bool :=
  negb (is_regular c) || (c <? 33) || (126 <? c) || (c =? cHASH).

Fixpoint fmt_name_body (n : bytes) : bytes :=
  match n with
  | [] => []
  | c :: r =>
    if funny c then cHASH :: hex_digit (c / 16) :: hex_digit (c mod 16) :: fmt_name_body r
    else c :: fmt_name_body r
  end.
Definition fmt_name (n : bytes) : bytes := cSLASH :: fmt_name_body n.

(* the loop of ReadName, after the "/" *)
Fixpoint read_name_loop (L : limits) (acc : bytes) (s : bytes) : res (bytes * bytes) :=
  match s with
  | [] => Ok (rev acc, [])
  | b :: r =>
    if max_name L <=? blen acc then Err Malformed
    else if b =? cHASH then
      match r with
      | h :: l :: r' =>
        if is_hex h && is_hex l then read_name_loop L ((16 * hex_val h + hex_val l) mod 256 :: acc) r'
        else read_name_loop L (cHASH :: acc) r
      | _ => read_name_loop L (cHASH :: acc) r
      end
    else if negb (is_regular b) then Ok (rev acc, s)
    else read_name_loop L (b :: acc) r
  end.

(* where the loop of ReadName stands when it gives up with "name too long" (ReadDict goes on
   from there: it takes any error of ReadName for the end of the dictionary) *)
Fixpoint read_name_loop_stop (L : limits) (acc : bytes) (s : bytes) : bytes :=
  match s with
  | [] => []
  | b :: r =>
    if max_name L <=? blen acc then s
    else if b =? cHASH then
      match r with
      | h :: l :: r' =>
        if is_hex h && is_hex l then read_name_loop_stop L ((16 * hex_val h + hex_val l) mod 256 :: acc) r'
        else read_name_loop_stop L (cHASH :: acc) r
      | _ => read_name_loop_stop L (cHASH :: acc) r
      end
    else if negb (is_regular b) then s
    else read_name_loop_stop L (b :: acc) r
  end.
(* the position after a failed ReadName: nothing is consumed unless the "/" was there *)
Definition read_name_stop (L : limits) (s : bytes) : bytes :=
  match s with
  | b :: r => if b =? cSLASH then read_name_loop_stop L [] r else s
  | [] => s
  end.

(* ReadName: SkipString("/") then the loop *)
Definition read_name (L : limits) (s : bytes) : res (bytes * bytes) :=
  match s with
  | b :: r => if b =? cSLASH then read_name_loop L [] r else Err Malformed
  | [] => Err Malformed
  end.

(* ParseName: the whole buffer must be one name *)
Definition parse_name (L : limits) (s : bytes) : res bytes :=
  match s with
  | b :: _ =>
    if b =? cSLASH then
      match read_name L s with
      | Ok (n, []) => Ok n
      | Ok (_, _ :: _) => Err Other
      | Err e => Err e
      end
    else Err Other
  | [] => Err Other
  end.
