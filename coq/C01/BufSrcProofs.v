(* Buffering transparency: a reader written against PeekN/advance/ScanBytes returns the same
   result over the buffered source as over the plain byte list, for every buffer size that holds
   the largest window, every refill policy and every chunking of the underlying reader. *)
From Coq Require Import List NArith Arith Bool Lia.
From GoPdf.Base Require Import Bytes Res.
From GoPdf.C01 Require Import BufSrc.
Import ListNotations.
Local Open Scope nat_scope.

(* ---- the underlying reader ---- *)
Lemma put_back_concat c r : concat (put_back c r) = c ++ concat r.
Proof. destruct c; reflexivity. Qed.
Lemma put_back_ne c r : Forall nonempty r -> Forall nonempty (put_back c r).
Proof. intros H. destruct c; [exact H|]. constructor; [discriminate|exact H]. Qed.

Lemma read_once_spec space src d src' :
  read_once space src = (d, src') ->
  d ++ concat src' = concat src /\ length d <= space /\
  (Forall nonempty src -> Forall nonempty src') /\
  (Forall nonempty src -> src <> [] -> 1 <= space -> 1 <= length d).
Proof.
  destruct src as [|c r]; cbn [read_once]; intros E; inversion E; subst; clear E.
  - repeat split; auto; try (intros; congruence). cbn; lia.
  - split; [|split; [|split]].
    + rewrite put_back_concat, app_assoc, firstn_skipn. reflexivity.
    + rewrite firstn_length. lia.
    + intros H. inversion H; subst. apply put_back_ne; assumption.
    + intros H _ Hs. inversion H as [|? ? Hc]; subst. rewrite firstn_length.
      destruct c; [exfalso; apply Hc; reflexivity|]. cbn [length]. lia.
Qed.

Lemma read_full_spec : forall src space d src',
  read_full space src = (d, src') ->
  d ++ concat src' = concat src /\ length d <= space /\
  (Forall nonempty src -> Forall nonempty src') /\
  (length d < space -> src' = []).
Proof.
  induction src as [|c r IH]; intros space d src' E; cbn [read_full] in E.
  - inversion E; subst. repeat split; auto; cbn; lia.
  - destruct (Nat.leb_spec space (length c)) as [Hle|Hgt].
    + inversion E; subst; clear E. split; [|split; [|split]].
      * rewrite put_back_concat, app_assoc, firstn_skipn. reflexivity.
      * rewrite firstn_length. lia.
      * intros H. inversion H; subst. apply put_back_ne; assumption.
      * rewrite firstn_length. lia.
    + destruct (read_full (space - length c) r) as [d0 r0] eqn:E0. inversion E; subst; clear E.
      destruct (IH _ _ _ E0) as (H1 & H2 & H3 & H4). split; [|split; [|split]].
      * cbn [concat]. rewrite <- app_assoc, H1. reflexivity.
      * rewrite app_length. lia.
      * intros H. inversion H; subst. auto.
      * rewrite app_length. intros H. apply H4. lia.
Qed.

Lemma skipn_plus {A} k : forall p (l : list A), skipn k (skipn p l) = skipn (p + k) l.
Proof.
  induction p as [|p IH]; intros l; [reflexivity|].
  destruct l; cbn [skipn Nat.add]; [apply skipn_nil | apply IH].
Qed.

(* ---- windows ---- *)
Section Laws.
  Variable BUF : nat.
  Variable full : bool.

  Lemma window_length st : binv BUF st -> length (window st) = b_used st - b_pos st.
  Proof.
    intros (Hb & Hp & Hu & _). unfold window. rewrite firstn_length, skipn_length. lia.
  Qed.

  Lemma window_advance st k : k <= length (window st) ->
    window (advance k st) = skipn k (window st).
  Proof.
    intros Hk. unfold window in Hk. unfold window, advance. cbn [b_buf b_pos b_used].
    rewrite <- skipn_plus.
    set (l := skipn (b_pos st) (b_buf st)) in *.
    set (m := b_used st - b_pos st) in *.
    replace (b_used st - (b_pos st + k)) with (m - k) by lia.
    assert (Hm : k <= m). { rewrite firstn_length in Hk. lia. }
    rewrite firstn_skipn_comm. replace (k + (m - k)) with m by lia. reflexivity.
  Qed.

  Lemma view_advance st k : k <= length (window st) ->
    view (advance k st) = skipn k (view st).
  Proof.
    intros Hk. unfold view. rewrite window_advance by exact Hk. cbn [advance b_src].
    rewrite skipn_app. replace (k - length (window st)) with 0 by lia. reflexivity.
  Qed.

  Lemma binv_advance st k : binv BUF st -> k <= length (window st) -> binv BUF (advance k st).
  Proof.
    intros H Hk. rewrite (window_length _ H) in Hk. destruct H as (Hb & Hp & Hu & Hs & He).
    unfold binv, advance. cbn. repeat split; auto; lia.
  Qed.

  (* the state refill builds *)
  Lemma compacted_state st d src' e :
    binv BUF st -> length (window st) + length d <= BUF ->
    let st' := mkB (compacted st d) 0 (length (window st) + length d) src' (b_eager st) e in
    window st' = window st ++ d /\ length (b_buf st') = BUF /\ b_pos st' = 0 /\
    b_used st' = length (window st) + length d.
  Proof.
    intros H Hfit st'. destruct H as (Hb & Hp & Hu & _).
    subst st'. unfold window at 1. cbn [b_buf b_pos b_used skipn]. unfold compacted.
    set (w := window st) in *. split; [|split; [|split]]; try reflexivity.
    - rewrite Nat.sub_0_r, app_assoc, <- (app_length w d), firstn_app, Nat.sub_diag, firstn_all.
      cbn [firstn]. rewrite app_nil_r. reflexivity.
    - rewrite !app_length, skipn_length. lia.
  Qed.

  Lemma refill_spec st st' err :
    binv BUF st -> refill BUF full st = (st', err) ->
    binv BUF st' /\ view st' = view st /\
    (exists d, window st' = window st ++ d /\
       (full = true -> err = false /\ b_pos st' = 0 /\ (length (window st') < BUF -> b_src st' = [])) /\
       (full = false -> if err then d = [] /\ b_src st' = []
                        else b_pos st' = 0 /\ (length (window st) < BUF -> 1 <= length d))).
  Proof.
    intros H E. pose proof H as (Hb & Hp & Hu & Hs & He).
    pose proof (window_length _ H) as Hwl.
    unfold refill in E. destruct full.
    - destruct (read_full (BUF - length (window st)) (b_src st)) as [d src'] eqn:Er.
      injection E as <- <-.
      destruct (read_full_spec _ _ _ _ Er) as (H1 & H2 & H3 & H4).
      assert (Hfit : length (window st) + length d <= BUF) by lia.
      destruct (compacted_state st d src' (b_err st) H Hfit) as (Hw & Hbl & Hpos & Hused).
      split; [|split].
      + unfold binv. rewrite Hbl, Hpos, Hused. cbn [b_src b_err]. repeat split; auto; try lia.
        intros Herr. specialize (He Herr). rewrite He in Er. cbn in Er. inversion Er. reflexivity.
      + unfold view at 1. rewrite Hw. cbn [b_src]. rewrite <- app_assoc, H1. reflexivity.
      + exists d. split; [exact Hw|]. split; [|discriminate].
        intros _. split; [reflexivity|]. split; [exact Hpos|].
        rewrite Hw, app_length. cbn [b_src]. intros Hlt. apply H4. lia.
    - destruct (b_err st) eqn:Eerr.
      + injection E as <- <-. split; [exact H|]. split; [reflexivity|].
        exists []. rewrite app_nil_r. split; [reflexivity|]. split; [discriminate|].
        intros _. split; [reflexivity|]. apply He. reflexivity.
      + destruct (b_src st) as [|c r] eqn:Esrc.
        * injection E as <- <-.
          assert (Hfit : length (window st) + length (@nil byte) <= BUF) by (cbn [length]; lia).
          destruct (compacted_state st [] [] true H Hfit) as (Hw & Hbl & Hpos & Hused).
          cbn [length] in *. rewrite Nat.add_0_r in *.
          split; [|split].
          -- unfold binv. rewrite Hbl, Hpos, Hused. cbn [b_src b_err]. repeat split; auto; lia.
          -- unfold view. rewrite Hw. cbn [b_src]. rewrite Esrc, app_nil_r. reflexivity.
          -- exists []. split; [exact Hw|]. split; [discriminate|]. intros _. split; reflexivity.
        * rewrite <- Esrc in *.
          destruct (read_once (BUF - length (window st)) (b_src st)) as [d src'] eqn:Er.
          injection E as <- <-.
          destruct (read_once_spec _ _ _ _ Er) as (H1 & H2 & H3 & H4).
          assert (Hfit : length (window st) + length d <= BUF) by lia.
          match goal with |- binv _ (mkB _ _ _ _ _ ?e) /\ _ => set (ee := e) end.
          destruct (compacted_state st d src' ee H Hfit) as (Hw & Hbl & Hpos & Hused).
          split; [|split].
          -- unfold binv. rewrite Hbl, Hpos, Hused. cbn [b_src b_err]. repeat split; auto; try lia.
             subst ee. destruct d; [discriminate|]. destruct src'; [reflexivity|discriminate].
          -- unfold view at 1. rewrite Hw. cbn [b_src]. rewrite <- app_assoc, H1. reflexivity.
          -- exists d. split; [exact Hw|]. split; [discriminate|]. intros _.
             split; [exact Hpos|]. intros Hlt. apply H4; [exact Hs | rewrite Esrc; discriminate | lia].
  Qed.

  Lemma firstn_view st n : n <= length (window st) \/ b_src st = [] ->
    firstn n (window st) = firstn n (view st).
  Proof.
    unfold view. intros [H|H].
    - rewrite firstn_app. replace (n - length (window st)) with 0 by lia.
      cbn [firstn]. rewrite app_nil_r. reflexivity.
    - rewrite H. cbn [concat]. rewrite app_nil_r. reflexivity.
  Qed.

  Lemma guard_window st n : binv BUF st ->
    Nat.ltb (b_used st) (b_pos st + n) = Nat.ltb (length (window st)) n.
  Proof.
    intros H. rewrite (window_length _ H). destruct H as (_ & Hp & _).
    destruct (Nat.ltb_spec (b_used st) (b_pos st + n)), (Nat.ltb_spec (b_used st - b_pos st) n); try reflexivity; lia.
  Qed.

  Lemma peek_loop_spec n : n <= BUF -> full = false -> forall fuel st,
    binv BUF st -> (n - length (window st)) + 1 <= fuel ->
    let st' := peek_loop BUF full fuel n st in
    binv BUF st' /\ view st' = view st /\ (n <= length (window st') \/ b_src st' = []).
  Proof.
    intros Hn Hfull. induction fuel as [|f IH]; intros st H Hf; [lia|].
    cbn [peek_loop]. rewrite (guard_window _ _ H).
    destruct (Nat.ltb_spec (length (window st)) n) as [Hlt|Hge].
    - destruct (refill BUF full st) as [st1 err] eqn:Er.
      destruct (refill_spec _ _ _ H Er) as (H1 & Hv & d & Hw & _ & Hc).
      specialize (Hc Hfull). destruct err.
      + destruct Hc as (_ & Hsrc). cbv zeta. auto.
      + destruct Hc as (_ & Hgain). assert (1 <= length d) by (apply Hgain; lia).
        assert (Hl1 : length (window st1) = length (window st) + length d) by (rewrite Hw, app_length; reflexivity).
        destruct (IH st1 H1) as (A & B & C); [lia|]. cbv zeta. rewrite <- Hv. auto.
    - cbv zeta. auto.
  Qed.

  Lemma peek_spec st n : binv BUF st -> n <= BUF ->
    let (w, st') := peekN BUF full n st in
    w = firstn n (view st) /\ view st' = view st /\ binv BUF st' /\ length w <= length (window st').
  Proof.
    intros H Hn. unfold peekN.
    set (st1 := if full then _ else _).
    assert (Hst1 : binv BUF st1 /\ view st1 = view st /\ (n <= length (window st1) \/ b_src st1 = [])).
    { subst st1. destruct full eqn:Hfull.
      - rewrite (guard_window _ _ H).
        destruct (Nat.ltb_spec (length (window st)) n) as [Hlt|Hge]; [|auto].
        destruct (refill BUF true st) as [st2 err] eqn:Er. cbn [fst].
        rewrite <- Hfull in Er.
        destruct (refill_spec _ _ _ H Er) as (H1 & Hv & d & Hw & Hc & _).
        destruct (Hc Hfull) as (_ & _ & Hsrc). split; [exact H1|]. split; [exact Hv|].
        destruct (Nat.le_gt_cases n (length (window st2))); [left; assumption|right; apply Hsrc; lia].
      - rewrite <- Hfull. apply peek_loop_spec; auto. lia. }
    destruct Hst1 as (A & B & C).
    split; [|split; [|split]]; auto.
    - rewrite <- B. apply firstn_view. exact C.
    - rewrite firstn_length. lia.
  Qed.

  (* ---- ScanBytes ---- *)
  Section ScanLaws.
    Context {St : Type}.
    Variable acc : St -> byte -> St * bool.

    Lemma scan_list_app : forall w a t,
      let '(a1, rest, ex) := scan_list acc a w in
      scan_list acc a (w ++ t) = (if ex then scan_list acc a1 t else (a1, rest ++ t, false)) /\
      (exists pre, w = pre ++ rest) /\ (ex = true -> rest = []).
    Proof.
      induction w as [|b r IH]; intros a t; cbn [scan_list app].
      - split; [reflexivity|]. split; [exists []; reflexivity | reflexivity].
      - destruct (acc a b) as [a' [|]] eqn:Ea.
        + specialize (IH a' t). destruct (scan_list acc a' r) as [[a1 rest] ex].
          destruct IH as (H1 & (pre & H2) & H3). split; [exact H1|]. split; [|exact H3].
          exists (b :: pre). rewrite H2 at 1. reflexivity.
        + split; [reflexivity|]. split; [exists []; reflexivity | discriminate].
    Qed.

    Lemma scan_buf_spec : full = true -> 1 <= BUF -> forall fuel a st,
      binv BUF st ->
      length (view st) + (match window st with [] => 1 | _ => 0 end) < fuel ->
      let '(a', st', e) := scan_buf BUF full acc fuel a st in
      scan_list acc a (view st) = (a', view st', e) /\ binv BUF st'.
    Proof.
      intros Hfull HB. induction fuel as [|f IH]; intros a st H Hf; [lia|].
      cbn [scan_buf].
      pose proof (scan_list_app (window st) a (concat (b_src st))) as Happ.
      destruct (scan_list acc a (window st)) as [[a1 rest] ex] eqn:Ew.
      destruct Happ as (H1 & (pre & Hpre) & Hex).
      change (window st ++ concat (b_src st)) with (view st) in H1.
      assert (Hk : length (window st) - length rest = length pre).
      { rewrite Hpre at 1. rewrite app_length. lia. }
      assert (Hk' : length pre <= length (window st)) by lia.
      rewrite Hk.
      pose proof (view_advance st _ Hk') as Hv0.
      pose proof (binv_advance st _ H Hk') as Hi0.
      assert (Hv0' : view (advance (length pre) st) = rest ++ concat (b_src st)).
      { rewrite Hv0. unfold view. rewrite Hpre at 1. rewrite <- app_assoc, skipn_app, Nat.sub_diag, skipn_all.
        reflexivity. }
      destruct ex.
      - specialize (Hex eq_refl). subst rest. cbn [app] in Hv0'.
        set (st0 := advance (length pre) st) in *.
        destruct (refill BUF full st0) as [st1 err] eqn:Er. cbn [fst].
        destruct (refill_spec _ _ _ Hi0 Er) as (Hi1 & Hv1 & d & Hw & Hc & _).
        destruct (Hc Hfull) as (_ & Hpos1 & Hsrc1).
        pose proof (window_length _ Hi1) as Hwl1. rewrite Hpos1, Nat.sub_0_r in Hwl1.
        rewrite H1.
        destruct (Nat.eqb_spec (b_used st1) 0) as [Hz|Hnz].
        + assert (Hs1 : b_src st1 = []) by (apply Hsrc1; lia).
          assert (Hvz : view st1 = []).
          { unfold view. rewrite Hs1. destruct (window st1); [reflexivity|cbn in Hwl1; lia]. }
          rewrite Hvz. rewrite Hvz, Hv0' in Hv1. rewrite <- Hv1. cbn [scan_list]. auto.
        + specialize (IH a1 st1 Hi1).
          destruct (scan_buf BUF full acc f a1 st1) as [[a' st'] e].
          rewrite <- Hv0', <- Hv1. apply IH.
          destruct (window st1) eqn:Ew1; [cbn in Hwl1; lia|].
          rewrite Hv1, Hv0'. unfold view in Hf. rewrite app_length in Hf.
          destruct (window st); cbn [length] in Hf; lia.
      - split; [|exact Hi0]. rewrite H1, Hv0'. reflexivity.
    Qed.
  End ScanLaws.
End Laws.

(* ---- the general theorem ---- *)
Theorem run_buf_list BUF full : 1 <= BUF -> forall {St A} (p : prog St A),
  wf_prog BUF full p -> forall st, binv BUF st ->
  let (a, st') := run_buf BUF full p st in
  run_list p (view st) = (a, view st') /\ binv BUF st'.
Proof.
  intros HB St A p. induction p as [a | n adv k IH | a0 acc k IH]; intros Hwf st Hi.
  - cbn [run_buf run_list]. auto.
  - destruct Hwf as (Hn & Hk). cbn [run_buf run_list].
    pose proof (peek_spec BUF full st n Hi Hn) as Hp.
    destruct (peekN BUF full n st) as [w st1]. destruct Hp as (Hw & Hv & Hi1 & Hlen).
    rewrite <- Hw.
    set (m := Nat.min (adv w) (length w)).
    assert (Hm : m <= length (window st1)) by (subst m; lia).
    specialize (IH w (Hk w) (advance m st1) (binv_advance BUF st1 m Hi1 Hm)).
    rewrite (view_advance st1 m Hm), Hv in IH. exact IH.
  - destruct Hwf as (Hfull & Hk). cbn [run_buf run_list].
    pose proof (scan_buf_spec BUF full acc Hfull HB (S (S (length (view st)))) a0 st Hi) as Hs.
    destruct (scan_buf BUF full acc (S (S (length (view st)))) a0 st) as [[a st1] e].
    destruct Hs as (Hs & Hi1). { destruct (window st); lia. }
    rewrite Hs. apply IH; [apply Hk | exact Hi1].
Qed.

(* the initial state of a scanner *)
Lemma binv_start BUF chunks eager : Forall nonempty chunks -> binv BUF (bstart BUF chunks eager).
Proof.
  intros H. unfold binv, bstart. cbn. rewrite repeat_length. repeat split; auto; try lia; try discriminate.
Qed.
Lemma view_start BUF chunks eager : view (bstart BUF chunks eager) = concat chunks.
Proof. unfold view, window, bstart. cbn. reflexivity. Qed.
