(* C01 model, part 3: numbers.  doFormat's Integer/Real cases, scanner.ReadNumber and
   scanner.ReadInteger.  Decimal <-> integer conversion (strconv.FormatInt / ParseInt) is Coq's
   own Decimal library; strconv.FormatFloat / ParseFloat are outside the model: a real number
   is its token (H-float), and only ParseFloat's accept/reject behaviour on the tokens the
   scanner can hand it is modelled ([float_ok]).  Definitions only. *)
From Coq Require Import List NArith ZArith Bool Decimal.
From GoPdf.Base Require Import Bytes Res.
From GoPdf.C01 Require Import Lex Obj.
Import ListNotations.
Open Scope N_scope.

(* ---- decimal digits ---- *)
Fixpoint uint_to_bytes (d : uint) : bytes :=
  match d with
  | Nil => []
  | D0 r => 48 :: uint_to_bytes r | D1 r => 49 :: uint_to_bytes r
  | D2 r => 50 :: uint_to_bytes r | D3 r => 51 :: uint_to_bytes r
  | D4 r => 52 :: uint_to_bytes r | D5 r => 53 :: uint_to_bytes r
  | D6 r => 54 :: uint_to_bytes r | D7 r => 55 :: uint_to_bytes r
  | D8 r => 56 :: uint_to_bytes r | D9 r => 57 :: uint_to_bytes r
  end.
Definition digit_cons (b : byte) (r : uint) : uint :=
  match b - c0 with
  | 0 => D0 r | 1 => D1 r | 2 => D2 r | 3 => D3 r | 4 => D4 r
  | 5 => D5 r | 6 => D6 r | 7 => D7 r | 8 => D8 r | _ => D9 r
  end.
Fixpoint digits_to_uint (s : bytes) : uint :=
  match s with
  | [] => Nil
  | b :: r => digit_cons b (digits_to_uint r)
  end.
Definition digits_val (s : bytes) : Z := Z.of_uint (digits_to_uint s).
Definition all_digits (s : bytes) : bool := forallb is_digit s.

(* strconv.FormatInt(z, 10) *)
Definition print_int (z : Z) : bytes :=
  match Z.to_int z with
  | Decimal.Pos d => uint_to_bytes d
  | Decimal.Neg d => cMINUS :: uint_to_bytes d
  end.

Definition in_int64 (z : Z) : bool := ((- 2 ^ 63 <=? z) && (z <=? 2 ^ 63 - 1))%Z.

Definition strip_sign (t : bytes) : bool * bytes :=
  match t with
  | b :: r => if b =? cMINUS then (true, r) else if b =? cPLUS then (false, r) else (false, t)
  | [] => (false, [])
  end.

(* strconv.ParseInt(t, 10, 64): None for a syntax or a range error *)
Definition parse_int_tok (t : bytes) : option Z :=
  let '(neg, ds) := strip_sign t in
  match ds with
  | [] => None
  | _ =>
    if all_digits ds then
      let v := digits_val ds in
      let z := if neg then (- v)%Z else v in
      if in_int64 z then Some z else None
    else None
  end.

(* ---- what ParseFloat does with a token of sign, digits and at most one dot ---- *)
Fixpoint strip_zeros (s : bytes) : bytes :=
  match s with
  | b :: r => if b =? c0 then strip_zeros r else s
  | [] => []
  end.
Fixpoint take_digits (s : bytes) : bytes :=
  match s with
  | b :: r => if is_digit b then b :: take_digits r else []
  | [] => []
  end.
(* 2^1024 - 2^970: the least magnitude that rounds to infinity *)
Definition float_threshold : Z := (2 ^ 1024 - 2 ^ 970)%Z.
Definition real_overflow (t : bytes) : bool :=
  let ip := strip_zeros (take_digits (snd (strip_sign t))) in
  let n := blen ip in
  if n <=? 308 then false
  else if 310 <=? n then true
  else (float_threshold <=? digits_val ip)%Z.
Definition float_ok (t : bytes) : bool :=
  existsb is_digit t && negb (real_overflow t).

(* ---- the token grammar of strconv.FormatFloat(x, 'f', -1, 64): -?[0-9]+(\.[0-9]+)? ---- *)
Fixpoint drop_digits (s : bytes) : bytes :=
  match s with
  | b :: r => if is_digit b then drop_digits r else s
  | [] => []
  end.
Definition real_grammar (t : bytes) : bool :=
  let u := match t with b :: r => if b =? cMINUS then r else t | [] => [] end in
  match take_digits u with
  | [] => false
  | _ =>
    match drop_digits u with
    | [] => true
    | d :: fp => (d =? cDOT) && match fp with [] => false | _ => all_digits fp end
    end
  end.

(* ---- ReadNumber ---- *)
(* the accept closure of ReadNumber: token, whether a dot was seen, rest *)
Fixpoint scan_num (hasDot first : bool) (s : bytes) : bytes * bool * bytes :=
  match s with
  | [] => ([], hasDot, [])
  | b :: r =>
    if negb hasDot && (b =? cDOT) then
      let '(t, hd, rest) := scan_num true false r in (b :: t, hd, rest)
    else if (first && ((b =? cPLUS) || (b =? cMINUS))) || is_digit b then
      let '(t, hd, rest) := scan_num hasDot false r in (b :: t, hd, rest)
    else ([], hasDot, s)
  end.

Definition read_number (L : limits) (s : bytes) : res (obj * bytes) :=
  let '(t, hd, rest) := scan_num false true s in
  if max_name L <? blen t then Err Malformed
  else
    match (if hd then None else parse_int_tok t) with
    | Some z => Ok (OInt z, rest)
    | None => if float_ok t then Ok (OReal t, rest) else Err Malformed
    end.

(* ---- ReadInteger (used by ReadDict for the generation number of a reference) ---- *)
Fixpoint scan_int (first : bool) (s : bytes) : bytes * bytes :=
  match s with
  | [] => ([], [])
  | b :: r =>
    if (first && ((b =? cPLUS) || (b =? cMINUS))) || is_digit b then
      let '(t, rest) := scan_int false r in (b :: t, rest)
    else ([], s)
  end.
Definition read_integer (L : limits) (s : bytes) : res (Z * bytes) :=
  match skip_ws s with
  | Err e => Err e
  | Ok s1 =>
    let '(t, rest) := scan_int true s1 in
    if max_name L <? blen t then Err Malformed
    else match parse_int_tok t with
         | Some z => Ok (z, rest)
         | None => Err Malformed
         end
  end.

(* doFormat, case Real: the token with a forced "." *)
Definition fmt_real (t : bytes) : bytes := force_dot t.
