(* C01 model, part 7: scanner.go ReadObject / ReadArray / ReadDict on explicit fuel.
   The input is the list of bytes not yet consumed; every function returns the value and the
   rest.  Inside ReadArray/ReadDict an io.EOF becomes a MalformedFileError (the deferred
   functions there), which [eof_mal] does.  Definitions only. *)
From Coq Require Import List NArith ZArith Bool.
From GoPdf.Base Require Import Bytes Res.
From GoPdf.C01 Require Import Lex Obj Num Names Strings.
Import ListNotations.
Open Scope N_scope.

Definition eof_mal (c : cls) : cls := match c with EOF => Malformed | _ => c end.

(* the value ReadArray/ReadDict store for "a b R" *)
Definition mk_ref (a b : Z) : obj :=
  if ((a <? 0) || (max_xref <=? a) || (b <? 0) || (max_gen <? b))%Z then ONull else ORef a b.

Definition num_start (b : byte) : bool :=
  is_digit b || (b =? cPLUS) || (b =? cMINUS) || (b =? cDOT).

(* after ReadDict in ReadObject: skip white space (EOF tolerated); "stream" starts a stream,
   which a scanner without a file reader cannot read: always a MalformedFileError here *)
Definition after_dict (v : obj) (s : bytes) : res (obj * bytes) :=
  let s' := match skip_ws s with Ok t => t | Err _ => [] end in
  if starts_with kw_stream s' then Err Malformed else Ok (v, s').

Fixpoint read_object (L : limits) (fuel : nat) (d : N) (s : bytes) {struct fuel} : res (obj * bytes) :=
  match fuel with
  | O => Err OutOfFuel
  | S f =>
    match s with
    | [] => Err Malformed
    | b :: r =>
      if starts_with kw_null s then Ok (ONull, drop 4 s)
      else if starts_with kw_true s then Ok (OBool true, drop 4 s)
      else if starts_with kw_false s then Ok (OBool false, drop 5 s)
      else if b =? cSLASH then
        match read_name L s with Ok (n, s') => Ok (OName n, s') | Err e => Err e end
      else if num_start b then read_number L s
      else if starts_with kw_ltlt s then
        match read_dict L f d s with
        | Ok (v, s') => after_dict v s'
        | Err e => Err e
        end
      else if b =? cLP then
        match read_string L r with Ok (v, s') => Ok (OStr v, s') | Err e => Err e end
      else if b =? cLT then
        match read_hex_string L r with Ok (v, s') => Ok (OStr v, s') | Err e => Err e end
      else if b =? cLB then read_array L f d r
      else Err Malformed
    end
  end

(* ReadArray, after the "[" *)
with read_array (L : limits) (fuel : nat) (d : N) (s : bytes) {struct fuel} : res (obj * bytes) :=
  match fuel with
  | O => Err OutOfFuel
  | S f =>
    if max_depth L <=? d then Err Malformed
    else read_arr_loop L f (d + 1) [] 0 s
  end

(* the loop of ReadArray: acc is the array so far (reversed), iseen is integersSeen *)
with read_arr_loop (L : limits) (fuel : nat) (d : N) (acc : list obj) (iseen : N) (s : bytes)
  {struct fuel} : res (obj * bytes) :=
  match fuel with
  | O => Err OutOfFuel
  | S f =>
    match skip_ws s with
    | Err e => Err (eof_mal e)
    | Ok [] => Err Malformed
    | Ok ((b :: r) as s1) =>
      if b =? cRB then
        (* the final length is checked at the closing bracket *)
        if max_arr L <? N.of_nat (length acc) then Err Malformed else Ok (OArr (rev acc), r)
      else if (2 <=? iseen) && (b =? cR) then
        match acc with
        | OInt g :: OInt n :: acc' => read_arr_loop L f d (mk_ref n g :: acc') 0 r
        | _ => Err Panic
        end
      else
        match read_object L f d s1 with
        | Err e => Err (eof_mal e)
        | Ok (o, s2) =>
          (* one element more than the limit may be held while a reference is being read *)
          if max_arr L <? N.of_nat (length acc) then Err Malformed
          else read_arr_loop L f d (o :: acc) (if is_int o then iseen + 1 else 0) s2
        end
    end
  end

(* ReadDict, at the "<<" *)
with read_dict (L : limits) (fuel : nat) (d : N) (s : bytes) {struct fuel} : res (obj * bytes) :=
  match fuel with
  | O => Err OutOfFuel
  | S f =>
    if max_depth L <=? d then Err Malformed
    else if starts_with kw_ltlt s then
      match skip_ws (drop 2 s) with
      | Err e => Err (eof_mal e)
      | Ok s1 => read_dict_loop L f (d + 1) [] s1
      end
    else Err Malformed
  end

(* the loop of ReadDict: acc is the map so far, in first-insertion order *)
with read_dict_loop (L : limits) (fuel : nat) (d : N) (acc : list (bytes * obj)) (s : bytes)
  {struct fuel} : res (obj * bytes) :=
  match fuel with
  | O => Err OutOfFuel
  | S f =>
    match read_name L s with
    | Err _ =>
      (* not a name (or a name that is too long, of which ReadName has consumed a part): the
         dictionary must end where ReadName gave up *)
      let s' := read_name_stop L s in
      if starts_with kw_gtgt s' then Ok (ODict acc, drop 2 s') else Err Malformed
    | Ok (key, s1) =>
      match skip_ws s1 with
      | Err e => Err (eof_mal e)
      | Ok s2 =>
        match read_object L f d s2 with
        | Err e => Err (eof_mal e)
        | Ok (val, s3) =>
          match skip_ws s3 with
          | Err e => Err (eof_mal e)
          | Ok s4 =>
            (* an integer may be the start of "a b R" *)
            let r :=
              match val, s4 with
              | OInt a, c :: _ =>
                if negb (c =? cSLASH) && negb (c =? cGT) then
                  match read_integer L s4 with
                  | Err e => Err (eof_mal e)
                  | Ok (g, s5) =>
                    match skip_ws s5 with
                    | Err e => Err (eof_mal e)
                    | Ok [] => Err Malformed
                    | Ok (c2 :: s6) =>
                      if c2 =? cR then
                        match skip_ws s6 with
                        | Err e => Err (eof_mal e)
                        | Ok s7 => Ok (mk_ref a g, s7)
                        end
                      else Err Malformed
                    end
                  end
                else Ok (val, s4)
              | OInt _, [] => Err Malformed
              | _, _ => Ok (val, s4)
              end in
            match r with
            | Err e => Err e
            | Ok (val', s8) =>
              if negb (dict_has acc key) && (max_dict L <=? N.of_nat (length acc)) then Err Malformed
              else read_dict_loop L f d (dict_set acc key val') s8
            end
          end
        end
      end
    end
  end.

(* What the hook VerifParseObjects does: ReadArray over data ++ "]" with a fresh scanner.
   Returns the elements and the bytes left after the closing bracket. *)
Definition scan_fuel (s : bytes) : nat := (2 * length s + 8)%nat.
Definition scan_objects_fuel (L : limits) (fuel : nat) (s : bytes) : res (list obj * bytes) :=
  match read_array L fuel 0 s with
  | Ok (OArr l, rest) => Ok (l, rest)
  | Ok (_, _) => Err Panic
  | Err e => Err e
  end.
Definition scan_objects (L : limits) (data : bytes) : res (list obj * bytes) :=
  let s := data ++ [cRB] in scan_objects_fuel L (scan_fuel s) s.

(* ---- the order of dictionary keys in a text ----
   read_dict_loop keeps the entries in the order of the text, so the scanned value of a formatted
   text shows the order in which the formatter emitted the keys.  [text_ordered]: in every
   dictionary of the value the keys are strictly increasing in the order of Dict.SortedKeys
   (Obj.key_ltb: "Type", "Subtype", then byte-wise). *)
Fixpoint keys_ordered (ks : list bytes) : bool :=
  match ks with
  | a :: ((b :: _) as r) => key_ltb a b && keys_ordered r
  | _ => true
  end.
Fixpoint text_ordered (o : obj) : bool :=
  match o with
  | OArr l => forallb text_ordered l
  | ODict l =>
    keys_ordered (map fst l) &&
    (fix go (l : list (bytes * obj)) : bool :=
       match l with [] => true | (_, v) :: r => text_ordered v && go r end) l
  | _ => true
  end.

(* ---- the scanner's nesting counter ----
   scanner.go keeps the depth in a field: ReadArray and ReadDict refuse to start when
   s.nestDepth >= maxScannerNestDepth, increment it, and a deferred function decrements it on every
   way out.  In read_object/read_array/read_dict above the depth is an argument, which is the
   same thing only if the counter is back at its old value after every value.  [events]: the
   entries and exits the scanner goes through while reading the text of a value; [run_counter]:
   the field under the discipline just described. *)
Inductive nest_ev := NEnter | NExit.
Fixpoint events (o : obj) : list nest_ev :=
  match o with
  | OArr l => NEnter :: concat (map events l) ++ [NExit]
  | ODict l =>
    NEnter ::
    (fix go (l : list (bytes * obj)) : list nest_ev :=
       match l with [] => [] | (_, v) :: r => events v ++ go r end) l ++ [NExit]
  | ONilDict => [NEnter; NExit]      (* written as "<<>>" *)
  | _ => []
  end.
Fixpoint run_counter (L : limits) (evs : list nest_ev) (d : N) : option N :=
  match evs with
  | [] => Some d
  | NEnter :: r => if max_depth L <=? d then None else run_counter L r (d + 1)
  | NExit :: r => run_counter L r (d - 1)
  end.
