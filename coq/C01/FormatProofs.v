(* Equations for the formatter and for norm, sorting lemmas, first bytes of formatted values. *)
From Coq Require Import List NArith ZArith Bool Lia Permutation.
From GoPdf.Base Require Import Bytes Res.
From GoPdf.C01 Require Import Lex Obj Num Names Strings Format Wf LexProofs NumProofs NamesProofs StringsProofs.
Import ListNotations.
Open Scope N_scope.

(* ---- induction principle for the nested type ---- *)
Section ObjInd.
  Variable P : obj -> Prop.
  Hypothesis HNull : P ONull.
  Hypothesis HBool : forall b, P (OBool b).
  Hypothesis HInt : forall z, P (OInt z).
  Hypothesis HReal : forall t, P (OReal t).
  Hypothesis HName : forall n, P (OName n).
  Hypothesis HStr : forall s, P (OStr s).
  Hypothesis HArr : forall l, Forall P l -> P (OArr l).
  Hypothesis HDict : forall l, Forall (fun kv => P (snd kv)) l -> P (ODict l).
  Hypothesis HRef : forall n g, P (ORef n g).
  Hypothesis HNilArr : P ONilArr.
  Hypothesis HNilDict : P ONilDict.
  Fixpoint obj_ind2 (o : obj) : P o :=
    match o with
    | ONull => HNull | OBool b => HBool b | OInt z => HInt z | OReal t => HReal t
    | OName n => HName n | OStr s => HStr s
    | OArr l => HArr l ((fix go (l : list obj) : Forall P l :=
                           match l with [] => Forall_nil _ | x :: r => Forall_cons _ (obj_ind2 x) (go r) end) l)
    | ODict l => HDict l ((fix go (l : list (bytes * obj)) : Forall (fun kv => P (snd kv)) l :=
                             match l with [] => Forall_nil _ | x :: r => Forall_cons _ (obj_ind2 (snd x)) (go r) end) l)
    | ORef n g => HRef n g | ONilArr => HNilArr | ONilDict => HNilDict
    end.
End ObjInd.

(* ---- equations ---- *)
Lemma fmt_arr_pretty_eq l : forall first,
  (fix go (first : bool) (l : list obj) : bytes :=
     match l with
     | [] => []
     | x :: r => (if first then [] else [cSP]) ++ fst (fmt_obj true false x) ++ go false r
     end) first l = fmt_list_pretty first l.
Proof.
  induction l as [|x r IH]; intro first; cbn [fmt_list_pretty]; [reflexivity|].
  rewrite IH. reflexivity.
Qed.
Lemma fmt_arr_plain_eq l : forall s,
  (fix go (sep : bool) (l : list obj) : bytes :=
     match l with
     | [] => []
     | x :: r => let '(t, sep') := fmt_obj false sep x in t ++ go sep' r
     end) s l = fmt_list_plain s l.
Proof.
  induction l as [|x r IH]; intro s; cbn [fmt_list_plain]; [reflexivity|].
  destruct (fmt_obj false s x) as [t s']. rewrite IH. reflexivity.
Qed.
Lemma fmt_obj_arr p sep l :
  fmt_obj p sep (OArr l) = ([cLB] ++ (if p then fmt_list_pretty true l else fmt_list_plain false l) ++ [cRB], false).
Proof.
  cbn [fmt_obj]. f_equal. f_equal. f_equal. destruct p.
  - apply fmt_arr_pretty_eq.
  - apply fmt_arr_plain_eq.
Qed.

Lemma fmt_obj_dict p sep l :
  fmt_obj p sep (ODict l) =
  (kw_ltlt ++ (if p then [cLF] else []) ++ concat (map snd (sort_entries (fmt_frags p l))) ++ kw_gtgt, false).
Proof.
  cbn [fmt_obj]. f_equal. f_equal. f_equal. f_equal. f_equal. f_equal. f_equal.
  induction l as [|[k v] r IH]; cbn [fmt_frags]; [reflexivity|].
  rewrite IH. unfold fmt_entry. destruct v; reflexivity.
Qed.

Lemma norm_arr l : norm (OArr l) = OArr (map norm l).
Proof. reflexivity. Qed.

Lemma norm_dict l : norm (ODict l) = ODict (sort_entries (norm_entries l)).
Proof.
  cbn [norm]. f_equal.
Qed.

(* ---- the leading separator ---- *)
Definition needs_sp (o : obj) : bool :=
  match o with
  | ONull | ONilArr | OBool _ | OInt _ | OReal _ | ORef _ _ => true
  | _ => false
  end.
Definition ends_reg (o : obj) : bool :=
  match o with
  | ONull | ONilArr | OBool _ | OInt _ | OReal _ | ORef _ _ | OName _ => true
  | _ => false
  end.
Definition body (p : bool) (o : obj) : bytes := fst (fmt_obj p false o).
Definition lead (sep : bool) (o : obj) : bytes := if sep && needs_sp o then [cSP] else [].

Lemma fmt_obj_split p sep o : fmt_obj p sep o = (lead sep o ++ body p o, ends_reg o).
Proof.
  unfold lead, body. destruct o; try reflexivity;
    try (destruct sep; reflexivity).
Qed.

(* ---- sorting ---- *)
Section SortLemmas.
  Context {A : Type}.
  Lemma insert_perm (e : bytes * A) l : Permutation (insert_entry e l) (e :: l).
  Proof.
    induction l as [|x r IH]; cbn [insert_entry]; [reflexivity|].
    destruct (key_ltb (fst x) (fst e)); [|reflexivity].
    rewrite IH. apply perm_swap.
  Qed.
  Lemma sort_perm (l : list (bytes * A)) : Permutation (sort_entries l) l.
  Proof.
    induction l as [|e r IH]; cbn [sort_entries]; [reflexivity|].
    rewrite insert_perm. constructor. exact IH.
  Qed.
End SortLemmas.

Lemma insert_map {A B} (f : bytes * A -> B) (e : bytes * A) l :
  insert_entry (fst e, f e) (map (fun kv => (fst kv, f kv)) l)
  = map (fun kv => (fst kv, f kv)) (insert_entry e l).
Proof.
  induction l as [|x r IH]; cbn [insert_entry map fst]; [reflexivity|].
  destruct (key_ltb (fst x) (fst e)); cbn [map]; [rewrite IH|]; reflexivity.
Qed.
Lemma sort_map {A B} (f : bytes * A -> B) l :
  sort_entries (map (fun kv => (fst kv, f kv)) l) = map (fun kv => (fst kv, f kv)) (sort_entries l).
Proof.
  induction l as [|e r IH]; cbn [sort_entries map]; [reflexivity|].
  rewrite IH. apply insert_map.
Qed.

(* the entries formatDict writes *)
Definition nonnull (kv : bytes * obj) : bool := negb (is_null (snd kv)).
Lemma fmt_frags_map p l :
  fmt_frags p l = map (fun kv => (fst kv, fmt_entry p (fst kv) (snd kv))) (filter nonnull l).
Proof.
  induction l as [|[k v] r IH]; cbn [fmt_frags filter]; [reflexivity|].
  unfold nonnull at 1. cbn [snd fst]. destruct v; cbn [is_null negb map fst snd]; rewrite IH; reflexivity.
Qed.
Lemma norm_entries_map l :
  norm_entries l = map (fun kv => (fst kv, norm (snd kv))) (filter nonnull l).
Proof.
  induction l as [|[k v] r IH]; cbn [norm_entries filter]; [reflexivity|].
  unfold nonnull at 1. cbn [snd fst]. destruct v; cbn [is_null negb map fst snd]; rewrite IH; reflexivity.
Qed.

Lemma dict_has_in {A} (l : list (bytes * A)) k : dict_has l k = true <-> In k (map fst l).
Proof.
  induction l as [|x r IH]; cbn [dict_has map In]; [split; [discriminate|tauto]|].
  rewrite orb_true_iff, IH, bytes_eqb_eq. tauto.
Qed.
Lemma nodup_keys_NoDup {A} (l : list (bytes * A)) : nodup_keys l = true -> NoDup (map fst l).
Proof.
  induction l as [|x r IH]; cbn [nodup_keys map]; intro H; [constructor|].
  apply andb_true_iff in H as [H1 H2]. constructor; [|apply IH; exact H2].
  intro Hin. apply dict_has_in in Hin. rewrite Hin in H1. discriminate.
Qed.
Lemma NoDup_filter_fst {A} (f : bytes * A -> bool) l : NoDup (map fst l) -> NoDup (map fst (filter f l)).
Proof.
  induction l as [|x r IH]; cbn [filter map]; intro H; [constructor|].
  inversion H; subst. destruct (f x); cbn [map]; [|apply IH; assumption].
  constructor; [|apply IH; assumption].
  intro Hin. apply H2. apply in_map_iff in Hin as (y & Ey & Hy). apply filter_In in Hy as [Hy _].
  apply in_map_iff. exists y. auto.
Qed.

Lemma dict_set_fresh {A} (l : list (bytes * A)) k v : dict_has l k = false -> dict_set l k v = l ++ [(k, v)].
Proof.
  induction l as [|x r IH]; cbn [dict_has dict_set app]; intro H; [reflexivity|].
  apply orb_false_iff in H as [H1 H2]. rewrite H1. rewrite IH by exact H2. reflexivity.
Qed.
