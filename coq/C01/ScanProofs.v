(* scan_format: the scanner reads back, as values, what the formatter wrote. *)
From Coq Require Import List NArith ZArith Bool Lia Permutation.
From GoPdf.Base Require Import Bytes Res.
From GoPdf.C01 Require Import Lex Obj Num Names Strings Format Scan Wf
  LexProofs NumProofs NamesProofs StringsProofs FormatProofs.
Import ListNotations.
Open Scope N_scope.

(* ---- unfolding equations of the mutual fixpoint ---- *)
Lemma read_array_eq L f d s :
  read_array L (S f) d s = if max_depth L <=? d then Err Malformed else read_arr_loop L f (d + 1) [] 0 s.
Proof. reflexivity. Qed.

Lemma read_arr_loop_eq L f d acc iseen s :
  read_arr_loop L (S f) d acc iseen s =
  match skip_ws s with
  | Err e => Err (eof_mal e)
  | Ok [] => Err Malformed
  | Ok ((b :: r) as s1) =>
    if b =? cRB then
      if max_arr L <? N.of_nat (length acc) then Err Malformed else Ok (OArr (rev acc), r)
    else if (2 <=? iseen) && (b =? cR) then
      match acc with
      | OInt g :: OInt n :: acc' => read_arr_loop L f d (mk_ref n g :: acc') 0 r
      | _ => Err Panic
      end
    else
      match read_object L f d s1 with
      | Err e => Err (eof_mal e)
      | Ok (o, s2) =>
        if max_arr L <? N.of_nat (length acc) then Err Malformed
        else read_arr_loop L f d (o :: acc) (if is_int o then iseen + 1 else 0) s2
      end
  end.
Proof. reflexivity. Qed.

Lemma read_dict_eq L f d s :
  read_dict L (S f) d s =
  if max_depth L <=? d then Err Malformed
  else if starts_with kw_ltlt s then
    match skip_ws (drop 2 s) with
    | Err e => Err (eof_mal e)
    | Ok s1 => read_dict_loop L f (d + 1) [] s1
    end
  else Err Malformed.
Proof. reflexivity. Qed.

(* the reference look-ahead of ReadDict *)
Definition dict_lookahead (L : limits) (val : obj) (s4 : bytes) : res (obj * bytes) :=
  match val, s4 with
  | OInt a, c :: _ =>
    if negb (c =? cSLASH) && negb (c =? cGT) then
      match read_integer L s4 with
      | Err e => Err (eof_mal e)
      | Ok (g, s5) =>
        match skip_ws s5 with
        | Err e => Err (eof_mal e)
        | Ok [] => Err Malformed
        | Ok (c2 :: s6) =>
          if c2 =? cR then
            match skip_ws s6 with
            | Err e => Err (eof_mal e)
            | Ok s7 => Ok (mk_ref a g, s7)
            end
          else Err Malformed
        end
      end
    else Ok (val, s4)
  | OInt _, [] => Err Malformed
  | _, _ => Ok (val, s4)
  end.

Lemma read_dict_loop_eq L f d acc s :
  read_dict_loop L (S f) d acc s =
  match read_name L s with
  | Err _ =>
    let s' := read_name_stop L s in
    if starts_with kw_gtgt s' then Ok (ODict acc, drop 2 s') else Err Malformed
  | Ok (key, s1) =>
    match skip_ws s1 with
    | Err e => Err (eof_mal e)
    | Ok s2 =>
      match read_object L f d s2 with
      | Err e => Err (eof_mal e)
      | Ok (val, s3) =>
        match skip_ws s3 with
        | Err e => Err (eof_mal e)
        | Ok s4 =>
          match dict_lookahead L val s4 with
          | Err e => Err e
          | Ok (val', s8) =>
            if negb (dict_has acc key) && (max_dict L <=? N.of_nat (length acc)) then Err Malformed
            else read_dict_loop L f d (dict_set acc key val') s8
          end
        end
      end
    end
  end.
Proof. reflexivity. Qed.

(* ---- dispatch of ReadObject on the first byte ---- *)
Lemma read_object_null L f d s : read_object L (S f) d (kw_null ++ s) = Ok (ONull, s).
Proof. reflexivity. Qed.
Lemma read_object_true L f d s : read_object L (S f) d (kw_true ++ s) = Ok (OBool true, s).
Proof. reflexivity. Qed.
Lemma read_object_false L f d s : read_object L (S f) d (kw_false ++ s) = Ok (OBool false, s).
Proof. reflexivity. Qed.
Lemma read_object_name L f d s :
  read_object L (S f) d (cSLASH :: s) =
  match read_name L (cSLASH :: s) with Ok (n, s') => Ok (OName n, s') | Err e => Err e end.
Proof. reflexivity. Qed.
Lemma read_object_lp L f d s :
  read_object L (S f) d (cLP :: s) =
  match read_string L s with Ok (v, s') => Ok (OStr v, s') | Err e => Err e end.
Proof. reflexivity. Qed.
Lemma read_object_lb L f d s : read_object L (S f) d (cLB :: s) = read_array L f d s.
Proof. reflexivity. Qed.
Lemma read_object_dict L f d s :
  read_object L (S f) d (cLT :: cLT :: s) =
  match read_dict L f d (cLT :: cLT :: s) with
  | Ok (v, s') => after_dict v s'
  | Err e => Err e
  end.
Proof. reflexivity. Qed.
Lemma read_object_hex L f d x s : (x =? cLT) = false ->
  read_object L (S f) d (cLT :: x :: s) =
  match read_hex_string L (x :: s) with Ok (v, s') => Ok (OStr v, s') | Err e => Err e end.
Proof.
  intro H.
  change (read_object L (S f) d (cLT :: x :: s)) with
    (if (cLT =? cLT) && ((cLT =? x) && true) then
       match read_dict L f d (cLT :: x :: s) with
       | Ok (v, s') => after_dict v s'
       | Err e => Err e
       end
     else match read_hex_string L (x :: s) with Ok (v, s') => Ok (OStr v, s') | Err e => Err e end).
  rewrite (N.eqb_sym cLT x), H. reflexivity.
Qed.

Lemma num_start_facts b : num_start b = true ->
  (b =? 110) = false /\ (b =? 116) = false /\ (b =? 102) = false /\ (b =? cSLASH) = false.
Proof.
  intro H.
  assert (Hb : b < 256).
  { unfold num_start, is_digit, c0, c9, cPLUS, cMINUS, cDOT in H.
    repeat (apply orb_true_iff in H as [H|H]);
      [apply andb_true_iff in H as [_ H]; apply N.leb_le in H; lia | | |]; apply N.eqb_eq in H; lia. }
  pose proof (all_bytes_spec
    (fun b => implb (num_start b) (negb (b =? 110) && negb (b =? 116) && negb (b =? 102) && negb (b =? cSLASH)))
    ltac:(vm_compute; reflexivity) b Hb) as H0.
  cbv beta in H0. rewrite H in H0. cbn [implb] in H0.
  repeat (apply andb_true_iff in H0 as [H0 ?]).
  repeat split; apply negb_true_iff; assumption.
Qed.

Lemma read_object_eq L f d b r :
  read_object L (S f) d (b :: r) =
  let s := b :: r in
  if starts_with kw_null s then Ok (ONull, drop 4 s)
  else if starts_with kw_true s then Ok (OBool true, drop 4 s)
  else if starts_with kw_false s then Ok (OBool false, drop 5 s)
  else if b =? cSLASH then
    match read_name L s with Ok (n, s') => Ok (OName n, s') | Err e => Err e end
  else if num_start b then read_number L s
  else if starts_with kw_ltlt s then
    match read_dict L f d s with
    | Ok (v, s') => after_dict v s'
    | Err e => Err e
    end
  else if b =? cLP then
    match read_string L r with Ok (v, s') => Ok (OStr v, s') | Err e => Err e end
  else if b =? cLT then
    match read_hex_string L r with Ok (v, s') => Ok (OStr v, s') | Err e => Err e end
  else if b =? cLB then read_array L f d r
  else Err Malformed.
Proof. reflexivity. Qed.

Lemma read_object_num L f d b s : num_start b = true ->
  read_object L (S f) d (b :: s) = read_number L (b :: s).
Proof.
  intro H. destruct (num_start_facts b H) as (H1 & H2 & H3 & H4).
  rewrite read_object_eq. cbv zeta.
  unfold kw_null, kw_true, kw_false. cbn [starts_with].
  rewrite (N.eqb_sym 110 b), (N.eqb_sym 116 b), (N.eqb_sym 102 b), H1, H2, H3, H4, H.
  reflexivity.
Qed.

(* ---- first bytes ---- *)
Definition good_head (b : byte) : bool :=
  stops_ws b && negb (b =? cRB) && negb (b =? cR) && negb (b =? 115).

Lemma nonreg_lt b : is_regular b = false -> b < 256.
Proof.
  intro H. destruct (N.ltb_spec b 256) as [Hlt|Hge]; [exact Hlt|exfalso].
  unfold is_regular, cls_of in H. rewrite nth_overflow in H; [discriminate|].
  change (length Gen_Consts.class) with 256%nat. lia.
Qed.

Lemma nonreg_facts b : is_regular b = false ->
  is_digit b = false /\ (b =? cDOT) = false /\ (b =? cHASH) = false.
Proof.
  intro H. pose proof (nonreg_lt b H) as Hb.
  pose proof (all_bytes_spec
    (fun b => implb (negb (is_regular b)) (negb (is_digit b) && negb (b =? cDOT) && negb (b =? cHASH)))
    ltac:(vm_compute; reflexivity) b Hb) as H0.
  cbv beta in H0. rewrite H in H0. cbn [negb implb] in H0.
  repeat (apply andb_true_iff in H0 as [H0 ?]).
  repeat split; apply negb_true_iff; assumption.
Qed.

Lemma follow_ok_int tail : follow_ok tail = true -> follow_int tail = true /\ follow_real tail = true.
Proof.
  destruct tail as [|b r]; [auto|]. cbn [follow_ok follow_int follow_real]. intro H.
  apply negb_true_iff in H. destruct (nonreg_facts b H) as (H1 & H2 & _). rewrite H1, H2. auto.
Qed.

Lemma digit_good b : is_digit b = true -> good_head b = true /\ num_start b = true.
Proof.
  intro H.
  assert (Hb : b < 256).
  { unfold is_digit, c9 in H. apply andb_true_iff in H as [_ H]. apply N.leb_le in H. lia. }
  pose proof (all_bytes_spec (fun b => implb (is_digit b) (good_head b && num_start b))
    ltac:(vm_compute; reflexivity) b Hb) as H0.
  cbv beta in H0. rewrite H in H0. cbn [implb] in H0. apply andb_true_iff in H0. exact H0.
Qed.

Lemma good_head_facts b : good_head b = true ->
  stops_ws b = true /\ (b =? cRB) = false /\ (b =? cR) = false /\ (b =? 115) = false.
Proof.
  unfold good_head. intro H.
  apply andb_true_iff in H as [H H3]. apply andb_true_iff in H as [H H2]. apply andb_true_iff in H as [H H1].
  repeat split; try assumption; apply negb_true_iff; assumption.
Qed.

Lemma good_head_nostream b r : good_head b = true -> starts_with kw_stream (b :: r) = false.
Proof.
  intro H. apply good_head_facts in H as (_ & _ & _ & H). unfold kw_stream. cbn [starts_with].
  rewrite (N.eqb_sym 115 b), H. reflexivity.
Qed.

Lemma print_int_nonneg z : (0 <= z)%Z ->
  exists b ds, print_int z = b :: ds /\ is_digit b = true /\ all_digits ds = true.
Proof.
  intro Hz. unfold print_int. destruct z as [|q|q]; [| |lia]; cbn [Z.to_int].
  - exists 48, []. auto.
  - destruct (to_uint_head q) as (b & r & E & Hb). pose proof (uint_digits (Pos.to_uint q)) as Hd.
    rewrite E in *. exists b, r. cbn [all_digits forallb] in Hd. apply andb_true_iff in Hd as [_ Hd]. auto.
Qed.

(* the first byte of a formatted value *)
Lemma body_head p L d o : wf_obj L d o = true ->
  exists b r, body p o = b :: r /\ good_head b = true /\ (needs_sp o = false -> is_regular b = false).
Proof.
  intro Hw. unfold body.
  assert (Hnum : forall t, (exists sgn b ds, t = sgn ++ b :: ds /\ (sgn = [] \/ sgn = [cMINUS]) /\ is_digit b = true) ->
                 exists b r, t = b :: r /\ good_head b = true).
  { intros t (sgn & b & ds & E & [-> | ->] & Hb); subst t; cbn [app].
    - exists b, ds. split; auto. apply digit_good. exact Hb.
    - exists cMINUS, (b :: ds). split; auto. }
  destruct o; cbn [needs_sp].
  - exists 110, [117; 108; 108]. repeat split; auto; try discriminate.
  - destruct b; [exists 116, [114; 117; 101] | exists 102, [97; 108; 115; 101]]; repeat split; auto; try discriminate.
  - cbn [fmt_obj fst sp app].
    destruct (print_int_shape z) as (sgn & b & ds & E & Hs & Hb & _).
    destruct (Hnum (print_int z)) as (b0 & r0 & E0 & H0); [exists sgn, b, ds; auto|].
    exists b0, r0. repeat split; auto; try discriminate.
  - cbn [fmt_obj fst sp app]. cbn [wf_obj] in Hw.
    apply andb_true_iff in Hw as [Hw _]. apply andb_true_iff in Hw as [Hg _].
    destruct (real_shape t Hg) as (sgn & d1 & ds1 & ds2 & E & Hs & Hd1 & _).
    destruct (Hnum (fmt_real t)) as (b0 & r0 & E0 & H0).
    { exists sgn, d1, (ds1 ++ cDOT :: ds2). unfold fmt_real. rewrite E. auto. }
    exists b0, r0. repeat split; auto; try discriminate.
  - exists cSLASH, (fmt_name_body n). repeat split; auto.
  - cbn [fmt_obj fst]. unfold fmt_string. destruct (p && use_hex s).
    + eexists cLT, _. repeat split; auto.
    + eexists cLP, _. repeat split; auto.
  - rewrite fmt_obj_arr. cbn [fst app]. eexists cLB, _. repeat split; auto.
  - rewrite fmt_obj_dict. cbn [fst app kw_ltlt]. eexists cLT, _. repeat split; auto.
  - cbn [fmt_obj fst sp app]. cbn [wf_obj] in Hw. unfold wf_ref in Hw.
    repeat (apply andb_true_iff in Hw as [Hw ?]). apply Z.leb_le in Hw.
    destruct (print_int_nonneg n Hw) as (b & ds & E & Hb & _).
    unfold fmt_ref. rewrite E. cbn [app]. eexists b, _. repeat split; auto.
    all: try discriminate. apply digit_good. exact Hb.
  - exists 110, [117; 108; 108]. repeat split; auto; try discriminate.
  - cbn [fmt_obj fst kw_ltlt app]. eexists cLT, _. repeat split; auto.
Qed.

(* white space in front of a value: lead is nothing or one space *)
Definition is_lead (ws : bytes) : Prop := ws = [] \/ ws = [cSP].
Lemma lead_is_lead sep o : is_lead (lead sep o).
Proof. unfold lead, is_lead. destruct (sep && needs_sp o); auto. Qed.
Lemma skip_is_lead ws Y : is_lead ws -> skip_ws (ws ++ Y) = skip_ws Y.
Proof. intros [-> | ->]; cbn [app]; [reflexivity | apply skip_ws_sp]. Qed.

Lemma skip_lead_body p L d o ws X : wf_obj L d o = true -> is_lead ws ->
  skip_ws (ws ++ body p o ++ X) = Ok (body p o ++ X).
Proof.
  intros Hw Hl. destruct (body_head p L d o Hw) as (b & r & E & Hg & _).
  apply good_head_facts in Hg as (Hs & _).
  rewrite skip_is_lead by exact Hl. rewrite E; cbn [app]; apply skip_ws_stop; exact Hs.
Qed.

Lemma follow_lead_body p L d o X : wf_obj L d o = true ->
  follow_ok (lead true o ++ body p o ++ X) = true.
Proof.
  intro Hw. destruct (body_head p L d o Hw) as (b & r & E & _ & Hn).
  unfold lead. cbn [andb]. destruct (needs_sp o); cbn [app]; [reflexivity|].
  rewrite E. cbn [app follow_ok]. rewrite Hn; reflexivity.
Qed.

Lemma body_nostream p L d o X : wf_obj L d o = true -> starts_with kw_stream (body p o ++ X) = false.
Proof.
  intro Hw. destruct (body_head p L d o Hw) as (b & r & E & Hg & _). rewrite E. cbn [app].
  apply good_head_nostream. exact Hg.
Qed.

(* ---- the statement proved by induction over values ---- *)
Definition is_ref (o : obj) : bool := match o with ORef _ _ => true | _ => false end.

Definition ro_spec (o : obj) : Prop :=
  forall p L d fuel tail t1,
    wf_obj L d o = true -> is_ref o = false -> (osize o <= fuel)%nat ->
    skip_ws tail = Ok t1 -> starts_with kw_stream t1 = false ->
    (ends_reg o = true -> follow_ok tail = true) ->
    exists s', read_object L fuel d (body p o ++ tail) = Ok (norm o, s') /\ skip_ws s' = Ok t1.

(* the loops depend on their input only through SkipWhiteSpace *)
Lemma arr_loop_ws L f d acc iseen s s' : skip_ws s = skip_ws s' ->
  read_arr_loop L f d acc iseen s = read_arr_loop L f d acc iseen s'.
Proof.
  intro H. destruct f as [|f]; [reflexivity|]. rewrite !read_arr_loop_eq, H. reflexivity.
Qed.

(* ---- one array element that is not a reference ---- *)
Lemma arr_step L d p o ws f acc iseen X t1 :
  is_lead ws ->
  ro_spec o -> is_ref o = false -> wf_obj L d o = true -> (osize o <= f)%nat ->
  N.of_nat (length acc) <= max_arr L ->
  skip_ws X = Ok t1 -> starts_with kw_stream t1 = false ->
  (ends_reg o = true -> follow_ok X = true) ->
  read_arr_loop L (S f) d acc iseen (ws ++ body p o ++ X)
  = read_arr_loop L f d (norm o :: acc) (if is_int (norm o) then iseen + 1 else 0) X.
Proof.
  intros Hws Hro Hr Hw Hf Hlen HX Hns Hfo.
  rewrite read_arr_loop_eq. rewrite (skip_lead_body p L d o ws X Hw Hws).
  destruct (body_head p L d o Hw) as (b & r & E & Hg & _).
  apply good_head_facts in Hg as (_ & H1 & H2 & _).
  destruct (Hro p L d f X t1 Hw Hr Hf HX Hns Hfo) as (s' & Hread & Hs').
  rewrite E in *. cbn [app] in *. rewrite H1, H2, andb_false_r. rewrite Hread.
  replace (max_arr L <? N.of_nat (length acc)) with false by (symmetry; apply N.ltb_ge; exact Hlen).
  apply arr_loop_ws. rewrite Hs', HX. reflexivity.
Qed.

(* ---- one array element that is a reference: two integers and the R rewrite ---- *)
Lemma read_int_token L f d z X :
  in_int64 z = true -> blen (print_int z) <= max_name L -> (0 <= z)%Z -> follow_int X = true ->
  exists b r, print_int z = b :: r /\ good_head b = true /\
    read_object L (S f) d (print_int z ++ X) = Ok (OInt z, X).
Proof.
  intros Hr Hl Hz Hf. destruct (print_int_nonneg z Hz) as (b & ds & E & Hb & _).
  destruct (digit_good b Hb) as [Hg Hn]. exists b, ds. repeat split; auto.
  rewrite E. cbn [app]. rewrite read_object_num by exact Hn.
  change (b :: ds ++ X) with ((b :: ds) ++ X). rewrite <- E. apply int_rt_lemma; assumption.
Qed.

Lemma wf_ref_facts L n g : wf_ref L n g = true ->
  in_int64 n = true /\ in_int64 g = true /\ (0 <= n)%Z /\ (0 <= g)%Z /\
  blen (print_int n) <= max_name L /\ blen (print_int g) <= max_name L /\ mk_ref n g = ORef n g.
Proof.
  unfold wf_ref. intro H.
  apply andb_true_iff in H as [H H6]. apply andb_true_iff in H as [H H5]. apply andb_true_iff in H as [H H4].
  apply andb_true_iff in H as [H H3]. apply andb_true_iff in H as [H1 H2].
  apply Z.leb_le in H1, H3, H4. apply Z.ltb_lt in H2. apply N.leb_le in H5, H6.
  unfold max_xref, Gen_Consts.maxXRefSize in H2. unfold max_gen, Gen_Consts.maxGeneration in H4.
  repeat split; auto.
  - unfold in_int64. apply andb_true_iff. split; apply Z.leb_le; lia.
  - unfold in_int64. apply andb_true_iff. split; apply Z.leb_le; lia.
  - unfold mk_ref, max_xref, max_gen, Gen_Consts.maxXRefSize, Gen_Consts.maxGeneration.
    replace (n <? 0)%Z with false by (symmetry; apply Z.ltb_ge; lia).
    replace (16777216 <=? n)%Z with false by (symmetry; apply Z.leb_gt; lia).
    replace (g <? 0)%Z with false by (symmetry; apply Z.ltb_ge; lia).
    replace (65535 <? g)%Z with false by (symmetry; apply Z.ltb_ge; lia).
    reflexivity.
Qed.

Lemma arr_step_ref L d n g ws f acc iseen X :
  is_lead ws ->
  wf_ref L n g = true -> N.of_nat (length acc) + 1 <= max_arr L ->
  read_arr_loop L (S (S (S f))) d acc iseen (ws ++ fmt_ref n g ++ X)
  = read_arr_loop L f d (ORef n g :: acc) 0 X.
Proof.
  intros Hws Hw Hlen. destruct (wf_ref_facts L n g Hw) as (Hin & Hig & Hn0 & Hg0 & Hln & Hlg & Hmk).
  unfold fmt_ref. rewrite <- !app_assoc. cbn [app].
  (* first integer *)
  destruct (read_int_token L (S f) d n (cSP :: print_int g ++ cSP :: cR :: X) Hin Hln Hn0 eq_refl)
    as (b1 & r1 & E1 & Hg1 & Hread1).
  apply good_head_facts in Hg1 as (Hs1 & H11 & H12 & _).
  rewrite read_arr_loop_eq.
  assert (Hskip1 : skip_ws (ws ++ print_int n ++ cSP :: print_int g ++ cSP :: cR :: X)
                   = Ok (print_int n ++ cSP :: print_int g ++ cSP :: cR :: X)).
  { rewrite skip_is_lead by exact Hws. rewrite E1; cbn [app]; apply skip_ws_stop; exact Hs1. }
  unfold bytes, byte in *. rewrite Hskip1. rewrite E1 in Hread1 |- *. cbn [app] in Hread1 |- *.
  rewrite H11, H12, andb_false_r. rewrite Hread1.
  replace (max_arr L <? N.of_nat (length acc)) with false by (symmetry; apply N.ltb_ge; lia).
  cbn [is_int].
  (* second integer *)
  destruct (read_int_token L f d g (cSP :: cR :: X) Hig Hlg Hg0 eq_refl)
    as (b2 & r2 & E2 & Hg2 & Hread2).
  apply good_head_facts in Hg2 as (Hs2 & H21 & H22 & _).
  rewrite read_arr_loop_eq. rewrite skip_ws_sp.
  rewrite E2 in Hread2 |- *. cbn [app] in Hread2 |- *. rewrite (skip_ws_stop b2 _ Hs2).
  unfold bytes, byte in *. rewrite H21, H22, andb_false_r. rewrite Hread2.
  replace (max_arr L <? N.of_nat (length (OInt n :: acc))) with false
    by (symmetry; apply N.ltb_ge; cbn [length]; lia).
  cbn [is_int].
  (* the R *)
  rewrite read_arr_loop_eq. rewrite skip_ws_sp. rewrite skip_ws_stop by reflexivity.
  change (cR =? cRB) with false. change (cR =? cR) with true. cbn iota.
  replace (2 <=? iseen + 1 + 1) with true by (symmetry; apply N.leb_le; lia).
  cbn [andb]. rewrite Hmk. reflexivity.
Qed.

(* ---- arrays ---- *)
Lemma fmt_list_plain_cons sep o r :
  fmt_list_plain sep (o :: r) = (lead sep o ++ body false o) ++ fmt_list_plain (ends_reg o) r.
Proof. cbn [fmt_list_plain]. rewrite fmt_obj_split. reflexivity. Qed.

Lemma fmt_list_pretty_cons first o r :
  fmt_list_pretty first (o :: r) = ((if first then [] else [cSP]) ++ body true o) ++ fmt_list_pretty false r.
Proof. cbn [fmt_list_pretty]. unfold body. rewrite <- app_assoc. reflexivity. Qed.

Lemma rb_tail rest :
  skip_ws (cRB :: rest) = Ok (cRB :: rest) /\ starts_with kw_stream (cRB :: rest) = false /\
  follow_ok (cRB :: rest) = true.
Proof. repeat split; reflexivity. Qed.

Lemma plain_tail L d os s rest : forallb (wf_obj L d) os = true ->
  exists t1, skip_ws (fmt_list_plain s os ++ cRB :: rest) = Ok t1 /\ starts_with kw_stream t1 = false /\
             (s = true -> follow_ok (fmt_list_plain s os ++ cRB :: rest) = true).
Proof.
  intro Hw. destruct os as [|o os'].
  - cbn [fmt_list_plain app]. exists (cRB :: rest). destruct (rb_tail rest) as (H1 & H2 & H3). auto.
  - cbn [forallb] in Hw. apply andb_true_iff in Hw as [Hw _].
    rewrite fmt_list_plain_cons. rewrite <- !app_assoc.
    exists (body false o ++ fmt_list_plain (ends_reg o) os' ++ cRB :: rest). repeat split.
    + apply skip_lead_body with (L := L) (d := d); [exact Hw | apply lead_is_lead].
    + apply body_nostream with (L := L) (d := d). exact Hw.
    + intros ->. apply follow_lead_body with (L := L) (d := d). exact Hw.
Qed.

Lemma pretty_tail L d os rest : forallb (wf_obj L d) os = true ->
  exists t1, skip_ws (fmt_list_pretty false os ++ cRB :: rest) = Ok t1 /\ starts_with kw_stream t1 = false /\
             follow_ok (fmt_list_pretty false os ++ cRB :: rest) = true.
Proof.
  intro Hw. destruct os as [|o os'].
  - cbn [fmt_list_pretty app]. exists (cRB :: rest). destruct (rb_tail rest) as (H1 & H2 & H3). auto.
  - cbn [forallb] in Hw. apply andb_true_iff in Hw as [Hw _].
    rewrite fmt_list_pretty_cons. rewrite <- !app_assoc.
    exists (body true o ++ fmt_list_pretty false os' ++ cRB :: rest). repeat split.
    + apply skip_lead_body with (L := L) (d := d); [exact Hw | right; reflexivity].
    + apply body_nostream with (L := L) (d := d). exact Hw.
Qed.

Lemma arr_fits_le L : forall l k, arr_fits L k l = true -> k <= max_arr L.
Proof.
  induction l as [|o r IH]; intros k H; cbn [arr_fits] in H.
  - apply N.leb_le in H. exact H.
  - apply IH in H. lia.
Qed.
Lemma arr_fits_cons L k o r : arr_fits L k (o :: r) = true ->
  k + 1 <= max_arr L /\ arr_fits L (k + 1) r = true.
Proof. cbn [arr_fits]. intro H. split; [apply (arr_fits_le L r); exact H | exact H]. Qed.

Lemma lsize_cons o r : lsize (o :: r) = S (osize o + lsize r).
Proof. reflexivity. Qed.

Lemma arr_loop_plain L d : forall os sep acc iseen fuel rest,
  Forall ro_spec os -> forallb (wf_obj L d) os = true ->
  arr_fits L (N.of_nat (length acc)) os = true -> (lsize os <= fuel)%nat ->
  read_arr_loop L fuel d acc iseen (fmt_list_plain sep os ++ cRB :: rest)
  = Ok (OArr (rev acc ++ map norm os), rest).
Proof.
  induction os as [|o os IH]; intros sep acc iseen fuel rest Hro Hw Hfit Hfuel.
  - cbn [fmt_list_plain app map]. destruct fuel as [|f]; [cbn in Hfuel; lia|].
    rewrite read_arr_loop_eq. rewrite skip_ws_stop by reflexivity.
    change (cRB =? cRB) with true. cbn iota.
    replace (max_arr L <? N.of_nat (length acc)) with false
      by (symmetry; apply N.ltb_ge; apply (arr_fits_le L []); exact Hfit).
    rewrite app_nil_r. reflexivity.
  - inversion Hro as [|? ? Hro1 Hro2]; subst.
    cbn [forallb] in Hw. apply andb_true_iff in Hw as [Hw1 Hw2].
    apply arr_fits_cons in Hfit as [Hc Hfit]. rewrite lsize_cons in Hfuel.
    rewrite fmt_list_plain_cons. rewrite <- !app_assoc.
    destruct (plain_tail L d os (ends_reg o) rest Hw2) as (t1 & Ht1 & Hns & Hfo).
    assert (Hlen' : N.of_nat (length (norm o :: acc)) = N.of_nat (length acc) + 1) by (cbn [length]; lia).
    destruct (is_ref o) eqn:Er.
    + destruct o; try discriminate. cbn [wf_obj] in Hw1. cbn [osize] in Hfuel.
      destruct fuel as [|[|[|f]]]; try lia.
      change (body false (ORef n g)) with (fmt_ref n g).
      rewrite arr_step_ref; [|apply lead_is_lead|exact Hw1|exact Hc].
      rewrite IH; [ | exact Hro2 | exact Hw2
                   | cbn [length]; replace (N.of_nat (S (length acc))) with (N.of_nat (length acc) + 1) by lia; exact Hfit
                   | lia ].
      cbn [rev map norm]. rewrite <- app_assoc. reflexivity.
    + destruct fuel as [|f]; [lia|].
      assert (Hc1 : cost o = 1) by (destruct o; try reflexivity; discriminate).
      rewrite (arr_step L d false o (lead sep o) f acc iseen _ t1);
        [ | apply lead_is_lead | exact Hro1 | exact Er | exact Hw1 | lia | lia | exact Ht1 | exact Hns | exact Hfo ].
      rewrite IH; [ | exact Hro2 | exact Hw2 | rewrite Hlen'; exact Hfit | lia ].
      cbn [rev map]. rewrite <- app_assoc. reflexivity.
Qed.

Lemma arr_loop_pretty L d : forall os first acc iseen fuel rest,
  Forall ro_spec os -> forallb (wf_obj L d) os = true ->
  arr_fits L (N.of_nat (length acc)) os = true -> (lsize os <= fuel)%nat ->
  read_arr_loop L fuel d acc iseen (fmt_list_pretty first os ++ cRB :: rest)
  = Ok (OArr (rev acc ++ map norm os), rest).
Proof.
  induction os as [|o os IH]; intros first acc iseen fuel rest Hro Hw Hfit Hfuel.
  - cbn [fmt_list_pretty app map]. destruct fuel as [|f]; [cbn in Hfuel; lia|].
    rewrite read_arr_loop_eq. rewrite skip_ws_stop by reflexivity.
    change (cRB =? cRB) with true. cbn iota.
    replace (max_arr L <? N.of_nat (length acc)) with false
      by (symmetry; apply N.ltb_ge; apply (arr_fits_le L []); exact Hfit).
    rewrite app_nil_r. reflexivity.
  - inversion Hro as [|? ? Hro1 Hro2]; subst.
    cbn [forallb] in Hw. apply andb_true_iff in Hw as [Hw1 Hw2].
    apply arr_fits_cons in Hfit as [Hc Hfit]. rewrite lsize_cons in Hfuel.
    rewrite fmt_list_pretty_cons. rewrite <- !app_assoc.
    destruct (pretty_tail L d os rest Hw2) as (t1 & Ht1 & Hns & Hfo).
    assert (Hlen' : N.of_nat (length (norm o :: acc)) = N.of_nat (length acc) + 1) by (cbn [length]; lia).
    assert (Hlead : is_lead (if first then [] else [cSP])) by (destruct first; [left|right]; reflexivity).
    destruct (is_ref o) eqn:Er.
    + destruct o; try discriminate. cbn [wf_obj] in Hw1. cbn [osize] in Hfuel.
      destruct fuel as [|[|[|f]]]; try lia.
      change (body true (ORef n g)) with (fmt_ref n g).
      rewrite arr_step_ref; [|exact Hlead|exact Hw1|exact Hc].
      rewrite IH; [ | exact Hro2 | exact Hw2
                   | cbn [length]; replace (N.of_nat (S (length acc))) with (N.of_nat (length acc) + 1) by lia; exact Hfit
                   | lia ].
      cbn [rev map norm]. rewrite <- app_assoc. reflexivity.
    + destruct fuel as [|f]; [lia|].
      assert (Hc1 : cost o = 1) by (destruct o; try reflexivity; discriminate).
      rewrite (arr_step L d true o _ f acc iseen _ t1);
        [ | exact Hlead | exact Hro1 | exact Er | exact Hw1 | lia | lia | exact Ht1 | exact Hns | intros _; exact Hfo ].
      rewrite IH; [ | exact Hro2 | exact Hw2 | rewrite Hlen'; exact Hfit | lia ].
      cbn [rev map]. rewrite <- app_assoc. reflexivity.
Qed.

(* ---- dictionaries ---- *)
Definition key_end (c : byte) : bool := (c =? cSLASH) || (c =? cGT).

Lemma key_end_facts c X0 : key_end c = true ->
  skip_ws (c :: X0) = Ok (c :: X0) /\ starts_with kw_stream (c :: X0) = false /\ follow_ok (c :: X0) = true.
Proof.
  unfold key_end. intro H. apply orb_true_iff in H as [H|H]; apply N.eqb_eq in H; subst c; repeat split; reflexivity.
Qed.

Lemma dict_lookahead_none L v c X0 : key_end c = true -> dict_lookahead L v (c :: X0) = Ok (v, c :: X0).
Proof.
  unfold key_end. intro H. destruct v; try reflexivity. cbn [dict_lookahead].
  replace (negb (c =? cSLASH) && negb (c =? cGT)) with false; [reflexivity|].
  apply orb_true_iff in H as [H|H]; rewrite H; cbn [negb andb]; [reflexivity | symmetry; apply andb_false_r].
Qed.

Lemma wf_name_facts L k : wf_name L k = true -> wfbs k = true /\ blen k < max_name L.
Proof. unfold wf_name. intro H. apply andb_true_iff in H as [H1 H2]. apply N.ltb_lt in H2. auto. Qed.

Lemma dict_step_gen L d p k v ws Z f acc c X0 :
  ro_spec v -> is_ref v = false -> wf_obj L d v = true -> wf_name L k = true -> (osize v <= f)%nat ->
  dict_has acc k = false -> N.of_nat (length acc) < max_dict L -> key_end c = true ->
  is_lead ws -> follow_ok (ws ++ body p v ++ Z) = true ->
  skip_ws Z = Ok (c :: X0) -> (ends_reg v = true -> follow_ok Z = true) ->
  read_dict_loop L (S f) d acc (fmt_name k ++ ws ++ body p v ++ Z)
  = read_dict_loop L f d (acc ++ [(k, norm v)]) (c :: X0).
Proof.
  intros Hro Hr Hw Hk Hf Hfresh Hlen Hc Hws Hfo1 HZ Hfo2.
  destruct (wf_name_facts L k Hk) as [Hk1 Hk2].
  destruct (key_end_facts c X0 Hc) as (Hc1 & Hc2 & Hc3).
  rewrite read_dict_loop_eq.
  rewrite name_rt_lemma by assumption.
  rewrite (skip_lead_body p L d v ws Z Hw Hws).
  destruct (Hro p L d f Z (c :: X0) Hw Hr Hf HZ Hc2 Hfo2) as (s' & Hread & Hs').
  rewrite Hread, Hs'. rewrite dict_lookahead_none by exact Hc.
  rewrite Hfresh. cbn [negb andb].
  replace (max_dict L <=? N.of_nat (length acc)) with false by (symmetry; apply N.leb_gt; exact Hlen).
  rewrite dict_set_fresh by exact Hfresh. reflexivity.
Qed.

Lemma scan_int_digit first b s : is_digit b = true ->
  scan_int first (b :: s) = let '(t, r) := scan_int false s in (b :: t, r).
Proof. intro Hb. cbn [scan_int]. rewrite Hb, orb_true_r. reflexivity. Qed.

Lemma scan_int_digits ds X : all_digits ds = true ->
  scan_int false (ds ++ cSP :: X) = (ds, cSP :: X).
Proof.
  induction ds as [|b ds IH]; intro H; [reflexivity|].
  cbn [all_digits forallb] in H. apply andb_true_iff in H as [Hb H].
  cbn [app]. rewrite scan_int_digit by exact Hb. rewrite IH by exact H. reflexivity.
Qed.

Lemma read_integer_token L z X : in_int64 z = true -> blen (print_int z) <= max_name L -> (0 <= z)%Z ->
  read_integer L (print_int z ++ cSP :: X) = Ok (z, cSP :: X).
Proof.
  intros Hr Hl Hz. destruct (print_int_nonneg z Hz) as (b & ds & E & Hb & Hd).
  destruct (digit_good b Hb) as [Hg _]. apply good_head_facts in Hg as (Hs & _).
  unfold read_integer. pose proof (parse_print_int z Hr) as Hp. rewrite E in *. cbn [app].
  rewrite skip_ws_stop by exact Hs. rewrite scan_int_digit by exact Hb.
  rewrite scan_int_digits by exact Hd.
  replace (max_name L <? blen (b :: ds)) with false by (symmetry; apply N.ltb_ge; exact Hl).
  rewrite Hp. reflexivity.
Qed.

Lemma dict_step_ref_gen L d k n g ws Z f acc c X0 :
  wf_ref L n g = true -> wf_name L k = true ->
  dict_has acc k = false -> N.of_nat (length acc) < max_dict L -> key_end c = true ->
  is_lead ws -> ws <> [] -> skip_ws Z = Ok (c :: X0) ->
  read_dict_loop L (S (S f)) d acc (fmt_name k ++ ws ++ fmt_ref n g ++ Z)
  = read_dict_loop L (S f) d (acc ++ [(k, ORef n g)]) (c :: X0).
Proof.
  intros Hw Hk Hfresh Hlen Hc Hws Hne HZ.
  destruct (wf_ref_facts L n g Hw) as (Hin & Hig & Hn0 & Hg0 & Hln & Hlg & Hmk).
  destruct (wf_name_facts L k Hk) as [Hk1 Hk2].
  destruct Hws as [->| ->]; [congruence|]. clear Hne.
  unfold fmt_ref. rewrite <- !app_assoc. cbn [app].
  rewrite read_dict_loop_eq.
  rewrite name_rt_lemma by (try assumption; reflexivity).
  rewrite skip_ws_sp.
  destruct (read_int_token L f d n (cSP :: print_int g ++ cSP :: cR :: Z) Hin Hln Hn0 eq_refl)
    as (b1 & r1 & E1 & Hg1 & Hread1).
  apply good_head_facts in Hg1 as (Hs1 & _).
  assert (Hsk : skip_ws (print_int n ++ cSP :: print_int g ++ cSP :: cR :: Z)
                = Ok (print_int n ++ cSP :: print_int g ++ cSP :: cR :: Z)).
  { rewrite E1. cbn [app]. apply skip_ws_stop. exact Hs1. }
  unfold bytes, byte in *. rewrite Hsk, Hread1. rewrite skip_ws_sp.
  destruct (print_int_nonneg g Hg0) as (b2 & ds2 & E2 & Hb2 & Hd2).
  destruct (digit_good b2 Hb2) as [Hg2 _]. apply good_head_facts in Hg2 as (Hs2 & _).
  assert (Hsk2 : skip_ws (print_int g ++ cSP :: cR :: Z) = Ok (print_int g ++ cSP :: cR :: Z)).
  { rewrite E2. cbn [app]. apply skip_ws_stop. exact Hs2. }
  unfold bytes, byte in *. rewrite Hsk2.
  assert (Hla : dict_lookahead L (OInt n) (print_int g ++ cSP :: cR :: Z) = Ok (ORef n g, c :: X0)).
  { pose proof (read_integer_token L g (cR :: Z) Hig Hlg Hg0) as Hri.
    rewrite E2 in Hri |- *. cbn [app] in Hri |- *. cbn [dict_lookahead].
    assert (Hb2' : negb (b2 =? cSLASH) && negb (b2 =? cGT) = true).
    { assert (Hlt : b2 < 256) by (unfold is_digit, c9 in Hb2; apply andb_true_iff in Hb2 as [_ Hb2]; apply N.leb_le in Hb2; lia).
      pose proof (all_bytes_spec (fun b => implb (is_digit b) (negb (b =? cSLASH) && negb (b =? cGT)))
                    ltac:(vm_compute; reflexivity) b2 Hlt) as H0.
      cbv beta in H0. rewrite Hb2 in H0. exact H0. }
    unfold bytes, byte in *. rewrite Hb2', Hri. rewrite skip_ws_sp. rewrite skip_ws_stop by reflexivity.
    change (cR =? cR) with true. cbn iota. rewrite HZ, Hmk. reflexivity. }
  unfold bytes, byte in *. rewrite Hla.
  rewrite Hfresh. cbn [negb andb].
  replace (max_dict L <=? N.of_nat (length acc)) with false by (symmetry; apply N.leb_gt; exact Hlen).
  rewrite dict_set_fresh by exact Hfresh. reflexivity.
Qed.

Definition entries_text (p : bool) (es : list (bytes * obj)) : bytes :=
  concat (map (fun kv => fmt_entry p (fst kv) (snd kv)) es).
Definition esz (es : list (bytes * obj)) : nat :=
  fold_right (fun kv n => S (osize (snd kv) + n))%nat 1%nat es.
Definition norm_kv (kv : bytes * obj) : bytes * obj := (fst kv, norm (snd kv)).

Lemma entries_head p es rest : exists c X0, entries_text p es ++ kw_gtgt ++ rest = c :: X0 /\ key_end c = true.
Proof.
  destruct es as [|[k v] es].
  - exists cGT, (cGT :: rest). split; reflexivity.
  - unfold entries_text. cbn [map concat fst snd]. unfold fmt_entry, fmt_name.
    destruct p; cbn [app]; eexists cSLASH, _; split; reflexivity.
Qed.

Lemma dict_entry_step L d p k v f acc c X0 :
  ro_spec v -> is_ref v = false -> wf_obj L d v = true -> wf_name L k = true -> (osize v <= f)%nat ->
  dict_has acc k = false -> N.of_nat (length acc) < max_dict L -> key_end c = true ->
  read_dict_loop L (S f) d acc (fmt_entry p k v ++ c :: X0)
  = read_dict_loop L f d (acc ++ [(k, norm v)]) (c :: X0).
Proof.
  intros Hro Hr Hw Hk Hf Hfresh Hlen Hc.
  destruct (key_end_facts c X0 Hc) as (Hc1 & Hc2 & Hc3).
  unfold fmt_entry. destruct p.
  - change (fst (fmt_obj true false v)) with (body true v). rewrite <- !app_assoc.
    change ([cLF] ++ c :: X0) with (cLF :: c :: X0).
    apply dict_step_gen; auto;
      first [ right; reflexivity | rewrite skip_ws_lf; exact Hc1 ].
  - rewrite fmt_obj_split. cbn [fst]. rewrite <- !app_assoc.
    apply dict_step_gen; auto;
      first [ apply lead_is_lead | apply follow_lead_body with (L := L) (d := d); exact Hw ].
Qed.

Lemma dict_entry_step_ref L d p k n g f acc c X0 :
  wf_ref L n g = true -> wf_name L k = true ->
  dict_has acc k = false -> N.of_nat (length acc) < max_dict L -> key_end c = true ->
  read_dict_loop L (S (S f)) d acc (fmt_entry p k (ORef n g) ++ c :: X0)
  = read_dict_loop L (S f) d (acc ++ [(k, ORef n g)]) (c :: X0).
Proof.
  intros Hw Hk Hfresh Hlen Hc.
  destruct (key_end_facts c X0 Hc) as (Hc1 & Hc2 & Hc3).
  assert (E : fmt_entry p k (ORef n g) ++ c :: X0
              = fmt_name k ++ [cSP] ++ fmt_ref n g ++ (if p then cLF :: c :: X0 else c :: X0)).
  { unfold fmt_entry. destruct p; cbn [fmt_obj fst sp app]; rewrite <- ?app_assoc; cbn [app];
      rewrite <- ?app_assoc; reflexivity. }
  rewrite E. apply dict_step_ref_gen; auto.
  - right; reflexivity.
  - discriminate.
  - destruct p; [rewrite skip_ws_lf|]; exact Hc1.
Qed.

Lemma dict_loop L d p : forall es acc fuel rest,
  Forall (fun kv => ro_spec (snd kv)) es ->
  Forall (fun kv => wf_name L (fst kv) = true /\ wf_obj L d (snd kv) = true) es ->
  NoDup (map fst acc ++ map fst es) ->
  N.of_nat (length acc + length es) <= max_dict L ->
  (esz es <= fuel)%nat ->
  read_dict_loop L fuel d acc (entries_text p es ++ kw_gtgt ++ rest)
  = Ok (ODict (acc ++ map norm_kv es), rest).
Proof.
  induction es as [|[k v] es IH]; intros acc fuel rest Hro Hw Hnd Hlen Hfuel.
  - cbn [entries_text map concat app]. destruct fuel as [|f]; [cbn in Hfuel; lia|].
    rewrite read_dict_loop_eq. cbn [kw_gtgt app]. rewrite app_nil_r. reflexivity.
  - inversion Hro as [|? ? Hro1 Hro2]; subst. inversion Hw as [|? ? [Hk Hwv] Hw2]; subst.
    cbn [fst snd] in *.
    assert (Hfresh : dict_has acc k = false).
    { destruct (dict_has acc k) eqn:E; [|reflexivity]. exfalso.
      apply dict_has_in in E. cbn [map fst] in Hnd. apply NoDup_remove_2 in Hnd.
      apply Hnd. apply in_or_app. left. exact E. }
    assert (Hnd' : NoDup (map fst (acc ++ [(k, norm v)]) ++ map fst es)).
    { rewrite map_app. cbn [map fst]. rewrite <- app_assoc. exact Hnd. }
    assert (Hlen1 : N.of_nat (length acc) < max_dict L) by (cbn [length] in Hlen; lia).
    assert (Hlen' : N.of_nat (length (acc ++ [(k, norm v)]) + length es) <= max_dict L)
      by (rewrite app_length; cbn [length] in *; lia).
    unfold entries_text. cbn [map concat fst snd]. fold (entries_text p es). rewrite <- app_assoc.
    destruct (entries_head p es rest) as (c & X0 & EX & Hc). rewrite EX.
    cbn [esz fold_right snd] in Hfuel. fold (esz es) in Hfuel.
    destruct (is_ref v) eqn:Er.
    + destruct v; try discriminate. cbn [wf_obj] in Hwv. cbn [osize] in Hfuel.
      destruct fuel as [|[|f]]; try lia.
      rewrite dict_entry_step_ref by assumption. rewrite <- EX.
      rewrite IH; [ | exact Hro2 | exact Hw2 | exact Hnd' | exact Hlen' | lia ].
      rewrite <- app_assoc. reflexivity.
    + destruct fuel as [|f]; [lia|].
      rewrite dict_entry_step; [ | exact Hro1 | exact Er | exact Hwv | exact Hk | lia | exact Hfresh | exact Hlen1 | exact Hc ].
      rewrite <- EX.
      rewrite IH; [ | exact Hro2 | exact Hw2 | exact Hnd' | exact Hlen' | lia ].
      rewrite <- app_assoc. reflexivity.
Qed.

Lemma read_dict_fmt L d (p : bool) es fuel rest :
  Forall (fun kv => ro_spec (snd kv)) es ->
  Forall (fun kv => wf_name L (fst kv) = true /\ wf_obj L (d + 1) (snd kv) = true) es ->
  NoDup (map fst es) -> N.of_nat (length es) <= max_dict L -> d < max_depth L ->
  (S (esz es) <= fuel)%nat ->
  read_dict L fuel d (kw_ltlt ++ (if p then [cLF] else @nil byte) ++ entries_text p es ++ kw_gtgt ++ rest)
  = Ok (ODict (map norm_kv es), rest).
Proof.
  intros Hro Hw Hnd Hlen Hd Hfuel. destruct fuel as [|f]; [lia|].
  rewrite read_dict_eq.
  replace (max_depth L <=? d) with false by (symmetry; apply N.leb_gt; exact Hd).
  cbn [kw_ltlt app starts_with]. change (cLT =? cLT) with true. cbn [andb drop].
  destruct (entries_head p es rest) as (c & X0 & EX & Hc).
  destruct (key_end_facts c X0 Hc) as (Hc1 & _).
  assert (Hsk : skip_ws ((if p then [cLF] else @nil byte) ++ entries_text p es ++ kw_gtgt ++ rest)
                = Ok (entries_text p es ++ kw_gtgt ++ rest)).
  { rewrite EX. destruct p; cbn [app]; [rewrite skip_ws_lf|]; exact Hc1. }
  rewrite Hsk. rewrite (dict_loop L (d + 1) p es [] f rest); auto. lia.
Qed.

(* ---- fuel of a dictionary: invariant under the sorting of SortedKeys ---- *)
Lemma esz_perm a b : Permutation a b -> esz a = esz b.
Proof.
  induction 1; cbn [esz fold_right] in *; try fold (esz l) in *; try fold (esz l') in *; lia.
Qed.
Lemma esz_filter l : esz (filter nonnull l) = esize l.
Proof.
  induction l as [|[k v] r IH]; [reflexivity|]. cbn [filter esize fold_right snd]. fold (esize r).
  unfold nonnull at 1. cbn [snd]. destruct (is_null v); cbn [negb]; [exact IH|].
  cbn [esz fold_right snd]. fold (esz (filter nonnull r)). rewrite IH. reflexivity.
Qed.

Lemma after_dict_ok v tail t1 : skip_ws tail = Ok t1 -> starts_with kw_stream t1 = false ->
  exists s', after_dict v tail = Ok (v, s') /\ skip_ws s' = Ok t1.
Proof.
  intros Ht Hns. unfold after_dict. rewrite Ht, Hns. exists t1. split; [reflexivity|].
  apply skip_ws_idem with (s := tail). exact Ht.
Qed.

Lemma hex_digit_not_lt c : c < 256 -> (hex_digit (c / 16) =? cLT) = false.
Proof.
  intro Hc.
  pose proof (all_bytes_spec (fun c => negb (hex_digit (c / 16) =? cLT)) ltac:(vm_compute; reflexivity) c Hc) as H.
  cbv beta in H. apply negb_true_iff in H. exact H.
Qed.

Lemma hex_text_head s tail : wfbs s = true ->
  exists x r, fmt_hex_body s ++ [cGT] ++ tail = x :: r /\ (x =? cLT) = false.
Proof.
  intro Hw. destruct s as [|c s].
  - exists cGT, tail. split; reflexivity.
  - apply wfbs_cons in Hw as [Hc _]. cbn [fmt_hex_body app]. eexists _, _. split; [reflexivity|].
    apply hex_digit_not_lt. exact Hc.
Qed.

Lemma read_object_numtok L f d t tail :
  (exists sgn b ds, t = sgn ++ b :: ds /\ (sgn = [] \/ sgn = [cMINUS]) /\ is_digit b = true) ->
  read_object L (S f) d (t ++ tail) = read_number L (t ++ tail).
Proof.
  intros (sgn & b & ds & E & [-> | ->] & Hb); subst t; cbn [app].
  - apply read_object_num. apply digit_good. exact Hb.
  - apply read_object_num. reflexivity.
Qed.

(* ---- every value ---- *)
Theorem ro_all : forall o, ro_spec o.
Proof.
  apply obj_ind2; unfold ro_spec.
  - (* null *)
    intros p L d fuel tail t1 Hw Hr Hf Ht Hns Hfo. destruct fuel as [|f]; [cbn in Hf; lia|].
    change (body p ONull) with kw_null. rewrite read_object_null. exists tail. auto.
  - (* bool *)
    intros b p L d fuel tail t1 Hw Hr Hf Ht Hns Hfo. destruct fuel as [|f]; [cbn in Hf; lia|].
    destruct b.
    + change (body p (OBool true)) with kw_true. rewrite read_object_true. exists tail. auto.
    + change (body p (OBool false)) with kw_false. rewrite read_object_false. exists tail. auto.
  - (* integer *)
    intros z p L d fuel tail t1 Hw Hr Hf Ht Hns Hfo. destruct fuel as [|f]; [cbn in Hf; lia|].
    cbn [wf_obj] in Hw. apply andb_true_iff in Hw as [Hin Hl]. apply N.leb_le in Hl.
    change (body p (OInt z)) with (print_int z).
    destruct (follow_ok_int tail (Hfo eq_refl)) as [Hfi _].
    rewrite read_object_numtok.
    + rewrite int_rt_lemma by assumption. exists tail. auto.
    + destruct (print_int_shape z) as (sgn & b & ds & E & Hs & Hb & _). exists sgn, b, ds. auto.
  - (* real *)
    intros t p L d fuel tail t1 Hw Hr Hf Ht Hns Hfo. destruct fuel as [|f]; [cbn in Hf; lia|].
    cbn [wf_obj] in Hw. apply andb_true_iff in Hw as [Hw Ho]. apply andb_true_iff in Hw as [Hg Hl].
    apply N.leb_le in Hl. apply negb_true_iff in Ho.
    change (body p (OReal t)) with (fmt_real t).
    destruct (follow_ok_int tail (Hfo eq_refl)) as [_ Hfr].
    rewrite read_object_numtok.
    + rewrite real_rt_lemma by assumption. exists tail. auto.
    + destruct (real_shape t Hg) as (sgn & d1 & ds1 & ds2 & E & Hs & Hd1 & _).
      exists sgn, d1, (ds1 ++ cDOT :: ds2). unfold fmt_real. rewrite E. auto.
  - (* name *)
    intros n p L d fuel tail t1 Hw Hr Hf Ht Hns Hfo. destruct fuel as [|f]; [cbn in Hf; lia|].
    cbn [wf_obj] in Hw. destruct (wf_name_facts L n Hw) as [Hw1 Hw2].
    change (body p (OName n)) with (fmt_name n).
    pose proof (name_rt_lemma L n tail Hw1 Hw2 (Hfo eq_refl)) as Hn.
    unfold fmt_name in *. cbn [app] in *. rewrite read_object_name.
    unfold bytes, byte in *. rewrite Hn. exists tail. auto.
  - (* string *)
    intros s p L d fuel tail t1 Hw Hr Hf Ht Hns Hfo. destruct fuel as [|f]; [cbn in Hf; lia|].
    cbn [wf_obj] in Hw. apply andb_true_iff in Hw as [Hw1 Hw2]. apply N.ltb_lt in Hw2.
    change (body p (OStr s)) with (fmt_string p s).
    pose proof (string_rt_lemma L p s tail Hw1 Hw2) as Hs.
    unfold fmt_string in *. destruct (p && use_hex s).
    + unfold fmt_str_hex in *. cbn [app] in Hs |- *. rewrite <- app_assoc in Hs |- *.
      destruct (hex_text_head s tail Hw1) as (x & r & E & Hx).
      unfold bytes, byte in *. rewrite E in *.
      rewrite read_object_hex by exact Hx.
      change (read_string_tok L (cLT :: x :: r)) with (read_hex_string L (x :: r)) in Hs.
      rewrite Hs. exists tail. auto.
    + unfold fmt_str_lit in *. cbn [app] in Hs |- *. rewrite read_object_lp.
      change (read_string_tok L (cLP :: (fmt_str_body None 0 (count_rp s) s ++ [cRP]) ++ tail))
        with (read_string L ((fmt_str_body None 0 (count_rp s) s ++ [cRP]) ++ tail)) in Hs.
      rewrite Hs. exists tail. auto.
  - (* array *)
    intros l IH p L d fuel tail t1 Hw Hr Hf Ht Hns Hfo.
    cbn [wf_obj] in Hw. apply andb_true_iff in Hw as [Hw Hall]. apply andb_true_iff in Hw as [Hd Hfit].
    apply N.ltb_lt in Hd.
    change (osize (OArr l)) with (S (S (lsize l))) in Hf.
    destruct fuel as [|[|f]]; try lia.
    unfold body. rewrite fmt_obj_arr. cbn [fst]. rewrite <- !app_assoc. cbn [app].
    rewrite read_object_lb, read_array_eq.
    replace (max_depth L <=? d) with false by (symmetry; apply N.leb_gt; exact Hd).
    rewrite norm_arr. exists tail. split; [|exact Ht].
    destruct p.
    + apply (arr_loop_pretty L (d + 1) l true [] 0 f tail); auto. lia.
    + apply (arr_loop_plain L (d + 1) l false [] 0 f tail); auto. lia.
  - (* dictionary *)
    intros l IH p L d fuel tail t1 Hw Hr Hf Ht Hns Hfo.
    cbn [wf_obj] in Hw. apply andb_true_iff in Hw as [Hw Hall]. apply andb_true_iff in Hw as [Hw Hcnt].
    apply andb_true_iff in Hw as [Hd Hnd]. apply N.ltb_lt in Hd. apply N.leb_le in Hcnt.
    change (osize (ODict l)) with (S (S (esize l))) in Hf.
    set (es := sort_entries (filter nonnull l)).
    assert (Hperm : Permutation es (filter nonnull l)) by apply sort_perm.
    assert (Hin : forall kv, In kv es -> In kv l).
    { intros kv H. apply (Permutation_in _ Hperm) in H. apply filter_In in H. tauto. }
    assert (Htext : concat (map snd (sort_entries (fmt_frags p l))) = entries_text p es).
    { rewrite fmt_frags_map. rewrite (sort_map (fun kv => fmt_entry p (fst kv) (snd kv))).
      rewrite map_map. reflexivity. }
    assert (Hnorm : sort_entries (norm_entries l) = map norm_kv es).
    { rewrite norm_entries_map. rewrite (sort_map (fun kv => norm (snd kv))). reflexivity. }
    destruct fuel as [|f]; [lia|].
    unfold body. rewrite fmt_obj_dict. cbn [fst]. rewrite Htext. rewrite norm_dict, Hnorm.
    rewrite <- !app_assoc. change (kw_ltlt ++ ?x) with (cLT :: cLT :: x).
    cbn [kw_ltlt app]. rewrite read_object_dict.
    change (cLT :: cLT :: (if p then [cLF] else []) ++ entries_text p es ++ kw_gtgt ++ tail)
      with (kw_ltlt ++ (if p then [cLF] else @nil byte) ++ entries_text p es ++ kw_gtgt ++ tail).
    rewrite (read_dict_fmt L d p es f tail).
    + apply after_dict_ok; assumption.
    + apply Forall_forall. intros kv Hkv. rewrite Forall_forall in IH. exact (IH kv (Hin kv Hkv)).
    + apply Forall_forall. intros kv Hkv. rewrite forallb_forall in Hall.
      specialize (Hall kv (Hin kv Hkv)). apply andb_true_iff in Hall. exact Hall.
    + apply (Permutation_NoDup (l := map fst (filter nonnull l))).
      * apply Permutation_map. symmetry. exact Hperm.
      * apply NoDup_filter_fst. apply nodup_keys_NoDup. exact Hnd.
    + rewrite (Permutation_length Hperm). rewrite norm_entries_map, map_length in Hcnt. exact Hcnt.
    + exact Hd.
    + rewrite (esz_perm _ _ Hperm), esz_filter. lia.
  - (* reference: not read by ReadObject as one value *)
    intros n g p L d fuel tail t1 Hw Hr. discriminate.
  - (* nil array *)
    intros p L d fuel tail t1 Hw Hr Hf Ht Hns Hfo. destruct fuel as [|f]; [cbn in Hf; lia|].
    change (body p ONilArr) with kw_null. rewrite read_object_null. exists tail. auto.
  - (* nil dictionary *)
    intros p L d fuel tail t1 Hw Hr Hf Ht Hns Hfo.
    cbn [wf_obj] in Hw. apply N.ltb_lt in Hw. cbn [osize] in Hf.
    destruct fuel as [|f]; [lia|].
    change (body p ONilDict ++ tail)
      with (cLT :: cLT :: ((if p then [cLF] else []) ++ kw_gtgt) ++ tail).
    rewrite read_object_dict.
    replace (cLT :: cLT :: ((if p then [cLF] else []) ++ kw_gtgt) ++ tail)
      with (kw_ltlt ++ (if p then [cLF] else @nil byte) ++ entries_text p [] ++ kw_gtgt ++ tail)
      by (cbn [kw_ltlt entries_text map concat app]; rewrite <- app_assoc; reflexivity).
    rewrite (read_dict_fmt L d p [] f tail); auto.
    + change (norm ONilDict) with (ODict (map norm_kv [])). apply after_dict_ok; assumption.
    + constructor.
    + cbn [length]. lia.
    + cbn [esz fold_right]. lia.
Qed.

(* ---- Format followed by the scanner ---- *)
Lemma wf_list_facts L os : wf_list L os = true ->
  0 < max_depth L /\ arr_fits L 0 os = true /\ forallb (wf_obj L 1) os = true.
Proof.
  unfold wf_list. intro H. apply andb_true_iff in H as [H H3]. apply andb_true_iff in H as [H1 H2].
  apply N.ltb_lt in H1. auto.
Qed.

Lemma scan_format_lemma L p os rest fuel :
  wf_list L os = true -> (lsize os + 1 <= fuel)%nat ->
  scan_objects_fuel L fuel (format p os ++ cRB :: rest) = Ok (map norm os, rest).
Proof.
  intros Hw Hf. destruct (wf_list_facts L os Hw) as (Hd & Hfit & Hall).
  assert (Hro : Forall ro_spec os) by (apply Forall_forall; intros; apply ro_all).
  destruct fuel as [|f]; [lia|].
  unfold scan_objects_fuel. rewrite read_array_eq.
  replace (max_depth L <=? 0) with false by (symmetry; apply N.leb_gt; exact Hd).
  unfold format. destruct p.
  - rewrite (arr_loop_pretty L (0 + 1) os true [] 0 f rest); auto. lia.
  - rewrite (arr_loop_plain L (0 + 1) os false [] 0 f rest); auto. lia.
Qed.
