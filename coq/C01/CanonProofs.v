(* norm and canon: the value the scanner returns for formatted text is equal, as the property
   reads equality (nil entries absent, dictionaries as finite maps), to the value written. *)
From Coq Require Import List NArith ZArith Bool Lia Permutation.
From GoPdf.Base Require Import Bytes Res.
From GoPdf.C01 Require Import Lex Obj Num Names Strings Format Wf LexProofs NumProofs FormatProofs SortProofs.
Import ListNotations.
Open Scope N_scope.

Definition ce (kv : bytes * obj) : list (bytes * obj) :=
  match canon (snd kv) with ONull => [] | cv => [(fst kv, cv)] end.

Lemma canon_entries_flat l : canon_entries l = flat_map ce l.
Proof.
  induction l as [|[k v] r IH]; [reflexivity|]. cbn [canon_entries flat_map]. unfold ce at 1. cbn [fst snd].
  rewrite IH. destruct (canon v); reflexivity.
Qed.

Lemma canon_dict l : canon (ODict l) = ODict (sort_entries (canon_entries l)).
Proof. cbn [canon]. f_equal. Qed.

Lemma flat_ce_keys l k : In k (map fst (flat_map ce l)) -> In k (map fst l).
Proof.
  induction l as [|[k0 v] r IH]; cbn [flat_map map]; [tauto|]. rewrite map_app, in_app_iff.
  intros [H|H]; [left|right; apply IH; exact H].
  unfold ce in H. cbn [fst snd] in H. destruct (canon v); cbn [map In fst] in H; tauto.
Qed.

Lemma flat_ce_nodup l : NoDup (map fst l) -> NoDup (map fst (flat_map ce l)).
Proof.
  induction l as [|[k v] r IH]; cbn [flat_map map]; intro H; [constructor|].
  inversion H as [|? ? Hn Hr]; subst. rewrite map_app.
  assert (Hr' := IH Hr).
  unfold ce. cbn [fst snd]. destruct (canon v); cbn [map app fst]; try exact Hr';
    (constructor; [intro Hin; apply Hn; apply flat_ce_keys; exact Hin | exact Hr']).
Qed.

Lemma force_dot_idem t : force_dot (force_dot t) = force_dot t.
Proof.
  assert (H : has_dot (force_dot t) = true).
  { unfold force_dot. destruct (has_dot t) eqn:E; [exact E|].
    rewrite has_dot_app. cbn [has_dot existsb]. change (cDOT =? cDOT) with true.
    rewrite orb_true_r. reflexivity. }
  unfold force_dot at 1. rewrite H. reflexivity.
Qed.

Lemma norm_entries_keys l : NoDup (map fst l) -> NoDup (map fst (norm_entries l)).
Proof.
  intro H. rewrite norm_entries_map. rewrite (map_fst_keyed (fun kv => norm (snd kv))).
  apply NoDup_filter_fst. exact H.
Qed.

Theorem norm_canon_lemma : forall o L d, wf_obj L d o = true -> canon (norm o) = canon o.
Proof.
  apply (obj_ind2 (fun o => forall L d, wf_obj L d o = true -> canon (norm o) = canon o));
    try (intros; reflexivity).
  - (* real *) intros t L d _. cbn [norm canon]. rewrite force_dot_idem. reflexivity.
  - (* array *)
    intros l IH L d Hw. cbn [wf_obj] in Hw. apply andb_true_iff in Hw as [_ Hall].
    cbn [norm canon]. f_equal. rewrite map_map. apply map_ext_in. intros x Hx.
    rewrite Forall_forall in IH. rewrite forallb_forall in Hall. eapply IH; eauto.
  - (* dictionary *)
    intros l IH L d Hw. cbn [wf_obj] in Hw. apply andb_true_iff in Hw as [Hw Hall].
    apply andb_true_iff in Hw as [Hw _]. apply andb_true_iff in Hw as [_ Hnd].
    apply nodup_keys_NoDup in Hnd.
    rewrite norm_dict, !canon_dict. f_equal.
    assert (H1 : canon_entries (norm_entries l) = canon_entries l).
    { clear Hnd. induction l as [|[k v] r IHr]; [reflexivity|].
      inversion IH as [|? ? IHv IHr']; subst. cbn [forallb fst snd] in Hall.
      apply andb_true_iff in Hall as [Hv Hall]. apply andb_true_iff in Hv as [_ Hv].
      cbn [snd] in IHv. specialize (IHr IHr' Hall).
      destruct v; cbn [norm_entries canon_entries]; try exact IHr;
        rewrite (IHv L (d + 1) Hv); rewrite IHr; reflexivity. }
    rewrite <- H1. rewrite !canon_entries_flat. apply sort_canonical.
    + apply Permutation_flat_map. apply sort_perm.
    + apply flat_ce_nodup.
      apply (Permutation_NoDup (l := map fst (norm_entries l))).
      * apply Permutation_map. symmetry. apply sort_perm.
      * apply norm_entries_keys. exact Hnd.
Qed.

Lemma norm_canon_list L os : wf_list L os = true -> map canon (map norm os) = map canon os.
Proof.
  unfold wf_list. intro H. apply andb_true_iff in H as [_ Hall].
  rewrite map_map. apply map_ext_in. intros x Hx. rewrite forallb_forall in Hall.
  eapply norm_canon_lemma. apply Hall. exact Hx.
Qed.
