Require Extraction.
Require Import ExtrOcamlBasic.
From GoPdf.Base Require Import WireAnchor.
From GoPdf.C01 Require Import Lex Obj Num Names Strings Format Scan Wf BufSrc Readers.
Separate Extraction wire_anchor std_limits mkLimits format scan_objects parse_string parse_name
  fmt_string fmt_name canon norm read_atoms_buffered read_atoms_list scanner_buf format_opt text_ordered format_checked.
