(* C01 model, part 2: PDF values, the order of SortedKeys, normalisation.  Definitions only. *)
From Coq Require Import List NArith ZArith Bool.
From GoPdf.Base Require Import Bytes Res.
From GoPdf.C01 Require Import Lex.
Import ListNotations.
Open Scope N_scope.

(* Native values of C01's domain.  [OReal t]: a real number is represented by its decimal
   token (float <-> text is the external hypothesis H-float).  [ONilArr]/[ONilDict] are Go's
   typed nil Array / nil Dict; a dictionary entry whose value is the untyped nil is [ONull]. *)
Inductive obj :=
| ONull
| OBool (b : bool)
| OInt (z : Z)
| OReal (t : bytes)
| OName (n : bytes)
| OStr (s : bytes)
| OArr (l : list obj)
| ODict (l : list (bytes * obj))
| ORef (n g : Z)
| ONilArr
| ONilDict.

Definition is_null (o : obj) : bool := match o with ONull => true | _ => false end.
Definition is_int (o : obj) : bool := match o with OInt _ => true | _ => false end.

(* ---- Dict.SortedKeys: "Type", "Subtype" first, the rest in byte order ---- *)
Definition key_Type : bytes := [84; 121; 112; 101].
Definition key_Subtype : bytes := [83; 117; 98; 116; 121; 112; 101].
Definition key_rank (k : bytes) : N :=
  if bytes_eqb k key_Type then 0 else if bytes_eqb k key_Subtype then 1 else 2.
Definition key_ltb (a b : bytes) : bool :=
  (key_rank a <? key_rank b) || ((key_rank a =? key_rank b) && bytes_ltb a b).

Section Sort.
  Context {A : Type}.
  Fixpoint insert_entry (e : bytes * A) (l : list (bytes * A)) : list (bytes * A) :=
    match l with
    | [] => [e]
    | x :: r => if key_ltb (fst x) (fst e) then x :: insert_entry e r else e :: l
    end.
  Fixpoint sort_entries (l : list (bytes * A)) : list (bytes * A) :=
    match l with
    | [] => []
    | e :: r => insert_entry e (sort_entries r)
    end.
  (* Go map assignment d[k] = v, on an association list in first-insertion order *)
  Fixpoint dict_set (l : list (bytes * A)) (k : bytes) (v : A) : list (bytes * A) :=
    match l with
    | [] => [(k, v)]
    | x :: r => if bytes_eqb (fst x) k then (k, v) :: r else x :: dict_set r k v
    end.
  Fixpoint dict_has (l : list (bytes * A)) (k : bytes) : bool :=
    match l with
    | [] => false
    | x :: r => bytes_eqb (fst x) k || dict_has r k
    end.
End Sort.

(* ---- real-number tokens ---- *)
Definition has_dot (t : bytes) : bool := existsb (fun b => b =? cDOT) t.
(* doFormat: append "." when strconv's text has none *)
Definition force_dot (t : bytes) : bytes := if has_dot t then t else t ++ [cDOT].

(* ---- what the scanner returns for the formatted text of a value ---- *)
Fixpoint norm (o : obj) : obj :=
  match o with
  | ONilArr => ONull
  | ONilDict => ODict []
  | OReal t => OReal (force_dot t)
  | OArr l => OArr (map norm l)
  | ODict l =>
    ODict (sort_entries
      ((fix go (l : list (bytes * obj)) : list (bytes * obj) :=
          match l with
          | [] => []
          | (k, v) :: r => match v with ONull => go r | _ => (k, norm v) :: go r end
          end) l))
  | _ => o
  end.
Fixpoint norm_entries (l : list (bytes * obj)) : list (bytes * obj) :=
  match l with
  | [] => []
  | (k, v) :: r => match v with ONull => norm_entries r | _ => (k, norm v) :: norm_entries r end
  end.

(* ---- equality of values as the property reads it: a nil entry is absent, a nil array is
        null, a nil dictionary is the empty dictionary, dictionaries are finite maps ---- *)
Fixpoint canon (o : obj) : obj :=
  match o with
  | ONilArr => ONull
  | ONilDict => ODict []
  | OReal t => OReal (force_dot t)
  | OArr l => OArr (map canon l)
  | ODict l =>
    ODict (sort_entries
      ((fix go (l : list (bytes * obj)) : list (bytes * obj) :=
          match l with
          | [] => []
          | (k, v) :: r => match canon v with ONull => go r | cv => (k, cv) :: go r end
          end) l))
  | _ => o
  end.
Fixpoint canon_entries (l : list (bytes * obj)) : list (bytes * obj) :=
  match l with
  | [] => []
  | (k, v) :: r => match canon v with ONull => canon_entries r | cv => (k, cv) :: canon_entries r end
  end.

(* fuel that suffices to scan the formatted text of a value (one unit per recursive call) *)
Fixpoint osize (o : obj) : nat :=
  match o with
  | OArr l => S (S (fold_right (fun x n => S (osize x + n)) 1 l))%nat
  | ODict l =>
    S (S (fold_right (fun kv n => if is_null (snd kv) then n else S (osize (snd kv) + n)) 1 l))%nat
  | ONilDict => 3%nat
  | ORef _ _ => 4%nat
  | _ => 1%nat
  end.
Definition lsize (l : list obj) : nat := fold_right (fun x n => S (osize x + n))%nat 1%nat l.
Definition esize (l : list (bytes * obj)) : nat :=
  fold_right (fun kv n => if is_null (snd kv) then n else S (osize (snd kv) + n))%nat 1%nat l.
