(* limits_reject for arrays: an array with more than maxArrayLen elements (none of them a
   reference) is rejected with a MalformedFileError, whatever its elements are. *)
From Coq Require Import List NArith ZArith Bool Lia.
From GoPdf.Base Require Import Bytes Res.
From GoPdf.C01 Require Import Lex Obj Num Names Strings Format Scan Wf
  LexProofs NumProofs NamesProofs StringsProofs FormatProofs ScanProofs.
Import ListNotations.
Open Scope N_scope.

Definition no_refs (l : list obj) : bool := forallb (fun o => negb (is_ref o)) l.

(* an element read when the array already holds more than the limit *)
Lemma arr_step_fail L d p o ws f acc iseen X t1 :
  is_lead ws ->
  ro_spec o -> is_ref o = false -> wf_obj L d o = true -> (osize o <= f)%nat ->
  max_arr L < N.of_nat (length acc) ->
  skip_ws X = Ok t1 -> starts_with kw_stream t1 = false ->
  (ends_reg o = true -> follow_ok X = true) ->
  read_arr_loop L (S f) d acc iseen (ws ++ body p o ++ X) = Err Malformed.
Proof.
  intros Hws Hro Hr Hw Hf Hlen HX Hns Hfo.
  rewrite read_arr_loop_eq. rewrite (skip_lead_body p L d o ws X Hw Hws).
  destruct (body_head p L d o Hw) as (b & r & E & Hg & _).
  apply good_head_facts in Hg as (_ & H1 & H2 & _).
  destruct (Hro p L d f X t1 Hw Hr Hf HX Hns Hfo) as (s' & Hread & Hs').
  rewrite E in *. cbn [app] in *. rewrite H1, H2, andb_false_r. rewrite Hread.
  replace (max_arr L <? N.of_nat (length acc)) with true by (symmetry; apply N.ltb_lt; exact Hlen).
  reflexivity.
Qed.

Lemma arr_loop_plain_over L d : forall os sep acc iseen fuel rest,
  Forall ro_spec os -> forallb (wf_obj L d) os = true -> no_refs os = true ->
  max_arr L < N.of_nat (length acc + length os) -> (lsize os <= fuel)%nat ->
  read_arr_loop L fuel d acc iseen (fmt_list_plain sep os ++ cRB :: rest) = Err Malformed.
Proof.
  induction os as [|o os IH]; intros sep acc iseen fuel rest Hro Hw Hnr Hover Hfuel.
  - cbn [fmt_list_plain app]. destruct fuel as [|f]; [cbn in Hfuel; lia|].
    rewrite read_arr_loop_eq. rewrite skip_ws_stop by reflexivity.
    change (cRB =? cRB) with true. cbn iota.
    replace (max_arr L <? N.of_nat (length acc)) with true
      by (symmetry; apply N.ltb_lt; cbn [length] in Hover; lia).
    reflexivity.
  - inversion Hro as [|? ? Hro1 Hro2]; subst.
    cbn [forallb] in Hw. apply andb_true_iff in Hw as [Hw1 Hw2].
    unfold no_refs in Hnr. cbn [forallb] in Hnr. apply andb_true_iff in Hnr as [Hr1 Hnr]. apply negb_true_iff in Hr1.
    rewrite lsize_cons in Hfuel. destruct fuel as [|f]; [lia|].
    rewrite fmt_list_plain_cons. rewrite <- !app_assoc.
    destruct (plain_tail L d os (ends_reg o) rest Hw2) as (t1 & Ht1 & Hns & Hfo).
    destruct (N.ltb_spec (max_arr L) (N.of_nat (length acc))) as [Hgt|Hle].
    + apply (arr_step_fail L d false o (lead sep o) f acc iseen _ t1); auto; [apply lead_is_lead | lia].
    + rewrite (arr_step L d false o (lead sep o) f acc iseen _ t1);
        [ | apply lead_is_lead | exact Hro1 | exact Hr1 | exact Hw1 | lia | exact Hle | exact Ht1 | exact Hns | exact Hfo ].
      apply IH; auto; [cbn [length] in *; lia | lia].
Qed.

Lemma arr_loop_pretty_over L d : forall os first acc iseen fuel rest,
  Forall ro_spec os -> forallb (wf_obj L d) os = true -> no_refs os = true ->
  max_arr L < N.of_nat (length acc + length os) -> (lsize os <= fuel)%nat ->
  read_arr_loop L fuel d acc iseen (fmt_list_pretty first os ++ cRB :: rest) = Err Malformed.
Proof.
  induction os as [|o os IH]; intros first acc iseen fuel rest Hro Hw Hnr Hover Hfuel.
  - cbn [fmt_list_pretty app]. destruct fuel as [|f]; [cbn in Hfuel; lia|].
    rewrite read_arr_loop_eq. rewrite skip_ws_stop by reflexivity.
    change (cRB =? cRB) with true. cbn iota.
    replace (max_arr L <? N.of_nat (length acc)) with true
      by (symmetry; apply N.ltb_lt; cbn [length] in Hover; lia).
    reflexivity.
  - inversion Hro as [|? ? Hro1 Hro2]; subst.
    cbn [forallb] in Hw. apply andb_true_iff in Hw as [Hw1 Hw2].
    unfold no_refs in Hnr. cbn [forallb] in Hnr. apply andb_true_iff in Hnr as [Hr1 Hnr]. apply negb_true_iff in Hr1.
    rewrite lsize_cons in Hfuel. destruct fuel as [|f]; [lia|].
    rewrite fmt_list_pretty_cons. rewrite <- !app_assoc.
    destruct (pretty_tail L d os rest Hw2) as (t1 & Ht1 & Hns & Hfo).
    assert (Hlead : is_lead (if first then [] else [cSP])) by (destruct first; [left|right]; reflexivity).
    destruct (N.ltb_spec (max_arr L) (N.of_nat (length acc))) as [Hgt|Hle].
    + apply (arr_step_fail L d true o _ f acc iseen _ t1); auto. lia.
    + rewrite (arr_step L d true o _ f acc iseen _ t1);
        [ | exact Hlead | exact Hro1 | exact Hr1 | exact Hw1 | lia | exact Hle | exact Ht1 | exact Hns | intros _; exact Hfo ].
      apply IH; auto; [cbn [length] in *; lia | lia].
Qed.

(* the whole parse: the long array as the only value *)
Lemma array_limit_lemma L p l fuel :
  1 < max_depth L -> forallb (wf_obj L 2) l = true -> no_refs l = true ->
  max_arr L < N.of_nat (length l) -> (lsize [OArr l] + 1 <= fuel)%nat ->
  scan_objects_fuel L fuel (format p [OArr l] ++ [cRB]) = Err Malformed.
Proof.
  intros Hd Hw Hnr Hover Hfuel.
  assert (Hro : Forall ro_spec l) by (apply Forall_forall; intros; apply ro_all).
  change (lsize [OArr l]) with (S (S (S (lsize l)) + 1)) in Hfuel.
  destruct fuel as [|[|[|[|f]]]]; try lia.
  unfold scan_objects_fuel. rewrite read_array_eq.
  replace (max_depth L <=? 0) with false by (symmetry; apply N.leb_gt; lia).
  assert (Htext : format p [OArr l] ++ [cRB]
                  = cLB :: (if p then fmt_list_pretty true l else fmt_list_plain false l) ++ cRB :: [cRB]).
  { unfold format. destruct p; cbn [fmt_list_pretty fmt_list_plain]; rewrite fmt_obj_arr;
      cbn [fst app]; rewrite <- ?app_assoc; cbn [app]; rewrite ?app_nil_r; rewrite <- ?app_assoc; reflexivity. }
  rewrite Htext. rewrite read_arr_loop_eq. rewrite skip_ws_stop by reflexivity.
  change (cLB =? cRB) with false. change (cLB =? cR) with false. rewrite andb_false_r. cbn iota.
  rewrite read_object_lb, read_array_eq.
  replace (max_depth L <=? 0 + 1) with false by (symmetry; apply N.leb_gt; lia).
  assert (Hloop : read_arr_loop L f (0 + 1 + 1) [] 0
                    ((if p then fmt_list_pretty true l else fmt_list_plain false l) ++ cRB :: [cRB]) = Err Malformed).
  { destruct p; [apply arr_loop_pretty_over | apply arr_loop_plain_over]; auto; cbn [length]; lia. }
  unfold bytes, byte in *. rewrite Hloop. reflexivity.
Qed.
