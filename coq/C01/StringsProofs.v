(* string_rt: ReadString (ReadHexString) reads back what formatString wrote, for every byte
   string and every continuation of the input. *)
From Coq Require Import List NArith ZArith Bool Lia.
From GoPdf.Base Require Import Bytes Res.
From GoPdf.C01 Require Import Lex Strings LexProofs.
Import ListNotations.
Open Scope N_scope.

Lemma fmt_str_body_len l : forall prev lvl ncl, (length (fmt_str_body prev lvl ncl l) <= 2 * length l)%nat.
Proof.
  induction l as [|c r IH]; intros prev lvl ncl; cbn [fmt_str_body length]; [lia|].
  repeat match goal with
  | |- context [if ?b then _ else _] => destruct b
  end; try destruct lvl; cbn [length];
  match goal with |- context [fmt_str_body ?p ?a ?b r] => pose proof (IH p a b); lia end.
Qed.

Local Ltac fin := cbn [rev]; rewrite <- ?app_assoc; reflexivity.
Local Ltac lim_ok H :=
  match goal with
  | |- context [max_str ?L <=? blen ?acc] =>
    replace (max_str L <=? blen acc) with false
      by (symmetry; apply N.leb_gt; unfold blen in *; cbn [length] in H; lia)
  end.

(* the invariant of Appendix C: lvl <= ncl, where ncl is the number of ")" still to come *)
Lemma read_fmt_str_body L : forall l prev lvl ncl acc fuel rest,
  ncl = count_rp l -> (lvl <= ncl)%nat ->
  (fuel > length (fmt_str_body prev lvl ncl l))%nat ->
  N.of_nat (length acc + length l) < max_str L ->
  read_str_body L fuel lvl false acc (fmt_str_body prev lvl ncl l ++ cRP :: rest)
  = Ok (rev acc ++ l, rest).
Proof.
  induction l as [|c r IH]; intros prev lvl ncl acc fuel rest Hn Hl Hf Hm.
  - cbn in Hn. subst ncl. assert (lvl = 0%nat) by lia. subst.
    destruct fuel; [cbn in Hf; lia|]. cbn [fmt_str_body app read_str_body].
    lim_ok Hm. cbn. rewrite app_nil_r. reflexivity.
  - destruct fuel as [|fuel]; [cbn in Hf; lia|].
    cbn [count_rp] in Hn.
    cbn [fmt_str_body] in *.
    assert (Hm' : forall x, N.of_nat (length (x :: acc) + length r) < max_str L)
      by (intro x; cbn [length] in *; lia).
    destruct (c =? cCR) eqn:ECR.
    { apply N.eqb_eq in ECR; subst c. change (cCR =? cRP) with false in Hn. cbn in Hn.
      cbn [app read_str_body]. lim_ok Hm. cbn. cbn [length] in Hf. rewrite IH; try lia; [fin|apply Hm']. }
    destruct (c =? cLF) eqn:ELF.
    { apply N.eqb_eq in ELF; subst c. change (cLF =? cRP) with false in Hn. cbn in Hn.
      match goal with |- context [if ?b then _ else _] => destruct b end.
      - cbn [app read_str_body]. lim_ok Hm. cbn. cbn [length] in Hf. rewrite IH; try lia; [fin|apply Hm'].
      - cbn [app read_str_body]. lim_ok Hm. cbn. cbn [length] in Hf. rewrite IH; try lia; [fin|apply Hm']. }
    destruct (c =? cLP) eqn:ELP.
    { apply N.eqb_eq in ELP; subst c. change (cLP =? cRP) with false in Hn. cbn in Hn.
      destruct (Nat.ltb_spec lvl ncl).
      - cbn [app read_str_body]. lim_ok Hm. cbn. cbn [length] in Hf. rewrite IH; try lia; [fin|apply Hm'].
      - cbn [app read_str_body]. lim_ok Hm. cbn. cbn [length] in Hf. rewrite IH; try lia; [fin|apply Hm']. }
    destruct (c =? cRP) eqn:ERP.
    { apply N.eqb_eq in ERP; subst c. cbn in Hn.
      destruct lvl as [|l'].
      - cbn [app read_str_body]. lim_ok Hm. cbn. cbn [length] in Hf. rewrite IH; try lia; [fin|apply Hm'].
      - cbn [app read_str_body]. lim_ok Hm. cbn. cbn [length] in Hf. rewrite IH; try lia; [fin|apply Hm']. }
    destruct (c =? cBS) eqn:EBS.
    { apply N.eqb_eq in EBS; subst c. cbn in Hn.
      cbn [app read_str_body]. lim_ok Hm. cbn. cbn [length] in Hf. rewrite IH; try lia; [fin|apply Hm']. }
    cbn [Nat.add] in Hn.
    cbn [app read_str_body]. lim_ok Hm. cbn [andb]. rewrite ELP, ERP, EBS, ECR. cbn [length] in Hf.
    rewrite IH; try lia; [fin|apply Hm'].
Qed.

Lemma read_fmt_str_lit L l rest : blen l < max_str L ->
  read_string_tok L (fmt_str_lit l ++ rest) = Ok (l, rest).
Proof.
  intro Hm. unfold fmt_str_lit, read_string_tok, read_string. cbn [app]. change (cLP =? cLP) with true. cbn iota.
  rewrite <- app_assoc. cbn [app].
  rewrite read_fmt_str_body; [reflexivity | reflexivity | lia | | ].
  - rewrite app_length. cbn [length]. lia.
  - unfold blen in Hm. cbn [length]. lia.
Qed.

Lemma read_fmt_hex_body L : forall l acc rest,
  wfbs l = true -> N.of_nat (length acc + length l) <= max_str L ->
  read_hex_body L None acc (fmt_hex_body l ++ cGT :: rest) = Ok (rev acc ++ l, rest).
Proof.
  induction l as [|c r IH]; intros acc rest Hw Hm.
  - cbn. rewrite app_nil_r. reflexivity.
  - apply wfbs_cons in Hw as [Hc Hw].
    destruct (hex_pair_rt c Hc) as (H1 & H2 & H3).
    cbn [fmt_hex_body app read_hex_body]. rewrite H1. rewrite H2.
    replace (max_str L <=? blen acc) with false
      by (symmetry; apply N.leb_gt; unfold blen; cbn [length] in Hm; lia).
    unfold is_hex in H1, H2. rewrite H3.
    rewrite IH; auto.
    + cbn [rev]. rewrite <- app_assoc. reflexivity.
    + cbn [length] in *. lia.
Qed.

Lemma read_fmt_str_hex L l rest : wfbs l = true -> blen l <= max_str L ->
  read_string_tok L (fmt_str_hex l ++ rest) = Ok (l, rest).
Proof.
  intros Hw Hm. unfold fmt_str_hex, read_string_tok, read_hex_string. cbn [app].
  change (cLT =? cLP) with false. change (cLT =? cLT) with true. cbn iota.
  rewrite <- app_assoc. cbn [app]. rewrite read_fmt_hex_body; auto.
Qed.

Lemma string_rt_lemma L p l rest : wfbs l = true -> blen l < max_str L ->
  read_string_tok L (fmt_string p l ++ rest) = Ok (l, rest).
Proof.
  intros Hw Hm. unfold fmt_string. destruct (p && use_hex l).
  - apply read_fmt_str_hex; auto. lia.
  - apply read_fmt_str_lit; auto.
Qed.

(* ParseString on exactly the formatted text *)
Lemma parse_string_rt L p l : wfbs l = true -> blen l < max_str L ->
  parse_string L (fmt_string p l) = Ok l.
Proof.
  intros Hw Hm. pose proof (string_rt_lemma L p l [] Hw Hm) as H. rewrite app_nil_r in H.
  unfold parse_string. unfold read_string_tok in H.
  destruct (fmt_string p l) as [|b r] eqn:E.
  - discriminate.
  - destruct (b =? cLP); [rewrite H; reflexivity|].
    destruct (b =? cLT); [rewrite H; reflexivity|]. discriminate.
Qed.

(* the first byte of a formatted string *)
Lemma fmt_string_head p l : exists r, fmt_string p l = cLP :: r \/ fmt_string p l = cLT :: r.
Proof.
  unfold fmt_string. destruct (p && use_hex l).
  - eexists. right. reflexivity.
  - eexists. left. reflexivity.
Qed.
