(* What the writer accepts (Wf.fmt_ok) against the limits of the scanner (Wf.wf_obj). *)
From Coq Require Import List NArith ZArith Bool Lia.
From GoPdf.Base Require Import Bytes Res.
From GoPdf.C01 Require Import Lex Obj Num Names Strings Format Scan Wf
  LexProofs FormatProofs ScanProofs SortProofs CanonProofs FuelProofs.
Import ListNotations.
Open Scope N_scope.

(* ---- equations for the local fixpoints ---- *)
Lemma fmt_ok_dict L d l :
  fmt_ok L d (ODict l) =
  (d <? max_depth L) && (N.of_nat (length (norm_entries l)) <=? max_dict L)
  && forallb (fun kv => is_null (snd kv) || ((blen (fst kv) <? max_name L) && fmt_ok L (d + 1) (snd kv))) l.
Proof.
  cbn [fmt_ok]. f_equal. induction l as [|[k v] r IH]; [reflexivity|].
  cbn [forallb fst snd]. rewrite <- IH. destruct v; reflexivity.
Qed.
Lemma go_value_dict l :
  go_value (ODict l) = nodup_keys l && forallb (fun kv => wfbs (fst kv) && go_value (snd kv)) l.
Proof.
  cbn [go_value]. f_equal. induction l as [|[k v] r IH]; [reflexivity|].
  cbn [forallb fst snd]. rewrite <- IH. reflexivity.
Qed.
Lemma nums_fit_dict L l : nums_fit L (ODict l) = forallb (fun kv => nums_fit L (snd kv)) l.
Proof.
  cbn [nums_fit]. induction l as [|[k v] r IH]; [reflexivity|]. cbn [forallb snd]. rewrite <- IH. reflexivity.
Qed.
Definition prune_entries (l : list (bytes * obj)) : list (bytes * obj) :=
  map (fun kv => (fst kv, prune (snd kv))) (filter nonnull l).
Lemma prune_dict l : prune (ODict l) = ODict (prune_entries l).
Proof.
  cbn [prune]. f_equal. unfold prune_entries. induction l as [|[k v] r IH]; [reflexivity|].
  rewrite IH. destruct v; reflexivity.
Qed.
Lemma prune_null o : is_null (prune o) = is_null o.
Proof. destruct o; reflexivity. Qed.

(* ---- within the limits => accepted ---- *)
Lemma wf_accepts_lemma L : forall o d, wf_obj L d o = true -> fmt_ok L d o = true.
Proof.
  induction o as [| | | | | |l IH|l IH| | |] using obj_ind2; intros d Hw; try reflexivity.
  - cbn [wf_obj fmt_ok] in *. unfold wf_name in Hw. apply andb_true_iff in Hw. tauto.
  - cbn [wf_obj fmt_ok] in *. apply andb_true_iff in Hw. tauto.
  - cbn [wf_obj] in Hw. apply andb_true_iff in Hw as [Hw Hall]. apply andb_true_iff in Hw as [Hd Hfit].
    cbn [fmt_ok]. rewrite Hd. cbn [andb].
    assert (Hlen : N.of_nat (length l) <= max_arr L).
    { clear -Hfit. assert (G : forall l0 k, arr_fits L k l0 = true -> k + N.of_nat (length l0) <= max_arr L).
      { induction l0 as [|x r IHr]; intros k H; cbn [arr_fits length] in *.
        - apply N.leb_le in H. lia.
        - apply IHr in H. lia. }
      apply G in Hfit. lia. }
    apply N.leb_le in Hlen. rewrite Hlen. cbn [andb].
    rewrite forallb_forall in Hall. rewrite Forall_forall in IH.
    apply forallb_forall. intros x Hx. apply IH; [exact Hx | apply Hall; exact Hx].
  - rewrite fmt_ok_dict. cbn [wf_obj] in Hw.
    apply andb_true_iff in Hw as [Hw Hall]. apply andb_true_iff in Hw as [Hw Hcnt].
    apply andb_true_iff in Hw as [Hd _]. rewrite Hd, Hcnt. cbn [andb].
    rewrite forallb_forall in Hall. rewrite Forall_forall in IH.
    apply forallb_forall. intros kv Hkv. specialize (Hall kv Hkv).
    apply andb_true_iff in Hall as [Hk Hv]. unfold wf_name in Hk. apply andb_true_iff in Hk as [_ Hk].
    rewrite Hk, (IH kv Hkv _ Hv). apply orb_true_r.
  - cbn [wf_obj fmt_ok] in *. unfold wf_ref in Hw.
    repeat (apply andb_true_iff in Hw as [Hw ?]). assumption.
  - cbn [wf_obj fmt_ok] in *. exact Hw.
Qed.

(* ---- Format does not look at nil entries ---- *)
Lemma filter_all {A} (f : A -> bool) l : (forall x, In x l -> f x = true) -> filter f l = l.
Proof.
  induction l as [|x r IH]; intro H; [reflexivity|]. cbn [filter]. rewrite (H x (or_introl eq_refl)).
  f_equal. apply IH. intros y Hy. apply H. right. exact Hy.
Qed.
Lemma filter_prune_entries l : filter nonnull (prune_entries l) = prune_entries l.
Proof.
  apply filter_all. intros x Hx. unfold prune_entries in Hx. apply in_map_iff in Hx as (y & <- & Hy).
  apply filter_In in Hy as [_ Hy]. unfold nonnull in *. cbn [snd]. rewrite prune_null. exact Hy.
Qed.

Lemma fmt_prune : forall o p sep, fmt_obj p sep (prune o) = fmt_obj p sep o.
Proof.
  induction o as [| | | | | |l IH|l IH| | |] using obj_ind2; intros p sep; try reflexivity.
  - cbn [prune]. rewrite !fmt_obj_arr. f_equal. f_equal. f_equal. destruct p.
    + generalize true. induction l as [|x r IHr]; intro first; [reflexivity|].
      inversion IH as [|? ? Hx Hr]; subst. cbn [map fmt_list_pretty]. rewrite Hx, (IHr Hr). reflexivity.
    + generalize false. induction l as [|x r IHr]; intro s; [reflexivity|].
      inversion IH as [|? ? Hx Hr]; subst. cbn [map fmt_list_plain]. rewrite Hx.
      destruct (fmt_obj false s x) as [t s']. rewrite (IHr Hr). reflexivity.
  - assert (E : fmt_frags p (prune_entries l) = fmt_frags p l).
    { rewrite !fmt_frags_map, filter_prune_entries. unfold prune_entries. rewrite map_map. cbn [fst snd].
      apply map_ext_in. intros kv Hkv. apply filter_In in Hkv as [Hkv _].
      rewrite Forall_forall in IH. unfold fmt_entry. rewrite !(IH kv Hkv). reflexivity. }
    rewrite prune_dict, !fmt_obj_dict, E. reflexivity.
Qed.

Lemma norm_prune : forall o, norm (prune o) = norm o.
Proof.
  induction o as [| | | | | |l IH|l IH| | |] using obj_ind2; try reflexivity.
  - cbn [prune]. rewrite !norm_arr, map_map. f_equal. apply map_ext_in. intros x Hx.
    rewrite Forall_forall in IH. apply IH. exact Hx.
  - assert (E : norm_entries (prune_entries l) = norm_entries l).
    { rewrite !norm_entries_map, filter_prune_entries. unfold prune_entries. rewrite map_map. cbn [fst snd].
      apply map_ext_in. intros kv Hkv. apply filter_In in Hkv as [Hkv _].
      rewrite Forall_forall in IH. rewrite (IH kv Hkv). reflexivity. }
    rewrite prune_dict, !norm_dict, E. reflexivity.
Qed.

Lemma format_prune p os : format p (map prune os) = format p os.
Proof.
  unfold format. destruct p.
  - generalize true. induction os as [|x r IH]; intro first; [reflexivity|].
    cbn [map fmt_list_pretty]. rewrite fmt_prune, IH. reflexivity.
  - generalize false. induction os as [|x r IH]; intro s; [reflexivity|].
    cbn [map fmt_list_plain]. rewrite fmt_prune. destruct (fmt_obj false s x) as [t s']. rewrite IH. reflexivity.
Qed.

(* ---- accepted => within the limits (for values of the Go types whose numbers fit) ---- *)
Lemma arr_fits_len L : forall l k, k + N.of_nat (length l) <= max_arr L -> arr_fits L k l = true.
Proof.
  induction l as [|x r IH]; intros k H; cbn [arr_fits length] in *.
  - apply N.leb_le. lia.
  - apply IH. lia.
Qed.
Lemma NoDup_nodup_keys {A} (l : list (bytes * A)) : NoDup (map fst l) -> nodup_keys l = true.
Proof.
  induction l as [|x r IH]; intro H; [reflexivity|]. cbn [nodup_keys map] in *.
  inversion H as [|? ? Hn Hr]; subst. rewrite (IH Hr), andb_true_r. apply negb_true_iff.
  destruct (dict_has r (fst x)) eqn:E; [|reflexivity]. apply dict_has_in in E. contradiction.
Qed.

Lemma accepted_wf_lemma L : forall o d,
  go_value o = true -> nums_fit L o = true -> fmt_ok L d o = true -> wf_obj L d (prune o) = true.
Proof.
  induction o as [| | | | | |l IH|l IH| | |] using obj_ind2; intros d Hg Hn Hf; try reflexivity.
  - cbn [prune wf_obj go_value nums_fit] in *. rewrite Hg, Hn. reflexivity.
  - cbn [prune wf_obj go_value nums_fit] in *. apply andb_true_iff in Hg as [G1 G2].
    rewrite G1, Hn, G2. reflexivity.
  - cbn [prune wf_obj go_value fmt_ok] in *. unfold wf_name. rewrite Hg, Hf. reflexivity.
  - cbn [prune wf_obj go_value fmt_ok] in *. rewrite Hg, Hf. reflexivity.
  - cbn [prune wf_obj]. cbn [go_value nums_fit fmt_ok] in Hg, Hn, Hf.
    apply andb_true_iff in Hf as [Hf Hall]. apply andb_true_iff in Hf as [Hd Hlen]. apply N.leb_le in Hlen.
    rewrite Hd. cbn [andb]. rewrite arr_fits_len by (rewrite map_length; lia). cbn [andb].
    rewrite forallb_forall in Hg, Hn, Hall. rewrite Forall_forall in IH.
    apply forallb_forall. intros x Hx. apply in_map_iff in Hx as (y & <- & Hy). apply IH; auto.
  - rewrite prune_dict. rewrite go_value_dict in Hg. rewrite nums_fit_dict in Hn. rewrite fmt_ok_dict in Hf.
    apply andb_true_iff in Hg as [Hnd Hg]. apply andb_true_iff in Hf as [Hf Hall].
    apply andb_true_iff in Hf as [Hd Hcnt].
    rewrite forallb_forall in Hg, Hn, Hall. rewrite Forall_forall in IH.
    cbn [wf_obj]. rewrite Hd. cbn [andb].
    assert (Hnd' : nodup_keys (prune_entries l) = true).
    { apply NoDup_nodup_keys. unfold prune_entries. rewrite (map_fst_keyed (fun kv => prune (snd kv))).
      apply NoDup_filter_fst. apply nodup_keys_NoDup. exact Hnd. }
    rewrite Hnd'. cbn [andb].
    assert (Hc' : length (norm_entries (prune_entries l)) = length (norm_entries l)).
    { rewrite !norm_entries_map, filter_prune_entries. unfold prune_entries. rewrite !map_length. reflexivity. }
    rewrite Hc', Hcnt. cbn [andb].
    apply forallb_forall. intros kv Hkv. unfold prune_entries in Hkv.
    apply in_map_iff in Hkv as (y & <- & Hy). apply filter_In in Hy as [Hy Hnn]. cbn [fst snd].
    specialize (Hg y Hy). specialize (Hn y Hy). specialize (Hall y Hy).
    apply andb_true_iff in Hg as [Gk Gv]. unfold nonnull in Hnn. apply negb_true_iff in Hnn.
    rewrite Hnn in Hall. cbn [orb] in Hall. apply andb_true_iff in Hall as [Fk Fv].
    unfold wf_name. rewrite Gk, Fk. cbn [andb]. apply IH; auto.
  - cbn [prune wf_obj go_value nums_fit fmt_ok] in *. unfold wf_ref.
    apply andb_true_iff in Hg as [Hg G3]. apply andb_true_iff in Hg as [G1 G2].
    apply andb_true_iff in Hn as [N1 N2]. rewrite G1, Hf, G2, G3, N1, N2. reflexivity.
  - cbn [prune wf_obj fmt_ok] in *. exact Hf.
Qed.

Lemma forallb_map {A B} (f : B -> bool) (g : A -> B) l : forallb f (map g l) = forallb (fun x => f (g x)) l.
Proof. induction l as [|x r IH]; [reflexivity|]. cbn [map forallb]. rewrite IH. reflexivity. Qed.
Lemma forallb_ext_in {A} (f g : A -> bool) l : (forall x, In x l -> f x = g x) -> forallb f l = forallb g l.
Proof.
  induction l as [|x r IH]; intro H; [reflexivity|]. cbn [forallb]. rewrite (H x (or_introl eq_refl)).
  f_equal. apply IH. intros y Hy. apply H. right. exact Hy.
Qed.

Lemma fmt_ok_prune L : forall o d, fmt_ok L d (prune o) = fmt_ok L d o.
Proof.
  induction o as [| | | | | |l IH|l IH| | |] using obj_ind2; intros d; try reflexivity.
  - cbn [prune fmt_ok]. rewrite map_length. f_equal. rewrite forallb_map.
    apply forallb_ext_in. intros x Hx. rewrite Forall_forall in IH. apply IH. exact Hx.
  - rewrite prune_dict, !fmt_ok_dict.
    assert (Hc : length (norm_entries (prune_entries l)) = length (norm_entries l)).
    { rewrite !norm_entries_map, filter_prune_entries. unfold prune_entries. rewrite !map_length. reflexivity. }
    rewrite Hc. clear Hc. f_equal. rewrite Forall_forall in IH.
    unfold prune_entries. rewrite forallb_map. cbn [fst snd].
    induction l as [|[k v] r IHr]; [reflexivity|].
    cbn [filter forallb]. unfold nonnull at 1. cbn [snd fst].
    assert (Hr : forall x, In x r -> forall d, fmt_ok L d (prune (snd x)) = fmt_ok L d (snd x))
      by (intros x Hx; apply IH; right; exact Hx).
    destruct (is_null v) eqn:En; cbn [negb forallb orb fst snd].
    + apply IHr. exact Hr.
    + rewrite prune_null, En. cbn [orb]. rewrite (IH (k, v) (or_introl eq_refl)). cbn [snd].
      f_equal. apply IHr. exact Hr.
Qed.

Theorem format_accepts_iff_lemma : forall L p os,
  forallb go_value os = true -> forallb (nums_fit L) os = true ->
  ((exists t, format_checked L p os = Ok t) <-> forallb (fun o => wf_obj L 0 (prune o)) os = true) /\
  (forallb (wf_obj L 0) os = true -> format_checked L p os = Ok (format p os)).
Proof.
  intros L p os Hg Hn. unfold format_checked. rewrite forallb_forall in Hg, Hn. split; [split|].
  - intros (t & H). destruct (forallb (fmt_ok L 0) os) eqn:E; [|discriminate].
    rewrite forallb_forall in E. apply forallb_forall. intros o Ho.
    apply accepted_wf_lemma; auto.
  - intro H. rewrite forallb_forall in H.
    assert (E : forallb (fmt_ok L 0) os = true).
    { apply forallb_forall. intros o Ho. rewrite <- fmt_ok_prune. apply wf_accepts_lemma. apply H. exact Ho. }
    rewrite E. eexists; reflexivity.
  - intro H. rewrite forallb_forall in H.
    assert (E : forallb (fmt_ok L 0) os = true).
    { apply forallb_forall. intros o Ho. apply wf_accepts_lemma. apply H. exact Ho. }
    rewrite E. reflexivity.
Qed.

(* Format accepts the array of the values => ReadArray reads the elements' text back: no size
   hypothesis is left *)
Theorem format_ok_roundtrip_lemma : forall L p os t,
  go_value (OArr os) = true -> nums_fit L (OArr os) = true ->
  format_checked L p [OArr os] = Ok t ->
  scan_objects L (format p os) = Ok (map norm os, []).
Proof.
  intros L p os t Hg Hn H. unfold format_checked in H. cbn [forallb] in H. rewrite andb_true_r in H.
  destruct (fmt_ok L 0 (OArr os)) eqn:E; [|discriminate].
  pose proof (accepted_wf_lemma L (OArr os) 0 Hg Hn E) as Hw. cbn [prune wf_obj] in Hw.
  assert (Hl : wf_list L (map prune os) = true) by exact Hw.
  pose proof (scan_objects_format_lemma L p (map prune os) Hl) as S.
  rewrite format_prune, map_map in S. rewrite S. f_equal. f_equal.
  apply map_ext. intro o. apply norm_prune.
Qed.
