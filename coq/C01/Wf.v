(* C01 model, part 8: the values the property quantifies over: the documented limits of the
   scanner as they apply to a value that is parsed at nesting depth d.  Definitions only. *)
From Coq Require Import List NArith ZArith Bool.
From GoPdf.Base Require Import Bytes Res.
From GoPdf.C01 Require Import Lex Obj Num Names Strings Format.
Import ListNotations.
Open Scope N_scope.

Definition wf_name (L : limits) (k : bytes) : bool := wfbs k && (blen k <? max_name L).

(* ReadArray: an array of k elements already read followed by the elements l stays within
   maxArrayLen (a reference is read as two integers, for which ReadArray allows one transient
   element beyond the limit) *)
Definition cost (o : obj) : N := match o with ORef _ _ => 2 | _ => 1 end.
Fixpoint arr_fits (L : limits) (k : N) (l : list obj) : bool :=
  match l with
  | [] => k <=? max_arr L
  | o :: r => arr_fits L (k + 1) r
  end.

Fixpoint nodup_keys {A : Type} (l : list (bytes * A)) : bool :=
  match l with
  | [] => true
  | x :: r => negb (dict_has r (fst x)) && nodup_keys r
  end.

Definition wf_ref (L : limits) (n g : Z) : bool :=
  ((0 <=? n)%Z && (n <? max_xref)%Z && (0 <=? g)%Z && (g <=? max_gen)%Z
   && (blen (print_int n) <=? max_name L) && (blen (print_int g) <=? max_name L)).

Fixpoint wf_obj (L : limits) (d : N) (o : obj) {struct o} : bool :=
  match o with
  | ONull | OBool _ | ONilArr => true
  | OInt z => in_int64 z && (blen (print_int z) <=? max_name L)
  | OReal t => real_grammar t && (blen (force_dot t) <=? max_name L) && negb (real_overflow (force_dot t))
  | OName n => wf_name L n
  | OStr s => wfbs s && (blen s <? max_str L)
  | ORef n g => wf_ref L n g
  | ONilDict => d <? max_depth L
  | OArr l => (d <? max_depth L) && arr_fits L 0 l && forallb (wf_obj L (d + 1)) l
  | ODict l =>
    (d <? max_depth L) && nodup_keys l && (N.of_nat (length (norm_entries l)) <=? max_dict L)
    && forallb (fun kv => wf_name L (fst kv) && wf_obj L (d + 1) (snd kv)) l
  end.

(* the values handed to Format: parsed inside the wrapper array, at depth 1 *)
Definition wf_list (L : limits) (os : list obj) : bool :=
  (0 <? max_depth L) && arr_fits L 0 os && forallb (wf_obj L 1) os.

(* k + 1 arrays inside each other *)
Fixpoint nest (k : nat) : obj := match k with O => OArr [] | S k' => OArr [nest k'] end.
