(* C01 model, part 8: the values the property quantifies over: the documented limits of the
   scanner as they apply to a value that is parsed at nesting depth d.  Definitions only. *)
From Coq Require Import List NArith ZArith Bool.
From GoPdf.Base Require Import Bytes Res.
From GoPdf.C01 Require Import Lex Obj Num Names Strings Format.
Import ListNotations.
Open Scope N_scope.

Definition wf_name (L : limits) (k : bytes) : bool := wfbs k && (blen k <? max_name L).

(* ReadArray: an array of k elements already read followed by the elements l stays within
   maxArrayLen (a reference is read as two integers, for which ReadArray allows one transient
   element beyond the limit) *)
Definition cost (o : obj) : N := match o with ORef _ _ => 2 | _ => 1 end.
Fixpoint arr_fits (L : limits) (k : N) (l : list obj) : bool :=
  match l with
  | [] => k <=? max_arr L
  | o :: r => arr_fits L (k + 1) r
  end.

Fixpoint nodup_keys {A : Type} (l : list (bytes * A)) : bool :=
  match l with
  | [] => true
  | x :: r => negb (dict_has r (fst x)) && nodup_keys r
  end.

Definition wf_ref (L : limits) (n g : Z) : bool :=
  ((0 <=? n)%Z && (n <? max_xref)%Z && (0 <=? g)%Z && (g <=? max_gen)%Z
   && (blen (print_int n) <=? max_name L) && (blen (print_int g) <=? max_name L)).

Fixpoint wf_obj (L : limits) (d : N) (o : obj) {struct o} : bool :=
  match o with
  | ONull | OBool _ | ONilArr => true
  | OInt z => in_int64 z && (blen (print_int z) <=? max_name L)
  | OReal t => real_grammar t && (blen (force_dot t) <=? max_name L) && negb (real_overflow (force_dot t))
  | OName n => wf_name L n
  | OStr s => wfbs s && (blen s <? max_str L)
  | ORef n g => wf_ref L n g
  | ONilDict => d <? max_depth L
  | OArr l => (d <? max_depth L) && arr_fits L 0 l && forallb (wf_obj L (d + 1)) l
  | ODict l =>
    (d <? max_depth L) && nodup_keys l && (N.of_nat (length (norm_entries l)) <=? max_dict L)
    && forallb (fun kv => wf_name L (fst kv) && wf_obj L (d + 1) (snd kv)) l
  end.

(* the values handed to Format: parsed inside the wrapper array, at depth 1 *)
Definition wf_list (L : limits) (os : list obj) : bool :=
  (0 <? max_depth L) && arr_fits L 0 os && forallb (wf_obj L 1) os.

(* k + 1 arrays inside each other *)
Fixpoint nest (k : nat) : obj := match k with O => OArr [] | S k' => OArr [nest k'] end.

(* ---- what the writer accepts ----
   types.go (since "Format refuses what the scanner would not read back"): doFormat refuses an
   array or dictionary enclosed in maxScannerNestDepth or more others, an array of more than
   maxArrayLen elements, a dictionary of more than maxDictLen non-nil entries; formatName a name
   of maxNameBytes or more (the keys of nil entries are not written and not looked at);
   formatString a string of maxStringBytes or more, in either form; a reference whose number is
   not below maxXRefSize.  Reals that are NaN or infinite are refused too: OReal is the token of a
   finite real, so they are not values of the model.  d: the number of enclosing composites. *)
Fixpoint fmt_ok (L : limits) (d : N) (o : obj) {struct o} : bool :=
  match o with
  | ONull | OBool _ | OInt _ | OReal _ | ONilArr => true
  | OName n => blen n <? max_name L
  | OStr s => blen s <? max_str L
  | ORef n _ => (n <? max_xref)%Z
  | ONilDict => d <? max_depth L
  | OArr l => (d <? max_depth L) && (N.of_nat (length l) <=? max_arr L) && forallb (fmt_ok L (d + 1)) l
  | ODict l =>
    (d <? max_depth L) && (N.of_nat (length (norm_entries l)) <=? max_dict L)
    && (fix go (l : list (bytes * obj)) : bool :=
          match l with
          | [] => true
          | (k, v) :: r =>
            (match v with ONull => true | _ => (blen k <? max_name L) && fmt_ok L (d + 1) v end) && go r
          end) l
  end.
(* pdf.Format(w, opt, objects...): nothing encloses the objects *)
Definition format_checked (L : limits) (p : bool) (os : list obj) : res bytes :=
  if forallb (fmt_ok L 0) os then Ok (format p os) else Err Other.

(* ---- values of the Go types ---- *)
(* Integer is int64; Real a finite float64 (its FormatFloat token); String and Name hold bytes;
   Reference packs a uint32 number and a uint16 generation; Dict is a map (distinct keys) *)
Fixpoint go_value (o : obj) : bool :=
  match o with
  | OInt z => in_int64 z
  | OReal t => real_grammar t && negb (real_overflow (force_dot t))
  | OName n => wfbs n
  | OStr s => wfbs s
  | ORef n g => ((0 <=? n) && (0 <=? g) && (g <=? max_gen))%Z
  | OArr l => forallb go_value l
  | ODict l =>
    nodup_keys l &&
    (fix go (l : list (bytes * obj)) : bool :=
       match l with [] => true | (k, v) :: r => wfbs k && go_value v && go r end) l
  | _ => true
  end.
(* number tokens fit ReadNumber's buffer (maxNameBytes); with the real constant (4096) every
   int64 and every finite float64 does - the hypothesis matters under shrunk limits only *)
Fixpoint nums_fit (L : limits) (o : obj) : bool :=
  match o with
  | OInt z => blen (print_int z) <=? max_name L
  | OReal t => blen (force_dot t) <=? max_name L
  | ORef n g => (blen (print_int n) <=? max_name L) && (blen (print_int g) <=? max_name L)
  | OArr l => forallb (nums_fit L) l
  | ODict l =>
    (fix go (l : list (bytes * obj)) : bool :=
       match l with [] => true | (_, v) :: r => nums_fit L v && go r end) l
  | _ => true
  end.

(* the value without its nil dictionary entries, which Format does not write *)
Fixpoint prune (o : obj) : obj :=
  match o with
  | OArr l => OArr (map prune l)
  | ODict l =>
    ODict ((fix go (l : list (bytes * obj)) : list (bytes * obj) :=
              match l with
              | [] => []
              | (k, v) :: r => match v with ONull => go r | _ => (k, prune v) :: go r end
              end) l)
  | _ => o
  end.
