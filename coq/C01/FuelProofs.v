(* The fuel scan_objects gives itself (2 * |input| + 8) suffices for formatted text. *)
From Coq Require Import List NArith ZArith Bool Lia Permutation.
From GoPdf.Base Require Import Bytes Res.
From GoPdf.C01 Require Import Lex Obj Num Names Strings Format Scan Wf
  LexProofs NumProofs NamesProofs StringsProofs FormatProofs ScanProofs.
Import ListNotations.
Open Scope N_scope.

Definition fuel_spec (o : obj) : Prop :=
  forall p L d, wf_obj L d o = true -> (S (osize o) <= 2 * length (body p o))%nat.

Lemma body_nonempty p L d o : wf_obj L d o = true -> (1 <= length (body p o))%nat.
Proof.
  intro Hw. destruct (body_head p L d o Hw) as (b & r & E & _). rewrite E. cbn [length]. lia.
Qed.

Lemma print_int_len z : (1 <= length (print_int z))%nat.
Proof.
  destruct (print_int_shape z) as (sgn & b & ds & E & _). rewrite E, app_length. cbn [length]. lia.
Qed.

Lemma plain_fuel : forall l sep L d,
  Forall fuel_spec l -> forallb (wf_obj L d) l = true ->
  (lsize l <= 2 * length (fmt_list_plain sep l) + 1)%nat.
Proof.
  induction l as [|o r IH]; intros sep L d HP Hw; [cbn; lia|].
  inversion HP as [|? ? HPo HPr]; subst. cbn [forallb] in Hw. apply andb_true_iff in Hw as [Hwo Hwr].
  rewrite fmt_list_plain_cons, lsize_cons, !app_length.
  specialize (IH (ends_reg o) L d HPr Hwr). specialize (HPo false L d Hwo). unfold bytes, byte in *. lia.
Qed.

Lemma pretty_fuel : forall l first L d,
  Forall fuel_spec l -> forallb (wf_obj L d) l = true ->
  (lsize l <= 2 * length (fmt_list_pretty first l) + 1)%nat.
Proof.
  induction l as [|o r IH]; intros first L d HP Hw; [cbn; lia|].
  inversion HP as [|? ? HPo HPr]; subst. cbn [forallb] in Hw. apply andb_true_iff in Hw as [Hwo Hwr].
  rewrite fmt_list_pretty_cons, lsize_cons, !app_length.
  specialize (IH false L d HPr Hwr). specialize (HPo true L d Hwo). unfold bytes, byte in *. lia.
Qed.

Lemma concat_len_perm (a b : list bytes) : Permutation a b -> length (concat a) = length (concat b).
Proof. induction 1; cbn [concat]; rewrite ?app_length; lia. Qed.

Lemma fmt_name_len k : (1 <= length (fmt_name k))%nat.
Proof. unfold fmt_name. cbn [length]. lia. Qed.

Lemma frags_fuel p : forall l L d,
  Forall (fun kv => fuel_spec (snd kv)) l ->
  forallb (fun kv => wf_name L (fst kv) && wf_obj L d (snd kv)) l = true ->
  (esize l <= 2 * length (concat (map snd (fmt_frags p l))) + 1)%nat.
Proof.
  induction l as [|[k v] r IH]; intros L d HP Hw; [cbn; lia|].
  inversion HP as [|? ? HPv HPr]; subst. cbn [forallb fst snd] in Hw.
  apply andb_true_iff in Hw as [Hwv Hwr]. apply andb_true_iff in Hwv as [_ Hwv].
  specialize (IH L d HPr Hwr). cbn [snd] in HPv. specialize (HPv p L d Hwv).
  assert (Hent : (1 + length (body p v) <= length (fmt_entry p k v))%nat).
  { unfold fmt_entry. pose proof (fmt_name_len k). destruct p.
    - change (fst (fmt_obj true false v)) with (body true v). rewrite !app_length. unfold bytes, byte in *. lia.
    - rewrite fmt_obj_split. cbn [fst]. rewrite !app_length. unfold bytes, byte in *. lia. }
  unfold esize in *. cbn [fold_right snd]. 
  destruct v; cbn [is_null fmt_frags]; try exact IH;
    cbn [map snd concat]; rewrite app_length; unfold bytes, byte in *; lia.
Qed.

Theorem fuel_all : forall o, fuel_spec o.
Proof.
  apply obj_ind2; unfold fuel_spec.
  1-6, 10: intros; cbn [osize];
    match goal with H : wf_obj ?L ?d ?o = true |- context [body ?p ?o] =>
      pose proof (body_nonempty p L d o H); unfold bytes, byte in *; lia end.
  - (* array *)
    intros l IH p L d Hw. cbn [wf_obj] in Hw. apply andb_true_iff in Hw as [_ Hall].
    change (osize (OArr l)) with (S (S (lsize l))).
    unfold body. rewrite fmt_obj_arr. cbn [fst]. rewrite !app_length. cbn [length].
    destruct p.
    + pose proof (pretty_fuel l true L (d + 1) IH Hall). unfold bytes, byte in *. lia.
    + pose proof (plain_fuel l false L (d + 1) IH Hall). unfold bytes, byte in *. lia.
  - (* dictionary *)
    intros l IH p L d Hw. cbn [wf_obj] in Hw. apply andb_true_iff in Hw as [_ Hall].
    change (osize (ODict l)) with (S (S (esize l))).
    unfold body. rewrite fmt_obj_dict. cbn [fst]. rewrite !app_length.
    rewrite (concat_len_perm _ _ (Permutation_map snd (sort_perm (fmt_frags p l)))).
    pose proof (frags_fuel p l L (d + 1) IH Hall). cbn [kw_ltlt kw_gtgt length]. unfold bytes, byte in *. lia.
  - (* reference *)
    intros n g p L d Hw. cbn [osize]. change (body p (ORef n g)) with (fmt_ref n g).
    unfold fmt_ref. rewrite !app_length. cbn [length].
    pose proof (print_int_len n). pose proof (print_int_len g). unfold bytes, byte in *. lia.
  - (* nil dictionary *)
    intros p L d Hw. destruct p; cbn; lia.
Qed.

Lemma scan_fuel_enough_lemma L p os : wf_list L os = true ->
  (lsize os + 1 <= scan_fuel (format p os ++ [cRB]))%nat.
Proof.
  intro Hw. destruct (wf_list_facts L os Hw) as (_ & _ & Hall).
  assert (HP : Forall fuel_spec os) by (apply Forall_forall; intros; apply fuel_all).
  unfold scan_fuel, format. rewrite app_length. cbn [length]. destruct p.
  - pose proof (pretty_fuel os true L 1 HP Hall). unfold bytes, byte in *. lia.
  - pose proof (plain_fuel os false L 1 HP Hall). unfold bytes, byte in *. lia.
Qed.

(* what the driver runs: scan_objects over the formatted text, with its own fuel *)
Lemma scan_objects_format_lemma L p os :
  wf_list L os = true -> scan_objects L (format p os) = Ok (map norm os, []).
Proof.
  intro Hw. unfold scan_objects. cbv zeta.
  apply (scan_format_lemma L p os [] _ Hw). apply (scan_fuel_enough_lemma L). exact Hw.
Qed.
