(* Lemmas about bytes, classes and white space. *)
From Coq Require Import List NArith ZArith Bool Lia.
From GoPdf.Base Require Import Bytes Res.
From GoPdf.C01 Require Import Lex.
Import ListNotations.
Open Scope N_scope.

(* finite checks over the 256 byte values *)
Lemma all_bytes_spec (P : N -> bool) :
  forallb P all_bytes = true -> forall b, b < 256 -> P b = true.
Proof.
  intros H b Hb. rewrite forallb_forall in H. apply H.
  unfold all_bytes. replace b with (N.of_nat (N.to_nat b)) by apply N2Nat.id.
  apply in_map. apply in_seq. lia.
Qed.

Lemma wfb_lt b : wfb b = true -> b < 256.
Proof. unfold wfb. intro H. apply N.ltb_lt in H. exact H. Qed.

Lemma wfbs_cons b s : wfbs (b :: s) = true -> b < 256 /\ wfbs s = true.
Proof. unfold wfbs. cbn [forallb]. intro H. apply andb_true_iff in H as [H1 H2]. split; [apply wfb_lt|]; assumption. Qed.

Lemma wfbs_app a b : wfbs (a ++ b) = true <-> wfbs a = true /\ wfbs b = true.
Proof. unfold wfbs. rewrite forallb_app. apply andb_true_iff. Qed.

Lemma blen_cons b s : blen (b :: s) = blen s + 1.
Proof. unfold blen. cbn [length]. lia. Qed.
Lemma blen_app a b : blen (a ++ b) = blen a + blen b.
Proof. unfold blen. rewrite app_length. lia. Qed.
Lemma blen_nil : blen [] = 0.
Proof. reflexivity. Qed.

(* ---- hex digits ---- *)
Lemma hex_pair_rt c : c < 256 ->
  is_hex (hex_digit (c / 16)) = true /\ is_hex (hex_digit (c mod 16)) = true /\
  (16 * hex_val (hex_digit (c / 16)) + hex_val (hex_digit (c mod 16))) mod 256 = c.
Proof.
  intro Hc.
  pose proof (all_bytes_spec
    (fun c => is_hex (hex_digit (c / 16)) && is_hex (hex_digit (c mod 16)) &&
              ((16 * hex_val (hex_digit (c / 16)) + hex_val (hex_digit (c mod 16))) mod 256 =? c))
    ltac:(vm_compute; reflexivity) c Hc) as H.
  cbv beta in H. apply andb_true_iff in H as [H H3]. apply andb_true_iff in H as [H1 H2].
  apply N.eqb_eq in H3. auto.
Qed.

Lemma hex_digit_not_gt c : c < 256 -> (hex_digit (c / 16) =? cGT) = false /\ (hex_digit (c mod 16) =? cGT) = false.
Proof.
  intro Hc.
  pose proof (all_bytes_spec
    (fun c => negb (hex_digit (c / 16) =? cGT) && negb (hex_digit (c mod 16) =? cGT))
    ltac:(vm_compute; reflexivity) c Hc) as H.
  cbv beta in H. apply andb_true_iff in H as [H1 H2].
  apply negb_true_iff in H1, H2. auto.
Qed.

(* ---- white space ---- *)
(* a byte at which SkipWhiteSpace stops *)
Definition stops_ws (b : byte) : bool := negb (b =? cPCT) && negb (is_space b).

Lemma skip_ws_stop b s : stops_ws b = true -> skip_ws (b :: s) = Ok (b :: s).
Proof.
  unfold stops_ws, skip_ws. intro H. apply andb_true_iff in H as [H1 H2].
  apply negb_true_iff in H1, H2. cbn [skip_ws_aux]. rewrite H1, H2. reflexivity.
Qed.

Lemma skip_ws_space b s : is_space b = true -> skip_ws (b :: s) = skip_ws s.
Proof.
  unfold skip_ws. intro H. cbn [skip_ws_aux].
  destruct (b =? cPCT) eqn:E.
  - apply N.eqb_eq in E. subst b. vm_compute in H. discriminate.
  - rewrite H. reflexivity.
Qed.

Lemma skip_ws_sp s : skip_ws (cSP :: s) = skip_ws s.
Proof. apply skip_ws_space. reflexivity. Qed.
Lemma skip_ws_lf s : skip_ws (cLF :: s) = skip_ws s.
Proof. apply skip_ws_space. reflexivity. Qed.

Lemma skip_ws_ok_nonempty s t : skip_ws s = Ok t -> exists b r, t = b :: r /\ stops_ws b = true.
Proof.
  unfold skip_ws. generalize false as c. induction s as [|b s IH]; intros c H; cbn [skip_ws_aux] in H.
  - discriminate.
  - destruct c.
    + eapply IH; eauto.
    + destruct (b =? cPCT) eqn:E1; [eapply IH; eauto|].
      destruct (is_space b) eqn:E2; [eapply IH; eauto|].
      inversion H; subst. exists b, s. split; auto. unfold stops_ws. rewrite E1, E2. reflexivity.
Qed.

Lemma skip_ws_idem s t : skip_ws s = Ok t -> skip_ws t = Ok t.
Proof.
  intro H. apply skip_ws_ok_nonempty in H as (b & r & -> & Hb). apply skip_ws_stop. exact Hb.
Qed.

(* starts_with / drop *)
Lemma starts_with_app p s : starts_with p (p ++ s) = true.
Proof. induction p as [|a p IH]; cbn [starts_with app]; auto. rewrite N.eqb_refl. exact IH. Qed.
Lemma drop_app p s : drop (length p) (p ++ s) = s.
Proof. induction p as [|a p IH]; cbn [drop app length]; auto. Qed.
