(* C01 model, part 6: types.go Format / doFormat / formatDict.  Definitions only.

   [fmt_obj p sep o] is doFormat(w, o, opt, needSep=sep): the bytes written and the returned
   needSep.  p = opt.HasAny(OptPretty); the other output options do not act on native values. *)
From Coq Require Import List NArith ZArith Bool.
From GoPdf.Base Require Import Bytes Res.
From GoPdf.Gen Require Gen_C01.
From GoPdf.C01 Require Import Lex Obj Num Names Strings.
Import ListNotations.
Open Scope N_scope.

Definition sp (sep : bool) : bytes := if sep then [cSP] else [].

Definition fmt_ref (n g : Z) : bytes := print_int n ++ [cSP] ++ print_int g ++ [cSP; cR].

Fixpoint fmt_obj (p : bool) (sep : bool) (o : obj) {struct o} : bytes * bool :=
  match o with
  | ONull | ONilArr => (sp sep ++ kw_null, true)
  | OBool b => (sp sep ++ (if b then kw_true else kw_false), true)
  | OInt z => (sp sep ++ print_int z, true)
  | OReal t => (sp sep ++ fmt_real t, true)
  | OName n => (fmt_name n, true)
  | OStr s => (fmt_string p s, false)
  | ORef n g => (sp sep ++ fmt_ref n g, true)
  | OArr l =>
    ([cLB] ++
     (if p then
        (* Format with OptPretty: objects separated by one space *)
        (fix go (first : bool) (l : list obj) : bytes :=
           match l with
           | [] => []
           | x :: r => (if first then [] else [cSP]) ++ fst (fmt_obj p false x) ++ go false r
           end) true l
      else
        (* Format without OptPretty: needSep threaded through *)
        (fix go (sep : bool) (l : list obj) : bytes :=
           match l with
           | [] => []
           | x :: r => let '(t, sep') := fmt_obj p sep x in t ++ go sep' r
           end) false l)
     ++ [cRB], false)
  | ODict l =>
    (* formatDict: one fragment per non-nil entry, written in the order of SortedKeys *)
    let frags :=
      (fix go (l : list (bytes * obj)) : list (bytes * bytes) :=
         match l with
         | [] => []
         | (k, v) :: r =>
           match v with
           | ONull => go r
           | _ =>
             (k, if p then fmt_name k ++ [cSP] ++ fst (fmt_obj p false v) ++ [cLF]
                 else fmt_name k ++ fst (fmt_obj p true v)) :: go r
           end
         end) l in
    (kw_ltlt ++ (if p then [cLF] else []) ++ concat (map snd (sort_entries frags)) ++ kw_gtgt, false)
  | ONilDict => (kw_ltlt ++ (if p then [cLF] else []) ++ kw_gtgt, false)
  end.

(* the same pieces as top-level functions *)
Fixpoint fmt_list_pretty (first : bool) (l : list obj) : bytes :=
  match l with
  | [] => []
  | x :: r => (if first then [] else [cSP]) ++ fst (fmt_obj true false x) ++ fmt_list_pretty false r
  end.
Fixpoint fmt_list_plain (sep : bool) (l : list obj) : bytes :=
  match l with
  | [] => []
  | x :: r => let '(t, sep') := fmt_obj false sep x in t ++ fmt_list_plain sep' r
  end.
Definition fmt_entry (p : bool) (k : bytes) (v : obj) : bytes :=
  if p then fmt_name k ++ [cSP] ++ fst (fmt_obj p false v) ++ [cLF]
  else fmt_name k ++ fst (fmt_obj p true v).
Fixpoint fmt_frags (p : bool) (l : list (bytes * obj)) : list (bytes * bytes) :=
  match l with
  | [] => []
  | (k, v) :: r =>
    match v with
    | ONull => fmt_frags p r
    | _ => (k, fmt_entry p k v) :: fmt_frags p r
    end
  end.

(* pdf.Format(w, opt, objects...) *)
Definition format (p : bool) (os : list obj) : bytes :=
  if p then fmt_list_pretty true os else fmt_list_plain false os.

(* ---- OutputOptions (types.go: a bit mask, constants translated) ----
   Of the five exported options only OptPretty reaches the formatting of native values:
   OptDictTypes / OptTrimStandardFonts / OptTextStringUtf8 are read by Encode methods of
   higher-level types, OptContentStream only admits the Operator type. *)
Definition has_opt (mask o : Z) : bool := negb (Z.land mask o =? 0)%Z.
Definition format_opt (mask : Z) (os : list obj) : bytes :=
  format (has_opt mask Gen_C01.OptPretty) os.
Definition inert_options : list Z :=
  [Gen_C01.OptDictTypes; Gen_C01.OptTrimStandardFonts; Gen_C01.OptTextStringUtf8; Gen_C01.OptContentStream].
