(* C01/C15 model: the buffered source under the two scanners.

   scanner.go (package pdf):      buf of scannerBufSize bytes, pos, used; refill() moves buf[pos:used]
                                  to the front and fills the rest with io.ReadFull; PeekN(n) refills
                                  once when fewer than n bytes are buffered; ScanBytes walks the
                                  buffer and refills when it is exhausted.
   graphics/content/stream.go:    buf of 512 bytes; refill() moves buf[pos:used] to the front and
                                  calls src.Read ONCE, latching its error in s.err; Peek/PeekN loop
                                  over refill until enough bytes are buffered or refill fails.

   The underlying reader is a list of non-empty chunks: a call Read(p) hands out at most one chunk
   (at most len(p) bytes of it; the remainder of the chunk stays for the next call), so the list
   ranges over every way in which a reader may split the data ("read sizes >= 1").  [eager] says
   whether the reader reports io.EOF together with its last bytes or only on the following call.

   Readers are written against the interface (PeekN + advance, ScanBytes) as values of [prog];
   [run_list] runs them over a plain byte list and [run_buf] over the buffered source.
   Definitions only. *)
From Coq Require Import List NArith Arith Bool.
From GoPdf.Base Require Import Bytes Res.
Import ListNotations.
Local Open Scope nat_scope.

(* ---- the underlying reader ---- *)
Definition put_back (c : bytes) (r : list bytes) : list bytes :=
  match c with [] => r | _ :: _ => c :: r end.

(* one call of Read with room for [space] bytes *)
Definition read_once (space : nat) (src : list bytes) : bytes * list bytes :=
  match src with
  | [] => ([], [])
  | c :: r => (firstn space c, put_back (skipn space c) r)
  end.

(* io.ReadFull: Read until [space] bytes have arrived or the reader is exhausted *)
Fixpoint read_full (space : nat) (src : list bytes) : bytes * list bytes :=
  match src with
  | [] => ([], [])
  | c :: r =>
    if Nat.leb space (length c) then (firstn space c, put_back (skipn space c) r)
    else let (d, r') := read_full (space - length c) r in (c ++ d, r')
  end.

(* ---- the scanner's buffer ---- *)
Record bstate := mkB {
  b_buf : bytes;          (* the buffer, always BUF bytes; bytes outside [pos, used) are stale *)
  b_pos : nat;
  b_used : nat;
  b_src : list bytes;     (* what the underlying reader will still deliver, in chunks *)
  b_eager : bool;         (* the reader reports EOF together with its last bytes *)
  b_err : bool            (* content scanner: s.err (io.EOF) is latched *)
}.

Definition window (st : bstate) : bytes := firstn (b_used st - b_pos st) (skipn (b_pos st) (b_buf st)).
(* the input still to be read, as the plain byte list *)
Definition view (st : bstate) : bytes := window st ++ concat (b_src st).

Definition advance (k : nat) (st : bstate) : bstate :=
  mkB (b_buf st) (b_pos st + k) (b_used st) (b_src st) (b_eager st) (b_err st).

Definition bstart (BUF : nat) (chunks : list bytes) (eager : bool) : bstate :=
  mkB (repeat 0%N BUF) 0 0 chunks eager false.

Section Buffered.
  Variable BUF : nat.      (* len(s.buf) *)
  Variable full : bool.    (* true: refill with io.ReadFull (scanner.go); false: one Read (content) *)

  (* the buffer after buf[pos:used] has been moved to the front and [d] appended *)
  Definition compacted (st : bstate) (d : bytes) : bytes :=
    let w := window st in w ++ d ++ skipn (length w + length d) (b_buf st).

  (* refill; the second component: an error (io.EOF) is returned *)
  Definition refill (st : bstate) : bstate * bool :=
    let w := window st in
    let space := BUF - length w in
    if full then
      let (d, src') := read_full space (b_src st) in
      (mkB (compacted st d) 0 (length w + length d) src' (b_eager st) (b_err st), false)
    else if b_err st then (st, true)
    else
      match b_src st with
      | [] => (mkB (compacted st []) 0 (length w) [] (b_eager st) true, true)
      | _ :: _ =>
        let (d, src') := read_once space (b_src st) in
        let e := match d, src' with _ :: _, [] => b_eager st | _, _ => false end in
        (mkB (compacted st d) 0 (length w + length d) src' (b_eager st) e, false)
      end.

  (* the loop of the content scanner's Peek/PeekN *)
  Fixpoint peek_loop (fuel n : nat) (st : bstate) : bstate :=
    match fuel with
    | O => st
    | S f =>
      if Nat.ltb (b_used st) (b_pos st + n) then
        let (st1, err) := refill st in
        if err then st1 else peek_loop f n st1
      else st
    end.

  (* PeekN: at most n bytes, fewer only at the end of the input *)
  Definition peekN (n : nat) (st : bstate) : bytes * bstate :=
    let st1 :=
      if full then (if Nat.ltb (b_used st) (b_pos st + n) then fst (refill st) else st)
      else peek_loop (S (S n)) n st in
    (firstn n (window st1), st1).

  (* ---- ScanBytes ---- *)
  Section ScanBytes.
    Context {St : Type}.
    (* the accept closure: its captured variables before and after the call, and its result *)
    Variable acc : St -> byte -> St * bool.

    (* over a list: the closure state, the rest (starting at the rejected byte), end of input *)
    Fixpoint scan_list (a : St) (s : bytes) : St * bytes * bool :=
      match s with
      | [] => (a, [], true)
      | b :: r => let (a', go) := acc a b in if go then scan_list a' r else (a', s, false)
      end.

    Fixpoint scan_buf (fuel : nat) (a : St) (st : bstate) : St * bstate * bool :=
      let '(a1, rest, exhausted) := scan_list a (window st) in
      let st0 := advance (length (window st) - length rest) st in
      if exhausted then
        match fuel with
        | O => (a1, st0, true)
        | S f =>
          let st1 := fst (refill st0) in
          if Nat.eqb (b_used st1) 0 then (a1, st1, true) else scan_buf f a1 st1
        end
      else (a1, st0, false).
  End ScanBytes.

  (* ---- readers against the interface ---- *)
  (* St: the captured variables of the ScanBytes closures *)
  Inductive prog (St A : Type) : Type :=
  | Ret (a : A)
    (* b := PeekN(n); pos += adv(b) [at most len(b)]; continue with k(b) *)
  | Peek (n : nat) (adv : bytes -> nat) (k : bytes -> prog St A)
    (* ScanBytes(accept) with closure state a0; k gets the final state and "io.EOF was returned" *)
  | Scan (a0 : St) (acc : St -> byte -> St * bool) (k : St -> bool -> prog St A).
  Arguments Ret {St A} a.
  Arguments Peek {St A} n adv k.
  Arguments Scan {St A} a0 acc k.

  Fixpoint run_list {St A} (p : prog St A) (s : bytes) : A * bytes :=
    match p with
    | Ret a => (a, s)
    | Peek n adv k =>
      let w := firstn n s in run_list (k w) (skipn (Nat.min (adv w) (length w)) s)
    | Scan a0 acc k =>
      let '(a, rest, e) := scan_list acc a0 s in run_list (k a e) rest
    end.

  Fixpoint run_buf {St A} (p : prog St A) (st : bstate) : A * bstate :=
    match p with
    | Ret a => (a, st)
    | Peek n adv k =>
      let (w, st1) := peekN n st in run_buf (k w) (advance (Nat.min (adv w) (length w)) st1)
    | Scan a0 acc k =>
      let '(a, st1, e) := scan_buf acc (S (S (length (view st)))) a0 st in run_buf (k a e) st1
    end.

  (* all windows fit the buffer; ScanBytes exists in scanner.go only *)
  Fixpoint wf_prog {St A} (p : prog St A) : Prop :=
    match p with
    | Ret _ => True
    | Peek n _ k => n <= BUF /\ forall w, wf_prog (k w)
    | Scan _ _ k => full = true /\ forall a e, wf_prog (k a e)
    end.

  Definition nonempty (c : bytes) : Prop := c <> [].
  Definition binv (st : bstate) : Prop :=
    length (b_buf st) = BUF /\ b_pos st <= b_used st /\ b_used st <= BUF /\
    Forall nonempty (b_src st) /\ (b_err st = true -> b_src st = []).
End Buffered.

Arguments Ret {St A} a.
Arguments Peek {St A} n adv k.
Arguments Scan {St A} a0 acc k.
