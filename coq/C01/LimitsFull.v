(* limits_reject: values just beyond each limit are rejected with a MalformedFileError, at the
   level of scan_objects (the fuel the scanner gives itself): strings, names, arrays (with or
   without references), dictionaries, nesting depth. *)
From Coq Require Import List NArith ZArith Bool Lia Permutation.
From GoPdf.Base Require Import Bytes Res.
From GoPdf.C01 Require Import Lex Obj Num Names Strings Format Scan Wf
  LexProofs NumProofs NamesProofs StringsProofs FormatProofs ScanProofs FuelProofs LimitProofs ArrayLimitProofs.
Import ListNotations.
Open Scope N_scope.

(* ---- the wrapper: one value whose reading fails ---- *)
Lemma scan_objects_err L text b r F0 :
  0 < max_depth L -> text = b :: r -> stops_ws b = true -> (b =? cRB) = false -> (b =? cR) = false ->
  (F0 + 2 <= scan_fuel (text ++ [cRB]))%nat ->
  (forall f, (F0 <= f)%nat -> read_object L f 1 (text ++ [cRB]) = Err Malformed) ->
  scan_objects L text = Err Malformed.
Proof.
  intros Hd -> Hs H1 H2 HF Hread. unfold scan_objects. cbv zeta.
  set (s := (b :: r) ++ [cRB]) in *.
  destruct (scan_fuel s) as [|[|f]] eqn:Ef; try lia.
  unfold scan_objects_fuel. rewrite read_array_eq.
  replace (max_depth L <=? 0) with false by (symmetry; apply N.leb_gt; exact Hd).
  rewrite read_arr_loop_eq. subst s. cbn [app]. rewrite skip_ws_stop by exact Hs.
  rewrite H1, H2, andb_false_r.
  change (b :: r ++ [cRB]) with ((b :: r) ++ [cRB]). rewrite Hread by lia. reflexivity.
Qed.

(* ---- an element that is a reference, when the array is already full ---- *)
Lemma arr_step_ref_fail L d n g ws f acc iseen X :
  is_lead ws -> wf_ref L n g = true -> max_arr L <= N.of_nat (length acc) ->
  read_arr_loop L (S (S f)) d acc iseen (ws ++ fmt_ref n g ++ X) = Err Malformed.
Proof.
  intros Hws Hw Hlen. destruct (wf_ref_facts L n g Hw) as (Hin & Hig & Hn0 & Hg0 & Hln & Hlg & Hmk).
  unfold fmt_ref. rewrite <- !app_assoc. cbn [app].
  destruct (read_int_token L f d n (cSP :: print_int g ++ cSP :: cR :: X) Hin Hln Hn0 eq_refl)
    as (b1 & r1 & E1 & Hg1 & Hread1).
  apply good_head_facts in Hg1 as (Hs1 & H11 & H12 & _).
  rewrite read_arr_loop_eq.
  assert (Hskip1 : skip_ws (ws ++ print_int n ++ cSP :: print_int g ++ cSP :: cR :: X)
                   = Ok (print_int n ++ cSP :: print_int g ++ cSP :: cR :: X)).
  { rewrite skip_is_lead by exact Hws. rewrite E1; cbn [app]; apply skip_ws_stop; exact Hs1. }
  unfold bytes, byte in *. rewrite Hskip1. rewrite E1 in Hread1 |- *. cbn [app] in Hread1 |- *.
  rewrite H11, H12, andb_false_r. rewrite Hread1.
  destruct (max_arr L <? N.of_nat (length acc)) eqn:Elt; [reflexivity|].
  apply N.ltb_ge in Elt. cbn [is_int].
  (* the array holds exactly the limit: the second integer does not fit *)
  destruct f as [|f]; [discriminate Hread1|].
  destruct (read_int_token L f d g (cSP :: cR :: X) Hig Hlg Hg0 eq_refl)
    as (b2 & r2 & E2 & Hg2 & Hread2).
  apply good_head_facts in Hg2 as (Hs2 & H21 & H22 & _).
  rewrite read_arr_loop_eq. rewrite skip_ws_sp.
  rewrite E2 in Hread2 |- *. cbn [app] in Hread2 |- *. rewrite (skip_ws_stop b2 _ Hs2).
  unfold bytes, byte in *. rewrite H21, H22, andb_false_r. rewrite Hread2.
  replace (max_arr L <? N.of_nat (length (OInt n :: acc))) with true
    by (symmetry; apply N.ltb_lt; cbn [length]; lia).
  reflexivity.
Qed.

(* ---- arrays longer than the limit, any elements ---- *)
Lemma arr_loop_plain_over_ref L d : forall os sep acc iseen fuel rest,
  Forall ro_spec os -> forallb (wf_obj L d) os = true ->
  max_arr L < N.of_nat (length acc + length os) -> (lsize os <= fuel)%nat ->
  read_arr_loop L fuel d acc iseen (fmt_list_plain sep os ++ cRB :: rest) = Err Malformed.
Proof.
  induction os as [|o os IH]; intros sep acc iseen fuel rest Hro Hw Hover Hfuel.
  - cbn [fmt_list_plain app]. destruct fuel as [|f]; [cbn in Hfuel; lia|].
    rewrite read_arr_loop_eq. rewrite skip_ws_stop by reflexivity.
    change (cRB =? cRB) with true. cbn iota.
    replace (max_arr L <? N.of_nat (length acc)) with true
      by (symmetry; apply N.ltb_lt; cbn [length] in Hover; lia).
    reflexivity.
  - inversion Hro as [|? ? Hro1 Hro2]; subst.
    cbn [forallb] in Hw. apply andb_true_iff in Hw as [Hw1 Hw2].
    rewrite lsize_cons in Hfuel.
    rewrite fmt_list_plain_cons. rewrite <- !app_assoc.
    destruct (plain_tail L d os (ends_reg o) rest Hw2) as (t1 & Ht1 & Hns & Hfo).
    destruct (is_ref o) eqn:Er.
    + destruct o; try discriminate. cbn [wf_obj] in Hw1. cbn [osize] in Hfuel.
      change (body false (ORef n g)) with (fmt_ref n g).
      destruct (N.leb_spec (max_arr L) (N.of_nat (length acc))) as [Hge|Hlt].
      * destruct fuel as [|[|f]]; try lia.
        apply arr_step_ref_fail; [apply lead_is_lead | exact Hw1 | exact Hge].
      * destruct fuel as [|[|[|f]]]; try lia.
        rewrite arr_step_ref; [|apply lead_is_lead|exact Hw1|lia].
        apply IH; auto; [cbn [length] in *; lia | lia].
    + destruct fuel as [|f]; [lia|].
      destruct (N.ltb_spec (max_arr L) (N.of_nat (length acc))) as [Hgt|Hle].
      * apply (arr_step_fail L d false o (lead sep o) f acc iseen _ t1); auto; [apply lead_is_lead | lia].
      * rewrite (arr_step L d false o (lead sep o) f acc iseen _ t1);
          [ | apply lead_is_lead | exact Hro1 | exact Er | exact Hw1 | lia | exact Hle | exact Ht1 | exact Hns | exact Hfo ].
        apply IH; auto; [cbn [length] in *; lia | lia].
Qed.

Lemma arr_loop_pretty_over_ref L d : forall os first acc iseen fuel rest,
  Forall ro_spec os -> forallb (wf_obj L d) os = true ->
  max_arr L < N.of_nat (length acc + length os) -> (lsize os <= fuel)%nat ->
  read_arr_loop L fuel d acc iseen (fmt_list_pretty first os ++ cRB :: rest) = Err Malformed.
Proof.
  induction os as [|o os IH]; intros first acc iseen fuel rest Hro Hw Hover Hfuel.
  - cbn [fmt_list_pretty app]. destruct fuel as [|f]; [cbn in Hfuel; lia|].
    rewrite read_arr_loop_eq. rewrite skip_ws_stop by reflexivity.
    change (cRB =? cRB) with true. cbn iota.
    replace (max_arr L <? N.of_nat (length acc)) with true
      by (symmetry; apply N.ltb_lt; cbn [length] in Hover; lia).
    reflexivity.
  - inversion Hro as [|? ? Hro1 Hro2]; subst.
    cbn [forallb] in Hw. apply andb_true_iff in Hw as [Hw1 Hw2].
    rewrite lsize_cons in Hfuel.
    rewrite fmt_list_pretty_cons. rewrite <- !app_assoc.
    destruct (pretty_tail L d os rest Hw2) as (t1 & Ht1 & Hns & Hfo).
    assert (Hlead : is_lead (if first then [] else [cSP])) by (destruct first; [left|right]; reflexivity).
    destruct (is_ref o) eqn:Er.
    + destruct o; try discriminate. cbn [wf_obj] in Hw1. cbn [osize] in Hfuel.
      change (body true (ORef n g)) with (fmt_ref n g).
      destruct (N.leb_spec (max_arr L) (N.of_nat (length acc))) as [Hge|Hlt].
      * destruct fuel as [|[|f]]; try lia.
        apply arr_step_ref_fail; [exact Hlead | exact Hw1 | exact Hge].
      * destruct fuel as [|[|[|f]]]; try lia.
        rewrite arr_step_ref; [|exact Hlead|exact Hw1|lia].
        apply IH; auto; [cbn [length] in *; lia | lia].
    + destruct fuel as [|f]; [lia|].
      destruct (N.ltb_spec (max_arr L) (N.of_nat (length acc))) as [Hgt|Hle].
      * apply (arr_step_fail L d true o _ f acc iseen _ t1); auto. lia.
      * rewrite (arr_step L d true o _ f acc iseen _ t1);
          [ | exact Hlead | exact Hro1 | exact Er | exact Hw1 | lia | exact Hle | exact Ht1 | exact Hns | intros _; exact Hfo ].
        apply IH; auto; [cbn [length] in *; lia | lia].
Qed.
