(* limits_reject: values just beyond each limit are rejected with a MalformedFileError, at the
   level of scan_objects (the fuel the scanner gives itself): strings, names, arrays (with or
   without references), dictionaries, nesting depth. *)
From Coq Require Import List NArith ZArith Bool Lia Permutation.
From GoPdf.Base Require Import Bytes Res.
From GoPdf.C01 Require Import Lex Obj Num Names Strings Format Scan Wf
  LexProofs NumProofs NamesProofs StringsProofs FormatProofs ScanProofs FuelProofs LimitProofs ArrayLimitProofs.
Import ListNotations.
Open Scope N_scope.

(* ---- the wrapper: one value whose reading fails ---- *)
Lemma scan_objects_err L text b r F0 :
  0 < max_depth L -> text = b :: r -> stops_ws b = true -> (b =? cRB) = false -> (b =? cR) = false ->
  (F0 + 2 <= scan_fuel (text ++ [cRB]))%nat ->
  (forall f, (F0 <= f)%nat -> read_object L f 1 (text ++ [cRB]) = Err Malformed) ->
  scan_objects L text = Err Malformed.
Proof.
  intros Hd -> Hs H1 H2 HF Hread. unfold scan_objects. cbv zeta.
  set (s := (b :: r) ++ [cRB]) in *.
  destruct (scan_fuel s) as [|[|f]] eqn:Ef; try lia.
  unfold scan_objects_fuel. rewrite read_array_eq.
  replace (max_depth L <=? 0) with false by (symmetry; apply N.leb_gt; exact Hd).
  rewrite read_arr_loop_eq. subst s. cbn [app]. rewrite skip_ws_stop by exact Hs.
  rewrite H1, H2, andb_false_r.
  change (b :: r ++ [cRB]) with ((b :: r) ++ [cRB]). rewrite Hread by lia. reflexivity.
Qed.

(* ---- an element that is a reference, when the array is already full ---- *)
Lemma arr_step_ref_fail L d n g ws f acc iseen X :
  is_lead ws -> wf_ref L n g = true -> max_arr L <= N.of_nat (length acc) ->
  read_arr_loop L (S (S (S f))) d acc iseen (ws ++ fmt_ref n g ++ X) = Err Malformed.
Proof.
  intros Hws Hw Hlen. destruct (wf_ref_facts L n g Hw) as (Hin & Hig & Hn0 & Hg0 & Hln & Hlg & Hmk).
  unfold fmt_ref. rewrite <- !app_assoc. cbn [app].
  destruct (read_int_token L (S f) d n (cSP :: print_int g ++ cSP :: cR :: X) Hin Hln Hn0 eq_refl)
    as (b1 & r1 & E1 & Hg1 & Hread1).
  apply good_head_facts in Hg1 as (Hs1 & H11 & H12 & _).
  rewrite read_arr_loop_eq.
  assert (Hskip1 : skip_ws (ws ++ print_int n ++ cSP :: print_int g ++ cSP :: cR :: X)
                   = Ok (print_int n ++ cSP :: print_int g ++ cSP :: cR :: X)).
  { rewrite skip_is_lead by exact Hws. rewrite E1; cbn [app]; apply skip_ws_stop; exact Hs1. }
  unfold bytes, byte in *. rewrite Hskip1. rewrite E1 in Hread1 |- *. cbn [app] in Hread1 |- *.
  rewrite H11, H12, andb_false_r. rewrite Hread1.
  destruct (max_arr L <? N.of_nat (length acc)) eqn:Elt; [reflexivity|].
  apply N.ltb_ge in Elt. cbn [is_int].
  (* the array holds exactly the limit: the second integer does not fit *)
  destruct (read_int_token L f d g (cSP :: cR :: X) Hig Hlg Hg0 eq_refl)
    as (b2 & r2 & E2 & Hg2 & Hread2).
  apply good_head_facts in Hg2 as (Hs2 & H21 & H22 & _).
  rewrite read_arr_loop_eq. rewrite skip_ws_sp.
  rewrite E2 in Hread2 |- *. cbn [app] in Hread2 |- *. rewrite (skip_ws_stop b2 _ Hs2).
  unfold bytes, byte in *. rewrite H21, H22, andb_false_r. rewrite Hread2.
  replace (max_arr L <? N.of_nat (length (OInt n :: acc))) with true
    by (symmetry; apply N.ltb_lt; cbn [length]; lia).
  reflexivity.
Qed.

(* ---- arrays longer than the limit, any elements ---- *)
Lemma arr_loop_plain_over_ref L d : forall os sep acc iseen fuel rest,
  Forall ro_spec os -> forallb (wf_obj L d) os = true ->
  max_arr L < N.of_nat (length acc + length os) -> (lsize os <= fuel)%nat ->
  read_arr_loop L fuel d acc iseen (fmt_list_plain sep os ++ cRB :: rest) = Err Malformed.
Proof.
  induction os as [|o os IH]; intros sep acc iseen fuel rest Hro Hw Hover Hfuel.
  - cbn [fmt_list_plain app]. destruct fuel as [|f]; [cbn in Hfuel; lia|].
    rewrite read_arr_loop_eq. rewrite skip_ws_stop by reflexivity.
    change (cRB =? cRB) with true. cbn iota.
    replace (max_arr L <? N.of_nat (length acc)) with true
      by (symmetry; apply N.ltb_lt; cbn [length] in Hover; lia).
    reflexivity.
  - inversion Hro as [|? ? Hro1 Hro2]; subst.
    cbn [forallb] in Hw. apply andb_true_iff in Hw as [Hw1 Hw2].
    rewrite lsize_cons in Hfuel.
    rewrite fmt_list_plain_cons. rewrite <- !app_assoc.
    destruct (plain_tail L d os (ends_reg o) rest Hw2) as (t1 & Ht1 & Hns & Hfo).
    destruct (is_ref o) eqn:Er.
    + destruct o; try discriminate. cbn [wf_obj] in Hw1. cbn [osize] in Hfuel.
      change (body false (ORef n g)) with (fmt_ref n g).
      destruct (N.leb_spec (max_arr L) (N.of_nat (length acc))) as [Hge|Hlt].
      * destruct fuel as [|[|[|f]]]; try lia.
        apply arr_step_ref_fail; [apply lead_is_lead | exact Hw1 | exact Hge].
      * destruct fuel as [|[|[|f]]]; try lia.
        rewrite arr_step_ref; [|apply lead_is_lead|exact Hw1|lia].
        apply IH; auto; [cbn [length] in *; lia | lia].
    + destruct fuel as [|f]; [lia|].
      destruct (N.ltb_spec (max_arr L) (N.of_nat (length acc))) as [Hgt|Hle].
      * apply (arr_step_fail L d false o (lead sep o) f acc iseen _ t1); auto; [apply lead_is_lead | lia].
      * rewrite (arr_step L d false o (lead sep o) f acc iseen _ t1);
          [ | apply lead_is_lead | exact Hro1 | exact Er | exact Hw1 | lia | exact Hle | exact Ht1 | exact Hns | exact Hfo ].
        apply IH; auto; [cbn [length] in *; lia | lia].
Qed.

Lemma arr_loop_pretty_over_ref L d : forall os first acc iseen fuel rest,
  Forall ro_spec os -> forallb (wf_obj L d) os = true ->
  max_arr L < N.of_nat (length acc + length os) -> (lsize os <= fuel)%nat ->
  read_arr_loop L fuel d acc iseen (fmt_list_pretty first os ++ cRB :: rest) = Err Malformed.
Proof.
  induction os as [|o os IH]; intros first acc iseen fuel rest Hro Hw Hover Hfuel.
  - cbn [fmt_list_pretty app]. destruct fuel as [|f]; [cbn in Hfuel; lia|].
    rewrite read_arr_loop_eq. rewrite skip_ws_stop by reflexivity.
    change (cRB =? cRB) with true. cbn iota.
    replace (max_arr L <? N.of_nat (length acc)) with true
      by (symmetry; apply N.ltb_lt; cbn [length] in Hover; lia).
    reflexivity.
  - inversion Hro as [|? ? Hro1 Hro2]; subst.
    cbn [forallb] in Hw. apply andb_true_iff in Hw as [Hw1 Hw2].
    rewrite lsize_cons in Hfuel.
    rewrite fmt_list_pretty_cons. rewrite <- !app_assoc.
    destruct (pretty_tail L d os rest Hw2) as (t1 & Ht1 & Hns & Hfo).
    assert (Hlead : is_lead (if first then [] else [cSP])) by (destruct first; [left|right]; reflexivity).
    destruct (is_ref o) eqn:Er.
    + destruct o; try discriminate. cbn [wf_obj] in Hw1. cbn [osize] in Hfuel.
      change (body true (ORef n g)) with (fmt_ref n g).
      destruct (N.leb_spec (max_arr L) (N.of_nat (length acc))) as [Hge|Hlt].
      * destruct fuel as [|[|[|f]]]; try lia.
        apply arr_step_ref_fail; [exact Hlead | exact Hw1 | exact Hge].
      * destruct fuel as [|[|[|f]]]; try lia.
        rewrite arr_step_ref; [|exact Hlead|exact Hw1|lia].
        apply IH; auto; [cbn [length] in *; lia | lia].
    + destruct fuel as [|f]; [lia|].
      destruct (N.ltb_spec (max_arr L) (N.of_nat (length acc))) as [Hgt|Hle].
      * apply (arr_step_fail L d true o _ f acc iseen _ t1); auto. lia.
      * rewrite (arr_step L d true o _ f acc iseen _ t1);
          [ | exact Hlead | exact Hro1 | exact Er | exact Hw1 | lia | exact Hle | exact Ht1 | exact Hns | intros _; exact Hfo ].
        apply IH; auto; [cbn [length] in *; lia | lia].
Qed.

(* the text of a single array value *)
Lemma array_text p l :
  format p [OArr l] = cLB :: (if p then fmt_list_pretty true l else fmt_list_plain false l) ++ [cRB].
Proof.
  unfold format. destruct p; cbn [fmt_list_pretty fmt_list_plain]; rewrite fmt_obj_arr;
    cbn [fst app]; rewrite ?app_nil_r; reflexivity.
Qed.

Theorem array_limit_full L p l :
  1 < max_depth L -> forallb (wf_obj L 2) l = true -> max_arr L < N.of_nat (length l) ->
  scan_objects L (format p [OArr l]) = Err Malformed.
Proof.
  intros Hd Hw Hover.
  assert (Hro : Forall ro_spec l) by (apply Forall_forall; intros; apply ro_all).
  assert (HP : Forall fuel_spec l) by (apply Forall_forall; intros; apply fuel_all).
  set (lt := if p then fmt_list_pretty true l else fmt_list_plain false l).
  assert (Hls : (lsize l <= 2 * length lt + 1)%nat).
  { subst lt. destruct p; [apply (pretty_fuel l true L 2) | apply (plain_fuel l false L 2)]; assumption. }
  rewrite array_text. fold lt.
  apply (scan_objects_err L (cLB :: lt ++ [cRB]) cLB (lt ++ [cRB]) (lsize l + 2)); try reflexivity; try lia.
  - unfold scan_fuel. cbn [app length]. rewrite !app_length. cbn [length]. unfold bytes, byte in *. lia.
  - intros f Hf. destruct f as [|[|f]]; try lia.
    cbn [app]. rewrite read_object_lb, read_array_eq.
    replace (max_depth L <=? 1) with false by (symmetry; apply N.leb_gt; exact Hd).
    rewrite <- app_assoc. cbn [app]. subst lt.
    destruct p; [apply arr_loop_pretty_over_ref | apply arr_loop_plain_over_ref]; auto; cbn [length]; lia.
Qed.

(* ---- strings ---- *)
Lemma read_fmt_hex_body_over L : forall l acc rest,
  wfbs l = true -> N.of_nat (length acc) <= max_str L -> max_str L < N.of_nat (length acc + length l) ->
  read_hex_body L None acc (fmt_hex_body l ++ cGT :: rest) = Err Malformed.
Proof.
  induction l as [|c r IH]; intros acc rest Hw Hle Hover.
  - cbn [length] in Hover. lia.
  - apply wfbs_cons in Hw as [Hc Hw].
    destruct (hex_pair_rt c Hc) as (H1 & H2 & H3).
    cbn [fmt_hex_body app read_hex_body]. rewrite H1. rewrite H2.
    destruct (max_str L <=? blen acc) eqn:E; [reflexivity|].
    apply N.leb_gt in E. unfold blen in E. unfold is_hex in H1, H2. rewrite H3.
    apply IH; auto; cbn [length] in *; lia.
Qed.

Theorem string_limit_full L p s :
  0 < max_depth L -> wfbs s = true ->
  (if p && use_hex s then max_str L < blen s else max_str L <= blen s) ->
  scan_objects L (format p [OStr s]) = Err Malformed.
Proof.
  intros Hd Hw Hover.
  assert (Htext : format p [OStr s] = fmt_string p s).
  { unfold format. destruct p; cbn [fmt_list_pretty fmt_list_plain fmt_obj fst app]; rewrite ?app_nil_r; reflexivity. }
  rewrite Htext. unfold fmt_string in *. destruct (p && use_hex s).
  - (* hex form *)
    unfold fmt_str_hex.
    destruct (hex_text_head s [cRB] Hw) as (x & r & E & Hx).
    apply (scan_objects_err L _ cLT (fmt_hex_body s ++ [cGT]) 1); try reflexivity; try exact Hd.
    + unfold scan_fuel. lia.
    + intros f Hf. destruct f as [|f]; [lia|]. cbn [app]. rewrite <- app_assoc.
      unfold bytes, byte in *. rewrite E. rewrite read_object_hex by exact Hx. rewrite <- E.
      unfold read_hex_string. cbn [app].
      rewrite read_fmt_hex_body_over; [reflexivity | exact Hw | cbn [length]; lia | unfold blen in Hover; cbn [length]; lia].
  - (* literal form *)
    pose proof (string_limit_lemma L s [cRB] Hover) as Hl.
    unfold fmt_str_lit in *.
    apply (scan_objects_err L _ cLP (fmt_str_body None 0 (count_rp s) s ++ [cRP]) 1); try reflexivity; try exact Hd.
    + unfold scan_fuel. lia.
    + intros f Hf. destruct f as [|f]; [lia|]. cbn [app] in Hl |- *. rewrite read_object_lp.
      change (read_string_tok L (cLP :: (fmt_str_body None 0 (count_rp s) s ++ [cRP]) ++ [cRB]))
        with (read_string L ((fmt_str_body None 0 (count_rp s) s ++ [cRP]) ++ [cRB])) in Hl.
      unfold bytes, byte in *. rewrite Hl. reflexivity.
Qed.

(* ---- names ---- *)
Theorem name_limit_full L p n :
  0 < max_depth L -> wfbs n = true -> max_name L <= blen n ->
  scan_objects L (format p [OName n]) = Err Malformed.
Proof.
  intros Hd Hw Hover.
  assert (Htext : format p [OName n] = fmt_name n).
  { unfold format. destruct p; cbn [fmt_list_pretty fmt_list_plain fmt_obj fst app]; rewrite ?app_nil_r; reflexivity. }
  rewrite Htext. unfold fmt_name.
  apply (scan_objects_err L _ cSLASH (fmt_name_body n) 1); try reflexivity; try exact Hd.
  - unfold scan_fuel. lia.
  - intros f Hf. destruct f as [|f]; [lia|]. cbn [app]. rewrite read_object_name.
    pose proof (name_limit_lemma L n cRB [] Hw Hover) as Hn. unfold fmt_name in Hn. cbn [app] in Hn.
    unfold bytes, byte in *. rewrite Hn. reflexivity.
Qed.

(* ---- dictionaries: an entry that arrives when the dictionary is full ---- *)
Lemma dict_step_gen_fail L d p k v ws Z f acc c X0 :
  ro_spec v -> is_ref v = false -> wf_obj L d v = true -> wf_name L k = true -> (osize v <= f)%nat ->
  dict_has acc k = false -> max_dict L <= N.of_nat (length acc) -> key_end c = true ->
  is_lead ws -> follow_ok (ws ++ body p v ++ Z) = true ->
  skip_ws Z = Ok (c :: X0) -> (ends_reg v = true -> follow_ok Z = true) ->
  read_dict_loop L (S f) d acc (fmt_name k ++ ws ++ body p v ++ Z) = Err Malformed.
Proof.
  intros Hro Hr Hw Hk Hf Hfresh Hlen Hc Hws Hfo1 HZ Hfo2.
  destruct (wf_name_facts L k Hk) as [Hk1 Hk2].
  destruct (key_end_facts c X0 Hc) as (Hc1 & Hc2 & Hc3).
  rewrite read_dict_loop_eq.
  rewrite name_rt_lemma by assumption.
  rewrite (skip_lead_body p L d v ws Z Hw Hws).
  destruct (Hro p L d f Z (c :: X0) Hw Hr Hf HZ Hc2 Hfo2) as (s' & Hread & Hs').
  rewrite Hread, Hs'. rewrite dict_lookahead_none by exact Hc.
  rewrite Hfresh. cbn [negb andb].
  replace (max_dict L <=? N.of_nat (length acc)) with true by (symmetry; apply N.leb_le; exact Hlen).
  reflexivity.
Qed.

Lemma dict_step_ref_gen_fail L d k n g ws Z f acc c X0 :
  wf_ref L n g = true -> wf_name L k = true ->
  dict_has acc k = false -> max_dict L <= N.of_nat (length acc) -> key_end c = true ->
  is_lead ws -> ws <> [] -> skip_ws Z = Ok (c :: X0) ->
  read_dict_loop L (S (S f)) d acc (fmt_name k ++ ws ++ fmt_ref n g ++ Z) = Err Malformed.
Proof.
  intros Hw Hk Hfresh Hlen Hc Hws Hne HZ.
  destruct (wf_ref_facts L n g Hw) as (Hin & Hig & Hn0 & Hg0 & Hln & Hlg & Hmk).
  destruct (wf_name_facts L k Hk) as [Hk1 Hk2].
  destruct Hws as [->| ->]; [congruence|]. clear Hne.
  unfold fmt_ref. rewrite <- !app_assoc. cbn [app].
  rewrite read_dict_loop_eq.
  rewrite name_rt_lemma by (try assumption; reflexivity).
  rewrite skip_ws_sp.
  destruct (read_int_token L f d n (cSP :: print_int g ++ cSP :: cR :: Z) Hin Hln Hn0 eq_refl)
    as (b1 & r1 & E1 & Hg1 & Hread1).
  apply good_head_facts in Hg1 as (Hs1 & _).
  assert (Hsk : skip_ws (print_int n ++ cSP :: print_int g ++ cSP :: cR :: Z)
                = Ok (print_int n ++ cSP :: print_int g ++ cSP :: cR :: Z)).
  { rewrite E1. cbn [app]. apply skip_ws_stop. exact Hs1. }
  unfold bytes, byte in *. rewrite Hsk, Hread1. rewrite skip_ws_sp.
  destruct (print_int_nonneg g Hg0) as (b2 & ds2 & E2 & Hb2 & Hd2).
  destruct (digit_good b2 Hb2) as [Hg2 _]. apply good_head_facts in Hg2 as (Hs2 & _).
  assert (Hsk2 : skip_ws (print_int g ++ cSP :: cR :: Z) = Ok (print_int g ++ cSP :: cR :: Z)).
  { rewrite E2. cbn [app]. apply skip_ws_stop. exact Hs2. }
  unfold bytes, byte in *. rewrite Hsk2.
  assert (Hla : dict_lookahead L (OInt n) (print_int g ++ cSP :: cR :: Z) = Ok (ORef n g, c :: X0)).
  { pose proof (read_integer_token L g (cR :: Z) Hig Hlg Hg0) as Hri.
    rewrite E2 in Hri |- *. cbn [app] in Hri |- *. cbn [dict_lookahead].
    assert (Hb2' : negb (b2 =? cSLASH) && negb (b2 =? cGT) = true).
    { assert (Hlt : b2 < 256) by (unfold is_digit, c9 in Hb2; apply andb_true_iff in Hb2 as [_ Hb2]; apply N.leb_le in Hb2; lia).
      pose proof (all_bytes_spec (fun b => implb (is_digit b) (negb (b =? cSLASH) && negb (b =? cGT)))
                    ltac:(vm_compute; reflexivity) b2 Hlt) as H0.
      cbv beta in H0. rewrite Hb2 in H0. exact H0. }
    unfold bytes, byte in *. rewrite Hb2', Hri. rewrite skip_ws_sp. rewrite skip_ws_stop by reflexivity.
    change (cR =? cR) with true. cbn iota. rewrite HZ, Hmk. reflexivity. }
  unfold bytes, byte in *. rewrite Hla.
  rewrite Hfresh. cbn [negb andb].
  replace (max_dict L <=? N.of_nat (length acc)) with true by (symmetry; apply N.leb_le; exact Hlen).
  reflexivity.
Qed.

Lemma dict_entry_step_fail L d p k v f acc c X0 :
  ro_spec v -> is_ref v = false -> wf_obj L d v = true -> wf_name L k = true -> (osize v <= f)%nat ->
  dict_has acc k = false -> max_dict L <= N.of_nat (length acc) -> key_end c = true ->
  read_dict_loop L (S f) d acc (fmt_entry p k v ++ c :: X0) = Err Malformed.
Proof.
  intros Hro Hr Hw Hk Hf Hfresh Hlen Hc.
  destruct (key_end_facts c X0 Hc) as (Hc1 & Hc2 & Hc3).
  unfold fmt_entry. destruct p.
  - change (fst (fmt_obj true false v)) with (body true v). rewrite <- !app_assoc.
    change ([cLF] ++ c :: X0) with (cLF :: c :: X0).
    apply (dict_step_gen_fail L d _ k v _ _ f acc c X0); auto;
      first [ right; reflexivity | rewrite skip_ws_lf; exact Hc1 ].
  - rewrite fmt_obj_split. cbn [fst]. rewrite <- !app_assoc.
    apply (dict_step_gen_fail L d _ k v _ _ f acc c X0); auto;
      first [ apply lead_is_lead | apply follow_lead_body with (L := L) (d := d); exact Hw ].
Qed.

Lemma dict_entry_step_ref_fail L d p k n g f acc c X0 :
  wf_ref L n g = true -> wf_name L k = true ->
  dict_has acc k = false -> max_dict L <= N.of_nat (length acc) -> key_end c = true ->
  read_dict_loop L (S (S f)) d acc (fmt_entry p k (ORef n g) ++ c :: X0) = Err Malformed.
Proof.
  intros Hw Hk Hfresh Hlen Hc.
  destruct (key_end_facts c X0 Hc) as (Hc1 & Hc2 & Hc3).
  assert (E : fmt_entry p k (ORef n g) ++ c :: X0
              = fmt_name k ++ [cSP] ++ fmt_ref n g ++ (if p then cLF :: c :: X0 else c :: X0)).
  { unfold fmt_entry. destruct p; cbn [fmt_obj fst sp app]; rewrite <- ?app_assoc; cbn [app];
      rewrite <- ?app_assoc; reflexivity. }
  rewrite E. apply (dict_step_ref_gen_fail L d k n g _ _ f acc c X0); auto.
  - right; reflexivity.
  - discriminate.
  - destruct p; [rewrite skip_ws_lf|]; exact Hc1.
Qed.

Lemma dict_loop_over L d p : forall es acc fuel rest,
  Forall (fun kv => ro_spec (snd kv)) es ->
  Forall (fun kv => wf_name L (fst kv) = true /\ wf_obj L d (snd kv) = true) es ->
  NoDup (map fst acc ++ map fst es) ->
  N.of_nat (length acc) <= max_dict L -> max_dict L < N.of_nat (length acc + length es) ->
  (esz es <= fuel)%nat ->
  read_dict_loop L fuel d acc (entries_text p es ++ kw_gtgt ++ rest) = Err Malformed.
Proof.
  induction es as [|[k v] es IH]; intros acc fuel rest Hro Hw Hnd Hle Hover Hfuel.
  - cbn [length] in Hover. lia.
  - inversion Hro as [|? ? Hro1 Hro2]; subst. inversion Hw as [|? ? [Hk Hwv] Hw2]; subst.
    cbn [fst snd] in *.
    assert (Hfresh : dict_has acc k = false).
    { destruct (dict_has acc k) eqn:E; [|reflexivity]. exfalso.
      apply dict_has_in in E. cbn [map fst] in Hnd. apply NoDup_remove_2 in Hnd.
      apply Hnd. apply in_or_app. left. exact E. }
    assert (Hnd' : NoDup (map fst (acc ++ [(k, norm v)]) ++ map fst es)).
    { rewrite map_app. cbn [map fst]. rewrite <- app_assoc. exact Hnd. }
    unfold entries_text. cbn [map concat fst snd]. fold (entries_text p es). rewrite <- app_assoc.
    destruct (entries_head p es rest) as (c & X0 & EX & Hc). rewrite EX.
    cbn [esz fold_right snd] in Hfuel. fold (esz es) in Hfuel.
    destruct (N.leb_spec (max_dict L) (N.of_nat (length acc))) as [Hfull|Hroom].
    + (* the dictionary is full: this entry is rejected *)
      destruct (is_ref v) eqn:Er.
      * destruct v; try discriminate. cbn [wf_obj] in Hwv. cbn [osize] in Hfuel.
        destruct fuel as [|[|f]]; try lia. apply dict_entry_step_ref_fail; assumption.
      * destruct fuel as [|f]; [lia|]. apply dict_entry_step_fail; auto. lia.
    + assert (Hlen' : N.of_nat (length (acc ++ [(k, norm v)])) <= max_dict L)
        by (rewrite app_length; cbn [length]; lia).
      assert (Hover' : max_dict L < N.of_nat (length (acc ++ [(k, norm v)]) + length es))
        by (rewrite app_length; cbn [length] in *; lia).
      destruct (is_ref v) eqn:Er.
      * destruct v; try discriminate. cbn [wf_obj] in Hwv. cbn [osize] in Hfuel.
        destruct fuel as [|[|f]]; try lia.
        rewrite dict_entry_step_ref by assumption. rewrite <- EX.
        apply IH; auto. lia.
      * destruct fuel as [|f]; [lia|].
        rewrite dict_entry_step; [ | exact Hro1 | exact Er | exact Hwv | exact Hk | lia | exact Hfresh | exact Hroom | exact Hc ].
        rewrite <- EX. apply IH; auto. lia.
Qed.

Theorem dict_limit_full L p l :
  1 < max_depth L -> nodup_keys l = true ->
  forallb (fun kv => wf_name L (fst kv) && wf_obj L 2 (snd kv)) l = true ->
  max_dict L < N.of_nat (length (norm_entries l)) ->
  scan_objects L (format p [ODict l]) = Err Malformed.
Proof.
  intros Hd Hnd Hall Hover.
  set (es := sort_entries (filter nonnull l)).
  assert (Hperm : Permutation es (filter nonnull l)) by apply sort_perm.
  assert (Hin : forall kv, In kv es -> In kv l).
  { intros kv H. apply (Permutation_in _ Hperm) in H. apply filter_In in H. tauto. }
  assert (Htext : concat (map snd (sort_entries (fmt_frags p l))) = entries_text p es).
  { rewrite fmt_frags_map. rewrite (sort_map (fun kv => fmt_entry p (fst kv) (snd kv))).
    rewrite map_map. reflexivity. }
  assert (Hlen : length es = length (norm_entries l)).
  { rewrite (Permutation_length Hperm). rewrite norm_entries_map, map_length. reflexivity. }
  assert (Hndes : NoDup (map fst es)).
  { apply (Permutation_NoDup (l := map fst (filter nonnull l))).
    - apply Permutation_map. symmetry. exact Hperm.
    - apply NoDup_filter_fst. apply nodup_keys_NoDup. exact Hnd. }
  assert (HP : Forall (fun kv => fuel_spec (snd kv)) l) by (apply Forall_forall; intros; apply fuel_all).
  pose proof (frags_fuel p l L 2 HP Hall) as Hfu.
  rewrite (concat_len_perm _ _ (Permutation_sym (Permutation_map snd (sort_perm (fmt_frags p l))))) in Hfu.
  rewrite Htext in Hfu.
  assert (Hesz : esz es = esize l) by (unfold es; rewrite (esz_perm _ _ (sort_perm _)); apply esz_filter).
  assert (Hfmt : format p [ODict l]
                 = cLT :: cLT :: (if p then [cLF] else []) ++ entries_text p es ++ kw_gtgt).
  { unfold format. destruct p; cbn [fmt_list_pretty fmt_list_plain]; rewrite fmt_obj_dict;
      cbn [fst app kw_ltlt]; rewrite Htext, ?app_nil_r; reflexivity. }
  rewrite Hfmt.
  apply (scan_objects_err L _ cLT (cLT :: (if p then [cLF] else []) ++ entries_text p es ++ kw_gtgt) (esize l + 3));
    try reflexivity; try lia.
  - unfold scan_fuel. cbn [app length]. rewrite !app_length. cbn [kw_gtgt length]. unfold bytes, byte in *. lia.
  - intros f Hf. destruct f as [|[|f]]; try lia. cbn [app].
    rewrite read_object_dict, read_dict_eq.
    replace (max_depth L <=? 1) with false by (symmetry; apply N.leb_gt; exact Hd).
    cbn [kw_ltlt starts_with]. change (cLT =? cLT) with true. cbn [andb drop].
    destruct (entries_head p es [cRB]) as (c & X0 & EX & Hc).
    destruct (key_end_facts c X0 Hc) as (Hc1 & _).
    rewrite <- !app_assoc.
    assert (Hsk : skip_ws ((if p then [cLF] else @nil byte) ++ entries_text p es ++ kw_gtgt ++ [cRB])
                  = Ok (entries_text p es ++ kw_gtgt ++ [cRB])).
    { rewrite EX. destruct p; cbn [app]; [rewrite skip_ws_lf|]; exact Hc1. }
    unfold bytes, byte in *. rewrite Hsk.
    match goal with |- match ?t with _ => _ end = _ =>
      assert (X : t = Err Malformed); [ | rewrite X; reflexivity ] end.
    apply dict_loop_over.
    + apply Forall_forall. intros; apply ro_all.
    + apply Forall_forall. intros kv Hkv. rewrite forallb_forall in Hall.
      specialize (Hall kv (Hin kv Hkv)). apply andb_true_iff in Hall. exact Hall.
    + cbn [map app]. exact Hndes.
    + cbn [length]. lia.
    + rewrite <- Hlen in Hover. exact Hover.
    + rewrite Hesz. lia.
Qed.

(* ---- nesting depth ---- *)
Lemma nest_text p k : body p (nest (S k)) = cLB :: body p (nest k) ++ [cRB].
Proof.
  unfold body. cbn [nest]. rewrite fmt_obj_arr. cbn [fst app].
  destruct p; cbn [fmt_list_pretty fmt_list_plain app].
  - rewrite app_nil_r. reflexivity.
  - rewrite fmt_obj_split. cbn [lead andb app]. rewrite app_nil_r. reflexivity.
Qed.
Lemma nest_text0 p : body p (nest 0) = [cLB; cRB].
Proof. unfold body. cbn [nest]. rewrite fmt_obj_arr. destruct p; reflexivity. Qed.

Lemma nest_over L p : forall k d f tail,
  max_depth L <= d + N.of_nat k -> (3 * k + 3 <= f)%nat ->
  read_object L f d (body p (nest k) ++ tail) = Err Malformed.
Proof.
  induction k as [|k IH]; intros d f tail Hover Hf.
  - destruct f as [|[|f]]; try lia. rewrite nest_text0. cbn [app].
    rewrite read_object_lb, read_array_eq.
    replace (max_depth L <=? d) with true by (symmetry; apply N.leb_le; lia). reflexivity.
  - destruct f as [|[|[|f]]]; try lia. rewrite nest_text. cbn [app].
    rewrite read_object_lb, read_array_eq.
    destruct (max_depth L <=? d) eqn:E; [reflexivity|]. apply N.leb_gt in E.
    rewrite read_arr_loop_eq. rewrite <- app_assoc.
    assert (Hhead : exists r, body p (nest k) = cLB :: r)
      by (destruct k; [rewrite nest_text0 | rewrite nest_text]; eexists; reflexivity).
    destruct Hhead as (r & Er). rewrite Er. cbn [app]. rewrite skip_ws_stop by reflexivity.
    change (cLB =? cRB) with false. change (cLB =? cR) with false. rewrite andb_false_r. cbn iota.
    change (cLB :: r ++ cRB :: tail) with ((cLB :: r) ++ cRB :: tail). rewrite <- Er.
    rewrite IH; [reflexivity | lia | lia].
Qed.

Theorem depth_limit_full L p k :
  0 < max_depth L -> max_depth L <= N.of_nat (S k) ->
  scan_objects L (format p [nest k]) = Err Malformed.
Proof.
  intros Hd Hover.
  assert (Htext : format p [nest k] = body p (nest k)).
  { unfold format, body. destruct p; cbn [fmt_list_pretty fmt_list_plain app].
    - rewrite app_nil_r. reflexivity.
    - destruct (fmt_obj false false (nest k)) eqn:E. cbn [fst]. rewrite app_nil_r. reflexivity. }
  rewrite Htext.
  assert (Hlen : (2 * k + 2 <= length (body p (nest k)))%nat).
  { clear. induction k as [|k IH]; [rewrite nest_text0; cbn; lia|].
    rewrite nest_text. cbn [length]. rewrite app_length. cbn [length]. lia. }
  assert (Hhead : exists r, body p (nest k) = cLB :: r)
    by (destruct k; [rewrite nest_text0 | rewrite nest_text]; eexists; reflexivity).
  destruct Hhead as (r & Er).
  apply (scan_objects_err L _ cLB r (3 * k + 3)); try reflexivity; try exact Hd; try exact Er.
  - unfold scan_fuel. rewrite app_length. cbn [length]. unfold bytes, byte in *. lia.
  - intros f Hf. apply nest_over; [lia | exact Hf].
Qed.

(* with maxScannerNestDepth = 1 every composite is already too deep *)
Lemma depth1_array L r : 0 < max_depth L -> max_depth L <= 1 ->
  scan_objects L (cLB :: r) = Err Malformed.
Proof.
  intros Hd H1.
  apply (scan_objects_err L _ cLB r 2); try reflexivity; try exact Hd.
  - unfold scan_fuel. cbn [app length]. lia.
  - intros f Hf. destruct f as [|[|f]]; try lia. cbn [app].
    rewrite read_object_lb, read_array_eq.
    replace (max_depth L <=? 1) with true by (symmetry; apply N.leb_le; exact H1). reflexivity.
Qed.
Lemma depth1_dict L r : 0 < max_depth L -> max_depth L <= 1 ->
  scan_objects L (cLT :: cLT :: r) = Err Malformed.
Proof.
  intros Hd H1.
  apply (scan_objects_err L _ cLT (cLT :: r) 2); try reflexivity; try exact Hd.
  - unfold scan_fuel. cbn [app length]. lia.
  - intros f Hf. destruct f as [|[|f]]; try lia. cbn [app].
    rewrite read_object_dict, read_dict_eq.
    replace (max_depth L <=? 1) with true by (symmetry; apply N.leb_le; exact H1). reflexivity.
Qed.

(* The complete statement: a value just beyond any one of the five limits is rejected with a
   MalformedFileError, in both output styles, by the complete reader (scan_objects, its own fuel). *)
Definition limits_reject_stmt : Prop :=
  forall L p, 0 < max_depth L ->
  (forall s, wfbs s = true ->
             (if p && use_hex s then max_str L < blen s else max_str L <= blen s) ->
             scan_objects L (format p [OStr s]) = Err Malformed) /\
  (forall n, wfbs n = true -> max_name L <= blen n ->
             scan_objects L (format p [OName n]) = Err Malformed) /\
  (forall l, forallb (wf_obj L 2) l = true -> max_arr L < N.of_nat (length l) ->
             scan_objects L (format p [OArr l]) = Err Malformed) /\
  (forall l, nodup_keys l = true ->
             forallb (fun kv => wf_name L (fst kv) && wf_obj L 2 (snd kv)) l = true ->
             max_dict L < N.of_nat (length (norm_entries l)) ->
             scan_objects L (format p [ODict l]) = Err Malformed) /\
  (forall k, max_depth L <= N.of_nat (S k) ->
             scan_objects L (format p [nest k]) = Err Malformed).

Theorem limits_reject_all : limits_reject_stmt.
Proof.
  intros L p Hd. split; [|split; [|split; [|split]]].
  - intros s Hw H. apply string_limit_full; assumption.
  - intros n Hw H. apply name_limit_full; assumption.
  - intros l Hw H. destruct (N.ltb_spec 1 (max_depth L)) as [H1|H1].
    + apply array_limit_full; assumption.
    + rewrite array_text. apply depth1_array; assumption.
  - intros l Hnd Hw H. destruct (N.ltb_spec 1 (max_depth L)) as [H1|H1].
    + apply dict_limit_full; assumption.
    + assert (Hfmt : exists r, format p [ODict l] = cLT :: cLT :: r).
      { unfold format. destruct p; cbn [fmt_list_pretty fmt_list_plain]; rewrite fmt_obj_dict;
          cbn [fst app kw_ltlt]; eexists; reflexivity. }
      destruct Hfmt as (r & ->). apply depth1_dict; assumption.
  - intros k H. apply depth_limit_full; assumption.
Qed.

