(* The order of SortedKeys is a strict total order; sorting is canonical: two entry lists that
   are permutations of each other (distinct keys) sort to the same list.  Hence format_perm. *)
From Coq Require Import List NArith ZArith Bool Lia Permutation Sorted.
From GoPdf.Base Require Import Bytes Res.
From GoPdf.C01 Require Import Lex Obj Num Names Strings Format Wf LexProofs FormatProofs.
Import ListNotations.
Open Scope N_scope.

(* ---- bytes_ltb: lexicographic order ---- *)
Lemma bytes_ltb_irrefl a : bytes_ltb a a = false.
Proof.
  induction a as [|x a IH]; [reflexivity|]. cbn [bytes_ltb]. rewrite N.ltb_irrefl, N.eqb_refl, IH. reflexivity.
Qed.

Lemma bytes_ltb_trans a : forall b c, bytes_ltb a b = true -> bytes_ltb b c = true -> bytes_ltb a c = true.
Proof.
  induction a as [|x a IH]; intros [|y b] [|z c] H1 H2; cbn [bytes_ltb] in *; try discriminate; try reflexivity.
  apply orb_true_iff in H1. apply orb_true_iff in H2. apply orb_true_iff.
  destruct H1 as [H1|H1]; destruct H2 as [H2|H2].
  - left. apply N.ltb_lt in H1, H2. apply N.ltb_lt. lia.
  - apply andb_true_iff in H2 as [E _]. apply N.eqb_eq in E. subst. left. exact H1.
  - apply andb_true_iff in H1 as [E _]. apply N.eqb_eq in E. subst. left. exact H2.
  - apply andb_true_iff in H1 as [E1 H1]. apply andb_true_iff in H2 as [E2 H2].
    apply N.eqb_eq in E1, E2. subst. right. rewrite N.eqb_refl. cbn [andb]. eapply IH; eauto.
Qed.

Lemma bytes_ltb_total a : forall b, a <> b -> bytes_ltb a b = true \/ bytes_ltb b a = true.
Proof.
  induction a as [|x a IH]; intros [|y b] H; cbn [bytes_ltb]; auto; try congruence.
  destruct (N.lt_trichotomy x y) as [Hlt|[Heq|Hgt]].
  - left. apply orb_true_iff. left. apply N.ltb_lt. exact Hlt.
  - subst y. rewrite N.ltb_irrefl, N.eqb_refl. cbn [orb andb]. apply IH. congruence.
  - right. apply orb_true_iff. left. apply N.ltb_lt. exact Hgt.
Qed.

(* ---- key_ltb ---- *)
Lemma key_rank_cases k : key_rank k = 0 /\ k = key_Type \/ key_rank k = 1 /\ k = key_Subtype \/ key_rank k = 2.
Proof.
  unfold key_rank. destruct (bytes_eqb k key_Type) eqn:E1.
  - left. apply bytes_eqb_eq in E1. auto.
  - destruct (bytes_eqb k key_Subtype) eqn:E2.
    + right. left. apply bytes_eqb_eq in E2. auto.
    + right. right. reflexivity.
Qed.

Lemma key_ltb_irrefl a : key_ltb a a = false.
Proof. unfold key_ltb. rewrite N.ltb_irrefl, N.eqb_refl, bytes_ltb_irrefl. reflexivity. Qed.

Lemma key_ltb_trans a b c : key_ltb a b = true -> key_ltb b c = true -> key_ltb a c = true.
Proof.
  unfold key_ltb. intros H1 H2. apply orb_true_iff in H1. apply orb_true_iff in H2. apply orb_true_iff.
  destruct H1 as [H1|H1]; destruct H2 as [H2|H2].
  - left. apply N.ltb_lt in H1, H2. apply N.ltb_lt. lia.
  - apply andb_true_iff in H2 as [E _]. apply N.eqb_eq in E. left. rewrite <- E. exact H1.
  - apply andb_true_iff in H1 as [E _]. apply N.eqb_eq in E. left. rewrite E. exact H2.
  - apply andb_true_iff in H1 as [E1 H1]. apply andb_true_iff in H2 as [E2 H2].
    apply N.eqb_eq in E1, E2. right. rewrite E1, E2, N.eqb_refl. cbn [andb]. eapply bytes_ltb_trans; eauto.
Qed.

Lemma key_ltb_total a b : a <> b -> key_ltb a b = true \/ key_ltb b a = true.
Proof.
  intro H. unfold key_ltb. destruct (N.lt_trichotomy (key_rank a) (key_rank b)) as [Hlt|[Heq|Hgt]].
  - left. apply orb_true_iff. left. apply N.ltb_lt. exact Hlt.
  - rewrite Heq, N.ltb_irrefl, N.eqb_refl. cbn [orb andb]. apply bytes_ltb_total. exact H.
  - right. apply orb_true_iff. left. apply N.ltb_lt. exact Hgt.
Qed.

(* ---- sortedness ---- *)
Section Sorted.
  Context {A : Type}.
  Definition elt := (bytes * A)%type.
  Definition lt_e (x y : elt) : Prop := key_ltb (fst x) (fst y) = true.

  Lemma insert_sorted (e : elt) l :
    StronglySorted lt_e l -> ~ In (fst e) (map fst l) -> StronglySorted lt_e (insert_entry e l).
  Proof.
    induction l as [|x r IH]; intros Hs Hn; cbn [insert_entry].
    - constructor; constructor.
    - inversion Hs as [|? ? Hs' Hall]; subst.
      destruct (key_ltb (fst x) (fst e)) eqn:E.
      + constructor.
        * apply IH; [exact Hs'|]. intro Hin. apply Hn. right. exact Hin.
        * apply Forall_forall. intros y Hy.
          apply (Permutation_in _ (insert_perm e r)) in Hy. destruct Hy as [<-|Hy]; [exact E|].
          rewrite Forall_forall in Hall. apply Hall. exact Hy.
      + assert (Hex : lt_e e x).
        { destruct (key_ltb_total (fst e) (fst x)) as [H|H]; [|exact H|congruence].
          intro Heq. apply Hn. left. symmetry. exact Heq. }
        constructor; [exact Hs|]. constructor; [exact Hex|].
        apply Forall_forall. intros y Hy. rewrite Forall_forall in Hall.
        unfold lt_e in *. eapply key_ltb_trans; [exact Hex|]. apply Hall. exact Hy.
  Qed.

  Lemma sort_sorted (l : list elt) : NoDup (map fst l) -> StronglySorted lt_e (sort_entries l).
  Proof.
    induction l as [|e r IH]; intro Hnd; cbn [sort_entries]; [constructor|].
    inversion Hnd as [|? ? Hn Hnd']; subst. apply insert_sorted; [apply IH; exact Hnd'|].
    intro Hin. apply Hn.
    apply (Permutation_in _ (Permutation_map fst (sort_perm r))). exact Hin.
  Qed.

  Lemma sorted_perm_eq (l1 : list elt) : forall l2,
    StronglySorted lt_e l1 -> StronglySorted lt_e l2 -> Permutation l1 l2 -> l1 = l2.
  Proof.
    induction l1 as [|a l1 IH]; intros l2 H1 H2 Hp.
    - apply Permutation_nil in Hp. subst. reflexivity.
    - destruct l2 as [|b l2]; [apply Permutation_sym, Permutation_nil in Hp; discriminate|].
      inversion H1 as [|? ? H1' Ha]; subst. inversion H2 as [|? ? H2' Hb]; subst.
      assert (Eab : a = b).
      { assert (Hina : In a (b :: l2)) by (apply (Permutation_in _ Hp); left; reflexivity).
        assert (Hinb : In b (a :: l1)) by (apply (Permutation_in _ (Permutation_sym Hp)); left; reflexivity).
        destruct Hina as [Hina|Hina]; [congruence|]. destruct Hinb as [Hinb|Hinb]; [congruence|].
        rewrite Forall_forall in Ha, Hb. pose proof (Ha b Hinb) as X1. pose proof (Hb a Hina) as X2.
        unfold lt_e in *. pose proof (key_ltb_trans _ _ _ X1 X2) as X3. rewrite key_ltb_irrefl in X3. discriminate. }
      subst b. f_equal. apply IH; auto. eapply Permutation_cons_inv. exact Hp.
  Qed.

  Lemma sort_canonical (l1 l2 : list elt) :
    Permutation l1 l2 -> NoDup (map fst l1) -> sort_entries l1 = sort_entries l2.
  Proof.
    intros Hp Hnd. apply sorted_perm_eq.
    - apply sort_sorted. exact Hnd.
    - apply sort_sorted. eapply Permutation_NoDup; [|exact Hnd]. apply Permutation_map. exact Hp.
    - rewrite (sort_perm l1), (sort_perm l2). exact Hp.
  Qed.
End Sorted.

(* ---- formatting and normalisation do not depend on the order of the entry list ---- *)
Lemma filter_perm {A} (f : A -> bool) l1 l2 : Permutation l1 l2 -> Permutation (filter f l1) (filter f l2).
Proof.
  induction 1; cbn [filter].
  - constructor.
  - destruct (f x); [constructor|]; assumption.
  - destruct (f x), (f y); try constructor; try apply Permutation_refl. 
  - etransitivity; eassumption.
Qed.

Lemma map_fst_keyed {A B} (g : bytes * A -> B) l : map fst (map (fun kv => (fst kv, g kv)) l) = map fst l.
Proof. rewrite map_map. apply map_ext. reflexivity. Qed.

Lemma format_perm_lemma p sep l1 l2 :
  Permutation l1 l2 -> NoDup (map fst l1) ->
  fmt_obj p sep (ODict l1) = fmt_obj p sep (ODict l2) /\ norm (ODict l1) = norm (ODict l2).
Proof.
  intros Hp Hnd.
  assert (Hf : Permutation (filter nonnull l1) (filter nonnull l2)) by (apply filter_perm; exact Hp).
  assert (Hndf : NoDup (map fst (filter nonnull l1))) by (apply NoDup_filter_fst; exact Hnd).
  split.
  - rewrite !fmt_obj_dict. f_equal. f_equal. f_equal. f_equal. f_equal. f_equal.
    rewrite !fmt_frags_map. apply sort_canonical.
    + apply Permutation_map. exact Hf.
    + rewrite map_fst_keyed. exact Hndf.
  - rewrite !norm_dict. f_equal. rewrite !norm_entries_map. apply sort_canonical.
    + apply Permutation_map. exact Hf.
    + rewrite (map_fst_keyed (fun kv => norm (snd kv))). exact Hndf.
Qed.

(* ---- the keys of a formatted dictionary are strictly increasing ---- *)
Definition keys_sorted (ks : list bytes) : Prop :=
  StronglySorted (fun a b => key_ltb a b = true) ks.

Lemma sorted_map_fst {A} (l : list (bytes * A)) :
  StronglySorted (@lt_e A) l -> keys_sorted (map fst l).
Proof.
  induction 1 as [|x r Hs IH Hall]; cbn [map]; constructor; [exact IH|].
  apply Forall_forall. intros k Hk. apply in_map_iff in Hk as (y & <- & Hy).
  rewrite Forall_forall in Hall. apply Hall. exact Hy.
Qed.

Lemma dict_keys_sorted_lemma p sep l : NoDup (map fst l) ->
  let ks := map fst (sort_entries (fmt_frags p l)) in
  keys_sorted ks /\ Permutation ks (map fst (filter nonnull l)) /\
  fmt_obj p sep (ODict l) =
    (kw_ltlt ++ (if p then [cLF] else []) ++ concat (map snd (sort_entries (fmt_frags p l))) ++ kw_gtgt, false) /\
  exists es, norm (ODict l) = ODict es /\ map fst es = ks.
Proof.
  intros Hnd ks.
  assert (Hndf : NoDup (map fst (filter nonnull l))) by (apply NoDup_filter_fst; exact Hnd).
  assert (Hfr : map fst (fmt_frags p l) = map fst (filter nonnull l))
    by (rewrite fmt_frags_map; apply map_fst_keyed).
  split; [|split; [|split]].
  - subst ks. apply sorted_map_fst. apply sort_sorted. rewrite Hfr. exact Hndf.
  - subst ks. rewrite <- Hfr. apply Permutation_map. apply sort_perm.
  - apply fmt_obj_dict.
  - exists (sort_entries (norm_entries l)). split; [apply norm_dict|].
    subst ks. rewrite norm_entries_map, fmt_frags_map.
    rewrite (sort_map (fun kv => norm (snd kv))), (sort_map (fun kv => fmt_entry p (fst kv) (snd kv))).
    rewrite (map_fst_keyed (fun kv => norm (snd kv))), (map_fst_keyed (fun kv => fmt_entry p (fst kv) (snd kv))).
    reflexivity.
Qed.
