(* limits_reject: text whose string or name reaches the limit is rejected with a
   MalformedFileError - not with a panic, and not by running out of fuel. *)
From Coq Require Import List NArith ZArith Bool Lia.
From GoPdf.Base Require Import Bytes Res.
From GoPdf.C01 Require Import Lex Obj Num Names Strings Format Scan Wf
  LexProofs NamesProofs StringsProofs.
Import ListNotations.
Open Scope N_scope.

Local Ltac lim_case Hm :=
  match goal with
  | |- context [max_str ?L <=? blen ?acc] =>
    destruct (max_str L <=? blen acc) eqn:Elim; [reflexivity|];
    apply N.leb_gt in Elim; unfold blen in Elim
  end.

Lemma read_fmt_str_body_over L : forall l prev lvl ncl acc fuel rest,
  (fuel > length (fmt_str_body prev lvl ncl l))%nat ->
  max_str L <= N.of_nat (length acc + length l) ->
  read_str_body L fuel lvl false acc (fmt_str_body prev lvl ncl l ++ cRP :: rest) = Err Malformed.
Proof.
  induction l as [|c r IH]; intros prev lvl ncl acc fuel rest Hf Hm.
  - destruct fuel; [cbn in Hf; lia|]. cbn [fmt_str_body app read_str_body].
    replace (max_str L <=? blen acc) with true; [reflexivity|].
    symmetry. apply N.leb_le. unfold blen. cbn [length] in Hm. lia.
  - destruct fuel as [|fuel]; [cbn in Hf; lia|].
    cbn [fmt_str_body] in *.
    assert (Hm' : forall x, max_str L <= N.of_nat (length (x :: acc) + length r))
      by (intro x; cbn [length] in *; lia).
    destruct (c =? cCR) eqn:ECR.
    { apply N.eqb_eq in ECR; subst c.
      cbn [app read_str_body]. lim_case Hm. cbn. cbn [length] in Hf. apply IH; [lia|apply Hm']. }
    destruct (c =? cLF) eqn:ELF.
    { apply N.eqb_eq in ELF; subst c.
      match goal with |- context [if ?b then _ else _] => destruct b end.
      - cbn [app read_str_body]. lim_case Hm. cbn. cbn [length] in Hf. apply IH; [lia|apply Hm'].
      - cbn [app read_str_body]. lim_case Hm. cbn. cbn [length] in Hf. apply IH; [lia|apply Hm']. }
    destruct (c =? cLP) eqn:ELP.
    { apply N.eqb_eq in ELP; subst c.
      destruct (Nat.ltb lvl ncl).
      - cbn [app read_str_body]. lim_case Hm. cbn. cbn [length] in Hf. apply IH; [lia|apply Hm'].
      - cbn [app read_str_body]. lim_case Hm. cbn. cbn [length] in Hf. apply IH; [lia|apply Hm']. }
    destruct (c =? cRP) eqn:ERP.
    { apply N.eqb_eq in ERP; subst c.
      destruct lvl as [|l'].
      - cbn [app read_str_body]. lim_case Hm. cbn. cbn [length] in Hf. apply IH; [lia|apply Hm'].
      - cbn [app read_str_body]. lim_case Hm. cbn. cbn [length] in Hf. apply IH; [lia|apply Hm']. }
    destruct (c =? cBS) eqn:EBS.
    { apply N.eqb_eq in EBS; subst c.
      cbn [app read_str_body]. lim_case Hm. cbn. cbn [length] in Hf. apply IH; [lia|apply Hm']. }
    cbn [app read_str_body]. lim_case Hm. cbn [andb]. rewrite ELP, ERP, EBS, ECR. cbn [length] in Hf.
    apply IH; [lia|apply Hm'].
Qed.

Lemma string_limit_lemma L s rest : max_str L <= blen s ->
  read_string_tok L (fmt_str_lit s ++ rest) = Err Malformed.
Proof.
  intro Hm. unfold fmt_str_lit, read_string_tok, read_string. cbn [app]. change (cLP =? cLP) with true. cbn iota.
  rewrite <- app_assoc. cbn [app].
  apply read_fmt_str_body_over.
  - rewrite app_length. cbn [length]. lia.
  - unfold blen in Hm. cbn [length]. lia.
Qed.

Lemma read_fmt_name_body_over L : forall n acc b rest,
  wfbs n = true -> max_name L <= N.of_nat (length acc + length n) ->
  read_name_loop L acc (fmt_name_body n ++ b :: rest) = Err Malformed.
Proof.
  induction n as [|c r IH]; intros acc b rest Hw Hm.
  - cbn [fmt_name_body app read_name_loop].
    replace (max_name L <=? blen acc) with true; [reflexivity|].
    symmetry. apply N.leb_le. unfold blen. cbn [length] in Hm. lia.
  - apply wfbs_cons in Hw as [Hc Hw].
    assert (Hm' : forall x, max_name L <= N.of_nat (length (x :: acc) + length r))
      by (intro x; cbn [length] in *; lia).
    cbn [fmt_name_body]. destruct (funny c) eqn:Ef.
    + destruct (hex_pair_rt c Hc) as (H1 & H2 & H3).
      cbn [app read_name_loop]. destruct (max_name L <=? blen acc); [reflexivity|].
      change (cHASH =? cHASH) with true. cbn iota. rewrite H1, H2. cbn [andb]. rewrite H3.
      apply IH; auto.
    + apply not_funny in Ef as [Hr Hh].
      cbn [app read_name_loop]. destruct (max_name L <=? blen acc); [reflexivity|].
      rewrite Hh, Hr. cbn [negb]. apply IH; auto.
Qed.

Lemma name_limit_lemma L n b rest : wfbs n = true -> max_name L <= blen n ->
  read_name L (fmt_name n ++ b :: rest) = Err Malformed.
Proof.
  intros Hw Hm. unfold fmt_name, read_name. cbn [app]. change (cSLASH =? cSLASH) with true. cbn iota.
  apply read_fmt_name_body_over; [exact Hw|]. unfold blen in Hm. cbn [length]. lia.
Qed.
