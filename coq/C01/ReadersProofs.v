(* The interface-style readers (Readers.v) and the list readers (Lex/Names/Num/Strings/Scan)
   agree when run over a plain byte list; with BufSrcProofs.run_buf_list this gives
   buffering transparency of the list readers themselves. *)
From Coq Require Import List NArith ZArith Bool Lia.
From GoPdf.Base Require Import Bytes Res.
From GoPdf.C01 Require Import Lex Obj Num Names Strings Scan BufSrc BufSrcProofs Readers.
Import ListNotations.
Open Scope N_scope.

(* p computes R: same value and same rest, or the same error *)
Definition agrees {X} (p : rprog (res X)) (R : bytes -> res (X * bytes)) : Prop :=
  forall s, match R s with
            | Ok (x, r) => run_list p s = (Ok x, r)
            | Err e => fst (run_list p s) = Err e
            end.

Lemma run_list_pbind {St A B} (p : prog St A) (f : A -> prog St B) : forall s,
  run_list (pbind p f) s = let (a, r) := run_list p s in run_list (f a) r.
Proof.
  induction p as [a | n adv k IH | a0 acc k IH]; intros s; cbn [pbind run_list].
  - reflexivity.
  - apply IH.
  - destruct (scan_list acc a0 s) as [[a r] e]. apply IH.
Qed.
Lemma wf_pbind BUF full {St A B} (p : prog St A) (f : A -> prog St B) :
  wf_prog BUF full p -> (forall a, wf_prog BUF full (f a)) -> wf_prog BUF full (pbind p f).
Proof.
  induction p as [a | n adv k IH | a0 acc k IH]; cbn [pbind wf_prog]; intros Hp Hf.
  - apply Hf.
  - destruct Hp as (Hn & Hk). split; [exact Hn|]. intros w. apply IH; auto.
  - destruct Hp as (Hn & Hk). split; [exact Hn|]. intros a e. apply IH; auto.
Qed.

(* ---- SkipWhiteSpace ---- *)
Lemma ws_scan : forall s cmt,
  match skip_ws_aux cmt s with
  | Ok r => exists c, scan_list ws_acc (CWs cmt) s = (c, r, false)
  | Err e => e = EOF /\ exists c, scan_list ws_acc (CWs cmt) s = (c, [], true)
  end.
Proof.
  induction s as [|b r IH]; intros cmt; cbn [skip_ws_aux scan_list].
  - split; [reflexivity|]. eexists; reflexivity.
  - unfold ws_acc. destruct cmt.
    + apply IH.
    + destruct (b =? cPCT); [apply IH|]. destruct (is_space b); [apply IH|].
      eexists; reflexivity.
Qed.
Lemma skip_ws_agrees :
  agrees skip_ws_p (fun s => match skip_ws s with Ok r => Ok (tt, r) | Err e => Err e end).
Proof.
  intros s. unfold skip_ws_p, skip_ws. cbn [run_list].
  pose proof (ws_scan s false) as H. destruct (skip_ws_aux false s) as [r|e0].
  - destruct H as (c1 & ->). reflexivity.
  - destruct H as (-> & c1 & ->). reflexivity.
Qed.

(* ---- ReadName ---- *)
Lemma name_loop_agrees L : forall fuel acc s, (length s < fuel)%nat ->
  match read_name_loop L acc s with
  | Ok (x, r) => run_list (read_name_loop_p L fuel acc) s = (Ok x, r)
  | Err e => fst (run_list (read_name_loop_p L fuel acc) s) = Err e
  end.
Proof.
  induction fuel as [|f IH]; intros acc s Hf; [lia|].
  destruct s as [|b r]; [reflexivity|].
  cbn [read_name_loop read_name_loop_p run_list firstn name_adv length].
  destruct (max_name L <=? blen acc); [reflexivity|].
  destruct (b =? cHASH) eqn:Eh.
  - cbn [Nat.min skipn run_list].
    destruct r as [|h [|l r']]; cbn [firstn hex_ok length Nat.min skipn].
    + apply IH. cbn [length] in *. lia.
    + apply IH. cbn [length] in *. lia.
    + destruct (is_hex h && is_hex l); cbn [Nat.min skipn]; apply IH; cbn [length] in *; lia.
  - destruct (negb (is_regular b)); [reflexivity|].
    cbn [Nat.min skipn]. apply IH. cbn [length] in Hf. lia.
Qed.
Lemma read_name_agrees L fuel : forall s, (length s <= fuel)%nat ->
  match read_name L s with
  | Ok (x, r) => run_list (read_name_p L fuel) s = (Ok x, r)
  | Err e => fst (run_list (read_name_p L fuel) s) = Err e
  end.
Proof.
  intros s Hf. destruct s as [|b r]; [reflexivity|].
  cbn [read_name read_name_p run_list firstn skip1_adv length].
  destruct (b =? cSLASH); [|reflexivity].
  cbn [Nat.min skipn]. apply name_loop_agrees. cbn [length] in Hf. lia.
Qed.

(* ---- ReadNumber ---- *)
Lemma num_acc_eq t hd first b : num_acc (CNum t hd first) b =
  if negb hd && (b =? cDOT) then (CNum (b :: t) true false, true)
  else if (first && ((b =? cPLUS) || (b =? cMINUS))) || is_digit b then (CNum (b :: t) hd false, true)
  else (CNum t hd first, false).
Proof. reflexivity. Qed.
Lemma num_scan : forall s t0 hd first,
  let '(t, hd', rest) := scan_num hd first s in
  exists f' e, scan_list num_acc (CNum t0 hd first) s = (CNum (rev t ++ t0) hd' f', rest, e).
Proof.
  induction s as [|b r IH]; intros t0 hd first; cbn [scan_num scan_list].
  - eexists; eexists; reflexivity.
  - rewrite num_acc_eq.
    destruct (negb hd && (b =? cDOT)).
    + specialize (IH (b :: t0) true false). destruct (scan_num true false r) as [[t hd'] rest].
      destruct IH as (f' & e & IH). exists f', e. cbn [rev]. rewrite <- app_assoc. exact IH.
    + destruct ((first && ((b =? cPLUS) || (b =? cMINUS))) || is_digit b).
      * specialize (IH (b :: t0) hd false). destruct (scan_num hd false r) as [[t hd'] rest].
        destruct IH as (f' & e & IH). exists f', e. cbn [rev]. rewrite <- app_assoc. exact IH.
      * eexists; eexists; reflexivity.
Qed.
Lemma read_number_agrees L : agrees (read_number_p L) (read_number L).
Proof.
  intros s. unfold read_number, read_number_p. cbn [run_list].
  pose proof (num_scan s [] false true) as H.
  destruct (scan_num false true s) as [[t hd] rest]. destruct H as (f' & e & H).
  match goal with |- context [scan_list ?a ?b ?c] =>
    replace (scan_list a b c) with (CNum (rev t ++ []) hd f', rest, e) by (symmetry; exact H) end.
  rewrite app_nil_r, rev_involutive. unfold number_of. cbn [run_list].
  destruct (max_name L <? blen t); [reflexivity|].
  destruct (if hd then None else parse_int_tok t); [reflexivity|].
  destruct (float_ok t); reflexivity.
Qed.

(* ---- ReadString ---- *)
Lemma read_str_agrees L : forall fuel lvl ign acc s,
  match read_str_body L fuel lvl ign acc s with
  | Ok (x, r) => run_list (read_str_p L fuel lvl ign acc) s = (Ok x, r)
  | Err e => fst (run_list (read_str_p L fuel lvl ign acc) s) = Err e
  end.
Proof.
  induction fuel as [|f IH]; intros lvl ign acc s; [reflexivity|].
  cbn [read_str_body read_str_p].
  destruct (max_str L <=? blen acc); [reflexivity|].
  destruct s as [|b r]; [reflexivity|].
  cbn [read_byte run_list firstn hd_error length Nat.min skipn].
  destruct (ign && (b =? cLF)); [apply IH|].
  destruct (b =? cLP); [apply IH|].
  destruct (b =? cRP); [destruct lvl; [reflexivity|apply IH]|].
  destruct (b =? cBS).
  - destruct r as [|e r']; [reflexivity|].
    cbn [read_byte run_list firstn hd_error length Nat.min skipn].
    destruct (e =? 110); [apply IH|]. destruct (e =? 114); [apply IH|].
    destruct (e =? 116); [apply IH|]. destruct (e =? 98); [apply IH|].
    destruct (e =? 102); [apply IH|]. destruct (e =? cLF); [apply IH|].
    destruct (e =? cCR); [apply IH|].
    destruct (is_oct e); [|apply IH].
    destruct r' as [|d1 r2]; cbn [run_list firstn oct_adv length Nat.min skipn]; [apply IH|].
    destruct (is_oct d1); cbn [Nat.min skipn]; [|apply IH].
    destruct r2 as [|d2 r3]; cbn [run_list firstn oct_adv length Nat.min skipn]; [apply IH|].
    destruct (is_oct d2); cbn [Nat.min skipn]; apply IH.
  - destruct (b =? cCR); apply IH.
Qed.
Lemma read_string_agrees L : forall s,
  match read_string L s with
  | Ok (x, r) => run_list (read_string_p L (S (length s))) s = (Ok x, r)
  | Err e => fst (run_list (read_string_p L (S (length s))) s) = Err e
  end.
Proof. intros s. apply read_str_agrees. Qed.

(* ---- ReadHexString ---- *)
Lemma hex_acc_eq L hv acc tl b : hex_acc L (CHex hv acc tl) b =
  if is_hex b then
    match hv with
    | None => (CHex (Some (hex_val b)) acc tl, true)
    | Some h =>
      if max_str L <=? blen acc then (CHex hv acc true, false)
      else (CHex None ((16 * h + hex_val b) mod 256 :: acc) tl, true)
    end
  else if b =? cGT then (CHex hv acc tl, false)
  else (CHex hv acc tl, true).
Proof. reflexivity. Qed.
Lemma hex_scan L : forall s hv acc,
  match read_hex_body L hv acc s with
  | Ok (x, r) => exists hv' acc',
      scan_list (hex_acc L) (CHex hv acc false) s = (CHex hv' acc' false, cGT :: r, false) /\
      x = rev (match hv' with Some h => (16 * h) mod 256 :: acc' | None => acc' end)
  | Err Malformed => exists hv' acc' rest, scan_list (hex_acc L) (CHex hv acc false) s = (CHex hv' acc' true, rest, false)
  | Err EOF => exists hv' acc' tl, scan_list (hex_acc L) (CHex hv acc false) s = (CHex hv' acc' tl, [], true)
  | Err _ => False
  end.
Proof.
  induction s as [|b r IH]; intros hv acc; cbn [read_hex_body scan_list].
  - eexists; eexists; eexists; reflexivity.
  - rewrite hex_acc_eq. destruct (is_hex b).
    + destruct hv as [h|]; [|apply IH].
      destruct (max_str L <=? blen acc); [|apply IH].
      eexists; eexists; eexists; reflexivity.
    + destruct (b =? cGT) eqn:Eg; [|apply IH].
      apply N.eqb_eq in Eg. subst b. eexists; eexists; split; reflexivity.
Qed.
Lemma read_hex_agrees L : agrees (read_hex_p L) (read_hex_string L).
Proof.
  intros s. unfold read_hex_string, read_hex_p. cbn [run_list].
  pose proof (hex_scan L s None []) as H.
  destruct (read_hex_body L None [] s) as [[x r]|e].
  - destruct H as (hv' & acc' & H & ->).
    match goal with |- context [scan_list ?a ?b ?c] =>
      replace (scan_list a b c) with (CHex hv' acc' false, cGT :: r, false) by (symmetry; exact H) end.
    cbn [run_list firstn skip1_adv length]. change (cGT =? cGT) with true. reflexivity.
  - destruct e; try contradiction.
    + destruct H as (hv' & acc' & rest & H).
      match goal with |- context [scan_list ?a ?b ?c] =>
        replace (scan_list a b c) with (CHex hv' acc' true, rest, false) by (symmetry; exact H) end.
      reflexivity.
    + destruct H as (hv' & acc' & tl & H).
      match goal with |- context [scan_list ?a ?b ?c] =>
        replace (scan_list a b c) with (CHex hv' acc' tl, @nil byte, true) by (symmetry; exact H) end.
      reflexivity.
Qed.

(* the fuel of ReadString is immaterial once it exceeds the input *)
Lemma str_fuel_indep L : forall f1 f2 lvl ign acc s,
  (length s < f1)%nat -> (length s < f2)%nat ->
  read_str_body L f1 lvl ign acc s = read_str_body L f2 lvl ign acc s.
Proof.
  induction f1 as [|f1 IH]; intros f2 lvl ign acc s H1 H2; [lia|].
  destruct f2 as [|f2]; [lia|].
  cbn [read_str_body].
  destruct (max_str L <=? blen acc); [reflexivity|].
  destruct s as [|b r]; [reflexivity|].
  assert (T : forall lvl ign acc, read_str_body L f1 lvl ign acc r = read_str_body L f2 lvl ign acc r)
    by (intros; apply IH; cbn [length] in *; lia).
  destruct (ign && (b =? cLF)); [apply T|].
  destruct (b =? cLP); [apply T|].
  destruct (b =? cRP); [destruct lvl; [reflexivity|apply T]|].
  destruct (b =? cBS).
  - destruct r as [|e r']; [reflexivity|].
    assert (T1 : forall lvl ign acc, read_str_body L f1 lvl ign acc r' = read_str_body L f2 lvl ign acc r')
      by (intros; apply IH; cbn [length] in *; lia).
    destruct (e =? 110); [apply T1|]. destruct (e =? 114); [apply T1|].
    destruct (e =? 116); [apply T1|]. destruct (e =? 98); [apply T1|].
    destruct (e =? 102); [apply T1|]. destruct (e =? cLF); [apply T1|].
    destruct (e =? cCR); [apply T1|].
    destruct (is_oct e); [|apply T1].
    destruct r' as [|d1 r2]; [apply T1|].
    assert (T2 : forall lvl ign acc, read_str_body L f1 lvl ign acc r2 = read_str_body L f2 lvl ign acc r2)
      by (intros; apply IH; cbn [length] in *; lia).
    destruct (is_oct d1); [|apply T1].
    destruct r2 as [|d2 r3]; [apply T2|].
    destruct (is_oct d2); [|apply T2].
    apply IH; cbn [length] in *; lia.
  - destruct (b =? cCR); apply T.
Qed.

(* ---- ReadObject on values that are not composite ---- *)
Lemma starts_with_firstn : forall kw n s, (length kw <= n)%nat ->
  starts_with kw (firstn n s) = starts_with kw s.
Proof.
  induction kw as [|a kw IH]; intros n s Hn; [destruct (firstn n s), s; reflexivity|].
  destruct n as [|n]; [cbn [length] in Hn; lia|].
  destruct s as [|b s]; [reflexivity|].
  cbn [firstn starts_with]. rewrite IH; [reflexivity | cbn [length] in Hn; lia].
Qed.
Lemma starts_with_len : forall kw s, starts_with kw s = true -> (length kw <= length s)%nat.
Proof.
  induction kw as [|a kw IH]; intros s H; [cbn; lia|].
  destruct s as [|b s]; [discriminate|]. cbn [starts_with] in H.
  apply andb_true_iff in H as (_ & H). apply IH in H. cbn [length]. lia.
Qed.
Lemma drop_skipn : forall n s, drop n s = skipn n s.
Proof. induction n as [|n IH]; intros s; [reflexivity|]. destruct s; [reflexivity|]. apply IH. Qed.

Definition composite_head (s : bytes) : bool :=
  starts_with kw_ltlt s || match s with b :: _ => b =? cLB | [] => false end.

Lemma read_atom_agrees L fuel f d : forall s, (length s <= fuel)%nat ->
  composite_head s = false ->
  match read_object L (S f) d s with
  | Ok (x, r) => run_list (read_atom_p L fuel) s = (Ok x, r)
  | Err e => fst (run_list (read_atom_p L fuel) s) = Err e
  end.
Proof.
  intros s Hf Hc. destruct s as [|b r]; [reflexivity|].
  cbn [read_object read_atom_p run_list].
  set (s := b :: r) in *.
  set (w := firstn 5 s) in *.
  assert (Hw : w = b :: firstn 4 r) by reflexivity.
  assert (Hk : forall kw, (length kw <= 5)%nat -> starts_with kw w = starts_with kw s)
    by (intros; apply starts_with_firstn; assumption).
  assert (Hadv : forall kw k, (length kw = k)%nat -> starts_with kw w = true ->
                 Nat.min k (length w) = k).
  { intros kw k <- H. apply starts_with_len in H. lia. }
  clearbody w. destruct w as [|b0 w']; [discriminate|]. injection Hw as -> Hw'.
  unfold atom_adv. cbv iota.
  rewrite !Hk by (cbn; lia).
  unfold composite_head in Hc. apply orb_false_iff in Hc as (Hc1 & Hc2). cbv iota in Hc2.
  destruct (starts_with kw_null s) eqn:E1.
  { rewrite (Hadv kw_null 4%nat) by (try reflexivity; rewrite Hk by (cbn; lia); exact E1).
    rewrite (drop_skipn 4 s). reflexivity. }
  destruct (starts_with kw_true s) eqn:E2.
  { rewrite (Hadv kw_true 4%nat) by (try reflexivity; rewrite Hk by (cbn; lia); exact E2).
    rewrite (drop_skipn 4 s). reflexivity. }
  destruct (starts_with kw_false s) eqn:E3.
  { rewrite (Hadv kw_false 5%nat) by (try reflexivity; rewrite Hk by (cbn; lia); exact E3).
    rewrite (drop_skipn 5 s). reflexivity. }
  destruct (b =? cSLASH) eqn:E4.
  { cbn [Nat.min skipn]. unfold pmap. rewrite run_list_pbind.
    pose proof (read_name_agrees L fuel s Hf) as H. destruct (read_name L s) as [[n r']|e].
    - rewrite H. reflexivity.
    - destruct (run_list (read_name_p L fuel) s) as [a r']. cbn [fst] in H. subst a. reflexivity. }
  destruct (num_start b) eqn:E5.
  { cbn [Nat.min skipn]. apply read_number_agrees. }
  rewrite Hc1.
  destruct (b =? cLP) eqn:E6.
  { subst s. cbn [length Nat.min skipn]. unfold pmap. rewrite run_list_pbind.
    pose proof (read_str_agrees L fuel 0 false [] r) as H.
    unfold read_string. rewrite (str_fuel_indep L (S (length r)) fuel) by (cbn [length] in Hf; lia).
    fold (read_string_p L fuel) in H.
    destruct (read_str_body L fuel 0 false [] r) as [[v r']|e].
    - rewrite H. reflexivity.
    - destruct (run_list (read_string_p L fuel) r) as [a r']. cbn [fst] in H. subst a. reflexivity. }
  destruct (b =? cLT) eqn:E7.
  { subst s. cbn [length Nat.min skipn]. unfold pmap. rewrite run_list_pbind.
    pose proof (read_hex_agrees L r) as H.
    destruct (read_hex_string L r) as [[v r']|e].
    - rewrite H. reflexivity.
    - destruct (run_list (read_hex_p L) r) as [a r']. cbn [fst] in H. subst a. reflexivity. }
  subst s. cbv beta iota in Hc2. rewrite Hc2. reflexivity.
Qed.

(* ---- all windows of the readers fit a buffer of five bytes or more ---- *)
Ltac wf_step IH :=
  first
    [ exact I
    | apply IH
    | progress cbn [wf_prog read_byte pbind pmap]
    | match goal with
      | |- _ /\ _ => split; [first [lia | reflexivity] | intros]
      | |- forall _, _ => intros
      | |- wf_prog _ _ (if ?c then _ else _) => destruct c
      | |- wf_prog _ _ (match ?x with _ => _ end) => destruct x
      | |- wf_prog _ _ (let '(_, _) := ?x in _) => destruct x
      end ].

Section WF.
  Variable BUF : nat.
  Hypothesis HB : (5 <= BUF)%nat.
  Variable L : limits.

  Lemma wfp_skip_ws : wf_prog BUF true skip_ws_p.
  Proof. unfold skip_ws_p. repeat wf_step I. Qed.
  Lemma wfp_name_loop : forall fuel acc, wf_prog BUF true (read_name_loop_p L fuel acc).
  Proof. induction fuel as [|f IH]; intros acc; cbn [read_name_loop_p]; repeat wf_step IH. Qed.
  Lemma wfp_name fuel : wf_prog BUF true (read_name_p L fuel).
  Proof. unfold read_name_p. repeat wf_step wfp_name_loop. Qed.
  Lemma wfp_number : wf_prog BUF true (read_number_p L).
  Proof. unfold read_number_p. repeat wf_step I. Qed.
  Lemma wfp_str : forall fuel lvl ign acc, wf_prog BUF true (read_str_p L fuel lvl ign acc).
  Proof. induction fuel as [|f IH]; intros lvl ign acc; cbn [read_str_p]; repeat wf_step IH. Qed.
  Lemma wfp_hex : wf_prog BUF true (read_hex_p L).
  Proof. unfold read_hex_p. repeat wf_step I. Qed.
  Lemma wfp_atom fuel : wf_prog BUF true (read_atom_p L fuel).
  Proof.
    unfold read_atom_p. cbn [wf_prog]. split; [exact HB|]. intros w.
    destruct w as [|b w']; [exact I|].
    repeat match goal with |- wf_prog _ _ (if ?c then _ else _) => destruct c end;
      try exact I; try apply wfp_number;
      unfold pmap; apply wf_pbind; try (intros; exact I);
      [apply wfp_name | apply wfp_str | apply wfp_hex].
  Qed.
End WF.

(* ---- a reader over the buffered source computes the list reader ---- *)
Definition reads (BUF : nat) (full : bool) {X} (p : rprog (res X)) (R : bytes -> res (X * bytes))
  (st : bstate) : Prop :=
  match R (view st) with
  | Ok (x, r) => exists st', run_buf BUF full p st = (Ok x, st') /\ view st' = r /\ binv BUF st'
  | Err e => fst (run_buf BUF full p st) = Err e
  end.

Lemma reads_of_agrees BUF full {X} (p : rprog (res X)) R st :
  (1 <= BUF)%nat -> wf_prog BUF full p -> binv BUF st ->
  match R (view st) with
  | Ok (x, r) => run_list p (view st) = (Ok x, r)
  | Err e => fst (run_list p (view st)) = Err e
  end -> reads BUF full p R st.
Proof.
  intros HB Hwf Hi H. unfold reads.
  pose proof (run_buf_list BUF full HB p Hwf st Hi) as T.
  destruct (run_buf BUF full p st) as [a st']. destruct T as (T & Hi').
  destruct (R (view st)) as [[x r]|e].
  - rewrite T in H. injection H as -> <-. exists st'. auto.
  - rewrite T in H. exact H.
Qed.

Theorem buffering_transparent_lemma : forall BUF L fuel f d st,
  (5 <= BUF)%nat -> binv BUF st -> (length (view st) < fuel)%nat ->
  reads BUF true skip_ws_p (fun s => match skip_ws s with Ok r => Ok (tt, r) | Err e => Err e end) st /\
  reads BUF true (read_name_p L fuel) (read_name L) st /\
  reads BUF true (read_number_p L) (read_number L) st /\
  reads BUF true (read_string_p L fuel) (read_string L) st /\
  reads BUF true (read_hex_p L) (read_hex_string L) st /\
  (composite_head (view st) = false -> reads BUF true (read_atom_p L fuel) (read_object L (S f) d) st).
Proof.
  intros BUF L fuel f d st HB Hi Hf.
  assert (H1 : (1 <= BUF)%nat) by lia.
  split; [|split; [|split; [|split; [|split]]]].
  - apply reads_of_agrees; [exact H1 | apply wfp_skip_ws; exact HB | exact Hi | apply skip_ws_agrees].
  - apply reads_of_agrees; [exact H1 | apply wfp_name; exact HB | exact Hi | apply read_name_agrees; lia].
  - apply reads_of_agrees; [exact H1 | apply wfp_number; exact HB | exact Hi | apply read_number_agrees].
  - apply reads_of_agrees; [exact H1 | apply wfp_str; exact HB | exact Hi | ].
    unfold read_string. rewrite (str_fuel_indep L (S (length (view st))) fuel).
    + apply (read_str_agrees L fuel 0 false [] (view st)).
    + lia.
    + exact Hf.
  - apply reads_of_agrees; [exact H1 | apply wfp_hex; exact HB | exact Hi | apply read_hex_agrees].
  - intros Hc. apply reads_of_agrees; [exact H1 | apply wfp_atom; exact HB | exact Hi | ].
    apply read_atom_agrees; [lia | exact Hc].
Qed.

Lemma scanner_buf_ge5 : (5 <= scanner_buf)%nat.
Proof. unfold scanner_buf. apply Nat.leb_le. vm_compute. reflexivity. Qed.

Theorem buffering_transparent_scanner : forall L fuel f d st,
  binv scanner_buf st -> (length (view st) < fuel)%nat ->
  reads scanner_buf true skip_ws_p (fun s => match skip_ws s with Ok r => Ok (tt, r) | Err e => Err e end) st /\
  reads scanner_buf true (read_name_p L fuel) (read_name L) st /\
  reads scanner_buf true (read_number_p L) (read_number L) st /\
  reads scanner_buf true (read_string_p L fuel) (read_string L) st /\
  reads scanner_buf true (read_hex_p L) (read_hex_string L) st /\
  (composite_head (view st) = false ->
   reads scanner_buf true (read_atom_p L fuel) (read_object L (S f) d) st).
Proof.
  intros L fuel f d st Hi Hf. apply buffering_transparent_lemma; [apply scanner_buf_ge5 | exact Hi | exact Hf].
Qed.

(* every chunking of the data is a legal start: the scanner then sees exactly the data *)
Theorem scanner_start_ok : forall chunks,
  Forall nonempty chunks ->
  binv scanner_buf (scanner_start chunks) /\ view (scanner_start chunks) = concat chunks.
Proof.
  intros chunks H. split; [apply binv_start; exact H | apply view_start].
Qed.
