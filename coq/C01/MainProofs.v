(* The statements of Prop_C01.v that combine several proof files. *)
From Coq Require Import List NArith ZArith Bool Lia.
From GoPdf.Base Require Import Bytes Res.
From GoPdf.C01 Require Import Lex Obj Num Names Strings Format Scan Wf
  LexProofs FormatProofs ScanProofs SortProofs CanonProofs FuelProofs LimitProofs.
Import ListNotations.
Open Scope N_scope.

(* the property as its text reads it: values equal up to canon *)
Lemma scan_format_canon_lemma L p os :
  wf_list L os = true ->
  exists vs, scan_objects L (format p os) = Ok (vs, []) /\ map canon vs = map canon os.
Proof.
  intro Hw. exists (map norm os). split.
  - apply scan_objects_format_lemma. exact Hw.
  - apply norm_canon_list with (L := L). exact Hw.
Qed.

(* several values one after another stay separately parseable, in order: the list version of
   scan_format instantiated for a concatenation *)
Lemma scan_format_app_lemma L p os1 os2 :
  wf_list L (os1 ++ os2) = true ->
  scan_objects L (format p (os1 ++ os2)) = Ok (map norm os1 ++ map norm os2, []).
Proof. intro Hw. rewrite <- map_app. apply scan_objects_format_lemma. exact Hw. Qed.

(* limits: strings and names at or beyond the limit are rejected as malformed *)
Lemma limits_reject_lemma L :
  (forall s rest, max_str L <= blen s -> read_string_tok L (fmt_str_lit s ++ rest) = Err Malformed) /\
  (forall n b rest, wfbs n = true -> max_name L <= blen n -> read_name L (fmt_name n ++ b :: rest) = Err Malformed).
Proof.
  split.
  - intros. apply string_limit_lemma. assumption.
  - intros. apply name_limit_lemma; assumption.
Qed.

(* ---- OutputOptions ---- *)
Lemma inert_option_lemma mask o os : In o inert_options ->
  format_opt (Z.lor mask o) os = format_opt mask os.
Proof.
  intros Hin. unfold format_opt, has_opt. rewrite Z.land_lor_distr_l.
  replace (Z.land o Gen_C01.OptPretty) with 0%Z; [rewrite Z.lor_0_r; reflexivity|].
  cbn [inert_options In] in Hin. destruct Hin as [<-|[<-|[<-|[<-|[]]]]]; reflexivity.
Qed.
Theorem options_lemma : forall L mask os, wf_list L os = true ->
  scan_objects L (format_opt mask os) = Ok (map norm os, []) /\
  (forall o, In o inert_options -> format_opt (Z.lor mask o) os = format_opt mask os).
Proof.
  intros L mask os Hw. split; [apply scan_objects_format_lemma; exact Hw|].
  intros o Ho. apply inert_option_lemma. exact Ho.
Qed.
